(* State/Refine.v — the implementation model State/Journal.v refines the reference
   model State/Ref.v: well-formedness is preserved by every call inside its guard, the
   coupling relation R is preserved by every call (snapshots and reverts with arbitrary
   nesting through the exact-restore theorem of JournalProofs.v), hence every getter
   agrees after every guarded history. *)
From Coq Require Import ssreflect.
From stdpp Require Import gmap.
From Coq Require Import NArith ZArith Lia.
From RecordUpdate Require Import RecordSet.
Import RecordSetNotations.
From GV Require Import State.Ref State.Journal State.JournalProofs.
Local Open Scope N_scope.

Ltac rc := cbv beta iota delta [set accts touched tstor al_a al_s refund logs
  r_cur r_stack r_next r_sticky r_th r_ti] in *.

(* committed / get_state read the state only through the reader and the destruct markers *)
Lemma committed_env j j' a o k :
  j_db j' = j_db j → j_destruct j' = j_destruct j → committed j' a o k = committed j a o k.
Proof. intros H1 H2. unfold committed, db_stor. by rewrite H1 H2. Qed.
Lemma get_state_env j j' a o k :
  j_db j' = j_db j → j_destruct j' = j_destruct j → get_state j' a o k = get_state j a o k.
Proof. intros H1 H2. unfold get_state. by rewrite (committed_env j j'). Qed.

(* ------------------------------------------------------------------ *)
(* the common shape of the journalled account mutations *)
Definition jupd (a : addr) (e : jentry) (k : kind) (v : N) (o' : sobj) (j : jstate) : jstate :=
  j <| j_objs ::= <[a := o']> |> <| j_entries ::= cons e |>
    <| j_muts ::= <[a := m_add k (stash_k k v (mstate_for a j))]> |>.

Lemma create_object_upd a j :
  create_object a j = jupd a (JCreateObject a) KCreate 0 (new_object None) j.
Proof. destruct j; unfold jupd; unf; rj; simpl. done. Qed.
Lemma set_balance_upd a o v j :
  obj_set_balance a o v j
  = jupd a (JBalance a (a_bal (o_data o))) KBalance (a_bal (o_data o))
         (o <| o_data ::= (λ d, d <| a_bal := v |>) |>) j.
Proof. destruct j; unfold jupd; unf; rj; simpl. f_equal. by rewrite lookup_insert insert_insert. Qed.
Lemma set_nonce_upd a o v j :
  obj_set_nonce a o v j
  = jupd a (JNonce a (a_nonce (o_data o))) KNonce (a_nonce (o_data o))
         (o <| o_data ::= (λ d, d <| a_nonce := v |>) |>) j.
Proof. destruct j; unfold jupd; unf; rj; simpl. f_equal. by rewrite lookup_insert insert_insert. Qed.
Lemma set_code_upd a o v j :
  obj_set_code a o v j
  = jupd a (JCode a (a_code (o_data o))) KCode (a_code (o_data o))
         (o <| o_data ::= (λ d, d <| a_code := v |>) |>) j.
Proof. destruct j; unfold jupd; unf; rj; simpl. f_equal. by rewrite lookup_insert insert_insert. Qed.
Lemma set_state_upd a o k v j :
  obj_set_state a o k v j
  = jupd a (JStorage a k (get_state j a o k) (committed j a o k)) KStorage 0
         (set_state k v (committed j a o k) o) j.
Proof. destruct j; unfold jupd; unf; rj; simpl. done. Qed.
Lemma self_destruct_upd a o j :
  obj_self_destruct a o j = jupd a (JSelfDestruct a) KSelfDestruct 0 (o <| o_sd := true |>) j.
Proof. destruct j; unfold jupd; unf; rj; simpl. done. Qed.
Lemma touch_upd a o j :
  a ≠ ripemd → j_objs j !! a = Some o → touch_change a j = jupd a (JTouch a) KTouch 0 o j.
Proof.
  intros Hr Ho. unfold touch_change. rewrite bool_decide_false //.
  destruct j; unfold jupd; unf; rj; simpl in *. f_equal. by rewrite insert_id.
Qed.

Lemma jupd_proj a e k v o' j :
  j_db (jupd a e k v o' j) = j_db j ∧ j_destruct (jupd a e k v o' j) = j_destruct j ∧
  j_objs (jupd a e k v o' j) = <[a := o']> (j_objs j) ∧
  j_muts (jupd a e k v o' j) = <[a := m_add k (stash_k k v (mstate_for a j))]> (j_muts j) ∧
  j_entries (jupd a e k v o' j) = e :: j_entries j ∧
  j_bad (jupd a e k v o' j) = j_bad j ∧ j_ala (jupd a e k v o' j) = j_ala j ∧
  j_als (jupd a e k v o' j) = j_als j ∧ j_logs (jupd a e k v o' j) = j_logs j ∧
  j_logsize (jupd a e k v o' j) = j_logsize j ∧ j_tstor (jupd a e k v o' j) = j_tstor j ∧
  j_refund (jupd a e k v o' j) = j_refund j ∧ j_th (jupd a e k v o' j) = j_th j ∧
  j_ti (jupd a e k v o' j) = j_ti j ∧ j_revs (jupd a e k v o' j) = j_revs j ∧
  j_nextrev (jupd a e k v o' j) = j_nextrev j.
Proof. destruct j; unfold jupd; rj; simpl. done. Qed.

Lemma counts_zero_add_stash k v m : mok m → counts_zero (m_add k (stash_k k v m)) = false.
Proof.
  intros ((H1 & H2 & H3 & H4 & H5 & H6 & H7) & _). apply counts_zero_false.
  destruct m as [? ? ? ? ? ? ? sb sn sc]; destruct k; unfold m_add, stash_k; simpl in *;
    try destruct sb; try destruct sn; try destruct sc; rs; lia.
Qed.

Lemma mok_for j a : wf j → mok (mstate_for a j).
Proof.
  intros W. unfold mstate_for. destruct (j_muts j !! a) eqn:E; simpl; [by apply (wf_muts _ W a)|apply mok0].
Qed.

(* wf is preserved by a journalled account mutation that installs an acceptable object *)
Lemma wf_jupd a e k v o' j :
  wf j →
  (∀ s d, o_dirty o' !! s = Some d → d ≠ committed j a o' s) →
  (o_origin o' = None → a ∈ j_destruct j ∨ j_db j !! a = None) →
  wf (jupd a e k v o' j).
Proof.
  intros W Hd Ho.
  destruct (jupd_proj a e k v o' j) as (P1&P2&P3&P4&P5&P6&P7&P8&P9&P10&P11&P12&P13&P14&P15&P16).
  split.
  - rewrite P6. apply W.
  - intros b m. rewrite P4. destruct (decide (b = a)) as [->|Hn].
    + rewrite lookup_insert. intros [= <-]. split; [apply mok_add_stash|apply counts_zero_add_stash]; by apply mok_for.
    + rewrite lookup_insert_ne //. apply W.
  - intros b idx. rewrite P7 P8. apply W.
  - intros th. rewrite P9. apply W.
  - intros s x. rewrite P11. apply W.
  - intros b o s d. rewrite P3. destruct (decide (b = a)) as [->|Hn].
    + rewrite lookup_insert. intros [= <-] H. rewrite (committed_env j) //. by apply Hd.
    + rewrite lookup_insert_ne //. intros H1 H2. rewrite (committed_env j) //. by eapply wf_dirty.
  - intros b b' idx. rewrite P7. apply W.
  - intros b o. rewrite P3 P1 P2. destruct (decide (b = a)) as [->|Hn].
    + rewrite lookup_insert. intros [= <-]. apply Ho.
    + rewrite lookup_insert_ne //. apply W.
  - intros b. rewrite P3 P1 P2. destruct (decide (b = a)) as [->|Hn].
    + by rewrite lookup_insert.
    + rewrite lookup_insert_ne //. apply W.
  - intros b o. rewrite P3 P4. destruct (decide (b = a)) as [->|Hn].
    + intros _ _. apply elem_of_dom. rewrite lookup_insert. done.
    + rewrite lookup_insert_ne //. intros H1 H2. apply elem_of_dom. rewrite lookup_insert_ne //.
      apply elem_of_dom. by eapply wf_dirtymut.
  - intros b o. rewrite P3 P4. destruct (decide (b = a)) as [->|Hn].
    + intros _ _. apply elem_of_dom. rewrite lookup_insert. done.
    + rewrite lookup_insert_ne //. intros H1 H2. apply elem_of_dom. rewrite lookup_insert_ne //.
      apply elem_of_dom. by eapply wf_sdmut.
Qed.

Lemma committed_pending j a o o' k :
  o_pending o' = o_pending o → committed j a o' k = committed j a o k.
Proof. intros H. unfold committed. by rewrite H. Qed.
Lemma get_state_same j a o o' k :
  o_pending o' = o_pending o → o_dirty o' = o_dirty o → get_state j a o' k = get_state j a o k.
Proof. intros H1 H2. unfold get_state. by rewrite H2 (committed_pending j a o o'). Qed.

Lemma wf_jupd_same a e k v o o' j :
  wf j → j_objs j !! a = Some o →
  o_dirty o' = o_dirty o → o_pending o' = o_pending o → o_origin o' = o_origin o →
  wf (jupd a e k v o' j).
Proof.
  intros W Ho H1 H2 H3. apply wf_jupd; [done| |].
  - intros s d. rewrite H1 (committed_pending j a o o') //. by eapply wf_dirty.
  - rewrite H3. by eapply wf_origin.
Qed.

(* ------------------------------------------------------------------ *)
(* the coupling relation on the revertible part of the state *)
Definition obj_rel (j : jstate) (a : addr) (o : sobj) (x : racct) : Prop :=
  o_data o = ra x ∧ (∀ k, get_state j a o k = sget (r_stor x) k) ∧
  (∀ k, committed j a o k = sget (r_cstor x) k) ∧ o_sd o = r_sd x ∧ o_new o = r_new x.

Definition objs_rel (j : jstate) (c : rcore) : Prop :=
  ∀ a, match j_objs j !! a, accts c !! a with
       | Some o, Some x => obj_rel j a o x
       | None, None => True
       | _, _ => False
       end.

Record Rc (st : bool) (j : jstate) (c : rcore) : Prop := {
  rc_objs : objs_rel j c;
  rc_tstor : j_tstor j = tstor c;
  rc_refund : j_refund j = refund c;
  rc_ala : ∀ a, is_Some (j_ala j !! a) ↔ a ∈ al_a c;
  rc_als : ∀ a k, al_contains_slot j a k = true ↔ (a, k) ∈ al_s c;
  rc_logs : ∀ th, default [] (j_logs j !! th) = filter (λ l, l_th l = th) (logs c);
  rc_logsize : j_logsize j = N.of_nat (length (logs c));
  rc_touched : ∀ a, a ∈ dom (j_muts j) ↔ a ∈ touched c ∨ (st = true ∧ a = ripemd)
}.

Lemma obj_rel_env j j' a o x :
  j_db j' = j_db j → j_destruct j' = j_destruct j → obj_rel j a o x → obj_rel j' a o x.
Proof.
  intros H1 H2 (A & B & C & D & E). repeat split; try done; intros k.
  - by rewrite (get_state_env j j').
  - by rewrite (committed_env j j').
Qed.

Lemma put_proj a x c :
  accts (put a x c) = <[a := x]> (accts c) ∧ touched (put a x c) = {[a]} ∪ touched c ∧
  tstor (put a x c) = tstor c ∧ al_a (put a x c) = al_a c ∧ al_s (put a x c) = al_s c ∧
  refund (put a x c) = refund c ∧ logs (put a x c) = logs c.
Proof. destruct c; unfold put, touch; rc; simpl. done. Qed.

Lemma Rc_jupd st a e k v o' x' j c :
  Rc st j c → obj_rel j a o' x' → Rc st (jupd a e k v o' j) (put a x' c).
Proof.
  intros R Ho.
  destruct (jupd_proj a e k v o' j) as (P1&P2&P3&P4&P5&P6&P7&P8&P9&P10&P11&P12&P13&P14&P15&P16).
  destruct (put_proj a x' c) as (Q1&Q2&Q3&Q4&Q5&Q6&Q7).
  split.
  - intros b. rewrite P3 Q1. destruct (decide (b = a)) as [->|Hn].
    + rewrite !lookup_insert. by apply (obj_rel_env j).
    + rewrite !lookup_insert_ne //. pose proof (rc_objs _ _ _ R b) as H.
      destruct (j_objs j !! b), (accts c !! b); done.
  - rewrite P11 Q3. apply R.
  - rewrite P12 Q6. apply R.
  - intros b. rewrite P7 Q4. apply R.
  - intros b s. rewrite Q5. rewrite -(rc_als _ _ _ R b s). unfold al_contains_slot. by rewrite P7 P8.
  - intros th. rewrite P9 Q7. apply R.
  - rewrite P10 Q7. apply R.
  - intros b. rewrite P4 Q2 dom_insert elem_of_union elem_of_singleton elem_of_union elem_of_singleton.
    rewrite (rc_touched _ _ _ R b). tauto.
Qed.

(* ------------------------------------------------------------------ *)
(* calls that touch neither accounts nor journal.mutations *)
Lemma wf_other j j' :
  wf j → j_objs j' = j_objs j → j_muts j' = j_muts j → j_db j' = j_db j →
  j_destruct j' = j_destruct j → j_bad j' = false →
  (∀ a, al_loc j' a) →
  (∀ a a' idx, j_ala j' !! a = Some idx → j_ala j' !! a' = Some idx → (0 ≤ idx)%Z → a = a') →
  (∀ th, j_logs j' !! th ≠ Some []) →
  (∀ k x, j_tstor j' !! k = Some x → x ≠ 0) →
  wf j'.
Proof.
  intros W Ho Hm Hd Hs Hb Hal Hinj Hl Ht. split; try done.
  - intros a m. unfold mloc. rewrite Hm. apply W.
  - intros a o k d. rewrite Ho (committed_env j j') //. apply W.
  - intros a o. rewrite Ho Hd Hs. apply W.
  - intros a. rewrite Ho Hd Hs. apply W.
  - intros a o. rewrite Ho Hm. apply W.
  - intros a o. rewrite Ho Hm. apply W.
Qed.

Lemma Rc_other st j j' c c' :
  Rc st j c → j_objs j' = j_objs j → j_muts j' = j_muts j → j_db j' = j_db j →
  j_destruct j' = j_destruct j → accts c' = accts c → touched c' = touched c →
  j_tstor j' = tstor c' → j_refund j' = refund c' →
  (∀ a, is_Some (j_ala j' !! a) ↔ a ∈ al_a c') →
  (∀ a k, al_contains_slot j' a k = true ↔ (a, k) ∈ al_s c') →
  (∀ th, default [] (j_logs j' !! th) = filter (λ l, l_th l = th) (logs c')) →
  j_logsize j' = N.of_nat (length (logs c')) →
  Rc st j' c'.
Proof.
  intros R Ho Hm Hd Hs Ha Ht H1 H2 H3 H4 H5 H6. split; [|done|done|done|done|done|done|].
  - intros a. rewrite Ho Ha. pose proof (rc_objs _ _ _ R a) as H.
    destruct (j_objs j !! a), (accts c !! a); try done. by apply (obj_rel_env j).
  - intros a. rewrite Hm Ht. apply R.
Qed.

Lemma new_obj_rel j a : wf j → j_objs j !! a = None → obj_rel j a (new_object None) racct0.
Proof.
  intros W Ho. assert (Hc : ∀ k, committed j a (new_object None) k = 0).
  { intros k. unfold committed, db_stor. simpl. rewrite lookup_empty.
    destruct (wf_eager _ W a Ho) as [H|H]; [by rewrite bool_decide_true|].
    rewrite H. by case_bool_decide. }
  repeat split; try done; intros k; unfold get_state; simpl; rewrite ?lookup_empty ?Hc;
    by unfold sget; rewrite lookup_empty.
Qed.

Lemma wf_create a j : wf j → j_objs j !! a = None → wf (create_object a j).
Proof.
  intros W Ho. rewrite create_object_upd. apply wf_jupd; [done| |].
  - intros s d. simpl. by rewrite lookup_empty.
  - intros _. by apply wf_eager.
Qed.

Lemma Rc_create st a j c :
  wf j → Rc st j c → j_objs j !! a = None → Rc st (create_object a j) (put a racct0 c).
Proof. intros W R Ho. rewrite create_object_upd. apply Rc_jupd; [done|]. by apply new_obj_rel. Qed.

Lemma gon_rel st a j c :
  wf j → Rc st j c →
  ∃ j1 o c1 x, get_or_new_j a j = (j1, o) ∧ get_or_new a c = (c1, x) ∧ wf j1 ∧ Rc st j1 c1 ∧
    j_objs j1 !! a = Some o ∧ accts c1 !! a = Some x ∧ obj_rel j1 a o x ∧
    j_th j1 = j_th j ∧ j_ti j1 = j_ti j ∧
    (j_objs j !! a = None → sticky_j j1 (OAddBalance a 0) = sticky_j j (OAddBalance a 0)).
Proof.
  intros W R. pose proof (rc_objs _ _ _ R a) as H. unfold get_or_new_j, get_or_new.
  destruct (j_objs j !! a) as [o|] eqn:Ho, (accts c !! a) as [x|] eqn:Hx; try done.
  - exists j, o, c, x. split_and!; try done; try (by intros [=]).
  - exists (create_object a j), (new_object None), (put a racct0 c), racct0.
    assert (Hw := wf_create a j W Ho). assert (Hr := Rc_create st a j c W R Ho).
    rewrite create_object_upd in Hw Hr |- *.
    destruct (jupd_proj a (JCreateObject a) KCreate 0 (new_object None) j) as (P1&P2&P3&P4&P5&P6&P7&P8&P9&P10&P11&P12&P13&P14&P15&P16).
    split_and!; try done.
    + by rewrite P3 lookup_insert.
    + destruct (put_proj a racct0 c) as (Q1 & _). by rewrite Q1 lookup_insert.
    + apply (obj_rel_env j); [done|done|]. by apply new_obj_rel.
    + intros _. unfold sticky_j. rewrite P3 lookup_insert Ho. done.
Qed.

(* ------------------------------------------------------------------ *)
(* access list *)
Definition alwf (j : jstate) : Prop :=
  (∀ a, al_loc j a) ∧
  (∀ a a' idx, j_ala j !! a = Some idx → j_ala j !! a' = Some idx → (0 ≤ idx)%Z → a = a').
Definition alrel (j : jstate) (A : gset addr) (S : gset (addr * slot)) : Prop :=
  (∀ a, is_Some (j_ala j !! a) ↔ a ∈ A) ∧ (∀ a k, al_contains_slot j a k = true ↔ (a, k) ∈ S).

Lemma alwf_frame j j' : j_ala j' = j_ala j → j_als j' = j_als j → alwf j → alwf j'.
Proof. intros H1 H2 [A B]. split; [intros a; unfold al_loc|intros a a' idx]; rewrite ?H1 ?H2; [apply A|apply B]. Qed.
Lemma alrel_frame j j' A S : j_ala j' = j_ala j → j_als j' = j_als j → alrel j A S → alrel j' A S.
Proof.
  intros H1 H2 [X Y]. split; [intros a; rewrite H1; apply X|].
  intros a k. rewrite -Y. unfold al_contains_slot. by rewrite H1 H2.
Qed.

Lemma al_add_address_proj a j :
  let j' := (al_add_address a j).1 in
  j_als j' = j_als j ∧ j_ala j' = (match j_ala j !! a with Some _ => j_ala j | None => <[a := (-1)%Z]> (j_ala j) end) ∧
  (al_add_address a j).2 = (match j_ala j !! a with Some _ => false | None => true end) ∧
  j_objs j' = j_objs j ∧ j_muts j' = j_muts j ∧ j_db j' = j_db j ∧ j_destruct j' = j_destruct j ∧
  j_bad j' = j_bad j ∧ j_logs j' = j_logs j ∧ j_logsize j' = j_logsize j ∧ j_tstor j' = j_tstor j ∧
  j_refund j' = j_refund j ∧ j_entries j' = j_entries j ∧ j_th j' = j_th j ∧ j_ti j' = j_ti j ∧
  j_revs j' = j_revs j ∧ j_nextrev j' = j_nextrev j.
Proof. unfold al_add_address. destruct (j_ala j !! a); simpl; [done|]. by destruct j. Qed.

Lemma al_add_address_wf a j : alwf j → alwf (al_add_address a j).1.
Proof.
  intros [A B]. destruct (al_add_address_proj a j) as (P1 & P2 & _). simpl in *.
  destruct (j_ala j !! a) eqn:E; [by apply (alwf_frame j)|].
  split.
  - intros b idx. rewrite P1 P2. destruct (decide (b = a)) as [->|Hn].
    + rewrite lookup_insert. intros [= <-]. by left.
    + rewrite lookup_insert_ne //. apply A.
  - intros b b' idx. rewrite P2. destruct (decide (b = a)) as [->|Hn], (decide (b' = a)) as [->|Hn'];
      rewrite ?lookup_insert ?lookup_insert_ne //; try (intros; simplify_eq; lia). apply B.
Qed.

Lemma al_add_address_rel a j A S : alrel j A S → alrel (al_add_address a j).1 ({[a]} ∪ A) S.
Proof.
  intros [X Y]. destruct (al_add_address_proj a j) as (P1 & P2 & _). simpl in *.
  split.
  - intros b. rewrite P2 elem_of_union elem_of_singleton -X.
    destruct (j_ala j !! a) eqn:E.
    + split; [tauto|]. intros [->|H]; [by rewrite E|done].
    + destruct (decide (b = a)) as [->|Hn]; [rewrite lookup_insert; split; eauto|].
      rewrite lookup_insert_ne //. tauto.
  - intros b k. rewrite -Y. unfold al_contains_slot. rewrite P1 P2.
    destruct (j_ala j !! a) eqn:E; [done|].
    destruct (decide (b = a)) as [->|Hn]; [by rewrite lookup_insert E|by rewrite lookup_insert_ne].
Qed.

Lemma al_add_slot_proj a k j :
  let j' := (al_add_slot a k j).1.1 in
  j_objs j' = j_objs j ∧ j_muts j' = j_muts j ∧ j_db j' = j_db j ∧ j_destruct j' = j_destruct j ∧
  j_logs j' = j_logs j ∧ j_logsize j' = j_logsize j ∧ j_tstor j' = j_tstor j ∧
  j_refund j' = j_refund j ∧ j_entries j' = j_entries j ∧ j_th j' = j_th j ∧ j_ti j' = j_ti j ∧
  j_revs j' = j_revs j ∧ j_nextrev j' = j_nextrev j.
Proof.
  unfold al_add_slot. destruct (j_ala j !! a) as [idx|]; [|by destruct j].
  destruct (idx =? -1)%Z; [by destruct j|]. destruct (j_als j !! Z.to_nat idx); [|by destruct j].
  case_bool_decide; by destruct j.
Qed.

Lemma al_add_slot_spec a k j A S :
  alwf j → alrel j A S →
  let r := al_add_slot a k j in
  alwf r.1.1 ∧ alrel r.1.1 ({[a]} ∪ A) ({[(a, k)]} ∪ S) ∧ j_bad r.1.1 = j_bad j ∧
  r.1.2 = (match j_ala j !! a with Some _ => false | None => true end) ∧
  r.2 = negb (al_contains_slot j a k).
Proof.
  intros [WA WB] [X Y]. unfold al_add_slot, al_contains_slot.
  assert (Hfresh : (j_ala j !! a = None ∨ j_ala j !! a = Some (-1)%Z) →
    let j' := j <| j_ala ::= <[a:=Z.of_nat (length (j_als j))]> |> <| j_als ::= λ l, l ++ [{[k]}] |> in
    alwf j' ∧ alrel j' ({[a]} ∪ A) ({[(a, k)]} ∪ S) ∧ j_bad j' = j_bad j).
  { intros Hf j'.
    assert (E1 : j_ala j' = <[a:=Z.of_nat (length (j_als j))]> (j_ala j)) by (subst j'; by destruct j).
    assert (E2 : j_als j' = j_als j ++ [{[k]}]) by (subst j'; by destruct j).
    assert (E3 : j_bad j' = j_bad j) by (subst j'; by destruct j).
    assert (Hlt : ∀ b idx, j_ala j !! b = Some idx → (0 ≤ idx)%Z → (Z.to_nat idx < length (j_als j))%nat).
    { intros b idx Hb Hi. destruct (WA b idx Hb) as [->|(_ & sm & Hs & _)]; [lia|by eapply lookup_lt_Some]. }
    split_and!; [split| |done].
    - intros b idx. rewrite E1 E2. destruct (decide (b = a)) as [->|Hn].
      + rewrite lookup_insert. intros [= <-]. right. split; [lia|]. exists {[k]}.
        rewrite Nat2Z.id lookup_app_r // Nat.sub_diag. split; [done|set_solver].
      + rewrite lookup_insert_ne //. intros Hb. destruct (WA b idx Hb) as [->|(Hi & sm & Hs & Hne)]; [by left|].
        right. split; [done|]. exists sm. split; [|done]. rewrite lookup_app_l //. by eapply lookup_lt_Some.
    - intros b b' idx. rewrite E1.
      destruct (decide (b = a)) as [->|Hn], (decide (b' = a)) as [->|Hn'];
        rewrite ?lookup_insert ?lookup_insert_ne //.
      + intros [= <-] Hb' Hi. specialize (Hlt b' _ Hb' Hi). lia.
      + intros Hb [= <-] Hi. specialize (Hlt b _ Hb Hi). lia.
      + apply WB.
    - split.
      + intros b. rewrite E1 elem_of_union elem_of_singleton -X.
        destruct (decide (b = a)) as [->|Hn]; [rewrite lookup_insert; split; eauto|].
        rewrite lookup_insert_ne //. tauto.
      + intros b s. rewrite elem_of_union elem_of_singleton -Y. unfold al_contains_slot. rewrite E1 E2.
        destruct (decide (b = a)) as [->|Hn].
        * rewrite lookup_insert. destruct (Z.of_nat (length (j_als j)) =? -1)%Z eqn:E; [apply Z.eqb_eq in E; lia|].
          rewrite Nat2Z.id lookup_app_r // Nat.sub_diag. simpl. rewrite bool_decide_eq_true elem_of_singleton.
          destruct Hf as [Hf|Hf]; rewrite Hf; simpl; split; try naive_solver.
        * rewrite lookup_insert_ne //. split; [intros H; right; revert H|intros [[=]|H]; [done|revert H]];
          destruct (j_ala j !! b) as [idx|] eqn:Eb; try done; destruct (idx =? -1)%Z eqn:E; try done;
          apply Z.eqb_neq in E; destruct (WA b idx Eb) as [->|(Hi & sm & Hs & Hne)]; try done;
          rewrite lookup_app_l; try done; by eapply lookup_lt_Some. }
  destruct (j_ala j !! a) as [idx|] eqn:Ea.
  - destruct (idx =? -1)%Z eqn:E.
    + apply Z.eqb_eq in E. subst idx. simpl. destruct (Hfresh (or_intror eq_refl)) as (H1 & H2 & H3). done.
    + apply Z.eqb_neq in E. destruct (WA a idx Ea) as [->|(Hi & sm & Hs & Hne)]; [done|]. rewrite Hs.
      case_bool_decide as Hk; simpl.
      * split_and!; try done. split; [intros b; rewrite elem_of_union elem_of_singleton -X; split; [tauto|intros [->|H]; [by rewrite Ea|done]]|].
        intros b s. rewrite elem_of_union elem_of_singleton -Y. split; [tauto|]. intros [[= -> ->]|H]; [|done].
        unfold al_contains_slot. rewrite Ea. destruct (idx =? -1)%Z eqn:E'; [apply Z.eqb_eq in E'; lia|].
        rewrite Hs. by apply bool_decide_eq_true.
      * set (j' := j <| j_als ::= <[Z.to_nat idx:={[k]} ∪ sm]> |>).
        assert (E1 : j_ala j' = j_ala j) by (subst j'; by destruct j).
        assert (E2 : j_als j' = <[Z.to_nat idx:={[k]} ∪ sm]> (j_als j)) by (subst j'; by destruct j).
        assert (E3 : j_bad j' = j_bad j) by (subst j'; by destruct j).
        assert (Hlen : (Z.to_nat idx < length (j_als j))%nat) by (by eapply lookup_lt_Some).
        split_and!; [split| |done|done|done].
        -- intros b i. rewrite E1 E2. intros Hb. destruct (WA b i Hb) as [->|(Hi' & sm' & Hs' & Hne')]; [by left|].
           right. split; [done|]. destruct (decide (Z.to_nat i = Z.to_nat idx)) as [Heq|Hneq].
           ++ rewrite Heq list_lookup_insert //. exists ({[k]} ∪ sm). split; [done|set_solver].
           ++ rewrite list_lookup_insert_ne //. by exists sm'.
        -- intros b b' i. rewrite E1. apply WB.
        -- split; [intros b; rewrite E1 elem_of_union elem_of_singleton -X; split; [tauto|intros [->|H]; [by rewrite Ea|done]]|].
           intros b s. rewrite elem_of_union elem_of_singleton -Y. unfold al_contains_slot. rewrite E1 E2.
           destruct (decide (b = a)) as [->|Hn].
           ++ rewrite Ea. destruct (idx =? -1)%Z eqn:E'; [apply Z.eqb_eq in E'; lia|].
              rewrite list_lookup_insert // Hs !bool_decide_eq_true. set_solver.
           ++ destruct (j_ala j !! b) as [i|] eqn:Eb; [|naive_solver].
              destruct (i =? -1)%Z eqn:E'; [naive_solver|]. apply Z.eqb_neq in E'.
              destruct (WA b i Eb) as [->|(Hi' & sm' & Hs' & Hne')]; [done|].
              assert (Z.to_nat i ≠ Z.to_nat idx).
              { intros Heq. assert (i = idx) by lia. subst i. by specialize (WB _ _ _ Eb Ea Hi). }
              rewrite list_lookup_insert_ne //. naive_solver.
  - simpl. destruct (Hfresh (or_introl eq_refl)) as (H1 & H2 & H3). done.
Qed.

(* ------------------------------------------------------------------ *)
(* every journalled call preserves wf and the coupling relation *)
Arguments put : simpl never.
Arguments touch : simpl never.
Arguments get_or_new : simpl never.
Arguments get_or_new_j : simpl never.
Arguments create_object : simpl never.
Arguments obj_set_balance : simpl never.
Arguments obj_set_nonce : simpl never.
Arguments obj_set_code : simpl never.
Arguments obj_set_state : simpl never.
Arguments obj_self_destruct : simpl never.
Arguments touch_change : simpl never.
Arguments j_append : simpl never.
Arguments al_add_address : simpl never.
Arguments al_add_slot : simpl never.
Arguments acct_empty : simpl never.
Arguments N.modulo : simpl never.
Arguments N.add : simpl never.
Arguments N.sub : simpl never.

Lemma put_same a x c : accts c !! a = Some x → put a x c = touch a c.
Proof. intros H. destruct c; unfold put, touch; rc; simpl in *. f_equal. by rewrite insert_id. Qed.

Lemma eqb_decide (a b : N) : bool_decide (a = b) = (a =? b).
Proof. case_bool_decide; [subst; by rewrite N.eqb_refl|symmetry; by apply N.eqb_neq]. Qed.

Lemma sticky_eq st j c o : Rc st j c → sticky_j j o = sticky_touch c o.
Proof.
  intros R. destruct o; try done. simpl. rewrite eqb_decide. f_equal.
  pose proof (rc_objs _ _ _ R a) as H.
  destruct (j_objs j !! a) as [o|], (accts c !! a) as [x|]; try done.
  unfold obj_empty. by rewrite (proj1 H).
Qed.

Definition thti (j j' : jstate) : Prop := j_th j' = j_th j ∧ j_ti j' = j_ti j.
Lemma thti_jupd a e k v o' j : thti j (jupd a e k v o' j).
Proof. by destruct j. Qed.
Lemma thti_trans j1 j2 j3 : thti j1 j2 → thti j2 j3 → thti j1 j3.
Proof. intros [A B] [C D]. split; congruence. Qed.

(* the result of a call, related on both sides *)
Definition post (st : bool) (j : jstate) (pj : jstate * out) (pc : rcore * out) : Prop :=
  pj.2 = pc.2 ∧ wf pj.1 ∧ Rc st pj.1 pc.1 ∧ thti j pj.1.

Lemma post_set st a e k v o o' x' j0 j c :
  wf j → Rc st j c → thti j0 j → j_objs j !! a = Some o →
  o_dirty o' = o_dirty o → o_pending o' = o_pending o → o_origin o' = o_origin o →
  obj_rel j a o' x' →
  post st j0 (jupd a e k v o' j, RNone) (put a x' c, RNone).
Proof.
  intros W R T Ho H1 H2 H3 Hr. split_and!; simpl; [done|by eapply wf_jupd_same|by apply Rc_jupd|].
  eapply thti_trans; [done|apply thti_jupd].
Qed.

Lemma set_state_props k v orig o :
  o_pending (set_state k v orig o) = o_pending o ∧ o_origin (set_state k v orig o) = o_origin o ∧
  o_data (set_state k v orig o) = o_data o ∧ o_sd (set_state k v orig o) = o_sd o ∧
  o_new (set_state k v orig o) = o_new o.
Proof. unfold set_state. by destruct (v =? orig). Qed.

Lemma get_state_set j a o k v s :
  get_state j a (set_state k v (committed j a o k) o) s
  = if bool_decide (s = k) then v else get_state j a o s.
Proof.
  unfold get_state. rewrite (committed_pending j a o); [apply set_state_props|].
  unfold set_state. destruct (v =? committed j a o k) eqn:E; rs; case_bool_decide as Hs; subst.
  - apply N.eqb_eq in E. by rewrite lookup_delete.
  - by rewrite lookup_delete_ne.
  - by rewrite lookup_insert.
  - by rewrite lookup_insert_ne.
Qed.

Lemma Rc_objs_upd st j j' c a o' x' :
  Rc st j c → j_objs j' = <[a := o']> (j_objs j) → j_muts j' = j_muts j →
  j_db j' = j_db j → j_destruct j' = j_destruct j → j_ala j' = j_ala j → j_als j' = j_als j →
  j_logs j' = j_logs j → j_logsize j' = j_logsize j → j_tstor j' = j_tstor j → j_refund j' = j_refund j →
  obj_rel j a o' x' → Rc st j' (c <| accts ::= <[a := x']> |>).
Proof.
  intros R P1 P2 P3 P4 P6 P7 P8 P9 P10 P11 Hr. split.
  - intros b. rewrite P1. replace (accts (c <| accts ::= <[a:=x']> |>)) with (<[a:=x']> (accts c)) by (by destruct c).
    destruct (decide (b = a)) as [->|Hn].
    + rewrite !lookup_insert. by apply (obj_rel_env j).
    + rewrite !lookup_insert_ne //. pose proof (rc_objs _ _ _ R b) as H.
      destruct (j_objs j !! b), (accts c !! b); try done. by apply (obj_rel_env j).
  - rewrite P10. apply R.
  - rewrite P11. apply R.
  - intros b. rewrite P6. apply R.
  - intros b s. rewrite -(rc_als _ _ _ R b s). unfold al_contains_slot. by rewrite P6 P7.
  - intros th. rewrite P8. apply R.
  - rewrite P9. apply R.
  - intros b. rewrite P2. apply R.
Qed.

Lemma j_append_nomut e j : mutation e = None → j_append e j = j <| j_entries ::= cons e |>.
Proof. intros H. unfold j_append. by rewrite H. Qed.

Lemma wf_alwf j : wf j → alwf j.
Proof. intros W. split; apply W. Qed.
Lemma Rc_alrel st j c : Rc st j c → alrel j (al_a c) (al_s c).
Proof. intros R. split; apply R. Qed.

Lemma core_refines st j c o :
  wf j → Rc st j c → core_op o = true → op_ok j o = true → sticky_j j o = false →
  post st j (step_j j o) (core_step (j_th j) (j_ti j) c o).
Proof.
  intros W R Hc Hok Hst. assert (T0 : thti j j) by done.
  destruct o; try done; simpl in Hok; simpl step_j; simpl core_step.
  - (* CreateAccount *)
    apply bool_decide_eq_true in Hok. split_and!; simpl; [done|by apply wf_create|by apply Rc_create|].
    rewrite create_object_upd. apply thti_jupd.
  - (* CreateContract *)
    pose proof (rc_objs _ _ _ R a) as H.
    destruct (j_objs j !! a) as [o|] eqn:Ho, (accts c !! a) as [x|] eqn:Hx; try done.
    destruct H as (D1 & D2 & D3 & D4 & D5). destruct (o_new o) eqn:En.
    { split_and!; simpl; [done|done| |done].
      eapply (Rc_objs_upd st j j c a o); try done; try (by rewrite insert_id); by repeat split. }
    set (j' := j_append (JCreateContract a) (put_obj a (o <| o_new := true |>) j)).
    assert (P : j_objs j' = <[a := o <| o_new := true |>]> (j_objs j) ∧ j_muts j' = j_muts j ∧
                j_db j' = j_db j ∧ j_destruct j' = j_destruct j ∧ j_bad j' = j_bad j ∧ j_ala j' = j_ala j ∧
                j_als j' = j_als j ∧ j_logs j' = j_logs j ∧ j_logsize j' = j_logsize j ∧
                j_tstor j' = j_tstor j ∧ j_refund j' = j_refund j ∧ thti j j')
      by (subst j'; by destruct j).
    destruct P as (P1&P2&P3&P4&P5&P6&P7&P8&P9&P10&P11&P12).
    split_and!; simpl; [done| | |done].
    + split.
      * rewrite P5. apply W.
      * intros b m. unfold mloc. rewrite P2. apply W.
      * intros b idx. unfold al_loc. rewrite P6 P7. apply W.
      * intros th. rewrite P8. apply W.
      * intros s y. rewrite P10. apply W.
      * intros b o' s d. rewrite P1 (committed_env j j') //. destruct (decide (b = a)) as [->|Hn].
        -- rewrite lookup_insert. intros [= <-]. apply (wf_dirty _ W a o s d Ho).
        -- rewrite lookup_insert_ne //. apply W.
      * intros b b' idx. rewrite P6. apply W.
      * intros b o'. rewrite P1 P3 P4. destruct (decide (b = a)) as [->|Hn].
        -- rewrite lookup_insert. intros [= <-]. apply (wf_origin _ W a o Ho).
        -- rewrite lookup_insert_ne //. apply W.
      * intros b. rewrite P1 P3 P4. destruct (decide (b = a)) as [->|Hn]; [by rewrite lookup_insert|].
        rewrite lookup_insert_ne //. apply W.
      * intros b o'. rewrite P1 P2. destruct (decide (b = a)) as [->|Hn].
        -- rewrite lookup_insert. intros [= <-]. apply (wf_dirtymut _ W a o Ho).
        -- rewrite lookup_insert_ne //. apply W.
      * intros b o'. rewrite P1 P2. destruct (decide (b = a)) as [->|Hn].
        -- rewrite lookup_insert. intros [= <-]. apply (wf_sdmut _ W a o Ho).
        -- rewrite lookup_insert_ne //. apply W.
    + eapply (Rc_objs_upd st j j' c a); try done; by repeat split.
  - (* AddBalance *)
    destruct (gon_rel st a j c W R) as (j1 & o & c1 & x & E1 & E2 & W1 & R1 & Ho & Hx & Hox & T1 & T2 & S1).
    rewrite E1 E2. assert (T : thti j j1) by done.
    assert (Hemp : obj_empty o = acct_empty (ra x)) by (unfold obj_empty; by rewrite (proj1 Hox)).
    destruct (v =? 0) eqn:Ev.
    + rewrite -Hemp. destruct (obj_empty o) eqn:Ee; [|by split_and!].
      assert (Hnr : a ≠ ripemd).
      { intros ->. unfold sticky_j in Hst. rewrite Ev bool_decide_true // in Hst. simpl in Hst.
        destruct (j_objs j !! ripemd) eqn:Hj.
        - unfold get_or_new_j in E1. rewrite Hj in E1. simplify_eq. by rewrite Ee in Hst.
        - done. }
      rewrite (touch_upd a o) // -(put_same a x) //.
      by eapply post_set.
    + rewrite set_balance_upd. eapply post_set; try done.
      destruct Hox as (D1 & D2 & D3 & D4 & D5). split_and!; try done. rs. by rewrite D1.
  - (* SubBalance *)
    destruct (gon_rel st a j c W R) as (j1 & o & c1 & x & E1 & E2 & W1 & R1 & Ho & Hx & Hox & T1 & T2 & S1).
    rewrite E1 E2. assert (T : thti j j1) by done.
    destruct (v =? 0) eqn:Ev; [by split_and!|].
    rewrite set_balance_upd. eapply post_set; try done.
    destruct Hox as (D1 & D2 & D3 & D4 & D5). split_and!; try done. rs. by rewrite D1.
  - (* SetBalance *)
    destruct (gon_rel st a j c W R) as (j1 & o & c1 & x & E1 & E2 & W1 & R1 & Ho & Hx & Hox & T1 & T2 & S1).
    rewrite E1 E2. assert (T : thti j j1) by done.
    rewrite set_balance_upd. eapply post_set; try done.
    destruct Hox as (D1 & D2 & D3 & D4 & D5). split_and!; try done. rs. by rewrite D1.
  - (* SetNonce *)
    destruct (gon_rel st a j c W R) as (j1 & o & c1 & x & E1 & E2 & W1 & R1 & Ho & Hx & Hox & T1 & T2 & S1).
    rewrite E1 E2. assert (T : thti j j1) by done.
    rewrite set_nonce_upd. eapply post_set; try done.
    destruct Hox as (D1 & D2 & D3 & D4 & D5). split_and!; try done. rs. by rewrite D1.
  - (* SetCode *)
    destruct (gon_rel st a j c W R) as (j1 & o & c1 & x & E1 & E2 & W1 & R1 & Ho & Hx & Hox & T1 & T2 & S1).
    rewrite E1 E2. assert (T : thti j j1) by done.
    rewrite set_code_upd. eapply post_set; try done.
    destruct Hox as (D1 & D2 & D3 & D4 & D5). split_and!; try done. rs. by rewrite D1.
  - (* SetState *)
    destruct (gon_rel st a j c W R) as (j1 & o & c1 & x & E1 & E2 & W1 & R1 & Ho & Hx & Hox & T1 & T2 & S1).
    rewrite E1 E2. assert (T : thti j j1) by done.
    destruct Hox as (D1 & D2 & D3 & D4 & D5). rewrite D2.
    destruct (sget (r_stor x) k =? v) eqn:Ev; [by split_and!|]. apply N.eqb_neq in Ev.
    rewrite set_state_upd.
    destruct (set_state_props k v (committed j1 a o k) o) as (Q1 & Q2 & Q3 & Q4 & Q5).
    split_and!; simpl; [done| |apply Rc_jupd; [done|]|eapply thti_trans; [done|apply thti_jupd]].
    + apply wf_jupd; [done| |].
      * intros s d. rewrite (committed_pending j1 a o) //.
        unfold set_state. destruct (v =? committed j1 a o k) eqn:E; rs.
        -- destruct (decide (s = k)) as [->|Hn]; [by rewrite lookup_delete|rewrite lookup_delete_ne //]. by eapply wf_dirty.
        -- destruct (decide (s = k)) as [->|Hn]; [rewrite lookup_insert; intros [= <-]; by apply N.eqb_neq|].
           rewrite lookup_insert_ne //. by eapply wf_dirty.
      * rewrite Q2. by eapply wf_origin.
    + split_and!.
      * by rewrite Q3.
      * intros s. rewrite get_state_set. unfold sget.
        replace (r_stor (x <| r_stor ::= <[k:=v]> |>)) with (<[k:=v]> (r_stor x)) by (by destruct x).
        destruct (decide (s = k)) as [->|Hn];
          [by rewrite bool_decide_true // lookup_insert|rewrite bool_decide_false // lookup_insert_ne //].
        apply D2.
      * intros s. rewrite (committed_pending j1 a o) //.
      * by rewrite Q4.
      * by rewrite Q5.
  - (* SetTransient *)
    unfold tget. rewrite -(rc_tstor _ _ _ R).
    destruct (default 0 (j_tstor j !! (a, k)) =? v) eqn:Ev; [by split_and!|]. apply N.eqb_neq in Ev.
    rewrite j_append_nomut //.
    set (f := if v =? 0 then delete (a, k) else <[(a, k):=v]>).
    set (j' := j <| j_entries ::= cons _ |> <| j_tstor ::= f |>).
    assert (P : j_objs j' = j_objs j ∧ j_muts j' = j_muts j ∧ j_db j' = j_db j ∧ j_destruct j' = j_destruct j ∧
                j_bad j' = j_bad j ∧ j_ala j' = j_ala j ∧ j_als j' = j_als j ∧ j_logs j' = j_logs j ∧
                j_logsize j' = j_logsize j ∧ j_tstor j' = f (j_tstor j) ∧ j_refund j' = j_refund j ∧ thti j j')
      by (subst j'; by destruct j).
    destruct P as (P1&P2&P3&P4&P5&P6&P7&P8&P9&P10&P11&P12).
    split_and!; simpl; [done| | |done].
    + apply (wf_other j j' W P1 P2 P3 P4).
      * rewrite P5. apply W.
      * apply (alwf_frame j); [done|done|by apply wf_alwf].
      * apply (alwf_frame j); [done|done|by apply wf_alwf].
      * intros th. rewrite P8. apply W.
      * intros s y. rewrite P10. subst f. destruct (v =? 0) eqn:E0.
        -- destruct (decide (s = (a, k))) as [->|Hn]; [by rewrite lookup_delete|rewrite lookup_delete_ne //]. apply W.
        -- destruct (decide (s = (a, k))) as [->|Hn]; [rewrite lookup_insert; intros [= <-]; by apply N.eqb_neq|].
           rewrite lookup_insert_ne //. apply W.
    + apply (Rc_other st j j' c _ R P1 P2 P3 P4).
      * by destruct c.
      * by destruct c.
      * rewrite P10 (rc_tstor _ _ _ R). by destruct c.
      * rewrite P11 (rc_refund _ _ _ R). by destruct c.
      * intros b. rewrite P6 (rc_ala _ _ _ R). by destruct c.
      * intros b s. rewrite -(rc_als _ _ _ R b s). unfold al_contains_slot. by rewrite P6 P7.
      * intros th. rewrite P8 (rc_logs _ _ _ R). by destruct c.
      * rewrite P9 (rc_logsize _ _ _ R). by destruct c.
  - (* SelfDestruct *)
    pose proof (rc_objs _ _ _ R a) as H.
    destruct (j_objs j !! a) as [o|] eqn:Ho, (accts c !! a) as [x|] eqn:Hx; try done; try (by split_and!).
    destruct H as (D1 & D2 & D3 & D4 & D5). rewrite -D4. destruct (o_sd o) eqn:Es; [by split_and!|].
    rewrite self_destruct_upd. eapply post_set; try done; by split_and!.
  - (* SelfDestruct6780 *)
    pose proof (rc_objs _ _ _ R a) as H.
    destruct (j_objs j !! a) as [o|] eqn:Ho, (accts c !! a) as [x|] eqn:Hx; try done; try (by split_and!).
    destruct H as (D1 & D2 & D3 & D4 & D5). rewrite -D4 -D5.
    destruct (o_new o && negb (o_sd o)) eqn:Es; [|by split_and!].
    rewrite self_destruct_upd. eapply post_set; try done; by split_and!.
  - (* AddAddress *)
    destruct (al_add_address_proj a j) as (P1&P2&P3&P4&P5&P6&P7&P8&P9&P10&P11&P12&P13&P14&P15&P16&P17).
    pose proof (al_add_address_wf a j (wf_alwf _ W)) as HW.
    pose proof (al_add_address_rel a j _ _ (Rc_alrel _ _ _ R)) as HR.
    destruct (al_add_address a j) as [j1 ch] eqn:E. simpl in *.
    set (j' := if ch then j_append (JALAddr a) j1 else j1).
    assert (P : j_objs j' = j_objs j1 ∧ j_muts j' = j_muts j1 ∧ j_db j' = j_db j1 ∧ j_destruct j' = j_destruct j1 ∧
                j_bad j' = j_bad j1 ∧ j_ala j' = j_ala j1 ∧ j_als j' = j_als j1 ∧ j_logs j' = j_logs j1 ∧
                j_logsize j' = j_logsize j1 ∧ j_tstor j' = j_tstor j1 ∧ j_refund j' = j_refund j1 ∧ thti j1 j')
      by (subst j'; destruct ch; [rewrite j_append_nomut //; by destruct j1|done]).
    destruct P as (Q1&Q2&Q3&Q4&Q5&Q6&Q7&Q8&Q9&Q10&Q11&Q12).
    split_and!; simpl; [done| | |split; [rewrite (proj1 Q12)|rewrite (proj2 Q12)]; done].
    + apply (wf_other j j' W); [congruence|congruence|congruence|congruence| | | | |].
      * rewrite Q5 P8. apply W.
      * apply (alwf_frame j1); done.
      * apply (alwf_frame j1); done.
      * intros th. rewrite Q8 P9. apply W.
      * intros s y. rewrite Q10 P11. apply W.
    + apply (Rc_other st j j' c _ R); [congruence|congruence|congruence|congruence| | | | | | | |].
      * by destruct c.
      * by destruct c.
      * rewrite Q10 P11 (rc_tstor _ _ _ R). by destruct c.
      * rewrite Q11 P12 (rc_refund _ _ _ R). by destruct c.
      * apply (alrel_frame j1 j') in HR; [|done|done]. destruct HR as [X _]. intros b. rewrite X. by destruct c.
      * apply (alrel_frame j1 j') in HR; [|done|done]. destruct HR as [_ Y]. intros b s. rewrite Y. by destruct c.
      * intros th. rewrite Q8 P9 (rc_logs _ _ _ R). by destruct c.
      * rewrite Q9 P10 (rc_logsize _ _ _ R). by destruct c.
  - (* AddSlot *)
    destruct (al_add_slot_proj a k j) as (P4&P5&P6&P7&P9&P10&P11&P12&P13&P14&P15&P16&P17).
    destruct (al_add_slot_spec a k j _ _ (wf_alwf _ W) (Rc_alrel _ _ _ R)) as (HW & HR & HB & _ & _).
    destruct (al_add_slot a k j) as [[j1 am] sm] eqn:E. simpl in *.
    set (j2 := if am then j_append (JALAddr a) j1 else j1).
    set (j' := if sm then j_append (JALSlot a k) j2 else j2).
    assert (P : j_objs j' = j_objs j1 ∧ j_muts j' = j_muts j1 ∧ j_db j' = j_db j1 ∧ j_destruct j' = j_destruct j1 ∧
                j_bad j' = j_bad j1 ∧ j_ala j' = j_ala j1 ∧ j_als j' = j_als j1 ∧ j_logs j' = j_logs j1 ∧
                j_logsize j' = j_logsize j1 ∧ j_tstor j' = j_tstor j1 ∧ j_refund j' = j_refund j1 ∧ thti j1 j').
    { subst j' j2. destruct sm, am; rewrite ?j_append_nomut //; by destruct j1. }
    destruct P as (Q1&Q2&Q3&Q4&Q5&Q6&Q7&Q8&Q9&Q10&Q11&Q12).
    split_and!; simpl; [done| | |split; [rewrite (proj1 Q12)|rewrite (proj2 Q12)]; done].
    + apply (wf_other j j' W); [congruence|congruence|congruence|congruence| | | | |].
      * rewrite Q5 HB. apply W.
      * apply (alwf_frame j1); done.
      * apply (alwf_frame j1); done.
      * intros th. rewrite Q8 P9. apply W.
      * intros s y. rewrite Q10 P11. apply W.
    + apply (Rc_other st j j' c _ R); [congruence|congruence|congruence|congruence| | | | | | | |].
      * by destruct c.
      * by destruct c.
      * rewrite Q10 P11 (rc_tstor _ _ _ R). by destruct c.
      * rewrite Q11 P12 (rc_refund _ _ _ R). by destruct c.
      * apply (alrel_frame j1 j') in HR; [|done|done]. destruct HR as [X _]. intros b. rewrite X. by destruct c.
      * apply (alrel_frame j1 j') in HR; [|done|done]. destruct HR as [_ Y]. intros b s. rewrite Y. by destruct c.
      * intros th. rewrite Q8 P9 (rc_logs _ _ _ R). by destruct c.
      * rewrite Q9 P10 (rc_logsize _ _ _ R). by destruct c.
  - (* AddRefund *)
    rewrite j_append_nomut //. rewrite (rc_refund _ _ _ R).
    set (j' := j <| j_entries ::= cons _ |> <| j_refund := _ |>).
    assert (P : j_objs j' = j_objs j ∧ j_muts j' = j_muts j ∧ j_db j' = j_db j ∧ j_destruct j' = j_destruct j ∧
                j_bad j' = j_bad j ∧ j_ala j' = j_ala j ∧ j_als j' = j_als j ∧ j_logs j' = j_logs j ∧
                j_logsize j' = j_logsize j ∧ j_tstor j' = j_tstor j ∧ j_refund j' = (refund c + g) mod W64 ∧ thti j j')
      by (subst j'; by destruct j).
    destruct P as (P1&P2&P3&P4&P5&P6&P7&P8&P9&P10&P11&P12).
    split_and!; simpl; [done| | |done].
    + apply (wf_other j j' W P1 P2 P3 P4).
      * rewrite P5. apply W.
      * apply (alwf_frame j); [done|done|by apply wf_alwf].
      * apply (alwf_frame j); [done|done|by apply wf_alwf].
      * intros th. rewrite P8. apply W.
      * intros s y. rewrite P10. apply W.
    + apply (Rc_other st j j' c _ R P1 P2 P3 P4).
      * by destruct c.
      * by destruct c.
      * rewrite P10 (rc_tstor _ _ _ R). by destruct c.
      * rewrite P11. by destruct c.
      * intros b. rewrite P6 (rc_ala _ _ _ R). by destruct c.
      * intros b s. rewrite -(rc_als _ _ _ R b s). unfold al_contains_slot. by rewrite P6 P7.
      * intros th. rewrite P8 (rc_logs _ _ _ R). by destruct c.
      * rewrite P9 (rc_logsize _ _ _ R). by destruct c.
  - (* SubRefund *)
    rewrite j_append_nomut //. rewrite (rc_refund _ _ _ R).
    set (j1 := j <| j_entries ::= cons _ |>).
    assert (P : j_objs j1 = j_objs j ∧ j_muts j1 = j_muts j ∧ j_db j1 = j_db j ∧ j_destruct j1 = j_destruct j ∧
                j_bad j1 = j_bad j ∧ j_ala j1 = j_ala j ∧ j_als j1 = j_als j ∧ j_logs j1 = j_logs j ∧
                j_logsize j1 = j_logsize j ∧ j_tstor j1 = j_tstor j ∧ j_refund j1 = j_refund j ∧ thti j j1)
      by (subst j1; by destruct j).
    destruct P as (P1&P2&P3&P4&P5&P6&P7&P8&P9&P10&P11&P12).
    assert (W1 : wf j1).
    { apply (wf_other j j1 W P1 P2 P3 P4).
      * rewrite P5. apply W.
      * apply (alwf_frame j); [done|done|by apply wf_alwf].
      * apply (alwf_frame j); [done|done|by apply wf_alwf].
      * intros th. rewrite P8. apply W.
      * intros s y. rewrite P10. apply W. }
    destruct (refund c <? g) eqn:Eg.
    + split_and!; simpl; [done|done| |done].
      apply (Rc_other st j j1 c c R P1 P2 P3 P4); try done.
      * rewrite P10. apply R.
      * rewrite P11. apply R.
      * intros b. rewrite P6. apply R.
      * intros b s. rewrite -(rc_als _ _ _ R b s). unfold al_contains_slot. by rewrite P6 P7.
      * intros th. rewrite P8. apply R.
      * rewrite P9. apply R.
    + set (j' := j1 <| j_refund := _ |>).
      assert (Q : j_objs j' = j_objs j1 ∧ j_muts j' = j_muts j1 ∧ j_db j' = j_db j1 ∧ j_destruct j' = j_destruct j1 ∧
                j_bad j' = j_bad j1 ∧ j_ala j' = j_ala j1 ∧ j_als j' = j_als j1 ∧ j_logs j' = j_logs j1 ∧
                j_logsize j' = j_logsize j1 ∧ j_tstor j' = j_tstor j1 ∧ j_refund j' = refund c - g ∧ thti j1 j')
        by (subst j'; by destruct j1).
      destruct Q as (Q1&Q2&Q3&Q4&Q5&Q6&Q7&Q8&Q9&Q10&Q11&Q12).
      split_and!; simpl; [done| | |by eapply thti_trans].
      * apply (wf_other j1 j' W1 Q1 Q2 Q3 Q4).
        -- rewrite Q5. apply W1.
        -- apply (alwf_frame j1); [done|done|by apply wf_alwf].
        -- apply (alwf_frame j1); [done|done|by apply wf_alwf].
        -- intros th. rewrite Q8. apply W1.
        -- intros s y. rewrite Q10. apply W1.
      * apply (Rc_other st j j' c _ R); [congruence|congruence|congruence|congruence| | | | | | | |].
        -- by destruct c.
        -- by destruct c.
        -- rewrite Q10 P10 (rc_tstor _ _ _ R). by destruct c.
        -- rewrite Q11. by destruct c.
        -- intros b. rewrite Q6 P6 (rc_ala _ _ _ R). by destruct c.
        -- intros b s. rewrite -(rc_als _ _ _ R b s). unfold al_contains_slot. by rewrite Q6 Q7 P6 P7.
        -- intros th. rewrite Q8 P8 (rc_logs _ _ _ R). by destruct c.
        -- rewrite Q9 P9 (rc_logsize _ _ _ R). by destruct c.
  - (* AddLog *)
    rewrite j_append_nomut //. rewrite (rc_logsize _ _ _ R).
    set (l := {| l_th := j_th j; l_ti := j_ti j; l_idx := N.of_nat (length (logs c)); l_addr := a; l_data := d |}).
    set (j' := j <| j_entries ::= cons _ |> <| j_logs ::= _ |> <| j_logsize ::= N.succ |>).
    assert (P : j_objs j' = j_objs j ∧ j_muts j' = j_muts j ∧ j_db j' = j_db j ∧ j_destruct j' = j_destruct j ∧
                j_bad j' = j_bad j ∧ j_ala j' = j_ala j ∧ j_als j' = j_als j ∧
                j_logs j' = <[j_th j := default [] (j_logs j !! j_th j) ++ [l]]> (j_logs j) ∧
                j_logsize j' = N.succ (j_logsize j) ∧ j_tstor j' = j_tstor j ∧ j_refund j' = j_refund j ∧ thti j j')
      by (subst j'; by destruct j).
    destruct P as (P1&P2&P3&P4&P5&P6&P7&P8&P9&P10&P11&P12).
    split_and!; simpl; [done| | |done].
    + apply (wf_other j j' W P1 P2 P3 P4).
      * rewrite P5. apply W.
      * apply (alwf_frame j); [done|done|by apply wf_alwf].
      * apply (alwf_frame j); [done|done|by apply wf_alwf].
      * intros th. rewrite P8. destruct (decide (th = j_th j)) as [->|Hn].
        -- rewrite lookup_insert. intros [= H]. by destruct (default [] (j_logs j !! j_th j)).
        -- rewrite lookup_insert_ne //. apply W.
      * intros s y. rewrite P10. apply W.
    + apply (Rc_other st j j' c _ R P1 P2 P3 P4).
      * by destruct c.
      * by destruct c.
      * rewrite P10 (rc_tstor _ _ _ R). by destruct c.
      * rewrite P11 (rc_refund _ _ _ R). by destruct c.
      * intros b. rewrite P6 (rc_ala _ _ _ R). by destruct c.
      * intros b s. rewrite -(rc_als _ _ _ R b s). unfold al_contains_slot. by rewrite P6 P7.
      * intros th. rewrite P8.
        replace (logs (c <| logs ::= λ l0, l0 ++ [l] |>)) with (logs c ++ [l]) by (by destruct c).
        rewrite filter_app. destruct (decide (th = j_th j)) as [->|Hn].
        -- rewrite lookup_insert. simpl. rewrite (rc_logs _ _ _ R). f_equal.
           rewrite filter_cons_True //.
        -- rewrite lookup_insert_ne // (rc_logs _ _ _ R). rewrite filter_cons_False; [simpl; congruence|].
           by rewrite filter_nil app_nil_r.
      * rewrite P9 (rc_logsize _ _ _ R).
        replace (logs (c <| logs ::= λ l0, l0 ++ [l] |>)) with (logs c ++ [l]) by (by destruct c).
        rewrite app_length. simpl. lia.
Qed.

(* ------------------------------------------------------------------ *)
(* the coupling invariant on whole states: current cores related, and every valid
   revision is matched by a saved copy that is related to the implementation state the
   journal would revert to *)
Fixpoint stack_rel (st : bool) (j : jstate) (revs : list (N * nat)) (stack : list (N * rcore)) : Prop :=
  match revs, stack with
  | [], [] => True
  | (id, idx) :: revs', (id', c) :: stack' =>
      id = id' ∧ (idx ≤ length (j_entries j))%nat ∧
      ∃ jk, (revert_to idx j) <| j_revs := revs' |> = jk <| j_nextrev := j_nextrev j |> ∧
            j_revs jk = revs' ∧ length (j_entries jk) = idx ∧ wf jk ∧ Rc st jk c ∧
            stack_rel st jk revs' stack'
  | _, _ => False
  end.

Record Inv (j : jstate) (r : rstate) : Prop := {
  inv_wf : wf j;
  inv_rc : Rc (r_sticky r) j (r_cur r);
  inv_th : j_th j = r_th r;
  inv_ti : j_ti j = r_ti r;
  inv_next : j_nextrev j = r_next r;
  inv_stack : stack_rel (r_sticky r) j (j_revs j) (r_stack r)
}.

(* journal.revert ignores validRevisions / nextRevisionId *)
Lemma revert_entry_set_revs e j rv :
  revert_entry e (j <| j_revs := rv |>) = (revert_entry e j) <| j_revs := rv |>.
Proof.
  destruct e; simpl; unfold with_obj, al_delete_slot; destruct j; rj; simpl;
    try (destruct (default [] (j_logs !! th)) as [|? [|? ?]]; done);
    repeat case_match; done.
Qed.
Lemma revert_entry_set_next e j n :
  revert_entry e (j <| j_nextrev := n |>) = (revert_entry e j) <| j_nextrev := n |>.
Proof.
  destruct e; simpl; unfold with_obj, al_delete_slot; destruct j; rj; simpl;
    try (destruct (default [] (j_logs !! th)) as [|? [|? ?]]; done);
    repeat case_match; done.
Qed.
Lemma unmutate_set_revs e j rv : unmutate e (j <| j_revs := rv |>) = (unmutate e j) <| j_revs := rv |>.
Proof. unfold unmutate. destruct j; rj; simpl. repeat case_match; done. Qed.
Lemma unmutate_set_next e j n : unmutate e (j <| j_nextrev := n |>) = (unmutate e j) <| j_nextrev := n |>.
Proof. unfold unmutate. destruct j; rj; simpl. repeat case_match; done. Qed.

Lemma undo1_set_revs j rv : undo1 (j <| j_revs := rv |>) = (undo1 j) <| j_revs := rv |>.
Proof.
  unfold undo1. replace (j_entries (j <| j_revs := rv |>)) with (j_entries j) by (by destruct j).
  destruct (j_entries j); [done|]. rewrite revert_entry_set_revs unmutate_set_revs.
  by destruct (unmutate j0 (revert_entry j0 j)).
Qed.
Lemma undo1_set_next j n : undo1 (j <| j_nextrev := n |>) = (undo1 j) <| j_nextrev := n |>.
Proof.
  unfold undo1. replace (j_entries (j <| j_nextrev := n |>)) with (j_entries j) by (by destruct j).
  destruct (j_entries j); [done|]. rewrite revert_entry_set_next unmutate_set_next.
  by destruct (unmutate j0 (revert_entry j0 j)).
Qed.
Lemma revert_n_set_revs k j rv : revert_n k (j <| j_revs := rv |>) = (revert_n k j) <| j_revs := rv |>.
Proof.
  revert j. induction k as [|k IH]; intros j; [done|]. rewrite !revert_n_S.
  replace (j_entries (j <| j_revs := rv |>)) with (j_entries j) by (by destruct j).
  destruct (j_entries j); [done|]. by rewrite undo1_set_revs IH.
Qed.
Lemma revert_n_set_next k j n : revert_n k (j <| j_nextrev := n |>) = (revert_n k j) <| j_nextrev := n |>.
Proof.
  revert j. induction k as [|k IH]; intros j; [done|]. rewrite !revert_n_S.
  replace (j_entries (j <| j_nextrev := n |>)) with (j_entries j) by (by destruct j).
  destruct (j_entries j); [done|]. by rewrite undo1_set_next IH.
Qed.
Lemma revert_to_set_revs i j rv : revert_to i (j <| j_revs := rv |>) = (revert_to i j) <| j_revs := rv |>.
Proof.
  unfold revert_to. replace (j_entries (j <| j_revs := rv |>)) with (j_entries j) by (by destruct j).
  apply revert_n_set_revs.
Qed.
Lemma revert_to_set_next i j n : revert_to i (j <| j_nextrev := n |>) = (revert_to i j) <| j_nextrev := n |>.
Proof.
  unfold revert_to. replace (j_entries (j <| j_nextrev := n |>)) with (j_entries j) by (by destruct j).
  apply revert_n_set_next.
Qed.

Lemma wf_ext j j' :
  j_bad j' = j_bad j → j_muts j' = j_muts j → j_ala j' = j_ala j → j_als j' = j_als j →
  j_logs j' = j_logs j → j_tstor j' = j_tstor j → j_objs j' = j_objs j → j_db j' = j_db j →
  j_destruct j' = j_destruct j → wf j → wf j'.
Proof.
  intros E1 E2 E3 E4 E5 E6 E7 E8 E9 W. apply (wf_other j j' W); try done.
  - rewrite E1. apply W.
  - apply (alwf_frame j); [done|done|by apply wf_alwf].
  - apply (alwf_frame j); [done|done|by apply wf_alwf].
  - intros th. rewrite E5. apply W.
  - intros s y. rewrite E6. apply W.
Qed.

Lemma Rc_ext st j j' c :
  j_muts j' = j_muts j → j_ala j' = j_ala j → j_als j' = j_als j → j_logs j' = j_logs j →
  j_logsize j' = j_logsize j → j_tstor j' = j_tstor j → j_refund j' = j_refund j →
  j_objs j' = j_objs j → j_db j' = j_db j → j_destruct j' = j_destruct j → Rc st j c → Rc st j' c.
Proof.
  intros E2 E3 E4 E5 E5' E6 E6' E7 E8 E9 R. apply (Rc_other st j j' c c R); try done.
  - rewrite E6. apply R.
  - rewrite E6'. apply R.
  - intros b. rewrite E3. apply R.
  - intros b s. rewrite -(rc_als _ _ _ R b s). unfold al_contains_slot. by rewrite E3 E4.
  - intros th. rewrite E5. apply R.
  - rewrite E5'. apply R.
Qed.

Lemma stack_rel_step st j j' revs stack :
  stack_rel st j revs stack → revert_to (length (j_entries j)) j' = j →
  j_nextrev j' = j_nextrev j → stack_rel st j' revs stack.
Proof.
  intros H Hr Hn. destruct revs as [|[id idx] revs'], stack as [|[id' c] stack']; try done.
  destruct H as (-> & Hle & jk & E & H). simpl.
  destruct (decide (length (j_entries j) ≤ length (j_entries j'))%nat) as [Hl|Hg].
  - split; [done|]. split; [lia|]. exists jk. split; [|done].
    rewrite (revert_to_trans idx (length (j_entries j))) // Hr Hn. done.
  - assert (j' = j) as ->; [|by split_and!; [done|done|exists jk]].
    rewrite -Hr. unfold revert_to.
    replace (length (j_entries j') - length (j_entries j))%nat with 0%nat by lia. done.
Qed.

(* looking up a revision on both sides *)
Lemma set_revs_inv (X Y : jstate) r : X <| j_revs := r |> = Y → X = Y <| j_revs := j_revs X |>.
Proof. destruct X, Y; rj; simpl. intros [=]; subst. done. Qed.

Lemma stack_find st j revs stack id :
  stack_rel st j revs stack →
  match find_revision id revs with
  | None => find_rev id stack = None
  | Some (idx, rest) =>
      (idx ≤ length (j_entries j))%nat ∧
      ∃ c stack', find_rev id stack = Some (c, stack') ∧
        ∃ jk, (revert_to idx j) <| j_revs := rest |> = jk <| j_nextrev := j_nextrev j |> ∧
              j_revs jk = rest ∧ wf jk ∧ Rc st jk c ∧ stack_rel st jk rest stack'
  end.
Proof.
  revert j stack. induction revs as [|[i idx] revs' IH]; intros j stack H.
  - destruct stack; done.
  - destruct stack as [|[i' c] stack']; [done|]. destruct H as (-> & Hle & jk & E & Hrv & Hlen & Wk & Rk & Hk).
    simpl. destruct (i' =? id) eqn:Ei.
    + split; [done|]. exists c, stack'. split; [done|]. by exists jk.
    + specialize (IH jk stack' Hk). destruct (find_revision id revs') as [[idx2 rest]|]; [|done].
      destruct IH as (Hle2 & c2 & st2 & F & jk2 & E2 & R2 & W2 & Rc2 & S2).
      split; [lia|]. exists c2, st2. split; [done|]. exists jk2. split; [|done].
      rewrite (revert_to_trans idx2 idx); [lia|].
      apply set_revs_inv in E. rewrite E revert_to_set_revs revert_to_set_next.
      revert E2. generalize (revert_to idx2 jk). intros A E2.
      destruct A, jk2; rj; simpl in *. injection E2; intros; subst. done.
Qed.

Lemma revert_entry_thti e j : j_th (revert_entry e j) = j_th j ∧ j_ti (revert_entry e j) = j_ti j.
Proof.
  destruct e; simpl; unfold with_obj, al_delete_slot; rs; repeat case_match; rs; done.
Qed.
Lemma undo1_thti j : j_th (undo1 j) = j_th j ∧ j_ti (undo1 j) = j_ti j.
Proof.
  unfold undo1. destruct (j_entries j) as [|e rest]; [done|].
  destruct (revert_entry_thti e j) as [H1 H2]. unfold unmutate.
  destruct (mutation e) as [[a k]|]; [|destruct (revert_entry e j); rs; done].
  destruct (j_muts (revert_entry e j) !! a); [|destruct (revert_entry e j); rs; done].
  destruct (m_remove k m) as [m' []]; destruct (revert_entry e j); rs; done.
Qed.
Lemma revert_n_thti n j : j_th (revert_n n j) = j_th j ∧ j_ti (revert_n n j) = j_ti j.
Proof.
  revert j. induction n as [|n IH]; intros j; [done|]. rewrite revert_n_S.
  destruct (j_entries j); [done|]. destruct (IH (undo1 j)) as [-> ->]. apply undo1_thti.
Qed.

(* ------------------------------------------------------------------ *)
(* one step of each kind preserves the invariant and returns the same value *)
Definition step_ok (j : jstate) (r : rstate) (o : op) : Prop :=
  (step_j j o).2 = (step_r r o).2 ∧ Inv (step_j j o).1 (step_r r o).1.

Lemma step_r_core r o :
  core_op o = true →
  step_r r o = (let '(c, w) := core_step (r_th r) (r_ti r) (r_cur r) o in
                (r <| r_cur := c |> <| r_sticky := r_sticky r || sticky_touch (r_cur r) o |>, w)).
Proof. by destruct o. Qed.

Lemma step_core j r o :
  Inv j r → core_op o = true → op_ok j o = true → sticky_j j o = false → step_ok j r o.
Proof.
  intros [W R Hth Hti Hn Hs] Hc Hok Hst.
  pose proof (core_refines _ j _ o W R Hc Hok Hst) as (P1 & P2 & P3 & P4 & P5).
  pose proof (restore j o W Hc Hok Hst) as Hr.
  rewrite Hth Hti in P1 P3. unfold step_ok. rewrite step_r_core //.
  rewrite -(sticky_eq _ _ _ o R) Hst orb_false_r.
  destruct (core_step (r_th r) (r_ti r) (r_cur r) o) as [c w] eqn:Ec. simpl in *.
  pose proof (revert_n_revs (length (j_entries (step_j j o).1) - length (j_entries j)) (step_j j o).1) as [Hrv Hnx].
  fold (revert_to (length (j_entries j)) (step_j j o).1) in Hrv, Hnx. rewrite Hr in Hrv Hnx.
  symmetry in Hrv, Hnx.
  split; [done|]. split.
  - done.
  - by destruct r.
  - rewrite P4. by destruct r.
  - rewrite P5. by destruct r.
  - rewrite Hnx. by destruct r.
  - rewrite Hrv. replace (r_stack (r <| r_cur := c |> <| r_sticky := r_sticky r |>)) with (r_stack r) by (by destruct r).
    replace (r_sticky (r <| r_cur := c |> <| r_sticky := r_sticky r |>)) with (r_sticky r) by (by destruct r).
    by eapply stack_rel_step.
Qed.

Lemma step_snapshot j r : Inv j r → step_ok j r OSnapshot.
Proof.
  intros [W R Hth Hti Hn Hs]. unfold step_ok. simpl. rewrite Hn. split; [done|].
  set (j' := j <| j_revs ::= cons _ |> <| j_nextrev ::= N.succ |>).
  assert (P : j_bad j' = j_bad j ∧ j_muts j' = j_muts j ∧ j_ala j' = j_ala j ∧ j_als j' = j_als j ∧
              j_logs j' = j_logs j ∧ j_logsize j' = j_logsize j ∧ j_tstor j' = j_tstor j ∧ j_refund j' = j_refund j ∧
              j_objs j' = j_objs j ∧ j_db j' = j_db j ∧ j_destruct j' = j_destruct j ∧ j_th j' = j_th j ∧
              j_ti j' = j_ti j ∧ j_nextrev j' = N.succ (j_nextrev j) ∧ j_entries j' = j_entries j ∧
              j_revs j' = (r_next r, length (j_entries j)) :: j_revs j)
    by (subst j'; by destruct j).
  destruct P as (P1&P2&P3&P4&P5&P6&P7&P8&P9&P10&P11&P12&P13&P14&P15&P16).
  split.
  - by apply (wf_ext j).
  - replace (r_sticky _) with (r_sticky r) by (by destruct r).
    replace (r_cur _) with (r_cur r) by (by destruct r). by apply (Rc_ext _ j).
  - rewrite P12 Hth. by destruct r.
  - rewrite P13 Hti. by destruct r.
  - rewrite P14 Hn. by destruct r.
  - rewrite P16. replace (r_sticky _) with (r_sticky r) by (by destruct r).
    replace (r_stack _) with ((r_next r, r_cur r) :: r_stack r) by (by destruct r).
    simpl. split; [done|]. split; [lia|]. exists j. split_and!; try done.
    rewrite -P15 revert_to_0. subst j'. by destruct j.
Qed.

Lemma stack_rel_set_next st j n revs stack :
  stack_rel st j revs stack → stack_rel st (j <| j_nextrev := n |>) revs stack.
Proof.
  intros H. destruct revs as [|[id idx] revs'], stack as [|[id' c] stack']; try done.
  destruct H as (-> & Hle & jk & E & H). simpl.
  split; [done|]. split; [by destruct j|]. exists jk. split; [|done].
  rewrite revert_to_set_next. revert E. generalize (revert_to idx j). intros A E.
  destruct A, jk, j; rj; simpl in *. injection E; intros; subst. done.
Qed.

Lemma step_revert j r id : Inv j r → step_ok j r (ORevert id).
Proof.
  intros [W R Hth Hti Hn Hs]. unfold step_ok. simpl.
  pose proof (stack_find _ _ _ _ id Hs) as H.
  destruct (find_revision id (j_revs j)) as [[idx rest]|].
  - destruct H as (Hle & c & stack' & -> & jk & E & Hrv & Wk & Rk & Sk). simpl. split; [done|].
    assert (Hthk : j_th jk = j_th j ∧ j_ti jk = j_ti j).
    { destruct (revert_n_thti (length (j_entries j) - idx) j) as [T1 T2].
      fold (revert_to idx j) in T1, T2. revert E T1 T2. generalize (revert_to idx j). intros A E T1 T2.
      destruct A, jk; rj; simpl in *. injection E; intros; subst. done. }
    rewrite E.
    split.
    + apply (wf_ext jk); try done; by destruct jk.
    + replace (r_sticky _) with (r_sticky r) by (by destruct r).
      replace (r_cur _) with c by (by destruct r). apply (Rc_ext _ jk); try done; by destruct jk.
    + replace (r_th _) with (r_th r) by (by destruct r). rewrite -Hth -(proj1 Hthk). by destruct jk.
    + replace (r_ti _) with (r_ti r) by (by destruct r). rewrite -Hti -(proj2 Hthk). by destruct jk.
    + replace (r_next _) with (r_next r) by (by destruct r). rewrite -Hn. by destruct jk.
    + replace (r_sticky _) with (r_sticky r) by (by destruct r).
      replace (r_stack _) with stack' by (by destruct r).
      replace (j_revs (jk <| j_nextrev := j_nextrev j |>)) with rest by (rewrite -Hrv; by destruct jk).
      by apply stack_rel_set_next.
  - rewrite H. split; [done|]. by split.
Qed.

(* ------------------------------------------------------------------ *)
(* Finalise *)
Arguments new_object : simpl never.

Lemma fin_rel ru j j' a o x (t : bool) :
  obj_rel j a o x → j_db j' = j_db j →
  (a ∈ j_destruct j' ↔ a ∈ j_destruct j ∨ (t = true ∧ fin_del ru o = true)) →
  (t = false → o_dirty o = ∅ ∧ o_sd o = false ∧ o_new o = false) →
  (rAms ru = true → o_sd o = true → a_bal (o_data o) ≠ 0 → origin_blank j a o = true) →
  (o_origin o = None → a ∈ j_destruct j ∨ j_db j !! a = None) →
  match (if t then fin_obj ru o else Some o), fin_acct ru t x with
  | Some o', Some x' => obj_rel j' a o' x'
  | None, None => True
  | _, _ => False
  end.
Proof.
  intros (D1 & D2 & D3 & D4 & D5) Hdb Hds Hunt Hams Horg.
  assert (Hempty : obj_empty o = acct_empty (ra x)) by (unfold obj_empty; by rewrite D1).
  (* the account survives: committed reads fall back to the same place *)
  assert (Hfb : ∀ o', o_pending o' = o_dirty o ∪ o_pending o → (t = false ∨ fin_del ru o = false) →
                ∀ k, committed j' a o' k = get_state j a o k).
  { intros o' Hp Hsurv k. unfold committed, get_state, committed. rewrite Hp lookup_union.
    destruct (o_dirty o !! k) as [d|] eqn:Ed; simpl.
    - by destruct (o_pending o !! k).
    - destruct (o_pending o !! k) as [p|] eqn:Ep; simpl; [done|].
      unfold db_stor. rewrite Hdb.
      assert (Hiff : a ∈ j_destruct j' ↔ a ∈ j_destruct j).
      { rewrite Hds. split; [|tauto]. intros [H|[H1 H2]]; [done|]. destruct Hsurv; congruence. }
      by rewrite (bool_decide_ext _ _ Hiff). }
  assert (Hfin : (t = false ∨ fin_del ru o = false) →
     obj_rel j' a (if t then obj_finalise o else o) (x <| r_cstor := r_stor x |> <| r_new := false |>)).
  { intros Hsurv. destruct t.
    - split_and!; try done; simpl; intros k; unfold get_state; simpl;
        rewrite ?lookup_empty (Hfb (obj_finalise o)) //; apply D2.
    - destruct (Hunt eq_refl) as (U1 & U2 & U3).
      assert (Hp : o_pending o = o_dirty o ∪ o_pending o) by (rewrite U1; by rewrite left_id_L).
      split_and!; try done; simpl; try (by rewrite -D5);
        intros k; unfold get_state; rewrite ?U1 ?lookup_empty (Hfb o) //; apply D2. }
  unfold fin_acct. rewrite -D4 -Hempty.
  destruct t.
  - (* touched *)
    unfold fin_obj. unfold fin_del, fin_obj in Hds, Hfin.
    destruct (rAms ru) eqn:Ea; simpl in *.
    + destruct (o_sd o) eqn:Es.
      * rewrite -D1. destruct (a_bal (o_data o) =? 0) eqn:Eb; simpl in *; [done|].
        apply N.eqb_neq in Eb. specialize (Hams eq_refl eq_refl Eb).
        unfold origin_blank in Hams.
        assert (Hz : ∀ k, committed j' a (new_object (o_origin o) <| o_data ::= λ d, d <| a_bal := a_bal (o_data o) |> |>) k = 0).
        { intros k. unfold committed, new_object. simpl. rewrite lookup_empty.
          case_bool_decide as Hd; [done|]. unfold db_stor. rewrite Hdb.
          destruct (j_db j !! a) as [d|] eqn:Edb; [|done].
          destruct (o_origin o) eqn:Eo.
          - apply andb_true_iff in Hams as [_ Hams]. apply bool_decide_eq_true in Hams. rewrite Hams.
            unfold sget. by rewrite lookup_empty.
          - destruct (Horg eq_refl) as [H|H]; [|congruence]. exfalso. apply Hd. apply Hds. by left. }
        split_and!; try done;
          first [ (intros k; unfold get_state; rewrite ?Hz; unfold new_object; simpl; rewrite ?lookup_empty;
                   unfold sget; by rewrite ?lookup_empty)
                | (unfold new_object; simpl; rs; destruct (o_origin o) as [y|] eqn:Eo; simpl; [|done];
                   apply andb_true_iff in Hams as [Hams _]; apply andb_true_iff in Hams as [H1 H2];
                   apply N.eqb_eq in H1, H2; destruct y; simpl in *; by subst) ].
      * destruct (r158 ru && obj_empty o) eqn:E1; simpl.
        -- rewrite andb_true_r. rewrite E1. done.
        -- rewrite andb_true_r E1. apply (Hfin (or_intror eq_refl)).
    + destruct (o_sd o) eqn:Es; simpl in *; [done|].
      rewrite andb_true_r. destruct (r158 ru && obj_empty o) eqn:E1; simpl; [done|].
      apply (Hfin (or_intror eq_refl)).
  - destruct (Hunt eq_refl) as (U1 & U2 & U3). rewrite U2. rewrite andb_false_r. simpl.
    apply (Hfin (or_introl eq_refl)).
Qed.

Lemma step_r_finalise r ru :
  step_r r (OFinalise ru) =
  (r <| r_cur := (r_cur r) <| accts := map_imap (λ a x, fin_acct ru (bool_decide (a ∈ rtouched r)) x) (accts (r_cur r)) |>
                           <| touched := ∅ |> <| refund := 0 |> |>
     <| r_stack := [] |> <| r_next := 0 |> <| r_sticky := false |>, RNone).
Proof. done. Qed.

Lemma step_finalise j r ru : Inv j r → op_ok j (OFinalise ru) = true → step_ok j r (OFinalise ru).
Proof.
  intros [W R Hth Hti Hn Hs] Hok. unfold step_ok. rewrite step_r_finalise.
  simpl step_j. simpl in Hok. apply bool_decide_eq_true in Hok.
  set (dirty := λ a, bool_decide (a ∈ dom (j_muts j))).
  set (j' := finalise ru j).
  set (D := dom (filter (λ ao, Is_true (dirty ao.1 && fin_del ru ao.2)) (j_objs j))).
  assert (P : j_objs j' = map_imap (λ a o, if dirty a then fin_obj ru o else Some o) (j_objs j) ∧
              j_destruct j' = j_destruct j ∪ D ∧ j_muts j' = ∅ ∧ j_entries j' = [] ∧ j_revs j' = [] ∧
              j_nextrev j' = 0 ∧ j_refund j' = 0 ∧ j_bad j' = j_bad j ∧ j_ala j' = j_ala j ∧ j_als j' = j_als j ∧
              j_logs j' = j_logs j ∧ j_logsize j' = j_logsize j ∧ j_tstor j' = j_tstor j ∧ j_db j' = j_db j ∧
              j_th j' = j_th j ∧ j_ti j' = j_ti j)
    by (subst j' D dirty; unfold finalise, clear_internal; by destruct j).
  destruct P as (P1&P2&P3&P4&P5&P6&P7&P8&P9&P10&P11&P12&P13&P14&P15&P16).
  assert (HD : ∀ a, a ∈ D ↔ ∃ o, j_objs j !! a = Some o ∧ dirty a = true ∧ fin_del ru o = true).
  { intros a. subst D. rewrite elem_of_dom. split.
    - intros [o Ho]. apply map_filter_lookup_Some in Ho as [Ho Hp]. simpl in Hp.
      apply Is_true_true, andb_true_iff in Hp. by exists o.
    - intros (o & Ho & H1 & H2). exists o. apply map_filter_lookup_Some. split; [done|]. simpl.
      apply Is_true_true. by rewrite H1 H2. }
  assert (Hdt : ∀ a, dirty a = bool_decide (a ∈ rtouched r)).
  { intros a. subst dirty. simpl. apply bool_decide_ext. rewrite (rc_touched _ _ _ R a). unfold rtouched.
    destruct (r_sticky r); [rewrite elem_of_union elem_of_singleton; naive_solver|naive_solver]. }
  (* per-account facts *)
  assert (Hper : ∀ a o, j_objs j !! a = Some o →
     (dirty a = false → o_dirty o = ∅ ∧ o_sd o = false ∧ o_new o = false) ∧
     (rAms ru = true → o_sd o = true → a_bal (o_data o) ≠ 0 → origin_blank j a o = true) ∧
     (a ∈ j_destruct j' ↔ a ∈ j_destruct j ∨ (dirty a = true ∧ fin_del ru o = true))).
  { intros a o Ho. destruct (Hok a o Ho) as [G1 G2]. split_and!.
    - intros Hd. subst dirty. simpl in Hd. apply bool_decide_eq_false in Hd. split_and!.
      + destruct (decide (o_dirty o = ∅)) as [|Hne]; [done|]. exfalso. apply Hd. by eapply wf_dirtymut.
      + destruct (o_sd o) eqn:E; [|done]. exfalso. apply Hd. by eapply wf_sdmut.
      + destruct (o_new o) eqn:E; [|done]. exfalso. by apply Hd, G1.
    - done.
    - rewrite P2 elem_of_union HD. split; [intros [H|(o2 & Ho2 & H)]; [by left|right; by simplify_eq]|].
      intros [H|H]; [by left|right; by exists o]. }
  split; [done|]. split.
  - (* wf *)
    split.
    + rewrite P8. apply W.
    + intros a m. unfold mloc. by rewrite P3 lookup_empty.
    + intros a idx. unfold al_loc. rewrite P9 P10. apply W.
    + intros th. rewrite P11. apply W.
    + intros s y. rewrite P13. apply W.
    + intros a o' s d. rewrite P1 map_lookup_imap. destruct (j_objs j !! a) as [o|] eqn:Ho; simpl; [|done].
      destruct (Hper a o Ho) as (U & _ & _).
      destruct (dirty a) eqn:Ed.
      * unfold fin_obj. repeat case_match; try done; intros [= <-]; simpl; by rewrite lookup_empty.
      * intros [= <-]. destruct (U eq_refl) as (-> & _). by rewrite lookup_empty.
    + intros a a' idx. rewrite P9. apply W.
    + intros a o'. rewrite P1 P2 P14 map_lookup_imap. destruct (j_objs j !! a) as [o|] eqn:Ho; simpl; [|done].
      intros Ho' Horg. assert (o_origin o = None).
      { destruct (dirty a); [|by simplify_eq]. unfold fin_obj in Ho'. repeat case_match; simplify_eq; done. }
      destruct (wf_origin _ W a o Ho H) as [Hd|Hd]; [left; set_solver|by right].
    + intros a. rewrite P1 P2 P14 map_lookup_imap. destruct (j_objs j !! a) as [o|] eqn:Ho; simpl.
      * destruct (dirty a) eqn:Ed; [|done]. intros Hf. left. apply elem_of_union. right. apply HD.
        exists o. split_and!; try done. unfold fin_del. by rewrite Hf.
      * intros _. destruct (wf_eager _ W a Ho) as [Hd|Hd]; [left; set_solver|by right].
    + intros a o'. rewrite P1 map_lookup_imap. destruct (j_objs j !! a) as [o|] eqn:Ho; simpl; [|done].
      destruct (Hper a o Ho) as (U & _ & _). intros Ho' Hne. exfalso. apply Hne.
      destruct (dirty a) eqn:Ed.
      * unfold fin_obj in Ho'. repeat case_match; simplify_eq; done.
      * simplify_eq. by destruct (U eq_refl) as (-> & _).
    + intros a o'. rewrite P1 map_lookup_imap. destruct (j_objs j !! a) as [o|] eqn:Ho; simpl; [|done].
      destruct (Hper a o Ho) as (U & _ & _). intros Ho' Hsd. exfalso.
      destruct (dirty a) eqn:Ed.
      * unfold fin_obj in Ho'. repeat case_match; simplify_eq; unfold obj_finalise, new_object in *; rs; try congruence;
          match goal with H : _ || _ = false |- _ => rewrite Hsd in H; done end.
      * simplify_eq. destruct (U eq_refl) as (_ & Hx & _). congruence.
  - (* Rc *)
    replace (r_sticky _) with false by done.
    match goal with |- Rc _ _ (r_cur ?rr) => replace (r_cur rr) with
      ((r_cur r) <| accts := map_imap (λ a x, fin_acct ru (bool_decide (a ∈ rtouched r)) x) (accts (r_cur r)) |>
                 <| touched := ∅ |> <| refund := 0 |>) by (by destruct r) end.
    set (c := r_cur r) in *.
    split.
    + intros a. rewrite P1. replace (accts _) with (map_imap (λ a x, fin_acct ru (bool_decide (a ∈ rtouched r)) x) (accts c)) by (by destruct c).
      rewrite !map_lookup_imap. pose proof (rc_objs _ _ _ R a) as H.
      destruct (j_objs j !! a) as [o|] eqn:Ho, (accts c !! a) as [x|] eqn:Hx; try done. simpl.
      destruct (Hper a o Ho) as (U1 & U2 & U3). rewrite -Hdt.
      apply (fin_rel ru j j' a o x (dirty a)); try done. by eapply wf_origin.
    + rewrite P13 (rc_tstor _ _ _ R). by destruct c.
    + rewrite P7. by destruct c.
    + intros a. rewrite P9 (rc_ala _ _ _ R). by destruct c.
    + intros a s. rewrite -(rc_als _ _ _ R a s). unfold al_contains_slot. by rewrite P9 P10.
    + intros th. rewrite P11 (rc_logs _ _ _ R). by destruct c.
    + rewrite P12 (rc_logsize _ _ _ R). by destruct c.
    + intros a. rewrite P3 dom_empty_L. replace (touched _) with (∅ : gset addr) by (by destruct c). set_solver.
  - rewrite P15 Hth. by destruct r.
  - rewrite P16 Hti. by destruct r.
  - rewrite P6. by destruct r.
  - rewrite P5. by destruct r.
Qed.

(* ------------------------------------------------------------------ *)
(* SetTxContext + Prepare *)
Definition alframe (j j' : jstate) : Prop :=
  j_objs j' = j_objs j ∧ j_muts j' = j_muts j ∧ j_db j' = j_db j ∧ j_destruct j' = j_destruct j ∧
  j_bad j' = j_bad j ∧ j_logs j' = j_logs j ∧ j_logsize j' = j_logsize j ∧ j_tstor j' = j_tstor j ∧
  j_refund j' = j_refund j ∧ j_entries j' = j_entries j ∧ j_th j' = j_th j ∧ j_ti j' = j_ti j ∧
  j_revs j' = j_revs j ∧ j_nextrev j' = j_nextrev j.

Lemma alframe_refl j : alframe j j.
Proof. by repeat split. Qed.
Lemma alframe_trans j1 j2 j3 : alframe j1 j2 → alframe j2 j3 → alframe j1 j3.
Proof. unfold alframe. intros H1 H2. destruct_and!. split_and!; congruence. Qed.

Lemma add_address_frame a j : alframe j (al_add_address a j).1.
Proof.
  destruct (al_add_address_proj a j) as (P1&P2&P3&P4&P5&P6&P7&P8&P9&P10&P11&P12&P13&P14&P15&P16&P17).
  by split_and!.
Qed.
Lemma add_slot_frame a k j A S : alwf j → alrel j A S → alframe j (al_add_slot a k j).1.1.
Proof.
  intros HW HR. destruct (al_add_slot_proj a k j) as (P4&P5&P6&P7&P9&P10&P11&P12&P13&P14&P15&P16&P17).
  destruct (al_add_slot_spec a k j A S HW HR) as (_ & _ & HB & _). by split_and!.
Qed.

Lemma slots_fold a ks : ∀ j A S,
  alwf j → alrel j A S → a ∈ A →
  let j' := foldl (λ j k, (al_add_slot a k j).1.1) j ks in
  let S' := foldl (λ (S : gset (addr * slot)) k, {[(a, k)]} ∪ S) S ks in
  alwf j' ∧ alrel j' A S' ∧ alframe j j'.
Proof.
  induction ks as [|k ks IH]; intros j A S HW HR Ha; simpl; [split_and!; [done|done|apply alframe_refl]|].
  destruct (al_add_slot_spec a k j A S HW HR) as (HW1 & HR1 & _).
  replace ({[a]} ∪ A) with A in HR1 by set_solver.
  destruct (IH _ _ _ HW1 HR1 Ha) as (H1 & H2 & H3). split_and!; [done|done|].
  eapply alframe_trans; [by eapply add_slot_frame|done].
Qed.

Lemma entries_fold (l : list (addr * list slot)) : ∀ j A S,
  alwf j → alrel j A S →
  let j' := foldl (λ j e, foldl (λ j k, (al_add_slot e.1 k j).1.1) (al_add_address e.1 j).1 e.2) j l in
  let AS' := foldl (λ (AS : gset addr * gset (addr * slot)) e,
                     (({[e.1]} ∪ AS.1 : gset addr),
                      foldl (λ (S : gset (addr * slot)) k, {[(e.1, k)]} ∪ S) AS.2 e.2)) (A, S) l in
  alwf j' ∧ alrel j' AS'.1 AS'.2 ∧ alframe j j'.
Proof.
  induction l as [|[a ks] l IH]; intros j A S HW HR; simpl; [split_and!; [done|done|apply alframe_refl]|].
  pose proof (al_add_address_wf a j HW) as HW1. pose proof (al_add_address_rel a j A S HR) as HR1.
  destruct (slots_fold a ks _ _ _ HW1 HR1) as (HW2 & HR2 & HF2); [set_solver|].
  destruct (IH _ _ _ HW2 HR2) as (H1 & H2 & H3). split_and!; [done|done|].
  eapply alframe_trans; [|done]. eapply alframe_trans; [apply add_address_frame|done].
Qed.

Lemma prepare_spec ru sender coinbase dst l j :
  let j' := prepare_al ru sender coinbase dst l j in
  let AS := build_al ru sender coinbase dst l in
  alwf j' ∧ alrel j' AS.1 AS.2 ∧ alframe j j'.
Proof.
  unfold prepare_al, build_al.
  set (j0 := j <| j_ala := ∅ |> <| j_als := [] |>).
  assert (HW0 : alwf j0).
  { split; [intros a idx|intros a a' idx]; subst j0; destruct j; rj; simpl; by rewrite lookup_empty. }
  assert (HR0 : alrel j0 ∅ ∅).
  { split; [intros a|intros a k]; unfold al_contains_slot; subst j0; destruct j; rj; simpl; rewrite lookup_empty;
      [split; [by intros [? ?]|set_solver]|set_solver]. }
  assert (HF0 : alframe j j0) by (subst j0; by destruct j).
  pose proof (al_add_address_wf sender j0 HW0) as HW1. pose proof (al_add_address_rel sender j0 _ _ HR0) as HR1.
  pose proof (add_address_frame sender j0) as HF1.
  set (j1 := (al_add_address sender j0).1) in *.
  set (j2 := match dst with Some d => (al_add_address d j1).1 | None => j1 end).
  set (A2 := match dst with Some d => {[d]} ∪ ({[sender]} ∪ ∅) | None => {[sender]} ∪ (∅ : gset addr) end).
  assert (H2 : alwf j2 ∧ alrel j2 A2 ∅ ∧ alframe j1 j2).
  { subst j2 A2. destruct dst as [d|]; [|split_and!; [done|done|apply alframe_refl]].
    split_and!; [by apply al_add_address_wf|by apply al_add_address_rel|apply add_address_frame]. }
  destruct H2 as (HW2 & HR2 & HF2).
  destruct (entries_fold l j2 A2 ∅ HW2 HR2) as (HW3 & HR3 & HF3).
  set (j3 := foldl _ j2 l) in *. set (AS3 := foldl _ (A2, ∅) l) in *.
  assert (HF : alframe j j3).
  { apply (alframe_trans j j2 j3); [|exact HF3]. apply (alframe_trans j j1 j2); [|exact HF2].
    apply (alframe_trans j j0 j1); [exact HF0|exact HF1]. }
  destruct (rShanghai ru); simpl.
  - split_and!; [by apply al_add_address_wf|by apply al_add_address_rel|].
    eapply alframe_trans; [done|apply add_address_frame].
  - by split_and!.
Qed.

Lemma set_tstor_proj (j2 j' : jstate) :
  j' = j2 <| j_tstor := ∅ |> →
  j_objs j' = j_objs j2 ∧ j_muts j' = j_muts j2 ∧ j_db j' = j_db j2 ∧ j_destruct j' = j_destruct j2 ∧
  j_bad j' = j_bad j2 ∧ j_logs j' = j_logs j2 ∧ j_logsize j' = j_logsize j2 ∧ j_tstor j' = ∅ ∧
  j_refund j' = j_refund j2 ∧ j_entries j' = j_entries j2 ∧ j_th j' = j_th j2 ∧ j_ti j' = j_ti j2 ∧
  j_revs j' = j_revs j2 ∧ j_nextrev j' = j_nextrev j2 ∧ j_ala j' = j_ala j2 ∧ j_als j' = j_als j2.
Proof. intros ->. by destruct j2. Qed.

Lemma step_txstart j r th ti ru sender coinbase dst l :
  Inv j r → op_ok j (OTxStart th ti ru sender coinbase dst l) = true →
  step_ok j r (OTxStart th ti ru sender coinbase dst l).
Proof.
  intros [W R Hth Hti Hn Hs] Hok. unfold step_ok. simpl in Hok.
  apply bool_decide_eq_true in Hok as [He Hrv].
  rewrite Hrv in Hs. destruct (r_stack r) as [|? ?] eqn:Est; [|done].
  simpl step_j. simpl step_r.
  set (j1 := j <| j_th := th |> <| j_ti := ti |>).
  assert (F1 : alframe j j1 ∨ True) by (by right).
  assert (P1 : j_objs j1 = j_objs j ∧ j_muts j1 = j_muts j ∧ j_db j1 = j_db j ∧ j_destruct j1 = j_destruct j ∧
               j_bad j1 = j_bad j ∧ j_logs j1 = j_logs j ∧ j_logsize j1 = j_logsize j ∧ j_tstor j1 = j_tstor j ∧
               j_refund j1 = j_refund j ∧ j_entries j1 = j_entries j ∧ j_th j1 = th ∧ j_ti j1 = ti ∧
               j_revs j1 = j_revs j ∧ j_nextrev j1 = j_nextrev j ∧ j_ala j1 = j_ala j ∧ j_als j1 = j_als j)
    by (subst j1; by destruct j).
  destruct P1 as (A1&A2&A3&A4&A5&A6&A7&A8&A9&A10&A11&A12&A13&A14&A15&A16).
  set (c := r_cur r) in *.
  set (j2 := if r2929 ru then prepare_al ru sender coinbase dst l j1 else j1).
  set (c1 := if r2929 ru then let '(aa, ss) := build_al ru sender coinbase dst l in c <| al_a := aa |> <| al_s := ss |> else c).
  assert (H2 : alwf j2 ∧ alrel j2 (al_a c1) (al_s c1) ∧ alframe j1 j2 ∧
               accts c1 = accts c ∧ touched c1 = touched c ∧ refund c1 = refund c ∧ logs c1 = logs c).
  { subst j2 c1. destruct (r2929 ru).
    - destruct (prepare_spec ru sender coinbase dst l j1) as (H1 & H2 & H3).
      destruct (build_al ru sender coinbase dst l) as [aa ss]. simpl in *.
      split_and!; try done; by destruct c.
    - split_and!; try done;
        first [ apply (alwf_frame j); [done|done|by apply wf_alwf]
              | apply (alrel_frame j); [done|done|by eapply Rc_alrel]
              | by split_and! ]. }
  destruct H2 as (HW2 & HR2 & HF2 & C1 & C2 & C3 & C4).
  destruct HF2 as (B1&B2&B3&B4&B5&B6&B7&B8&B9&B10&B11&B12&B13&B14).
  set (j' := j2 <| j_tstor := ∅ |>).
  pose proof (set_tstor_proj j2 j' eq_refl) as P.
  destruct P as (Q1&Q2&Q3&Q4&Q5&Q6&Q7&Q8&Q9&Q10&Q11&Q12&Q13&Q14&Q15&Q16).
  split; [done|].
  match goal with |- Inv _ ?rr => set (r' := rr) end.
  assert (PR : r_cur r' = c1 <| tstor := ∅ |> ∧ r_stack r' = [] ∧ r_next r' = r_next r ∧ r_sticky r' = r_sticky r ∧
               r_th r' = th ∧ r_ti r' = ti).
  { subst r' c1 c. destruct r as [rc rs rn rst rth rti]; simpl in *. by subst rs. }
  destruct PR as (R1 & R2 & R3 & R4 & R5 & R6).
  split.
  - apply (wf_other j j' W); [congruence|congruence|congruence|congruence| | | | |].
    + rewrite Q5 B5 A5. apply W.
    + apply (alwf_frame j2); done.
    + apply (alwf_frame j2); done.
    + intros t. rewrite Q6 B6 A6. apply W.
    + intros s y. by rewrite Q8 lookup_empty.
  - rewrite R4 R1. apply (Rc_other _ j j' c _ R); [congruence|congruence|congruence|congruence| | | | | | | |].
    + rewrite -C1. by destruct c1.
    + rewrite -C2. by destruct c1.
    + rewrite Q8. by destruct c1.
    + rewrite Q9 B9 A9 (rc_refund _ _ _ R) -C3. by destruct c1.
    + apply (alrel_frame j2 j') in HR2; [|done|done]. destruct HR2 as [X _]. intros b. rewrite X. by destruct c1.
    + apply (alrel_frame j2 j') in HR2; [|done|done]. destruct HR2 as [_ Y]. intros b s. rewrite Y. by destruct c1.
    + intros t. rewrite Q6 B6 A6 (rc_logs _ _ _ R) -C4. by destruct c1.
    + rewrite Q7 B7 A7 (rc_logsize _ _ _ R) -C4. by destruct c1.
  - by rewrite R5 Q11 B11 A11.
  - by rewrite R6 Q12 B12 A12.
  - by rewrite R3 Q14 B14 A14.
  - rewrite R2 Q13 B13 A13 Hrv. done.
Qed.

(* ------------------------------------------------------------------ *)
(* the refinement, one step at a time and over whole histories *)
Definition no_sticky (j : jstate) (o : op) : Prop := sticky_j j o = false.

Theorem step_refines j r o :
  Inv j r → op_ok j o = true → no_sticky j o → step_ok j r o.
Proof.
  intros I Hok Hst. destruct (core_op o) eqn:Hc; [by apply step_core|].
  destruct o; try done.
  - by apply step_snapshot.
  - by apply step_revert.
  - by apply step_finalise.
  - by apply step_txstart.
Qed.

Lemma Inv_init db : Inv (init_j db) (init_r db).
Proof.
  split; [apply wf_init| |done|done|done|done].
  change (r_sticky (init_r db)) with false.
  split.
  - intros a.
    change (j_objs (init_j db)) with ((λ d, new_object (Some (d_acct d))) <$> db).
    change (accts (r_cur (init_r db))) with
      ((λ d, {| ra := d_acct d; r_stor := d_stor d; r_cstor := d_stor d; r_new := false; r_sd := false |}) <$> db).
    rewrite !lookup_fmap. destruct (db !! a) as [d|] eqn:E; rewrite ?E; [|exact I].
    change (obj_rel (init_j db) a (new_object (Some (d_acct d)))
              {| ra := d_acct d; r_stor := d_stor d; r_cstor := d_stor d; r_new := false; r_sd := false |}).
    assert (Hc : ∀ k, committed (init_j db) a (new_object (Some (d_acct d))) k = sget (d_stor d) k).
    { intros k. unfold committed, db_stor, new_object. cbn [o_pending]. rewrite lookup_empty.
      change (j_destruct (init_j db)) with (∅ : gset addr). change (j_db (init_j db)) with db.
      rewrite E. by case_bool_decide. }
    split_and!; try done; intros k; unfold get_state, new_object; cbn [o_dirty]; rewrite lookup_empty; apply Hc.
  - done.
  - done.
  - intros a. change (j_ala (init_j db)) with (∅ : gmap addr Z). rewrite lookup_empty.
    change (al_a (r_cur (init_r db))) with (∅ : gset addr). split; [by intros [? ?]|set_solver].
  - intros a k. unfold al_contains_slot. change (j_ala (init_j db)) with (∅ : gmap addr Z). rewrite lookup_empty.
    change (al_s (r_cur (init_r db))) with (∅ : gset (addr * slot)). set_solver.
  - intros th. change (j_logs (init_j db)) with (∅ : gmap N (list log)). by rewrite lookup_empty.
  - done.
  - intros a. change (j_muts (init_j db)) with (∅ : gmap addr mstate). rewrite dom_empty_L.
    change (touched (r_cur (init_r db))) with (∅ : gset addr). set_solver.
Qed.

(* guards along a history, evaluated on the implementation model *)
Fixpoint hist_ok (j : jstate) (ops : list op) : Prop :=
  match ops with
  | [] => True
  | o :: rest => op_ok j o = true ∧ no_sticky j o ∧ hist_ok (step_j j o).1 rest
  end.

(* return values of a run *)
Fixpoint outs_j (j : jstate) (ops : list op) : list out :=
  match ops with [] => [] | o :: rest => (step_j j o).2 :: outs_j (step_j j o).1 rest end.
Fixpoint outs_r (r : rstate) (ops : list op) : list out :=
  match ops with [] => [] | o :: rest => (step_r r o).2 :: outs_r (step_r r o).1 rest end.

Theorem run_refines ops : ∀ j r,
  Inv j r → hist_ok j ops → Inv (run_j j ops) (run_r r ops) ∧ outs_j j ops = outs_r r ops.
Proof.
  induction ops as [|o rest IH]; intros j r I H; [done|].
  destruct H as (Hok & Hst & Hrest). destruct (step_refines j r o I Hok Hst) as [Ho I'].
  destruct (IH _ _ I' Hrest) as [I'' Hos]. simpl. split; [done|]. by rewrite Ho Hos.
Qed.

(* every observable getter agrees under the invariant *)
Lemma Inv_query j r q : Inv j r → query_j j q = query_r r q.
Proof.
  intros [W R Hth Hti Hn Hs]. unfold query_r. set (c := r_cur r) in *.
  assert (Ho : ∀ a, match j_objs j !! a, accts c !! a with
                    | Some o, Some x => obj_rel j a o x | None, None => True | _, _ => False end)
    by apply R.
  assert (Hacc : ∀ a (f : option sobj → answer) (g : option racct → answer),
            (∀ o x, obj_rel j a o x → f (Some o) = g (Some x)) → f None = g None →
            f (j_objs j !! a) = g (accts c !! a)).
  { intros a f g H1 H2. specialize (Ho a). destruct (j_objs j !! a) as [o|], (accts c !! a) as [x|]; try done.
    by apply H1. }
  destruct q as [a|a|a|a|a|a|a k|a k|a k|a|a k| |a|a|th]; simpl.
  - specialize (Ho a). f_equal. apply bool_decide_ext.
    destruct (j_objs j !! a), (accts c !! a); try done; split; intros [? ?]; eauto; done.
  - apply (Hacc a (λ o, AB match o with Some o => obj_empty o | None => true end)
                  (λ x, AB match x with Some x => acct_empty (ra x) | None => true end)); [|done].
    intros o x (D1 & _). unfold obj_empty. by rewrite D1.
  - apply (Hacc a (λ o, AN match o with Some o => a_bal (o_data o) | None => 0 end)
                  (λ x, AN match x with Some x => a_bal (ra x) | None => 0 end)); [|done].
    intros o x (D1 & _). by rewrite D1.
  - apply (Hacc a (λ o, AN match o with Some o => a_nonce (o_data o) | None => 0 end)
                  (λ x, AN match x with Some x => a_nonce (ra x) | None => 0 end)); [|done].
    intros o x (D1 & _). by rewrite D1.
  - apply (Hacc a (λ o, AN match o with Some o => a_code (o_data o) | None => 0 end)
                  (λ x, AN match x with Some x => a_code (ra x) | None => 0 end)); [|done].
    intros o x (D1 & _). by rewrite D1.
  - apply (Hacc a (λ o, AN match o with Some o => a_code (o_data o) + 1 | None => 0 end)
                  (λ x, AN match x with Some x => a_code (ra x) + 1 | None => 0 end)); [|done].
    intros o x (D1 & _). by rewrite D1.
  - apply (Hacc a (λ o, AN match o with Some o => get_state j a o k | None => 0 end)
                  (λ x, AN match x with Some x => sget (r_stor x) k | None => 0 end)); [|done].
    intros o x (_ & D2 & _). by rewrite D2.
  - apply (Hacc a (λ o, AN match o with Some o => committed j a o k | None => 0 end)
                  (λ x, AN match x with Some x => sget (r_cstor x) k | None => 0 end)); [|done].
    intros o x (_ & _ & D3 & _). by rewrite D3.
  - unfold tget. by rewrite (rc_tstor _ _ _ R).
  - f_equal. apply bool_decide_ext. apply R.
  - f_equal. destruct (al_contains_slot j a k) eqn:E.
    + symmetry. apply bool_decide_eq_true. by apply R.
    + symmetry. apply bool_decide_eq_false. intros H. apply R in H. congruence.
  - f_equal. apply R.
  - apply (Hacc a (λ o, AB match o with Some o => o_sd o | None => false end)
                  (λ x, AB match x with Some x => r_sd x | None => false end)); [|done].
    intros o x (_ & _ & _ & D4 & _). by rewrite D4.
  - apply (Hacc a (λ o, AB match o with Some o => o_new o | None => false end)
                  (λ x, AB match x with Some x => r_new x | None => false end)); [|done].
    intros o x (_ & _ & _ & _ & D5). by rewrite D5.
  - f_equal. apply R.
Qed.

Theorem history_refines db ops :
  hist_ok (init_j db) ops →
  (∀ q, query_j (run_j (init_j db) ops) q = query_r (run_r (init_r db) ops) q) ∧
  outs_j (init_j db) ops = outs_r (init_r db) ops ∧ j_bad (run_j (init_j db) ops) = false.
Proof.
  intros H. destruct (run_refines ops _ _ (Inv_init db) H) as [I Ho].
  split_and!; [intros q; by apply Inv_query|done|apply I].
Qed.

(* wf holds at every intermediate state of a guarded run from a related pair, so the
   exact-restore theorem needs no per-state hypothesis *)
Fixpoint core_hist (j : jstate) (ops : list op) : Prop :=
  match ops with
  | [] => True
  | o :: rest => core_op o = true ∧ op_ok j o = true ∧ no_sticky j o ∧ core_hist (step_j j o).1 rest
  end.

Lemma core_hist_run_ok ops : ∀ j r, Inv j r → core_hist j ops → run_ok j ops.
Proof.
  induction ops as [|o rest IH]; intros j r I H; [done|].
  destruct H as (Hc & Hok & Hst & Hrest). simpl. split_and!; try done; [apply I|].
  destruct (step_refines j r o I Hok Hst) as [_ I']. by eapply IH.
Qed.

Theorem restore_run_inv j r ops :
  Inv j r → core_hist j ops → revert_to (length (j_entries j)) (run_j j ops) = j.
Proof. intros I H. apply restore_run. by eapply core_hist_run_ok. Qed.
