(* State/Refine.v — the implementation model State/Journal.v refines the reference
   model State/Ref.v: well-formedness is preserved by every call inside its guard, the
   coupling relation R is preserved by every call (snapshots and reverts with arbitrary
   nesting through the exact-restore theorem of JournalProofs.v), hence every getter
   agrees after every guarded history. *)
From Coq Require Import ssreflect.
From stdpp Require Import gmap.
From Coq Require Import NArith ZArith Lia.
From RecordUpdate Require Import RecordSet.
Import RecordSetNotations.
From GV Require Import State.Ref State.Journal State.JournalProofs.
Local Open Scope N_scope.

Ltac rc := cbv beta iota delta [set accts touched tstor al_a al_s refund logs
  r_cur r_stack r_next r_sticky r_th r_ti] in *.

(* committed / get_state read the state only through the reader and the destruct markers *)
Lemma committed_env j j' a o k :
  j_db j' = j_db j → j_destruct j' = j_destruct j → committed j' a o k = committed j a o k.
Proof. intros H1 H2. unfold committed, db_stor. by rewrite H1 H2. Qed.
Lemma get_state_env j j' a o k :
  j_db j' = j_db j → j_destruct j' = j_destruct j → get_state j' a o k = get_state j a o k.
Proof. intros H1 H2. unfold get_state. by rewrite (committed_env j j'). Qed.

(* ------------------------------------------------------------------ *)
(* the common shape of the journalled account mutations *)
Definition jupd (a : addr) (e : jentry) (k : kind) (v : N) (o' : sobj) (j : jstate) : jstate :=
  j <| j_objs ::= <[a := o']> |> <| j_entries ::= cons e |>
    <| j_muts ::= <[a := m_add k (stash_k k v (mstate_for a j))]> |>.

Lemma create_object_upd a j :
  create_object a j = jupd a (JCreateObject a) KCreate 0 (new_object None) j.
Proof. destruct j; unfold jupd; unf; rj; simpl. done. Qed.
Lemma set_balance_upd a o v j :
  obj_set_balance a o v j
  = jupd a (JBalance a (a_bal (o_data o))) KBalance (a_bal (o_data o))
         (o <| o_data ::= (λ d, d <| a_bal := v |>) |>) j.
Proof. destruct j; unfold jupd; unf; rj; simpl. f_equal. by rewrite lookup_insert insert_insert. Qed.
Lemma set_nonce_upd a o v j :
  obj_set_nonce a o v j
  = jupd a (JNonce a (a_nonce (o_data o))) KNonce (a_nonce (o_data o))
         (o <| o_data ::= (λ d, d <| a_nonce := v |>) |>) j.
Proof. destruct j; unfold jupd; unf; rj; simpl. f_equal. by rewrite lookup_insert insert_insert. Qed.
Lemma set_code_upd a o v j :
  obj_set_code a o v j
  = jupd a (JCode a (a_code (o_data o))) KCode (a_code (o_data o))
         (o <| o_data ::= (λ d, d <| a_code := v |>) |>) j.
Proof. destruct j; unfold jupd; unf; rj; simpl. f_equal. by rewrite lookup_insert insert_insert. Qed.
Lemma set_state_upd a o k v j :
  obj_set_state a o k v j
  = jupd a (JStorage a k (get_state j a o k) (committed j a o k)) KStorage 0
         (set_state k v (committed j a o k) o) j.
Proof. destruct j; unfold jupd; unf; rj; simpl. done. Qed.
Lemma self_destruct_upd a o j :
  obj_self_destruct a o j = jupd a (JSelfDestruct a) KSelfDestruct 0 (o <| o_sd := true |>) j.
Proof. destruct j; unfold jupd; unf; rj; simpl. done. Qed.
Lemma touch_upd a o j :
  a ≠ ripemd → j_objs j !! a = Some o → touch_change a j = jupd a (JTouch a) KTouch 0 o j.
Proof.
  intros Hr Ho. unfold touch_change. rewrite bool_decide_false //.
  destruct j; unfold jupd; unf; rj; simpl in *. f_equal. by rewrite insert_id.
Qed.

Lemma jupd_proj a e k v o' j :
  j_db (jupd a e k v o' j) = j_db j ∧ j_destruct (jupd a e k v o' j) = j_destruct j ∧
  j_objs (jupd a e k v o' j) = <[a := o']> (j_objs j) ∧
  j_muts (jupd a e k v o' j) = <[a := m_add k (stash_k k v (mstate_for a j))]> (j_muts j) ∧
  j_entries (jupd a e k v o' j) = e :: j_entries j ∧
  j_bad (jupd a e k v o' j) = j_bad j ∧ j_ala (jupd a e k v o' j) = j_ala j ∧
  j_als (jupd a e k v o' j) = j_als j ∧ j_logs (jupd a e k v o' j) = j_logs j ∧
  j_logsize (jupd a e k v o' j) = j_logsize j ∧ j_tstor (jupd a e k v o' j) = j_tstor j ∧
  j_refund (jupd a e k v o' j) = j_refund j ∧ j_th (jupd a e k v o' j) = j_th j ∧
  j_ti (jupd a e k v o' j) = j_ti j ∧ j_revs (jupd a e k v o' j) = j_revs j ∧
  j_nextrev (jupd a e k v o' j) = j_nextrev j.
Proof. destruct j; unfold jupd; rj; simpl. done. Qed.

Lemma counts_zero_add_stash k v m : mok m → counts_zero (m_add k (stash_k k v m)) = false.
Proof.
  intros ((H1 & H2 & H3 & H4 & H5 & H6 & H7) & _). apply counts_zero_false.
  destruct m as [? ? ? ? ? ? ? sb sn sc]; destruct k; unfold m_add, stash_k; simpl in *;
    try destruct sb; try destruct sn; try destruct sc; rs; lia.
Qed.

Lemma mok_for j a : wf j → mok (mstate_for a j).
Proof.
  intros W. unfold mstate_for. destruct (j_muts j !! a) eqn:E; simpl; [by apply (wf_muts _ W a)|apply mok0].
Qed.

(* wf is preserved by a journalled account mutation that installs an acceptable object *)
Lemma wf_jupd a e k v o' j :
  wf j →
  (∀ s d, o_dirty o' !! s = Some d → d ≠ committed j a o' s) →
  (o_origin o' = None → a ∈ j_destruct j ∨ j_db j !! a = None) →
  wf (jupd a e k v o' j).
Proof.
  intros W Hd Ho.
  destruct (jupd_proj a e k v o' j) as (P1&P2&P3&P4&P5&P6&P7&P8&P9&P10&P11&P12&P13&P14&P15&P16).
  split.
  - rewrite P6. apply W.
  - intros b m. rewrite P4. destruct (decide (b = a)) as [->|Hn].
    + rewrite lookup_insert. intros [= <-]. split; [apply mok_add_stash|apply counts_zero_add_stash]; by apply mok_for.
    + rewrite lookup_insert_ne //. apply W.
  - intros b idx. rewrite P7 P8. apply W.
  - intros th. rewrite P9. apply W.
  - intros s x. rewrite P11. apply W.
  - intros b o s d. rewrite P3. destruct (decide (b = a)) as [->|Hn].
    + rewrite lookup_insert. intros [= <-] H. rewrite (committed_env j) //. by apply Hd.
    + rewrite lookup_insert_ne //. intros H1 H2. rewrite (committed_env j) //. by eapply wf_dirty.
  - intros b b' idx. rewrite P7. apply W.
  - intros b o. rewrite P3 P1 P2. destruct (decide (b = a)) as [->|Hn].
    + rewrite lookup_insert. intros [= <-]. apply Ho.
    + rewrite lookup_insert_ne //. apply W.
  - intros b. rewrite P3 P1 P2. destruct (decide (b = a)) as [->|Hn].
    + by rewrite lookup_insert.
    + rewrite lookup_insert_ne //. apply W.
  - intros b o. rewrite P3 P4. destruct (decide (b = a)) as [->|Hn].
    + intros _ _. apply elem_of_dom. rewrite lookup_insert. done.
    + rewrite lookup_insert_ne //. intros H1 H2. apply elem_of_dom. rewrite lookup_insert_ne //.
      apply elem_of_dom. by eapply wf_dirtymut.
Qed.

Lemma committed_pending j a o o' k :
  o_pending o' = o_pending o → committed j a o' k = committed j a o k.
Proof. intros H. unfold committed. by rewrite H. Qed.
Lemma get_state_same j a o o' k :
  o_pending o' = o_pending o → o_dirty o' = o_dirty o → get_state j a o' k = get_state j a o k.
Proof. intros H1 H2. unfold get_state. by rewrite H2 (committed_pending j a o o'). Qed.

Lemma wf_jupd_same a e k v o o' j :
  wf j → j_objs j !! a = Some o →
  o_dirty o' = o_dirty o → o_pending o' = o_pending o → o_origin o' = o_origin o →
  wf (jupd a e k v o' j).
Proof.
  intros W Ho H1 H2 H3. apply wf_jupd; [done| |].
  - intros s d. rewrite H1 (committed_pending j a o o') //. by eapply wf_dirty.
  - rewrite H3. by eapply wf_origin.
Qed.

(* ------------------------------------------------------------------ *)
(* the coupling relation on the revertible part of the state *)
Definition obj_rel (j : jstate) (a : addr) (o : sobj) (x : racct) : Prop :=
  o_data o = ra x ∧ (∀ k, get_state j a o k = sget (r_stor x) k) ∧
  (∀ k, committed j a o k = sget (r_cstor x) k) ∧ o_sd o = r_sd x ∧ o_new o = r_new x.

Definition objs_rel (j : jstate) (c : rcore) : Prop :=
  ∀ a, match j_objs j !! a, accts c !! a with
       | Some o, Some x => obj_rel j a o x
       | None, None => True
       | _, _ => False
       end.

Record Rc (st : bool) (j : jstate) (c : rcore) : Prop := {
  rc_objs : objs_rel j c;
  rc_tstor : j_tstor j = tstor c;
  rc_refund : j_refund j = refund c;
  rc_ala : ∀ a, is_Some (j_ala j !! a) ↔ a ∈ al_a c;
  rc_als : ∀ a k, al_contains_slot j a k = true ↔ (a, k) ∈ al_s c;
  rc_logs : ∀ th, default [] (j_logs j !! th) = filter (λ l, l_th l = th) (logs c);
  rc_logsize : j_logsize j = N.of_nat (length (logs c));
  rc_touched : ∀ a, a ∈ dom (j_muts j) ↔ a ∈ touched c ∨ (st = true ∧ a = ripemd)
}.

Lemma obj_rel_env j j' a o x :
  j_db j' = j_db j → j_destruct j' = j_destruct j → obj_rel j a o x → obj_rel j' a o x.
Proof.
  intros H1 H2 (A & B & C & D & E). repeat split; try done; intros k.
  - by rewrite (get_state_env j j').
  - by rewrite (committed_env j j').
Qed.

Lemma put_proj a x c :
  accts (put a x c) = <[a := x]> (accts c) ∧ touched (put a x c) = {[a]} ∪ touched c ∧
  tstor (put a x c) = tstor c ∧ al_a (put a x c) = al_a c ∧ al_s (put a x c) = al_s c ∧
  refund (put a x c) = refund c ∧ logs (put a x c) = logs c.
Proof. destruct c; unfold put, touch; rc; simpl. done. Qed.

Lemma Rc_jupd st a e k v o' x' j c :
  Rc st j c → obj_rel j a o' x' → Rc st (jupd a e k v o' j) (put a x' c).
Proof.
  intros R Ho.
  destruct (jupd_proj a e k v o' j) as (P1&P2&P3&P4&P5&P6&P7&P8&P9&P10&P11&P12&P13&P14&P15&P16).
  destruct (put_proj a x' c) as (Q1&Q2&Q3&Q4&Q5&Q6&Q7).
  split.
  - intros b. rewrite P3 Q1. destruct (decide (b = a)) as [->|Hn].
    + rewrite !lookup_insert. by apply (obj_rel_env j).
    + rewrite !lookup_insert_ne //. pose proof (rc_objs _ _ _ R b) as H.
      destruct (j_objs j !! b), (accts c !! b); done.
  - rewrite P11 Q3. apply R.
  - rewrite P12 Q6. apply R.
  - intros b. rewrite P7 Q4. apply R.
  - intros b s. rewrite Q5. rewrite -(rc_als _ _ _ R b s). unfold al_contains_slot. by rewrite P7 P8.
  - intros th. rewrite P9 Q7. apply R.
  - rewrite P10 Q7. apply R.
  - intros b. rewrite P4 Q2 dom_insert elem_of_union elem_of_singleton elem_of_union elem_of_singleton.
    rewrite (rc_touched _ _ _ R b). tauto.
Qed.

(* ------------------------------------------------------------------ *)
(* calls that touch neither accounts nor journal.mutations *)
Lemma wf_other j j' :
  wf j → j_objs j' = j_objs j → j_muts j' = j_muts j → j_db j' = j_db j →
  j_destruct j' = j_destruct j → j_bad j' = false →
  (∀ a, al_loc j' a) →
  (∀ a a' idx, j_ala j' !! a = Some idx → j_ala j' !! a' = Some idx → (0 ≤ idx)%Z → a = a') →
  (∀ th, j_logs j' !! th ≠ Some []) →
  (∀ k x, j_tstor j' !! k = Some x → x ≠ 0) →
  wf j'.
Proof.
  intros W Ho Hm Hd Hs Hb Hal Hinj Hl Ht. split; try done.
  - intros a m. unfold mloc. rewrite Hm. apply W.
  - intros a o k d. rewrite Ho (committed_env j j') //. apply W.
  - intros a o. rewrite Ho Hd Hs. apply W.
  - intros a. rewrite Ho Hd Hs. apply W.
  - intros a o. rewrite Ho Hm. apply W.
Qed.

Lemma Rc_other st j j' c c' :
  Rc st j c → j_objs j' = j_objs j → j_muts j' = j_muts j → j_db j' = j_db j →
  j_destruct j' = j_destruct j → accts c' = accts c → touched c' = touched c →
  j_tstor j' = tstor c' → j_refund j' = refund c' →
  (∀ a, is_Some (j_ala j' !! a) ↔ a ∈ al_a c') →
  (∀ a k, al_contains_slot j' a k = true ↔ (a, k) ∈ al_s c') →
  (∀ th, default [] (j_logs j' !! th) = filter (λ l, l_th l = th) (logs c')) →
  j_logsize j' = N.of_nat (length (logs c')) →
  Rc st j' c'.
Proof.
  intros R Ho Hm Hd Hs Ha Ht H1 H2 H3 H4 H5 H6. split; [|done|done|done|done|done|done|].
  - intros a. rewrite Ho Ha. pose proof (rc_objs _ _ _ R a) as H.
    destruct (j_objs j !! a), (accts c !! a); try done. by apply (obj_rel_env j).
  - intros a. rewrite Hm Ht. apply R.
Qed.

Lemma new_obj_rel j a : wf j → j_objs j !! a = None → obj_rel j a (new_object None) racct0.
Proof.
  intros W Ho. assert (Hc : ∀ k, committed j a (new_object None) k = 0).
  { intros k. unfold committed, db_stor. simpl. rewrite lookup_empty.
    destruct (wf_eager _ W a Ho) as [H|H]; [by rewrite bool_decide_true|].
    rewrite H. by case_bool_decide. }
  repeat split; try done; intros k; unfold get_state; simpl; rewrite ?lookup_empty ?Hc;
    by unfold sget; rewrite lookup_empty.
Qed.

Lemma wf_create a j : wf j → j_objs j !! a = None → wf (create_object a j).
Proof.
  intros W Ho. rewrite create_object_upd. apply wf_jupd; [done| |].
  - intros s d. simpl. by rewrite lookup_empty.
  - intros _. by apply wf_eager.
Qed.

Lemma Rc_create st a j c :
  wf j → Rc st j c → j_objs j !! a = None → Rc st (create_object a j) (put a racct0 c).
Proof. intros W R Ho. rewrite create_object_upd. apply Rc_jupd; [done|]. by apply new_obj_rel. Qed.

Lemma gon_rel st a j c :
  wf j → Rc st j c →
  ∃ j1 o c1 x, get_or_new_j a j = (j1, o) ∧ get_or_new a c = (c1, x) ∧ wf j1 ∧ Rc st j1 c1 ∧
    j_objs j1 !! a = Some o ∧ accts c1 !! a = Some x ∧ obj_rel j1 a o x ∧
    j_th j1 = j_th j ∧ j_ti j1 = j_ti j ∧
    (j_objs j !! a = None → sticky_j j1 (OAddBalance a 0) = sticky_j j (OAddBalance a 0)).
Proof.
  intros W R. pose proof (rc_objs _ _ _ R a) as H. unfold get_or_new_j, get_or_new.
  destruct (j_objs j !! a) as [o|] eqn:Ho, (accts c !! a) as [x|] eqn:Hx; try done.
  - exists j, o, c, x. split_and!; try done; try (by intros [=]).
  - exists (create_object a j), (new_object None), (put a racct0 c), racct0.
    assert (Hw := wf_create a j W Ho). assert (Hr := Rc_create st a j c W R Ho).
    rewrite create_object_upd in Hw Hr |- *.
    destruct (jupd_proj a (JCreateObject a) KCreate 0 (new_object None) j) as (P1&P2&P3&P4&P5&P6&P7&P8&P9&P10&P11&P12&P13&P14&P15&P16).
    split_and!; try done.
    + by rewrite P3 lookup_insert.
    + destruct (put_proj a racct0 c) as (Q1 & _). by rewrite Q1 lookup_insert.
    + apply (obj_rel_env j); [done|done|]. by apply new_obj_rel.
    + intros _. unfold sticky_j. rewrite P3 lookup_insert Ho. done.
Qed.

(* ------------------------------------------------------------------ *)
(* access list *)
Definition alwf (j : jstate) : Prop :=
  (∀ a, al_loc j a) ∧
  (∀ a a' idx, j_ala j !! a = Some idx → j_ala j !! a' = Some idx → (0 ≤ idx)%Z → a = a').
Definition alrel (j : jstate) (A : gset addr) (S : gset (addr * slot)) : Prop :=
  (∀ a, is_Some (j_ala j !! a) ↔ a ∈ A) ∧ (∀ a k, al_contains_slot j a k = true ↔ (a, k) ∈ S).

Lemma alwf_frame j j' : j_ala j' = j_ala j → j_als j' = j_als j → alwf j → alwf j'.
Proof. intros H1 H2 [A B]. split; [intros a; unfold al_loc|intros a a' idx]; rewrite ?H1 ?H2; [apply A|apply B]. Qed.
Lemma alrel_frame j j' A S : j_ala j' = j_ala j → j_als j' = j_als j → alrel j A S → alrel j' A S.
Proof.
  intros H1 H2 [X Y]. split; [intros a; rewrite H1; apply X|].
  intros a k. rewrite -Y. unfold al_contains_slot. by rewrite H1 H2.
Qed.

Lemma al_add_address_proj a j :
  let j' := (al_add_address a j).1 in
  j_als j' = j_als j ∧ j_ala j' = (match j_ala j !! a with Some _ => j_ala j | None => <[a := (-1)%Z]> (j_ala j) end) ∧
  (al_add_address a j).2 = (match j_ala j !! a with Some _ => false | None => true end) ∧
  j_objs j' = j_objs j ∧ j_muts j' = j_muts j ∧ j_db j' = j_db j ∧ j_destruct j' = j_destruct j ∧
  j_bad j' = j_bad j ∧ j_logs j' = j_logs j ∧ j_logsize j' = j_logsize j ∧ j_tstor j' = j_tstor j ∧
  j_refund j' = j_refund j ∧ j_entries j' = j_entries j ∧ j_th j' = j_th j ∧ j_ti j' = j_ti j ∧
  j_revs j' = j_revs j ∧ j_nextrev j' = j_nextrev j.
Proof. unfold al_add_address. destruct (j_ala j !! a); simpl; [done|]. by destruct j. Qed.

Lemma al_add_address_wf a j : alwf j → alwf (al_add_address a j).1.
Proof.
  intros [A B]. destruct (al_add_address_proj a j) as (P1 & P2 & _). simpl in *.
  destruct (j_ala j !! a) eqn:E; [by apply (alwf_frame j)|].
  split.
  - intros b idx. rewrite P1 P2. destruct (decide (b = a)) as [->|Hn].
    + rewrite lookup_insert. intros [= <-]. by left.
    + rewrite lookup_insert_ne //. apply A.
  - intros b b' idx. rewrite P2. destruct (decide (b = a)) as [->|Hn], (decide (b' = a)) as [->|Hn'];
      rewrite ?lookup_insert ?lookup_insert_ne //; try (intros; simplify_eq; lia). apply B.
Qed.

Lemma al_add_address_rel a j A S : alrel j A S → alrel (al_add_address a j).1 ({[a]} ∪ A) S.
Proof.
  intros [X Y]. destruct (al_add_address_proj a j) as (P1 & P2 & _). simpl in *.
  split.
  - intros b. rewrite P2 elem_of_union elem_of_singleton -X.
    destruct (j_ala j !! a) eqn:E.
    + split; [tauto|]. intros [->|H]; [by rewrite E|done].
    + destruct (decide (b = a)) as [->|Hn]; [rewrite lookup_insert; split; eauto|].
      rewrite lookup_insert_ne //. tauto.
  - intros b k. rewrite -Y. unfold al_contains_slot. rewrite P1 P2.
    destruct (j_ala j !! a) eqn:E; [done|].
    destruct (decide (b = a)) as [->|Hn]; [by rewrite lookup_insert E|by rewrite lookup_insert_ne].
Qed.

Lemma al_add_slot_proj a k j :
  let j' := (al_add_slot a k j).1.1 in
  j_objs j' = j_objs j ∧ j_muts j' = j_muts j ∧ j_db j' = j_db j ∧ j_destruct j' = j_destruct j ∧
  j_logs j' = j_logs j ∧ j_logsize j' = j_logsize j ∧ j_tstor j' = j_tstor j ∧
  j_refund j' = j_refund j ∧ j_entries j' = j_entries j ∧ j_th j' = j_th j ∧ j_ti j' = j_ti j ∧
  j_revs j' = j_revs j ∧ j_nextrev j' = j_nextrev j.
Proof.
  unfold al_add_slot. destruct (j_ala j !! a) as [idx|]; [|by destruct j].
  destruct (idx =? -1)%Z; [by destruct j|]. destruct (j_als j !! Z.to_nat idx); [|by destruct j].
  case_bool_decide; by destruct j.
Qed.

Lemma al_add_slot_spec a k j A S :
  alwf j → alrel j A S →
  let r := al_add_slot a k j in
  alwf r.1.1 ∧ alrel r.1.1 ({[a]} ∪ A) ({[(a, k)]} ∪ S) ∧ j_bad r.1.1 = j_bad j ∧
  r.1.2 = (match j_ala j !! a with Some _ => false | None => true end) ∧
  r.2 = negb (al_contains_slot j a k).
Proof.
  intros [WA WB] [X Y]. unfold al_add_slot, al_contains_slot.
  assert (Hfresh : (j_ala j !! a = None ∨ j_ala j !! a = Some (-1)%Z) →
    let j' := j <| j_ala ::= <[a:=Z.of_nat (length (j_als j))]> |> <| j_als ::= λ l, l ++ [{[k]}] |> in
    alwf j' ∧ alrel j' ({[a]} ∪ A) ({[(a, k)]} ∪ S) ∧ j_bad j' = j_bad j).
  { intros Hf j'.
    assert (E1 : j_ala j' = <[a:=Z.of_nat (length (j_als j))]> (j_ala j)) by (subst j'; by destruct j).
    assert (E2 : j_als j' = j_als j ++ [{[k]}]) by (subst j'; by destruct j).
    assert (E3 : j_bad j' = j_bad j) by (subst j'; by destruct j).
    assert (Hlt : ∀ b idx, j_ala j !! b = Some idx → (0 ≤ idx)%Z → (Z.to_nat idx < length (j_als j))%nat).
    { intros b idx Hb Hi. destruct (WA b idx Hb) as [->|(_ & sm & Hs & _)]; [lia|by eapply lookup_lt_Some]. }
    split_and!; [split| |done].
    - intros b idx. rewrite E1 E2. destruct (decide (b = a)) as [->|Hn].
      + rewrite lookup_insert. intros [= <-]. right. split; [lia|]. exists {[k]}.
        rewrite Nat2Z.id lookup_app_r // Nat.sub_diag. split; [done|set_solver].
      + rewrite lookup_insert_ne //. intros Hb. destruct (WA b idx Hb) as [->|(Hi & sm & Hs & Hne)]; [by left|].
        right. split; [done|]. exists sm. split; [|done]. rewrite lookup_app_l //. by eapply lookup_lt_Some.
    - intros b b' idx. rewrite E1.
      destruct (decide (b = a)) as [->|Hn], (decide (b' = a)) as [->|Hn'];
        rewrite ?lookup_insert ?lookup_insert_ne //.
      + intros [= <-] Hb' Hi. specialize (Hlt b' _ Hb' Hi). lia.
      + intros Hb [= <-] Hi. specialize (Hlt b _ Hb Hi). lia.
      + apply WB.
    - split.
      + intros b. rewrite E1 elem_of_union elem_of_singleton -X.
        destruct (decide (b = a)) as [->|Hn]; [rewrite lookup_insert; split; eauto|].
        rewrite lookup_insert_ne //. tauto.
      + intros b s. rewrite elem_of_union elem_of_singleton -Y. unfold al_contains_slot. rewrite E1 E2.
        destruct (decide (b = a)) as [->|Hn].
        * rewrite lookup_insert. destruct (Z.of_nat (length (j_als j)) =? -1)%Z eqn:E; [apply Z.eqb_eq in E; lia|].
          rewrite Nat2Z.id lookup_app_r // Nat.sub_diag. simpl. rewrite bool_decide_eq_true elem_of_singleton.
          destruct Hf as [Hf|Hf]; rewrite Hf; simpl; split; try naive_solver.
        * rewrite lookup_insert_ne //. split; [intros H; right; revert H|intros [[=]|H]; [done|revert H]];
          destruct (j_ala j !! b) as [idx|] eqn:Eb; try done; destruct (idx =? -1)%Z eqn:E; try done;
          apply Z.eqb_neq in E; destruct (WA b idx Eb) as [->|(Hi & sm & Hs & Hne)]; try done;
          rewrite lookup_app_l; try done; by eapply lookup_lt_Some. }
  destruct (j_ala j !! a) as [idx|] eqn:Ea.
  - destruct (idx =? -1)%Z eqn:E.
    + apply Z.eqb_eq in E. subst idx. simpl. destruct (Hfresh (or_intror eq_refl)) as (H1 & H2 & H3). done.
    + apply Z.eqb_neq in E. destruct (WA a idx Ea) as [->|(Hi & sm & Hs & Hne)]; [done|]. rewrite Hs.
      case_bool_decide as Hk; simpl.
      * split_and!; try done. split; [intros b; rewrite elem_of_union elem_of_singleton -X; split; [tauto|intros [->|H]; [by rewrite Ea|done]]|].
        intros b s. rewrite elem_of_union elem_of_singleton -Y. split; [tauto|]. intros [[= -> ->]|H]; [|done].
        unfold al_contains_slot. rewrite Ea. destruct (idx =? -1)%Z eqn:E'; [apply Z.eqb_eq in E'; lia|].
        rewrite Hs. by apply bool_decide_eq_true.
      * set (j' := j <| j_als ::= <[Z.to_nat idx:={[k]} ∪ sm]> |>).
        assert (E1 : j_ala j' = j_ala j) by (subst j'; by destruct j).
        assert (E2 : j_als j' = <[Z.to_nat idx:={[k]} ∪ sm]> (j_als j)) by (subst j'; by destruct j).
        assert (E3 : j_bad j' = j_bad j) by (subst j'; by destruct j).
        assert (Hlen : (Z.to_nat idx < length (j_als j))%nat) by (by eapply lookup_lt_Some).
        split_and!; [split| |done|done|done].
        -- intros b i. rewrite E1 E2. intros Hb. destruct (WA b i Hb) as [->|(Hi' & sm' & Hs' & Hne')]; [by left|].
           right. split; [done|]. destruct (decide (Z.to_nat i = Z.to_nat idx)) as [Heq|Hneq].
           ++ rewrite Heq list_lookup_insert //. exists ({[k]} ∪ sm). split; [done|set_solver].
           ++ rewrite list_lookup_insert_ne //. by exists sm'.
        -- intros b b' i. rewrite E1. apply WB.
        -- split; [intros b; rewrite E1 elem_of_union elem_of_singleton -X; split; [tauto|intros [->|H]; [by rewrite Ea|done]]|].
           intros b s. rewrite elem_of_union elem_of_singleton -Y. unfold al_contains_slot. rewrite E1 E2.
           destruct (decide (b = a)) as [->|Hn].
           ++ rewrite Ea. destruct (idx =? -1)%Z eqn:E'; [apply Z.eqb_eq in E'; lia|].
              rewrite list_lookup_insert // Hs !bool_decide_eq_true. set_solver.
           ++ destruct (j_ala j !! b) as [i|] eqn:Eb; [|naive_solver].
              destruct (i =? -1)%Z eqn:E'; [naive_solver|]. apply Z.eqb_neq in E'.
              destruct (WA b i Eb) as [->|(Hi' & sm' & Hs' & Hne')]; [done|].
              assert (Z.to_nat i ≠ Z.to_nat idx).
              { intros Heq. assert (i = idx) by lia. subst i. by specialize (WB _ _ _ Eb Ea Hi). }
              rewrite list_lookup_insert_ne //. naive_solver.
  - simpl. destruct (Hfresh (or_introl eq_refl)) as (H1 & H2 & H3). done.
Qed.
