(* State/CommitDecode.v — C14 proofs, part 11: the RLP round trip of account and slot blobs. *)
From Coq Require Import ssreflect.
From stdpp Require Import gmap.
From Coq Require Import NArith ZArith Lia.
From GV Require Import Lib.Tactics Lib.Bytes Lib.BytesProofs Rlp.Item Rlp.Raw Rlp.RawProofs Rlp.Codec Rlp.CodecProofs.
From GV Require Import State.Ref State.Journal State.Commit.
Local Open Scope N_scope.

Lemma enc_str_len_le b : lenN b < 2 ^ 64 → lenN (enc_str b) <= 9 + lenN b.
Proof.
  intros Hb. unfold enc_str.
  assert (Hg : lenN (enc_head 128 183 (lenN b) ++ b) <= 9 + lenN b).
  { rewrite lenN_app. pose proof (enc_head_len_le 128 183 (lenN b) Hb). lia. }
  destruct b as [|x [|y l]]; [exact Hg| |exact Hg].
  destruct (x <? 128); [unfold lenN; simpl; lia|].
  rewrite lenN_app. pose proof (enc_head_len_le 128 183 1 ltac:(lia)). unfold lenN in *. simpl in *. lia.
Qed.

(* Go's value ranges: uint64 nonce, uint256 balance *)
Definition acct_ok (x : acct) : Prop := a_nonce x < 2 ^ 64 ∧ a_bal x < 2 ^ 256.

Section Decode.
  Variable H : list N → list N.
  Hypothesis H_len : ∀ x, lenN (H x) = 32.

  Lemma be_len_256 v : v < 2 ^ 256 → lenN (be_bytes v) <= 32.
  Proof.
    intros Hv. pose proof (be_bytes_len_le 32 v) as Hl. unfold lenN.
    assert (v < 256 ^ N.of_nat 32) by (change (256 ^ N.of_nat 32) with (2 ^ 256); exact Hv).
    specialize (Hl H0). lia.
  Qed.

  Lemma dec_acct_rlp x r : acct_ok x → lenN r = 32 →
    dec_acct (acct_rlp H x r) = Some (a_nonce x, a_bal x, r, code_hash H (a_code x)).
  Proof.
    intros [Hn Hb] Hr. unfold dec_acct, acct_rlp, dec_exact.
    set (it := Lst [Str (be_bytes (a_nonce x)); Str (be_bytes (a_bal x)); Str r; Str (code_hash H (a_code x))]).
    assert (Hf : fits it).
    { unfold fits, it. cbn [enc flat_map]. rewrite app_nil_r.
      pose proof (be_bytes_len_64 _ Hn) as L1. pose proof (be_len_256 _ Hb) as L2.
      assert (L4 : lenN (code_hash H (a_code x)) = 32) by apply H_len.
      pose proof (enc_str_len_le (be_bytes (a_nonce x)) ltac:(lia)) as E1.
      pose proof (enc_str_len_le (be_bytes (a_bal x)) ltac:(lia)) as E2.
      pose proof (enc_str_len_le r ltac:(lia)) as E3.
      pose proof (enc_str_len_le (code_hash H (a_code x)) ltac:(lia)) as E4.
      set (c := enc_str _ ++ _ ++ _ ++ _).
      assert (Hc : lenN c <= 140) by (unfold c; rewrite !lenN_app; lia).
      rewrite lenN_app. pose proof (enc_head_len_le 192 247 (lenN c) ltac:(lia)). lia. }
    pose proof (dec_enc it [] Hf) as Hd. rewrite app_nil_r in Hd. rewrite Hd. unfold it.
    by rewrite !be_bytes_decode.
  Qed.

  Lemma dec_slot_val v : v ≠ 0 → v < 2 ^ 256 → dec_slot (slot_val v) = Some v.
  Proof.
    intros Hv Hb. unfold dec_slot, slot_val, dec_exact. apply N.eqb_neq in Hv. rewrite Hv.
    assert (Hf : fits (Str (be_bytes v))).
    { unfold fits. cbn [enc]. pose proof (be_len_256 _ Hb). pose proof (enc_str_len_le (be_bytes v) ltac:(lia)). lia. }
    pose proof (dec_enc (Str (be_bytes v)) [] Hf) as Hd. rewrite app_nil_r in Hd. cbn [enc] in Hd. rewrite Hd.
    by rewrite be_bytes_decode.
  Qed.
End Decode.
