(* State/Commit.v — the model for C14: IntermediateRoot / Commit / state.New / Copy,
   transcribed from /repo/core/state/{statedb.go, state_object.go, stateupdate.go,
   reader.go (mptTrieReader), database_mpt.go}.  Definitions only (proofs:
   State/CommitProofs.v).  It is a LAYER over the C13 implementation model
   State/Journal.v: [step_c] calls [step_j] for the journalled state and maintains the
   fields Journal.v leaves out (StateDB.mutations, stateObjectsDestruct VALUES (origin),
   per object: uncommittedStorage, data.Root, trie, dirtyCode; StateDB.trie,
   originalRoot).

   The persistent state:
   * abstractly a [database] (State/Ref.v): address -> (nonce, balance, code, storage map);
   * concretely a [pdb]: a trie database serving WHOLE tries by root hash
     (account trie: key H(address) -> rlp [nonce, balance, storageRoot, codeHash];
     storage tries: key H(slot) -> rlp(trimmed value)) over the Coq trie
     (Trie/Ops.v insert/delete on hash-node-free tries, Trie/Hash.v root hash), and a
     code store codeHash -> code.  The node-granular stores (hashdb / pathdb node
     sets, reads-back per node) are the subject of C07/C16/C21; here the trie database is
     idealised to "root |-> the expanded canonical trie" (trie.New on EmptyRootHash
     needs no database access).  Flat readers (snapshot, pathdb state sets) and the
     prefetcher are separate Go code: not in this model (correspondence only).

   Idealisations beyond Journal.v's:
   * Go map iteration (s.mutations, uncommittedStorage, stateObjectsDestruct) is replaced
     by gmap's key order; updates-before-deletions is kept.  The resulting tries do not
     depend on the order (Trie/Canon.v);
   * originStorage (a read cache) is not represented: for a key of pendingStorage it
     always holds the committed value of the current incarnation ([origin_val]);
   * the errgroup goroutines of IntermediateRoot/commit touch disjoint objects and are
     run sequentially;
   * errors memoised in dbErr surface as the [CErr] result of the call that detects them.
   Code is the C13 code id c: the byte string [code_bytes c] (harness: codeOf). *)
From stdpp Require Import gmap.
From Coq Require Import NArith ZArith.
From GV Require Import Lib.Bytes Rlp.Item Rlp.Codec Trie.Hex Trie.Node Trie.Ops Trie.Hash State.Ref State.Journal.
Local Open Scope N_scope.

Inductive cerr :=
| CMissing            (* MissingNodeError: trie for a root not in the trie database *)
| CTrie (e : terr)    (* error from a trie operation *)
| CDecode             (* account / slot blob does not decode *)
| CCode               (* "code is not found" *)
| CWipe               (* "unexpected storage wiping" (handleDestruction under Cancun) *)
| CNilObj             (* nil state object / nil trie dereference ("missing state object") *)
| CEnc.               (* node encoding failed (never for canonical tries) *)
Inductive cres (A : Type) := COk (a : A) | CErr (e : cerr).
Arguments COk {A} a.
Arguments CErr {A} e.

(* StateDB.mutations values *)
Record mut := { m_del : bool; m_applied : bool }.

(* the per-object fields Journal.v does not carry *)
Record oext := {
  x_unc : gmap slot word;     (* uncommittedStorage: slot -> value at the last trie sync *)
  x_root : list N;            (* data.Root *)
  x_trie : option node;       (* trie (nil until first use) *)
  x_dcode : bool              (* dirtyCode *)
}.

(* the trie database and the code store *)
Record pdb := { p_tries : gmap (list N) node; p_codes : gmap (list N) (list N) }.
Definition pdb0 : pdb := {| p_tries := ∅; p_codes := ∅ |}.

Record cstate := {
  c_j : jstate;                       (* the C13 state *)
  c_roots0 : gmap addr (list N);      (* origin.Root of the accounts loaded from the reader *)
  c_x : gmap addr oext;               (* extension of stateObjects[addr] *)
  c_dx : gmap addr (option acct);     (* stateObjectsDestruct[addr].origin *)
  c_muts : gmap addr mut;             (* mutations *)
  c_trie : option node;               (* trie (resolved on first access) *)
  c_root : list N                     (* originalRoot *)
}.
Definition set_j (j : jstate) (cs : cstate) : cstate :=
  {| c_j := j; c_roots0 := c_roots0 cs; c_x := c_x cs; c_dx := c_dx cs; c_muts := c_muts cs;
     c_trie := c_trie cs; c_root := c_root cs |}.
Definition set_x (a : addr) (x : oext) (cs : cstate) : cstate :=
  {| c_j := c_j cs; c_roots0 := c_roots0 cs; c_x := <[a := x]> (c_x cs); c_dx := c_dx cs;
     c_muts := c_muts cs; c_trie := c_trie cs; c_root := c_root cs |}.

Definition no_resolve : list N → list N → option (node * list N) := λ _ _, None.

Section Commit.
  Variable H : list N → list N.       (* crypto.Keccak256 *)

  (* ---- encodings ---- *)
  (* common.Address / common.Hash of a number: big endian, left padded *)
  Definition be_fixed (n : nat) (v : N) : list N :=
    let b := be_bytes v in repeat 0 (n - length b)%nat ++ b.
  Definition addr_key (a : addr) : list N := H (be_fixed 20 a).     (* crypto.Keccak256(addr[:]) *)
  Definition slot_key (k : slot) : list N := H (be_fixed 32 k).
  Definition code_bytes (c : N) : list N := repeat ((192 + c) mod 256) (N.to_nat c).
  Definition code_hash (c : N) : list N := H (code_bytes c).
  Definition empty_root : list N := H empty_root_preimage.          (* types.EmptyRootHash *)
  (* rlp(types.StateAccount{Nonce, Balance, Root, CodeHash}) *)
  Definition acct_rlp (x : acct) (root : list N) : list N :=
    enc (Lst [Str (be_bytes (a_nonce x)); Str (be_bytes (a_bal x)); Str root; Str (code_hash (a_code x))]).
  (* StateTrie.UpdateStorage: rlp(TrimLeftZeroes(value)); the empty string = delete *)
  Definition slot_val (v : word) : list N := if v =? 0 then [] else enc_str (be_bytes v).

  Definition dec_acct (blob : list N) : option (N * N * list N * list N) :=
    match dec_exact blob with
    | Ok (Lst [Str n; Str b; Str r; Str ch]) => Some (be_decode n, be_decode b, r, ch)
    | _ => None
    end.
  Definition dec_slot (blob : list N) : option N :=
    match dec_exact blob with
    | Ok (Str s) => Some (be_decode s)
    | _ => None
    end.

  (* ---- trie operations on expanded tries ---- *)
  Definition t_get (t : node) (key : list N) : cres (option (list N)) :=
    match trie_get no_resolve t key with TOk (v, _, _, _) => COk v | TErr e => CErr (CTrie e) end.
  Definition t_update_seq (t : node) (kvs : list (list N * list N)) : cres node :=
    match update_seq no_resolve t kvs with TOk (t', _) => COk t' | TErr e => CErr (CTrie e) end.
  Definition t_hash (t : node) : cres (list N) :=
    match hash_root H t with Some h => COk h | None => CErr CEnc end.

  (* trie.New(id, triedb): the empty root needs no database *)
  Definition open_trie (p : pdb) (root : list N) : option node :=
    if bool_decide (root = empty_root) then Some NEmpty else p_tries p !! root.

  (* ---- reader.go: mptTrieReader + code reader ---- *)
  Definition code_of_hash (p : pdb) (ch : list N) : option N :=
    if bool_decide (ch = code_hash 0) then Some 0 else lenN <$> p_codes p !! ch.
  (* mptTrieReader.Account (+ the code, resolved eagerly): account and its storage root *)
  Definition read_acct (p : pdb) (t : node) (a : addr) : cres (option (acct * list N)) :=
    match t_get t (addr_key a) with
    | CErr e => CErr e
    | COk None => COk None
    | COk (Some blob) =>
        match dec_acct blob with
        | None => CErr CDecode
        | Some (n, b, sroot, ch) =>
            match code_of_hash p ch with
            | None => CErr CCode
            | Some c => COk (Some ({| a_nonce := n; a_bal := b; a_code := c |}, sroot))
            end
        end
    end.
  (* mptTrieReader.Storage on the opened storage trie *)
  Definition read_slot (st : node) (k : slot) : cres word :=
    match t_get st (slot_key k) with
    | CErr e => CErr e
    | COk None => COk 0
    | COk (Some blob) => match dec_slot blob with Some v => COk v | None => CErr CDecode end
    end.

  Fixpoint read_slots (st : node) (ks : list slot) : cres (list (slot * word)) :=
    match ks with
    | [] => COk []
    | k :: r =>
        match read_slot st k, read_slots st r with
        | COk v, COk l => COk (if v =? 0 then l else (k, v) :: l)
        | CErr e, _ => CErr e
        | _, CErr e => CErr e
        end
    end.

  (* one address of the universe: the database entry and the storage root *)
  Definition read_full (p : pdb) (t : node) (ks : list slot) (a : addr)
    : cres (option (dbacct * list N)) :=
    match read_acct p t a with
    | CErr e => CErr e
    | COk None => COk None
    | COk (Some (x, sroot)) =>
        match open_trie p sroot with
        | None => CErr CMissing
        | Some st =>
            match read_slots st ks with
            | CErr e => CErr e
            | COk l => COk (Some ({| d_acct := x; d_stor := list_to_map l |}, sroot))
            end
        end
    end.

  Fixpoint read_all (p : pdb) (t : node) (ks : list slot) (al : list addr)
    : cres (list (addr * (dbacct * list N))) :=
    match al with
    | [] => COk []
    | a :: r =>
        match read_full p t ks a, read_all p t ks r with
        | COk None, COk l => COk l
        | COk (Some d), COk l => COk ((a, d) :: l)
        | CErr e, _ => CErr e
        | _, CErr e => CErr e
        end
    end.

  (* state.New(root, db) with the accounts of the address universe [al] (and their slots
     [ks]) loaded eagerly (Journal.v's idealisation of getStateObject) *)
  Definition open (al : list addr) (ks : list slot) (p : pdb) (root : list N) : cres cstate :=
    match open_trie p root with
    | None => CErr CMissing
    | Some t =>
        match read_all p t ks al with
        | CErr e => CErr e
        | COk l =>
            COk {| c_j := init_j (list_to_map (map (λ e, (e.1, e.2.1)) l));
                   c_roots0 := list_to_map (map (λ e, (e.1, e.2.2)) l);
                   c_x := ∅; c_dx := ∅; c_muts := ∅; c_trie := None; c_root := root |}
        end
    end.

  (* ---- state_object.go ---- *)
  (* newObject(db, addr, nil) *)
  Definition fresh_ext : oext := {| x_unc := ∅; x_root := empty_root; x_trie := None; x_dcode := false |}.
  (* newObject(db, addr, origin): data = *origin, so data.Root = origin.Root *)
  Definition origin_ext (cs : cstate) (a : addr) (origin : option acct) : oext :=
    match origin with
    | None => fresh_ext
    | Some _ => {| x_unc := ∅; x_root := default empty_root (c_roots0 cs !! a); x_trie := None; x_dcode := false |}
    end.
  (* the extension of the live object at [a]: objects loaded from the reader have no entry *)
  Definition ext_of (cs : cstate) (a : addr) : oext :=
    default (origin_ext cs a (Some acct0)) (c_x cs !! a).

  (* originStorage[key] for a key of pendingStorage *)
  Definition origin_val (j : jstate) (a : addr) (k : slot) : word :=
    if bool_decide (a ∈ j_destruct j) then 0 else db_stor j a k.

  (* stateObject.finalise, the uncommittedStorage part; GetCommittedState runs before
     pendingStorage[key] is overwritten *)
  Definition fin_unc1 (du : option (word * word)) (u : option word) : option word :=
    match du with
    | None => u
    | Some (v, cm) => match u with
                      | Some orig => if orig =? v then None else Some orig
                      | None => Some cm
                      end
    end.
  Definition fin_unc (j : jstate) (a : addr) (o : sobj) (unc : gmap slot word) : gmap slot word :=
    merge fin_unc1 (map_imap (λ k v, Some (v, committed j a o k)) (o_dirty o)) unc.

  (* ---- statedb.go: Finalise / finaliseAmsterdam, the fields Journal.v leaves out ---- *)
  Definition fin_ext (r : rules) (j : jstate) (cs : cstate) : cstate :=
    let dirty a := bool_decide (a ∈ dom (j_muts j)) in
    let objs := j_objs j in
    {| c_j := c_j cs; c_roots0 := c_roots0 cs;
       c_x := map_imap (λ a o,
                if dirty a then
                  match fin_obj r o with
                  | None => Some fresh_ext     (* delete(s.stateObjects, addr): the extension goes with the object *)
                  | Some _ =>
                      if rAms r && o_sd o
                      then Some (origin_ext cs a (o_origin o))          (* newObject(origin) *)
                      else let x := ext_of cs a in                       (* obj.finalise() *)
                           Some {| x_unc := fin_unc j a o (x_unc x); x_root := x_root x;
                                   x_trie := x_trie x; x_dcode := x_dcode x |}
                  end
                else None) objs ∪ c_x cs;
       (* stateObjectsDestruct: only the first occurred destruct is tracked *)
       c_dx := c_dx cs ∪ map_imap (λ a o, if dirty a && fin_del r o then Some (o_origin o) else None) objs;
       (* markDelete / markUpdate *)
       c_muts := map_imap (λ a o, if dirty a then Some {| m_del := fin_del r o; m_applied := false |}
                                  else None) objs ∪ c_muts cs;
       c_trie := c_trie cs; c_root := c_root cs |}.

  (* createObject: which call replaces stateObjects[a] by newObject(nil) *)
  Definition creates (j : jstate) (o : op) : option addr :=
    match o with
    | OCreateAccount a => Some a
    | OAddBalance a _ | OSubBalance a _ | OSetBalance a _ | OSetNonce a _ | OSetCode a _ | OSetState a _ _ =>
        match j_objs j !! a with Some _ => None | None => Some a end
    | _ => None
    end.
  (* stateObject.setCode: dirtyCode = true (SetCode, and the revert of a codeChange) *)
  Definition mark_dcode (a : addr) (cs : cstate) : cstate :=
    let x := ext_of cs a in
    set_x a {| x_unc := x_unc x; x_root := x_root x; x_trie := x_trie x; x_dcode := true |} cs.
  Definition reverted_codes (j : jstate) (idx : nat) : list addr :=
    omap (λ e, match e with JCode a _ => Some a | _ => None end)
         (take (length (j_entries j) - idx) (j_entries j)).

  Definition step_c (cs : cstate) (o : op) : cstate * out :=
    let j := c_j cs in
    let '(j', w) := step_j j o in
    let cs1 := match creates j o with Some a => set_x a fresh_ext cs | None => cs end in
    let cs2 := match o with
               | OSetCode a _ => mark_dcode a cs1
               | ORevert id =>
                   match find_revision id (j_revs j) with
                   | Some (idx, _) => foldr mark_dcode cs1 (reverted_codes j idx)
                   | None => cs1
                   end
               | OFinalise r => fin_ext r j cs1
               | _ => cs1
               end in
    (set_j j' cs2, w).

  Definition run_c (cs : cstate) (ops : list op) : cstate := foldl (λ cs o, (step_c cs o).1) cs ops.

  (* ---- stateObject.updateTrie / updateRoot ---- *)
  (* the entries of uncommittedStorage that are written: value from pendingStorage,
     "noop" and "not found in pending area" entries skipped *)
  Definition unc_writes (pend unc : gmap slot word) : list (slot * word) :=
    omap (λ ko, match pend !! ko.1 with
                | Some v => if v =? ko.2 then None else Some (ko.1, v)
                | None => None
                end) (map_to_list unc).
  (* updates first, then deletions *)
  Definition storage_kvs (ws : list (slot * word)) : list (list N * list N) :=
    map (λ kv, (slot_key kv.1, slot_val kv.2)) (List.filter (λ kv, negb (kv.2 =? 0)) ws)
    ++ map (λ kv, (slot_key kv.1, [])) (List.filter (λ kv, kv.2 =? 0) ws).

  Definition update_root (p : pdb) (pend : gmap slot word) (x : oext) : cres oext :=
    if bool_decide (x_unc x = ∅) then COk x
    else
      match (match x_trie x with Some t => Some t | None => open_trie p (x_root x) end) with
      | None => CErr CMissing
      | Some tr =>
          match t_update_seq tr (storage_kvs (unc_writes pend (x_unc x))) with
          | CErr e => CErr e
          | COk tr' =>
              match t_hash tr' with
              | CErr e => CErr e
              | COk h => COk {| x_unc := ∅; x_root := h; x_trie := Some tr'; x_dcode := x_dcode x |}
              end
          end
      end.

  (* IntermediateRoot: "for addr, op := range s.mutations { if op.applied || op.isDelete() continue;
     obj.updateRoot() }" *)
  Fixpoint ir_storage (p : pdb) (l : list (addr * mut)) (cs : cstate) : cres cstate :=
    match l with
    | [] => COk cs
    | (a, m) :: r =>
        if m_applied m || m_del m then ir_storage p r cs
        else
          match j_objs (c_j cs) !! a with
          | None => CErr CNilObj
          | Some o =>
              match update_root p (o_pending o) (ext_of cs a) with
              | CErr e => CErr e
              | COk x => ir_storage p r (set_x a x cs)
              end
          end
    end.

  (* the account trie writes: updateStateObject for updates, then deleteStateObject *)
  Fixpoint acct_updates (cs : cstate) (l : list (addr * mut)) : cres (list (list N * list N)) :=
    match l with
    | [] => COk []
    | (a, m) :: r =>
        match acct_updates cs r with
        | CErr e => CErr e
        | COk kvs =>
            if m_applied m || m_del m then COk kvs
            else match j_objs (c_j cs) !! a with
                 | None => CErr CNilObj
                 | Some o => COk ((addr_key a, acct_rlp (o_data o) (x_root (ext_of cs a))) :: kvs)
                 end
        end
    end.
  Definition acct_deletes (l : list (addr * mut)) : list (list N * list N) :=
    map (λ am, (addr_key am.1, [])) (List.filter (λ am, negb (m_applied am.2) && m_del am.2) l).

  (* StateDB.IntermediateRoot *)
  Definition intermediate_root (r : rules) (p : pdb) (cs : cstate) : cres (list N * cstate) :=
    let cs1 := (step_c cs (OFinalise r)).1 in
    match (match c_trie cs1 with Some t => Some t | None => open_trie p (c_root cs1) end) with
    | None => CErr CMissing
    | Some t =>
        let ml := map_to_list (c_muts cs1) in
        match ir_storage p ml cs1 with
        | CErr e => CErr e
        | COk cs2 =>
            match acct_updates cs2 ml with
            | CErr e => CErr e
            | COk ups =>
                match t_update_seq t (ups ++ acct_deletes ml) with
                | CErr e => CErr e
                | COk t' =>
                    match t_hash t' with
                    | CErr e => CErr e
                    | COk root =>
                        COk (root,
                             {| c_j := c_j cs2; c_roots0 := c_roots0 cs2; c_x := c_x cs2; c_dx := c_dx cs2;
                                c_muts := (λ m, {| m_del := m_del m; m_applied := true |}) <$> c_muts cs2;
                                c_trie := Some t'; c_root := c_root cs2 |})
                    end
                end
            end
        end
    end.

  (* ---- commit ---- *)
  Definition r_cancun (r : rules) : bool := rShanghai r.   (* the harness sets IsCancun with IsShanghai *)

  (* StateDB.handleDestruction (+ deleteStorage's iterator over the old storage) *)
  Fixpoint handle_destruction (r : rules) (p : pdb) (cs : cstate) (l : list (addr * option acct)) : cres unit :=
    match l with
    | [] => COk tt
    | (a, prev) :: rest =>
        match prev with
        | None => handle_destruction r p cs rest
        | Some _ =>
            let root0 := default empty_root (c_roots0 cs !! a) in
            if bool_decide (root0 = empty_root) then handle_destruction r p cs rest
            else if r_cancun r then CErr CWipe
            else match open_trie p root0 with
                 | None => CErr CMissing
                 | Some _ => handle_destruction r p cs rest
                 end
        end
    end.

  (* stateObject.commitStorage: is op.Storages non-empty? *)
  Definition storage_changed (j : jstate) (a : addr) (o : sobj) : bool :=
    bool_decide (∃ k v, o_pending o !! k = Some v ∧ v ≠ origin_val j a k).

  (* stateObject.commit for every updated object, writing into the stores *)
  Fixpoint commit_objects (cs : cstate) (l : list (addr * mut)) (p : pdb) : cres pdb :=
    match l with
    | [] => COk p
    | (a, m) :: r =>
        if m_del m then commit_objects cs r p
        else
          match j_objs (c_j cs) !! a with
          | None => CErr CNilObj                       (* "missing state object" *)
          | Some o =>
              let x := ext_of cs a in
              let codes := if x_dcode x
                           then <[code_hash (a_code (o_data o)) := code_bytes (a_code (o_data o))]> (p_codes p)
                           else p_codes p in
              if storage_changed (c_j cs) a o then
                match x_trie x with
                | None => CErr CNilObj                 (* s.trie.Commit on a nil trie *)
                | Some t => commit_objects cs r {| p_tries := <[x_root x := t]> (p_tries p); p_codes := codes |}
                end
              else commit_objects cs r {| p_tries := p_tries p; p_codes := codes |}
          end
    end.

  (* StateDB.Commit = commit + db.Commit(update): the new root and the updated stores *)
  Definition commit (r : rules) (p : pdb) (cs : cstate) : cres (list N * pdb) :=
    match intermediate_root r p cs with
    | CErr e => CErr e
    | COk (root, cs1) =>
        match handle_destruction r p cs1 (map_to_list (c_dx cs1)) with
        | CErr e => CErr e
        | COk _ =>
            match commit_objects cs1 (map_to_list (c_muts cs1)) p, c_trie cs1 with
            | CErr e, _ => CErr e
            | _, None => CErr CNilObj
            | COk p1, Some t =>
                (* StateUpdate.Empty(): nothing is written when the root did not change *)
                if bool_decide (root = c_root cs1) then COk (root, p)
                else COk (root, {| p_tries := <[root := t]> (p_tries p1); p_codes := p_codes p1 |})
            end
        end
    end.

  (* ---- StateDB.Copy ---- *)
  (* stateObject.deepCopy: the four storage maps are Copy()'d, the trie is mustCopyTrie'd,
     origin / data / code are immutable values shared by pointer *)
  Definition deep_copy_obj (o : sobj) : sobj :=
    {| o_origin := o_origin o; o_data := o_data o; o_dirty := o_dirty o; o_pending := o_pending o;
       o_sd := o_sd o; o_new := o_new o |}.
  Definition deep_copy_ext (x : oext) : oext :=
    {| x_unc := x_unc x; x_root := x_root x; x_trie := x_trie x; x_dcode := x_dcode x |}.
  Definition copy_j (j : jstate) : jstate :=
    {| j_db := j_db j;                                   (* reader: shared *)
       j_objs := deep_copy_obj <$> j_objs j;             (* obj.deepCopy per live object *)
       j_destruct := j_destruct j;                       (* obj.deepCopy per destructed object *)
       j_refund := j_refund j; j_th := j_th j; j_ti := j_ti j;
       j_logs := (λ l, l) <$> j_logs j; j_logsize := j_logsize j;   (* logs deep-copied *)
       j_ala := j_ala j; j_als := j_als j;               (* accessList.Copy() *)
       j_tstor := j_tstor j;                             (* transientStorage.Copy() *)
       j_entries := j_entries j; j_muts := j_muts j;     (* journal.copy() *)
       j_revs := j_revs j; j_nextrev := j_nextrev j; j_bad := j_bad j |}.
  Definition copy (cs : cstate) : cstate :=
    {| c_j := copy_j (c_j cs); c_roots0 := c_roots0 cs;
       c_x := deep_copy_ext <$> c_x cs;
       c_dx := c_dx cs;
       c_muts := (λ m, {| m_del := m_del m; m_applied := m_applied m |}) <$> c_muts cs;   (* op.copy() *)
       c_trie := c_trie cs;                              (* mustCopyTrie *)
       c_root := c_root cs |}.

  (* ---- the persistent getters ---- *)
  Definition persistent (q : query) : bool :=
    match q with
    | QExist _ | QEmpty _ | QBalance _ | QNonce _ | QCode _ | QCodeHash _ | QState _ _ | QCommitted _ _ => true
    | _ => false
    end.
  Definition query_c (cs : cstate) (q : query) : answer := query_j (c_j cs) q.
End Commit.
