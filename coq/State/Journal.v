(* State/Journal.v — the IMPLEMENTATION model for C13, transcribed from
   /repo/core/state/{statedb.go, state_object.go, journal.go, access_list.go,
   transient_storage.go}.  Each definition names the Go function it transcribes.

   What is represented literally: stateObjects (origin, data, dirtyStorage,
   pendingStorage, selfDestructed, newContract), stateObjectsDestruct (its key set),
   the undo journal (one constructor per journalEntry type, its revert and its
   mutation()), journal.mutations (per-kind counts, stashBalance/Nonce/Code,
   clearKind, the RIPEMD marker = a second Touch count), validRevisions /
   nextRevisionId, the access list (addresses -> index or -1, slots slice),
   transient storage, refund, logs (per tx hash) and logSize, Finalise and
   finaliseAmsterdam, Prepare, SetTxContext, clearInternal.

   Idealisations (each argued in checks/C13.json):
   * accounts of the committed pre-state are loaded eagerly at [init_j]
     (getStateObject = lookup in stateObjects); the read caches originStorage and
     stateObject.code are not represented (GetCommittedState reads pending, then the
     destruct marker, then the reader; code is always resolved);
   * Finalise's loop over the map journal.mutations is a per-address map operation
     (iterations touch disjoint addresses);
   * uncommittedStorage, StateDB.mutations (markUpdate/markDelete), data.Root,
     dirtyCode, the prefetcher, witness, access events and the EIP-7928 block access
     list only feed IntermediateRoot/Commit/BAL and are not represented;
   * a Go panic / nil dereference inside a revert or Prepare sets [j_bad] (the
     run continues on a poisoned state; Properties/C13.v proves it is never set
     on guarded histories). *)
From stdpp Require Import gmap.
From Coq Require Import NArith ZArith.
From RecordUpdate Require Import RecordSet.
Import RecordSetNotations.
From GV Require Import State.Ref.
Local Open Scope N_scope.

(* ---- state_object.go: stateObject ---- *)
Record sobj := {
  o_origin : option acct;          (* origin *types.StateAccount (nil = did not exist) *)
  o_data : acct;                   (* data: nonce, balance, code hash (as code id) *)
  o_dirty : gmap slot word;        (* dirtyStorage *)
  o_pending : gmap slot word;      (* pendingStorage *)
  o_sd : bool;                     (* selfDestructed *)
  o_new : bool                     (* newContract *)
}.
Global Instance eta_sobj : Settable _ :=
  settable! Build_sobj <o_origin; o_data; o_dirty; o_pending; o_sd; o_new>.

(* state_object.go: newObject *)
Definition new_object (origin : option acct) : sobj :=
  {| o_origin := origin; o_data := default acct0 origin;
     o_dirty := ∅; o_pending := ∅; o_sd := false; o_new := false |}.

(* ---- journal.go: journalEntry implementations ---- *)
Inductive jentry :=
| JCreateObject (a : addr)
| JCreateContract (a : addr)
| JSelfDestruct (a : addr)
| JBalance (a : addr) (prev : word)
| JNonce (a : addr) (prev : N)
| JStorage (a : addr) (k : slot) (prev orig : word)
| JCode (a : addr) (prev : N)
| JRefund (prev : N)
| JAddLog (th : N)
| JTouch (a : addr)
| JALAddr (a : addr)
| JALSlot (a : addr) (k : slot)
| JTransient (a : addr) (k : slot) (prev : word).

(* journalMutationKind *)
Inductive kind := KTouch | KCreate | KSelfDestruct | KBalance | KNonce | KCode | KStorage.
Global Instance kind_eq_dec : EqDecision kind.
Proof. solve_decision. Defined.

(* journalEntry.mutation() *)
Definition mutation (e : jentry) : option (addr * kind) :=
  match e with
  | JCreateObject a => Some (a, KCreate)
  | JSelfDestruct a => Some (a, KSelfDestruct)
  | JBalance a _ => Some (a, KBalance)
  | JNonce a _ => Some (a, KNonce)
  | JStorage a _ _ _ => Some (a, KStorage)
  | JCode a _ => Some (a, KCode)
  | JTouch a => Some (a, KTouch)
  | JCreateContract _ | JRefund _ | JAddLog _ | JALAddr _ | JALSlot _ _ | JTransient _ _ _ => None
  end.

(* journalMutationState: counts (Go int: Z) and the stashed pre-tx originals
   (balance/balanceSet etc. as option) *)
Record mstate := {
  c_touch : Z; c_create : Z; c_sd : Z; c_bal : Z; c_nonce : Z; c_code : Z; c_stor : Z;
  s_bal : option word; s_nonce : option N; s_code : option N
}.
Global Instance eta_mstate : Settable _ :=
  settable! Build_mstate <c_touch; c_create; c_sd; c_bal; c_nonce; c_code; c_stor; s_bal; s_nonce; s_code>.
Global Instance mstate_eq_dec : EqDecision mstate.
Proof. solve_decision. Defined.
Definition mstate0 : mstate :=
  {| c_touch := 0; c_create := 0; c_sd := 0; c_bal := 0; c_nonce := 0; c_code := 0; c_stor := 0;
     s_bal := None; s_nonce := None; s_code := None |}.

Definition count (k : kind) (m : mstate) : Z :=
  match k with
  | KTouch => c_touch m | KCreate => c_create m | KSelfDestruct => c_sd m | KBalance => c_bal m
  | KNonce => c_nonce m | KCode => c_code m | KStorage => c_stor m
  end.
Definition count_upd (k : kind) (f : Z → Z) (m : mstate) : mstate :=
  match k with
  | KTouch => m <| c_touch ::= f |> | KCreate => m <| c_create ::= f |>
  | KSelfDestruct => m <| c_sd ::= f |> | KBalance => m <| c_bal ::= f |>
  | KNonce => m <| c_nonce ::= f |> | KCode => m <| c_code ::= f |>
  | KStorage => m <| c_stor ::= f |>
  end.
(* journalMutationState.add / journalMutationCounts.add *)
Definition m_add (k : kind) (m : mstate) : mstate := count_upd k (λ c, c + 1)%Z m.
(* journalMutationState.clearKind *)
Definition clear_kind (k : kind) (m : mstate) : mstate :=
  match k with
  | KBalance => m <| s_bal := None |>
  | KNonce => m <| s_nonce := None |>
  | KCode => m <| s_code := None |>
  | _ => m
  end.
Definition counts_zero (m : mstate) : bool :=
  bool_decide (c_touch m = 0 ∧ c_create m = 0 ∧ c_sd m = 0 ∧ c_bal m = 0 ∧ c_nonce m = 0
               ∧ c_code m = 0 ∧ c_stor m = 0)%Z.
(* journalMutationState.remove: the new state and "no entries of any kind remain" *)
Definition m_remove (k : kind) (m : mstate) : mstate * bool :=
  let m1 := count_upd k (λ c, c - 1)%Z m in
  let m2 := if bool_decide (count k m1 = 0%Z) then clear_kind k m1 else m1 in
  (m2, counts_zero m2).

(* ---- statedb.go: StateDB (with its journal and access list inlined) ---- *)
Record jstate := {
  j_db : database;                         (* reader: the committed pre-state *)
  j_objs : gmap addr sobj;                 (* stateObjects *)
  j_destruct : gset addr;                  (* keys of stateObjectsDestruct *)
  j_refund : N;
  j_th : N; j_ti : N;                      (* thash, txIndex *)
  j_logs : gmap N (list log);              (* logs, per tx hash, oldest first *)
  j_logsize : N;
  j_ala : gmap addr Z;                     (* accessList.addresses: index into slots or -1 *)
  j_als : list (gset slot);                (* accessList.slots *)
  j_tstor : gmap (addr * slot) word;       (* transientStorage *)
  j_entries : list jentry;                 (* journal.entries, NEWEST FIRST *)
  j_muts : gmap addr mstate;               (* journal.mutations *)
  j_revs : list (N * nat);                 (* journal.validRevisions, NEWEST FIRST: (id, journalIndex) *)
  j_nextrev : N;                           (* journal.nextRevisionId *)
  j_bad : bool                             (* a Go panic happened where the model does not stop *)
}.
Global Instance eta_jstate : Settable _ :=
  settable! Build_jstate <j_db; j_objs; j_destruct; j_refund; j_th; j_ti; j_logs; j_logsize;
                          j_ala; j_als; j_tstor; j_entries; j_muts; j_revs; j_nextrev; j_bad>.

(* state.New on a committed root; accounts loaded eagerly (see header) *)
Definition init_j (db : database) : jstate :=
  {| j_db := db; j_objs := (λ d, new_object (Some (d_acct d))) <$> db; j_destruct := ∅;
     j_refund := 0; j_th := 0; j_ti := 0; j_logs := ∅; j_logsize := 0; j_ala := ∅; j_als := [];
     j_tstor := ∅; j_entries := []; j_muts := ∅; j_revs := []; j_nextrev := 0; j_bad := false |}.

(* ---- journal.go ---- *)
(* journal.mutationStateFor *)
Definition mstate_for (a : addr) (j : jstate) : mstate := default mstate0 (j_muts j !! a).

(* journal.append *)
Definition j_append (e : jentry) (j : jstate) : jstate :=
  let j1 := j <| j_entries ::= cons e |> in
  match mutation e with
  | Some (a, k) => j1 <| j_muts ::= <[a := m_add k (mstate_for a j)]> |>
  | None => j1
  end.

(* journal.stashBalance / stashNonce / stashCode: record prev as the pre-tx value iff
   this is the first touch of that field (the *Set flag is the option) *)
Definition stash_k (k : kind) (prev : N) (m : mstate) : mstate :=
  match k with
  | KBalance => match s_bal m with Some _ => m | None => m <| s_bal := Some prev |> end
  | KNonce => match s_nonce m with Some _ => m | None => m <| s_nonce := Some prev |> end
  | KCode => match s_code m with Some _ => m | None => m <| s_code := Some prev |> end
  | _ => m
  end.
Definition stash (k : kind) (a : addr) (prev : N) (j : jstate) : jstate :=
  j <| j_muts ::= <[a := stash_k k prev (mstate_for a j)]> |>.
Definition stash_bal := stash KBalance.
Definition stash_nonce := stash KNonce.
Definition stash_code := stash KCode.

(* journal.ripemdMagic *)
Definition ripemd_magic (j : jstate) : jstate :=
  j <| j_muts ::= <[ripemd := m_add KTouch (mstate_for ripemd j)]> |>.

(* journal.touchChange *)
Definition touch_change (a : addr) (j : jstate) : jstate :=
  let j1 := j_append (JTouch a) j in
  if bool_decide (a = ripemd) then ripemd_magic j1 else j1.

(* journal.balanceChange / nonceChange / setCode *)
Definition balance_change (a : addr) (prev : word) (j : jstate) : jstate :=
  j_append (JBalance a prev) (stash_bal a prev j).
Definition nonce_change (a : addr) (prev : N) (j : jstate) : jstate :=
  j_append (JNonce a prev) (stash_nonce a prev j).
Definition code_change (a : addr) (prev : N) (j : jstate) : jstate :=
  j_append (JCode a prev) (stash_code a prev j).

(* ---- state_object.go: storage ---- *)
(* stateObject.GetCommittedState (pending, then destruct marker, then reader) *)
Definition db_stor (j : jstate) (a : addr) (k : slot) : word :=
  match j_db j !! a with Some d => sget (d_stor d) k | None => 0 end.
Definition committed (j : jstate) (a : addr) (o : sobj) (k : slot) : word :=
  match o_pending o !! k with
  | Some v => v
  | None => if bool_decide (a ∈ j_destruct j) then 0 else db_stor j a k
  end.
(* stateObject.GetState *)
Definition get_state (j : jstate) (a : addr) (o : sobj) (k : slot) : word :=
  match o_dirty o !! k with Some v => v | None => committed j a o k end.
(* stateObject.setState *)
Definition set_state (k : slot) (v orig : word) (o : sobj) : sobj :=
  if v =? orig then o <| o_dirty ::= delete k |> else o <| o_dirty ::= <[k := v]> |>.
(* stateObject.empty *)
Definition obj_empty (o : sobj) : bool := acct_empty (o_data o).
(* stateObject.finalise *)
Definition obj_finalise (o : sobj) : sobj :=
  o <| o_pending := o_dirty o ∪ o_pending o |> <| o_dirty := ∅ |> <| o_new := false |>.

(* ---- access_list.go ---- *)
(* accessList.AddAddress *)
Definition al_add_address (a : addr) (j : jstate) : jstate * bool :=
  match j_ala j !! a with
  | Some _ => (j, false)
  | None => (j <| j_ala ::= <[a := (-1)%Z]> |>, true)
  end.
(* accessList.AddSlot: (state, addrChange, slotChange) *)
Definition al_add_slot (a : addr) (k : slot) (j : jstate) : jstate * bool * bool :=
  let fresh :=
    (j <| j_ala ::= <[a := Z.of_nat (length (j_als j))]> |> <| j_als ::= (λ l, l ++ [{[k]}]) |>) in
  match j_ala j !! a with
  | None => (fresh, true, true)
  | Some idx =>
      if (idx =? -1)%Z then (fresh, false, true)
      else match j_als j !! Z.to_nat idx with
           | Some sm =>
               if bool_decide (k ∈ sm) then (j, false, false)
               else (j <| j_als ::= <[Z.to_nat idx := {[k]} ∪ sm]> |>, false, true)
           | None => (j <| j_bad := true |>, false, false)     (* index out of range *)
           end
  end.
(* accessList.DeleteSlot *)
Definition al_delete_slot (a : addr) (k : slot) (j : jstate) : jstate :=
  match j_ala j !! a with
  | None => j <| j_bad := true |>                (* panic("reverting slot change, address not present in list") *)
  | Some idx =>
      if (idx <? 0)%Z then j <| j_bad := true |> (* slots[-1] *)
      else match j_als j !! Z.to_nat idx with
           | None => j <| j_bad := true |>
           | Some sm =>
               let sm' := sm ∖ {[k]} in
               if bool_decide (sm' = ∅)
               then j <| j_als ::= take (Z.to_nat idx) |> <| j_ala ::= <[a := (-1)%Z]> |>
               else j <| j_als ::= <[Z.to_nat idx := sm']> |>
           end
  end.
(* accessList.Contains, slotPresent *)
Definition al_contains_slot (j : jstate) (a : addr) (k : slot) : bool :=
  match j_ala j !! a with
  | None => false
  | Some idx =>
      if (idx =? -1)%Z then false
      else match j_als j !! Z.to_nat idx with Some sm => bool_decide (k ∈ sm) | None => false end
  end.

(* ---- journal.go: journalEntry.revert ---- *)
Definition with_obj (a : addr) (f : sobj → sobj) (j : jstate) : jstate :=
  match j_objs j !! a with
  | Some o => j <| j_objs ::= <[a := f o]> |>
  | None => j <| j_bad := true |>                (* nil dereference of getStateObject's result *)
  end.

Definition revert_entry (e : jentry) (j : jstate) : jstate :=
  match e with
  | JCreateObject a => j <| j_objs ::= delete a |>
  | JCreateContract a => with_obj a (λ o, o <| o_new := false |>) j
  | JSelfDestruct a =>
      match j_objs j !! a with
      | Some o => j <| j_objs ::= <[a := o <| o_sd := false |>]> |>
      | None => j
      end
  | JBalance a prev => with_obj a (λ o, o <| o_data ::= (λ d, d <| a_bal := prev |>) |>) j
  | JNonce a prev => with_obj a (λ o, o <| o_data ::= (λ d, d <| a_nonce := prev |>) |>) j
  | JStorage a k prev orig => with_obj a (set_state k prev orig) j
  | JCode a prev => with_obj a (λ o, o <| o_data ::= (λ d, d <| a_code := prev |>) |>) j
  | JRefund prev => j <| j_refund := prev |>
  | JAddLog th =>
      let l := default [] (j_logs j !! th) in
      let j1 := match l with
                | [] => j <| j_bad := true |>    (* logs[:len(logs)-1] on an empty slice *)
                | [_] => j <| j_logs ::= delete th |>
                | _ => j <| j_logs ::= <[th := removelast l]> |>
                end in
      j1 <| j_logsize ::= N.pred |>
  | JTouch _ => j
  | JALAddr a => j <| j_ala ::= delete a |>
  | JALSlot a k => al_delete_slot a k j
  | JTransient a k prev =>
      j <| j_tstor ::= (if prev =? 0 then delete (a, k) else <[(a, k) := prev]>) |>
  end.

(* the mutation-tracking half of one iteration of journal.revert *)
Definition unmutate (e : jentry) (j : jstate) : jstate :=
  match mutation e with
  | None => j
  | Some (a, k) =>
      match j_muts j !! a with
      | None => j <| j_bad := true |>            (* panic("journal mutation tracking missing") *)
      | Some m =>
          let '(m', gone) := m_remove k m in
          if gone then j <| j_muts ::= delete a |> else j <| j_muts ::= <[a := m']> |>
      end
  end.

(* journal.revert(statedb, snapshot): undo entries down to length [snapshot] *)
Fixpoint revert_n (n : nat) (j : jstate) : jstate :=
  match n with
  | O => j
  | S n' =>
      match j_entries j with
      | [] => j
      | e :: rest => revert_n n' (unmutate e (revert_entry e j) <| j_entries := rest |>)
      end
  end.
Definition revert_to (idx : nat) (j : jstate) : jstate :=
  revert_n (length (j_entries j) - idx) j.

(* journal.revertToSnapshot: find the revision (sort.Search on increasing ids),
   None = panic("revision id cannot be reverted") *)
Fixpoint find_revision (id : N) (revs : list (N * nat)) : option (nat * list (N * nat)) :=
  match revs with
  | [] => None
  | (i, idx) :: rest => if i =? id then Some (idx, rest) else find_revision id rest
  end.

(* ---- statedb.go ---- *)
(* StateDB.createObject *)
Definition create_object (a : addr) (j : jstate) : jstate :=
  (j_append (JCreateObject a) j) <| j_objs ::= <[a := new_object None]> |>.
(* StateDB.getOrNewStateObject *)
Definition get_or_new_j (a : addr) (j : jstate) : jstate * sobj :=
  match j_objs j !! a with
  | Some o => (j, o)
  | None => (create_object a j, new_object None)
  end.
Definition put_obj (a : addr) (o : sobj) (j : jstate) : jstate := j <| j_objs ::= <[a := o]> |>.

(* stateObject.SetBalance / SetNonce / SetCode: journal the previous value, then set *)
Definition obj_set_balance (a : addr) (o : sobj) (v : word) (j : jstate) : jstate :=
  put_obj a (o <| o_data ::= (λ d, d <| a_bal := v |>) |>) (balance_change a (a_bal (o_data o)) j).
Definition obj_set_nonce (a : addr) (o : sobj) (n : N) (j : jstate) : jstate :=
  put_obj a (o <| o_data ::= (λ d, d <| a_nonce := n |>) |>) (nonce_change a (a_nonce (o_data o)) j).
Definition obj_set_code (a : addr) (o : sobj) (c : N) (j : jstate) : jstate :=
  put_obj a (o <| o_data ::= (λ d, d <| a_code := c |>) |>) (code_change a (a_code (o_data o)) j).
(* stateObject.SetState, when the value changes *)
Definition obj_set_state (a : addr) (o : sobj) (k : slot) (v : word) (j : jstate) : jstate :=
  let orig := committed j a o k in
  let prev := get_state j a o k in
  put_obj a (set_state k v orig o) (j_append (JStorage a k prev orig) j).
(* StateDB.SelfDestruct, when not yet marked *)
Definition obj_self_destruct (a : addr) (o : sobj) (j : jstate) : jstate :=
  put_obj a (o <| o_sd := true |>) (j_append (JSelfDestruct a) j).

(* StateDB.clearInternal (journal.reset + refund) *)
Definition clear_internal (j : jstate) : jstate :=
  j <| j_entries := [] |> <| j_revs := [] |> <| j_muts := ∅ |> <| j_nextrev := 0 |> <| j_refund := 0 |>.

(* StateDB.Finalise / finaliseAmsterdam, per address in journal.mutations whose object exists:
   None = delete(stateObjects) + stateObjectsDestruct marker *)
Definition fin_obj (r : rules) (o : sobj) : option sobj :=
  if rAms r then
    if o_sd o then
      if negb (a_bal (o_data o) =? 0)
      then Some ((new_object (o_origin o)) <| o_data ::= (λ d, d <| a_bal := a_bal (o_data o) |>) |>)
      else None
    else if r158 r && obj_empty o then None
    else Some (obj_finalise o)
  else
    if o_sd o || (r158 r && obj_empty o) then None else Some (obj_finalise o).

Definition fin_del (r : rules) (o : sobj) : bool :=
  match fin_obj r o with None => true | Some _ => false end.

Definition finalise (r : rules) (j : jstate) : jstate :=
  let dirty a := bool_decide (a ∈ dom (j_muts j)) in
  let objs := j_objs j in
  clear_internal
    (j <| j_objs := map_imap (λ a o, if dirty a then fin_obj r o else Some o) objs |>
       <| j_destruct := j_destruct j ∪
            dom (filter (λ ao, Is_true (dirty ao.1 && fin_del r ao.2)) objs) |>).

(* StateDB.Prepare (precompiles = nil) after SetTxContext *)
Definition prepare_al (r : rules) (sender coinbase : addr) (dst : option addr)
           (l : list (addr * list slot)) (j : jstate) : jstate :=
  let j0 := j <| j_ala := ∅ |> <| j_als := [] |> in
  let j1 := (al_add_address sender j0).1 in
  let j2 := match dst with Some d => (al_add_address d j1).1 | None => j1 end in
  let j3 := foldl (λ j e, foldl (λ j k, (al_add_slot e.1 k j).1.1) (al_add_address e.1 j).1 e.2) j2 l in
  if rShanghai r then (al_add_address coinbase j3).1 else j3.

Definition step_j (j : jstate) (o : op) : jstate * out :=
  match o with
  | OCreateAccount a => (create_object a j, RNone)                         (* CreateAccount *)
  | OCreateContract a =>                                                   (* CreateContract *)
      match j_objs j !! a with
      | None => (j, RPanic)                                                (* obj.newContract on nil *)
      | Some o => if o_new o then (j, RNone)
                  else (j_append (JCreateContract a) (put_obj a (o <| o_new := true |>) j), RNone)
      end
  | OAddBalance a v =>                                                     (* StateDB.AddBalance, stateObject.AddBalance *)
      let '(j1, o) := get_or_new_j a j in
      if v =? 0 then ((if obj_empty o then touch_change a j1 else j1), RNone)
      else (obj_set_balance a o ((a_bal (o_data o) + v) mod W256) j1, RNone)
  | OSubBalance a v =>                                                     (* StateDB.SubBalance *)
      let '(j1, o) := get_or_new_j a j in
      if v =? 0 then (j1, RNone)
      else (obj_set_balance a o ((a_bal (o_data o) + W256 - v mod W256) mod W256) j1, RNone)
  | OSetBalance a v =>                                                     (* SetBalance *)
      let '(j1, o) := get_or_new_j a j in
      (obj_set_balance a o v j1, RNone)
  | OSetNonce a n =>                                                       (* SetNonce *)
      let '(j1, o) := get_or_new_j a j in
      (obj_set_nonce a o n j1, RNone)
  | OSetCode a c =>                                                        (* SetCode *)
      let '(j1, o) := get_or_new_j a j in
      (obj_set_code a o c j1, RNone)
  | OSetState a k v =>                                                     (* SetState, stateObject.SetState *)
      let '(j1, o) := get_or_new_j a j in
      if get_state j1 a o k =? v then (j1, RNone)
      else (obj_set_state a o k v j1, RNone)
  | OSetTransient a k v =>                                                 (* SetTransientState *)
      let prev := default 0 (j_tstor j !! (a, k)) in
      if prev =? v then (j, RNone)
      else ((j_append (JTransient a k prev) j)
              <| j_tstor ::= (if v =? 0 then delete (a, k) else <[(a, k) := v]>) |>, RNone)
  | OSelfDestruct a =>                                                     (* SelfDestruct *)
      match j_objs j !! a with
      | None => (j, RNone)
      | Some o => if o_sd o then (j, RNone) else (obj_self_destruct a o j, RNone)
      end
  | OSelfDestruct6780 a =>                                                 (* vm.opSelfdestruct6780: IsNewContract guard *)
      match j_objs j !! a with
      | None => (j, RNone)
      | Some o => if o_new o && negb (o_sd o)
                  then (obj_self_destruct a o j, RNone)
                  else (j, RNone)
      end
  | OAddAddress a =>                                                       (* AddAddressToAccessList *)
      let '(j1, ch) := al_add_address a j in
      ((if ch then j_append (JALAddr a) j1 else j1), RNone)
  | OAddSlot a k =>                                                        (* AddSlotToAccessList *)
      let '(j1, am, sm) := al_add_slot a k j in
      let j2 := if am then j_append (JALAddr a) j1 else j1 in
      ((if sm then j_append (JALSlot a k) j2 else j2), RNone)
  | OAddRefund g =>                                                        (* AddRefund *)
      ((j_append (JRefund (j_refund j)) j) <| j_refund := (j_refund j + g) mod W64 |>, RNone)
  | OSubRefund g =>                                                        (* SubRefund *)
      let j1 := j_append (JRefund (j_refund j)) j in
      if j_refund j <? g then (j1, RPanic) else (j1 <| j_refund := j_refund j - g |>, RNone)
  | OAddLog a d =>                                                         (* AddLog *)
      let l := {| l_th := j_th j; l_ti := j_ti j; l_idx := j_logsize j; l_addr := a; l_data := d |} in
      ((j_append (JAddLog (j_th j)) j)
         <| j_logs ::= <[j_th j := default [] (j_logs j !! j_th j) ++ [l]]> |>
         <| j_logsize ::= N.succ |>, RNone)
  | OSnapshot =>                                                           (* journal.snapshot *)
      (j <| j_revs ::= cons (j_nextrev j, length (j_entries j)) |> <| j_nextrev ::= N.succ |>,
       RId (j_nextrev j))
  | ORevert id =>                                                          (* journal.revertToSnapshot *)
      match find_revision id (j_revs j) with
      | None => (j, RPanic)
      | Some (idx, rest) => ((revert_to idx j) <| j_revs := rest |>, RNone)
      end
  | OFinalise r => (finalise r j, RNone)
  | OTxStart th ti r sender coinbase dst l =>                              (* SetTxContext; Prepare *)
      let j1 := j <| j_th := th |> <| j_ti := ti |> in
      let j2 := if r2929 r then prepare_al r sender coinbase dst l j1 else j1 in
      (j2 <| j_tstor := ∅ |>, RNone)
  end.

(* ---- the observable getters (StateDB.Exist, Empty, GetBalance, ...) ---- *)
Definition query_j (j : jstate) (q : query) : answer :=
  let obj a := j_objs j !! a in
  match q with
  | QExist a => AB (bool_decide (is_Some (obj a)))
  | QEmpty a => AB (match obj a with Some o => obj_empty o | None => true end)
  | QBalance a => AN (match obj a with Some o => a_bal (o_data o) | None => 0 end)
  | QNonce a => AN (match obj a with Some o => a_nonce (o_data o) | None => 0 end)
  | QCode a => AN (match obj a with Some o => a_code (o_data o) | None => 0 end)
  | QCodeHash a => AN (match obj a with Some o => a_code (o_data o) + 1 | None => 0 end)
  | QState a k => AN (match obj a with Some o => get_state j a o k | None => 0 end)
  | QCommitted a k => AN (match obj a with Some o => committed j a o k | None => 0 end)
  | QTransient a k => AN (default 0 (j_tstor j !! (a, k)))
  | QAddrInAL a => AB (bool_decide (is_Some (j_ala j !! a)))
  | QSlotInAL a k => AB (al_contains_slot j a k)
  | QRefund => AN (j_refund j)
  | QSelfDestructed a => AB (match obj a with Some o => o_sd o | None => false end)
  | QNewContract a => AB (match obj a with Some o => o_new o | None => false end)
  | QLogs th => AL (default [] (j_logs j !! th))
  end.

Definition run_j (j : jstate) (ops : list op) : jstate := foldl (λ j o, (step_j j o).1) j ops.

(* ---- the guards: API preconditions the EVM establishes before calling ---- *)
(* origin of a self-destructed object is blank: what finaliseAmsterdam's
   newObject(origin) needs to produce the EIP-8264 "balance-only" account *)
Definition origin_blank (j : jstate) (a : addr) (o : sobj) : bool :=
  match o_origin o with
  | None => true
  | Some x => (a_nonce x =? 0) && (a_code x =? 0) &&
              match j_db j !! a with Some d => bool_decide (d_stor d = ∅) | None => true end
  end.

Definition op_ok (j : jstate) (o : op) : bool :=
  match o with
  | OCreateAccount a => bool_decide (j_objs j !! a = None)    (* evm.create: only if !Exist *)
  | OTxStart _ _ _ _ _ _ _ => bool_decide (j_entries j = [] ∧ j_revs j = [])  (* Prepare only at a tx boundary *)
  | OFinalise r =>
      bool_decide (map_Forall (λ a o,
        (o_new o = true → a ∈ dom (j_muts j)) ∧
        (rAms r = true → o_sd o = true → a_bal (o_data o) ≠ 0 → origin_blank j a o = true)) (j_objs j))
  | _ => true
  end.
