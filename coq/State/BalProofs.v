(* State/BalProofs.v — proofs about State/Bal.v over the C13 implementation model.
   Part 1: the stash invariant of journal.mutations through arbitrary nested
           Snapshot/RevertToSnapshot (forward-reachability is closed under journal undo).
   Part 2: finaliseAmsterdam records exactly the net changes.
   Part 3: ToEncodingObj is strictly sorted; Validate accepts constructed lists. *)
From Coq Require Import ssreflect.
From stdpp Require Import gmap sorting.
From Coq Require Import NArith ZArith Lia.
From RecordUpdate Require Import RecordSet.
Import RecordSetNotations.
From GV Require Import State.Ref State.Journal State.JournalProofs State.BalEnc State.Bal.
Local Open Scope N_scope.

(* ------------------------------------------------------------------ *)
(* the part of the StateDB the block access list depends on *)
Definition sem_eq (j j' : jstate) : Prop :=
  j_db j = j_db j' ∧ j_objs j = j_objs j' ∧ j_destruct j = j_destruct j' ∧ j_muts j = j_muts j'.
Definition core_eq (j j' : jstate) : Prop := sem_eq j j' ∧ j_entries j = j_entries j'.

Lemma sem_eq_refl j : sem_eq j j. Proof. done. Qed.
Lemma sem_eq_sym j j' : sem_eq j j' → sem_eq j' j. Proof. intros (?&?&?&?). done. Qed.
Lemma sem_eq_trans j1 j2 j3 : sem_eq j1 j2 → sem_eq j2 j3 → sem_eq j1 j3.
Proof. intros (?&?&?&?) (?&?&?&?). repeat split; congruence. Qed.
Lemma core_eq_refl j : core_eq j j. Proof. done. Qed.
Lemma core_eq_sym j j' : core_eq j j' → core_eq j' j. Proof. intros [? ?]. split; [by apply sem_eq_sym|done]. Qed.
Lemma core_eq_trans j1 j2 j3 : core_eq j1 j2 → core_eq j2 j3 → core_eq j1 j3.
Proof. intros [? ?] [? ?]. split; [by eapply sem_eq_trans|congruence]. Qed.

(* entries that do not dereference state objects *)
Definition noncore (e : jentry) : bool :=
  match e with JRefund _ | JAddLog _ | JALAddr _ | JALSlot _ _ | JTransient _ _ _ => true | _ => false end.

Lemma revert_entry_sem_noncore e j : noncore e = true → sem_eq (revert_entry e j) j.
Proof.
  destruct e; try done; intros _; simpl; unfold al_delete_slot; rs; repeat case_match; rs; done.
Qed.

Lemma revert_entry_sem e j j' : sem_eq j j' → sem_eq (revert_entry e j) (revert_entry e j').
Proof.
  intros H. destruct (noncore e) eqn:N.
  { eapply sem_eq_trans; [by apply revert_entry_sem_noncore|].
    eapply sem_eq_trans; [exact H|]. by apply sem_eq_sym, revert_entry_sem_noncore. }
  destruct H as (Hd & Ho & Hx & Hm).
  destruct e; try done; simpl; unfold with_obj; rewrite -?Ho;
    repeat case_match; rs; unfold sem_eq; simpl; rewrite ?Hd ?Hx ?Hm -?Ho; done.
Qed.

Lemma unmutate_sem e j j' : sem_eq j j' → sem_eq (unmutate e j) (unmutate e j').
Proof.
  intros (Hd & Ho & Hx & Hm). unfold unmutate. destruct (mutation e) as [[a k]|]; [|done].
  rewrite -Hm. destruct (j_muts j !! a) as [m|]; [|rs; done].
  destruct (m_remove k m) as [m' []]; rs; unfold sem_eq; simpl; rewrite ?Hd ?Hx ?Hm -?Ho; done.
Qed.

Lemma undo1_core j j' : core_eq j j' → core_eq (undo1 j) (undo1 j').
Proof.
  intros [H He]. unfold undo1. rewrite -He. destruct (j_entries j) as [|e rest] eqn:E; [split; [exact H|cbv iota; congruence]|].
  pose proof (unmutate_sem e _ _ (revert_entry_sem e _ _ H)) as (?&?&?&?).
  split; [|done]. rs. done.
Qed.

Lemma revert_n_core n j j' : core_eq j j' → core_eq (revert_n n j) (revert_n n j').
Proof.
  revert j j'. induction n as [|n IH]; intros j j' H; [done|]. rewrite !revert_n_S.
  pose proof H as [Hs He]. rewrite -He. destruct (j_entries j) eqn:E; [done|].
  apply IH, undo1_core. done.
Qed.

(* ------------------------------------------------------------------ *)
(* well-formedness of the part of the state the access list depends on *)
Record wfc (j : jstate) : Prop := {
  wc_muts : ∀ a, mloc j a;
  wc_dirty : ∀ a o k d, j_objs j !! a = Some o → o_dirty o !! k = Some d → d ≠ committed j a o k;
  wc_eager : ∀ a, j_objs j !! a = None → a ∈ j_destruct j ∨ j_db j !! a = None
}.

Lemma committed_sem j j' a o k : sem_eq j j' → committed j a o k = committed j' a o k.
Proof. intros (Hd & _ & Hx & _). unfold committed, db_stor. by rewrite Hd Hx. Qed.

Lemma wfc_sem j j' : sem_eq j j' → wfc j → wfc j'.
Proof.
  intros H [W1 W2 W3]. pose proof H as (Hd & Ho & Hx & Hm). split.
  - intros a m. unfold mloc in W1. rewrite -Hm. apply W1.
  - intros a o k d. rewrite -Ho -(committed_sem j j') //. apply W2.
  - intros a. rewrite -Ho -Hx -Hd. apply W3.
Qed.

Lemma czf k v m : mok m → counts_zero (m_add k (stash_k k v m)) = false.
Proof.
  intros ((H1 & H2 & H3 & H4 & H5 & H6 & H7) & _). apply counts_zero_false.
  destruct m as [? ? ? ? ? ? ? sb sn sc]; destruct k; unfold m_add, stash_k; simpl in *;
    try destruct sb; try destruct sn; try destruct sc; rs; lia.
Qed.

Lemma mloc_upd j j1 a k v :
  (∀ b, mloc j b) → j_muts j1 = <[a := m_add k (stash_k k v (mstate_for a j))]> (j_muts j) →
  ∀ b, mloc j1 b.
Proof.
  intros H E b m. rewrite E. destruct (decide (b = a)) as [->|Hne].
  - rewrite lookup_insert. intros [= <-].
    assert (Hk : mok (mstate_for a j)).
    { unfold mstate_for. destruct (j_muts j !! a) eqn:E1; simpl; [by apply (H a)|apply mok0]. }
    split; [by apply mok_add_stash|by apply czf].
  - rewrite lookup_insert_ne //. apply H.
Qed.

(* the journalled primitives every API call is made of *)
Inductive prim (j : jstate) : jstate → Prop :=
| P_create a : j_objs j !! a = None → prim j (create_object a j)
| P_bal a o v : j_objs j !! a = Some o → prim j (obj_set_balance a o v j)
| P_nonce a o v : j_objs j !! a = Some o → prim j (obj_set_nonce a o v j)
| P_code a o v : j_objs j !! a = Some o → prim j (obj_set_code a o v j)
| P_state a o k v : j_objs j !! a = Some o → prim j (obj_set_state a o k v j)
| P_sd a o : j_objs j !! a = Some o → o_sd o = false → prim j (obj_self_destruct a o j)
| P_cc a o : j_objs j !! a = Some o → o_new o = false →
    prim j (j_append (JCreateContract a) (put_obj a (o <| o_new := true |>) j))
| P_touch a o : a ≠ ripemd → j_objs j !! a = Some o → prim j (touch_change a j)
| P_other e j' : noncore e = true → sem_eq j' j → j_entries j' = e :: j_entries j → prim j j'.

Lemma prim_undo j j1 : wfc j → prim j j1 → core_eq (undo1 j1) j ∧ ∃ e, j_entries j1 = e :: j_entries j.
Proof.
  intros [W1 W2 W3] P. destruct P.
  - destruct (undo_create_object j a (W1 a) H) as [He Hu]. rewrite Hu. split; [done|by eexists].
  - destruct (undo_set_balance j a o v (W1 a) H) as [He Hu]. rewrite Hu. split; [done|by eexists].
  - destruct (undo_set_nonce j a o v (W1 a) H) as [He Hu]. rewrite Hu. split; [done|by eexists].
  - destruct (undo_set_code j a o v (W1 a) H) as [He Hu]. rewrite Hu. split; [done|by eexists].
  - destruct (undo_set_state j a o k v (W1 a) H) as [He Hu]; [intros d; by apply W2|].
    rewrite Hu. split; [done|by eexists].
  - destruct (undo_self_destruct j a o (W1 a) H H0) as [He Hu]. rewrite Hu. split; [done|by eexists].
  - destruct (undo_create_contract j a o H H0) as [He Hu]. rewrite Hu. split; [done|by eexists].
  - destruct (undo_touch j a (W1 a) H) as [He Hu]. rewrite Hu. split; [done|by eexists].
  - split; [|by eexists]. unfold undo1. rewrite H1.
    assert (Hm : mutation e = None) by (by destruct e).
    unfold unmutate. rewrite Hm.
    pose proof (revert_entry_sem_noncore e j' H) as Hs.
    split; [|by destruct (revert_entry e j')].
    eapply sem_eq_trans; [|exact H0]. eapply sem_eq_trans; [|exact Hs].
    by destruct (revert_entry e j').
Qed.
Lemma wfc_upd j j1 a o' :
  wfc j → j_db j1 = j_db j → j_destruct j1 = j_destruct j →
  j_objs j1 = <[a := o']> (j_objs j) → (∀ b, mloc j1 b) →
  (∀ k d, o_dirty o' !! k = Some d → d ≠ committed j1 a o' k) → wfc j1.
Proof.
  intros [W1 W2 W3] Hd Hx Ho Hm Hk. split; [done|..].
  - intros b o k d. rewrite Ho. destruct (decide (b = a)) as [->|Hne].
    + rewrite lookup_insert. intros [= <-]. apply Hk.
    + rewrite lookup_insert_ne //. intros H1 H2.
      replace (committed j1 b o k) with (committed j b o k); [by eapply W2|].
      unfold committed, db_stor. by rewrite Hd Hx.
  - intros b. rewrite Ho Hd Hx. destruct (decide (b = a)) as [->|Hne].
    + by rewrite lookup_insert.
    + rewrite lookup_insert_ne //. apply W3.
Qed.

Lemma committed_upd j j1 a o o' k :
  j_db j1 = j_db j → j_destruct j1 = j_destruct j → o_pending o' = o_pending o →
  committed j1 a o' k = committed j a o k.
Proof. intros Hd Hx Hp. unfold committed, db_stor. by rewrite Hd Hx Hp. Qed.

Local Ltac e3 x := destruct x; unf; rj; done.
Lemma prim_wfc j j1 : wfc j → prim j j1 → wfc j1.
Proof.
  intros W P. pose proof W as [W1 W2 W3]. destruct P.
  - apply (wfc_upd j _ a (new_object None)); [done|e3 j|e3 j|e3 j|..].
    + apply (mloc_upd j _ a KCreate 0); [done|]. e3 j.
    + intros k d. by rewrite lookup_empty.
  - apply (wfc_upd j _ a (o <| o_data ::= (λ d, d <| a_bal := v |>) |>)); [done|e3 j|e3 j|e3 j|..].
    + apply (mloc_upd j _ a KBalance (a_bal (o_data o))); [done|].
      destruct j; unf; rj. by rewrite lookup_insert insert_insert.
    + intros k d Hd. rewrite (committed_upd j _ a o); [e3 j|e3 j|by destruct o|].
      apply (W2 a o k d H). by destruct o.
  - apply (wfc_upd j _ a (o <| o_data ::= (λ d, d <| a_nonce := v |>) |>)); [done|e3 j|e3 j|e3 j|..].
    + apply (mloc_upd j _ a KNonce (a_nonce (o_data o))); [done|].
      destruct j; unf; rj. by rewrite lookup_insert insert_insert.
    + intros k d Hd. rewrite (committed_upd j _ a o); [e3 j|e3 j|by destruct o|].
      apply (W2 a o k d H). by destruct o.
  - apply (wfc_upd j _ a (o <| o_data ::= (λ d, d <| a_code := v |>) |>)); [done|e3 j|e3 j|e3 j|..].
    + apply (mloc_upd j _ a KCode (a_code (o_data o))); [done|].
      destruct j; unf; rj. by rewrite lookup_insert insert_insert.
    + intros k d Hd. rewrite (committed_upd j _ a o); [e3 j|e3 j|by destruct o|].
      apply (W2 a o k d H). by destruct o.
  - apply (wfc_upd j _ a (set_state k v (committed j a o k) o)); [done|e3 j|e3 j|e3 j|..].
    + apply (mloc_upd j _ a KStorage 0); [done|]. e3 j.
    + intros k' d. rewrite (committed_upd j _ a o); [e3 j|e3 j|unfold set_state; destruct (v =? committed j a o k); by destruct o|].
      unfold set_state. destruct (v =? committed j a o k) eqn:Ev.
      * destruct o; rs. intros [Hne Hl]%lookup_delete_Some. by eapply (W2 a _ k' d H).
      * destruct o; rs. destruct (decide (k' = k)) as [->|Hne].
        -- rewrite lookup_insert. intros [= <-]. by apply N.eqb_neq in Ev.
        -- rewrite lookup_insert_ne //. intros Hl. by eapply (W2 a _ k' d H).
  - apply (wfc_upd j _ a (o <| o_sd := true |>)); [done|e3 j|e3 j|e3 j|..].
    + apply (mloc_upd j _ a KSelfDestruct 0); [done|]. e3 j.
    + intros k d Hd. rewrite (committed_upd j _ a o); [e3 j|e3 j|by destruct o|].
      apply (W2 a o k d H). by destruct o.
  - apply (wfc_upd j _ a (o <| o_new := true |>)); [done|e3 j|e3 j|e3 j|..].
    + intros b m. replace (j_muts (j_append (JCreateContract a) (put_obj a (o <| o_new := true |>) j))) with (j_muts j); [apply W1|].
      e3 j.
    + intros k d Hd. rewrite (committed_upd j _ a o); [e3 j|e3 j|by destruct o|].
      apply (W2 a o k d H). by destruct o.
  - unfold touch_change. rewrite bool_decide_false //.
    apply (wfc_upd j _ a o); [done|e3 j|e3 j|..].
    + destruct j; unf; rj; simpl. by rewrite insert_id.
    + apply (mloc_upd j _ a KTouch 0); [done|]. e3 j.
    + intros k d Hd. rewrite (committed_upd j _ a o); [e3 j|e3 j|done|].
      by apply (W2 a o k d H0).
  - eapply wfc_sem; [apply sem_eq_sym; exact H0|done].
Qed.

(* ------------------------------------------------------------------ *)
(* forward reachability from the state at the start of a transaction *)
Inductive Fwd (s0 : jstate) : jstate → Prop :=
| Fwd0 j : core_eq j s0 → Fwd s0 j
| FwdS j j1 j' : Fwd s0 j → prim j j1 → core_eq j' j1 → Fwd s0 j'.

Lemma Fwd_proper s0 j j2 : Fwd s0 j → core_eq j2 j → Fwd s0 j2.
Proof.
  intros F H. destruct F as [j H0|j j1 j' F P H1].
  - apply Fwd0. by eapply core_eq_trans.
  - eapply FwdS; [exact F|exact P|by eapply core_eq_trans].
Qed.

Lemma fwd_prim s0 j j1 : Fwd s0 j → prim j j1 → Fwd s0 j1.
Proof. intros F P. eapply FwdS; [exact F|exact P|done]. Qed.

Lemma fwd_wfc s0 j : wfc s0 → Fwd s0 j → wfc j.
Proof.
  intros W0 F. induction F as [j H|j j1 j' F IH P H].
  - eapply wfc_sem; [apply sem_eq_sym, H|done].
  - eapply wfc_sem; [apply sem_eq_sym, H|]. by eapply prim_wfc.
Qed.

(* forward reachability is closed under one step of journal.revert, hence under
   RevertToSnapshot to any depth: every state a transaction can be in is one that the
   journalled calls alone could have produced *)
Lemma fwd_undo1 s0 j : wfc s0 → j_entries s0 = [] → Fwd s0 j → Fwd s0 (undo1 j).
Proof.
  intros W0 E0 F. destruct F as [j H|j j1 j' F P H].
  - assert (E : j_entries j = []) by (destruct H as [_ ->]; done).
    unfold undo1. rewrite E. by apply Fwd0.
  - eapply Fwd_proper; [exact F|].
    eapply core_eq_trans; [apply undo1_core, H|].
    apply prim_undo; [by eapply fwd_wfc|done].
Qed.

Lemma fwd_revert_n s0 n j : wfc s0 → j_entries s0 = [] → Fwd s0 j → Fwd s0 (revert_n n j).
Proof.
  intros W0 E0. revert j. induction n as [|n IH]; intros j F; [done|].
  rewrite revert_n_S. destruct (j_entries j); [done|]. by apply IH, fwd_undo1.
Qed.

Lemma fwd_gon s0 j a :
  wfc s0 → Fwd s0 j →
  Fwd s0 (get_or_new_j a j).1 ∧ j_objs (get_or_new_j a j).1 !! a = Some (get_or_new_j a j).2.
Proof.
  intros W0 F. unfold get_or_new_j. destruct (j_objs j !! a) as [o|] eqn:Ho; simpl; [done|].
  split; [by eapply fwd_prim, P_create|]. destruct j; unf; rj; simpl. by rewrite lookup_insert.
Qed.

Lemma fwd_other s0 j j' e :
  Fwd s0 j → noncore e = true → sem_eq j' j → j_entries j' = e :: j_entries j → Fwd s0 j'.
Proof. intros F N S E. eapply fwd_prim; [exact F|]. by eapply P_other. Qed.

Local Ltac oth x e := eapply (fwd_other _ _ _ e); [eassumption|done|destruct x; unf; rj; done|destruct x; unf; rj; done].

Theorem step_fwd s0 j o :
  wfc s0 → Fwd s0 j → core_op o = true → op_ok j o = true → sticky_j j o = false →
  Fwd s0 (step_j j o).1.
Proof.
  intros W0 F Hc Hok Hst. destruct o; try done; simpl in *.
  - apply bool_decide_eq_true in Hok. by eapply fwd_prim, P_create.
  - destruct (j_objs j !! a) as [o|] eqn:Ho; simpl; [|done].
    destruct (o_new o) eqn:Hn; simpl; [done|]. by eapply fwd_prim, P_cc.
  - destruct (fwd_gon s0 j a W0 F) as [F1 H1]. destruct (get_or_new_j a j) as [j1 o] eqn:Eg. simpl in *.
    destruct (v =? 0) eqn:Ev; simpl.
    + destruct (obj_empty o) eqn:Ee; [|done]. eapply fwd_prim; [exact F1|]. eapply P_touch; [|exact H1].
      intros ->. unfold get_or_new_j in Eg. rewrite bool_decide_true // in Hst. simpl in Hst.
      destruct (j_objs j !! ripemd) eqn:Ho; injection Eg as <- <-; [by rewrite Ee in Hst|done].
    + by eapply fwd_prim, P_bal.
  - destruct (fwd_gon s0 j a W0 F) as [F1 H1]. destruct (get_or_new_j a j) as [j1 o] eqn:Eg. simpl in *.
    destruct (v =? 0); simpl; [done|]. by eapply fwd_prim, P_bal.
  - destruct (fwd_gon s0 j a W0 F) as [F1 H1]. destruct (get_or_new_j a j) as [j1 o] eqn:Eg. simpl in *.
    by eapply fwd_prim, P_bal.
  - destruct (fwd_gon s0 j a W0 F) as [F1 H1]. destruct (get_or_new_j a j) as [j1 o] eqn:Eg. simpl in *.
    by eapply fwd_prim, P_nonce.
  - destruct (fwd_gon s0 j a W0 F) as [F1 H1]. destruct (get_or_new_j a j) as [j1 o] eqn:Eg. simpl in *.
    by eapply fwd_prim, P_code.
  - destruct (fwd_gon s0 j a W0 F) as [F1 H1]. destruct (get_or_new_j a j) as [j1 o] eqn:Eg. simpl in *.
    destruct (get_state j1 a o k =? v); simpl; [done|]. by eapply fwd_prim, P_state.
  - destruct (default 0 (j_tstor j !! (a, k)) =? v); simpl; [done|].
    oth j (JTransient a k (default 0 (j_tstor j !! (a, k)))).
  - destruct (j_objs j !! a) as [o|] eqn:Ho; simpl; [|done].
    destruct (o_sd o) eqn:Hs; simpl; [done|]. by eapply fwd_prim, P_sd.
  - destruct (j_objs j !! a) as [o|] eqn:Ho; simpl; [|done].
    destruct (o_new o && negb (o_sd o)) eqn:Hs; simpl; [|done].
    apply andb_true_iff in Hs as [_ Hs%negb_true_iff]. by eapply fwd_prim, P_sd.
  - unfold al_add_address. destruct (j_ala j !! a); simpl; [done|]. oth j (JALAddr a).
  - unfold al_add_slot. destruct (j_ala j !! a) as [idx|]; simpl.
    + destruct (idx =? -1)%Z; simpl; [oth j (JALSlot a k)|].
      destruct (j_als j !! Z.to_nat idx); simpl; [|eapply Fwd_proper; [exact F|by destruct j]].
      case_bool_decide; simpl; [done|]. oth j (JALSlot a k).
    + eapply (fwd_other _ (j_append (JALAddr a) (j <| j_ala ::= <[a := Z.of_nat (length (j_als j))]> |> <| j_als ::= (λ l, l ++ [{[k]}]) |>)) _ (JALSlot a k));
        [|done|destruct j; unf; rj; done|destruct j; unf; rj; done].
      oth j (JALAddr a).
  - oth j (JRefund (j_refund j)).
  - destruct (j_refund j <? g); simpl; oth j (JRefund (j_refund j)).
  - oth j (JAddLog (j_th j)).
Qed.

(* ------------------------------------------------------------------ *)
(* the stash invariant: what journal.mutations and the state objects say about the
   values at the start of the transaction *)
Definition pre_data (s0 : jstate) (a : addr) : acct := default acct0 (o_data <$> j_objs s0 !! a).
Definition pre_pend (s0 : jstate) (a : addr) : gmap slot word := default ∅ (o_pending <$> j_objs s0 !! a).

(* "a stash holds the pre-tx value whenever set; when it is not set the field still has
   its pre-tx value" *)
Definition stash_ok (s : option N) (cur pre : N) : Prop :=
  match s with Some v => v = pre | None => cur = pre end.

Definition Qa (s0 : jstate) (a : addr) (o : sobj) (m : mstate) (inm : bool) : Prop :=
  o_pending o = pre_pend s0 a
  ∧ stash_ok (s_bal m) (a_bal (o_data o)) (a_bal (pre_data s0 a))
  ∧ stash_ok (s_nonce m) (a_nonce (o_data o)) (a_nonce (pre_data s0 a))
  ∧ stash_ok (s_code m) (a_code (o_data o)) (a_code (pre_data s0 a))
  ∧ (inm = false → o_dirty o = ∅)
  ∧ (o_origin o = None → a ∈ j_destruct s0 ∨ j_db s0 !! a = None).

Definition in_muts (j : jstate) (a : addr) : bool := bool_decide (is_Some (j_muts j !! a)).

Record Q (s0 j : jstate) : Prop := {
  q_db : j_db j = j_db s0;
  q_destruct : j_destruct j = j_destruct s0;
  q_none : ∀ a, j_objs j !! a = None → j_objs s0 !! a = None ∧ j_muts j !! a = None;
  q_obj : ∀ a o, j_objs j !! a = Some o → Qa s0 a o (mstate_for a j) (in_muts j a)
}.

Lemma Q_sem s0 j j' : sem_eq j j' → Q s0 j → Q s0 j'.
Proof.
  intros (Hd & Ho & Hx & Hm) [Q1 Q2 Q3 Q4]. split.
  - by rewrite -Hd. - by rewrite -Hx.
  - intros a. rewrite -Ho -Hm. apply Q3.
  - intros a o. unfold mstate_for, in_muts. rewrite -Ho -Hm. apply Q4.
Qed.

Lemma Q_upd s0 j j1 a o' :
  Q s0 j → j_db j1 = j_db j → j_destruct j1 = j_destruct j → j_objs j1 = <[a := o']> (j_objs j) →
  (∀ b, b ≠ a → j_muts j1 !! b = j_muts j !! b) →
  Qa s0 a o' (mstate_for a j1) (in_muts j1 a) → Q s0 j1.
Proof.
  intros [Q1 Q2 Q3 Q4] Hd Hx Ho Hm Ha. split.
  - by rewrite Hd. - by rewrite Hx.
  - intros b. rewrite Ho. destruct (decide (b = a)) as [->|Hne]; [by rewrite lookup_insert|].
    rewrite lookup_insert_ne // Hm //. apply Q3.
  - intros b o. rewrite Ho. destruct (decide (b = a)) as [->|Hne].
    + rewrite lookup_insert. by intros [= <-].
    + rewrite lookup_insert_ne //. unfold mstate_for, in_muts. rewrite Hm //. apply Q4.
Qed.

Lemma s_add k m : s_bal (m_add k m) = s_bal m ∧ s_nonce (m_add k m) = s_nonce m ∧ s_code (m_add k m) = s_code m.
Proof. destruct m; destruct k; unfold m_add; rs; done. Qed.

Lemma stash_other k v m : k ≠ KBalance → k ≠ KNonce → k ≠ KCode → stash_k k v m = m.
Proof. destruct k; unfold stash_k; done. Qed.

Lemma in_muts_insert j1 j a m : j_muts j1 = <[a := m]> (j_muts j) → in_muts j1 a = true.
Proof. intros E. unfold in_muts. rewrite E lookup_insert. by apply bool_decide_eq_true. Qed.
Lemma mstate_for_insert j1 j a m : j_muts j1 = <[a := m]> (j_muts j) → mstate_for a j1 = m.
Proof. intros E. unfold mstate_for. by rewrite E lookup_insert. Qed.

Local Ltac e5 x := destruct x; unf; rj; done.
Local Ltac mne x := let b := fresh in let Hb := fresh in intros b Hb; destruct x; unf; rj; simpl; rewrite ?lookup_insert_ne //.

Lemma prim_Q s0 j j1 : wfc j → Q s0 j → prim j j1 → Q s0 j1.
Proof.
  intros W Hq P. pose proof Hq as [Q1 Q2 Q3 Q4]. destruct P.
  - (* create *)
    assert (E : j_muts (create_object a j) = <[a := m_add KCreate (stash_k KCreate 0 (mstate_for a j))]> (j_muts j)) by e5 j.
    destruct (Q3 a H) as [H0 Hm0].
    apply (Q_upd s0 j _ a (new_object None)); [done|e5 j|e5 j|e5 j|mne j|].
    rewrite (mstate_for_insert _ _ _ _ E) (in_muts_insert _ _ _ _ E).
    unfold Qa. destruct (s_add KCreate (stash_k KCreate 0 (mstate_for a j))) as (-> & -> & ->).
    rewrite stash_other //. unfold mstate_for. rewrite Hm0. unfold Qa, pre_pend, pre_data. rewrite H0. simpl.
    repeat split; try done. intros _. rewrite -Q1 -Q2. by apply W.
  - (* balance *)
    assert (E : j_muts (obj_set_balance a o v j) = <[a := m_add KBalance (stash_k KBalance (a_bal (o_data o)) (mstate_for a j))]> (j_muts j)).
    { destruct j; unf; rj. by rewrite lookup_insert insert_insert. }
    destruct (Q4 a o H) as (A1 & A2 & A3 & A4 & A5 & A6).
    apply (Q_upd s0 j _ a (o <| o_data ::= (λ d, d <| a_bal := v |>) |>)); [done|e5 j|e5 j|e5 j| |].
    { intros b Hb. destruct j; unf; rj; simpl. rewrite !lookup_insert_ne //. }
    rewrite (mstate_for_insert _ _ _ _ E) (in_muts_insert _ _ _ _ E).
    unfold Qa. destruct (s_add KBalance (stash_k KBalance (a_bal (o_data o)) (mstate_for a j))) as (-> & -> & ->).
    unfold Qa. destruct o as [oo [n b c] dd pp sd nw]; simpl in *. unfold stash_k.
    destruct (mstate_for a j) as [? ? ? ? ? ? ? sb sn sc]; simpl in *. destruct sb; rs; repeat split; done.
  - (* nonce *)
    assert (E : j_muts (obj_set_nonce a o v j) = <[a := m_add KNonce (stash_k KNonce (a_nonce (o_data o)) (mstate_for a j))]> (j_muts j)).
    { destruct j; unf; rj. by rewrite lookup_insert insert_insert. }
    destruct (Q4 a o H) as (A1 & A2 & A3 & A4 & A5 & A6).
    apply (Q_upd s0 j _ a (o <| o_data ::= (λ d, d <| a_nonce := v |>) |>)); [done|e5 j|e5 j|e5 j| |].
    { intros b Hb. destruct j; unf; rj; simpl. rewrite !lookup_insert_ne //. }
    rewrite (mstate_for_insert _ _ _ _ E) (in_muts_insert _ _ _ _ E).
    unfold Qa. destruct (s_add KNonce (stash_k KNonce (a_nonce (o_data o)) (mstate_for a j))) as (-> & -> & ->).
    unfold Qa. destruct o as [oo [n b c] dd pp sd nw]; simpl in *. unfold stash_k.
    destruct (mstate_for a j) as [? ? ? ? ? ? ? sb sn sc]; simpl in *. destruct sn; rs; repeat split; done.
  - (* code *)
    assert (E : j_muts (obj_set_code a o v j) = <[a := m_add KCode (stash_k KCode (a_code (o_data o)) (mstate_for a j))]> (j_muts j)).
    { destruct j; unf; rj. by rewrite lookup_insert insert_insert. }
    destruct (Q4 a o H) as (A1 & A2 & A3 & A4 & A5 & A6).
    apply (Q_upd s0 j _ a (o <| o_data ::= (λ d, d <| a_code := v |>) |>)); [done|e5 j|e5 j|e5 j| |].
    { intros b Hb. destruct j; unf; rj; simpl. rewrite !lookup_insert_ne //. }
    rewrite (mstate_for_insert _ _ _ _ E) (in_muts_insert _ _ _ _ E).
    unfold Qa. destruct (s_add KCode (stash_k KCode (a_code (o_data o)) (mstate_for a j))) as (-> & -> & ->).
    unfold Qa. destruct o as [oo [n b c] dd pp sd nw]; simpl in *. unfold stash_k.
    destruct (mstate_for a j) as [? ? ? ? ? ? ? sb sn sc]; simpl in *. destruct sc; rs; repeat split; done.
  - (* storage *)
    assert (E : j_muts (obj_set_state a o k v j) = <[a := m_add KStorage (stash_k KStorage 0 (mstate_for a j))]> (j_muts j)) by e5 j.
    destruct (Q4 a o H) as (A1 & A2 & A3 & A4 & A5 & A6).
    apply (Q_upd s0 j _ a (set_state k v (committed j a o k) o)); [done|e5 j|e5 j|e5 j|mne j|].
    rewrite (mstate_for_insert _ _ _ _ E) (in_muts_insert _ _ _ _ E).
    unfold Qa. destruct (s_add KStorage (stash_k KStorage 0 (mstate_for a j))) as (-> & -> & ->).
    rewrite stash_other //. unfold Qa, set_state. destruct (v =? committed j a o k); destruct o; rs; repeat split; done.
  - (* self-destruct *)
    assert (E : j_muts (obj_self_destruct a o j) = <[a := m_add KSelfDestruct (stash_k KSelfDestruct 0 (mstate_for a j))]> (j_muts j)) by e5 j.
    destruct (Q4 a o H) as (A1 & A2 & A3 & A4 & A5 & A6).
    apply (Q_upd s0 j _ a (o <| o_sd := true |>)); [done|e5 j|e5 j|e5 j|mne j|].
    rewrite (mstate_for_insert _ _ _ _ E) (in_muts_insert _ _ _ _ E).
    unfold Qa. destruct (s_add KSelfDestruct (stash_k KSelfDestruct 0 (mstate_for a j))) as (-> & -> & ->).
    rewrite stash_other //; try (destruct o; rs; repeat split; done).
  - (* create contract *)
    assert (E : j_muts (j_append (JCreateContract a) (put_obj a (o <| o_new := true |>) j)) = j_muts j) by e5 j.
    destruct (Q4 a o H) as (A1 & A2 & A3 & A4 & A5 & A6).
    apply (Q_upd s0 j _ a (o <| o_new := true |>)); [done|e5 j|e5 j|e5 j|by intros; rewrite E|].
    unfold mstate_for, in_muts. rewrite E. unfold Qa. destruct o; rs; repeat split; done.
  - (* touch *)
    unfold touch_change. rewrite bool_decide_false //.
    assert (E : j_muts (j_append (JTouch a) j) = <[a := m_add KTouch (stash_k KTouch 0 (mstate_for a j))]> (j_muts j)) by e5 j.
    destruct (Q4 a o H0) as (A1 & A2 & A3 & A4 & A5 & A6).
    apply (Q_upd s0 j _ a o); [done|e5 j|e5 j| |mne j|].
    { destruct j; unf; rj; simpl. by rewrite insert_id. }
    rewrite (mstate_for_insert _ _ _ _ E) (in_muts_insert _ _ _ _ E).
    unfold Qa. destruct (s_add KTouch (stash_k KTouch 0 (mstate_for a j))) as (-> & -> & ->).
    rewrite stash_other //.
  - eapply Q_sem; [apply sem_eq_sym; exact H0|done].
Qed.

Theorem fwd_Q s0 j : wfc s0 → Q s0 s0 → Fwd s0 j → Q s0 j.
Proof.
  intros W0 Q0 F. induction F as [j H|j j1 j' F IH P H].
  - eapply Q_sem; [apply sem_eq_sym, H|done].
  - eapply Q_sem; [apply sem_eq_sym, H|]. eapply prim_Q; [by eapply fwd_wfc|exact IH|exact P].
Qed.

(* ------------------------------------------------------------------ *)
(* the body of a transaction, at the level of the recording StateDB *)
Definition body_op (j : jstate) (o : bop) : Prop :=
  match o with
  | BGet _ => True
  | BOp OSnapshot => True
  | BOp (ORevert _) => True
  | BOp (OFinalise _) => False
  | BOp (OTxStart _ _ _ _ _ _ _) => False
  | BOp o => core_op o = true ∧ op_ok j o = true ∧ sticky_j j o = false
  | BSetTx _ _ _ => False
  | BPrepare _ _ _ _ _ => False
  end.

Fixpoint body_ok (b : bstate) (ops : list bop) : Prop :=
  match ops with
  | [] => True
  | o :: rest => body_op (b_j b) o ∧ body_ok (step_b b o).1 rest
  end.

Lemma fwd_rec s0 f b : Fwd s0 (b_j b) → Fwd s0 (b_j (rec f b)).
Proof. by destruct b. Qed.

Lemma step_b_fwd s0 b o :
  wfc s0 → j_entries s0 = [] → Fwd s0 (b_j b) → body_op (b_j b) o → Fwd s0 (b_j (step_b b o).1).
Proof.
  intros W0 E0 F Hb. destruct o as [o| | |q]; try done.
  - destruct o; try done; simpl in Hb;
      try (destruct Hb as (Hc & Hok & Hst); unfold step_b;
           match goal with |- context [step_j ?j ?o] =>
             pose proof (step_fwd s0 j o W0 F Hc Hok Hst) as F1; destruct (step_j j o) as [j1 w] end;
           apply fwd_rec; destruct b; exact F1).
    + (* Snapshot *) destruct b as [j ? ?]; simpl in *.
      eapply Fwd_proper; [exact F|]. by destruct j.
    + (* Revert *) destruct b as [j ? ?]; simpl in *.
      destruct (find_revision id (j_revs j)) as [[idx rest]|]; simpl; [|done].
      eapply Fwd_proper; [apply (fwd_revert_n s0 (length (j_entries j) - idx) j W0 E0 F)|].
      unfold revert_to. by destruct (revert_n (length (j_entries j) - idx) j).
Qed.

Theorem run_b_fwd s0 b ops :
  wfc s0 → j_entries s0 = [] → Fwd s0 (b_j b) → body_ok b ops → Fwd s0 (b_j (run_b b ops)).
Proof.
  intros W0 E0. revert b. induction ops as [|o rest IH]; intros b F H; [done|].
  destruct H as [H1 H2]. simpl. apply IH; [|done]. by apply step_b_fwd.
Qed.

(* the state between two transactions: journal reset, nothing dirty *)
Record tx_boundary (j : jstate) : Prop := {
  tb_wfc : wfc j;
  tb_entries : j_entries j = [];
  tb_muts : j_muts j = ∅;
  tb_dirty : ∀ a o, j_objs j !! a = Some o → o_dirty o = ∅;
  tb_origin : ∀ a o, j_objs j !! a = Some o → o_origin o = None → a ∈ j_destruct j ∨ j_db j !! a = None
}.

Lemma Q_start s0 : tx_boundary s0 → Q s0 s0.
Proof.
  intros [W E M D O]. split; [done|done|..].
  - intros a H. split; [done|]. by rewrite M.
  - intros a o H. unfold Qa, mstate_for, pre_pend, pre_data. rewrite M lookup_empty H. simpl.
    repeat split; try done. + intros _. by eapply D. + by eapply O.
Qed.

Lemma tx_boundary_init db : tx_boundary (init_j db).
Proof.
  split; simpl; try done.
  - split; simpl.
    + intros a m. by rewrite lookup_empty.
    + intros a o k d (x & <- & _)%lookup_fmap_Some Hd. simpl in Hd. by apply lookup_empty_Some in Hd.
    + intros a. rewrite lookup_fmap fmap_None. by right.
  - intros a o (x & <- & _)%lookup_fmap_Some. done.
  - intros a o (x & <- & _)%lookup_fmap_Some. done.
Qed.

(* The stash invariant at every point of every transaction: whatever journalled calls,
   getters, Snapshots and RevertToSnapshots (to any live id, nested to any depth) a
   transaction body consists of, journal.mutations and the state objects satisfy Q. *)
Theorem stash_invariant s0 b ops :
  tx_boundary s0 → core_eq (b_j b) s0 → body_ok b ops → Q s0 (b_j (run_b b ops)) ∧ wfc (b_j (run_b b ops)).
Proof.
  intros T H Hb. pose proof T as [W E _ _ _].
  assert (F : Fwd s0 (b_j (run_b b ops))) by (apply run_b_fwd; [done|done|by apply Fwd0|done]).
  split; [apply fwd_Q; [done|by apply Q_start|done]|by eapply fwd_wfc].
Qed.

(* ------------------------------------------------------------------ *)
(* one iteration of finaliseAmsterdam's loop: the account fields *)
Definition obal (oc : option caccess) : gmap N word := default ∅ (ca_bal <$> oc).
Definition ononce (oc : option caccess) : gmap N N := default ∅ (ca_nonce <$> oc).
Definition ocode (oc : option caccess) : gmap N N := default ∅ (ca_code <$> oc).

Lemma fin_writes_fields idx d oc :
  obal (fin_writes idx d oc) = obal oc ∧ ononce (fin_writes idx d oc) = ononce oc ∧ ocode (fin_writes idx d oc) = ocode oc.
Proof. unfold fin_writes. case_bool_decide; [done|]. by destruct oc. Qed.

Definition upd_if (idx post pre : N) (m : gmap N N) : gmap N N :=
  if post =? pre then m else <[idx := post]> m.

Lemma rec_changes_spec idx m post oc (pre : acct) :
  let d := match post with Some o => o_data o | None => acct0 end in
  (∀ v, s_bal m = Some v → v = a_bal pre) → (s_bal m = None → a_bal d = a_bal pre) →
  (∀ v, s_nonce m = Some v → v = a_nonce pre) → (s_nonce m = None → a_nonce d = a_nonce pre) →
  (∀ v, s_code m = Some v → v = a_code pre) → (s_code m = None → a_code d = a_code pre) →
  obal (rec_changes idx m post oc) = upd_if idx (a_bal d) (a_bal pre) (obal oc)
  ∧ ononce (rec_changes idx m post oc) = upd_if idx (a_nonce d) (a_nonce pre) (ononce oc)
  ∧ ocode (rec_changes idx m post oc) = upd_if idx (a_code d) (a_code pre) (ocode oc).
Proof.
  intros d B1 B2 N1 N2 C1 C2. unfold rec_changes, upd_if. fold d.
  destruct (s_bal m) as [pb|]; [rewrite -(B1 pb eq_refl)|rewrite (B2 eq_refl) N.eqb_refl];
  (destruct (s_nonce m) as [pn|]; [rewrite -(N1 pn eq_refl)|rewrite (N2 eq_refl) N.eqb_refl]);
  (destruct (s_code m) as [pc|]; [rewrite -(C1 pc eq_refl)|rewrite (C2 eq_refl) N.eqb_refl]);
  repeat match goal with |- context [?x =? ?y] => destruct (x =? y) end; by destruct oc.
Qed.

(* Guard of the net-change statement at Finalise (established by the EVM: only contracts
   created in the same transaction self-destruct, EIP-6780 + the create collision rules):
   a self-destructed object had nonce 0 and no code before the transaction, and the
   account its origin describes is blank *)
Definition sd_guard (s0 j : jstate) (a : addr) (o : sobj) : Prop :=
  o_sd o = true →
  a_nonce (pre_data s0 a) = 0 ∧ a_code (pre_data s0 a) = 0 ∧
  match o_origin o with Some x => a_nonce x = 0 ∧ a_code x = 0 | None => True end.

Theorem fin_rec_fields s0 j r idx a o oc :
  Q s0 j → j_objs j !! a = Some o → rAms r = true → sd_guard s0 j a o →
  let d := match fin_obj r o with Some o' => o_data o' | None => acct0 end in
  let oc' := fin_rec r idx (mstate_for a j) o oc in
  obal oc' = upd_if idx (a_bal d) (a_bal (pre_data s0 a)) (obal oc)
  ∧ ononce oc' = upd_if idx (a_nonce d) (a_nonce (pre_data s0 a)) (ononce oc)
  ∧ ocode oc' = upd_if idx (a_code d) (a_code (pre_data s0 a)) (ocode oc).
Proof.
  intros Hq Ho Hr Hg d oc'. destruct (q_obj _ _ Hq a o Ho) as (A1 & A2 & A3 & A4 & A5 & A6).
  subst oc'. unfold fin_rec.
  set (oc1 := if o_sd o then oc else if r158 r && obj_empty o then oc else fin_writes idx (o_dirty o) oc).
  assert (E1 : obal oc1 = obal oc ∧ ononce oc1 = ononce oc ∧ ocode oc1 = ocode oc).
  { subst oc1. destruct (o_sd o); [done|]. destruct (r158 r && obj_empty o); [done|]. apply fin_writes_fields. }
  destruct E1 as (<- & <- & <-).
  unfold stash_ok in A2, A3, A4.
  apply rec_changes_spec; fold d.
  - intros v E. by rewrite E in A2.
  - intros E. rewrite E in A2. rewrite -A2. subst d. unfold fin_obj. rewrite Hr.
    destruct (o_sd o); [destruct (a_bal (o_data o) =? 0) eqn:Eb; simpl; [by apply N.eqb_eq in Eb|by destruct (o_origin o)]|].
    destruct (r158 r && obj_empty o) eqn:Ee; [|by destruct o].
    apply andb_true_iff in Ee as [_ Ee]. unfold obj_empty, acct_empty in Ee.
    apply andb_true_iff in Ee as [Ee _]. apply andb_true_iff in Ee as [_ Ee]. by apply N.eqb_eq in Ee.
  - intros v E. by rewrite E in A3.
  - intros E. rewrite E in A3. subst d. unfold fin_obj. rewrite Hr.
    destruct (o_sd o) eqn:Es.
    { destruct (Hg Es) as (G1 & G2 & G3). rewrite G1.
      destruct (a_bal (o_data o) =? 0); simpl; [done|]. by destruct (o_origin o) as [x|]; [destruct G3|]. }
    rewrite -A3. destruct (r158 r && obj_empty o) eqn:Ee; [|by destruct o].
    apply andb_true_iff in Ee as [_ Ee]. unfold obj_empty, acct_empty in Ee.
    apply andb_true_iff in Ee as [Ee _]. apply andb_true_iff in Ee as [Ee _]. by apply N.eqb_eq in Ee.
  - intros v E. by rewrite E in A4.
  - intros E. rewrite E in A4. subst d. unfold fin_obj. rewrite Hr.
    destruct (o_sd o) eqn:Es.
    { destruct (Hg Es) as (G1 & G2 & G3). rewrite G2.
      destruct (a_bal (o_data o) =? 0); simpl; [done|]. by destruct (o_origin o) as [x|]; [destruct G3|]. }
    rewrite -A4. destruct (r158 r && obj_empty o) eqn:Ee; [|by destruct o].
    apply andb_true_iff in Ee as [_ Ee]. unfold obj_empty, acct_empty in Ee.
    apply andb_true_iff in Ee as [_ Ee]. by apply N.eqb_eq in Ee.
Qed.

(* the loop as a whole is this iteration at every address of journal.mutations whose
   object exists, and the identity elsewhere *)
Lemma fin_bal_lookup r idx j L a :
  fin_bal r idx j L !! a =
    match j_muts j !! a, j_objs j !! a with
    | Some m, Some o => fin_rec r idx m o (L !! a)
    | _, _ => L !! a
    end.
Proof.
  unfold fin_bal. rewrite lookup_merge lookup_merge.
  destruct (j_muts j !! a) as [m|]; destruct (j_objs j !! a) as [o|]; destruct (L !! a) eqn:EL; simpl; rewrite ?EL; done.
Qed.

(* ------------------------------------------------------------------ *)
(* storage: a slot is dirty at the end of the transaction exactly when its value differs
   from the value at the start of the transaction (A -> B -> A leaves no dirty entry) *)
Definition view_state (j : jstate) (a : addr) (k : slot) : word :=
  match j_objs j !! a with Some o => get_state j a o k | None => 0 end.

Lemma committed_pre s0 j a o k :
  tx_boundary s0 → Q s0 j → j_objs j !! a = Some o → committed j a o k = view_state s0 a k.
Proof.
  intros T Hq Ho. destruct (q_obj _ _ Hq a o Ho) as (A1 & _). pose proof Hq as [Qd Qx _ _].
  unfold view_state, committed, db_stor. rewrite A1 Qd Qx. unfold pre_pend.
  destruct (j_objs s0 !! a) as [o0|] eqn:E0; simpl.
  - unfold get_state. rewrite (tb_dirty _ T a o0 E0) lookup_empty. done.
  - rewrite lookup_empty. destruct (wc_eager _ (tb_wfc _ T) a E0) as [Hx|Hd].
    + by rewrite bool_decide_true.
    + rewrite Hd. by case_bool_decide.
Qed.

Theorem dirty_iff_changed s0 j a o k v :
  tx_boundary s0 → Q s0 j → wfc j → j_objs j !! a = Some o →
  o_dirty o !! k = Some v ↔ view_state j a k = v ∧ v ≠ view_state s0 a k.
Proof.
  intros T Hq W Ho. rewrite -(committed_pre s0 j a o k T Hq Ho). unfold view_state. rewrite Ho. unfold get_state.
  split.
  - intros Hd. rewrite Hd. split; [done|]. by eapply (wc_dirty _ W).
  - destruct (o_dirty o !! k) as [d|]; intros [H1 H2]; [by subst|by subst].
Qed.

(* stateObject.finalise records one write per dirty slot and removes those slots from the reads *)
Definition owrites (oc : option caccess) : gmap slot (gmap N word) := default ∅ (ca_writes <$> oc).
Definition oreads (oc : option caccess) : gset slot := default ∅ (ca_reads <$> oc).

Lemma fin_writes_spec idx dirty oc k :
  owrites (fin_writes idx dirty oc) !! k =
    match dirty !! k with
    | Some v => Some (<[idx := v]> (default ∅ (owrites oc !! k)))
    | None => owrites oc !! k
    end
  ∧ oreads (fin_writes idx dirty oc) = oreads oc ∖ dom dirty.
Proof.
  unfold fin_writes. case_bool_decide as E.
  - subst. rewrite lookup_empty dom_empty_L. split; [done|]. set_solver.
  - unfold acc_upd, owrites, oreads, ca_fin_writes. simpl.
    assert (E1 : ca_writes (default ca0 oc) = default ∅ (ca_writes <$> oc)) by (by destruct oc).
    assert (E2 : ca_reads (default ca0 oc) = default ∅ (ca_reads <$> oc)) by (by destruct oc).
    destruct (default ca0 oc) as [w rd b n c]; simpl in *. subst. split; [|done].
    rewrite lookup_merge. destruct (dirty !! k); destruct (default ∅ (ca_writes <$> oc) !! k); done.
Qed.

(* ------------------------------------------------------------------ *)
(* ToEncodingObj: strictly ascending (hence duplicate-free) at every level *)
Definition ltk {A} (key : A → N) (x y : A) : Prop := key x < key y.

Lemma ss_le_nodup_lt (l : list N) : StronglySorted N.le l → NoDup l → StronglySorted N.lt l.
Proof.
  induction 1 as [|x l Hs IH Hf]; intros Hn; [constructor|].
  apply NoDup_cons in Hn as [Hx Hn]. constructor; [by apply IH|].
  apply Forall_forall. intros y Hy. rewrite Forall_forall in Hf. specialize (Hf y Hy).
  assert (x ≠ y) by (intros ->; done). lia.
Qed.

Lemma sorted_keys_ss {V} (m : gmap N V) : StronglySorted N.lt (sorted_keys m).
Proof.
  unfold sorted_keys. apply ss_le_nodup_lt.
  - apply (StronglySorted_merge_sort N.le).
  - rewrite merge_sort_Permutation. apply NoDup_fst_map_to_list.
Qed.

Lemma sorted_elems_ss (s : gset N) : StronglySorted N.lt (sorted_elems s).
Proof.
  unfold sorted_elems. apply ss_le_nodup_lt.
  - apply (StronglySorted_merge_sort N.le).
  - rewrite merge_sort_Permutation. apply NoDup_elements.
Qed.

Lemma omap_ss {A} (key : A → N) (g : N → option A) (l : list N) :
  (∀ a y, g a = Some y → key y = a) → StronglySorted N.lt l → StronglySorted (ltk key) (omap g l).
Proof.
  intros Hk. induction 1 as [|x l Hs IH Hf]; simpl; [constructor|].
  destruct (g x) as [y|] eqn:E; [|done]. constructor; [done|].
  apply Forall_forall. intros z Hz. apply elem_of_list_omap in Hz as (a & Ha & Hg).
  rewrite Forall_forall in Hf. unfold ltk. rewrite (Hk _ _ E) (Hk _ _ Hg). by apply Hf.
Qed.

Lemma sorted_pairs_ss {V W} (f : V → W) (m : gmap N V) : StronglySorted (ltk fst) (sorted_pairs f m).
Proof.
  unfold sorted_pairs. apply omap_ss; [|apply sorted_keys_ss].
  intros a y. destruct (m !! a); simpl; [|done]. by intros [= <-].
Qed.

(* every level of the encoding object of ANY construction list is strictly ascending *)
Theorem to_encoding_sorted code_of (L : cbal) :
  StronglySorted (ltk aa_addr) (to_encoding_obj code_of L)
  ∧ Forall (λ e, StronglySorted (ltk fst) (aa_changes e)
                 ∧ Forall (λ sc, StronglySorted (ltk fst) (snd sc)) (aa_changes e)
                 ∧ StronglySorted N.lt (aa_reads e)
                 ∧ StronglySorted (ltk fst) (aa_bal e) ∧ StronglySorted (ltk fst) (aa_nonce e)
                 ∧ StronglySorted (ltk fst) (aa_code e)) (to_encoding_obj code_of L).
Proof.
  split.
  - unfold to_encoding_obj. apply omap_ss; [|apply sorted_keys_ss].
    intros a y. destruct (L !! a) eqn:EL; rewrite ?EL; simpl; [|done]. by intros [= <-].
  - apply Forall_forall. intros e He. unfold to_encoding_obj in He.
    apply elem_of_list_omap in He as (a & _ & Hg). destruct (L !! a) as [c|] eqn:EL; rewrite ?EL in Hg; simpl in Hg; [|done]. injection Hg as <-.
    simpl. repeat split; try apply sorted_pairs_ss; try apply sorted_elems_ss.
    apply Forall_forall. intros sc Hsc. unfold sorted_pairs in Hsc.
    apply elem_of_list_omap in Hsc as (k & _ & Hk). destruct (ca_writes c !! k) eqn:Ew; rewrite ?Ew in Hk; simpl in Hk; [|done]. injection Hk as <-.
    apply sorted_pairs_ss.
Qed.

(* ------------------------------------------------------------------ *)
(* assembled statements *)
Theorem net_changes_fields s0 b ops r idx L a :
  tx_boundary s0 → core_eq (b_j b) s0 → body_ok b ops → rAms r = true →
  let j := b_j (run_b b ops) in
  (∀ o, j_objs j !! a = Some o → sd_guard s0 j a o) →
  let R := fin_bal r idx j L in
  match j_muts j !! a, j_objs j !! a with
  | Some m, Some o =>
      let d := match fin_obj r o with Some o' => o_data o' | None => acct0 end in
      obal (R !! a) = upd_if idx (a_bal d) (a_bal (pre_data s0 a)) (obal (L !! a))
      ∧ ononce (R !! a) = upd_if idx (a_nonce d) (a_nonce (pre_data s0 a)) (ononce (L !! a))
      ∧ ocode (R !! a) = upd_if idx (a_code d) (a_code (pre_data s0 a)) (ocode (L !! a))
  | _, _ => R !! a = L !! a
  end.
Proof.
  intros T H Hb Hr j Hg R. destruct (stash_invariant s0 b ops T H Hb) as [Hq W]. fold j in Hq, W.
  subst R. rewrite fin_bal_lookup.
  destruct (j_muts j !! a) as [m|] eqn:Em; destruct (j_objs j !! a) as [o|] eqn:Eo; try done.
  assert (Emm : m = mstate_for a j) by (unfold mstate_for; by rewrite Em). subst m.
  by apply (fin_rec_fields s0 j r idx a o (L !! a) Hq Eo Hr (Hg o eq_refl)).
Qed.

Theorem storage_net_writes s0 b ops a o k v :
  tx_boundary s0 → core_eq (b_j b) s0 → body_ok b ops →
  let j := b_j (run_b b ops) in
  j_objs j !! a = Some o →
  (o_dirty o !! k = Some v ↔ view_state j a k = v ∧ v ≠ view_state s0 a k).
Proof.
  intros T H Hb j Ho. destruct (stash_invariant s0 b ops T H Hb) as [Hq W].
  by apply dirty_iff_changed.
Qed.

(* a concrete history for the non-vacuity example: balance change; slot 0 A->B->A;
   slot 1 written in a reverted frame; slot 2 and account 2 only read *)
Definition r_ams : rules := {| r158 := true; rAms := true; r2929 := true; rShanghai := true |}.
Definition sample_ops : list bop :=
  [BSetTx 1 0 1; BPrepare r_ams 1 2 None []; BOp (OSetBalance 1 5); BOp (OSetState 1 0 9); BOp OSnapshot;
   BOp (OSetState 1 1 7); BOp (ORevert 0); BOp (OSetState 1 0 0); BOp (OSetState 1 3 4); BGet (QBalance 2);
   BGet (QState 1 2); BOp (OFinalise r_ams)].
Definition sample_ret : option cbal :=
  match foldl (λ bw o, step_b bw.1 o) (init_b ∅, BOut RNone) sample_ops with
  | (_, BFin r) => r
  | _ => None
  end.
Definition sample_expected : bal :=
  [ {| aa_addr := 1; aa_changes := [(3, [(1, 4)])]; aa_reads := [0; 1; 2]; aa_bal := [(1, 5)]; aa_nonce := []; aa_code := [] |};
    {| aa_addr := 2; aa_changes := []; aa_reads := []; aa_bal := []; aa_nonce := []; aa_code := [] |} ].
Definition sample_history_check : bool :=
  match sample_ret with
  | Some L => bool_decide (encode (to_encoding_obj (λ _, []) L) = encode sample_expected)
  | None => false
  end.
