(* State/BalProofs.v — proofs about State/Bal.v over the C13 implementation model.
   Part 1: the stash invariant of journal.mutations through arbitrary nested
           Snapshot/RevertToSnapshot (forward-reachability is closed under journal undo).
   Part 2: finaliseAmsterdam records exactly the net changes.
   Part 3: ToEncodingObj is strictly sorted; Validate accepts constructed lists. *)
From Coq Require Import ssreflect.
From stdpp Require Import gmap sorting.
From Coq Require Import NArith ZArith Lia.
From RecordUpdate Require Import RecordSet.
Import RecordSetNotations.
From GV Require Import State.Ref State.Journal State.JournalProofs State.BalEnc State.Bal.
Local Open Scope N_scope.

(* ------------------------------------------------------------------ *)
(* the part of the StateDB the block access list depends on *)
Definition sem_eq (j j' : jstate) : Prop :=
  j_db j = j_db j' ∧ j_objs j = j_objs j' ∧ j_destruct j = j_destruct j' ∧ j_muts j = j_muts j'.
Definition core_eq (j j' : jstate) : Prop := sem_eq j j' ∧ j_entries j = j_entries j'.

Lemma sem_eq_refl j : sem_eq j j. Proof. done. Qed.
Lemma sem_eq_sym j j' : sem_eq j j' → sem_eq j' j. Proof. intros (?&?&?&?). done. Qed.
Lemma sem_eq_trans j1 j2 j3 : sem_eq j1 j2 → sem_eq j2 j3 → sem_eq j1 j3.
Proof. intros (?&?&?&?) (?&?&?&?). repeat split; congruence. Qed.
Lemma core_eq_refl j : core_eq j j. Proof. done. Qed.
Lemma core_eq_sym j j' : core_eq j j' → core_eq j' j. Proof. intros [? ?]. split; [by apply sem_eq_sym|done]. Qed.
Lemma core_eq_trans j1 j2 j3 : core_eq j1 j2 → core_eq j2 j3 → core_eq j1 j3.
Proof. intros [? ?] [? ?]. split; [by eapply sem_eq_trans|congruence]. Qed.

(* entries that do not dereference state objects *)
Definition noncore (e : jentry) : bool :=
  match e with JRefund _ | JAddLog _ | JALAddr _ | JALSlot _ _ | JTransient _ _ _ => true | _ => false end.

Lemma revert_entry_sem_noncore e j : noncore e = true → sem_eq (revert_entry e j) j.
Proof.
  destruct e; try done; intros _; simpl; unfold al_delete_slot; rs; repeat case_match; rs; done.
Qed.

Lemma revert_entry_sem e j j' : sem_eq j j' → sem_eq (revert_entry e j) (revert_entry e j').
Proof.
  intros H. destruct (noncore e) eqn:N.
  { eapply sem_eq_trans; [by apply revert_entry_sem_noncore|].
    eapply sem_eq_trans; [exact H|]. by apply sem_eq_sym, revert_entry_sem_noncore. }
  destruct H as (Hd & Ho & Hx & Hm).
  destruct e; try done; simpl; unfold with_obj; rewrite -?Ho;
    repeat case_match; rs; unfold sem_eq; simpl; rewrite ?Hd ?Hx ?Hm -?Ho; done.
Qed.

Lemma unmutate_sem e j j' : sem_eq j j' → sem_eq (unmutate e j) (unmutate e j').
Proof.
  intros (Hd & Ho & Hx & Hm). unfold unmutate. destruct (mutation e) as [[a k]|]; [|done].
  rewrite -Hm. destruct (j_muts j !! a) as [m|]; [|rs; done].
  destruct (m_remove k m) as [m' []]; rs; unfold sem_eq; simpl; rewrite ?Hd ?Hx ?Hm -?Ho; done.
Qed.

Lemma undo1_core j j' : core_eq j j' → core_eq (undo1 j) (undo1 j').
Proof.
  intros [H He]. unfold undo1. rewrite -He. destruct (j_entries j) as [|e rest] eqn:E; [split; [exact H|cbv iota; congruence]|].
  pose proof (unmutate_sem e _ _ (revert_entry_sem e _ _ H)) as (?&?&?&?).
  split; [|done]. rs. done.
Qed.

Lemma revert_n_core n j j' : core_eq j j' → core_eq (revert_n n j) (revert_n n j').
Proof.
  revert j j'. induction n as [|n IH]; intros j j' H; [done|]. rewrite !revert_n_S.
  pose proof H as [Hs He]. rewrite -He. destruct (j_entries j) eqn:E; [done|].
  apply IH, undo1_core. done.
Qed.
