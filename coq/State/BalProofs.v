(* State/BalProofs.v — proofs about State/Bal.v over the C13 implementation model.
   Part 1: the stash invariant of journal.mutations through arbitrary nested
           Snapshot/RevertToSnapshot (forward-reachability is closed under journal undo).
   Part 2: finaliseAmsterdam records exactly the net changes.
   Part 3: ToEncodingObj is strictly sorted; Validate accepts constructed lists. *)
From Coq Require Import ssreflect.
From stdpp Require Import gmap sorting.
From Coq Require Import NArith ZArith Lia.
From RecordUpdate Require Import RecordSet.
Import RecordSetNotations.
From GV Require Import State.Ref State.Journal State.JournalProofs State.BalEnc State.Bal.
Local Open Scope N_scope.

(* ------------------------------------------------------------------ *)
(* the part of the StateDB the block access list depends on *)
Definition sem_eq (j j' : jstate) : Prop :=
  j_db j = j_db j' ∧ j_objs j = j_objs j' ∧ j_destruct j = j_destruct j' ∧ j_muts j = j_muts j'.
Definition core_eq (j j' : jstate) : Prop := sem_eq j j' ∧ j_entries j = j_entries j'.

Lemma sem_eq_refl j : sem_eq j j. Proof. done. Qed.
Lemma sem_eq_sym j j' : sem_eq j j' → sem_eq j' j. Proof. intros (?&?&?&?). done. Qed.
Lemma sem_eq_trans j1 j2 j3 : sem_eq j1 j2 → sem_eq j2 j3 → sem_eq j1 j3.
Proof. intros (?&?&?&?) (?&?&?&?). repeat split; congruence. Qed.
Lemma core_eq_refl j : core_eq j j. Proof. done. Qed.
Lemma core_eq_sym j j' : core_eq j j' → core_eq j' j. Proof. intros [? ?]. split; [by apply sem_eq_sym|done]. Qed.
Lemma core_eq_trans j1 j2 j3 : core_eq j1 j2 → core_eq j2 j3 → core_eq j1 j3.
Proof. intros [? ?] [? ?]. split; [by eapply sem_eq_trans|congruence]. Qed.

(* entries that do not dereference state objects *)
Definition noncore (e : jentry) : bool :=
  match e with JRefund _ | JAddLog _ | JALAddr _ | JALSlot _ _ | JTransient _ _ _ => true | _ => false end.

Lemma revert_entry_sem_noncore e j : noncore e = true → sem_eq (revert_entry e j) j.
Proof.
  destruct e; try done; intros _; simpl; unfold al_delete_slot; rs; repeat case_match; rs; done.
Qed.

Lemma revert_entry_sem e j j' : sem_eq j j' → sem_eq (revert_entry e j) (revert_entry e j').
Proof.
  intros H. destruct (noncore e) eqn:N.
  { eapply sem_eq_trans; [by apply revert_entry_sem_noncore|].
    eapply sem_eq_trans; [exact H|]. by apply sem_eq_sym, revert_entry_sem_noncore. }
  destruct H as (Hd & Ho & Hx & Hm).
  destruct e; try done; simpl; unfold with_obj; rewrite -?Ho;
    repeat case_match; rs; unfold sem_eq; simpl; rewrite ?Hd ?Hx ?Hm -?Ho; done.
Qed.

Lemma unmutate_sem e j j' : sem_eq j j' → sem_eq (unmutate e j) (unmutate e j').
Proof.
  intros (Hd & Ho & Hx & Hm). unfold unmutate. destruct (mutation e) as [[a k]|]; [|done].
  rewrite -Hm. destruct (j_muts j !! a) as [m|]; [|rs; done].
  destruct (m_remove k m) as [m' []]; rs; unfold sem_eq; simpl; rewrite ?Hd ?Hx ?Hm -?Ho; done.
Qed.

Lemma undo1_core j j' : core_eq j j' → core_eq (undo1 j) (undo1 j').
Proof.
  intros [H He]. unfold undo1. rewrite -He. destruct (j_entries j) as [|e rest] eqn:E; [split; [exact H|cbv iota; congruence]|].
  pose proof (unmutate_sem e _ _ (revert_entry_sem e _ _ H)) as (?&?&?&?).
  split; [|done]. rs. done.
Qed.

Lemma revert_n_core n j j' : core_eq j j' → core_eq (revert_n n j) (revert_n n j').
Proof.
  revert j j'. induction n as [|n IH]; intros j j' H; [done|]. rewrite !revert_n_S.
  pose proof H as [Hs He]. rewrite -He. destruct (j_entries j) eqn:E; [done|].
  apply IH, undo1_core. done.
Qed.

(* ------------------------------------------------------------------ *)
(* well-formedness of the part of the state the access list depends on *)
Record wfc (j : jstate) : Prop := {
  wc_muts : ∀ a, mloc j a;
  wc_dirty : ∀ a o k d, j_objs j !! a = Some o → o_dirty o !! k = Some d → d ≠ committed j a o k;
  wc_eager : ∀ a, j_objs j !! a = None → a ∈ j_destruct j ∨ j_db j !! a = None
}.

Lemma committed_sem j j' a o k : sem_eq j j' → committed j a o k = committed j' a o k.
Proof. intros (Hd & _ & Hx & _). unfold committed, db_stor. by rewrite Hd Hx. Qed.

Lemma wfc_sem j j' : sem_eq j j' → wfc j → wfc j'.
Proof.
  intros H [W1 W2 W3]. pose proof H as (Hd & Ho & Hx & Hm). split.
  - intros a m. unfold mloc in W1. rewrite -Hm. apply W1.
  - intros a o k d. rewrite -Ho -(committed_sem j j') //. apply W2.
  - intros a. rewrite -Ho -Hx -Hd. apply W3.
Qed.

Lemma czf k v m : mok m → counts_zero (m_add k (stash_k k v m)) = false.
Proof.
  intros ((H1 & H2 & H3 & H4 & H5 & H6 & H7) & _). apply counts_zero_false.
  destruct m as [? ? ? ? ? ? ? sb sn sc]; destruct k; unfold m_add, stash_k; simpl in *;
    try destruct sb; try destruct sn; try destruct sc; rs; lia.
Qed.

Lemma mloc_upd j j1 a k v :
  (∀ b, mloc j b) → j_muts j1 = <[a := m_add k (stash_k k v (mstate_for a j))]> (j_muts j) →
  ∀ b, mloc j1 b.
Proof.
  intros H E b m. rewrite E. destruct (decide (b = a)) as [->|Hne].
  - rewrite lookup_insert. intros [= <-].
    assert (Hk : mok (mstate_for a j)).
    { unfold mstate_for. destruct (j_muts j !! a) eqn:E1; simpl; [by apply (H a)|apply mok0]. }
    split; [by apply mok_add_stash|by apply czf].
  - rewrite lookup_insert_ne //. apply H.
Qed.

(* the journalled primitives every API call is made of *)
Inductive prim (j : jstate) : jstate → Prop :=
| P_create a : j_objs j !! a = None → prim j (create_object a j)
| P_bal a o v : j_objs j !! a = Some o → prim j (obj_set_balance a o v j)
| P_nonce a o v : j_objs j !! a = Some o → prim j (obj_set_nonce a o v j)
| P_code a o v : j_objs j !! a = Some o → prim j (obj_set_code a o v j)
| P_state a o k v : j_objs j !! a = Some o → prim j (obj_set_state a o k v j)
| P_sd a o : j_objs j !! a = Some o → o_sd o = false → prim j (obj_self_destruct a o j)
| P_cc a o : j_objs j !! a = Some o → o_new o = false →
    prim j (j_append (JCreateContract a) (put_obj a (o <| o_new := true |>) j))
| P_touch a o : a ≠ ripemd → j_objs j !! a = Some o → prim j (touch_change a j)
| P_other e j' : noncore e = true → sem_eq j' j → j_entries j' = e :: j_entries j → prim j j'.

Lemma prim_undo j j1 : wfc j → prim j j1 → core_eq (undo1 j1) j ∧ ∃ e, j_entries j1 = e :: j_entries j.
Proof.
  intros [W1 W2 W3] P. destruct P.
  - destruct (undo_create_object j a (W1 a) H) as [He Hu]. rewrite Hu. split; [done|by eexists].
  - destruct (undo_set_balance j a o v (W1 a) H) as [He Hu]. rewrite Hu. split; [done|by eexists].
  - destruct (undo_set_nonce j a o v (W1 a) H) as [He Hu]. rewrite Hu. split; [done|by eexists].
  - destruct (undo_set_code j a o v (W1 a) H) as [He Hu]. rewrite Hu. split; [done|by eexists].
  - destruct (undo_set_state j a o k v (W1 a) H) as [He Hu]; [intros d; by apply W2|].
    rewrite Hu. split; [done|by eexists].
  - destruct (undo_self_destruct j a o (W1 a) H H0) as [He Hu]. rewrite Hu. split; [done|by eexists].
  - destruct (undo_create_contract j a o H H0) as [He Hu]. rewrite Hu. split; [done|by eexists].
  - destruct (undo_touch j a (W1 a) H) as [He Hu]. rewrite Hu. split; [done|by eexists].
  - split; [|by eexists]. unfold undo1. rewrite H1.
    assert (Hm : mutation e = None) by (by destruct e).
    unfold unmutate. rewrite Hm.
    pose proof (revert_entry_sem_noncore e j' H) as Hs.
    split; [|by destruct (revert_entry e j')].
    eapply sem_eq_trans; [|exact H0]. eapply sem_eq_trans; [|exact Hs].
    by destruct (revert_entry e j').
Qed.
Lemma wfc_upd j j1 a o' :
  wfc j → j_db j1 = j_db j → j_destruct j1 = j_destruct j →
  j_objs j1 = <[a := o']> (j_objs j) → (∀ b, mloc j1 b) →
  (∀ k d, o_dirty o' !! k = Some d → d ≠ committed j1 a o' k) → wfc j1.
Proof.
  intros [W1 W2 W3] Hd Hx Ho Hm Hk. split; [done|..].
  - intros b o k d. rewrite Ho. destruct (decide (b = a)) as [->|Hne].
    + rewrite lookup_insert. intros [= <-]. apply Hk.
    + rewrite lookup_insert_ne //. intros H1 H2.
      replace (committed j1 b o k) with (committed j b o k); [by eapply W2|].
      unfold committed, db_stor. by rewrite Hd Hx.
  - intros b. rewrite Ho Hd Hx. destruct (decide (b = a)) as [->|Hne].
    + by rewrite lookup_insert.
    + rewrite lookup_insert_ne //. apply W3.
Qed.

Lemma committed_upd j j1 a o o' k :
  j_db j1 = j_db j → j_destruct j1 = j_destruct j → o_pending o' = o_pending o →
  committed j1 a o' k = committed j a o k.
Proof. intros Hd Hx Hp. unfold committed, db_stor. by rewrite Hd Hx Hp. Qed.

Local Ltac e3 x := destruct x; unf; rj; done.
Lemma prim_wfc j j1 : wfc j → prim j j1 → wfc j1.
Proof.
  intros W P. pose proof W as [W1 W2 W3]. destruct P.
  - apply (wfc_upd j _ a (new_object None)); [done|e3 j|e3 j|e3 j|..].
    + apply (mloc_upd j _ a KCreate 0); [done|]. e3 j.
    + intros k d. by rewrite lookup_empty.
  - apply (wfc_upd j _ a (o <| o_data ::= (λ d, d <| a_bal := v |>) |>)); [done|e3 j|e3 j|e3 j|..].
    + apply (mloc_upd j _ a KBalance (a_bal (o_data o))); [done|].
      destruct j; unf; rj. by rewrite lookup_insert insert_insert.
    + intros k d Hd. rewrite (committed_upd j _ a o); [e3 j|e3 j|by destruct o|].
      apply (W2 a o k d H). by destruct o.
  - apply (wfc_upd j _ a (o <| o_data ::= (λ d, d <| a_nonce := v |>) |>)); [done|e3 j|e3 j|e3 j|..].
    + apply (mloc_upd j _ a KNonce (a_nonce (o_data o))); [done|].
      destruct j; unf; rj. by rewrite lookup_insert insert_insert.
    + intros k d Hd. rewrite (committed_upd j _ a o); [e3 j|e3 j|by destruct o|].
      apply (W2 a o k d H). by destruct o.
  - apply (wfc_upd j _ a (o <| o_data ::= (λ d, d <| a_code := v |>) |>)); [done|e3 j|e3 j|e3 j|..].
    + apply (mloc_upd j _ a KCode (a_code (o_data o))); [done|].
      destruct j; unf; rj. by rewrite lookup_insert insert_insert.
    + intros k d Hd. rewrite (committed_upd j _ a o); [e3 j|e3 j|by destruct o|].
      apply (W2 a o k d H). by destruct o.
  - apply (wfc_upd j _ a (set_state k v (committed j a o k) o)); [done|e3 j|e3 j|e3 j|..].
    + apply (mloc_upd j _ a KStorage 0); [done|]. e3 j.
    + intros k' d. rewrite (committed_upd j _ a o); [e3 j|e3 j|unfold set_state; destruct (v =? committed j a o k); by destruct o|].
      unfold set_state. destruct (v =? committed j a o k) eqn:Ev.
      * destruct o; rs. intros [Hne Hl]%lookup_delete_Some. by eapply (W2 a _ k' d H).
      * destruct o; rs. destruct (decide (k' = k)) as [->|Hne].
        -- rewrite lookup_insert. intros [= <-]. by apply N.eqb_neq in Ev.
        -- rewrite lookup_insert_ne //. intros Hl. by eapply (W2 a _ k' d H).
  - apply (wfc_upd j _ a (o <| o_sd := true |>)); [done|e3 j|e3 j|e3 j|..].
    + apply (mloc_upd j _ a KSelfDestruct 0); [done|]. e3 j.
    + intros k d Hd. rewrite (committed_upd j _ a o); [e3 j|e3 j|by destruct o|].
      apply (W2 a o k d H). by destruct o.
  - apply (wfc_upd j _ a (o <| o_new := true |>)); [done|e3 j|e3 j|e3 j|..].
    + intros b m. replace (j_muts (j_append (JCreateContract a) (put_obj a (o <| o_new := true |>) j))) with (j_muts j); [apply W1|].
      e3 j.
    + intros k d Hd. rewrite (committed_upd j _ a o); [e3 j|e3 j|by destruct o|].
      apply (W2 a o k d H). by destruct o.
  - unfold touch_change. rewrite bool_decide_false //.
    apply (wfc_upd j _ a o); [done|e3 j|e3 j|..].
    + destruct j; unf; rj; simpl. by rewrite insert_id.
    + apply (mloc_upd j _ a KTouch 0); [done|]. e3 j.
    + intros k d Hd. rewrite (committed_upd j _ a o); [e3 j|e3 j|done|].
      by apply (W2 a o k d H0).
  - eapply wfc_sem; [apply sem_eq_sym; exact H0|done].
Qed.

(* ------------------------------------------------------------------ *)
(* forward reachability from the state at the start of a transaction *)
Inductive Fwd (s0 : jstate) : jstate → Prop :=
| Fwd0 j : core_eq j s0 → Fwd s0 j
| FwdS j j1 j' : Fwd s0 j → prim j j1 → core_eq j' j1 → Fwd s0 j'.

Lemma Fwd_proper s0 j j2 : Fwd s0 j → core_eq j2 j → Fwd s0 j2.
Proof.
  intros F H. destruct F as [j H0|j j1 j' F P H1].
  - apply Fwd0. by eapply core_eq_trans.
  - eapply FwdS; [exact F|exact P|by eapply core_eq_trans].
Qed.

Lemma fwd_prim s0 j j1 : Fwd s0 j → prim j j1 → Fwd s0 j1.
Proof. intros F P. eapply FwdS; [exact F|exact P|done]. Qed.

Lemma fwd_wfc s0 j : wfc s0 → Fwd s0 j → wfc j.
Proof.
  intros W0 F. induction F as [j H|j j1 j' F IH P H].
  - eapply wfc_sem; [apply sem_eq_sym, H|done].
  - eapply wfc_sem; [apply sem_eq_sym, H|]. by eapply prim_wfc.
Qed.

(* forward reachability is closed under one step of journal.revert, hence under
   RevertToSnapshot to any depth: every state a transaction can be in is one that the
   journalled calls alone could have produced *)
Lemma fwd_undo1 s0 j : wfc s0 → j_entries s0 = [] → Fwd s0 j → Fwd s0 (undo1 j).
Proof.
  intros W0 E0 F. destruct F as [j H|j j1 j' F P H].
  - assert (E : j_entries j = []) by (destruct H as [_ ->]; done).
    unfold undo1. rewrite E. by apply Fwd0.
  - eapply Fwd_proper; [exact F|].
    eapply core_eq_trans; [apply undo1_core, H|].
    apply prim_undo; [by eapply fwd_wfc|done].
Qed.

Lemma fwd_revert_n s0 n j : wfc s0 → j_entries s0 = [] → Fwd s0 j → Fwd s0 (revert_n n j).
Proof.
  intros W0 E0. revert j. induction n as [|n IH]; intros j F; [done|].
  rewrite revert_n_S. destruct (j_entries j); [done|]. by apply IH, fwd_undo1.
Qed.

Lemma fwd_gon s0 j a :
  wfc s0 → Fwd s0 j →
  Fwd s0 (get_or_new_j a j).1 ∧ j_objs (get_or_new_j a j).1 !! a = Some (get_or_new_j a j).2.
Proof.
  intros W0 F. unfold get_or_new_j. destruct (j_objs j !! a) as [o|] eqn:Ho; simpl; [done|].
  split; [by eapply fwd_prim, P_create|]. destruct j; unf; rj; simpl. by rewrite lookup_insert.
Qed.

Lemma fwd_other s0 j j' e :
  Fwd s0 j → noncore e = true → sem_eq j' j → j_entries j' = e :: j_entries j → Fwd s0 j'.
Proof. intros F N S E. eapply fwd_prim; [exact F|]. by eapply P_other. Qed.

Local Ltac oth x e := eapply (fwd_other _ _ _ e); [eassumption|done|destruct x; unf; rj; done|destruct x; unf; rj; done].

Theorem step_fwd s0 j o :
  wfc s0 → Fwd s0 j → core_op o = true → op_ok j o = true → sticky_j j o = false →
  Fwd s0 (step_j j o).1.
Proof.
  intros W0 F Hc Hok Hst. destruct o; try done; simpl in *.
  - apply bool_decide_eq_true in Hok. by eapply fwd_prim, P_create.
  - destruct (j_objs j !! a) as [o|] eqn:Ho; simpl; [|done].
    destruct (o_new o) eqn:Hn; simpl; [done|]. by eapply fwd_prim, P_cc.
  - destruct (fwd_gon s0 j a W0 F) as [F1 H1]. destruct (get_or_new_j a j) as [j1 o] eqn:Eg. simpl in *.
    destruct (v =? 0) eqn:Ev; simpl.
    + destruct (obj_empty o) eqn:Ee; [|done]. eapply fwd_prim; [exact F1|]. eapply P_touch; [|exact H1].
      intros ->. unfold get_or_new_j in Eg. rewrite bool_decide_true // in Hst. simpl in Hst.
      destruct (j_objs j !! ripemd) eqn:Ho; injection Eg as <- <-; [by rewrite Ee in Hst|done].
    + by eapply fwd_prim, P_bal.
  - destruct (fwd_gon s0 j a W0 F) as [F1 H1]. destruct (get_or_new_j a j) as [j1 o] eqn:Eg. simpl in *.
    destruct (v =? 0); simpl; [done|]. by eapply fwd_prim, P_bal.
  - destruct (fwd_gon s0 j a W0 F) as [F1 H1]. destruct (get_or_new_j a j) as [j1 o] eqn:Eg. simpl in *.
    by eapply fwd_prim, P_bal.
  - destruct (fwd_gon s0 j a W0 F) as [F1 H1]. destruct (get_or_new_j a j) as [j1 o] eqn:Eg. simpl in *.
    by eapply fwd_prim, P_nonce.
  - destruct (fwd_gon s0 j a W0 F) as [F1 H1]. destruct (get_or_new_j a j) as [j1 o] eqn:Eg. simpl in *.
    by eapply fwd_prim, P_code.
  - destruct (fwd_gon s0 j a W0 F) as [F1 H1]. destruct (get_or_new_j a j) as [j1 o] eqn:Eg. simpl in *.
    destruct (get_state j1 a o k =? v); simpl; [done|]. by eapply fwd_prim, P_state.
  - destruct (default 0 (j_tstor j !! (a, k)) =? v); simpl; [done|].
    oth j (JTransient a k (default 0 (j_tstor j !! (a, k)))).
  - destruct (j_objs j !! a) as [o|] eqn:Ho; simpl; [|done].
    destruct (o_sd o) eqn:Hs; simpl; [done|]. by eapply fwd_prim, P_sd.
  - destruct (j_objs j !! a) as [o|] eqn:Ho; simpl; [|done].
    destruct (o_new o && negb (o_sd o)) eqn:Hs; simpl; [|done].
    apply andb_true_iff in Hs as [_ Hs%negb_true_iff]. by eapply fwd_prim, P_sd.
  - unfold al_add_address. destruct (j_ala j !! a); simpl; [done|]. oth j (JALAddr a).
  - unfold al_add_slot. destruct (j_ala j !! a) as [idx|]; simpl.
    + destruct (idx =? -1)%Z; simpl; [oth j (JALSlot a k)|].
      destruct (j_als j !! Z.to_nat idx); simpl; [|eapply Fwd_proper; [exact F|by destruct j]].
      case_bool_decide; simpl; [done|]. oth j (JALSlot a k).
    + eapply (fwd_other _ (j_append (JALAddr a) (j <| j_ala ::= <[a := Z.of_nat (length (j_als j))]> |> <| j_als ::= (λ l, l ++ [{[k]}]) |>)) _ (JALSlot a k));
        [|done|destruct j; unf; rj; done|destruct j; unf; rj; done].
      oth j (JALAddr a).
  - oth j (JRefund (j_refund j)).
  - destruct (j_refund j <? g); simpl; oth j (JRefund (j_refund j)).
  - oth j (JAddLog (j_th j)).
Qed.

(* ------------------------------------------------------------------ *)
(* the stash invariant: what journal.mutations and the state objects say about the
   values at the start of the transaction *)
Definition pre_data (s0 : jstate) (a : addr) : acct := default acct0 (o_data <$> j_objs s0 !! a).
Definition pre_pend (s0 : jstate) (a : addr) : gmap slot word := default ∅ (o_pending <$> j_objs s0 !! a).

(* "a stash holds the pre-tx value whenever set; when it is not set the field still has
   its pre-tx value" *)
Definition stash_ok (s : option N) (cur pre : N) : Prop :=
  match s with Some v => v = pre | None => cur = pre end.

Definition Qa (s0 : jstate) (a : addr) (o : sobj) (m : mstate) (inm : bool) : Prop :=
  o_pending o = pre_pend s0 a
  ∧ stash_ok (s_bal m) (a_bal (o_data o)) (a_bal (pre_data s0 a))
  ∧ stash_ok (s_nonce m) (a_nonce (o_data o)) (a_nonce (pre_data s0 a))
  ∧ stash_ok (s_code m) (a_code (o_data o)) (a_code (pre_data s0 a))
  ∧ (inm = false → o_dirty o = ∅)
  ∧ (o_origin o = None → a ∈ j_destruct s0 ∨ j_db s0 !! a = None).

Definition in_muts (j : jstate) (a : addr) : bool := bool_decide (is_Some (j_muts j !! a)).

Record Q (s0 j : jstate) : Prop := {
  q_db : j_db j = j_db s0;
  q_destruct : j_destruct j = j_destruct s0;
  q_none : ∀ a, j_objs j !! a = None → j_objs s0 !! a = None ∧ j_muts j !! a = None;
  q_obj : ∀ a o, j_objs j !! a = Some o → Qa s0 a o (mstate_for a j) (in_muts j a)
}.

Lemma Q_sem s0 j j' : sem_eq j j' → Q s0 j → Q s0 j'.
Proof.
  intros (Hd & Ho & Hx & Hm) [Q1 Q2 Q3 Q4]. split.
  - by rewrite -Hd. - by rewrite -Hx.
  - intros a. rewrite -Ho -Hm. apply Q3.
  - intros a o. unfold mstate_for, in_muts. rewrite -Ho -Hm. apply Q4.
Qed.

Lemma Q_upd s0 j j1 a o' :
  Q s0 j → j_db j1 = j_db j → j_destruct j1 = j_destruct j → j_objs j1 = <[a := o']> (j_objs j) →
  (∀ b, b ≠ a → j_muts j1 !! b = j_muts j !! b) →
  Qa s0 a o' (mstate_for a j1) (in_muts j1 a) → Q s0 j1.
Proof.
  intros [Q1 Q2 Q3 Q4] Hd Hx Ho Hm Ha. split.
  - by rewrite Hd. - by rewrite Hx.
  - intros b. rewrite Ho. destruct (decide (b = a)) as [->|Hne]; [by rewrite lookup_insert|].
    rewrite lookup_insert_ne // Hm //. apply Q3.
  - intros b o. rewrite Ho. destruct (decide (b = a)) as [->|Hne].
    + rewrite lookup_insert. by intros [= <-].
    + rewrite lookup_insert_ne //. unfold mstate_for, in_muts. rewrite Hm //. apply Q4.
Qed.

Lemma s_add k m : s_bal (m_add k m) = s_bal m ∧ s_nonce (m_add k m) = s_nonce m ∧ s_code (m_add k m) = s_code m.
Proof. destruct m; destruct k; unfold m_add; rs; done. Qed.

Lemma stash_other k v m : k ≠ KBalance → k ≠ KNonce → k ≠ KCode → stash_k k v m = m.
Proof. destruct k; unfold stash_k; done. Qed.

Lemma in_muts_insert j1 j a m : j_muts j1 = <[a := m]> (j_muts j) → in_muts j1 a = true.
Proof. intros E. unfold in_muts. rewrite E lookup_insert. by apply bool_decide_eq_true. Qed.
Lemma mstate_for_insert j1 j a m : j_muts j1 = <[a := m]> (j_muts j) → mstate_for a j1 = m.
Proof. intros E. unfold mstate_for. by rewrite E lookup_insert. Qed.

Local Ltac e5 x := destruct x; unf; rj; done.
Local Ltac mne x := let b := fresh in let Hb := fresh in intros b Hb; destruct x; unf; rj; simpl; rewrite ?lookup_insert_ne //.

Lemma prim_Q s0 j j1 : wfc j → Q s0 j → prim j j1 → Q s0 j1.
Proof.
  intros W Hq P. pose proof Hq as [Q1 Q2 Q3 Q4]. destruct P.
  - (* create *)
    assert (E : j_muts (create_object a j) = <[a := m_add KCreate (stash_k KCreate 0 (mstate_for a j))]> (j_muts j)) by e5 j.
    destruct (Q3 a H) as [H0 Hm0].
    apply (Q_upd s0 j _ a (new_object None)); [done|e5 j|e5 j|e5 j|mne j|].
    rewrite (mstate_for_insert _ _ _ _ E) (in_muts_insert _ _ _ _ E).
    unfold Qa. destruct (s_add KCreate (stash_k KCreate 0 (mstate_for a j))) as (-> & -> & ->).
    rewrite stash_other //. unfold mstate_for. rewrite Hm0. unfold Qa, pre_pend, pre_data. rewrite H0. simpl.
    repeat split; try done. intros _. rewrite -Q1 -Q2. by apply W.
  - (* balance *)
    assert (E : j_muts (obj_set_balance a o v j) = <[a := m_add KBalance (stash_k KBalance (a_bal (o_data o)) (mstate_for a j))]> (j_muts j)).
    { destruct j; unf; rj. by rewrite lookup_insert insert_insert. }
    destruct (Q4 a o H) as (A1 & A2 & A3 & A4 & A5 & A6).
    apply (Q_upd s0 j _ a (o <| o_data ::= (λ d, d <| a_bal := v |>) |>)); [done|e5 j|e5 j|e5 j| |].
    { intros b Hb. destruct j; unf; rj; simpl. rewrite !lookup_insert_ne //. }
    rewrite (mstate_for_insert _ _ _ _ E) (in_muts_insert _ _ _ _ E).
    unfold Qa. destruct (s_add KBalance (stash_k KBalance (a_bal (o_data o)) (mstate_for a j))) as (-> & -> & ->).
    unfold Qa. destruct o as [oo [n b c] dd pp sd nw]; simpl in *. unfold stash_k.
    destruct (mstate_for a j) as [? ? ? ? ? ? ? sb sn sc]; simpl in *. destruct sb; rs; repeat split; done.
  - (* nonce *)
    assert (E : j_muts (obj_set_nonce a o v j) = <[a := m_add KNonce (stash_k KNonce (a_nonce (o_data o)) (mstate_for a j))]> (j_muts j)).
    { destruct j; unf; rj. by rewrite lookup_insert insert_insert. }
    destruct (Q4 a o H) as (A1 & A2 & A3 & A4 & A5 & A6).
    apply (Q_upd s0 j _ a (o <| o_data ::= (λ d, d <| a_nonce := v |>) |>)); [done|e5 j|e5 j|e5 j| |].
    { intros b Hb. destruct j; unf; rj; simpl. rewrite !lookup_insert_ne //. }
    rewrite (mstate_for_insert _ _ _ _ E) (in_muts_insert _ _ _ _ E).
    unfold Qa. destruct (s_add KNonce (stash_k KNonce (a_nonce (o_data o)) (mstate_for a j))) as (-> & -> & ->).
    unfold Qa. destruct o as [oo [n b c] dd pp sd nw]; simpl in *. unfold stash_k.
    destruct (mstate_for a j) as [? ? ? ? ? ? ? sb sn sc]; simpl in *. destruct sn; rs; repeat split; done.
  - (* code *)
    assert (E : j_muts (obj_set_code a o v j) = <[a := m_add KCode (stash_k KCode (a_code (o_data o)) (mstate_for a j))]> (j_muts j)).
    { destruct j; unf; rj. by rewrite lookup_insert insert_insert. }
    destruct (Q4 a o H) as (A1 & A2 & A3 & A4 & A5 & A6).
    apply (Q_upd s0 j _ a (o <| o_data ::= (λ d, d <| a_code := v |>) |>)); [done|e5 j|e5 j|e5 j| |].
    { intros b Hb. destruct j; unf; rj; simpl. rewrite !lookup_insert_ne //. }
    rewrite (mstate_for_insert _ _ _ _ E) (in_muts_insert _ _ _ _ E).
    unfold Qa. destruct (s_add KCode (stash_k KCode (a_code (o_data o)) (mstate_for a j))) as (-> & -> & ->).
    unfold Qa. destruct o as [oo [n b c] dd pp sd nw]; simpl in *. unfold stash_k.
    destruct (mstate_for a j) as [? ? ? ? ? ? ? sb sn sc]; simpl in *. destruct sc; rs; repeat split; done.
  - (* storage *)
    assert (E : j_muts (obj_set_state a o k v j) = <[a := m_add KStorage (stash_k KStorage 0 (mstate_for a j))]> (j_muts j)) by e5 j.
    destruct (Q4 a o H) as (A1 & A2 & A3 & A4 & A5 & A6).
    apply (Q_upd s0 j _ a (set_state k v (committed j a o k) o)); [done|e5 j|e5 j|e5 j|mne j|].
    rewrite (mstate_for_insert _ _ _ _ E) (in_muts_insert _ _ _ _ E).
    unfold Qa. destruct (s_add KStorage (stash_k KStorage 0 (mstate_for a j))) as (-> & -> & ->).
    rewrite stash_other //. unfold Qa, set_state. destruct (v =? committed j a o k); destruct o; rs; repeat split; done.
  - (* self-destruct *)
    assert (E : j_muts (obj_self_destruct a o j) = <[a := m_add KSelfDestruct (stash_k KSelfDestruct 0 (mstate_for a j))]> (j_muts j)) by e5 j.
    destruct (Q4 a o H) as (A1 & A2 & A3 & A4 & A5 & A6).
    apply (Q_upd s0 j _ a (o <| o_sd := true |>)); [done|e5 j|e5 j|e5 j|mne j|].
    rewrite (mstate_for_insert _ _ _ _ E) (in_muts_insert _ _ _ _ E).
    unfold Qa. destruct (s_add KSelfDestruct (stash_k KSelfDestruct 0 (mstate_for a j))) as (-> & -> & ->).
    rewrite stash_other //; try (destruct o; rs; repeat split; done).
  - (* create contract *)
    assert (E : j_muts (j_append (JCreateContract a) (put_obj a (o <| o_new := true |>) j)) = j_muts j) by e5 j.
    destruct (Q4 a o H) as (A1 & A2 & A3 & A4 & A5 & A6).
    apply (Q_upd s0 j _ a (o <| o_new := true |>)); [done|e5 j|e5 j|e5 j|by intros; rewrite E|].
    unfold mstate_for, in_muts. rewrite E. unfold Qa. destruct o; rs; repeat split; done.
  - (* touch *)
    unfold touch_change. rewrite bool_decide_false //.
    assert (E : j_muts (j_append (JTouch a) j) = <[a := m_add KTouch (stash_k KTouch 0 (mstate_for a j))]> (j_muts j)) by e5 j.
    destruct (Q4 a o H0) as (A1 & A2 & A3 & A4 & A5 & A6).
    apply (Q_upd s0 j _ a o); [done|e5 j|e5 j| |mne j|].
    { destruct j; unf; rj; simpl. by rewrite insert_id. }
    rewrite (mstate_for_insert _ _ _ _ E) (in_muts_insert _ _ _ _ E).
    unfold Qa. destruct (s_add KTouch (stash_k KTouch 0 (mstate_for a j))) as (-> & -> & ->).
    rewrite stash_other //.
  - eapply Q_sem; [apply sem_eq_sym; exact H0|done].
Qed.

Theorem fwd_Q s0 j : wfc s0 → Q s0 s0 → Fwd s0 j → Q s0 j.
Proof.
  intros W0 Q0 F. induction F as [j H|j j1 j' F IH P H].
  - eapply Q_sem; [apply sem_eq_sym, H|done].
  - eapply Q_sem; [apply sem_eq_sym, H|]. eapply prim_Q; [by eapply fwd_wfc|exact IH|exact P].
Qed.

(* ------------------------------------------------------------------ *)
(* the body of a transaction, at the level of the recording StateDB *)
Definition body_op (j : jstate) (o : bop) : Prop :=
  match o with
  | BGet _ => True
  | BOp OSnapshot => True
  | BOp (ORevert _) => True
  | BOp (OFinalise _) => False
  | BOp (OTxStart _ _ _ _ _ _ _) => False
  | BOp o => core_op o = true ∧ op_ok j o = true ∧ sticky_j j o = false
  | BSetTx _ _ _ => False
  | BPrepare _ _ _ _ _ => False
  end.

Fixpoint body_ok (b : bstate) (ops : list bop) : Prop :=
  match ops with
  | [] => True
  | o :: rest => body_op (b_j b) o ∧ body_ok (step_b b o).1 rest
  end.

Lemma fwd_rec s0 f b : Fwd s0 (b_j b) → Fwd s0 (b_j (rec f b)).
Proof. by destruct b. Qed.

Lemma step_b_fwd s0 b o :
  wfc s0 → j_entries s0 = [] → Fwd s0 (b_j b) → body_op (b_j b) o → Fwd s0 (b_j (step_b b o).1).
Proof.
  intros W0 E0 F Hb. destruct o as [o| | |q]; try done.
  - destruct o; try done; simpl in Hb;
      try (destruct Hb as (Hc & Hok & Hst); unfold step_b;
           match goal with |- context [step_j ?j ?o] =>
             pose proof (step_fwd s0 j o W0 F Hc Hok Hst) as F1; destruct (step_j j o) as [j1 w] end;
           apply fwd_rec; destruct b; exact F1).
    + (* Snapshot *) destruct b as [j ? ?]; simpl in *.
      eapply Fwd_proper; [exact F|]. by destruct j.
    + (* Revert *) destruct b as [j ? ?]; simpl in *.
      destruct (find_revision id (j_revs j)) as [[idx rest]|]; simpl; [|done].
      eapply Fwd_proper; [apply (fwd_revert_n s0 (length (j_entries j) - idx) j W0 E0 F)|].
      unfold revert_to. by destruct (revert_n (length (j_entries j) - idx) j).
Qed.

Theorem run_b_fwd s0 b ops :
  wfc s0 → j_entries s0 = [] → Fwd s0 (b_j b) → body_ok b ops → Fwd s0 (b_j (run_b b ops)).
Proof.
  intros W0 E0. revert b. induction ops as [|o rest IH]; intros b F H; [done|].
  destruct H as [H1 H2]. simpl. apply IH; [|done]. by apply step_b_fwd.
Qed.

(* the state between two transactions: journal reset, nothing dirty *)
Record tx_boundary (j : jstate) : Prop := {
  tb_wfc : wfc j;
  tb_entries : j_entries j = [];
  tb_muts : j_muts j = ∅;
  tb_dirty : ∀ a o, j_objs j !! a = Some o → o_dirty o = ∅;
  tb_origin : ∀ a o, j_objs j !! a = Some o → o_origin o = None → a ∈ j_destruct j ∨ j_db j !! a = None
}.

Lemma Q_start s0 : tx_boundary s0 → Q s0 s0.
Proof.
  intros [W E M D O]. split; [done|done|..].
  - intros a H. split; [done|]. by rewrite M.
  - intros a o H. unfold Qa, mstate_for, pre_pend, pre_data. rewrite M lookup_empty H. simpl.
    repeat split; try done. + intros _. by eapply D. + by eapply O.
Qed.

Lemma tx_boundary_init db : tx_boundary (init_j db).
Proof.
  split; simpl; try done.
  - split; simpl.
    + intros a m. by rewrite lookup_empty.
    + intros a o k d (x & <- & _)%lookup_fmap_Some Hd. simpl in Hd. by apply lookup_empty_Some in Hd.
    + intros a. rewrite lookup_fmap fmap_None. by right.
  - intros a o (x & <- & _)%lookup_fmap_Some. done.
  - intros a o (x & <- & _)%lookup_fmap_Some. done.
Qed.

(* The stash invariant at every point of every transaction: whatever journalled calls,
   getters, Snapshots and RevertToSnapshots (to any live id, nested to any depth) a
   transaction body consists of, journal.mutations and the state objects satisfy Q. *)
Theorem stash_invariant s0 b ops :
  tx_boundary s0 → core_eq (b_j b) s0 → body_ok b ops → Q s0 (b_j (run_b b ops)) ∧ wfc (b_j (run_b b ops)).
Proof.
  intros T H Hb. pose proof T as [W E _ _ _].
  assert (F : Fwd s0 (b_j (run_b b ops))) by (apply run_b_fwd; [done|done|by apply Fwd0|done]).
  split; [apply fwd_Q; [done|by apply Q_start|done]|by eapply fwd_wfc].
Qed.

(* ------------------------------------------------------------------ *)
(* one iteration of finaliseAmsterdam's loop: the account fields *)
Definition obal (oc : option caccess) : gmap N word := default ∅ (ca_bal <$> oc).
Definition ononce (oc : option caccess) : gmap N N := default ∅ (ca_nonce <$> oc).
Definition ocode (oc : option caccess) : gmap N N := default ∅ (ca_code <$> oc).

Lemma fin_writes_fields idx d oc :
  obal (fin_writes idx d oc) = obal oc ∧ ononce (fin_writes idx d oc) = ononce oc ∧ ocode (fin_writes idx d oc) = ocode oc.
Proof. unfold fin_writes. case_bool_decide; [done|]. by destruct oc. Qed.

Definition upd_if (idx post pre : N) (m : gmap N N) : gmap N N :=
  if post =? pre then m else <[idx := post]> m.

Lemma rec_changes_spec idx m post oc (pre : acct) :
  let d := match post with Some o => o_data o | None => acct0 end in
  (∀ v, s_bal m = Some v → v = a_bal pre) → (s_bal m = None → a_bal d = a_bal pre) →
  (∀ v, s_nonce m = Some v → v = a_nonce pre) → (s_nonce m = None → a_nonce d = a_nonce pre) →
  (∀ v, s_code m = Some v → v = a_code pre) → (s_code m = None → a_code d = a_code pre) →
  obal (rec_changes idx m post oc) = upd_if idx (a_bal d) (a_bal pre) (obal oc)
  ∧ ononce (rec_changes idx m post oc) = upd_if idx (a_nonce d) (a_nonce pre) (ononce oc)
  ∧ ocode (rec_changes idx m post oc) = upd_if idx (a_code d) (a_code pre) (ocode oc).
Proof.
  intros d B1 B2 N1 N2 C1 C2. unfold rec_changes, upd_if. fold d.
  destruct (s_bal m) as [pb|]; [rewrite -(B1 pb eq_refl)|rewrite (B2 eq_refl) N.eqb_refl];
  (destruct (s_nonce m) as [pn|]; [rewrite -(N1 pn eq_refl)|rewrite (N2 eq_refl) N.eqb_refl]);
  (destruct (s_code m) as [pc|]; [rewrite -(C1 pc eq_refl)|rewrite (C2 eq_refl) N.eqb_refl]);
  repeat match goal with |- context [?x =? ?y] => destruct (x =? y) end; by destruct oc.
Qed.

(* Guard of the net-change statement at Finalise (established by the EVM: only contracts
   created in the same transaction self-destruct, EIP-6780 + the create collision rules):
   a self-destructed object had nonce 0 and no code before the transaction, and the
   account its origin describes is blank *)
Definition sd_guard (s0 j : jstate) (a : addr) (o : sobj) : Prop :=
  o_sd o = true →
  a_nonce (pre_data s0 a) = 0 ∧ a_code (pre_data s0 a) = 0 ∧
  match o_origin o with Some x => a_nonce x = 0 ∧ a_code x = 0 | None => True end.

Theorem fin_rec_fields s0 j r idx a o oc :
  Q s0 j → j_objs j !! a = Some o → rAms r = true → sd_guard s0 j a o →
  let d := match fin_obj r o with Some o' => o_data o' | None => acct0 end in
  let oc' := fin_rec r idx (mstate_for a j) o oc in
  obal oc' = upd_if idx (a_bal d) (a_bal (pre_data s0 a)) (obal oc)
  ∧ ononce oc' = upd_if idx (a_nonce d) (a_nonce (pre_data s0 a)) (ononce oc)
  ∧ ocode oc' = upd_if idx (a_code d) (a_code (pre_data s0 a)) (ocode oc).
Proof.
  intros Hq Ho Hr Hg d oc'. destruct (q_obj _ _ Hq a o Ho) as (A1 & A2 & A3 & A4 & A5 & A6).
  subst oc'. unfold fin_rec.
  set (oc1 := if o_sd o then oc else if r158 r && obj_empty o then oc else fin_writes idx (o_dirty o) oc).
  assert (E1 : obal oc1 = obal oc ∧ ononce oc1 = ononce oc ∧ ocode oc1 = ocode oc).
  { subst oc1. destruct (o_sd o); [done|]. destruct (r158 r && obj_empty o); [done|]. apply fin_writes_fields. }
  destruct E1 as (<- & <- & <-).
  unfold stash_ok in A2, A3, A4.
  apply rec_changes_spec; fold d.
  - intros v E. by rewrite E in A2.
  - intros E. rewrite E in A2. rewrite -A2. subst d. unfold fin_obj. rewrite Hr.
    destruct (o_sd o); [destruct (a_bal (o_data o) =? 0) eqn:Eb; simpl; [by apply N.eqb_eq in Eb|by destruct (o_origin o)]|].
    destruct (r158 r && obj_empty o) eqn:Ee; [|by destruct o].
    apply andb_true_iff in Ee as [_ Ee]. unfold obj_empty, acct_empty in Ee.
    apply andb_true_iff in Ee as [Ee _]. apply andb_true_iff in Ee as [_ Ee]. by apply N.eqb_eq in Ee.
  - intros v E. by rewrite E in A3.
  - intros E. rewrite E in A3. subst d. unfold fin_obj. rewrite Hr.
    destruct (o_sd o) eqn:Es.
    { destruct (Hg Es) as (G1 & G2 & G3). rewrite G1.
      destruct (a_bal (o_data o) =? 0); simpl; [done|]. by destruct (o_origin o) as [x|]; [destruct G3|]. }
    rewrite -A3. destruct (r158 r && obj_empty o) eqn:Ee; [|by destruct o].
    apply andb_true_iff in Ee as [_ Ee]. unfold obj_empty, acct_empty in Ee.
    apply andb_true_iff in Ee as [Ee _]. apply andb_true_iff in Ee as [Ee _]. by apply N.eqb_eq in Ee.
  - intros v E. by rewrite E in A4.
  - intros E. rewrite E in A4. subst d. unfold fin_obj. rewrite Hr.
    destruct (o_sd o) eqn:Es.
    { destruct (Hg Es) as (G1 & G2 & G3). rewrite G2.
      destruct (a_bal (o_data o) =? 0); simpl; [done|]. by destruct (o_origin o) as [x|]; [destruct G3|]. }
    rewrite -A4. destruct (r158 r && obj_empty o) eqn:Ee; [|by destruct o].
    apply andb_true_iff in Ee as [_ Ee]. unfold obj_empty, acct_empty in Ee.
    apply andb_true_iff in Ee as [_ Ee]. by apply N.eqb_eq in Ee.
Qed.

(* the loop as a whole is this iteration at every address of journal.mutations whose
   object exists, and the identity elsewhere *)
Lemma fin_bal_lookup r idx j L a :
  fin_bal r idx j L !! a =
    match j_muts j !! a, j_objs j !! a with
    | Some m, Some o => fin_rec r idx m o (L !! a)
    | _, _ => L !! a
    end.
Proof.
  unfold fin_bal. rewrite lookup_merge lookup_merge.
  destruct (j_muts j !! a) as [m|]; destruct (j_objs j !! a) as [o|]; destruct (L !! a) eqn:EL; simpl; rewrite ?EL; done.
Qed.

(* ------------------------------------------------------------------ *)
(* storage: a slot is dirty at the end of the transaction exactly when its value differs
   from the value at the start of the transaction (A -> B -> A leaves no dirty entry) *)
Definition view_state (j : jstate) (a : addr) (k : slot) : word :=
  match j_objs j !! a with Some o => get_state j a o k | None => 0 end.

Lemma committed_pre s0 j a o k :
  tx_boundary s0 → Q s0 j → j_objs j !! a = Some o → committed j a o k = view_state s0 a k.
Proof.
  intros T Hq Ho. destruct (q_obj _ _ Hq a o Ho) as (A1 & _). pose proof Hq as [Qd Qx _ _].
  unfold view_state, committed, db_stor. rewrite A1 Qd Qx. unfold pre_pend.
  destruct (j_objs s0 !! a) as [o0|] eqn:E0; simpl.
  - unfold get_state. rewrite (tb_dirty _ T a o0 E0) lookup_empty. done.
  - rewrite lookup_empty. destruct (wc_eager _ (tb_wfc _ T) a E0) as [Hx|Hd].
    + by rewrite bool_decide_true.
    + rewrite Hd. by case_bool_decide.
Qed.

Theorem dirty_iff_changed s0 j a o k v :
  tx_boundary s0 → Q s0 j → wfc j → j_objs j !! a = Some o →
  o_dirty o !! k = Some v ↔ view_state j a k = v ∧ v ≠ view_state s0 a k.
Proof.
  intros T Hq W Ho. rewrite -(committed_pre s0 j a o k T Hq Ho). unfold view_state. rewrite Ho. unfold get_state.
  split.
  - intros Hd. rewrite Hd. split; [done|]. by eapply (wc_dirty _ W).
  - destruct (o_dirty o !! k) as [d|]; intros [H1 H2]; [by subst|by subst].
Qed.

(* stateObject.finalise records one write per dirty slot and removes those slots from the reads *)
Definition owrites (oc : option caccess) : gmap slot (gmap N word) := default ∅ (ca_writes <$> oc).
Definition oreads (oc : option caccess) : gset slot := default ∅ (ca_reads <$> oc).

Lemma fin_writes_spec idx dirty oc k :
  owrites (fin_writes idx dirty oc) !! k =
    match dirty !! k with
    | Some v => Some (<[idx := v]> (default ∅ (owrites oc !! k)))
    | None => owrites oc !! k
    end
  ∧ oreads (fin_writes idx dirty oc) = oreads oc ∖ dom dirty.
Proof.
  unfold fin_writes. case_bool_decide as E.
  - subst. rewrite lookup_empty dom_empty_L. split; [done|]. set_solver.
  - unfold acc_upd, owrites, oreads, ca_fin_writes. simpl.
    assert (E1 : ca_writes (default ca0 oc) = default ∅ (ca_writes <$> oc)) by (by destruct oc).
    assert (E2 : ca_reads (default ca0 oc) = default ∅ (ca_reads <$> oc)) by (by destruct oc).
    destruct (default ca0 oc) as [w rd b n c]; simpl in *. subst. split; [|done].
    rewrite lookup_merge. destruct (dirty !! k); destruct (default ∅ (ca_writes <$> oc) !! k); done.
Qed.

(* ------------------------------------------------------------------ *)
(* ToEncodingObj: strictly ascending (hence duplicate-free) at every level *)
Definition ltk {A} (key : A → N) (x y : A) : Prop := key x < key y.

Lemma ss_le_nodup_lt (l : list N) : StronglySorted N.le l → NoDup l → StronglySorted N.lt l.
Proof.
  induction 1 as [|x l Hs IH Hf]; intros Hn; [constructor|].
  apply NoDup_cons in Hn as [Hx Hn]. constructor; [by apply IH|].
  apply Forall_forall. intros y Hy. rewrite Forall_forall in Hf. specialize (Hf y Hy).
  assert (x ≠ y) by (intros ->; done). lia.
Qed.

Lemma sorted_keys_ss {V} (m : gmap N V) : StronglySorted N.lt (sorted_keys m).
Proof.
  unfold sorted_keys. apply ss_le_nodup_lt.
  - apply (StronglySorted_merge_sort N.le).
  - rewrite merge_sort_Permutation. apply NoDup_fst_map_to_list.
Qed.

Lemma sorted_elems_ss (s : gset N) : StronglySorted N.lt (sorted_elems s).
Proof.
  unfold sorted_elems. apply ss_le_nodup_lt.
  - apply (StronglySorted_merge_sort N.le).
  - rewrite merge_sort_Permutation. apply NoDup_elements.
Qed.

Lemma omap_ss {A} (key : A → N) (g : N → option A) (l : list N) :
  (∀ a y, g a = Some y → key y = a) → StronglySorted N.lt l → StronglySorted (ltk key) (omap g l).
Proof.
  intros Hk. induction 1 as [|x l Hs IH Hf]; simpl; [constructor|].
  destruct (g x) as [y|] eqn:E; [|done]. constructor; [done|].
  apply Forall_forall. intros z Hz. apply elem_of_list_omap in Hz as (a & Ha & Hg).
  rewrite Forall_forall in Hf. unfold ltk. rewrite (Hk _ _ E) (Hk _ _ Hg). by apply Hf.
Qed.

Lemma sorted_pairs_ss {V W} (f : V → W) (m : gmap N V) : StronglySorted (ltk fst) (sorted_pairs f m).
Proof.
  unfold sorted_pairs. apply omap_ss; [|apply sorted_keys_ss].
  intros a y. destruct (m !! a); simpl; [|done]. by intros [= <-].
Qed.

(* every level of the encoding object of ANY construction list is strictly ascending *)
Theorem to_encoding_sorted code_of (L : cbal) :
  StronglySorted (ltk aa_addr) (to_encoding_obj code_of L)
  ∧ Forall (λ e, StronglySorted (ltk fst) (aa_changes e)
                 ∧ Forall (λ sc, StronglySorted (ltk fst) (snd sc)) (aa_changes e)
                 ∧ StronglySorted N.lt (aa_reads e)
                 ∧ StronglySorted (ltk fst) (aa_bal e) ∧ StronglySorted (ltk fst) (aa_nonce e)
                 ∧ StronglySorted (ltk fst) (aa_code e)) (to_encoding_obj code_of L).
Proof.
  split.
  - unfold to_encoding_obj. apply omap_ss; [|apply sorted_keys_ss].
    intros a y. destruct (L !! a) eqn:EL; rewrite ?EL; simpl; [|done]. by intros [= <-].
  - apply Forall_forall. intros e He. unfold to_encoding_obj in He.
    apply elem_of_list_omap in He as (a & _ & Hg). destruct (L !! a) as [c|] eqn:EL; rewrite ?EL in Hg; simpl in Hg; [|done]. injection Hg as <-.
    simpl. repeat split; try apply sorted_pairs_ss; try apply sorted_elems_ss.
    apply Forall_forall. intros sc Hsc. unfold sorted_pairs in Hsc.
    apply elem_of_list_omap in Hsc as (k & _ & Hk). destruct (ca_writes c !! k) eqn:Ew; rewrite ?Ew in Hk; simpl in Hk; [|done]. injection Hk as <-.
    apply sorted_pairs_ss.
Qed.

(* ------------------------------------------------------------------ *)
(* assembled statements *)
Theorem net_changes_fields s0 b ops r idx L a :
  tx_boundary s0 → core_eq (b_j b) s0 → body_ok b ops → rAms r = true →
  let j := b_j (run_b b ops) in
  (∀ o, j_objs j !! a = Some o → sd_guard s0 j a o) →
  let R := fin_bal r idx j L in
  match j_muts j !! a, j_objs j !! a with
  | Some m, Some o =>
      let d := match fin_obj r o with Some o' => o_data o' | None => acct0 end in
      obal (R !! a) = upd_if idx (a_bal d) (a_bal (pre_data s0 a)) (obal (L !! a))
      ∧ ononce (R !! a) = upd_if idx (a_nonce d) (a_nonce (pre_data s0 a)) (ononce (L !! a))
      ∧ ocode (R !! a) = upd_if idx (a_code d) (a_code (pre_data s0 a)) (ocode (L !! a))
  | _, _ => R !! a = L !! a
  end.
Proof.
  intros T H Hb Hr j Hg R. destruct (stash_invariant s0 b ops T H Hb) as [Hq W]. fold j in Hq, W.
  subst R. rewrite fin_bal_lookup.
  destruct (j_muts j !! a) as [m|] eqn:Em; destruct (j_objs j !! a) as [o|] eqn:Eo; try done.
  assert (Emm : m = mstate_for a j) by (unfold mstate_for; by rewrite Em). subst m.
  by apply (fin_rec_fields s0 j r idx a o (L !! a) Hq Eo Hr (Hg o eq_refl)).
Qed.

Theorem storage_net_writes s0 b ops a o k v :
  tx_boundary s0 → core_eq (b_j b) s0 → body_ok b ops →
  let j := b_j (run_b b ops) in
  j_objs j !! a = Some o →
  (o_dirty o !! k = Some v ↔ view_state j a k = v ∧ v ≠ view_state s0 a k).
Proof.
  intros T H Hb j Ho. destruct (stash_invariant s0 b ops T H Hb) as [Hq W].
  by apply dirty_iff_changed.
Qed.

(* a concrete history for the non-vacuity example: balance change; slot 0 A->B->A;
   slot 1 written in a reverted frame; slot 2 and account 2 only read *)
Definition r_ams : rules := {| r158 := true; rAms := true; r2929 := true; rShanghai := true |}.
Definition sample_ops : list bop :=
  [BSetTx 1 0 1; BPrepare r_ams 1 2 None []; BOp (OSetBalance 1 5); BOp (OSetState 1 0 9); BOp OSnapshot;
   BOp (OSetState 1 1 7); BOp (ORevert 0); BOp (OSetState 1 0 0); BOp (OSetState 1 3 4); BGet (QBalance 2);
   BGet (QState 1 2); BOp (OFinalise r_ams)].
Definition sample_ret : option cbal :=
  match foldl (λ bw o, step_b bw.1 o) (init_b ∅, BOut RNone) sample_ops with
  | (_, BFin r) => r
  | _ => None
  end.
Definition sample_expected : bal :=
  [ {| aa_addr := 1; aa_changes := [(3, [(1, 4)])]; aa_reads := [0; 1; 2]; aa_bal := [(1, 5)]; aa_nonce := []; aa_code := [] |};
    {| aa_addr := 2; aa_changes := []; aa_reads := []; aa_bal := []; aa_nonce := []; aa_code := [] |} ].
Definition sample_history_check : bool :=
  match sample_ret with
  | Some L => bool_decide (encode (to_encoding_obj (λ _, []) L) = encode sample_expected)
  | None => false
  end.

(* ================================================================== *)
(* ROUND 2: the net-change statement on the getters of the finalised StateDB *)

(* the getters, in terms of the views used below *)
Lemma getters_view j a k :
  query_j j (QBalance a) = AN (a_bal (pre_data j a)) ∧ query_j j (QNonce a) = AN (a_nonce (pre_data j a))
  ∧ query_j j (QCode a) = AN (a_code (pre_data j a)) ∧ query_j j (QState a k) = AN (view_state j a k).
Proof. unfold pre_data, view_state. simpl. destruct (j_objs j !! a); done. Qed.

(* Finalise, per address *)
Lemma fin_objs r j a :
  j_objs (finalise r j) !! a =
    match j_objs j !! a with
    | Some o => if bool_decide (a ∈ dom (j_muts j)) then fin_obj r o else Some o
    | None => None
    end.
Proof.
  unfold finalise, clear_internal. destruct j; rj; simpl. rewrite map_lookup_imap.
  destruct (j_objs !! a); done.
Qed.

Lemma fin_db r j : j_db (finalise r j) = j_db j.
Proof. unfold finalise, clear_internal. destruct j; rj; done. Qed.

Lemma fin_destruct r j a :
  a ∈ j_destruct (finalise r j) ↔
  a ∈ j_destruct j ∨ ∃ o, j_objs j !! a = Some o ∧ a ∈ dom (j_muts j) ∧ fin_del r o = true.
Proof.
  unfold finalise, clear_internal. destruct j; rj; simpl. rewrite elem_of_union elem_of_dom.
  split; (intros [H|H]; [by left|right]).
  - destruct H as [o Ho]. apply map_filter_lookup_Some in Ho as [Ho Hp]. simpl in Hp.
    apply Is_true_true, andb_true_iff in Hp as [Hp1 Hp2]. apply bool_decide_eq_true in Hp1. by exists o.
  - destruct H as (o & Ho & Hd & Hf). exists o. apply map_filter_lookup_Some. split; [done|]. simpl.
    apply Is_true_true, andb_true_iff. split; [by apply bool_decide_eq_true|done].
Qed.

Lemma in_muts_dom j a : in_muts j a = bool_decide (a ∈ dom (j_muts j)).
Proof. unfold in_muts. apply bool_decide_ext. by rewrite elem_of_dom. Qed.

(* account fields after Finalise = the value the loop compared with the stash *)
Lemma fin_data s0 j r a :
  Q s0 j →
  (∀ m o, j_muts j !! a = Some m → j_objs j !! a = Some o →
     pre_data (finalise r j) a = match fin_obj r o with Some o' => o_data o' | None => acct0 end)
  ∧ (¬ (is_Some (j_muts j !! a) ∧ is_Some (j_objs j !! a)) → pre_data (finalise r j) a = pre_data s0 a).
Proof.
  intros Hq. split.
  - intros m o Hm Ho. unfold pre_data. rewrite fin_objs Ho bool_decide_true; [by apply elem_of_dom|].
    by destruct (fin_obj r o).
  - intros Hn. unfold pre_data at 1. rewrite fin_objs.
    destruct (j_objs j !! a) as [o|] eqn:Eo.
    + case_bool_decide as Hd.
      { apply elem_of_dom in Hd. destruct Hn. split; [done|by eexists]. }
      apply not_elem_of_dom in Hd. simpl.
      destruct (q_obj _ _ Hq a o Eo) as (_ & A2 & A3 & A4 & _).
      unfold mstate_for in *. rewrite Hd in A2 A3 A4. simpl in *.
      destruct (o_data o), (pre_data s0 a); simpl in *; congruence.
    + simpl. destruct (q_none _ _ Hq a Eo) as [E0 _]. unfold pre_data. by rewrite E0.
Qed.

Definition upd_set (idx post pre : N) : gmap N N := if post =? pre then ∅ else {[idx := post]}.

(* bal_net_changes, account fields, on the views of the finalised state: for EVERY address *)
Theorem net_fields_all s0 j r idx L a :
  Q s0 j → rAms r = true →
  (∀ o, j_objs j !! a = Some o → is_Some (j_muts j !! a) → sd_guard s0 j a o) →
  obal (L !! a) = ∅ → ononce (L !! a) = ∅ → ocode (L !! a) = ∅ →
  let R := fin_bal r idx j L in
  let post := pre_data (finalise r j) a in
  let pre := pre_data s0 a in
  obal (R !! a) = upd_set idx (a_bal post) (a_bal pre)
  ∧ ononce (R !! a) = upd_set idx (a_nonce post) (a_nonce pre)
  ∧ ocode (R !! a) = upd_set idx (a_code post) (a_code pre).
Proof.
  intros Hq Hr Hg L1 L2 L3 R post pre. subst R post pre.
  destruct (fin_data s0 j r a Hq) as [F1 F2]. rewrite fin_bal_lookup.
  destruct (j_muts j !! a) as [m|] eqn:Em; destruct (j_objs j !! a) as [o|] eqn:Eo.
  - rewrite (F1 m o eq_refl eq_refl). assert (Emm : m = mstate_for a j) by (unfold mstate_for; by rewrite Em). subst m.
    destruct (fin_rec_fields s0 j r idx a o (L !! a) Hq Eo Hr (Hg o eq_refl (ltac:(by eexists)))) as (-> & -> & ->).
    rewrite L1 L2 L3. unfold upd_if, upd_set. repeat split; by case_match.
  - rewrite F2; [intros [_ [? ?]]; done|]. rewrite L1 L2 L3. unfold upd_set. by rewrite !N.eqb_refl.
  - rewrite F2; [intros [[? ?] _]; done|]. rewrite L1 L2 L3. unfold upd_set. by rewrite !N.eqb_refl.
  - rewrite F2; [intros [[? ?] _]; done|]. rewrite L1 L2 L3. unfold upd_set. by rewrite !N.eqb_refl.
Qed.

(* ------------------------------------------------------------------ *)
(* storage and reads on the views of the finalised state *)

(* Guard of the net-change statement at Finalise, per address (established by the EVM:
   only contracts created in the same transaction self-destruct — EIP-6780 plus the create
   collision rules — and an empty account has no storage).  Without the storage part the
   statement is FALSE: see [storage_unguarded_refuted]. *)
Definition fin_guard (s0 j : jstate) (r : rules) (a : addr) : Prop :=
  ∀ o, j_objs j !! a = Some o → is_Some (j_muts j !! a) →
    (o_sd o = true → a_nonce (pre_data s0 a) = 0 ∧ a_code (pre_data s0 a) = 0 ∧ origin_blank j a o = true)
    ∧ (o_sd o = true ∨ r158 r && obj_empty o = true → ∀ k, view_state s0 a k = 0).

Lemma fin_guard_sd s0 j r a o :
  fin_guard s0 j r a → j_objs j !! a = Some o → is_Some (j_muts j !! a) → sd_guard s0 j a o.
Proof.
  intros G Ho Hm Hs. destruct (G o Ho Hm) as [G1 _]. destruct (G1 Hs) as (N1 & N2 & N3).
  split; [done|]. split; [done|]. unfold origin_blank in N3. destruct (o_origin o) as [x|]; [|done].
  apply andb_true_iff in N3 as [N3 _]. apply andb_true_iff in N3 as [N3 N4].
  by apply N.eqb_eq in N3, N4.
Qed.

Lemma rec_changes_wr idx m post oc :
  owrites (rec_changes idx m post oc) = owrites oc ∧ oreads (rec_changes idx m post oc) = oreads oc.
Proof.
  unfold rec_changes.
  destruct (s_bal m); destruct (s_nonce m); destruct (s_code m);
    repeat match goal with |- context [?x =? ?y] => destruct (x =? y) end; by destruct oc.
Qed.

Lemma committed_fin r j a o k :
  (a ∈ j_destruct (finalise r j) ↔ a ∈ j_destruct j) →
  committed (finalise r j) a o k = committed j a o k.
Proof.
  intros H. unfold committed, db_stor. rewrite fin_db. destruct (o_pending o !! k); [done|].
  by rewrite (bool_decide_ext _ _ H).
Qed.

Lemma fin_destruct_same r j a :
  (∀ o, j_objs j !! a = Some o → a ∈ dom (j_muts j) → fin_del r o = false) →
  a ∈ j_destruct (finalise r j) ↔ a ∈ j_destruct j.
Proof.
  intros H. rewrite fin_destruct. split; [|by left]. intros [?|(o & Ho & Hd & Hf)]; [done|].
  by rewrite (H o Ho Hd) in Hf.
Qed.

Definition st_write (idx post pre : N) : option (gmap N word) :=
  if post =? pre then None else Some {[idx := post]}.

Theorem net_storage_all s0 j r idx L a k :
  tx_boundary s0 → Q s0 j → wfc j → rAms r = true → fin_guard s0 j r a →
  owrites (L !! a) = ∅ →
  let R := fin_bal r idx j L in
  let post := view_state (finalise r j) a k in
  let pre := view_state s0 a k in
  owrites (R !! a) !! k = st_write idx post pre
  ∧ (k ∈ oreads (R !! a) ↔ k ∈ oreads (L !! a) ∧ post = pre).
Proof.
  intros T Hq W Hr G LW R post pre. subst R post pre. rewrite fin_bal_lookup.
  unfold view_state at 1 3. rewrite fin_objs.
  destruct (j_objs j !! a) as [o|] eqn:Eo.
  2:{ (* no object before, none after *)
    destruct (q_none _ _ Hq a Eo) as [E0 _]. unfold view_state. rewrite E0.
    replace (match j_muts j !! a with Some _ => L !! a | None => L !! a end) with (L !! a) by (by destruct (j_muts j !! a)).
    rewrite LW lookup_empty. unfold st_write. simpl. split; [done|]. tauto. }
  pose proof (committed_pre s0 j a o k T Hq Eo) as Hpre.
  destruct (q_obj _ _ Hq a o Eo) as (A1 & _ & _ & _ & A5 & A6).
  destruct (j_muts j !! a) as [m|] eqn:Em.
  2:{ (* untouched object *)
    rewrite bool_decide_false; [by apply not_elem_of_dom|].
    rewrite LW lookup_empty. unfold get_state.
    rewrite A5; [unfold in_muts; rewrite Em; by apply bool_decide_eq_false; intros []|].
    rewrite lookup_empty committed_fin.
    { apply fin_destruct_same. intros o' _ Hd. by apply not_elem_of_dom in Em. }
    rewrite Hpre. unfold st_write. rewrite N.eqb_refl. split; [done|]. tauto. }
  rewrite bool_decide_true; [by apply elem_of_dom|].
  destruct (G o Eo (ltac:(by eexists))) as [G1 G2].
  unfold fin_rec. destruct (rec_changes_wr idx m (fin_obj r o)
    (if o_sd o then L !! a else if r158 r && obj_empty o then L !! a else fin_writes idx (o_dirty o) (L !! a))) as [-> ->].
  unfold fin_obj. rewrite Hr.
  destruct (o_sd o) eqn:Es.
  { (* self-destructed: nothing recorded; storage was and is blank *)
    rewrite (G2 (or_introl eq_refl) k) LW lookup_empty.
    destruct (G1 eq_refl) as (_ & _ & Hob).
    assert (Hz : match (if negb (a_bal (o_data o) =? 0)
                        then Some (new_object (o_origin o) <| o_data ::= λ d, d <| a_bal := a_bal (o_data o) |> |>) else None) with
                 | Some o0 => get_state (finalise r j) a o0 k | None => 0 end = 0).
    { destruct (negb (a_bal (o_data o) =? 0)); [|done].
      set (no := new_object (o_origin o) <| o_data ::= λ d, d <| a_bal := a_bal (o_data o) |> |>).
      assert (Hnd : o_dirty no = ∅) by done. assert (Hnp : o_pending no = ∅) by done.
      unfold get_state, committed, db_stor. rewrite Hnd Hnp !lookup_empty fin_db.
      case_bool_decide; [done|]. unfold origin_blank in Hob. destruct (o_origin o) as [x|] eqn:Eor.
      - apply andb_true_iff in Hob as [_ Hob]. destruct (j_db j !! a) as [d|]; [|done].
        apply bool_decide_eq_true in Hob. rewrite Hob. done.
      - destruct (A6 eq_refl) as [Hx|Hd].
        + exfalso. apply H. apply fin_destruct. left. by rewrite (q_destruct _ _ Hq).
        + by rewrite (q_db _ _ Hq) Hd. }
    rewrite Hz. unfold st_write. simpl. split; [done|]. tauto. }
  destruct (r158 r && obj_empty o) eqn:Ee.
  { (* deleted as empty: nothing recorded; storage was blank *)
    rewrite (G2 (or_intror eq_refl) k) LW lookup_empty. unfold st_write. simpl. split; [done|]. tauto. }
  (* kept: obj.finalise *)
  destruct (fin_writes_spec idx (o_dirty o) (L !! a) k) as [-> ->]. rewrite LW lookup_empty.
  assert (Hpost : get_state (finalise r j) a (obj_finalise o) k =
                  match o_dirty o !! k with Some v => v | None => committed j a o k end).
  { unfold get_state. replace (o_dirty (obj_finalise o)) with (∅ : gmap slot word) by (by destruct o).
    rewrite lookup_empty. unfold committed at 1. replace (o_pending (obj_finalise o)) with (o_dirty o ∪ o_pending o) by (by destruct o).
    rewrite lookup_union. destruct (o_dirty o !! k) as [v|] eqn:Ed; simpl.
    - by destruct (o_pending o !! k).
    - rewrite left_id. fold (committed (finalise r j) a o k). apply committed_fin.
      apply fin_destruct_same. intros o' Ho' _. rewrite Eo in Ho'. injection Ho' as <-.
      unfold fin_del, fin_obj. by rewrite Hr Es Ee. }
  rewrite Hpost -Hpre. destruct (o_dirty o !! k) as [v|] eqn:Ed; simpl.
  - pose proof (wc_dirty _ W a o k v Eo Ed) as Hne. unfold st_write.
    destruct (v =? committed j a o k) eqn:Ev; [by apply N.eqb_eq in Ev|].
    split; [by rewrite insert_empty|]. split.
    + intros [_ Hn]%elem_of_difference. exfalso. apply Hn. apply elem_of_dom. by eexists.
    + by intros [_ ?].
  - unfold st_write. rewrite N.eqb_refl. split; [done|]. split.
    + intros [? _]%elem_of_difference. done.
    + intros [? _]. apply elem_of_difference. split; [done|]. by apply not_elem_of_dom.
Qed.

(* ------------------------------------------------------------------ *)
(* during the body only reads are recorded; the recorded slot reads are exactly the keys
   passed to stateObject.GetCommittedState *)
Definition reads_only (L : cbal) : Prop :=
  ∀ a, owrites (L !! a) = ∅ ∧ obal (L !! a) = ∅ ∧ ononce (L !! a) = ∅ ∧ ocode (L !! a) = ∅.

(* the keys a call passes to GetCommittedState (SetState always; GetState unless the slot is
   dirty; GetCommittedState; the latter two only when the account exists) *)
Definition op_touch (j : jstate) (o : bop) : gset (addr * slot) :=
  match o with
  | BOp (OSetState a k _) => {[(a, k)]}
  | BGet (QState a k) =>
      match j_objs j !! a with
      | Some o => match o_dirty o !! k with Some _ => ∅ | None => {[(a, k)]} end
      | None => ∅
      end
  | BGet (QCommitted a k) => match j_objs j !! a with Some _ => {[(a, k)]} | None => ∅ end
  | _ => ∅
  end.
Fixpoint touched (b : bstate) (ops : list bop) : gset (addr * slot) :=
  match ops with
  | [] => ∅
  | o :: rest => op_touch (b_j b) o ∪ touched (step_b b o).1 rest
  end.

Definition rd_ext (L L' : cbal) (T : gset (addr * slot)) : Prop :=
  reads_only L' ∧ ∀ a k, k ∈ oreads (L' !! a) ↔ k ∈ oreads (L !! a) ∨ (a, k) ∈ T.

Lemma rd_refl L : reads_only L → rd_ext L L ∅.
Proof. intros H. split; [done|]. intros a k. set_solver. Qed.

Lemma rd_trans L L1 L2 T1 T2 : rd_ext L L1 T1 → rd_ext L1 L2 T2 → rd_ext L L2 (T1 ∪ T2).
Proof. intros [_ H1] [R2 H2]. split; [done|]. intros a k. rewrite H2 H1. set_solver. Qed.

Lemma on_acct_lookup a f L b :
  on_acct a f L !! b = match decide (b = a) with left _ => Some (f (default ca0 (L !! a))) | right _ => L !! b end.
Proof.
  unfold on_acct. destruct (decide (b = a)) as [->|Hne].
  - by rewrite lookup_partial_alter.
  - by rewrite lookup_partial_alter_ne.
Qed.

Lemma proj_default (oc : option caccess) :
  ca_writes (default ca0 oc) = owrites oc ∧ ca_reads (default ca0 oc) = oreads oc ∧
  ca_bal (default ca0 oc) = obal oc ∧ ca_nonce (default ca0 oc) = ononce oc ∧ ca_code (default ca0 oc) = ocode oc.
Proof. by destruct oc. Qed.

Lemma rd_account_read a L : reads_only L → rd_ext L (account_read a L) ∅.
Proof.
  intros H. unfold account_read. split.
  - intros b. rewrite on_acct_lookup. destruct (decide (b = a)) as [->|]; [|apply H].
    unfold owrites, oreads, obal, ononce, ocode. simpl.
    destruct (proj_default (L !! a)) as (-> & _ & -> & -> & ->). apply H.
  - intros b k. rewrite on_acct_lookup. destruct (decide (b = a)) as [->|]; [|set_solver].
    unfold oreads at 1. simpl. destruct (proj_default (L !! a)) as (_ & -> & _). set_solver.
Qed.

Lemma rd_storage_read a k L : reads_only L → rd_ext L (storage_read a k L) {[(a, k)]}.
Proof.
  intros H. unfold storage_read.
  assert (Hw : ca_writes (default ca0 (L !! a)) !! k = None).
  { destruct (proj_default (L !! a)) as (-> & _). destruct (H a) as (-> & _). done. }
  split.
  - intros b. rewrite on_acct_lookup. destruct (decide (b = a)) as [->|]; [|apply H].
    unfold ca_storage_read. rewrite Hw. unfold owrites, oreads, obal, ononce, ocode. simpl.
    destruct (proj_default (L !! a)) as (E1 & _ & E3 & E4 & E5).
    destruct (default ca0 (L !! a)); simpl in *. subst. apply H.
  - intros b k'. rewrite on_acct_lookup. destruct (decide (b = a)) as [->|Hne]; [|set_solver].
    unfold ca_storage_read. rewrite Hw. unfold oreads at 1. simpl.
    destruct (proj_default (L !! a)) as (_ & E2 & _).
    destruct (default ca0 (L !! a)); simpl in *. subst. set_solver.
Qed.

Lemma rd_revert_reads L es :
  reads_only L →
  rd_ext L (foldl (λ L e, match revert_reads e with Some a => account_read a L | None => L end) L es) ∅.
Proof.
  revert L. induction es as [|e es IH]; intros L H; simpl; [by apply rd_refl|].
  destruct (revert_reads e) as [a|]; [|by apply IH].
  pose proof (rd_account_read a L H) as H1. pose proof (IH _ (proj1 H1)) as H2.
  pose proof (rd_trans _ _ _ _ _ H1 H2) as H3. by rewrite left_id_L in H3.
Qed.

Local Ltac rdar H := eapply rd_account_read; exact H.

Lemma rd_op_reads j o L : reads_only L → rd_ext L (op_reads j o L) (op_touch j (BOp o)).
Proof.
  intros H. destruct o; simpl; try (by apply rd_refl); try (by apply rd_account_read).
  - pose proof (rd_account_read a L H) as H1. pose proof (rd_storage_read a k _ (proj1 H1)) as H2.
    pose proof (rd_trans _ _ _ _ _ H1 H2) as H3. by rewrite left_id_L in H3.
  - destruct (find_revision id (j_revs j)) as [[idx rest]|]; [|by apply rd_refl]. by apply rd_revert_reads.
Qed.

Lemma rd_get_reads j q L : reads_only L → rd_ext L (get_reads j q L) (op_touch j (BGet q)).
Proof.
  intros H.
  assert (Hs : ∀ a k, rd_ext L (storage_read a k (account_read a L)) {[(a, k)]}).
  { intros a k. pose proof (rd_account_read a L H) as H1. pose proof (rd_storage_read a k _ (proj1 H1)) as H2.
    pose proof (rd_trans _ _ _ _ _ H1 H2) as H3. by rewrite left_id_L in H3. }
  destruct q; simpl; try (by apply rd_refl); try (by apply rd_account_read).
  - destruct (j_objs j !! a) as [o|]; [|by apply rd_account_read].
    destruct (o_dirty o !! k); [by apply rd_account_read|apply Hs].
  - destruct (j_objs j !! a) as [o|]; [apply Hs|by apply rd_account_read].
Qed.

(* the body keeps the list open, keeps blockAccessIndex, and extends the reads by [touched] *)
Lemma rec_set_j f b j1 :
  b_acc (rec f (b <| b_j := j1 |>)) = f <$> b_acc b ∧ b_idx (rec f (b <| b_j := j1 |>)) = b_idx b.
Proof. by destruct b. Qed.
Lemma rec_plain f b : b_acc (rec f b) = f <$> b_acc b ∧ b_idx (rec f b) = b_idx b.
Proof. by destruct b. Qed.

Lemma step_b_reads b o L :
  body_op (b_j b) o → b_acc b = Some L → reads_only L →
  ∃ L', b_acc (step_b b o).1 = Some L' ∧ rd_ext L L' (op_touch (b_j b) o) ∧ b_idx (step_b b o).1 = b_idx b.
Proof.
  intros Hb Ha Hr. destruct o as [o| | |q]; try done.
  - unfold step_b. destruct o; try done; cbv beta iota zeta;
      destruct (step_j (b_j b) _) as [j1 w]; cbn [fst];
      match goal with |- context [rec ?f (b <| b_j := j1 |>)] => destruct (rec_set_j f b j1) as [-> ->] end;
      rewrite Ha; cbn [fmap option_fmap option_map]; eexists; (split; [reflexivity|]); (split; [|reflexivity]);
      match goal with |- rd_ext _ (op_reads _ ?o _) _ => apply (rd_op_reads (b_j b) o L Hr) end.
  - unfold step_b. cbn [fst]. destruct (rec_plain (get_reads (b_j b) q) b) as [-> ->]. rewrite Ha. simpl.
    eexists. split; [reflexivity|]. split; [|done]. by apply rd_get_reads.
Qed.

Lemma run_b_reads b ops L :
  body_ok b ops → b_acc b = Some L → reads_only L →
  ∃ L', b_acc (run_b b ops) = Some L' ∧ rd_ext L L' (touched b ops) ∧ b_idx (run_b b ops) = b_idx b.
Proof.
  revert b L. induction ops as [|o rest IH]; intros b L Hb Ha Hr.
  - exists L. split; [done|]. split; [by apply rd_refl|done].
  - destruct Hb as [H1 H2]. destruct (step_b_reads b o L H1 Ha Hr) as (L1 & A1 & R1 & I1).
    destruct (IH _ L1 H2 A1 (proj1 R1)) as (L2 & A2 & R2 & I2).
    exists L2. simpl. split; [done|]. split; [by eapply rd_trans|congruence].
Qed.

(* ------------------------------------------------------------------ *)
(* SetTxContext and Prepare do not touch the part of the state the list depends on *)
Lemma al_add_address_core a j : core_eq (al_add_address a j).1 j.
Proof. unfold al_add_address. destruct (j_ala j !! a); simpl; [done|]. by destruct j. Qed.

Lemma al_add_slot_core a k j : core_eq (al_add_slot a k j).1.1 j.
Proof.
  unfold al_add_slot. destruct (j_ala j !! a) as [idx|]; simpl; [|by destruct j].
  destruct (idx =? -1)%Z; simpl; [by destruct j|].
  destruct (j_als j !! Z.to_nat idx); simpl; [|by destruct j].
  case_bool_decide; simpl; [done|by destruct j].
Qed.

Lemma prepare_al_core r s c d l j : core_eq (prepare_al r s c d l j) j.
Proof.
  unfold prepare_al.
  set (j0 := j <| j_ala := ∅ |> <| j_als := [] |>).
  assert (H0 : core_eq j0 j) by (by destruct j).
  set (j1 := (al_add_address s j0).1).
  assert (H1 : core_eq j1 j) by (eapply core_eq_trans; [apply al_add_address_core|done]).
  set (j2 := match d with Some d0 => (al_add_address d0 j1).1 | None => j1 end).
  assert (H2 : core_eq j2 j).
  { subst j2. destruct d; [|done]. eapply core_eq_trans; [apply al_add_address_core|done]. }
  set (j3 := foldl _ j2 l).
  assert (H3 : core_eq j3 j).
  { subst j3. clearbody j2. clear -H2. revert j2 H2. induction l as [|e l IH]; intros j2 H2; simpl; [done|].
    apply IH. set (ja := (al_add_address e.1 j2).1).
    assert (Ha : core_eq ja j) by (eapply core_eq_trans; [apply al_add_address_core|done]).
    clearbody ja. clear H2. revert ja Ha. induction (e.2) as [|k ks IHk]; intros ja Ha; simpl; [done|].
    apply IHk. eapply core_eq_trans; [apply al_add_slot_core|done]. }
  destruct (rShanghai r); [|done]. eapply core_eq_trans; [apply al_add_address_core|done].
Qed.

Lemma tx_start_core j th ti r s c d l : core_eq (step_j j (OTxStart th ti r s c d l)).1 j.
Proof.
  simpl. set (j1 := j <| j_th := th |> <| j_ti := ti |>).
  assert (H1 : core_eq j1 j) by (by destruct j).
  set (j2 := if r2929 r then prepare_al r s c d l j1 else j1).
  assert (H2 : core_eq j2 j).
  { subst j2. destruct (r2929 r); [|done]. eapply core_eq_trans; [apply prepare_al_core|done]. }
  clearbody j2. by destruct j2.
Qed.

(* ------------------------------------------------------------------ *)
(* bal_net_changes: one whole transaction on the recording StateDB *)
Definition tx_ops (th ti idx : N) (r : rules) (s c : addr) (d : option addr) (l : list (addr * list slot))
           (body : list bop) : list bop :=
  BSetTx th ti idx :: BPrepare r s c d l :: body.

Theorem bal_net_changes_tx b0 th ti idx r s c d l body :
  tx_boundary (b_j b0) → rAms r = true →
  let b1 := run_b b0 [BSetTx th ti idx; BPrepare r s c d l] in
  body_ok b1 body →
  let b2 := run_b b1 body in
  (∀ a, fin_guard (b_j b0) (b_j b2) r a) →
  let b3 := (step_b b2 (BOp (OFinalise r))).1 in
  ∃ R, (step_b b2 (BOp (OFinalise r))).2 = BFin (Some R) ∧ b_acc b3 = None ∧
  ∀ a,
    let pre := pre_data (b_j b0) a in let post := pre_data (b_j b3) a in
    obal (R !! a) = upd_set idx (a_bal post) (a_bal pre)
    ∧ ononce (R !! a) = upd_set idx (a_nonce post) (a_nonce pre)
    ∧ ocode (R !! a) = upd_set idx (a_code post) (a_code pre)
    ∧ ∀ k, owrites (R !! a) !! k = st_write idx (view_state (b_j b3) a k) (view_state (b_j b0) a k)
           ∧ (k ∈ oreads (R !! a) ↔ (a, k) ∈ touched b1 body ∧ view_state (b_j b3) a k = view_state (b_j b0) a k).
Proof.
  intros T Hr b1 Hb b2 G b3.
  set (s0 := b_j b0) in *.
  assert (H1 : core_eq (b_j b1) s0 ∧ b_acc b1 = Some ∅ ∧ b_idx b1 = idx).
  { subst b1. unfold run_b. simpl. destruct b0 as [j0 acc0 idx0]; simpl in *. rewrite Hr. split; [|done].
    pose proof (tx_start_core (j0 <| j_th := th |> <| j_ti := ti |>) th ti r s c d l) as H. simpl in H.
    eapply core_eq_trans; [exact H|]. subst s0. by destruct j0. }
  destruct H1 as (Hc & Ha & Hi).
  destruct (stash_invariant s0 b1 body T Hc Hb) as [Hq W]. fold b2 in Hq, W.
  assert (R0 : reads_only ∅).
  { intros a. by rewrite lookup_empty. }
  destruct (run_b_reads b1 body ∅ Hb Ha R0) as (L & HL & [RL RT] & HI). fold b2 in HL, HI.
  exists (fin_bal r idx (b_j b2) L).
  assert (E : step_b b2 (BOp (OFinalise r)) =
              (b2 <| b_j := finalise r (b_j b2) |> <| b_acc := None |>, BFin (Some (fin_bal r idx (b_j b2) L)))).
  { simpl. rewrite Hr HL HI Hi. done. }
  subst b3. rewrite E. split; [done|]. split; [by destruct b2|].
  replace (b_j (b2 <| b_j := finalise r (b_j b2) |> <| b_acc := None |>, BFin (Some (fin_bal r idx (b_j b2) L))).1)
    with (finalise r (b_j b2)) by (by destruct b2).
  intros a pre post. destruct (RL a) as (L1 & L2 & L3 & L4).
  destruct (net_fields_all s0 (b_j b2) r idx L a Hq Hr) as (F1 & F2 & F3); try done.
  { intros o Ho Hm. by apply (fin_guard_sd s0 (b_j b2) r a o (G a) Ho Hm). }
  split; [exact F1|]. split; [exact F2|]. split; [exact F3|].
  intros k. destruct (net_storage_all s0 (b_j b2) r idx L a k T Hq W Hr (G a) L1) as [S1 S2].
  split; [exact S1|]. rewrite S2 RT. rewrite lookup_empty. set_solver.
Qed.

(* ------------------------------------------------------------------ *)
(* Finalise re-establishes the transaction boundary: the per-transaction theorem chains
   over all transactions of a block *)
Lemma fin_cleared r j : j_entries (finalise r j) = [] ∧ j_muts (finalise r j) = ∅.
Proof. unfold finalise, clear_internal. by destruct j. Qed.

Lemma fin_obj_shape r o o' :
  fin_obj r o = Some o' → o_dirty o' = ∅ ∧ o_origin o' = o_origin o.
Proof.
  unfold fin_obj. destruct (rAms r).
  - destruct (o_sd o).
    + destruct (negb (a_bal (o_data o) =? 0)); [|done]. intros [= <-]. done.
    + destruct (r158 r && obj_empty o); [done|]. intros [= <-]. by destruct o.
  - destruct (o_sd o || r158 r && obj_empty o); [done|]. intros [= <-]. by destruct o.
Qed.

Theorem tx_boundary_finalise s0 j r : Q s0 j → wfc j → tx_boundary (finalise r j).
Proof.
  intros Hq W. destruct (fin_cleared r j) as [E M].
  assert (HD : ∀ a o', j_objs (finalise r j) !! a = Some o' → o_dirty o' = ∅).
  { intros a o'. rewrite fin_objs. destruct (j_objs j !! a) as [o|] eqn:Eo; [|done].
    case_bool_decide as Hd.
    - intros H. by apply fin_obj_shape in H as [? _].
    - intros [= <-]. destruct (q_obj _ _ Hq a o Eo) as (_ & _ & _ & _ & A5 & _). apply A5.
      rewrite in_muts_dom. by apply bool_decide_eq_false. }
  split; [|done|done|exact HD|].
  - split.
    + intros a m. by rewrite M lookup_empty.
    + intros a o k d Ho Hd. by rewrite (HD a o Ho) lookup_empty in Hd.
    + intros a. rewrite fin_objs fin_db. destruct (j_objs j !! a) as [o|] eqn:Eo.
      * case_bool_decide as Hd; [|done]. intros Hf. left. apply fin_destruct. right. exists o.
        split; [done|]. split; [done|]. unfold fin_del. by rewrite Hf.
      * intros _. destruct (wc_eager _ W a Eo) as [?|?]; [left; apply fin_destruct; by left|by right].
  - intros a o'. rewrite fin_objs fin_db. destruct (j_objs j !! a) as [o|] eqn:Eo; [|done].
    destruct (q_obj _ _ Hq a o Eo) as (_ & _ & _ & _ & _ & A6).
    assert (Hor : o_origin o = None → a ∈ j_destruct (finalise r j) ∨ j_db j !! a = None).
    { intros Hn. destruct (A6 Hn) as [?|?]; [left; apply fin_destruct; left; by rewrite (q_destruct _ _ Hq)|right; by rewrite (q_db _ _ Hq)]. }
    case_bool_decide as Hd.
    + intros H Hn. apply fin_obj_shape in H as [_ Ho']. apply Hor. congruence.
    + intros [= <-]. exact Hor.
Qed.

(* ------------------------------------------------------------------ *)
(* the storage guard cannot be dropped: an empty account that has storage is deleted by
   EIP-158 when touched; its slot goes from 5 to 0 and nothing is recorded *)
Definition db_empty_with_storage : database :=
  {[ 1 := {| d_acct := acct0; d_stor := {[ 0 := 5 ]} |} ]}.
Definition unguarded_ops : list bop :=
  [BSetTx 1 0 1; BPrepare r_ams 1 2 None []; BOp (OAddBalance 1 0)].
Definition unguarded_check : bool :=
  let b0 := init_b db_empty_with_storage in
  let b2 := run_b b0 unguarded_ops in
  match step_b b2 (BOp (OFinalise r_ams)) with
  | (b3, BFin (Some R)) =>
      (view_state (b_j b0) 1 0 =? 5) && (view_state (b_j b3) 1 0 =? 0)
      && match owrites (R !! 1) !! 0 with None => true | Some _ => false end
      && bool_decide (is_Some (R !! 1))
  | _ => false
  end.
