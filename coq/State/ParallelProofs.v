(* State/ParallelProofs.v — proofs about State/Parallel.v (C33). *)
From Coq Require Import List NArith Bool Lia PeanoNat.
From GV Require Import State.Parallel.
Import ListNotations.
Local Open Scope N_scope.

Section Proofs.
  Variables K V Out D : Type.
  Variable keqb : K -> K -> bool.
  Variable kltb : K -> K -> bool.
  Variable veqb : V -> V -> bool.
  Variable deqb : D -> D -> bool.
  Hypothesis keqb_spec : forall a b, keqb a b = true <-> a = b.
  Hypothesis veqb_spec : forall a b, veqb a b = true <-> a = b.
  Variable A : Type.
  Variable acct_of : K -> A.
  Variable aeqb : A -> A -> bool.
  Hypothesis aeqb_spec : forall a b, aeqb a b = true <-> a = b.

  Notation view := (view K V).
  Notation effects := (effects K V Out).
  Notation tx := (tx K V Out).
  Notation cbal := (cbal K V).
  Notation bal := (bal K V).
  Notation aget := (@aget K keqb).
  Notation aset := (@aset K keqb).
  Notation kmem := (kmem K keqb).
  Notation dedup := (dedup K keqb).
  Notation upd := (upd K V keqb).
  Notation apply_writes := (apply_writes K V keqb).
  Notation net := (net K V keqb veqb).
  Notation merge_w := (merge_w K V keqb).
  Notation cb_merge := (cb_merge K V keqb).
  Notation tx_cbal := (tx_cbal K V Out keqb veqb).
  Notation to_encoding := (to_encoding K V kltb).
  Notation overlay := (overlay K V keqb A acct_of aeqb).
  Notation apply_bal := (apply_bal K V keqb).
  Notation bal_lookup := (bal_lookup K V keqb A acct_of aeqb).
  Notation aaget := (aaget K V A aeqb).
  Notation aaset := (aaset K V A aeqb).
  Notation index_add := (index_add K V keqb A acct_of aeqb).
  Notation build_lookup := (build_lookup K V keqb A acct_of aeqb).
  Notation lookup_key := (lookup_key K V keqb A acct_of aeqb).

  Lemma keqb_refl k : keqb k k = true.
  Proof. apply keqb_spec; reflexivity. Qed.
  Lemma keqb_false a b : keqb a b = false <-> a <> b.
  Proof.
    split; intros H.
    - intros E. apply keqb_spec in E. congruence.
    - destruct (keqb a b) eqn:E; auto. apply keqb_spec in E. contradiction.
  Qed.

  (* ---------- association lists ---------- *)
  Lemma aget_aset_same {X} k (a : X) l : aget k (aset k a l) = Some a.
  Proof.
    induction l as [|[k0 a0] r IH]; simpl.
    - rewrite keqb_refl; reflexivity.
    - destruct (keqb k0 k) eqn:E; simpl; rewrite E; auto.
  Qed.
  Lemma aget_aset_other {X} k k' (a : X) l : k <> k' -> aget k' (aset k a l) = aget k' l.
  Proof.
    intros N. induction l as [|[k0 a0] r IH]; simpl.
    - apply keqb_false in N. rewrite N. reflexivity.
    - destruct (keqb k0 k) eqn:E; simpl.
      + apply keqb_spec in E; subst k0. apply keqb_false in N. rewrite N. reflexivity.
      + destruct (keqb k0 k'); auto.
  Qed.
  Lemma aget_None_notin {X} k (l : list (K * X)) : aget k l = None <-> ~ In k (map fst l).
  Proof.
    induction l as [|[k0 a0] r IH]; simpl.
    - tauto.
    - destruct (keqb k0 k) eqn:E.
      + apply keqb_spec in E. split; [discriminate | intros H; exfalso; apply H; auto].
      + apply keqb_false in E. rewrite IH. tauto.
  Qed.
  Lemma in_keys_aset {X} x k (a : X) l :
    In x (map fst (aset k a l)) -> x = k \/ In x (map fst l).
  Proof.
    induction l as [|[k0 a0] r IH]; simpl.
    - intros [H|[]]; auto.
    - destruct (keqb k0 k) eqn:E; simpl; [tauto|]. intros [H|H]; auto. apply IH in H. tauto.
  Qed.
  Lemma nodup_aset {X} k (a : X) l : NoDup (map fst l) -> NoDup (map fst (aset k a l)).
  Proof.
    induction l as [|[k0 a0] r IH]; simpl; intros H.
    - constructor; [tauto | constructor].
    - inversion H as [|? ? Hn Hr]; subst. destruct (keqb k0 k) eqn:E; simpl.
      + constructor; auto.
      + constructor; auto. intros Hin. apply in_keys_aset in Hin. destruct Hin as [->|Hin]; auto.
        rewrite keqb_refl in E. discriminate.
  Qed.
  Lemma kmem_In k l : kmem k l = true <-> In k l.
  Proof.
    unfold Parallel.kmem. rewrite existsb_exists. split.
    - intros [x [Hi E]]. apply keqb_spec in E. subst. auto.
    - intros H. exists k. split; auto. apply keqb_refl.
  Qed.

  (* ---------- dedup ---------- *)
  Lemma in_dedup x l : In x (dedup l) <-> In x l.
  Proof.
    induction l as [|k r IH]; simpl; [tauto|].
    rewrite filter_In, IH. destruct (keqb x k) eqn:E.
    - apply keqb_spec in E. subst. simpl. intuition.
    - apply keqb_false in E. simpl. intuition congruence.
  Qed.
  Lemma nodup_dedup l : NoDup (dedup l).
  Proof.
    induction l as [|k r IH]; simpl; constructor.
    - rewrite filter_In. intros [_ H]. rewrite keqb_refl in H. discriminate.
    - apply NoDup_filter. exact IH.
  Qed.

  (* ---------- net changes ---------- *)
  Lemma apply_writes_notin ws : forall (v : view) k, ~ In k (map fst ws) -> apply_writes v ws k = v k.
  Proof.
    unfold Parallel.apply_writes.
    induction ws as [|[k0 x0] r IH]; simpl; intros v k H; auto.
    rewrite IH by tauto. unfold Parallel.upd. simpl.
    destruct (keqb k k0) eqn:E; auto. apply keqb_spec in E. subst. tauto.
  Qed.

  Lemma aget_flat_map (g : K -> option V) l k :
    aget k (flat_map (fun k' => match g k' with Some x => [(k', x)] | None => [] end) l)
    = if kmem k l then g k else None.
  Proof.
    induction l as [|k0 r IH]; simpl; auto.
    destruct (keqb k k0) eqn:E.
    - apply keqb_spec in E. subst k0. simpl. destruct (g k) eqn:G; simpl.
      + rewrite keqb_refl. reflexivity.
      + rewrite IH. destruct (kmem k r); auto.
    - simpl. destruct (g k0) eqn:G; simpl; auto.
      assert (keqb k0 k = false) as ->; auto.
      apply keqb_false. apply keqb_false in E. congruence.
  Qed.

  Definition netf (v : view) (ws : list (K * V)) (k : K) : option V :=
    if veqb (apply_writes v ws k) (v k) then None else Some (apply_writes v ws k).

  Lemma net_eq v ws :
    net v ws = flat_map (fun k => match netf v ws k with Some x => [(k, x)] | None => [] end)
                        (dedup (map fst ws)).
  Proof.
    unfold Parallel.net, netf. apply flat_map_ext. intros k.
    destruct (veqb _ _); reflexivity.
  Qed.

  Lemma aget_net v ws k :
    aget k (net v ws) = if kmem k (map fst ws) then netf v ws k else None.
  Proof.
    rewrite net_eq, aget_flat_map.
    destruct (kmem k (dedup (map fst ws))) eqn:HA, (kmem k (map fst ws)) eqn:B; auto.
    - apply (proj1 (kmem_In _ _)) in HA. apply (proj1 (in_dedup _ _)) in HA.
      apply (proj2 (kmem_In _ _)) in HA. congruence.
    - apply (proj1 (kmem_In _ _)) in B. apply (proj2 (in_dedup _ _)) in B.
      apply (proj2 (kmem_In _ _)) in B. congruence.
  Qed.

  (* the state after a phase = its net changes laid over the state before *)
  Lemma apply_writes_net v ws k :
    apply_writes v ws k = match aget k (net v ws) with Some x => x | None => v k end.
  Proof.
    rewrite aget_net. destruct (kmem k (map fst ws)) eqn:M.
    - unfold netf. destruct (veqb _ _) eqn:E; auto. apply veqb_spec in E. exact E.
    - apply apply_writes_notin. intros H. apply kmem_In in H. congruence.
  Qed.

  Lemma in_keys_flat_map (g : K -> option V) l x :
    In x (map fst (flat_map (fun k' => match g k' with Some y => [(k', y)] | None => [] end) l))
    -> In x l.
  Proof.
    induction l as [|k0 r IH]; simpl; auto.
    rewrite map_app, in_app_iff. intros [H|H]; auto.
    destruct (g k0); simpl in H; tauto.
  Qed.
  Lemma nodup_keys_flat_map (g : K -> option V) l :
    NoDup l ->
    NoDup (map fst (flat_map (fun k' => match g k' with Some y => [(k', y)] | None => [] end) l)).
  Proof.
    induction l as [|k0 r IH]; simpl; intros H; [constructor|].
    inversion H; subst. rewrite map_app. destruct (g k0); simpl; auto.
    constructor; auto. intros Hin. apply in_keys_flat_map in Hin. contradiction.
  Qed.
  Lemma nodup_net v ws : NoDup (map fst (net v ws)).
  Proof. rewrite net_eq. apply nodup_keys_flat_map, nodup_dedup. Qed.

  Lemma apply_writes_ext ws : forall (v v' : view),
    (forall k, v k = v' k) -> forall k, apply_writes v ws k = apply_writes v' ws k.
  Proof.
    unfold Parallel.apply_writes.
    induction ws as [|[k0 x0] r IH]; simpl; intros v v' H k; auto.
    apply IH. intros k1. unfold Parallel.upd. destruct (keqb k1 _); auto.
  Qed.
  Lemma net_ext v v' ws : (forall k, v k = v' k) -> net v ws = net v' ws.
  Proof.
    intros H. unfold Parallel.net. apply flat_map_ext. intros k.
    rewrite (apply_writes_ext ws v v' H k), (H k). reflexivity.
  Qed.

  (* ---------- the merged change lists ---------- *)
  (* change-list part of one phase's access list *)
  Definition ow (idx : N) (ch : list (K * V)) : list (K * list (N * V)) :=
    map (fun kx => (fst kx, [(idx, snd kx)])) ch.

  Definition dflt (o : option (list (N * V))) : list (N * V) :=
    match o with Some es => es | None => [] end.

  Lemma aget_fold_merge idx ch : forall w k,
    NoDup (map fst ch) ->
    aget k (fold_left merge_w (ow idx ch) w)
    = match aget k ch with
      | Some x => Some (iset V idx x (dflt (aget k w)))
      | None => aget k w
      end.
  Proof.
    induction ch as [|[k0 x0] r IH]; simpl; intros w k ND; auto.
    inversion ND as [|? ? Hn Hr]; subst.
    rewrite IH by assumption.
    assert (Hw : merge_w w (k0, [(idx, x0)])
                 = aset k0 (iset V idx x0 (dflt (aget k0 w))) w) by reflexivity.
    rewrite Hw. clear Hw.
    destruct (keqb k0 k) eqn:E.
    - apply keqb_spec in E. subst k0.
      assert (aget k r = None) as -> by (apply aget_None_notin; exact Hn).
      rewrite aget_aset_same. reflexivity.
    - apply keqb_false in E. rewrite aget_aset_other by assumption. reflexivity.
  Qed.

  Lemma nodup_fold_merge l : forall w, NoDup (map fst w) -> NoDup (map fst (fold_left merge_w l w)).
  Proof.
    induction l as [|x r IH]; simpl; intros w H; auto.
    apply IH. unfold Parallel.merge_w. apply nodup_aset. exact H.
  Qed.

  (* all phases: items (idx, net changes), indices consecutive from idx *)
  Fixpoint chain (w : list (K * list (N * V))) (idx : N) (nets : list (list (K * V))) :=
    match nets with
    | [] => w
    | ch :: r => chain (fold_left merge_w (ow idx ch) w) (idx + 1) r
    end.
  (* the change history of key k *)
  Fixpoint hist (idx : N) (nets : list (list (K * V))) (k : K) : list (N * V) :=
    match nets with
    | [] => []
    | ch :: r => match aget k ch with
                 | Some x => (idx, x) :: hist (idx + 1) r k
                 | None => hist (idx + 1) r k
                 end
    end.

  Lemma hist_bounds nets : forall idx k i x,
    In (i, x) (hist idx nets k) -> idx <= i /\ i < idx + N.of_nat (length nets).
  Proof.
    induction nets as [|ch r IH]; simpl; intros idx k i x H; [tauto|].
    destruct (aget k ch).
    - destruct H as [H|H].
      + inversion H; subst. lia.
      + apply IH in H. lia.
    - apply IH in H. lia.
  Qed.

  Lemma iset_fresh i x l : (forall j y, In (j, y) l -> j <> i) -> iset V i x l = l ++ [(i, x)].
  Proof.
    induction l as [|[j y] r IH]; simpl; intros H; auto.
    destruct (j =? i) eqn:E.
    - apply N.eqb_eq in E. exfalso. eapply H; eauto.
    - f_equal. apply IH. intros j' y' Hin. eapply H; eauto.
  Qed.

  Definition optl (l : list (N * V)) : option (list (N * V)) :=
    match l with [] => None | _ => Some l end.

  Lemma dflt_optl l : dflt (optl l) = l.
  Proof. destruct l; reflexivity. Qed.

  Lemma chain_spec nets : forall w idx (h0 : K -> list (N * V)),
    Forall (fun ch => NoDup (map fst ch)) nets ->
    (forall k, aget k w = optl (h0 k)) ->
    (forall k j y, In (j, y) (h0 k) -> j < idx) ->
    forall k, aget k (chain w idx nets) = optl (h0 k ++ hist idx nets k).
  Proof.
    induction nets as [|ch r IH]; simpl; intros w idx h0 ND Hw Hlt k.
    - rewrite app_nil_r. apply Hw.
    - inversion ND as [|? ? ND1 ND2]; subst.
      rewrite (IH _ (idx + 1) (fun k => h0 k ++ match aget k ch with Some x => [(idx, x)] | None => [] end)); auto.
      + rewrite <- app_assoc. destruct (aget k ch); reflexivity.
      + intros k1. rewrite aget_fold_merge by assumption.
        destruct (aget k1 ch) as [x|].
        * rewrite Hw, dflt_optl, iset_fresh.
          -- destruct (h0 k1); reflexivity.
          -- intros j y Hin. apply Hlt in Hin. lia.
        * rewrite app_nil_r. apply Hw.
      + intros k1 j y Hin. apply in_app_iff in Hin. destruct Hin as [Hin|Hin].
        * apply Hlt in Hin. lia.
        * destruct (aget k1 ch); simpl in Hin; [|tauto].
          destruct Hin as [Hin|[]]. inversion Hin; subst. lia.
  Qed.

  Lemma chain_hist nets k :
    Forall (fun ch => NoDup (map fst ch)) nets ->
    aget k (chain [] 0 nets) = optl (hist 0 nets k).
  Proof.
    intros ND. rewrite (chain_spec nets [] 0 (fun _ => [])); auto.
    intros k0 j y [].
  Qed.

  Lemma nodup_chain nets : forall w idx, NoDup (map fst w) -> NoDup (map fst (chain w idx nets)).
  Proof.
    induction nets as [|ch r IH]; simpl; intros w idx H; auto.
    apply IH. apply nodup_fold_merge. exact H.
  Qed.

  (* ---------- sorting ---------- *)
  Lemma in_insert_by {X} (lt : X -> X -> bool) a l x : In x (insert_by lt a l) <-> x = a \/ In x l.
  Proof.
    induction l as [|b r IH]; simpl.
    - intuition.
    - destruct (lt a b); simpl; [intuition|]. rewrite IH. intuition.
  Qed.
  Lemma in_sort_by {X} (lt : X -> X -> bool) l x : In x (sort_by lt l) <-> In x l.
  Proof.
    induction l as [|a r IH]; simpl; [tauto|].
    unfold sort_by in *. simpl. rewrite in_insert_by, IH. intuition.
  Qed.
  Lemma in_keys_sort_by {X} (lt : K * X -> K * X -> bool) l x :
    In x (map fst (sort_by lt l)) <-> In x (map fst l).
  Proof.
    rewrite !in_map_iff. split; intros [y [E H]]; exists y; split; auto; apply in_sort_by in H || apply in_sort_by; auto.
  Qed.

  Lemma aget_insert_by {X} (lt : K * X -> K * X -> bool) k0 (a : X) l k :
    ~ In k0 (map fst l) ->
    aget k (insert_by lt (k0, a) l) = if keqb k0 k then Some a else aget k l.
  Proof.
    induction l as [|[k1 a1] r IH]; simpl; intros H; auto.
    destruct (lt (k0, a) (k1, a1)); simpl; auto.
    rewrite IH by tauto.
    destruct (keqb k1 k) eqn:E1, (keqb k0 k) eqn:E0; auto.
    apply keqb_spec in E1, E0. subst. exfalso. apply H. auto.
  Qed.
  Lemma aget_sort_by {X} (lt : K * X -> K * X -> bool) l k :
    NoDup (map fst l) -> aget k (sort_by lt l) = aget k l.
  Proof.
    induction l as [|[k0 a0] r IH]; simpl; intros H; auto.
    inversion H; subst. unfold sort_by in *. simpl.
    rewrite aget_insert_by.
    - rewrite IH by assumption. reflexivity.
    - intros Hin. apply (in_keys_sort_by lt r k0) in Hin. contradiction.
  Qed.
  Lemma aget_map {X B} (f : X -> B) l k :
    aget k (map (fun ka => (fst ka, f (snd ka))) l) = option_map f (aget k l).
  Proof.
    induction l as [|[k0 a0] r IH]; simpl; auto.
    destruct (keqb k0 k); auto.
  Qed.

  Definition ilt (a b : N * V) : bool := fst a <? fst b.

  Lemma sort_sorted (l : list (N * V)) : strictly_sorted ilt l = true -> sort_by ilt l = l.
  Proof.
    induction l as [|a r IH]; simpl; auto.
    destruct r as [|b r'].
    - reflexivity.
    - intros H. apply andb_true_iff in H. destruct H as [H1 H2].
      unfold sort_by in *. simpl in *. rewrite IH by assumption. simpl. rewrite H1. reflexivity.
  Qed.

  Lemma ss_cons (x : N * V) l :
    (forall y, In y l -> ilt x y = true) -> strictly_sorted ilt l = true ->
    strictly_sorted ilt (x :: l) = true.
  Proof.
    intros H S. simpl. destruct l as [|b r]; auto. rewrite H by (left; auto). exact S.
  Qed.

  Lemma hist_sorted nets : forall idx k, strictly_sorted ilt (hist idx nets k) = true.
  Proof.
    induction nets as [|ch r IH]; simpl; intros idx k; auto.
    destruct (aget k ch); auto.
    apply ss_cons; auto. intros [j y] Hin. apply hist_bounds in Hin.
    unfold ilt. simpl. apply N.ltb_lt. lia.
  Qed.

  (* ---------- the Lookup index ---------- *)
  Lemma aeqb_refl a : aeqb a a = true.
  Proof. apply aeqb_spec; reflexivity. Qed.
  Lemma aaget_aaset_same a x l : aaget a (aaset a x l) = Some x.
  Proof.
    induction l as [|[a0 x0] r IH]; simpl.
    - rewrite aeqb_refl; reflexivity.
    - destruct (aeqb a0 a) eqn:E; simpl; rewrite E; auto.
  Qed.
  Lemma aaget_aaset_other a a' x l : a <> a' -> aaget a' (aaset a x l) = aaget a' l.
  Proof.
    intros Ne. assert (F : aeqb a a' = false).
    { destruct (aeqb a a') eqn:E; auto. apply aeqb_spec in E. contradiction. }
    induction l as [|[a0 x0] r IH]; simpl.
    - rewrite F. reflexivity.
    - destruct (aeqb a0 a) eqn:E; simpl.
      + apply aeqb_spec in E; subst a0. rewrite F. reflexivity.
      + destruct (aeqb a0 a'); auto.
  Qed.

  (* the change list the index holds for key k *)
  Definition get2 (l : lookup_t K V A) (k : K) : option (list (N * V)) :=
    match aaget (acct_of k) l with Some al => aget k al | None => None end.

  Lemma get2_index_add l k0 es k :
    get2 (index_add l (k0, es)) k = if keqb k0 k then Some es else get2 l k.
  Proof.
    unfold get2, Parallel.index_add. cbn [fst snd].
    destruct (aeqb (acct_of k0) (acct_of k)) eqn:EA.
    - apply aeqb_spec in EA. rewrite <- EA, aaget_aaset_same.
      destruct (keqb k0 k) eqn:E.
      + apply keqb_spec in E. subst k0. apply aget_aset_same.
      + apply keqb_false in E. rewrite aget_aset_other by assumption.
        destruct (aaget (acct_of k0) l); reflexivity.
    - assert (Ne : acct_of k0 <> acct_of k).
      { intros E. apply aeqb_spec in E. congruence. }
      rewrite aaget_aaset_other by assumption.
      assert (keqb k0 k = false) as ->; [|reflexivity].
      apply keqb_false. intros ->. contradiction.
  Qed.

  Lemma get2_build w : forall l k,
    NoDup (map fst w) ->
    get2 (fold_left index_add w l) k
    = match aget k w with Some es => Some es | None => get2 l k end.
  Proof.
    induction w as [|[k0 es] r IH]; simpl; intros l k ND; auto.
    inversion ND as [|? ? Hn Hr]; subst.
    rewrite IH by assumption. rewrite get2_index_add.
    destruct (keqb k0 k) eqn:E.
    - apply keqb_spec in E. subst k0.
      assert (aget k r = None) as -> by (apply aget_None_notin; exact Hn). reflexivity.
    - reflexivity.
  Qed.

  (* on a list with unique keys, every change list of every kind is served: the index
     lookup is the plain lookup of the key's change list *)
  Lemma bal_lookup_nodup (b : bal) k limit :
    NoDup (map fst (b_w K V b)) ->
    bal_lookup b k limit
    = match aget k (b_w K V b) with Some es => search_latest V es limit None | None => None end.
  Proof.
    intros ND. unfold Parallel.bal_lookup, Parallel.lookup_key, Parallel.build_lookup.
    pose proof (get2_build (b_w K V b) [] k ND) as G. unfold get2 in G at 1.
    destruct (aaget (acct_of k) (fold_left index_add (b_w K V b) [])) as [al|].
    - rewrite G. destruct (aget k (b_w K V b)); reflexivity.
    - destruct (aget k (b_w K V b)); [discriminate|reflexivity].
  Qed.

  Lemma nodup_keys_insert_by {B} (lt : K * B -> K * B -> bool) x l :
    ~ In (fst x) (map fst l) -> NoDup (map fst l) -> NoDup (map fst (insert_by lt x l)).
  Proof.
    induction l as [|y r IH]; simpl; intros Hn ND.
    - constructor; auto.
    - destruct (lt x y); simpl.
      + constructor; auto.
      + inversion ND; subst. constructor.
        * intros Hin. apply in_map_iff in Hin. destruct Hin as [z [Ez Hz]].
          apply in_insert_by in Hz. destruct Hz as [->|Hz]; [apply Hn; left; auto|].
          apply H1. rewrite <- Ez. apply in_map. exact Hz.
        * apply IH; auto.
  Qed.
  Lemma nodup_keys_sort_by {B} (lt : K * B -> K * B -> bool) l :
    NoDup (map fst l) -> NoDup (map fst (sort_by lt l)).
  Proof.
    induction l as [|x r IH]; simpl; intros ND; [constructor|].
    inversion ND; subst. unfold sort_by in *. simpl. apply nodup_keys_insert_by; auto.
    intros Hin. apply (in_keys_sort_by lt r (fst x)) in Hin. contradiction.
  Qed.

  (* ---------- lookups in the encoded list ---------- *)
  (* the last change of k among the given phases *)
  Definition lastchg (nets : list (list (K * V))) (k : K) (acc : option V) : option V :=
    fold_left (fun acc ch => match aget k ch with Some x => Some x | None => acc end) nets acc.

  Lemma lastchg_acc nets k : forall acc,
    lastchg nets k acc = match lastchg nets k None with Some x => Some x | None => acc end.
  Proof.
    unfold lastchg. induction nets as [|ch r IH]; simpl; intros acc; auto.
    rewrite IH. rewrite (IH (match aget k ch with Some x => Some x | None => None end)).
    destruct (fold_left _ r None); auto. destruct (aget k ch); auto.
  Qed.

  Lemma search_hist nets : forall idx k limit acc,
    search_latest V (hist idx nets k) limit acc
    = lastchg (firstn (N.to_nat (limit - idx)) nets) k acc.
  Proof.
    induction nets as [|ch r IH]; simpl; intros idx k limit acc.
    - destruct (N.to_nat (limit - idx)); reflexivity.
    - destruct (idx <? limit) eqn:L.
      + pose proof (proj1 (N.ltb_lt _ _) L) as L'.
        replace (N.to_nat (limit - idx)) with (S (N.to_nat (limit - (idx + 1)))) by lia.
        simpl. unfold lastchg. simpl. destruct (aget k ch).
        * simpl. rewrite L. apply IH.
        * apply IH.
      + pose proof (proj1 (N.ltb_ge _ _) L) as L'.
        replace (N.to_nat (limit - idx)) with O by lia. simpl. unfold lastchg. simpl.
        destruct (aget k ch).
        * simpl. rewrite L. reflexivity.
        * rewrite IH. replace (N.to_nat (limit - (idx + 1))) with O by lia. reflexivity.
  Qed.

  Lemma search_all (es : list (N * V)) limit : forall acc,
    (forall j y, In (j, y) es -> j < limit) ->
    search_latest V es limit acc
    = match last_opt es with Some ix => Some (snd ix) | None => acc end.
  Proof.
    induction es as [|[i x] r IH]; intros acc H; auto.
    cbn [search_latest].
    assert (i <? limit = true) as -> by (apply N.ltb_lt; eapply H; left; eauto).
    rewrite IH by (intros; eapply H; right; eauto).
    destruct r as [|p r']; [reflexivity|].
    change (last_opt ((i, x) :: p :: r')) with (last_opt (p :: r')).
    destruct (last_opt (p :: r')) eqn:L; auto.
    exfalso. clear -L. revert p L. induction r' as [|q r'' IH']; intros p L.
    - discriminate.
    - apply (IH' q). exact L.
  Qed.

  (* a construction list whose change part is the chain of the given phases *)
  Definition built (c : cbal) (nets : list (list (K * V))) : Prop :=
    cb_w K V c = chain [] 0 nets /\ Forall (fun ch => NoDup (map fst ch)) nets.

  Lemma aget_encoding c nets k :
    built c nets -> aget k (b_w K V (to_encoding c)) = optl (hist 0 nets k).
  Proof.
    intros [E ND]. unfold Parallel.to_encoding. simpl.
    rewrite aget_sort_by.
    - rewrite (aget_map (sort_by (fun a b => fst a <? fst b))).
      rewrite E, chain_hist by assumption.
      pose proof (sort_sorted _ (hist_sorted nets 0 k)) as S.
      destruct (hist 0 nets k) eqn:Hh; [reflexivity|].
      unfold optl, option_map. f_equal. exact S.
    - rewrite map_map. simpl. rewrite E. apply nodup_chain. constructor.
  Qed.

  Lemma search_nil limit acc : search_latest V [] limit acc = acc.
  Proof. reflexivity. Qed.

  Lemma lookup_encoding c nets k limit :
    built c nets ->
    bal_lookup (to_encoding c) k limit = lastchg (firstn (N.to_nat limit) nets) k None.
  Proof.
    intros B. rewrite bal_lookup_nodup.
    2:{ destruct B as [E _]. unfold Parallel.to_encoding. cbn [Parallel.b_w].
        apply nodup_keys_sort_by. rewrite map_map. cbn [fst]. rewrite E. apply nodup_chain. constructor. }
    rewrite (aget_encoding c nets k B).
    pose proof (search_hist nets 0 k limit None) as S. rewrite N.sub_0_r in S.
    destruct (hist 0 nets k) eqn:Hh; simpl optl.
    - rewrite <- S. reflexivity.
    - rewrite <- S. reflexivity.
  Qed.

  Lemma overlay_encoding pre c nets limit k :
    built c nets ->
    overlay pre (to_encoding c) limit k
    = match lastchg (firstn (N.to_nat limit) nets) k None with Some x => x | None => pre k end.
  Proof. intros B. unfold Parallel.overlay. rewrite (lookup_encoding c nets k limit B). reflexivity. Qed.

  Lemma apply_bal_encoding pre c nets k :
    built c nets ->
    apply_bal pre (to_encoding c) k
    = match lastchg nets k None with Some x => x | None => pre k end.
  Proof.
    intros B. unfold Parallel.apply_bal. rewrite (aget_encoding c nets k B).
    pose proof (search_hist nets 0 k (N.of_nat (length nets)) None) as S.
    rewrite N.sub_0_r, Nnat.Nat2N.id, firstn_all in S.
    rewrite search_all in S by (intros j y Hin; apply hist_bounds in Hin; lia).
    rewrite <- S. destruct (hist 0 nets k) eqn:Hh; [reflexivity|].
    unfold optl; cbv beta iota.
    destruct (last_opt (p :: l)); reflexivity.
  Qed.

  (* ================= traces of the two processors ================= *)
  Notation block := (block K V Out).
  Notation acct := (acct K V Out).
  Notation presult := (presult K V Out).
  Notation e_ok := (e_ok K V Out).
  Notation e_writes := (e_writes K V Out).
  Notation seq_txs := (seq_txs K V Out keqb veqb).
  Notation acct_step := (acct_step K V Out keqb veqb).
  Notation seq_process := (seq_process K V Out keqb veqb).
  Notation par_process := (par_process K V Out keqb veqb A acct_of aeqb).
  Notation par_acct := (par_acct K V Out keqb veqb A acct_of aeqb).
  Notation worker_exec := (worker_exec K V Out keqb A acct_of aeqb).
  Notation par_view := (par_view K V keqb A acct_of aeqb).
  Notation b_pre := (b_pre K V Out).
  Notation b_txs := (b_txs K V Out).
  Notation b_post := (b_post K V Out).
  Notation b_gaslimit := (b_gaslimit K V Out).
  Notation n_of := (n_of K V Out).
  Notation cb_empty := (cb_empty K V).

  Fixpoint seq_trace (ts : list tx) (s : view) : list (view * effects) :=
    match ts with
    | [] => []
    | t :: r => (s, t s) :: seq_trace r (apply_writes s (e_writes (t s)))
    end.
  Fixpoint state_after (ts : list tx) (s : view) : view :=
    match ts with
    | [] => s
    | t :: r => state_after r (apply_writes s (e_writes (t s)))
    end.
  Fixpoint par_trace (pre : view) (B : bal) (ts : list tx) (idx : N) : list (view * effects) :=
    match ts with
    | [] => []
    | t :: r => (overlay pre B idx, t (overlay pre B idx)) :: par_trace pre B r (idx + 1)
    end.
  Definition nets_of (tr : list (view * effects)) : list (list (K * V)) :=
    map (fun ve => net (fst ve) (e_writes (snd ve))) tr.
  Definition phases (b : block) : list tx := b_pre b :: b_txs b ++ [b_post b].

  Lemma seq_trace_app d : forall r s,
    seq_trace (d ++ r) s = seq_trace d s ++ seq_trace r (state_after d s).
  Proof. induction d as [|t d IH]; simpl; intros r s; auto. rewrite IH. reflexivity. Qed.
  Lemma state_after_app d : forall r s, state_after (d ++ r) s = state_after r (state_after d s).
  Proof. induction d as [|t d IH]; simpl; intros r s; auto. Qed.
  Lemma par_trace_app pre B d : forall r idx,
    par_trace pre B (d ++ r) idx
    = par_trace pre B d idx ++ par_trace pre B r (idx + N.of_nat (length d)).
  Proof.
    induction d as [|t d IH]; intros r idx.
    - simpl. rewrite N.add_0_r. reflexivity.
    - cbn [app par_trace length]. rewrite IH. simpl app. do 3 f_equal. lia.
  Qed.
  Lemma seq_trace_length ts : forall s, length (seq_trace ts s) = length ts.
  Proof. induction ts; simpl; intros; auto. Qed.
  Lemma par_trace_length pre B ts : forall idx, length (par_trace pre B ts idx) = length ts.
  Proof. induction ts; simpl; intros; auto. Qed.

  Lemma state_after_spec ts : forall s k,
    state_after ts s k
    = match lastchg (nets_of (seq_trace ts s)) k None with Some x => x | None => s k end.
  Proof.
    induction ts as [|t r IH]; intros s k; [reflexivity|].
    change (state_after (t :: r) s k) with (state_after r (apply_writes s (e_writes (t s))) k).
    change (nets_of (seq_trace (t :: r) s))
      with (net s (e_writes (t s)) :: nets_of (seq_trace r (apply_writes s (e_writes (t s))))).
    rewrite IH.
    assert (C : forall ch l acc, lastchg (ch :: l) k acc
                = lastchg l k (match aget k ch with Some x => Some x | None => acc end))
      by reflexivity.
    rewrite C.
    set (N1 := nets_of (seq_trace r (apply_writes s (e_writes (t s))))).
    rewrite (lastchg_acc N1 k (match aget k (net s (e_writes (t s))) with
                               | Some x => Some x | None => None end)).
    destruct (lastchg N1 k None); auto.
    rewrite apply_writes_net. destruct (aget k (net s (e_writes (t s)))); reflexivity.
  Qed.

  (* the construction list both processors accumulate *)
  Definition mk_cbal (idx : N) (ch : list (K * V)) (e : effects) : cbal :=
    {| cb_w := map (fun kx => (fst kx, [(idx, snd kx)])) ch;
       cb_r := filter (fun k => negb (kmem k (map fst ch))) (dedup (e_reads K V Out e)) |}.
  Lemma tx_cbal_mk idx v e : tx_cbal idx v e = mk_cbal idx (net v (e_writes e)) e.
  Proof. reflexivity. Qed.

  Fixpoint merge_trace (c : cbal) (idx : N) (tr : list (view * effects)) : cbal :=
    match tr with
    | [] => c
    | ve :: r => merge_trace (cb_merge c (tx_cbal idx (fst ve) (snd ve))) (idx + 1) r
    end.
  Lemma merge_trace_app tr1 : forall c idx tr2,
    merge_trace c idx (tr1 ++ tr2)
    = merge_trace (merge_trace c idx tr1) (idx + N.of_nat (length tr1)) tr2.
  Proof.
    induction tr1 as [|ve r IH]; intros c0 idx0 tr2.
    - simpl. rewrite N.add_0_r. reflexivity.
    - cbn [app merge_trace length]. rewrite IH. f_equal. lia.
  Qed.
  Lemma cb_w_merge_trace tr : forall c idx,
    cb_w K V (merge_trace c idx tr) = chain (cb_w K V c) idx (nets_of tr).
  Proof. induction tr as [|ve r IH]; simpl; intros c idx; auto. rewrite IH. reflexivity. Qed.
  Lemma built_merge_trace tr : built (merge_trace cb_empty 0 tr) (nets_of tr).
  Proof.
    split.
    - apply cb_w_merge_trace.
    - unfold nets_of. apply Forall_forall. intros ch Hin. apply in_map_iff in Hin.
      destruct Hin as [ve [<- _]]. apply nodup_net.
  Qed.
  Lemma merge_trace_ext tr : forall tr' c idx,
    nets_of tr = nets_of tr' -> map snd tr = map snd tr' ->
    merge_trace c idx tr = merge_trace c idx tr'.
  Proof.
    induction tr as [|[v e] r IH]; intros [|[v' e'] r'] c idx Hn He; simpl in *; try discriminate; auto.
    inversion Hn; inversion He; subst. rewrite !tx_cbal_mk. simpl. rewrite H0. apply IH; auto.
  Qed.

  Definition bal_of_seq (pre : view) (b : block) : bal :=
    to_encoding (merge_trace cb_empty 0 (seq_trace (phases b) pre)).
  Definition rebuilt (pre : view) (b : block) (B : bal) : bal :=
    to_encoding (merge_trace cb_empty 0 (par_trace pre B (phases b) 0)).

  Lemma firstn_nets_seq d r s :
    firstn (length d) (nets_of (seq_trace (d ++ r) s)) = nets_of (seq_trace d s).
  Proof.
    rewrite seq_trace_app. unfold nets_of. rewrite map_app.
    rewrite <- (seq_trace_length d s) at 1. rewrite <- (map_length (fun ve => net (fst ve) (e_writes (snd ve)))).
    rewrite firstn_app, Nat.sub_diag, firstn_all. simpl. apply app_nil_r.
  Qed.
  Lemma firstn_nets_par pre B d r :
    firstn (length d) (nets_of (par_trace pre B (d ++ r) 0)) = nets_of (par_trace pre B d 0).
  Proof.
    rewrite par_trace_app. unfold nets_of. rewrite map_app.
    rewrite <- (par_trace_length pre B d 0) at 1. rewrite <- (map_length (fun ve => net (fst ve) (e_writes (snd ve)))).
    rewrite firstn_app, Nat.sub_diag, firstn_all. simpl. apply app_nil_r.
  Qed.

  (* ---- T1: the overlay of the true access list is the sequential state ---- *)
  Theorem overlay_eq_seq_state pre b d r k :
    phases b = d ++ r ->
    overlay pre (bal_of_seq pre b) (N.of_nat (length d)) k = state_after d pre k.
  Proof.
    intros E. unfold bal_of_seq.
    rewrite (overlay_encoding pre _ _ _ k (built_merge_trace _)).
    rewrite Nnat.Nat2N.id, E, firstn_nets_seq. symmetry. apply state_after_spec.
  Qed.

  (* ---- T3: ApplyBlockAccessList(true list) installs the sequential post-state ---- *)
  Theorem apply_bal_state pre b k :
    apply_bal pre (bal_of_seq pre b) k = state_after (phases b) pre k.
  Proof.
    unfold bal_of_seq. rewrite (apply_bal_encoding pre _ _ k (built_merge_trace _)).
    symmetry. apply state_after_spec.
  Qed.

  (* ---- agreement of the parallel trace with the sequential one ---- *)
  Definition tx_ext (t : tx) : Prop :=
    forall v v' : view, (forall k, v k = v' k) -> t v = t v'.

  Definition agree (pre : view) (B : bal) (d : list tx) : Prop :=
    map snd (par_trace pre B d 0) = map snd (seq_trace d pre)
    /\ nets_of (par_trace pre B d 0) = nets_of (seq_trace d pre).

  Lemma agree_step pre B d t :
    tx_ext t ->
    (forall k, overlay pre B (N.of_nat (length d)) k = state_after d pre k) ->
    agree pre B d -> agree pre B (d ++ [t]).
  Proof.
    intros Ht Hv [A1 A2]. unfold agree.
    rewrite par_trace_app, seq_trace_app. unfold nets_of in *. rewrite !map_app, A1, A2.
    simpl. rewrite (Ht _ _ Hv). rewrite (net_ext _ _ _ Hv). split; reflexivity.
  Qed.

  Lemma agree_true pre b :
    Forall tx_ext (phases b) ->
    forall d r, phases b = d ++ r -> agree pre (bal_of_seq pre b) d.
  Proof.
    intros Hext d. induction d as [|t d IH] using rev_ind; intros r E.
    - split; reflexivity.
    - rewrite <- app_assoc in E. simpl in E. apply agree_step.
      + rewrite Forall_forall in Hext. apply Hext. rewrite E. apply in_or_app. right. left. reflexivity.
      + intros k. eapply overlay_eq_seq_state; eauto.
      + eapply IH; eauto.
  Qed.

  Lemma agree_fix pre b B :
    Forall tx_ext (phases b) -> rebuilt pre b B = B ->
    forall d r, phases b = d ++ r -> agree pre B d.
  Proof.
    intros Hext Hfix d. induction d as [|t d IH] using rev_ind; intros r E.
    - split; reflexivity.
    - rewrite <- app_assoc in E. simpl in E.
      pose proof (IH _ E) as [A1 A2].
      apply agree_step; [| |split; assumption].
      + rewrite Forall_forall in Hext. apply Hext. rewrite E. apply in_or_app. right. left. reflexivity.
      + intros k. rewrite <- Hfix at 1. unfold rebuilt.
        rewrite (overlay_encoding pre _ _ _ k (built_merge_trace _)).
        rewrite Nnat.Nat2N.id. rewrite E at 1. rewrite firstn_nets_par, A2.
        symmetry. apply state_after_spec.
  Qed.

  Lemma rebuilt_of_agree pre b B : agree pre B (phases b) -> rebuilt pre b B = bal_of_seq pre b.
  Proof.
    intros [A1 A2]. unfold rebuilt, bal_of_seq. f_equal. apply merge_trace_ext; assumption.
  Qed.

  (* ---- T4 (core): the true access list is the only fixpoint of "rebuild" ---- *)
  Theorem rebuilt_fixpoint_unique pre b B :
    Forall tx_ext (phases b) -> rebuilt pre b B = B -> B = bal_of_seq pre b.
  Proof.
    intros Hext Hfix. rewrite <- Hfix at 1. apply rebuilt_of_agree.
    apply (agree_fix pre b B Hext Hfix (phases b) []). symmetry. apply app_nil_r.
  Qed.
  Theorem rebuilt_true pre b :
    Forall tx_ext (phases b) -> rebuilt pre b (bal_of_seq pre b) = bal_of_seq pre b.
  Proof.
    intros Hext. apply rebuilt_of_agree.
    apply (agree_true pre b Hext (phases b) []). symmetry. apply app_nil_r.
  Qed.

  (* ================= the processors as functions of their traces ================= *)
  Notation e_gl := (e_gl K V Out).
  Notation e_exec := (e_exec K V Out).
  Notation e_state := (e_state K V Out).
  Notation e_used := (e_used K V Out).
  Notation e_nlogs := (e_nlogs K V Out).
  Notation e_out := (e_out K V Out).
  Notation a_gp := (a_gp K V Out).
  Notation a_log := (a_log K V Out).
  Notation a_cb := (a_cb K V Out).
  Notation a_rcs := (a_rcs K V Out).

  Definition ce := (list (K * V) * effects)%type.
  Definition ces_of (tr : list (view * effects)) : list ce :=
    map (fun ve => (net (fst ve) (e_writes (snd ve)), snd ve)) tr.
  Lemma ces_of_eq tr : forall tr',
    nets_of tr = nets_of tr' -> map snd tr = map snd tr' -> ces_of tr = ces_of tr'.
  Proof.
    induction tr as [|[v e] r IH]; intros [|[v' e'] r'] Hn He; simpl in *; try discriminate; auto.
    inversion Hn; inversion He; subst. rewrite H0. f_equal. apply IH; auto.
  Qed.
  Lemma ces_of_app a b : ces_of (a ++ b) = ces_of a ++ ces_of b.
  Proof. apply map_app. Qed.

  Definition acct_step' (a : acct) (idx : N) (ch : list (K * V)) (e : effects) : option acct :=
    if negb (gp_check (a_gp a) (N.min (e_gl e) max_tx_gas) (e_gl e)) then None else
    match gp_charge (a_gp a) (e_exec e) (e_state e) (e_used e) with
    | None => None
    | Some g => Some (Build_acct K V Out g (a_log a + e_nlogs e)
                        (cb_merge (a_cb a) (mk_cbal idx ch e))
                        (a_rcs a ++ [Build_receipt Out (e_out e) (e_used e) (g_cused g) (a_log a)]))
    end.
  Lemma acct_step_mk a idx v e : acct_step a idx v e = acct_step' a idx (net v (e_writes e)) e.
  Proof. reflexivity. Qed.

  Fixpoint fin_txs (ces : list ce) (idx : N) (a : acct) : option acct :=
    match ces with
    | [] => Some a
    | c :: r => if negb (e_ok (snd c)) then None else
                match acct_step' a idx (fst c) (snd c) with
                | None => None
                | Some a' => fin_txs r (idx + 1) a'
                end
    end.
  Definition finish (gl n : N) (c0 : ce) (mid : list ce) (cp : ce) : option presult :=
    let a0 := Build_acct K V Out (gp_new gl) 0 (cb_merge cb_empty (mk_cbal 0 (fst c0) (snd c0))) [] in
    match fin_txs mid 1 a0 with
    | None => None
    | Some a =>
        if negb (e_ok (snd cp)) then None else
        Some (Build_presult K V Out (a_rcs a) (gp_used (a_gp a))
                (cb_merge (a_cb a) (mk_cbal (n + 1) (fst cp) (snd cp))) (e_out (snd cp)))
    end.
  Definition finish_all (gl n : N) (ces : list ce) : option presult :=
    match ces with
    | [] => None
    | c0 :: rest => match rev rest with
                    | [] => None
                    | cp :: rmid => finish gl n c0 (rev rmid) cp
                    end
    end.
  Lemma finish_all_parts gl n c0 mid cp :
    finish_all gl n (c0 :: mid ++ [cp]) = finish gl n c0 mid cp.
  Proof. unfold finish_all. rewrite rev_app_distr. simpl. rewrite rev_involutive. reflexivity. Qed.

  Lemma seq_txs_fin ts : forall idx s a,
    seq_txs ts idx s a
    = match fin_txs (ces_of (seq_trace ts s)) idx a with
      | Some a' => Some (state_after ts s, a')
      | None => None
      end.
  Proof.
    induction ts as [|t r IH]; intros idx s a; [reflexivity|].
    cbn [Parallel.seq_txs seq_trace state_after ces_of map fin_txs fst snd].
    destruct (negb (e_ok (t s))); [reflexivity|].
    rewrite acct_step_mk. destruct (acct_step' a idx (net s (e_writes (t s))) (t s)); [|reflexivity].
    apply IH.
  Qed.

  Lemma phases_seq_trace pre b :
    seq_trace (phases b) pre
    = (pre, b_pre b pre)
        :: seq_trace (b_txs b) (apply_writes pre (e_writes (b_pre b pre)))
        ++ [(state_after (b_txs b) (apply_writes pre (e_writes (b_pre b pre))),
             b_post b (state_after (b_txs b) (apply_writes pre (e_writes (b_pre b pre)))))].
  Proof. unfold phases. cbn [seq_trace]. rewrite seq_trace_app. reflexivity. Qed.

  Lemma seq_process_fin pre b :
    seq_process pre b
    = match finish_all (b_gaslimit b) (n_of b) (ces_of (seq_trace (phases b) pre)) with
      | Some r => Some (r, state_after (phases b) pre)
      | None => None
      end.
  Proof.
    rewrite phases_seq_trace. cbn [ces_of map]. fold (ces_of (seq_trace (b_txs b) (apply_writes pre (e_writes (b_pre b pre))) ++ [(state_after (b_txs b) (apply_writes pre (e_writes (b_pre b pre))), b_post b (state_after (b_txs b) (apply_writes pre (e_writes (b_pre b pre)))))])).
    rewrite ces_of_app. cbn [ces_of map]. rewrite finish_all_parts.
    unfold Parallel.seq_process, finish. rewrite seq_txs_fin.
    cbn [fst snd]. rewrite tx_cbal_mk.
    destruct (fin_txs _ 1 _) as [a|]; [|reflexivity].
    destruct (negb (e_ok _)); [reflexivity|].
    rewrite tx_cbal_mk. unfold phases. cbn [state_after]. rewrite state_after_app. reflexivity.
  Qed.

  (* ---- workers ---- *)
  Definition gas_local (t : tx) : Prop :=
    forall v, e_ok (t v) = true -> N.max (e_exec (t v)) (e_state (t v)) <= e_gl (t v).

  Fixpoint wexec_all (pre : view) (B : bal) (ts : list tx) (i : nat) : option (list effects) :=
    match ts with
    | [] => Some []
    | t :: r => match worker_exec pre B i t, wexec_all pre B r (S i) with
                | Some e, Some l => Some (e :: l)
                | _, _ => None
                end
    end.

  Lemma worker_exec_ok pre B i t :
    gas_local t ->
    worker_exec pre B i t
    = if e_ok (t (par_view pre B i)) then Some (t (par_view pre B i)) else None.
  Proof.
    intros G. unfold Parallel.worker_exec.
    destruct (e_ok (t (par_view pre B i))) eqn:OK; [|reflexivity]. cbn [negb].
    specialize (G _ OK). set (e := t (par_view pre B i)) in *.
    assert (C : gp_check (gp_new (e_gl e)) (N.min (e_gl e) max_tx_gas) (e_gl e) = true).
    { unfold gp_check, gp_new, sub64. simpl. rewrite N.sub_0_r.
      assert (0 <=? e_gl e = true) as -> by (apply N.leb_le; lia).
      apply andb_true_iff. split; apply negb_true_iff, N.ltb_ge; lia. }
    rewrite C. cbn [negb]. unfold gp_charge, gp_new. simpl.
    assert (L : e_gl e <? N.max (e_exec e mod two64) (e_state e mod two64) = false).
    { apply N.ltb_ge.
      pose proof (N.mod_le (e_exec e) two64) as M1. pose proof (N.mod_le (e_state e) two64) as M2.
      unfold two64 in *. lia. }
    rewrite L. reflexivity.
  Qed.

  Lemma wexec_all_spec pre B ts : forall i,
    Forall gas_local ts ->
    wexec_all pre B ts i
    = if forallb e_ok (map snd (par_trace pre B ts (N.of_nat i + 1)))
      then Some (map snd (par_trace pre B ts (N.of_nat i + 1))) else None.
  Proof.
    induction ts as [|t r IH]; intros i G; [reflexivity|].
    inversion G as [|? ? G1 G2]; subst.
    cbn [wexec_all par_trace map forallb snd]. rewrite (worker_exec_ok pre B i t G1).
    unfold Parallel.par_view. rewrite (IH (S i) G2).
    replace (N.of_nat (S i) + 1) with (N.of_nat i + 1 + 1) by lia.
    destruct (e_ok (t (overlay pre B (N.of_nat i + 1)))); [|reflexivity]. cbn [andb].
    destruct (forallb _ _); reflexivity.
  Qed.

  Lemma par_acct_fin pre B ts : forall i a,
    forallb e_ok (map snd (par_trace pre B ts (N.of_nat i + 1))) = true ->
    par_acct pre B (map snd (par_trace pre B ts (N.of_nat i + 1))) i a
    = fin_txs (ces_of (par_trace pre B ts (N.of_nat i + 1))) (N.of_nat i + 1) a.
  Proof.
    induction ts as [|t r IH]; intros i a H; [reflexivity|].
    cbn [par_trace map forallb snd] in H. apply andb_true_iff in H. destruct H as [H1 H2].
    cbn [par_trace map snd fst Parallel.par_acct ces_of fin_txs]. rewrite H1. cbn [negb].
    unfold Parallel.par_view. rewrite acct_step_mk.
    destruct (acct_step' a _ _ _) as [a'|]; [|reflexivity].
    replace (N.of_nat i + 1 + 1) with (N.of_nat (S i) + 1) in * by lia.
    apply IH. exact H2.
  Qed.

  Lemma fin_txs_notok ces : forall idx a,
    forallb (fun c => e_ok (snd c)) ces = false -> fin_txs ces idx a = None.
  Proof.
    induction ces as [|c r IH]; intros idx a H; [discriminate|].
    cbn [forallb fin_txs] in *. destruct (e_ok (snd c)); cbn [negb andb] in *; [|reflexivity].
    destruct (acct_step' a idx (fst c) (snd c)); [|reflexivity]. apply IH. exact H.
  Qed.

  Lemma phases_par_trace pre B b :
    par_trace pre B (phases b) 0
    = (overlay pre B 0, b_pre b (overlay pre B 0))
        :: par_trace pre B (b_txs b) 1
        ++ [(overlay pre B (n_of b + 1), b_post b (overlay pre B (n_of b + 1)))].
  Proof.
    unfold phases. cbn [par_trace]. rewrite par_trace_app. cbn [par_trace].
    unfold Parallel.n_of. replace (0 + 1 + N.of_nat (length (b_txs b))) with (N.of_nat (length (b_txs b)) + 1) by lia.
    reflexivity.
  Qed.

  Lemma par_process_fin pre b B :
    Forall gas_local (b_txs b) ->
    par_process pre b B (wexec_all pre B (b_txs b) 0)
    = match finish_all (b_gaslimit b) (n_of b) (ces_of (par_trace pre B (phases b) 0)) with
      | Some r => Some (r, apply_bal pre B)
      | None => None
      end.
  Proof.
    intros G. rewrite phases_par_trace. cbn [ces_of map].
    fold (ces_of (par_trace pre B (b_txs b) 1 ++ [(overlay pre B (n_of b + 1), b_post b (overlay pre B (n_of b + 1)))])).
    rewrite ces_of_app. cbn [ces_of map]. rewrite finish_all_parts.
    rewrite (wexec_all_spec pre B (b_txs b) 0 G). change (N.of_nat 0 + 1) with 1.
    unfold Parallel.par_process, finish. cbn [fst snd].
    destruct (forallb e_ok (map snd (par_trace pre B (b_txs b) 1))) eqn:OK.
    - pose proof (par_acct_fin pre B (b_txs b) 0) as P. change (N.of_nat 0 + 1) with 1 in P.
      rewrite (P _ OK). rewrite tx_cbal_mk.
      destruct (fin_txs _ 1 _) as [a|]; [|reflexivity].
      destruct (negb (e_ok _)); [reflexivity|]. rewrite tx_cbal_mk. reflexivity.
    - rewrite fin_txs_notok; [reflexivity|].
      clear -OK. induction (par_trace pre B (b_txs b) 1) as [|x l IH]; [discriminate|].
      simpl in *. destruct (e_ok (snd x)); simpl in *; auto.
  Qed.

  (* ---- T2: with the true access list the parallel processor returns exactly what the
          sequential one returns (results equal, installed state equal on every key) ---- *)
  Definition same_outcome (a b : option (presult * view)) : Prop :=
    match a, b with
    | Some (r, st), Some (r', st') => r = r' /\ forall k, st k = st' k
    | None, None => True
    | _, _ => False
    end.

  Theorem par_eq_seq_workers pre b :
    Forall tx_ext (phases b) -> Forall gas_local (b_txs b) ->
    same_outcome (seq_process pre b)
                 (par_process pre b (bal_of_seq pre b)
                    (wexec_all pre (bal_of_seq pre b) (b_txs b) 0)).
  Proof.
    intros Hext G. rewrite seq_process_fin, (par_process_fin pre b _ G).
    destruct (agree_true pre b Hext (phases b) []) as [A1 A2]; [symmetry; apply app_nil_r|].
    rewrite (ces_of_eq _ _ A2 A1).
    destruct (finish_all _ _ _); simpl; auto.
    split; auto. intros k. symmetry. apply apply_bal_state.
  Qed.

  (* ================= every schedule of the workers ================= *)
  Notation pstate := (pstate K V Out).
  Notation pstep := (pstep K V Out keqb A acct_of aeqb).
  Notation prun := (prun K V Out keqb A acct_of aeqb).
  Notation p_init := (p_init K V Out).
  Notation rget := (rget K V Out).
  Notation p_has_error := (p_has_error K V Out).
  Notation p_done := (p_done K V Out).
  Notation collect := (collect K V Out).
  Notation p_outcome := (p_outcome K V Out).
  Notation p_cursor := (p_cursor K V Out).
  Notation p_hold := (p_hold K V Out).
  Notation p_res := (p_res K V Out).

  Definition pinv (pre : view) (B : bal) (ts : list tx) (s : pstate) : Prop :=
    (p_cursor s <= length ts)%nat
    /\ (forall i r, In (i, r) (p_res s) ->
          exists t, nth_error ts i = Some t /\ r = worker_exec pre B i t)
    /\ (forall i, (i < p_cursor s)%nat ->
          (exists w, In (w, i) (p_hold s)) \/ (exists r, In (i, r) (p_res s)))
    /\ (forall w i, In (w, i) (p_hold s) -> (i < p_cursor s)%nat)
    /\ (forall w i, In (w, i) (p_hold s) -> hget w (p_hold s) = Some i).

  Lemma hget_In w l i : hget w l = Some i -> In (w, i) l.
  Proof.
    induction l as [|[w0 j] r IH]; simpl; [discriminate|].
    destruct (Nat.eqb w0 w) eqn:E.
    - apply Nat.eqb_eq in E. intros H. inversion H; subst. auto.
    - intros H. right. auto.
  Qed.
  Lemma in_hdel w l w' i : In (w', i) (hdel w l) <-> In (w', i) l /\ w' <> w.
  Proof.
    unfold hdel. rewrite filter_In. simpl. rewrite negb_true_iff, Nat.eqb_neq. tauto.
  Qed.
  Lemma hget_hdel_other w l w' : w' <> w -> hget w' (hdel w l) = hget w' l.
  Proof.
    intros N. induction l as [|[w0 j] r IH]; simpl; auto.
    destruct (Nat.eqb w0 w) eqn:E; simpl.
    - apply Nat.eqb_eq in E. subst w0.
      assert (Nat.eqb w w' = false) as -> by (apply Nat.eqb_neq; congruence). exact IH.
    - destruct (Nat.eqb w0 w'); auto.
  Qed.

  Lemma pinv_init pre B ts : pinv pre B ts p_init.
  Proof.
    unfold pinv, Parallel.p_init; simpl. repeat split; try tauto; try lia.
  Qed.

  Lemma pinv_step pre B ts s e s' :
    pinv pre B ts s -> pstep pre B ts s e = Some s' -> pinv pre B ts s'.
  Proof.
    intros (I1 & I2 & I3 & I4 & I5) H. destruct e as [w [|]]; unfold Parallel.pstep in H.
    - (* Claim *)
      destruct (hget w (p_hold s)) eqn:Hw; [discriminate|].
      destruct (Nat.ltb (p_cursor s) (length ts)) eqn:L; [|discriminate].
      apply Nat.ltb_lt in L. inversion H; subst; clear H. unfold pinv; simpl.
      split; [lia|]. split; [exact I2|]. split; [|split].
      + intros i Hi. destruct (Nat.eq_dec i (p_cursor s)) as [->|Ne].
        * left. exists w. auto.
        * destruct (I3 i) as [[w' Hin]|Hr]; [lia| |]; [left; exists w'; auto | right; exact Hr].
      + intros w' i [Hin|Hin]; [inversion Hin; subst; lia|]. apply I4 in Hin. lia.
      + intros w' i [Hin|Hin].
        * inversion Hin; subst. rewrite Nat.eqb_refl. reflexivity.
        * pose proof (I5 _ _ Hin) as G.
          destruct (Nat.eqb w w') eqn:E; [|exact G].
          apply Nat.eqb_eq in E. subst w'. congruence.
    - (* Finish *)
      destruct (hget w (p_hold s)) as [i|] eqn:Hw; [|discriminate].
      destruct (nth_error ts i) as [t|] eqn:Ht; [|discriminate].
      inversion H; subst; clear H. unfold pinv; simpl.
      split; [exact I1|]. split; [|split; [|split]].
      + intros j r [Hin|Hin]; [inversion Hin; subst; eauto|]. apply I2; auto.
      + intros j Hj. destruct (I3 j Hj) as [[w' Hin]|[r Hr]].
        * destruct (Nat.eq_dec w' w) as [->|Ne].
          -- apply I5 in Hin. rewrite Hw in Hin. inversion Hin; subst. right. eauto.
          -- left. exists w'. apply in_hdel. auto.
        * right. exists r. auto.
      + intros w' j Hin. apply in_hdel in Hin. destruct Hin as [Hin _]. eapply I4; eauto.
      + intros w' j Hin. apply in_hdel in Hin. destruct Hin as [Hin Ne].
        rewrite hget_hdel_other by assumption. eapply I5; eauto.
  Qed.

  Lemma pinv_run pre B ts h : forall s s',
    pinv pre B ts s -> prun pre B ts s h = Some s' -> pinv pre B ts s'.
  Proof.
    induction h as [|e h IH]; simpl; intros s s' I H.
    - inversion H; subst; auto.
    - destruct (pstep pre B ts s e) as [s1|] eqn:E; [|discriminate].
      eapply IH; [eapply pinv_step; eauto | exact H].
  Qed.

  Lemma rget_In i l r : rget i l = Some r -> In (i, r) l.
  Proof.
    induction l as [|[j r0] l' IH]; simpl; [discriminate|].
    destruct (Nat.eqb j i) eqn:E.
    - apply Nat.eqb_eq in E. intros H. inversion H; subst. auto.
    - intros H. right. auto.
  Qed.
  Lemma In_rget i l r : In (i, r) l -> exists r', rget i l = Some r'.
  Proof.
    induction l as [|[j r0] l' IH]; simpl; [tauto|].
    intros [H|H].
    - inversion H; subst. rewrite Nat.eqb_refl. eauto.
    - destruct (Nat.eqb j i); eauto.
  Qed.

  Lemma collect_spec pre B res ts : forall i,
    (forall j t, nth_error ts j = Some t ->
       rget (i + j) res = Some (worker_exec pre B (i + j) t)) ->
    collect res ts i = wexec_all pre B ts i.
  Proof.
    induction ts as [|t r IH]; intros i H; [reflexivity|].
    cbn [Parallel.collect wexec_all].
    pose proof (H 0%nat t eq_refl) as H0. rewrite Nat.add_0_r in H0. rewrite H0.
    rewrite (IH (S i)).
    - destruct (worker_exec pre B i t); [|reflexivity].
      destruct (wexec_all pre B r (S i)); reflexivity.
    - intros j t' Hj. specialize (H (S j) t' Hj). rewrite Nat.add_succ_r in H. exact H.
  Qed.
  Lemma wexec_none pre B ts : forall i j t,
    nth_error ts j = Some t -> worker_exec pre B (i + j) t = None -> wexec_all pre B ts i = None.
  Proof.
    induction ts as [|t0 r IH]; intros i j t Hn Hw; [destruct j; discriminate|].
    cbn [wexec_all]. destruct j as [|j]; simpl in Hn.
    - inversion Hn; subst. rewrite Nat.add_0_r in Hw. rewrite Hw. reflexivity.
    - rewrite (IH (S i) j t Hn) by (rewrite Nat.add_succ_r in Hw; exact Hw).
      destruct (worker_exec pre B i t0); reflexivity.
  Qed.

  (* ---- whatever the interleaving of any number of workers, executeTransactionsParallel
          returns the same thing ---- *)
  Theorem schedule_independent pre B ts h s :
    prun pre B ts p_init h = Some s -> p_done (length ts) s = true ->
    p_outcome ts s = wexec_all pre B ts 0.
  Proof.
    intros R Dn. pose proof (pinv_run pre B ts h _ _ (pinv_init pre B ts) R) as (I1 & I2 & I3 & I4 & I5).
    unfold Parallel.p_done in Dn. destruct (p_hold s) eqn:Hh; [|discriminate].
    unfold Parallel.p_outcome. destruct (p_has_error s) eqn:Er.
    - unfold Parallel.p_has_error in Er. apply existsb_exists in Er.
      destruct Er as [[i [e|]] [Hin Hn]]; [discriminate|].
      destruct (I2 _ _ Hin) as [t [Ht Hw]]. symmetry.
      apply (wexec_none pre B ts 0 i t Ht). simpl. auto.
    - rewrite orb_false_r in Dn. apply Nat.leb_le in Dn.
      apply collect_spec. intros j t Hj. simpl.
      assert (Lj : (j < length ts)%nat) by (apply nth_error_Some; congruence).
      destruct (I3 j) as [[w Hin]|[r Hr]]; [lia | destruct Hin |].
      destruct (In_rget _ _ _ Hr) as [r' Hr']. rewrite Hr'.
      apply rget_In in Hr'. destruct (I2 _ _ Hr') as [t' [Ht' ->]]. congruence.
  Qed.

  (* ================= validation ================= *)
  Variable Hbal : bal -> D.
  Variable Hrec : list (receipt Out) -> D.
  Variable Hreq : Out -> D.
  Variable Hroot : view -> D.
  Hypothesis deqb_spec : forall a b, deqb a b = true <-> a = b.
  Hypothesis Hbal_inj : forall a b, Hbal a = Hbal b -> a = b.
  Hypothesis Hroot_ext : forall s s' : view, (forall k, s k = s' k) -> Hroot s = Hroot s'.

  Notation validate_state := (validate_state K V Out D keqb kltb deqb Hbal Hrec Hreq Hroot).
  Notation validate_body := (validate_body K V D keqb kltb deqb Hbal).
  Notation verdict_seq := (verdict_seq K V Out D keqb kltb veqb deqb Hbal Hrec Hreq Hroot).
  Notation verdict_par := (verdict_par K V Out D keqb kltb veqb deqb A acct_of aeqb Hbal Hrec Hreq Hroot).
  Notation r_bal := (r_bal K V Out).

  Lemma validate_state_0 m h res st :
    validate_state m h (res, st) = 0 ->
    Hbal (to_encoding (r_bal res)) = h_bal D h.
  Proof.
    unfold Parallel.validate_state.
    destruct (negb (h_gas D h =? r_gas K V Out res)); [discriminate|].
    destruct (negb (deqb (Hrec _) _)); [discriminate|].
    destruct (negb (deqb (Hreq _) _)); [discriminate|].
    destruct (deqb (Hbal (to_encoding (r_bal res))) (h_bal D h)) eqn:E; [|discriminate].
    intros _. apply deqb_spec. exact E.
  Qed.

  Lemma validate_state_root m h res st st' :
    (forall k, st k = st' k) -> validate_state m h (res, st) = validate_state m h (res, st').
  Proof. intros E. unfold Parallel.validate_state. rewrite (Hroot_ext _ _ E). reflexivity. Qed.

  Lemma fin_txs_cb ces : forall idx a a',
    fin_txs ces idx a = Some a' ->
    forall tr, ces = ces_of tr -> a_cb a' = merge_trace (a_cb a) idx tr.
  Proof.
    induction ces as [|c r IH]; intros idx a a' H tr E.
    - destruct tr; [|discriminate]. inversion H; subst. reflexivity.
    - destruct tr as [|[v e] tr']; [discriminate|]. simpl in E. inversion E; subst. clear E.
      cbn [fin_txs fst snd] in H. destruct (negb (e_ok e)); [discriminate|].
      destruct (acct_step' a idx (net v (e_writes e)) e) as [a1|] eqn:S1; [|discriminate].
      rewrite (IH _ _ _ H tr' eq_refl). cbn [merge_trace fst snd]. f_equal.
      unfold acct_step' in S1. destruct (negb _); [discriminate|].
      destruct (gp_charge _ _ _ _); [|discriminate]. inversion S1; subst. reflexivity.
  Qed.

  Lemma finish_all_bal gl ve0 mid vep res :
    finish_all gl (N.of_nat (length mid)) (ces_of (ve0 :: mid ++ [vep])) = Some res ->
    r_bal res = merge_trace cb_empty 0 (ve0 :: mid ++ [vep]).
  Proof.
    cbn [ces_of map]. fold (ces_of (mid ++ [vep])). rewrite ces_of_app. cbn [ces_of map].
    rewrite finish_all_parts. unfold finish. cbn [fst snd].
    destruct (fin_txs (ces_of mid) 1 _) as [a|] eqn:F; [|discriminate].
    destruct (negb (e_ok (snd vep))); [discriminate|]. intros H. inversion H; subst; clear H.
    cbn [Parallel.r_bal merge_trace]. rewrite merge_trace_app. cbn [merge_trace].
    rewrite (fin_txs_cb _ _ _ _ F mid eq_refl). cbn [Parallel.a_cb].
    rewrite !tx_cbal_mk. do 2 f_equal. lia.
  Qed.

  Lemma par_process_rebuilt pre b B res st :
    Forall gas_local (b_txs b) ->
    par_process pre b B (wexec_all pre B (b_txs b) 0) = Some (res, st) ->
    to_encoding (r_bal res) = rebuilt pre b B.
  Proof.
    intros G. rewrite (par_process_fin pre b B G).
    destruct (finish_all _ _ _) as [r|] eqn:F; [|discriminate]. intros H. inversion H; subst.
    unfold rebuilt. f_equal. rewrite phases_par_trace in *.
    apply (finish_all_bal (b_gaslimit b)).
    rewrite par_trace_length. exact F.
  Qed.
  Lemma seq_process_bal pre b res st :
    seq_process pre b = Some (res, st) -> to_encoding (r_bal res) = bal_of_seq pre b.
  Proof.
    rewrite seq_process_fin.
    destruct (finish_all _ _ _) as [r|] eqn:F; [|discriminate]. intros H. inversion H; subst.
    unfold bal_of_seq. f_equal. rewrite phases_seq_trace in *.
    apply (finish_all_bal (b_gaslimit b)).
    rewrite seq_trace_length. exact F.
  Qed.

  (* ---- T4: a block whose attached access list is not the one sequential execution
          produces is rejected — whatever the header says ---- *)
  Theorem wrong_bal_rejected pre b h B :
    Forall tx_ext (phases b) -> Forall gas_local (b_txs b) ->
    B <> bal_of_seq pre b ->
    verdict_par pre b h B (wexec_all pre B (b_txs b) 0) <> 0.
  Proof.
    intros Hext G Ne Hv. apply Ne. unfold Parallel.verdict_par in Hv.
    destruct (validate_body (n_of b + 1) h B) eqn:VB; cbn [negb] in Hv; [|discriminate].
    unfold Parallel.validate_body in VB. apply andb_true_iff in VB. destruct VB as [VB _].
    apply deqb_spec in VB.
    destruct (par_process pre b B _) as [[res st]|] eqn:P; [|discriminate].
    apply validate_state_0 in Hv.
    rewrite (par_process_rebuilt pre b B res st G P) in Hv.
    apply rebuilt_fixpoint_unique; auto. apply Hbal_inj. congruence.
  Qed.

  (* ---- with the true list attached, parallel validation returns the verdict of
          sequential validation (class by class), once ValidateBody has passed ---- *)
  Theorem verdict_par_true pre b h :
    Forall tx_ext (phases b) -> Forall gas_local (b_txs b) ->
    verdict_par pre b h (bal_of_seq pre b) (wexec_all pre (bal_of_seq pre b) (b_txs b) 0)
    = if validate_body (n_of b + 1) h (bal_of_seq pre b) then verdict_seq pre b h else 1.
  Proof.
    intros Hext G. unfold Parallel.verdict_par, Parallel.verdict_seq.
    destruct (validate_body _ _ _); cbn [negb]; [|reflexivity].
    pose proof (par_eq_seq_workers pre b Hext G) as S. unfold same_outcome in S.
    destruct (seq_process pre b) as [[r st]|], (par_process pre b _ _) as [[r' st']|]; try tauto.
    destruct S as [-> E]. symmetry. apply validate_state_root. exact E.
  Qed.

  (* ---- the same three statements for the result of ANY completed schedule ---- *)
  Theorem parallel_eq_sequential pre b h s :
    Forall tx_ext (phases b) -> Forall gas_local (b_txs b) ->
    prun pre (bal_of_seq pre b) (b_txs b) p_init h = Some s ->
    p_done (length (b_txs b)) s = true ->
    same_outcome (seq_process pre b)
                 (par_process pre b (bal_of_seq pre b) (p_outcome (b_txs b) s)).
  Proof.
    intros Hext G R Dn. rewrite (schedule_independent _ _ _ _ _ R Dn).
    apply par_eq_seq_workers; assumption.
  Qed.
  Theorem wrong_bal_rejected_sched pre b hd B h s :
    Forall tx_ext (phases b) -> Forall gas_local (b_txs b) ->
    prun pre B (b_txs b) p_init h = Some s -> p_done (length (b_txs b)) s = true ->
    B <> bal_of_seq pre b ->
    verdict_par pre b hd B (p_outcome (b_txs b) s) <> 0.
  Proof.
    intros Hext G R Dn. rewrite (schedule_independent _ _ _ _ _ R Dn).
    apply wrong_bal_rejected; assumption.
  Qed.
  Theorem verdict_par_true_sched pre b hd h s :
    Forall tx_ext (phases b) -> Forall gas_local (b_txs b) ->
    prun pre (bal_of_seq pre b) (b_txs b) p_init h = Some s ->
    p_done (length (b_txs b)) s = true ->
    verdict_par pre b hd (bal_of_seq pre b) (p_outcome (b_txs b) s)
    = if validate_body (n_of b + 1) hd (bal_of_seq pre b) then verdict_seq pre b hd else 1.
  Proof.
    intros Hext G R Dn. rewrite (schedule_independent _ _ _ _ _ R Dn).
    apply verdict_par_true; assumption.
  Qed.
End Proofs.

(* ================= the byte-string instance meets the hypotheses ================= *)
Lemma bytes_eqb_spec a : forall b, bytes_eqb a b = true <-> a = b.
Proof.
  induction a as [|x a IH]; intros [|y b]; simpl; split; intros H; try discriminate; auto.
  - apply andb_true_iff in H. destruct H as [H1 H2]. apply N.eqb_eq in H1. apply IH in H2. congruence.
  - inversion H; subst. rewrite N.eqb_refl. simpl. apply IH. reflexivity.
Qed.
Lemma list_eqb_spec {A} (eq : A -> A -> bool) :
  (forall x y, eq x y = true <-> x = y) -> forall a b, list_eqb eq a b = true <-> a = b.
Proof.
  intros S a. induction a as [|x a IH]; intros [|y b]; simpl; split; intros H; try discriminate; auto.
  - apply andb_true_iff in H. destruct H as [H1 H2]. apply S in H1. apply IH in H2. congruence.
  - inversion H; subst. apply andb_true_iff. split; [apply S | apply IH]; reflexivity.
Qed.
Lemma entry_eqb_spec x y : entry_eqb x y = true <-> x = y.
Proof.
  destruct x as [i a], y as [j b]. unfold entry_eqb. simpl.
  rewrite andb_true_iff, N.eqb_eq, bytes_eqb_spec. split; [intros [-> ->]; auto | intros H; inversion H; auto].
Qed.
Lemma bal_eqb_spec a b : bal_eqb a b = true <-> a = b.
Proof.
  destruct a as [w r], b as [w' r']. unfold bal_eqb. simpl.
  rewrite andb_true_iff.
  rewrite (list_eqb_spec _ bytes_eqb_spec).
  rewrite (list_eqb_spec (fun x y => bytes_eqb (fst x) (fst y) && list_eqb entry_eqb (snd x) (snd y))).
  - split; [intros [-> ->]; auto | intros H; inversion H; auto].
  - intros [k es] [k' es']. simpl.
    rewrite andb_true_iff, bytes_eqb_spec, (list_eqb_spec _ entry_eqb_spec).
    split; [intros [-> ->]; auto | intros H; inversion H; auto].
Qed.
Lemma receipt_eqb_spec a b : receipt_eqb a b = true <-> a = b.
Proof.
  destruct a as [o u c l], b as [o' u' c' l']. unfold receipt_eqb. simpl.
  rewrite !andb_true_iff, !N.eqb_eq, bytes_eqb_spec.
  split; [intros [[[-> ->] ->] ->]; auto | intros H; inversion H; auto].
Qed.
Lemma digest_eqb_spec a b : digest_eqb a b = true <-> a = b.
Proof.
  destruct a, b; simpl; try (split; intros H; discriminate).
  - rewrite bal_eqb_spec. split; [intros ->; auto | intros H; inversion H; auto].
  - rewrite (list_eqb_spec _ receipt_eqb_spec). split; [intros ->; auto | intros H; inversion H; auto].
  - rewrite bytes_eqb_spec. split; [intros ->; auto | intros H; inversion H; auto].
  - rewrite (list_eqb_spec _ bytes_eqb_spec). split; [intros ->; auto | intros H; inversion H; auto].
Qed.
Lemma DBal_inj a b : DBal a = DBal b -> a = b.
Proof. intros H; inversion H; auto. Qed.
Lemma root_on_ext keys (s s' : view bkey bkey) : (forall k, s k = s' k) -> root_on keys s = root_on keys s'.
Proof. intros E. unfold root_on. f_equal. apply map_ext. exact E. Qed.

(* ---- a concrete block: two transactions conflicting on key [1] ---- *)
Definition ex_eff (rd : list bkey) (ws : list (bkey * bkey)) (o : bkey) : effects bkey bkey bkey :=
  Build_effects _ _ _ true rd ws 100 10 5 10 1 o.
Definition ex_block : block bkey bkey bkey :=
  Build_block _ _ _
    (fun v => ex_eff [[9]] [] [])
    [ (fun v => ex_eff [[1]] [([1], v [1] ++ [1])] [1]);
      (fun v => ex_eff [[1]; [2]; [3]] [([2], v [1]); ([3], v [3])] [2]) ]
    (fun v => ex_eff [] [] [7])
    1000.
Definition ex_pre : view bkey bkey := fun _ => [].
Definition ex_keys : list bkey := [[1]; [2]; [3]; [9]].

Definition ex_vpar := verdict_par bkey bkey bkey digest bytes_eqb bytes_ltb bytes_eqb digest_eqb
                        bkey key_acct bytes_eqb
                        DBal DRec DReq (root_on ex_keys) ex_pre ex_block.

Definition c33_example_check : bool :=
  match seq_process bkey bkey bkey bytes_eqb bytes_eqb ex_pre ex_block with
  | None => false
  | Some rs =>
      let hd := header_of bkey bkey bkey digest bytes_ltb DBal DRec DReq (root_on ex_keys) rs in
      let B := to_encoding bkey bkey bytes_ltb (r_bal _ _ _ (fst rs)) in
      let sched := [(0%nat, Claim); (1%nat, Claim); (1%nat, Finish); (0%nat, Finish)] in
      match prun bkey bkey bkey bytes_eqb bkey key_acct bytes_eqb ex_pre B (b_txs _ _ _ ex_block) (p_init _ _ _) sched with
      | None => false
      | Some s =>
          let B' := Build_bal bkey bkey (b_w _ _ B) [] in
          let hd' := Build_header digest (h_gas _ hd) (h_rec _ hd) (h_req _ hd) (DBal B') (h_root _ hd) in
          p_done _ _ _ 2 s
          && (ex_vpar hd B (p_outcome _ _ _ (b_txs _ _ _ ex_block) s) =? 0)
          && (ex_vpar hd B' (p_outcome _ _ _ (b_txs _ _ _ ex_block) s) =? 1)
          && (ex_vpar hd' B' (p_outcome _ _ _ (b_txs _ _ _ ex_block) s) =? 6)
          && bal_eqb B (Build_bal bkey bkey [([1], [(1, [1])]); ([2], [(2, [1])])] [[3]; [9]])
      end
  end.

Lemma ex_block_hyps :
  Forall (tx_ext bkey bkey bkey) (phases _ _ _ ex_block)
  /\ Forall (gas_local bkey bkey bkey) (b_txs _ _ _ ex_block).
Proof.
  split.
  - repeat constructor; intros v v' E; simpl; rewrite ?E; reflexivity.
  - repeat constructor; intros v _; simpl; lia.
Qed.
