(* State/Root.v — the MODEL ROOT for C13: the Merkle-Patricia state root computed from
   scratch from the accounts and storage a model state holds (no incremental trie
   state at all), over the Coq trie (Trie/Ops.v, Trie/Hash.v) with the encodings of
   State/Commit.v (secure keys H(address), H(slot); rlp [nonce, balance, storageRoot,
   codeHash]; rlp(trimmed value)).  It is what StateDB.IntermediateRoot must return
   whatever incremental bookkeeping (StateDB.mutations, applied flags,
   uncommittedStorage, data.Root, originStorage) the implementation keeps between
   transactions.  Definitions only. *)
From stdpp Require Import gmap.
From Coq Require Import NArith ZArith.
From GV Require Import Trie.Node Trie.Ops Trie.Hash State.Ref State.Journal State.Commit.
Local Open Scope N_scope.

Section Root.
  Variable H : list N → list N.

  (* the root of the trie built from scratch by a list of (key, value) updates *)
  Definition build (kvs : list (list N * list N)) : option (list N) :=
    match t_update_seq NEmpty kvs with
    | COk t => match t_hash H t with COk h => Some h | CErr _ => None end
    | CErr _ => None
    end.

  (* root of the storage trie holding exactly the non-zero slots of [m] *)
  Definition stor_kvs (m : gmap slot word) : list (list N * list N) :=
    map (λ kv : slot * word, (slot_key H kv.1, slot_val kv.2))
        (List.filter (λ kv : slot * word, negb (kv.2 =? 0)) (map_to_list m)).
  Definition storage_root (m : gmap slot word) : option (list N) := build (stor_kvs m).

  (* root of the account trie over [(address, account, storage)] *)
  Definition acct_kv (e : addr * acct * gmap slot word) : option (list N * list N) :=
    match storage_root e.2 with
    | Some sr => Some (addr_key H e.1.1, acct_rlp H e.1.2 sr)
    | None => None
    end.
  Definition accounts_root (l : list (addr * acct * gmap slot word)) : option (list N) :=
    match mapM acct_kv l with Some kvs => build kvs | None => None end.

  (* the whole storage an object stands for: dirty over pending over (unless the
     account was destructed in this block) the committed pre-state *)
  Definition stor_view (j : jstate) (a : addr) (o : sobj) : gmap slot word :=
    o_dirty o ∪ o_pending o ∪
    (if bool_decide (a ∈ j_destruct j) then ∅
     else match j_db j !! a with Some d => d_stor d | None => ∅ end).

  Definition root_j (j : jstate) : option (list N) :=
    accounts_root (map (λ ao : addr * sobj, (ao.1, o_data ao.2, stor_view j ao.1 ao.2)) (map_to_list (j_objs j))).

  Definition root_r (s : rstate) : option (list N) :=
    accounts_root (map (λ ax : addr * racct, (ax.1, ra ax.2, r_stor ax.2)) (map_to_list (accts (r_cur s)))).
End Root.
