(* State/CommitCode.v — C14 proofs, part 13: the code store.  Every non-empty code of a live object
   is in the code store or its object is marked dirtyCode - through every journalled call (SetCode
   and the revert of a codeChange both set dirtyCode), Finalise and IntermediateRoot; hence
   [code_guard] need not be assumed of a block. *)
From Coq Require Import ssreflect.
From stdpp Require Import gmap.
From Coq Require Import NArith ZArith Lia.
From RecordUpdate Require Import RecordSet.
Import RecordSetNotations.
From GV Require Import State.Ref State.Journal State.JournalProofs State.BalProofs State.Commit State.CommitProofs State.CommitReopen State.CommitHist State.CommitSync State.CommitFin State.CommitTx State.CommitIR State.CommitIR2 State.CommitBlock State.CommitDecode State.CommitChain.
Local Open Scope N_scope.

From GV Require Import Lib.Bytes Trie.Node Trie.Hash Trie.OpsProofs Trie.Canon.
Definition codeof (x : option sobj) : option N := (λ o, a_code (o_data o)) <$> x.

(* the code of every object after a call that is not SetCode: unchanged, or 0 for a created object *)
Definition code_kept (j j' : jstate) : Prop :=
  ∀ b, codeof (j_objs j' !! b) = codeof (j_objs j !! b) ∨
       (j_objs j !! b = None ∧ codeof (j_objs j' !! b) = Some 0).

Ltac ck j := let b := fresh "b" in intros b; destruct j; unf; unfold touch_change, ripemd_magic, create_object, j_append, new_object, set_state in *; rj; simpl in *;
  repeat case_bool_decide; repeat case_match; rj; simpl in *;
  repeat match goal with |- context [<[?a := _]> _ !! ?b] =>
    destruct (decide (b = a)) as [->|?]; [rewrite ?lookup_insert|rewrite ?lookup_insert_ne //] end.
Ltac fin := simpl; try (by left); try (right; split; [done|done]);
  try (match goal with Ho : _ !! _ = Some ?o |- _ => rewrite Ho; left; by destruct o end).

Lemma al_add_slot_objs a k j : j_objs (al_add_slot a k j).1.1 = j_objs j.
Proof. unfold al_add_slot. repeat case_match; destruct j; rj; done. Qed.

Lemma code_kept_core j o : core_op o = true → op_ok j o = true → (∀ a c, o ≠ OSetCode a c) → code_kept j (step_j j o).1.
Proof.
  intros Hc Hok Hn. destruct o; try done; simpl in *.
  - apply bool_decide_eq_true in Hok. ck j; fin.
  - destruct (j_objs j !! a) as [o|] eqn:Ho; simpl; [|by left]. destruct (o_new o); simpl; [by left|]. ck j; fin.
  - unfold get_or_new_j. destruct (j_objs j !! a) as [o|] eqn:Ho; simpl; destruct (v =? 0); simpl; try destruct (obj_empty _); ck j; fin.
  - unfold get_or_new_j. destruct (j_objs j !! a) as [o|] eqn:Ho; simpl; destruct (v =? 0); simpl; ck j; fin.
  - unfold get_or_new_j. destruct (j_objs j !! a) as [o|] eqn:Ho; simpl; ck j; fin.
  - unfold get_or_new_j. destruct (j_objs j !! a) as [o|] eqn:Ho; simpl; ck j; fin.
  - exfalso. by eapply Hn.
  - unfold get_or_new_j. destruct (j_objs j !! a) as [o|] eqn:Ho; simpl; destruct (_ =? v); simpl; ck j; fin.
  - destruct (_ =? v); simpl; ck j; fin.
  - destruct (j_objs j !! a) as [o|] eqn:Ho; simpl; [|by left]. destruct (o_sd o); simpl; [by left|]. ck j; fin.
  - destruct (j_objs j !! a) as [o|] eqn:Ho; simpl; [|by left]. destruct (o_new o && negb (o_sd o)); simpl; [|by left]. ck j; fin.
  - unfold al_add_address. destruct (j_ala j !! a); simpl; ck j; fin.
  - pose proof (al_add_slot_objs a k j) as Eo. destruct (al_add_slot a k j) as [[j1 am] sm]. simpl in *.
    intros b. left. f_equal. rewrite -Eo. destruct am, sm; unfold j_append; destruct j1; rj; done.
  - ck j; fin.
  - destruct (j_refund j <? g); simpl; ck j; fin.
  - ck j; fin.
Qed.

(* SetCode a c touches the code of a only *)
Lemma code_setcode j a c : ∀ b, b ≠ a →
  codeof (j_objs (step_j j (OSetCode a c)).1 !! b) = codeof (j_objs j !! b).
Proof.
  intros b Hb. simpl. unfold get_or_new_j. destruct (j_objs j !! a) as [o|] eqn:Ho; simpl;
    destruct j; unf; unfold create_object, j_append in *; rj; simpl; rewrite ?lookup_insert_ne //.
Qed.
Lemma code_setcode_a j a c : codeof (j_objs (step_j j (OSetCode a c)).1 !! a) = Some c.
Proof.
  simpl. unfold get_or_new_j. destruct (j_objs j !! a) as [o|] eqn:Ho; simpl;
    destruct j; unf; unfold create_object, j_append in *; rj; simpl; rewrite ?lookup_insert //.
Qed.

(* one step of journal.revert: codes change only by reverting a codeChange *)
Lemma with_obj_code a f j b : (∀ o, a_code (o_data (f o)) = a_code (o_data o)) →
  codeof (j_objs (with_obj a f j) !! b) = codeof (j_objs j !! b).
Proof.
  intros Hf. unfold with_obj. destruct (j_objs j !! a) as [o|] eqn:Ho; [|by destruct j].
  destruct (decide (b = a)) as [->|Hne]; destruct j; rj; simpl in *.
  - rewrite lookup_insert Ho /=. by rewrite Hf.
  - by rewrite lookup_insert_ne.
Qed.

Lemma code_revert_entry e j b :
  codeof (j_objs (revert_entry e j) !! b) = codeof (j_objs j !! b) ∨
  j_objs (revert_entry e j) !! b = None ∨ (∃ prev, e = JCode b prev).
Proof.
  destruct e; simpl.
  - destruct (decide (b = a)) as [->|Hne]; [right; left|left]; destruct j; rj; simpl; by rewrite ?lookup_delete ?lookup_delete_ne.
  - left. apply with_obj_code. intros o. by destruct o.
  - left. destruct (j_objs j !! a) as [o|] eqn:Ho; [|done].
    destruct (decide (b = a)) as [->|Hne]; destruct j; rj; simpl in *; [rewrite lookup_insert Ho; by destruct o|by rewrite lookup_insert_ne].
  - left. apply with_obj_code. intros o. by destruct o.
  - left. apply with_obj_code. intros o. by destruct o.
  - left. apply with_obj_code. intros o. unfold set_state. case_match; by destruct o.
  - destruct (decide (b = a)) as [->|Hne]; [right; right; by eexists|].
    left. unfold with_obj. destruct (j_objs j !! a) as [o|] eqn:Ho; [|by destruct j].
    destruct j; rj; simpl. by rewrite lookup_insert_ne.
  - left. by destruct j.
  - left. repeat case_match; destruct j; rj; done.
  - by left.
  - left. by destruct j.
  - left. unfold al_delete_slot. repeat case_match; destruct j; rj; done.
  - left. by destruct j.
Qed.

Definition jcodes (es : list jentry) : list addr :=
  omap (λ e, match e with JCode a _ => Some a | _ => None end) es.

Lemma unmutate_objs e j : j_objs (unmutate e j) = j_objs j.
Proof. unfold unmutate. repeat case_match; destruct j; rj; done. Qed.

Lemma undo1_objs j e rest : j_entries j = e :: rest → j_objs (undo1 j) = j_objs (revert_entry e j).
Proof.
  intros E. unfold undo1. rewrite E. rewrite -(unmutate_objs e (revert_entry e j)).
  by destruct (unmutate e (revert_entry e j)).
Qed.

Lemma code_revert_n n : ∀ j b,
  codeof (j_objs (revert_n n j) !! b) = codeof (j_objs j !! b) ∨ j_objs (revert_n n j) !! b = None ∨
  b ∈ jcodes (take n (j_entries j)).
Proof.
  induction n as [|n IH]; intros j b; [by left|]. rewrite revert_n_S.
  destruct (j_entries j) as [|e rest] eqn:E; [by left|].
  pose proof (undo1_objs j e rest E) as Ho. pose proof (undo1_entries j) as He. rewrite E /= in He.
  destruct (IH (undo1 j) b) as [I|[I|I]].
  - destruct (code_revert_entry e j b) as [S|[S|[prev ->]]].
    + left. by rewrite I Ho S.
    + right. left. rewrite Ho S in I. unfold codeof in I. by destruct (j_objs (revert_n n (undo1 j)) !! b).
    + right. right. simpl. by left.
  - right. by left.
  - right. right. rewrite He in I. unfold jcodes in *. simpl. destruct e; simpl; try done. by right.
Qed.

Section Code.
  Variable H : list N → list N.
  Notation ext_of := (ext_of H).

  Definition in_p (p : pdb) (c : N) : Prop := p_codes p !! code_hash H c = Some (code_bytes c).
  (* during a transaction: a non-empty code is in the store or its object is marked dirtyCode *)
  Definition CD (p : pdb) (cs : cstate) : Prop :=
    ∀ b o, j_objs (c_j cs) !! b = Some o → a_code (o_data o) ≠ 0 →
      in_p p (a_code (o_data o)) ∨ x_dcode (ext_of cs b) = true.

  Lemma dcode_mark a cs b : x_dcode (ext_of (mark_dcode H a cs) b) = bool_decide (b = a) || x_dcode (ext_of cs b).
  Proof. unfold mark_dcode. rewrite ext_set_x. by case_bool_decide; subst. Qed.
  Lemma dcode_marks l cs b :
    x_dcode (ext_of (foldr (mark_dcode H) cs l) b) = true ↔ b ∈ l ∨ x_dcode (ext_of cs b) = true.
  Proof.
    induction l as [|a l IH]; simpl; [set_solver|]. rewrite dcode_mark orb_true_iff IH bool_decide_eq_true elem_of_cons.
    naive_solver.
  Qed.

  Lemma step_c_dcode cs o : body_op (c_j cs) o →
    let cs' := (step_c H cs o).1 in
    (∀ b, creates (c_j cs) o ≠ Some b → x_dcode (ext_of cs b) = true → x_dcode (ext_of cs' b) = true) ∧
    (∀ a c, o = OSetCode a c → x_dcode (ext_of cs' a) = true) ∧
    (∀ id idx rest, o = ORevert id → find_revision id (j_revs (c_j cs)) = Some (idx, rest) →
       ∀ b, b ∈ reverted_codes (c_j cs) idx → x_dcode (ext_of cs' b) = true).
  Proof.
    intros Hb. unfold step_c. destruct (step_j (c_j cs) o) as [j' w] eqn:Es.
    set (cs1 := match creates (c_j cs) o with Some a => set_x a (fresh_ext H) cs | None => cs end).
    assert (H1 : ∀ b, creates (c_j cs) o ≠ Some b → ext_of cs1 b = ext_of cs b).
    { intros b Hne. unfold cs1. destruct (creates (c_j cs) o) as [a|]; [|done].
      rewrite ext_set_x bool_decide_false //. congruence. }
    destruct o; try done; simpl;
      try (split; [intros b Hne Hd; change (x_dcode (ext_of cs1 b) = true); by rewrite H1|split; [done|done]]).
    - (* SetCode *) split; [|split; [|done]].
      + intros b Hne Hd. change (x_dcode (ext_of (mark_dcode H a cs1) b) = true). rewrite dcode_mark H1 // Hd. by destruct (bool_decide _).
      + intros a' c' Heq. injection Heq as <- _. change (x_dcode (ext_of (mark_dcode H a cs1) a) = true). by rewrite dcode_mark bool_decide_true.
    - (* Revert *) destruct (find_revision id (j_revs (c_j cs))) as [[idx rest]|] eqn:Ef.
      + split; [|split; [done|]].
        * intros b Hne Hd. change (x_dcode (ext_of (foldr (mark_dcode H) cs1 (reverted_codes (c_j cs) idx)) b) = true).
          apply dcode_marks. right. by rewrite H1.
        * intros id' idx' rest' Heq Hf b Hin. injection Heq as <-. rewrite Ef in Hf. injection Hf as <- <-.
          change (x_dcode (ext_of (foldr (mark_dcode H) cs1 (reverted_codes (c_j cs) idx)) b) = true).
          apply dcode_marks. by left.
      + split; [intros b Hne Hd; change (x_dcode (ext_of cs1 b) = true); by rewrite H1|split; [done|]].
        intros id' idx' rest' Heq Hf. injection Heq as <-. congruence.
  Qed.

  Lemma CD_from_kept p cs cs' :
    (∀ b, codeof (j_objs (c_j cs') !! b) = codeof (j_objs (c_j cs) !! b) ∨
          (j_objs (c_j cs) !! b = None ∧ codeof (j_objs (c_j cs') !! b) = Some 0) ∨
          j_objs (c_j cs') !! b = None ∨ x_dcode (ext_of cs' b) = true) →
    (∀ b, is_Some (j_objs (c_j cs) !! b) → x_dcode (ext_of cs b) = true → x_dcode (ext_of cs' b) = true) →
    CD p cs → CD p cs'.
  Proof.
    intros K M C b o' Ho' Hc. destruct (K b) as [E|[[_ E]|[E|E]]].
    - rewrite Ho' /= in E. destruct (j_objs (c_j cs) !! b) as [o|] eqn:Ho; [|done]. injection E as E.
      rewrite E in Hc |- *. destruct (C b o Ho Hc) as [?|Hd]; [by left|right]. apply M; [by rewrite Ho|done].
    - rewrite Ho' /= in E. by injection E.
    - by rewrite Ho' in E.
    - by right.
  Qed.

  Theorem CD_step p cs o : body_op (c_j cs) o → CD p cs → CD p (step_c H cs o).1.
  Proof.
    intros Hb C. destruct (step_c_body H cs o Hb) as (B1 & _). destruct (step_c_dcode cs o Hb) as (D1 & D2 & D3).
    apply (CD_from_kept p cs); [|exact (λ b Hs Hd, D1 b (λ Hc, ltac:(apply (creates_absent _ _ _ Hb) in Hc; destruct Hs; congruence)) Hd)|exact C].
    intros b. rewrite B1.
    destruct o; try done.
    all: try (destruct Hb as [Hok _];
              match goal with |- context [step_j _ ?o] =>
                destruct (code_kept_core (c_j cs) o eq_refl Hok ltac:(done) b) as [E|E]; [by left|right; by left] end).
    - (* SetCode *) destruct (decide (b = a)) as [->|Hne]; [right; right; right; exact (D2 a _ eq_refl)|left; by apply code_setcode].
    - (* Snapshot *) left. simpl. by destruct (c_j cs).
    - (* Revert *) simpl. destruct (find_revision id (j_revs (c_j cs))) as [[idx rest]|] eqn:Ef; simpl; [|by left].
      change (j_objs (revert_to idx (c_j cs) <| j_revs := rest |>)) with (j_objs (revert_to idx (c_j cs))).
      unfold revert_to.
      destruct (code_revert_n (length (j_entries (c_j cs)) - idx) (c_j cs) b) as [E|[E|E]]; [by left|right; right; by left|].
      right. right. right. exact (D3 id idx rest eq_refl Ef b E).
    - (* SetTxContext + Prepare *) left. by destruct (txstart_core (c_j cs) th ti r sender coinbase dst al) as [(_ & -> & _) _].
  Qed.
End Code.

Section Code2.
  Variable H : list N → list N.
  Hypothesis H_bytes : ∀ x, forallb byteb (H x) = true.
  Hypothesis H_len : ∀ x, lenN (H x) = 32.
  Variables (addr_ok : addr → Prop) (slot_ok : slot → Prop).
  Hypothesis Hk_addr : ∀ a b, addr_ok a → addr_ok b → addr_key H a = addr_key H b → a = b.
  Hypothesis Hk_slot : ∀ a b, slot_ok a → slot_ok b → slot_key H a = slot_key H b → a = b.
  Variable play : node → Prop.
  Hypothesis play_empty : play NEmpty.
  Hypothesis CF : ∀ t1 t2, play t1 → play t2 → hash_root H t1 = hash_root H t2 → t1 = t2.
  Variable code_ok : N → Prop.
  Hypothesis code_ok0 : code_ok 0.
  Hypothesis Hc_inj : ∀ c c', code_ok c → code_ok c' → code_hash H c = code_hash H c' → c = c'.
  Variables (al : list addr) (ks : list slot).
  Hypothesis al_ok : ∀ a, addr_ok a ↔ a ∈ al.
  Hypothesis ks_ok : ∀ k, slot_ok k ↔ k ∈ ks.

  Notation ext_of := (ext_of H).
  Notation Sync := (Sync H addr_ok slot_ok).
  Notation in_p := (in_p H).
  Notation CD := (CD H).

  (* between transactions *)
  Record CodeInv (p : pdb) (cs : cstate) : Prop := {
    ci_live : ∀ a o, j_objs (c_j cs) !! a = Some o → a_code (o_data o) ≠ 0 →
      in_p p (a_code (o_data o)) ∨
      (x_dcode (ext_of cs a) = true ∧ ∃ m, c_muts cs !! a = Some m ∧ m_del m = false);
    ci_orig : ∀ a o x, j_objs (c_j cs) !! a = Some o → o_origin o = Some x → a_code x ≠ 0 → in_p p (a_code x)
  }.

  Definition dmono (cs0 cs : cstate) : Prop :=
    ∀ a, is_Some (j_objs (c_j cs0) !! a) → x_dcode (ext_of cs0 a) = true → x_dcode (ext_of cs a) = true.

  Lemma body_CD p cs0 ops : wfc (c_j cs0) → j_entries (c_j cs0) = [] →
    ∀ cs, InTx H cs0 cs → CD p cs → dmono cs0 cs → body_ok H cs ops →
    CD p (run_c H cs ops) ∧ dmono cs0 (run_c H cs ops).
  Proof.
    intros W0 E0. induction ops as [|o rest IH]; intros cs I C M Hb; [done|].
    destruct Hb as [H1 H2]. simpl. apply IH; [by apply InTx_step|by apply CD_step| |done].
    intros a Ha Hd. destruct (step_c_dcode H cs o H1) as (D1 & _). apply D1; [|by apply M].
    intros Hc. apply (creates_absent _ _ _ H1) in Hc.
    destruct (fr_pres _ _ (fwd_Fr _ _ W0 (it_fwd _ _ _ I)) a Ha) as [x Hx]. congruence.
  Qed.

  Lemma codeinv_finalise p cs0 cs r :
    Sync p cs0 → CodeInv p cs0 → InTx H cs0 cs → CD p cs → dmono cs0 cs →
    CodeInv p (step_c H cs (OFinalise r)).1.
  Proof.
    intros S0 [L0 O0] I C M.
    pose proof (sy_tb _ _ _ _ _ S0) as [W0 E0 _ _ _].
    destruct I as [F (I1 & I2 & I3 & I4 & I5) X1 X2].
    set (j0 := c_j cs0) in *. set (j := c_j cs) in *.
    pose proof (fwd_Fr _ _ W0 F) as [Fdb Fdx Fpres Fframe Fpend Forig].
    destruct (fin_state H r cs) as (J' & R' & T' & C' & X' & Mu'). fold j in J', X', Mu'.
    set (cs' := (step_c H cs (OFinalise r)).1) in *.
    assert (Ho' : ∀ a, j_objs (c_j cs') !! a =
              match j_objs j !! a with
              | Some o => if bool_decide (a ∈ dom (j_muts j)) then fin_obj r o else Some o
              | None => None end) by (intros a; rewrite J'; apply fin_objs).
    (* the object after Finalise, its origin and code, case by case *)
    assert (Hcase : ∀ a o', j_objs (c_j cs') !! a = Some o' →
              (∃ o0, j_objs j0 !! a = Some o0 ∧ o_data o' = o_data o0 ∧ o_origin o' = o_origin o0 ∧
                     ext_of cs' a = ext_of cs a ∧ c_muts cs' !! a = c_muts cs0 !! a) ∨
              (∃ o, j_objs j !! a = Some o ∧ o_origin o' = o_origin o ∧
                    ((o_data o' = o_data o ∧ x_dcode (ext_of cs' a) = x_dcode (ext_of cs a) ∧
                      c_muts cs' !! a = Some {| m_del := false; m_applied := false |}) ∨
                     (a_code (o_data o') = a_code (default acct0 (o_origin o)))))).
    { intros a o'. rewrite Ho'. destruct (j_objs j !! a) as [o|] eqn:Ho; [|done].
      case_bool_decide as Hd.
      - intros Hf. right. exists o. split; [done|].
        assert (Hfd : fin_del r o = false) by (unfold fin_del; by rewrite Hf).
        pose proof (fin_obj_shape _ _ _ Hf) as [_ Hor]. split; [done|].
        apply fin_obj_cases in Hf as [[Hams ->]|[Hams ->]].
        + right. simpl. by destruct (o_origin o).
        + left. split; [by destruct o|]. rewrite X' Mu' Ho bool_decide_true // Hfd. unfold fin_x.
          unfold fin_del in Hfd. destruct (fin_obj r o); [|done]. by rewrite Hams.
      - intros [= <-]. left.
        assert (Hnm : j_muts j !! a = None) by (by apply not_elem_of_dom).
        pose proof (Fframe a Hnm) as Hc. rewrite Ho in Hc. apply ocore_eq in Hc.
        destruct (j_objs j0 !! a) as [o0|] eqn:E0'; [|done]. destruct Hc as (Hdat & _ & _ & Hor).
        exists o0. split; [done|]. split; [done|]. split; [done|].
        rewrite X' Mu' Ho bool_decide_false // -I3. done. }
    assert (HorigJ : ∀ a o x, j_objs j !! a = Some o → o_origin o = Some x → a_code x ≠ 0 → in_p p (a_code x)).
    { intros a o x Ho Hor Hc. rewrite (Forig a o Ho) in Hor. destruct (j_objs j0 !! a) as [o0|] eqn:E0'; [|done].
      by apply (O0 a o0 x). }
    split.
    - intros a o' Ho1 Hc. destruct (Hcase a o' Ho1) as [(o0 & E0' & Hdat & Hor & Hx & Hm)|(o & Ho & Hor & [(Hdat & Hx & Hm)|Hcode])].
      + rewrite Hdat in Hc |- *. destruct (L0 a o0 E0' Hc) as [?|(Hd & m & Hm0 & Hdel)]; [by left|right].
        split; [rewrite Hx; apply M; [by rewrite E0'|done]|]. exists m. by rewrite Hm.
      + rewrite Hdat in Hc |- *. destruct (C a o Ho Hc) as [?|Hd]; [by left|right].
        split; [by rewrite Hx|]. by eexists.
      + rewrite Hcode in Hc |- *. destruct (o_origin o) as [x|] eqn:Eor; [|done]. left. by apply (HorigJ a o x).
    - intros a o' x Ho1 Hor' Hc. destruct (Hcase a o' Ho1) as [(o0 & E0' & _ & Hor & _)|(o & Ho & Hor & _)].
      + apply (O0 a o0 x); [done|congruence|done].
      + apply (HorigJ a o x); [done|congruence|done].
  Qed.

  Lemma update_root_dcode p pend x0 x : update_root H p pend x0 = COk x → x_dcode x = x_dcode x0.
  Proof.
    unfold update_root. case_bool_decide; [by intros [= <-]|].
    destruct (match x_trie x0 with Some t => Some t | None => open_trie H p (x_root x0) end); [|done].
    destruct (t_update_seq _ _); [|done]. destruct (t_hash H _); [|done]. by intros [= <-].
  Qed.

  Lemma ir_storage_dcode p l : ∀ cs cs2, ir_storage H p l cs = COk cs2 →
    ∀ b, x_dcode (ext_of cs2 b) = x_dcode (ext_of cs b).
  Proof.
    induction l as [|[a m] l IH]; intros cs cs2 E b; simpl in E; [by injection E as <-|].
    destruct (m_applied m || m_del m); [by apply IH|]. destruct (j_objs (c_j cs) !! a) as [o|]; [|done].
    destruct (update_root H p (o_pending o) (ext_of cs a)) as [x|] eqn:Eu; [|done].
    rewrite (IH _ _ E) ext_set_x. case_bool_decide; [subst; by apply update_root_dcode in Eu|done].
  Qed.

  Lemma CodeInv_CD p cs : CodeInv p cs → CD p cs.
  Proof. intros [L _] a o Ho Hc. destruct (L a o Ho Hc) as [?|[? _]]; [by left|by right]. Qed.

  Lemma codeinv_ir p cs r root cs1 :
    Sync p cs → CodeInv p cs → intermediate_root H r p cs = COk (root, cs1) → CodeInv p cs1.
  Proof.
    intros Sy Ci E.
    assert (Ci0 : CodeInv p (step_c H cs (OFinalise r)).1).
    { apply (codeinv_finalise p cs cs r Sy Ci (InTx_refl H cs) (CodeInv_CD p cs Ci)). by intros ???. }
    unfold intermediate_root in E. set (cs0 := (step_c H cs (OFinalise r)).1) in *.
    destruct (match c_trie cs0 with Some t => Some t | None => open_trie H p (c_root cs0) end) as [t0|]; [|done].
    destruct (ir_storage H p (map_to_list (c_muts cs0)) cs0) as [cs2|] eqn:E2; [|done].
    destruct (acct_updates H cs2 _) as [ups|]; [|done]. destruct (t_update_seq _ _) as [t'|]; [|done].
    destruct (t_hash H _) as [hh|]; [|done].
    injection E as _ <-. destruct (ir_storage_pres H p _ cs0 cs2 E2) as (P1 & P2 & _).
    pose proof (ir_storage_dcode p _ cs0 cs2 E2) as Pd. destruct Ci0 as [L O]. split; simpl.
    - intros a o. rewrite P1. intros Ho Hc. destruct (L a o Ho Hc) as [?|(Hd & m & Hm & Hdel)]; [by left|right].
      split; [by rewrite -Pd in Hd|]. rewrite P2 lookup_fmap Hm /=. by eexists.
    - intros a o x. rewrite P1. apply O.
  Qed.

  Notation txs_ok := (txs_ok H addr_ok slot_ok).
  Notation tx_ok := (tx_ok H addr_ok slot_ok).

  Lemma codeinv_tx p cs t cs' : Sync p cs → CodeInv p cs → tx_ok cs t → run_tx H p cs t = Some cs' → CodeInv p cs'.
  Proof.
    intros Sy Ci [Hb Hg] E. unfold run_tx in E. cbv zeta in E.
    pose proof (sy_tb _ _ _ _ _ Sy) as [W0 E0 _ _ _].
    pose proof (InTx_run H cs (t_ops t) W0 E0 cs (InTx_refl H cs) Hb) as I.
    destruct (body_CD p cs (t_ops t) W0 E0 cs (InTx_refl H cs) (CodeInv_CD p cs Ci) (λ _ _ Hd, Hd) Hb) as [C M].
    pose proof (codeinv_finalise p cs _ (t_rules t) Sy Ci I C M) as Ci2.
    pose proof (sync_finalise H addr_ok slot_ok p cs _ (t_rules t) Sy I Hg) as Sy2.
    destruct (t_ir t); [|by injection E as <-].
    destruct (intermediate_root H (t_rules t) p _) as [[root cs3]|] eqn:Eir; [|done]. injection E as <-.
    by eapply codeinv_ir.
  Qed.

  Lemma codeinv_txs p ts : ∀ cs cs', Sync p cs → CodeInv p cs → txs_ok p cs ts → run_txs H p cs ts = Some cs' → CodeInv p cs'.
  Proof.
    induction ts as [|t rest IH]; intros cs cs' Sy Ci Hok E; simpl in *; [by injection E as <-|].
    destruct Hok as [Ht Hr]. destruct (run_tx H p cs t) as [cs1|] eqn:E1; [|done].
    eapply IH; [|by eapply codeinv_tx|done|done].
    by eapply (sync_tx H H_bytes addr_ok slot_ok Hk_addr Hk_slot).
  Qed.

  (* ---- chains whose blocks do NOT assume the code-store guard ---- *)
  Notation chain := (chain H addr_ok slot_ok play code_ok al ks).
  Notation blk_ok := (blk_ok H addr_ok slot_ok play code_ok).
  Notation reopened := (reopened H al ks).

  Definition blk_ok' (p : pdb) (cs0 : cstate) (b : blk) (cs cs1 : cstate) (root : list N) : Prop :=
    txs_ok p cs0 (b_txs b) ∧ run_txs H p cs0 (b_txs b) = Some cs ∧
    intermediate_root H (b_rules b) p cs = COk (root, cs1) ∧
    tries_play H play p cs1 ∧ vals_ok slot_ok cs1 ∧
    (∀ a o, j_objs (c_j cs1) !! a = Some o → code_ok (a_code (o_data o))).

  Lemma blk_ok'_ok p cs0 b cs cs1 root :
    Sync p cs0 → CodeInv p cs0 → blk_ok' p cs0 b cs cs1 root → blk_ok p cs0 b cs cs1 root ∧ CodeInv p cs1.
  Proof.
    intros Sy Ci (Hok & Er & Eir & Htp & Hv & Hck).
    pose proof (codeinv_txs p _ cs0 cs Sy Ci Hok Er) as Ci1.
    pose proof (sync_txs H H_bytes addr_ok slot_ok Hk_addr Hk_slot p _ cs0 cs Sy Hok Er) as Sy1.
    pose proof (codeinv_ir p cs _ root cs1 Sy1 Ci1 Eir) as Ci2.
    split; [|done]. split; [done|]. split; [done|]. split; [done|]. split; [done|]. split; [done|].
    intros a o Ho. split; [by apply (Hck a o)|]. intros Hc. by apply (ci_live _ _ Ci2 a o).
  Qed.

  Inductive chain' : pdb → cstate → Prop :=
  | chain0' : chain' pdb0 (cs_genesis H)
  | chainS' p cs0 b cs cs1 root root' p' :
      chain' p cs0 → blk_ok' p cs0 b cs cs1 root → root ≠ c_root cs1 →
      commit H (b_crules b) p cs1 = COk (root', p') →
      chain' p' (reopened cs1 root').

  Theorem chain'_chain p cs0 : chain' p cs0 → chain p cs0 ∧ CodeInv p cs0.
  Proof.
    induction 1 as [|p cs0 b cs cs1 root root' p' Hc [IHc IHi] Hb Hne C].
    - split; [constructor|]. split; intros a o; simpl; by rewrite fmap_empty lookup_empty.
    - destruct (chain_inv H H_bytes H_len addr_ok slot_ok Hk_addr Hk_slot play play_empty CF code_ok code_ok0 Hc_inj al ks al_ok ks_ok p cs0 IHc)
        as (Sy & Hp & Hcp & _).
      destruct (blk_ok'_ok p cs0 b cs cs1 root Sy IHi Hb) as [Hb1 Ci1].
      split; [by eapply chainS|].
      pose proof Hb1 as (_ & _ & Eir & _ & Hv & Hcg).
      destruct (commit_codes H H_bytes play play_empty CF code_ok Hc_inj (b_rules b) (b_crules b) p cs root cs1 root' p' Eir Hcp Hcg Hne C) as [_ Hin].
      destruct (blk_sync H H_bytes addr_ok slot_ok Hk_addr Hk_slot play code_ok p cs0 b cs cs1 root Sy Hb1) as (_ & T & Hh & _).
      assert (Hlive : ∀ a o, j_objs (c_j cs1) !! a = Some o → a ∈ al).
      { intros a o Ho. apply al_ok. by apply (h_live_ok _ _ _ _ _ _ _ Hh a o). }
      destruct (reopened_facts H H_bytes H_len addr_ok slot_ok Hk_addr Hk_slot play play_empty CF code_ok code_ok0 Hc_inj al ks al_ok ks_ok cs1 root' Hlive) as (F1 & _).
      split.
      + intros a o'. rewrite F1. destruct (j_objs (c_j cs1) !! a) as [o|] eqn:Ho; [|done]. intros [= <-] Hc0.
        left. by apply (Hin a o).
      + intros a o' x. rewrite F1. destruct (j_objs (c_j cs1) !! a) as [o|] eqn:Ho; [|done]. intros [= <-] [= <-] Hc0.
        by apply (Hin a o).
  Qed.
End Code2.

(* ---- the chain theorems without the code-store guard ---- *)
Section Bundled2.
  Context {H addr_ok slot_ok play code_ok al ks} (U : universe H addr_ok slot_ok play code_ok al ks).
  Notation chain' := (chain' H addr_ok slot_ok play code_ok al ks).
  Notation chain := (chain H addr_ok slot_ok play code_ok al ks).
  Notation blk_ok' := (blk_ok' H addr_ok slot_ok play code_ok).
  Notation blk_ok := (blk_ok H addr_ok slot_ok play code_ok).
  Notation reopened := (reopened H al ks).

  Lemma to_chain p cs0 : chain' p cs0 → chain p cs0 ∧ CodeInv H p cs0.
  Proof. destruct U as [Ub Ul Ua Us Up0 Ucf Uc0 Uc Ual Uks]. by apply chain'_chain. Qed.

  Lemma to_blk p cs0 b cs cs1 root : chain' p cs0 → blk_ok' p cs0 b cs cs1 root → blk_ok p cs0 b cs cs1 root.
  Proof.
    intros Hc Hb. destruct (to_chain p cs0 Hc) as [Hc1 Ci]. destruct (u_chain_inv U p cs0 Hc1) as (Sy & _).
    destruct U as [Ub Ul Ua Us Up0 Ucf Uc0 Uc Ual Uks].
    by destruct (blk_ok'_ok H Ub addr_ok slot_ok Ua Us play code_ok p cs0 b cs cs1 root Sy Ci Hb).
  Qed.

  Theorem v_chain_inv p cs0 : chain' p cs0 →
    Sync H addr_ok slot_ok p cs0 ∧ pdb_ok H play p ∧ codes_ok H code_ok p ∧ open H al ks p (c_root cs0) = COk cs0.
  Proof. intros Hc. destruct (to_chain p cs0 Hc) as [Hc1 _]. by apply (u_chain_inv U). Qed.

  Theorem v_chain_reopen_reads p cs0 b cs cs1 root root' p' :
    chain' p cs0 → blk_ok' p cs0 b cs cs1 root → root ≠ c_root cs1 →
    commit H (b_crules b) p cs1 = COk (root', p') →
    root' = root ∧ open H al ks p' root' = COk (reopened cs1 root') ∧
    (∀ q, persistent_in slot_ok q → query_c (reopened cs1 root') q = query_c cs1 q) ∧
    ∃ T, hashed H addr_ok slot_ok play p cs1 T ∧ hash_root H T = Some root.
  Proof.
    intros Hc Hb. destruct (to_chain p cs0 Hc) as [Hc1 _]. apply (u_chain_reopen_reads U p cs0 b cs cs1 root root' p' Hc1).
    by apply to_blk.
  Qed.

  Theorem v_chain_empty_update p cs0 b cs cs1 root root' p' :
    chain' p cs0 → blk_ok' p cs0 b cs cs1 root → root = c_root cs1 →
    commit H (b_crules b) p cs1 = COk (root', p') →
    root' = root ∧ p' = p ∧ open H al ks p' root' = COk cs0 ∧
    (∀ q, persistent_in slot_ok q → query_c cs0 q = query_c cs1 q).
  Proof.
    intros Hc Hb He C. destruct (to_chain p cs0 Hc) as [Hc1 _]. pose proof (to_blk p cs0 b cs cs1 root Hc Hb) as Hb1.
    destruct (u_chain_empty_update U p cs0 b cs cs1 root root' p' Hc1 Hb1 He C) as (A & B & D).
    split; [done|]. split; [done|]. split; [done|]. by apply (u_chain_empty_update_getters U p cs0 b cs cs1 root).
  Qed.

  Theorem v_chain_destruct_recreate_clean p cs0 b cs cs1 root root' p' a o k :
    chain' p cs0 → blk_ok' p cs0 b cs cs1 root → root ≠ c_root cs1 →
    commit H (b_crules b) p cs1 = COk (root', p') →
    a ∈ j_destruct (c_j cs1) → j_objs (c_j cs1) !! a = Some o → o_pending o !! k = None → slot_ok k →
    query_c (reopened cs1 root') (QState a k) = AN 0 ∧ query_c (reopened cs1 root') (QCommitted a k) = AN 0.
  Proof.
    intros Hc Hb. destruct (to_chain p cs0 Hc) as [Hc1 _].
    apply (u_chain_destruct_recreate_clean U p cs0 b cs cs1 root root' p' a o k Hc1). by apply to_blk.
  Qed.

  Theorem v_chain_root_depends_only_on_state pa csa0 ba csa csa1 roota pb csb0 bb csb csb1 rootb :
    chain' pa csa0 → blk_ok' pa csa0 ba csa csa1 roota →
    chain' pb csb0 → blk_ok' pb csb0 bb csb csb1 rootb →
    (∀ a, match j_objs (c_j csa1) !! a, j_objs (c_j csb1) !! a with
          | Some o1, Some o2 => o_data o1 = o_data o2 ∧
                                ∀ k, slot_ok k → committed (c_j csa1) a o1 k = committed (c_j csb1) a o2 k
          | None, None => True
          | _, _ => False
          end) →
    roota = rootb.
  Proof.
    intros Ha Hba Hb Hbb. destruct (to_chain pa csa0 Ha) as [Ha1 _]. destruct (to_chain pb csb0 Hb) as [Hb1 _].
    apply (u_chain_root_depends_only_on_state U pa csa0 ba csa csa1 roota pb csb0 bb csb csb1 rootb Ha1); [by apply to_blk|done|by apply to_blk].
  Qed.
End Bundled2.

(* ---- the bundled hypotheses are satisfiable ---- *)
Definition toyH32 (x : list N) : list N := firstn 32 (map (λ b, b mod 256) x ++ repeat 0 32).

Lemma In_firstn' {A} (x : A) n : ∀ l, In x (firstn n l) → In x l.
Proof. induction n as [|n IH]; intros [|y l]; simpl; try done. intros [->|Hin]; [by left|right; by apply IH]. Qed.

Lemma universe_example :
  universe toyH32 (λ a, a = 1) (λ k, k = 0) (λ t, t = NEmpty) (λ c, c = 0) [1] [0].
Proof.
  split; try done.
  - intros x. apply forallb_forall. intros b Hb. apply In_firstn' in Hb. apply in_app_iff in Hb as [Hb|Hb].
    + apply in_map_iff in Hb as (y & <- & _). apply N.ltb_lt. by apply N.mod_lt.
    + apply repeat_spec in Hb. by subst.
  - intros x. unfold toyH32, lenN. rewrite firstn_length app_length repeat_length. f_equal. lia.
  - by intros a b -> ->.
  - by intros a b -> ->.
  - by intros t1 t2 -> ->.
  - by intros c c' -> ->.
  - intros a. by rewrite elem_of_list_singleton.
  - intros k. by rewrite elem_of_list_singleton.
Qed.
