(* State/CommitCode.v — C14 proofs, part 13: the code store.  Every non-empty code of a live object
   is in the code store or its object is marked dirtyCode - through every journalled call (SetCode
   and the revert of a codeChange both set dirtyCode), Finalise and IntermediateRoot; hence
   [code_guard] need not be assumed of a block. *)
From Coq Require Import ssreflect.
From stdpp Require Import gmap.
From Coq Require Import NArith ZArith Lia.
From RecordUpdate Require Import RecordSet.
Import RecordSetNotations.
From GV Require Import State.Ref State.Journal State.JournalProofs State.BalProofs State.Commit State.CommitProofs State.CommitReopen State.CommitHist State.CommitSync State.CommitFin State.CommitTx State.CommitIR State.CommitIR2 State.CommitBlock State.CommitDecode State.CommitChain.
Local Open Scope N_scope.

From GV Require Import Lib.Bytes Trie.Node Trie.Hash Trie.OpsProofs Trie.Canon.
Definition codeof (x : option sobj) : option N := (λ o, a_code (o_data o)) <$> x.

(* the code of every object after a call that is not SetCode: unchanged, or 0 for a created object *)
Definition code_kept (j j' : jstate) : Prop :=
  ∀ b, codeof (j_objs j' !! b) = codeof (j_objs j !! b) ∨
       (j_objs j !! b = None ∧ codeof (j_objs j' !! b) = Some 0).

Ltac ck j := let b := fresh "b" in intros b; destruct j; unf; unfold touch_change, ripemd_magic, create_object, j_append, new_object, set_state in *; rj; simpl in *;
  repeat case_bool_decide; repeat case_match; rj; simpl in *;
  repeat match goal with |- context [<[?a := _]> _ !! ?b] =>
    destruct (decide (b = a)) as [->|?]; [rewrite ?lookup_insert|rewrite ?lookup_insert_ne //] end.
Ltac fin := simpl; try (by left); try (right; split; [done|done]);
  try (match goal with Ho : _ !! _ = Some ?o |- _ => rewrite Ho; left; by destruct o end).

Lemma al_add_slot_objs a k j : j_objs (al_add_slot a k j).1.1 = j_objs j.
Proof. unfold al_add_slot. repeat case_match; destruct j; rj; done. Qed.

Lemma code_kept_core j o : core_op o = true → op_ok j o = true → (∀ a c, o ≠ OSetCode a c) → code_kept j (step_j j o).1.
Proof.
  intros Hc Hok Hn. destruct o; try done; simpl in *.
  - apply bool_decide_eq_true in Hok. ck j; fin.
  - destruct (j_objs j !! a) as [o|] eqn:Ho; simpl; [|by left]. destruct (o_new o); simpl; [by left|]. ck j; fin.
  - unfold get_or_new_j. destruct (j_objs j !! a) as [o|] eqn:Ho; simpl; destruct (v =? 0); simpl; try destruct (obj_empty _); ck j; fin.
  - unfold get_or_new_j. destruct (j_objs j !! a) as [o|] eqn:Ho; simpl; destruct (v =? 0); simpl; ck j; fin.
  - unfold get_or_new_j. destruct (j_objs j !! a) as [o|] eqn:Ho; simpl; ck j; fin.
  - unfold get_or_new_j. destruct (j_objs j !! a) as [o|] eqn:Ho; simpl; ck j; fin.
  - exfalso. by eapply Hn.
  - unfold get_or_new_j. destruct (j_objs j !! a) as [o|] eqn:Ho; simpl; destruct (_ =? v); simpl; ck j; fin.
  - destruct (_ =? v); simpl; ck j; fin.
  - destruct (j_objs j !! a) as [o|] eqn:Ho; simpl; [|by left]. destruct (o_sd o); simpl; [by left|]. ck j; fin.
  - destruct (j_objs j !! a) as [o|] eqn:Ho; simpl; [|by left]. destruct (o_new o && negb (o_sd o)); simpl; [|by left]. ck j; fin.
  - unfold al_add_address. destruct (j_ala j !! a); simpl; ck j; fin.
  - pose proof (al_add_slot_objs a k j) as Eo. destruct (al_add_slot a k j) as [[j1 am] sm]. simpl in *.
    intros b. left. f_equal. rewrite -Eo. destruct am, sm; unfold j_append; destruct j1; rj; done.
  - ck j; fin.
  - destruct (j_refund j <? g); simpl; ck j; fin.
  - ck j; fin.
Qed.

(* SetCode a c touches the code of a only *)
Lemma code_setcode j a c : ∀ b, b ≠ a →
  codeof (j_objs (step_j j (OSetCode a c)).1 !! b) = codeof (j_objs j !! b).
Proof.
  intros b Hb. simpl. unfold get_or_new_j. destruct (j_objs j !! a) as [o|] eqn:Ho; simpl;
    destruct j; unf; unfold create_object, j_append in *; rj; simpl; rewrite ?lookup_insert_ne //.
Qed.
Lemma code_setcode_a j a c : codeof (j_objs (step_j j (OSetCode a c)).1 !! a) = Some c.
Proof.
  simpl. unfold get_or_new_j. destruct (j_objs j !! a) as [o|] eqn:Ho; simpl;
    destruct j; unf; unfold create_object, j_append in *; rj; simpl; rewrite ?lookup_insert //.
Qed.

(* one step of journal.revert: codes change only by reverting a codeChange *)
Lemma with_obj_code a f j b : (∀ o, a_code (o_data (f o)) = a_code (o_data o)) →
  codeof (j_objs (with_obj a f j) !! b) = codeof (j_objs j !! b).
Proof.
  intros Hf. unfold with_obj. destruct (j_objs j !! a) as [o|] eqn:Ho; [|by destruct j].
  destruct (decide (b = a)) as [->|Hne]; destruct j; rj; simpl in *.
  - rewrite lookup_insert Ho /=. by rewrite Hf.
  - by rewrite lookup_insert_ne.
Qed.

Lemma code_revert_entry e j b :
  codeof (j_objs (revert_entry e j) !! b) = codeof (j_objs j !! b) ∨
  j_objs (revert_entry e j) !! b = None ∨ (∃ prev, e = JCode b prev).
Proof.
  destruct e; simpl.
  - destruct (decide (b = a)) as [->|Hne]; [right; left|left]; destruct j; rj; simpl; by rewrite ?lookup_delete ?lookup_delete_ne.
  - left. apply with_obj_code. intros o. by destruct o.
  - left. destruct (j_objs j !! a) as [o|] eqn:Ho; [|done].
    destruct (decide (b = a)) as [->|Hne]; destruct j; rj; simpl in *; [rewrite lookup_insert Ho; by destruct o|by rewrite lookup_insert_ne].
  - left. apply with_obj_code. intros o. by destruct o.
  - left. apply with_obj_code. intros o. by destruct o.
  - left. apply with_obj_code. intros o. unfold set_state. case_match; by destruct o.
  - destruct (decide (b = a)) as [->|Hne]; [right; right; by eexists|].
    left. unfold with_obj. destruct (j_objs j !! a) as [o|] eqn:Ho; [|by destruct j].
    destruct j; rj; simpl. by rewrite lookup_insert_ne.
  - left. by destruct j.
  - left. repeat case_match; destruct j; rj; done.
  - by left.
  - left. by destruct j.
  - left. unfold al_delete_slot. repeat case_match; destruct j; rj; done.
  - left. by destruct j.
Qed.

Definition jcodes (es : list jentry) : list addr :=
  omap (λ e, match e with JCode a _ => Some a | _ => None end) es.

Lemma unmutate_objs e j : j_objs (unmutate e j) = j_objs j.
Proof. unfold unmutate. repeat case_match; destruct j; rj; done. Qed.

Lemma undo1_objs j e rest : j_entries j = e :: rest → j_objs (undo1 j) = j_objs (revert_entry e j).
Proof.
  intros E. unfold undo1. rewrite E. rewrite -(unmutate_objs e (revert_entry e j)).
  by destruct (unmutate e (revert_entry e j)).
Qed.

Lemma code_revert_n n : ∀ j b,
  codeof (j_objs (revert_n n j) !! b) = codeof (j_objs j !! b) ∨ j_objs (revert_n n j) !! b = None ∨
  b ∈ jcodes (take n (j_entries j)).
Proof.
  induction n as [|n IH]; intros j b; [by left|]. rewrite revert_n_S.
  destruct (j_entries j) as [|e rest] eqn:E; [by left|].
  pose proof (undo1_objs j e rest E) as Ho. pose proof (undo1_entries j) as He. rewrite E /= in He.
  destruct (IH (undo1 j) b) as [I|[I|I]].
  - destruct (code_revert_entry e j b) as [S|[S|[prev ->]]].
    + left. by rewrite I Ho S.
    + right. left. rewrite Ho S in I. unfold codeof in I. by destruct (j_objs (revert_n n (undo1 j)) !! b).
    + right. right. simpl. by left.
  - right. by left.
  - right. right. rewrite He in I. unfold jcodes in *. simpl. destruct e; simpl; try done. by right.
Qed.

Section Code.
  Variable H : list N → list N.
  Notation ext_of := (ext_of H).

  Definition in_p (p : pdb) (c : N) : Prop := p_codes p !! code_hash H c = Some (code_bytes c).
  (* during a transaction: a non-empty code is in the store or its object is marked dirtyCode *)
  Definition CD (p : pdb) (cs : cstate) : Prop :=
    ∀ b o, j_objs (c_j cs) !! b = Some o → a_code (o_data o) ≠ 0 →
      in_p p (a_code (o_data o)) ∨ x_dcode (ext_of cs b) = true.

  Lemma dcode_mark a cs b : x_dcode (ext_of (mark_dcode H a cs) b) = bool_decide (b = a) || x_dcode (ext_of cs b).
  Proof. unfold mark_dcode. rewrite ext_set_x. by case_bool_decide; subst. Qed.
  Lemma dcode_marks l cs b :
    x_dcode (ext_of (foldr (mark_dcode H) cs l) b) = true ↔ b ∈ l ∨ x_dcode (ext_of cs b) = true.
  Proof.
    induction l as [|a l IH]; simpl; [set_solver|]. rewrite dcode_mark orb_true_iff IH bool_decide_eq_true elem_of_cons.
    naive_solver.
  Qed.

  Lemma step_c_dcode cs o : body_op (c_j cs) o →
    let cs' := (step_c H cs o).1 in
    (∀ b, creates (c_j cs) o ≠ Some b → x_dcode (ext_of cs b) = true → x_dcode (ext_of cs' b) = true) ∧
    (∀ a c, o = OSetCode a c → x_dcode (ext_of cs' a) = true) ∧
    (∀ id idx rest, o = ORevert id → find_revision id (j_revs (c_j cs)) = Some (idx, rest) →
       ∀ b, b ∈ reverted_codes (c_j cs) idx → x_dcode (ext_of cs' b) = true).
  Proof.
    intros Hb. unfold step_c. destruct (step_j (c_j cs) o) as [j' w] eqn:Es.
    set (cs1 := match creates (c_j cs) o with Some a => set_x a (fresh_ext H) cs | None => cs end).
    assert (H1 : ∀ b, creates (c_j cs) o ≠ Some b → ext_of cs1 b = ext_of cs b).
    { intros b Hne. unfold cs1. destruct (creates (c_j cs) o) as [a|]; [|done].
      rewrite ext_set_x bool_decide_false //. congruence. }
    destruct o; try done; simpl;
      try (split; [intros b Hne Hd; change (x_dcode (ext_of cs1 b) = true); by rewrite H1|split; [done|done]]).
    - (* SetCode *) split; [|split; [|done]].
      + intros b Hne Hd. change (x_dcode (ext_of (mark_dcode H a cs1) b) = true). rewrite dcode_mark H1 // Hd. by destruct (bool_decide _).
      + intros a' c' Heq. injection Heq as <- _. change (x_dcode (ext_of (mark_dcode H a cs1) a) = true). by rewrite dcode_mark bool_decide_true.
    - (* Revert *) destruct (find_revision id (j_revs (c_j cs))) as [[idx rest]|] eqn:Ef.
      + split; [|split; [done|]].
        * intros b Hne Hd. change (x_dcode (ext_of (foldr (mark_dcode H) cs1 (reverted_codes (c_j cs) idx)) b) = true).
          apply dcode_marks. right. by rewrite H1.
        * intros id' idx' rest' Heq Hf b Hin. injection Heq as <-. rewrite Ef in Hf. injection Hf as <- <-.
          change (x_dcode (ext_of (foldr (mark_dcode H) cs1 (reverted_codes (c_j cs) idx)) b) = true).
          apply dcode_marks. by left.
      + split; [intros b Hne Hd; change (x_dcode (ext_of cs1 b) = true); by rewrite H1|split; [done|]].
        intros id' idx' rest' Heq Hf. injection Heq as <-. congruence.
  Qed.

  Lemma CD_from_kept p cs cs' :
    (∀ b, codeof (j_objs (c_j cs') !! b) = codeof (j_objs (c_j cs) !! b) ∨
          (j_objs (c_j cs) !! b = None ∧ codeof (j_objs (c_j cs') !! b) = Some 0) ∨
          j_objs (c_j cs') !! b = None ∨ x_dcode (ext_of cs' b) = true) →
    (∀ b, is_Some (j_objs (c_j cs) !! b) → x_dcode (ext_of cs b) = true → x_dcode (ext_of cs' b) = true) →
    CD p cs → CD p cs'.
  Proof.
    intros K M C b o' Ho' Hc. destruct (K b) as [E|[[_ E]|[E|E]]].
    - rewrite Ho' /= in E. destruct (j_objs (c_j cs) !! b) as [o|] eqn:Ho; [|done]. injection E as E.
      rewrite E in Hc |- *. destruct (C b o Ho Hc) as [?|Hd]; [by left|right]. apply M; [by rewrite Ho|done].
    - rewrite Ho' /= in E. by injection E.
    - by rewrite Ho' in E.
    - by right.
  Qed.

  Theorem CD_step p cs o : body_op (c_j cs) o → CD p cs → CD p (step_c H cs o).1.
  Proof.
    intros Hb C. destruct (step_c_body H cs o Hb) as (B1 & _). destruct (step_c_dcode cs o Hb) as (D1 & D2 & D3).
    apply (CD_from_kept p cs); [|exact (λ b Hs Hd, D1 b (λ Hc, ltac:(apply (creates_absent _ _ _ Hb) in Hc; destruct Hs; congruence)) Hd)|exact C].
    intros b. rewrite B1.
    destruct o; try done.
    all: try (destruct Hb as [Hok _];
              match goal with |- context [step_j _ ?o] =>
                destruct (code_kept_core (c_j cs) o eq_refl Hok ltac:(done) b) as [E|E]; [by left|right; by left] end).
    - (* SetCode *) destruct (decide (b = a)) as [->|Hne]; [right; right; right; exact (D2 a _ eq_refl)|left; by apply code_setcode].
    - (* Snapshot *) left. simpl. by destruct (c_j cs).
    - (* Revert *) simpl. destruct (find_revision id (j_revs (c_j cs))) as [[idx rest]|] eqn:Ef; simpl; [|by left].
      change (j_objs (revert_to idx (c_j cs) <| j_revs := rest |>)) with (j_objs (revert_to idx (c_j cs))).
      unfold revert_to.
      destruct (code_revert_n (length (j_entries (c_j cs)) - idx) (c_j cs) b) as [E|[E|E]]; [by left|right; right; by left|].
      right. right. right. exact (D3 id idx rest eq_refl Ef b E).
  Qed.
End Code.
