(* State/JournalProofs.v — lemmas about State/Journal.v (implementation model) and
   its refinement of State/Ref.v (reference model).
   Part 1: well-formedness [wf] and the exact-restore lemma [restore]
           (journal.revert is a left inverse of what one API call appended). *)
From Coq Require Import ssreflect.
From stdpp Require Import gmap.
From Coq Require Import NArith ZArith Lia.
From RecordUpdate Require Import RecordSet.
Import RecordSetNotations.
From GV Require Import State.Ref State.Journal.
Local Open Scope N_scope.

Global Opaque W256 W64.

(* ------------------------------------------------------------------ *)
(* mutation-state lemmas *)

Definition mok (m : mstate) : Prop :=
  (0 ≤ c_touch m ∧ 0 ≤ c_create m ∧ 0 ≤ c_sd m ∧ 0 ≤ c_bal m ∧ 0 ≤ c_nonce m ∧ 0 ≤ c_code m ∧ 0 ≤ c_stor m)%Z
  ∧ (s_bal m = None ↔ c_bal m = 0%Z) ∧ (s_nonce m = None ↔ c_nonce m = 0%Z)
  ∧ (s_code m = None ↔ c_code m = 0%Z).

Lemma mok0 : mok mstate0.
Proof. repeat split; simpl; auto; lia. Qed.

Lemma counts_zero_false m : counts_zero m = false ↔
  ¬ (c_touch m = 0 ∧ c_create m = 0 ∧ c_sd m = 0 ∧ c_bal m = 0 ∧ c_nonce m = 0 ∧ c_code m = 0 ∧ c_stor m = 0)%Z.
Proof. unfold counts_zero. rewrite bool_decide_eq_false. done. Qed.
Lemma counts_zero_true m : counts_zero m = true ↔
  (c_touch m = 0 ∧ c_create m = 0 ∧ c_sd m = 0 ∧ c_bal m = 0 ∧ c_nonce m = 0 ∧ c_code m = 0 ∧ c_stor m = 0)%Z.
Proof. unfold counts_zero. rewrite bool_decide_eq_true. done. Qed.

Ltac rj := cbv beta iota delta [set j_db j_objs j_destruct j_refund j_th j_ti j_logs j_logsize j_ala
  j_als j_tstor j_entries j_muts j_revs j_nextrev j_bad mutation] in *.
Ltac rs := unfold set in *; simpl in *.
Local Ltac fin := f_equal; [f_equal; lia | unfold counts_zero; simpl; apply bool_decide_ext; lia].

Lemma m_remove_add k v m : mok m → m_remove k (m_add k (stash_k k v m)) = (m, counts_zero m).
Proof.
  intros ((H1 & H2 & H3 & H4 & H5 & H6 & H7) & Hb & Hn & Hc).
  destruct m as [ct cc cs cb cn cd cst sb sn sc]; simpl in *.
  unfold m_remove, m_add.
  destruct k; simpl.
  - rs. case_bool_decide as Hz; rs; fin.
  - rs. case_bool_decide as Hz; rs; fin.
  - rs. case_bool_decide as Hz; rs; fin.
  - (* balance *)
    destruct sb as [x|]; rs; case_bool_decide as Hz; rs.
    + assert (cb ≠ 0%Z) by (intros ->; destruct Hb as [_ Hb]; specialize (Hb eq_refl); done). lia.
    + fin.
    + fin.
    + assert (cb = 0%Z) by (apply Hb; done). lia.
  - destruct sn as [x|]; rs; case_bool_decide as Hz; rs.
    + assert (cn ≠ 0%Z) by (intros ->; destruct Hn as [_ Hn]; specialize (Hn eq_refl); done). lia.
    + fin.
    + fin.
    + assert (cn = 0%Z) by (apply Hn; done). lia.
  - destruct sc as [x|]; rs; case_bool_decide as Hz; rs.
    + assert (cd ≠ 0%Z) by (intros ->; destruct Hc as [_ Hc]; specialize (Hc eq_refl); done). lia.
    + fin.
    + fin.
    + assert (cd = 0%Z) by (apply Hc; done). lia.
  - rs. case_bool_decide as Hz; rs; fin.
Qed.

Lemma mok_add_stash k v m : mok m → mok (m_add k (stash_k k v m)).
Proof.
  intros ((H1 & H2 & H3 & H4 & H5 & H6 & H7) & Hb & Hn & Hc).
  destruct m as [ct cc cs cb cn cd cst sb sn sc]; simpl in *.
  destruct k; unfold m_add, mok; simpl; [| | |destruct sb|destruct sn|destruct sc|]; rs;
    repeat split; intros; try done; try lia; try tauto.
Qed.

Lemma counts_zero_add k m : mok m → counts_zero (m_add k m) = false.
Proof.
  intros ((H1 & H2 & H3 & H4 & H5 & H6 & H7) & _).
  apply counts_zero_false. destruct m; destruct k; unfold m_add; rs; lia.
Qed.
Lemma counts_zero_stash k v m : counts_zero (stash_k k v m) = counts_zero m.
Proof. destruct m as [? ? ? ? ? ? ? sb sn sc]; destruct k; simpl; try done; [destruct sb|destruct sn|destruct sc]; done. Qed.

Arguments m_add : simpl never.
Arguments stash_k : simpl never.
Arguments m_remove : simpl never.
Arguments set_state : simpl never.
Arguments committed : simpl never.
Arguments get_state : simpl never.

(* ------------------------------------------------------------------ *)
(* one step of journal.revert *)
Definition undo1 (j : jstate) : jstate :=
  match j_entries j with
  | [] => j
  | e :: rest => (unmutate e (revert_entry e j)) <| j_entries := rest |>
  end.

Lemma revert_n_S n j : revert_n (S n) j = match j_entries j with [] => j | _ => revert_n n (undo1 j) end.
Proof. unfold undo1. simpl. destruct (j_entries j); done. Qed.

Lemma revert_n_nil n j : j_entries j = [] → revert_n n j = j.
Proof. intros H. destruct n; simpl; [done|]. by rewrite H. Qed.

Lemma revert_n_add n m j : revert_n (n + m) j = revert_n m (revert_n n j).
Proof.
  revert j. induction n as [|n IH]; intros j; [done|].
  change (S n + m)%nat with (S (n + m)). rewrite !revert_n_S.
  destruct (j_entries j) eqn:E; [by rewrite revert_n_nil|]. apply IH.
Qed.

Definition mloc (j : jstate) (a : addr) : Prop :=
  ∀ m, j_muts j !! a = Some m → mok m ∧ counts_zero m = false.

Lemma revert_entry_muts e j : j_muts (revert_entry e j) = j_muts j.
Proof.
  destruct e; simpl; unfold with_obj, al_delete_slot; rs; repeat case_match; rs; done.
Qed.
Lemma revert_entry_entries e j : j_entries (revert_entry e j) = j_entries j.
Proof.
  destruct e; simpl; unfold with_obj, al_delete_slot; rs; repeat case_match; rs; done.
Qed.

Lemma undo1_mut j j' e a k v :
  mutation e = Some (a, k) → mloc j a →
  j_entries j' = e :: j_entries j →
  j_muts j' = <[a := m_add k (stash_k k v (mstate_for a j))]> (j_muts j) →
  revert_entry e j' <| j_entries := j_entries j |> <| j_muts := j_muts j |> = j →
  undo1 j' = j.
Proof.
  intros Hm Hl He HM Hr. unfold undo1. rewrite He. unfold unmutate. rewrite Hm.
  assert (HX : j_muts (revert_entry e j') = <[a := m_add k (stash_k k v (mstate_for a j))]> (j_muts j))
    by (by rewrite revert_entry_muts).
  rewrite HX lookup_insert m_remove_add.
  1:{ unfold mstate_for. destruct (j_muts j !! a) as [m|] eqn:E; simpl; [by apply Hl|apply mok0]. }
  unfold mstate_for in *. destruct (j_muts j !! a) as [m|] eqn:E; simpl in *.
  - destruct (Hl m E) as [_ ->]. etrans; [|exact Hr].
    destruct (revert_entry e j'); rs. f_equal. subst. by rewrite insert_insert insert_id.
  - replace (counts_zero mstate0) with true by done. etrans; [|exact Hr].
    destruct (revert_entry e j'); rs. f_equal. subst. by rewrite delete_insert.
Qed.

Lemma undo1_nomut j j' e :
  mutation e = None → j_entries j' = e :: j_entries j →
  revert_entry e j' <| j_entries := j_entries j |> = j →
  undo1 j' = j.
Proof. intros Hm He Hr. unfold undo1. rewrite He. unfold unmutate. by rewrite Hm. Qed.

(* ------------------------------------------------------------------ *)
(* exact restore, one journalled primitive at a time *)
Ltac unf := unfold create_object, obj_set_balance, obj_set_nonce, obj_set_code, obj_set_state,
  obj_self_destruct, put_obj, balance_change, nonce_change, code_change, stash_bal, stash_nonce,
  stash_code, stash, j_append, with_obj, mstate_for in *.

(* "P appends exactly entry e and one undo step gives j back" *)
Definition restores (j j' : jstate) (e : jentry) : Prop :=
  j_entries j' = e :: j_entries j ∧ undo1 j' = j.

Lemma undo_create_object j a :
  mloc j a → j_objs j !! a = None → restores j (create_object a j) (JCreateObject a).
Proof.
  intros Hl Ho. split; [destruct j; unf; rj; by simpl|].
  apply (undo1_mut _ _ (JCreateObject a) a KCreate 0); [done|done|destruct j; unf; rj; by simpl|destruct j; unf; rj; by simpl|].
  destruct j; unf; rj; simpl. f_equal. by rewrite delete_insert.
Qed.

Lemma undo_set_balance j a o v :
  mloc j a → j_objs j !! a = Some o →
  restores j (obj_set_balance a o v j) (JBalance a (a_bal (o_data o))).
Proof.
  intros Hl Ho. split; [destruct j; unf; rj; by simpl|].
  apply (undo1_mut _ _ (JBalance a (a_bal (o_data o))) a KBalance (a_bal (o_data o))); [done|done|destruct j; unf; rj; by simpl|..].
  - destruct j; unf; rj. by rewrite lookup_insert insert_insert.
  - destruct j; unf; rj; simpl; unfold with_obj; rj; rewrite lookup_insert; rj; simpl; f_equal.
    rewrite insert_insert. apply insert_id. rewrite Ho. f_equal. by destruct o as [? [] ? ? ? ?].
Qed.

Lemma undo_set_nonce j a o v :
  mloc j a → j_objs j !! a = Some o →
  restores j (obj_set_nonce a o v j) (JNonce a (a_nonce (o_data o))).
Proof.
  intros Hl Ho. split; [destruct j; unf; rj; by simpl|].
  apply (undo1_mut _ _ (JNonce a (a_nonce (o_data o))) a KNonce (a_nonce (o_data o))); [done|done|destruct j; unf; rj; by simpl|..].
  - destruct j; unf; rj. by rewrite lookup_insert insert_insert.
  - destruct j; unf; rj; simpl; unfold with_obj; rj; rewrite lookup_insert; rj; simpl; f_equal.
    rewrite insert_insert. apply insert_id. rewrite Ho. f_equal. by destruct o as [? [] ? ? ? ?].
Qed.

Lemma undo_set_code j a o v :
  mloc j a → j_objs j !! a = Some o →
  restores j (obj_set_code a o v j) (JCode a (a_code (o_data o))).
Proof.
  intros Hl Ho. split; [destruct j; unf; rj; by simpl|].
  apply (undo1_mut _ _ (JCode a (a_code (o_data o))) a KCode (a_code (o_data o))); [done|done|destruct j; unf; rj; by simpl|..].
  - destruct j; unf; rj. by rewrite lookup_insert insert_insert.
  - destruct j; unf; rj; simpl; unfold with_obj; rj; rewrite lookup_insert; rj; simpl; f_equal.
    rewrite insert_insert. apply insert_id. rewrite Ho. f_equal. by destruct o as [? [] ? ? ? ?].
Qed.

Lemma set_state_undo k v orig prev o :
  (match o_dirty o !! k with Some d => d = prev ∧ d ≠ orig | None => prev = orig end) →
  set_state k prev orig (set_state k v orig o) = o.
Proof.
  intros H. unfold set_state. destruct o as [oo od dirty pend sd nw]; simpl in *.
  destruct (v =? orig) eqn:E1; rs; destruct (prev =? orig) eqn:E2; rs; f_equal;
    apply N.eqb_eq in E2 || apply N.eqb_neq in E2;
    destruct (dirty !! k) as [d|] eqn:Ed; try (destruct H as [-> H]); try done.
  - by rewrite delete_idemp delete_notin.
  - by rewrite insert_delete_insert insert_id.
  - by rewrite delete_insert.
  - by rewrite insert_insert insert_id.
Qed.

Lemma undo_set_state j a o k v :
  mloc j a → j_objs j !! a = Some o →
  (∀ d, o_dirty o !! k = Some d → d ≠ committed j a o k) →
  restores j (obj_set_state a o k v j) (JStorage a k (get_state j a o k) (committed j a o k)).
Proof.
  intros Hl Ho Hd. split; [destruct j; unf; rj; by simpl|].
  apply (undo1_mut _ _ (JStorage a k (get_state j a o k) (committed j a o k)) a KStorage 0);
    [done|done|destruct j; unf; rj; by simpl|destruct j; unf; rj; by simpl|].
  destruct j; unf; rj; simpl; unfold with_obj; rj; rewrite lookup_insert; rj; simpl; f_equal.
  rewrite insert_insert. apply insert_id. rewrite Ho. f_equal.
  symmetry. apply set_state_undo. unfold get_state. destruct (o_dirty o !! k) eqn:E; [|done].
  split; [done|]. by apply Hd.
Qed.

Lemma undo_self_destruct j a o :
  mloc j a → j_objs j !! a = Some o → o_sd o = false →
  restores j (obj_self_destruct a o j) (JSelfDestruct a).
Proof.
  intros Hl Ho Hs. split; [destruct j; unf; rj; by simpl|].
  apply (undo1_mut _ _ (JSelfDestruct a) a KSelfDestruct 0); [done|done|destruct j; unf; rj; by simpl|destruct j; unf; rj; by simpl|].
  destruct j; unf; rj; simpl; unfold with_obj; rj; rewrite lookup_insert; rj; simpl; f_equal.
  rewrite insert_insert. apply insert_id. rewrite Ho. f_equal. destruct o; simpl in *. by subst.
Qed.

Lemma undo_create_contract j a o :
  j_objs j !! a = Some o → o_new o = false →
  restores j (j_append (JCreateContract a) (put_obj a (o <| o_new := true |>) j)) (JCreateContract a).
Proof.
  intros Ho Hs. split; [destruct j; unf; rj; by simpl|].
  apply (undo1_nomut _ _ (JCreateContract a)); [done|destruct j; unf; rj; by simpl|].
  destruct j; unf; rj; simpl; unfold with_obj; rj; rewrite lookup_insert; rj; simpl; f_equal.
  rewrite insert_insert. apply insert_id. rewrite Ho. f_equal. destruct o; simpl in *. by subst.
Qed.

Lemma undo_touch j a :
  mloc j a → a ≠ ripemd → restores j (touch_change a j) (JTouch a).
Proof.
  intros Hl Hr. unfold touch_change. rewrite bool_decide_false //.
  split; [destruct j; unf; rj; by simpl|].
  apply (undo1_mut _ _ (JTouch a) a KTouch 0); [done|done|destruct j; unf; rj; by simpl|destruct j; unf; rj; by simpl|].
  destruct j; unf; rj; by simpl.
Qed.

Lemma undo_refund j v :
  restores j ((j_append (JRefund (j_refund j)) j) <| j_refund := v |>) (JRefund (j_refund j)).
Proof.
  split; [destruct j; unf; rj; by simpl|]. apply (undo1_nomut _ _ (JRefund (j_refund j))); [done|destruct j; unf; rj; by simpl|]. destruct j; unf; rj; by simpl.
Qed.
Lemma undo_refund' j :
  restores j (j_append (JRefund (j_refund j)) j) (JRefund (j_refund j)).
Proof.
  split; [destruct j; unf; rj; by simpl|]. apply (undo1_nomut _ _ (JRefund (j_refund j))); [done|destruct j; unf; rj; by simpl|]. destruct j; unf; rj; by simpl.
Qed.

Lemma undo_al_addr j a :
  j_ala j !! a = None →
  restores j (j_append (JALAddr a) (j <| j_ala ::= <[a := (-1)%Z]> |>)) (JALAddr a).
Proof.
  intros H. split; [destruct j; unf; rj; by simpl|]. apply (undo1_nomut _ _ (JALAddr a)); [done|destruct j; unf; rj; by simpl|].
  destruct j; unf; rj; simpl. f_equal. by rewrite delete_insert.
Qed.

Lemma undo_transient j a k v :
  (∀ x, j_tstor j !! (a, k) = Some x → x ≠ 0) →
  let prev := default 0 (j_tstor j !! (a, k)) in
  restores j ((j_append (JTransient a k prev) j)
                <| j_tstor ::= (if v =? 0 then delete (a, k) else <[(a, k) := v]>) |>)
           (JTransient a k prev).
Proof.
  intros H prev. split; [destruct j; unf; rj; by simpl|]. apply (undo1_nomut _ _ (JTransient a k prev)); [done|destruct j; unf; rj; by simpl|].
  subst prev. destruct j; unf; rj; simpl. f_equal.
  destruct (j_tstor !! (a, k)) as [x|] eqn:E; simpl.
  - specialize (H x eq_refl). destruct (x =? 0) eqn:Ex; [apply N.eqb_eq in Ex; done|].
    destruct (v =? 0); [by rewrite insert_delete_insert insert_id|by rewrite insert_insert insert_id].
  - destruct (v =? 0); [by rewrite delete_idemp delete_notin|by rewrite delete_insert].
Qed.

Lemma undo_log j l :
  (j_logs j !! j_th j ≠ Some []) →
  restores j ((j_append (JAddLog (j_th j)) j)
                <| j_logs ::= <[j_th j := default [] (j_logs j !! j_th j) ++ [l]]> |>
                <| j_logsize ::= N.succ |>) (JAddLog (j_th j)).
Proof.
  intros H. split; [destruct j; unf; rj; by simpl|]. apply (undo1_nomut _ _ (JAddLog (j_th j))); [done|destruct j; unf; rj; by simpl|].
  destruct j; unf; rj; simpl. rewrite lookup_insert. simpl.
  destruct (j_logs !! j_th) as [[|x xs]|] eqn:E; simpl; [done| |].
  - destruct (xs ++ [l]) eqn:E2; [by destruct xs|]. rewrite -E2. rs. rewrite N.pred_succ. f_equal.
    change (x :: xs ++ [l]) with ((x :: xs) ++ [l]). rewrite removelast_last.
    by rewrite insert_insert insert_id.
  - rs. rewrite N.pred_succ. f_equal. by rewrite delete_insert.
Qed.

(* ---- access list: AddSlot ---- *)
Definition al_loc (j : jstate) (a : addr) : Prop :=
  ∀ idx, j_ala j !! a = Some idx →
    idx = (-1)%Z ∨ ((0 ≤ idx)%Z ∧ ∃ sm, j_als j !! Z.to_nat idx = Some sm ∧ sm ≠ ∅).

Lemma revert_to_1 j j' e : restores j j' e → revert_to (length (j_entries j)) j' = j.
Proof.
  intros [He Hu]. unfold revert_to. rewrite He. simpl length.
  replace (S (length (j_entries j)) - length (j_entries j))%nat with 1%nat by lia.
  rewrite revert_n_S He. simpl. done.
Qed.

Lemma revert_to_2 j j1 j2 e1 e2 :
  restores j j1 e1 → restores j1 j2 e2 → revert_to (length (j_entries j)) j2 = j.
Proof.
  intros [He1 Hu1] [He2 Hu2]. unfold revert_to. rewrite He2 He1. simpl length.
  replace (S (S (length (j_entries j))) - length (j_entries j))%nat with 2%nat by lia.
  rewrite revert_n_S He2 Hu2 revert_n_S He1 Hu1. done.
Qed.

Lemma revert_to_0 j : revert_to (length (j_entries j)) j = j.
Proof. unfold revert_to. by rewrite Nat.sub_diag. Qed.

Lemma undo_al_slot_fresh j a k :
  (j_ala j !! a = None ∨ j_ala j !! a = Some (-1)%Z) →
  let j0 := match j_ala j !! a with None => j <| j_ala ::= <[a := (-1)%Z]> |> | _ => j end in
  restores j0
    (j_append (JALSlot a k)
       (j0 <| j_ala ::= <[a := Z.of_nat (length (j_als j))]> |> <| j_als ::= (λ l, l ++ [{[k]}]) |>))
    (JALSlot a k).
Proof.
  intros H j0. subst j0. split; [destruct j; unf; rj; simpl; by destruct (j_ala !! a)|].
  apply (undo1_nomut _ _ (JALSlot a k)); [done|destruct j; unf; rj; simpl; by destruct (j_ala !! a)|].
  destruct j; unf; rj; simpl in *.
  assert (Hs : ({[k]} : gset slot) ∖ {[k]} = ∅) by set_solver.
  destruct H as [H|H]; rewrite H; rj; simpl; unfold al_delete_slot; rj; simpl;
    rewrite lookup_insert; simpl;
    (destruct (Z.of_nat (length j_als) <? 0)%Z eqn:E; [apply Z.ltb_lt in E; lia|]);
    rewrite Nat2Z.id lookup_app_r // Nat.sub_diag; simpl; rewrite Hs bool_decide_true //;
    rj; simpl; f_equal; rewrite ?insert_insert ?take_app //.
  by rewrite insert_id.
Qed.

Lemma undo_al_slot_old j a k idx sm :
  j_ala j !! a = Some idx → (0 ≤ idx)%Z → j_als j !! Z.to_nat idx = Some sm → sm ≠ ∅ → k ∉ sm →
  restores j (j_append (JALSlot a k) (j <| j_als ::= <[Z.to_nat idx := {[k]} ∪ sm]> |>)) (JALSlot a k).
Proof.
  intros Ha Hi Hs Hne Hk. split; [destruct j; unf; rj; by simpl|].
  apply (undo1_nomut _ _ (JALSlot a k)); [done|destruct j; unf; rj; by simpl|].
  destruct j; unf; rj; simpl in *. unfold al_delete_slot; rj; simpl. rewrite Ha.
  destruct (idx <? 0)%Z eqn:E; [apply Z.ltb_lt in E; lia|].
  rewrite list_lookup_insert; [by eapply lookup_lt_Some|]. simpl.
  assert (Hd : ({[k]} ∪ sm) ∖ {[k]} = sm) by set_solver. rewrite Hd bool_decide_false //.
  rj; simpl. f_equal. by rewrite list_insert_insert list_insert_id.
Qed.

(* ------------------------------------------------------------------ *)
(* well-formedness of implementation states *)
Record wf (j : jstate) : Prop := {
  wf_bad : j_bad j = false;
  wf_muts : ∀ a, mloc j a;
  wf_al : ∀ a, al_loc j a;
  wf_logs : ∀ th, j_logs j !! th ≠ Some [];
  wf_tstor : ∀ k x, j_tstor j !! k = Some x → x ≠ 0;
  wf_dirty : ∀ a o k d, j_objs j !! a = Some o → o_dirty o !! k = Some d → d ≠ committed j a o k;
  (* access-list indices are not shared *)
  wf_alinj : ∀ a a' idx, j_ala j !! a = Some idx → j_ala j !! a' = Some idx → (0 ≤ idx)%Z → a = a';
  (* an object without origin stands for an account that is absent from the reader's view *)
  wf_origin : ∀ a o, j_objs j !! a = Some o → o_origin o = None → a ∈ j_destruct j ∨ j_db j !! a = None;
  (* eager loading: no live object = destructed in this block, or absent from the pre-state *)
  wf_eager : ∀ a, j_objs j !! a = None → a ∈ j_destruct j ∨ j_db j !! a = None;
  (* dirty storage implies a live journal entry *)
  wf_dirtymut : ∀ a o, j_objs j !! a = Some o → o_dirty o ≠ ∅ → a ∈ dom (j_muts j);
  (* a self-destruct mark implies a live journal entry *)
  wf_sdmut : ∀ a o, j_objs j !! a = Some o → o_sd o = true → a ∈ dom (j_muts j)
}.

Definition core_op (o : op) : bool :=
  match o with OSnapshot | ORevert _ | OFinalise _ | OTxStart _ _ _ _ _ _ _ => false | _ => true end.

(* the RIPEMD-160 zero-value touch: the one call whose journal.mutations effect is
   deliberately NOT undone by a revert *)
Definition sticky_j (j : jstate) (o : op) : bool :=
  match o with
  | OAddBalance a v =>
      bool_decide (a = ripemd) && (v =? 0) &&
      match j_objs j !! a with Some o => obj_empty o | None => true end
  | _ => false
  end.

Lemma mloc_create j a : mloc j a → mloc (create_object a j) a.
Proof.
  intros H m. destruct j; unf; rj; simpl in *. rewrite lookup_insert. intros [= <-].
  pose proof (mok_add_stash KCreate 0 (default mstate0 (j_muts !! a))) as Hm.
  assert (Hk : mok (default mstate0 (j_muts !! a))).
  { destruct (j_muts !! a) eqn:E; simpl; [by apply H|apply mok0]. }
  split; [by apply Hm|]. by apply counts_zero_add.
Qed.

Lemma gon j a :
  wf j →
  let '(j1, o) := get_or_new_j a j in
  j_objs j1 !! a = Some o ∧ mloc j1 a ∧ (j1 = j ∨ restores j j1 (JCreateObject a)) ∧
  (∀ k d, o_dirty o !! k = Some d → d ≠ committed j1 a o k).
Proof.
  intros W. unfold get_or_new_j. destruct (j_objs j !! a) as [o|] eqn:Ho.
  - split; [done|]. split; [apply W|]. split; [by left|]. intros k d. by eapply wf_dirty.
  - split; [destruct j; unf; rj; simpl; by rewrite lookup_insert|].
    split; [apply mloc_create, W|]. split; [right; apply undo_create_object; [apply W|done]|].
    intros k d. by rewrite lookup_empty.
Qed.

Lemma finish j j1 j2 e :
  (j1 = j ∨ restores j j1 (JCreateObject e.1)) → restores j1 j2 e.2 →
  revert_to (length (j_entries j)) j2 = j.
Proof. intros [->|H1] H2; [by eapply revert_to_1|by eapply revert_to_2]. Qed.

Theorem restore j o :
  wf j → core_op o = true → op_ok j o = true → sticky_j j o = false →
  revert_to (length (j_entries j)) (step_j j o).1 = j.
Proof.
  intros W Hc Hok Hst. destruct o; try done; simpl in *.
  - (* CreateAccount *)
    apply bool_decide_eq_true in Hok. eapply revert_to_1, undo_create_object; [apply W|done].
  - (* CreateContract *)
    destruct (j_objs j !! a) as [o|] eqn:Ho; simpl; [|apply revert_to_0].
    destruct (o_new o) eqn:Hn; simpl; [apply revert_to_0|].
    by eapply revert_to_1, undo_create_contract.
  - (* AddBalance *)
    pose proof (gon j a W) as G. unfold get_or_new_j in *.
    destruct (j_objs j !! a) as [o|] eqn:Ho; simpl in *; destruct G as (G1 & G2 & G3 & G4).
    + destruct (v =? 0) eqn:Ev; simpl.
      * destruct (obj_empty o) eqn:Ee; [|apply revert_to_0].
        eapply revert_to_1, undo_touch; [apply W|].
        rewrite !andb_true_r in Hst. by apply bool_decide_eq_false in Hst.
      * eapply revert_to_1, undo_set_balance; [apply W|done].
    + destruct (v =? 0) eqn:Ev; simpl.
      * change (obj_empty (new_object None)) with true. simpl.
        rewrite !andb_true_r in Hst. apply bool_decide_eq_false in Hst.
        eapply (finish _ _ _ (a, JTouch a)); [exact G3|]. by apply undo_touch.
      * eapply (finish _ _ _ (a, _)); [exact G3|]. by apply undo_set_balance.
  - (* SubBalance *)
    pose proof (gon j a W) as G. destruct (get_or_new_j a j) as [j1 o] eqn:Eg.
    destruct G as (G1 & G2 & G3 & G4). destruct (v =? 0); simpl.
    + destruct G3 as [->|G3]; [apply revert_to_0|by eapply revert_to_1].
    + eapply (finish _ _ _ (a, _)); [exact G3|]. by apply undo_set_balance.
  - pose proof (gon j a W) as G. destruct (get_or_new_j a j) as [j1 o] eqn:Eg.
    destruct G as (G1 & G2 & G3 & G4). simpl.
    eapply (finish _ _ _ (a, _)); [exact G3|]. by apply undo_set_balance.
  - pose proof (gon j a W) as G. destruct (get_or_new_j a j) as [j1 o] eqn:Eg.
    destruct G as (G1 & G2 & G3 & G4). simpl.
    eapply (finish _ _ _ (a, _)); [exact G3|]. by apply undo_set_nonce.
  - pose proof (gon j a W) as G. destruct (get_or_new_j a j) as [j1 o] eqn:Eg.
    destruct G as (G1 & G2 & G3 & G4). simpl.
    eapply (finish _ _ _ (a, _)); [exact G3|]. by apply undo_set_code.
  - (* SetState *)
    pose proof (gon j a W) as G. destruct (get_or_new_j a j) as [j1 o] eqn:Eg.
    destruct G as (G1 & G2 & G3 & G4). destruct (get_state j1 a o k =? v); simpl.
    + destruct G3 as [->|G3]; [apply revert_to_0|by eapply revert_to_1].
    + eapply (finish _ _ _ (a, _)); [exact G3|]. apply undo_set_state; [done|done|apply G4].
  - (* SetTransient *)
    destruct (default 0 (j_tstor j !! (a, k)) =? v); simpl; [apply revert_to_0|].
    eapply revert_to_1, undo_transient. intros x. apply W.
  - (* SelfDestruct *)
    destruct (j_objs j !! a) as [o|] eqn:Ho; simpl; [|apply revert_to_0].
    destruct (o_sd o) eqn:Hs; simpl; [apply revert_to_0|].
    eapply revert_to_1, undo_self_destruct; [apply W|done|done].
  - destruct (j_objs j !! a) as [o|] eqn:Ho; simpl; [|apply revert_to_0].
    destruct (o_new o && negb (o_sd o)) eqn:Hs; simpl; [|apply revert_to_0].
    apply andb_true_iff in Hs as [_ Hs]. apply negb_true_iff in Hs.
    eapply revert_to_1, undo_self_destruct; [apply W|done|done].
  - (* AddAddress *)
    unfold al_add_address. destruct (j_ala j !! a) eqn:Ha; simpl; [apply revert_to_0|].
    by eapply revert_to_1, undo_al_addr.
  - (* AddSlot *)
    unfold al_add_slot. pose proof (wf_al _ W a) as Hal. unfold al_loc in Hal.
    destruct (j_ala j !! a) as [idx|] eqn:Ha.
    + destruct (Hal idx eq_refl) as [->|(Hi & sm & Hs & Hne)].
      * simpl. pose proof (undo_al_slot_fresh j a k (or_intror Ha)) as H. rewrite Ha in H.
        by eapply revert_to_1.
      * destruct (idx =? -1)%Z eqn:E; [apply Z.eqb_eq in E; lia|]. rewrite Hs.
        case_bool_decide; simpl; [apply revert_to_0|].
        by eapply revert_to_1, undo_al_slot_old.
    + simpl. set (j0 := j_append (JALAddr a) (j <| j_ala ::= <[a := (-1)%Z]> |>)).
      assert (Ha0 : j_ala j0 !! a = Some (-1)%Z) by (subst j0; destruct j; unf; rj; simpl; by rewrite lookup_insert).
      pose proof (undo_al_slot_fresh j0 a k (or_intror Ha0)) as H. rewrite Ha0 in H.
      eapply revert_to_2; [by apply undo_al_addr|].
      replace (j_append (JALSlot a k) (j_append (JALAddr a) (j <| j_ala ::= <[a:=Z.of_nat (length (j_als j))]> |> <| j_als ::= λ l, l ++ [{[k]}] |>)))
        with (j_append (JALSlot a k) (j0 <| j_ala ::= <[a:=Z.of_nat (length (j_als j0))]> |> <| j_als ::= λ l, l ++ [{[k]}] |>)); [exact H|].
      subst j0. destruct j; unf; rj; simpl. f_equal. by rewrite insert_insert.
  - apply (revert_to_1 _ _ _ (undo_refund j _)).
  - destruct (j_refund j <? g); simpl.
    + apply (revert_to_1 _ _ _ (undo_refund' j)).
    + apply (revert_to_1 _ _ _ (undo_refund j _)).
  - eapply revert_to_1, undo_log. apply W.
Qed.

(* ------------------------------------------------------------------ *)
(* revert is a left inverse of any run of journalled calls *)
Lemma undo1_entries j : j_entries (undo1 j) = tail (j_entries j).
Proof. unfold undo1. destruct (j_entries j) eqn:E; [by rewrite E|]. by destruct (unmutate _ _). Qed.

Lemma revert_n_length n j : length (j_entries (revert_n n j)) = (length (j_entries j) - n)%nat.
Proof.
  revert j. induction n as [|n IH]; intros j; [simpl; lia|].
  rewrite revert_n_S. destruct (j_entries j) eqn:E; [by rewrite E|].
  rewrite IH undo1_entries E. simpl. lia.
Qed.

Lemma revert_to_trans idx idx1 j :
  (idx ≤ idx1)%nat → revert_to idx j = revert_to idx (revert_to idx1 j).
Proof.
  intros H. unfold revert_to. rewrite revert_n_length -revert_n_add. f_equal. lia.
Qed.

Fixpoint run_ok (j : jstate) (ops : list op) : Prop :=
  match ops with
  | [] => True
  | o :: r => wf j ∧ core_op o = true ∧ op_ok j o = true ∧ sticky_j j o = false ∧ run_ok (step_j j o).1 r
  end.

Theorem restore_run j ops :
  run_ok j ops → revert_to (length (j_entries j)) (run_j j ops) = j.
Proof.
  revert j. induction ops as [|o r IH]; intros j H; [apply revert_to_0|].
  destruct H as (W & Hc & Hok & Hst & Hr). simpl.
  pose proof (restore j o W Hc Hok Hst) as R1. specialize (IH _ Hr).
  set (j1 := (step_j j o).1) in *.
  destruct (decide (length (j_entries j) ≤ length (j_entries j1))%nat) as [Hle|Hgt].
  - rewrite (revert_to_trans _ (length (j_entries j1))) //. by rewrite IH.
  - assert (j1 = j) as E.
    { rewrite -R1. unfold revert_to. replace (length (j_entries j1) - length (j_entries j))%nat with 0%nat by lia. done. }
    rewrite E in Hgt. lia.
Qed.

(* the initial state is well-formed *)
Lemma wf_init db : wf (init_j db).
Proof.
  split; simpl.
  - done.
  - intros a m. by rewrite lookup_empty.
  - intros a idx. by rewrite lookup_empty.
  - intros th. by rewrite lookup_empty.
  - intros k x. by rewrite lookup_empty.
  - intros a o k d (x & <- & _)%lookup_fmap_Some Hd. simpl in Hd. by apply lookup_empty_Some in Hd.
  - intros a a' idx. by rewrite lookup_empty.
  - intros a o (x & <- & _)%lookup_fmap_Some. done.
  - intros a. rewrite lookup_fmap fmap_None. by right.
  - intros a o (x & <- & _)%lookup_fmap_Some. done.
  - intros a o (x & <- & _)%lookup_fmap_Some. done.
Qed.

(* ------------------------------------------------------------------ *)
(* API level: Snapshot; journalled calls; RevertToSnapshot = identity (but for the id counter) *)
Lemma revert_entry_revs e j :
  j_revs (revert_entry e j) = j_revs j ∧ j_nextrev (revert_entry e j) = j_nextrev j.
Proof.
  destruct e; simpl; unfold with_obj, al_delete_slot; rs; repeat case_match; rs; done.
Qed.
Lemma undo1_revs j : j_revs (undo1 j) = j_revs j ∧ j_nextrev (undo1 j) = j_nextrev j.
Proof.
  unfold undo1. destruct (j_entries j) as [|e rest]; [done|].
  destruct (revert_entry_revs e j) as [H1 H2]. unfold unmutate.
  destruct (mutation e) as [[a k]|]; [|destruct (revert_entry e j); rs; done].
  destruct (j_muts (revert_entry e j) !! a); [|destruct (revert_entry e j); rs; done].
  destruct (m_remove k m) as [m' []]; destruct (revert_entry e j); rs; done.
Qed.
Lemma revert_n_revs n j : j_revs (revert_n n j) = j_revs j ∧ j_nextrev (revert_n n j) = j_nextrev j.
Proof.
  revert j. induction n as [|n IH]; intros j; [done|]. rewrite revert_n_S.
  destruct (j_entries j); [done|]. destruct (IH (undo1 j)) as [-> ->]. apply undo1_revs.
Qed.

Theorem snapshot_revert j ops :
  let j0 := (step_j j OSnapshot).1 in
  run_ok j0 ops →
  step_j (run_j j0 ops) (ORevert (j_nextrev j)) = (j <| j_nextrev ::= N.succ |>, RNone).
Proof.
  intros j0 H. pose proof (restore_run j0 ops H) as R.
  assert (Hrev : j_revs (run_j j0 ops) = (j_nextrev j, length (j_entries j)) :: j_revs j).
  { rewrite -(proj1 (revert_n_revs (length (j_entries (run_j j0 ops)) - length (j_entries j0)) _)).
    fold (revert_to (length (j_entries j0)) (run_j j0 ops)). rewrite R. subst j0. by destruct j. }
  simpl. rewrite Hrev. simpl. rewrite N.eqb_refl. f_equal.
  assert (E : length (j_entries j) = length (j_entries j0)) by (subst j0; by destruct j).
  rewrite E R. subst j0. by destruct j.
Qed.
