(* State/JournalProofs.v — lemmas about State/Journal.v (implementation model) and
   its refinement of State/Ref.v (reference model).
   Part 1: well-formedness [wf] and the exact-restore lemma [restore]
           (journal.revert is a left inverse of what one API call appended). *)
From Coq Require Import ssreflect.
From stdpp Require Import gmap.
From Coq Require Import NArith ZArith Lia.
From RecordUpdate Require Import RecordSet.
Import RecordSetNotations.
From GV Require Import State.Ref State.Journal.
Local Open Scope N_scope.

Global Opaque W256 W64.

(* ------------------------------------------------------------------ *)
(* mutation-state lemmas *)

Definition mok (m : mstate) : Prop :=
  (0 ≤ c_touch m ∧ 0 ≤ c_create m ∧ 0 ≤ c_sd m ∧ 0 ≤ c_bal m ∧ 0 ≤ c_nonce m ∧ 0 ≤ c_code m ∧ 0 ≤ c_stor m)%Z
  ∧ (s_bal m = None ↔ c_bal m = 0%Z) ∧ (s_nonce m = None ↔ c_nonce m = 0%Z)
  ∧ (s_code m = None ↔ c_code m = 0%Z).

Lemma mok0 : mok mstate0.
Proof. repeat split; simpl; auto; lia. Qed.

Lemma counts_zero_false m : counts_zero m = false ↔
  ¬ (c_touch m = 0 ∧ c_create m = 0 ∧ c_sd m = 0 ∧ c_bal m = 0 ∧ c_nonce m = 0 ∧ c_code m = 0 ∧ c_stor m = 0)%Z.
Proof. unfold counts_zero. rewrite bool_decide_eq_false. done. Qed.
Lemma counts_zero_true m : counts_zero m = true ↔
  (c_touch m = 0 ∧ c_create m = 0 ∧ c_sd m = 0 ∧ c_bal m = 0 ∧ c_nonce m = 0 ∧ c_code m = 0 ∧ c_stor m = 0)%Z.
Proof. unfold counts_zero. rewrite bool_decide_eq_true. done. Qed.

Ltac rs := unfold set in *; simpl in *.
Local Ltac fin := f_equal; [f_equal; lia | unfold counts_zero; simpl; apply bool_decide_ext; lia].

Lemma m_remove_add k v m : mok m → m_remove k (m_add k (stash_k k v m)) = (m, counts_zero m).
Proof.
  intros ((H1 & H2 & H3 & H4 & H5 & H6 & H7) & Hb & Hn & Hc).
  destruct m as [ct cc cs cb cn cd cst sb sn sc]; simpl in *.
  unfold m_remove, m_add.
  destruct k; simpl.
  - rs. case_bool_decide as Hz; rs; fin.
  - rs. case_bool_decide as Hz; rs; fin.
  - rs. case_bool_decide as Hz; rs; fin.
  - (* balance *)
    destruct sb as [x|]; rs; case_bool_decide as Hz; rs.
    + assert (cb ≠ 0%Z) by (intros ->; destruct Hb as [_ Hb]; specialize (Hb eq_refl); done). lia.
    + fin.
    + fin.
    + assert (cb = 0%Z) by (apply Hb; done). lia.
  - destruct sn as [x|]; rs; case_bool_decide as Hz; rs.
    + assert (cn ≠ 0%Z) by (intros ->; destruct Hn as [_ Hn]; specialize (Hn eq_refl); done). lia.
    + fin.
    + fin.
    + assert (cn = 0%Z) by (apply Hn; done). lia.
  - destruct sc as [x|]; rs; case_bool_decide as Hz; rs.
    + assert (cd ≠ 0%Z) by (intros ->; destruct Hc as [_ Hc]; specialize (Hc eq_refl); done). lia.
    + fin.
    + fin.
    + assert (cd = 0%Z) by (apply Hc; done). lia.
  - rs. case_bool_decide as Hz; rs; fin.
Qed.

Lemma mok_add_stash k v m : mok m → mok (m_add k (stash_k k v m)).
Proof.
  intros ((H1 & H2 & H3 & H4 & H5 & H6 & H7) & Hb & Hn & Hc).
  destruct m as [ct cc cs cb cn cd cst sb sn sc]; simpl in *.
  destruct k; unfold m_add, mok; simpl; [| | |destruct sb|destruct sn|destruct sc|]; rs;
    repeat split; intros; try done; try lia; try tauto.
Qed.

Lemma counts_zero_add k m : mok m → counts_zero (m_add k m) = false.
Proof.
  intros ((H1 & H2 & H3 & H4 & H5 & H6 & H7) & _).
  apply counts_zero_false. destruct m; destruct k; unfold m_add; rs; lia.
Qed.
Lemma counts_zero_stash k v m : counts_zero (stash_k k v m) = counts_zero m.
Proof. destruct m as [? ? ? ? ? ? ? sb sn sc]; destruct k; simpl; try done; [destruct sb|destruct sn|destruct sc]; done. Qed.

Arguments m_add : simpl never.
Arguments stash_k : simpl never.
Arguments m_remove : simpl never.
Arguments set_state : simpl never.
Arguments committed : simpl never.
Arguments get_state : simpl never.

(* ------------------------------------------------------------------ *)
(* one step of journal.revert *)
Definition undo1 (j : jstate) : jstate :=
  match j_entries j with
  | [] => j
  | e :: rest => (unmutate e (revert_entry e j)) <| j_entries := rest |>
  end.

Lemma revert_n_S n j : revert_n (S n) j = match j_entries j with [] => j | _ => revert_n n (undo1 j) end.
Proof. unfold undo1. simpl. destruct (j_entries j); done. Qed.

Lemma revert_n_nil n j : j_entries j = [] → revert_n n j = j.
Proof. intros H. destruct n; simpl; [done|]. by rewrite H. Qed.

Lemma revert_n_add n m j : revert_n (n + m) j = revert_n m (revert_n n j).
Proof.
  revert j. induction n as [|n IH]; intros j; [done|].
  change (S n + m)%nat with (S (n + m)). rewrite !revert_n_S.
  destruct (j_entries j) eqn:E; [by rewrite revert_n_nil|]. apply IH.
Qed.

Definition mloc (j : jstate) (a : addr) : Prop :=
  ∀ m, j_muts j !! a = Some m → mok m ∧ counts_zero m = false.

Lemma revert_entry_muts e j : j_muts (revert_entry e j) = j_muts j.
Proof.
  destruct e; simpl; unfold with_obj, al_delete_slot; rs; repeat case_match; rs; done.
Qed.
Lemma revert_entry_entries e j : j_entries (revert_entry e j) = j_entries j.
Proof.
  destruct e; simpl; unfold with_obj, al_delete_slot; rs; repeat case_match; rs; done.
Qed.

Lemma undo1_mut j j' e a k v :
  mutation e = Some (a, k) → mloc j a →
  j_entries j' = e :: j_entries j →
  j_muts j' = <[a := m_add k (stash_k k v (mstate_for a j))]> (j_muts j) →
  revert_entry e j' <| j_entries := j_entries j |> <| j_muts := j_muts j |> = j →
  undo1 j' = j.
Proof.
  intros Hm Hl He HM Hr. unfold undo1. rewrite He. unfold unmutate. rewrite Hm.
  assert (HX : j_muts (revert_entry e j') = <[a := m_add k (stash_k k v (mstate_for a j))]> (j_muts j))
    by (by rewrite revert_entry_muts).
  rewrite HX lookup_insert m_remove_add.
  1:{ unfold mstate_for. destruct (j_muts j !! a) as [m|] eqn:E; simpl; [by apply Hl|apply mok0]. }
  unfold mstate_for in *. destruct (j_muts j !! a) as [m|] eqn:E; simpl in *.
  - destruct (Hl m E) as [_ ->]. etrans; [|exact Hr].
    destruct (revert_entry e j'); rs. f_equal. subst. by rewrite insert_insert insert_id.
  - replace (counts_zero mstate0) with true by done. etrans; [|exact Hr].
    destruct (revert_entry e j'); rs. f_equal. subst. by rewrite delete_insert.
Qed.

Lemma undo1_nomut j j' e :
  mutation e = None → j_entries j' = e :: j_entries j →
  revert_entry e j' <| j_entries := j_entries j |> = j →
  undo1 j' = j.
Proof. intros Hm He Hr. unfold undo1. rewrite He. unfold unmutate. by rewrite Hm. Qed.

(* ------------------------------------------------------------------ *)
(* exact restore, one journalled primitive at a time *)
Ltac unf := unfold create_object, obj_set_balance, obj_set_nonce, obj_set_code, obj_set_state,
  obj_self_destruct, put_obj, balance_change, nonce_change, code_change, stash_bal, stash_nonce,
  stash_code, stash, j_append, with_obj, mstate_for in *.

(* "P appends exactly entry e and one undo step gives j back" *)
Definition restores (j j' : jstate) (e : jentry) : Prop :=
  j_entries j' = e :: j_entries j ∧ undo1 j' = j.

Lemma undo_create_object j a :
  mloc j a → j_objs j !! a = None → restores j (create_object a j) (JCreateObject a).
Proof.
  intros Hl Ho. split; [unf; by rs|].
  apply (undo1_mut _ _ (JCreateObject a) a KCreate 0); [done|done|unf; by rs|unf; by rs|].
  unf. destruct j; rs. f_equal. by rewrite delete_insert.
Qed.

Lemma undo_set_balance j a o v :
  mloc j a → j_objs j !! a = Some o →
  restores j (obj_set_balance a o v j) (JBalance a (a_bal (o_data o))).
Proof.
  intros Hl Ho. split; [unf; by rs|].
  apply (undo1_mut _ _ (JBalance a (a_bal (o_data o))) a KBalance (a_bal (o_data o))); [done|done|unf; by rs|..].
  - unf. rs. by rewrite lookup_insert insert_insert.
  - unf. destruct j; rs. unfold with_obj; rs. rewrite lookup_insert. rs. f_equal.
    rewrite insert_insert. apply insert_id. rewrite Ho. f_equal. by destruct o as [? [] ? ? ? ?].
Qed.

Lemma undo_set_nonce j a o v :
  mloc j a → j_objs j !! a = Some o →
  restores j (obj_set_nonce a o v j) (JNonce a (a_nonce (o_data o))).
Proof.
  intros Hl Ho. split; [unf; by rs|].
  apply (undo1_mut _ _ (JNonce a (a_nonce (o_data o))) a KNonce (a_nonce (o_data o))); [done|done|unf; by rs|..].
  - unf. rs. by rewrite lookup_insert insert_insert.
  - unf. destruct j; rs. unfold with_obj; rs. rewrite lookup_insert. rs. f_equal.
    rewrite insert_insert. apply insert_id. rewrite Ho. f_equal. by destruct o as [? [] ? ? ? ?].
Qed.

Lemma undo_set_code j a o v :
  mloc j a → j_objs j !! a = Some o →
  restores j (obj_set_code a o v j) (JCode a (a_code (o_data o))).
Proof.
  intros Hl Ho. split; [unf; by rs|].
  apply (undo1_mut _ _ (JCode a (a_code (o_data o))) a KCode (a_code (o_data o))); [done|done|unf; by rs|..].
  - unf. rs. by rewrite lookup_insert insert_insert.
  - unf. destruct j; rs. unfold with_obj; rs. rewrite lookup_insert. rs. f_equal.
    rewrite insert_insert. apply insert_id. rewrite Ho. f_equal. by destruct o as [? [] ? ? ? ?].
Qed.

Lemma set_state_undo k v orig prev o :
  (match o_dirty o !! k with Some d => d = prev ∧ d ≠ orig | None => prev = orig end) →
  set_state k prev orig (set_state k v orig o) = o.
Proof.
  intros H. unfold set_state. destruct o as [oo od dirty pend sd nw]; simpl in *.
  destruct (v =? orig) eqn:E1; rs; destruct (prev =? orig) eqn:E2; rs; f_equal;
    apply N.eqb_eq in E2 || apply N.eqb_neq in E2;
    destruct (dirty !! k) as [d|] eqn:Ed; try (destruct H as [-> H]); try done.
  - by rewrite delete_idemp delete_notin.
  - by rewrite insert_delete_insert insert_id.
  - by rewrite delete_insert.
  - by rewrite insert_insert insert_id.
Qed.

Lemma undo_set_state j a o k v :
  mloc j a → j_objs j !! a = Some o →
  (∀ d, o_dirty o !! k = Some d → d ≠ committed j a o k) →
  restores j (obj_set_state a o k v j) (JStorage a k (get_state j a o k) (committed j a o k)).
Proof.
  intros Hl Ho Hd. split; [unf; by rs|].
  apply (undo1_mut _ _ (JStorage a k (get_state j a o k) (committed j a o k)) a KStorage 0);
    [done|done|unf; by rs|unf; by rs|].
  unf. destruct j; rs. unfold with_obj; rs. rewrite lookup_insert. rs. f_equal.
  rewrite insert_insert. apply insert_id. rewrite Ho. f_equal.
  apply set_state_undo. unfold get_state. destruct (o_dirty o !! k) eqn:E; [|done].
  split; [done|]. by apply Hd.
Qed.

Lemma undo_self_destruct j a o :
  mloc j a → j_objs j !! a = Some o → o_sd o = false →
  restores j (obj_self_destruct a o j) (JSelfDestruct a).
Proof.
  intros Hl Ho Hs. split; [unf; by rs|].
  apply (undo1_mut _ _ (JSelfDestruct a) a KSelfDestruct 0); [done|done|unf; by rs|unf; by rs|].
  unf. destruct j; rs. unfold with_obj; rs. rewrite lookup_insert. rs. f_equal.
  rewrite insert_insert. apply insert_id. rewrite Ho. f_equal. destruct o; simpl in *. by subst.
Qed.

Lemma undo_create_contract j a o :
  j_objs j !! a = Some o → o_new o = false →
  restores j (j_append (JCreateContract a) (put_obj a (o <| o_new := true |>) j)) (JCreateContract a).
Proof.
  intros Ho Hs. split; [unf; by rs|].
  apply undo1_nomut; [done|unf; by rs|].
  unf. destruct j; rs. unfold with_obj; rs. rewrite lookup_insert. rs. f_equal.
  rewrite insert_insert. apply insert_id. rewrite Ho. f_equal. destruct o; simpl in *. by subst.
Qed.

Lemma undo_touch j a :
  mloc j a → a ≠ ripemd → restores j (touch_change a j) (JTouch a).
Proof.
  intros Hl Hr. unfold touch_change. rewrite bool_decide_false //.
  split; [unf; by rs|].
  apply (undo1_mut _ _ (JTouch a) a KTouch 0); [done|done|unf; by rs|unf; by rs|].
  unf. by destruct j; rs.
Qed.

Lemma undo_refund j v :
  restores j ((j_append (JRefund (j_refund j)) j) <| j_refund := v |>) (JRefund (j_refund j)).
Proof.
  split; [unf; by rs|]. apply undo1_nomut; [done|unf; by rs|]. unf. by destruct j; rs.
Qed.
Lemma undo_refund' j :
  restores j (j_append (JRefund (j_refund j)) j) (JRefund (j_refund j)).
Proof.
  split; [unf; by rs|]. apply undo1_nomut; [done|unf; by rs|]. unf. by destruct j; rs.
Qed.

Lemma undo_al_addr j a :
  j_ala j !! a = None →
  restores j (j_append (JALAddr a) (j <| j_ala ::= <[a := (-1)%Z]> |>)) (JALAddr a).
Proof.
  intros H. split; [unf; by rs|]. apply undo1_nomut; [done|unf; by rs|].
  unf. destruct j; rs. f_equal. by rewrite delete_insert.
Qed.

Lemma undo_transient j a k v :
  (∀ x, j_tstor j !! (a, k) = Some x → x ≠ 0) →
  let prev := default 0 (j_tstor j !! (a, k)) in
  restores j ((j_append (JTransient a k prev) j)
                <| j_tstor ::= (if v =? 0 then delete (a, k) else <[(a, k) := v]>) |>)
           (JTransient a k prev).
Proof.
  intros H prev. split; [unf; by rs|]. apply undo1_nomut; [done|unf; by rs|].
  unf. subst prev. destruct j; rs. f_equal.
  destruct (j_tstor !! (a, k)) as [x|] eqn:E; simpl.
  - specialize (H x eq_refl). destruct (x =? 0) eqn:Ex; [apply N.eqb_eq in Ex; done|].
    destruct (v =? 0); [by rewrite insert_delete_insert insert_id|by rewrite insert_insert insert_id].
  - destruct (v =? 0); [by rewrite delete_idemp delete_notin|by rewrite delete_insert].
Qed.

Lemma undo_log j l :
  (j_logs j !! j_th j ≠ Some []) →
  restores j ((j_append (JAddLog (j_th j)) j)
                <| j_logs ::= <[j_th j := default [] (j_logs j !! j_th j) ++ [l]]> |>
                <| j_logsize ::= N.succ |>) (JAddLog (j_th j)).
Proof.
  intros H. split; [unf; by rs|]. apply undo1_nomut; [done|unf; by rs|].
  unf. destruct j; rs. rewrite lookup_insert. simpl.
  destruct (j_logs !! j_th) as [[|x xs]|] eqn:E; simpl; [done| |].
  - destruct (xs ++ [l]) eqn:E2; [by destruct xs|]. rewrite -E2. rs. rewrite N.pred_succ. f_equal.
    change (x :: xs ++ [l]) with ((x :: xs) ++ [l]). rewrite removelast_last.
    by rewrite insert_insert insert_id.
  - rs. rewrite N.pred_succ. f_equal. by rewrite delete_insert.
Qed.
