(* State/JournalProofs.v — lemmas about State/Journal.v (implementation model) and
   its refinement of State/Ref.v (reference model).
   Part 1: well-formedness [wf] and the exact-restore lemma [restore]
           (journal.revert is a left inverse of what one API call appended). *)
From stdpp Require Import gmap.
From Coq Require Import NArith ZArith Lia.
From RecordUpdate Require Import RecordSet.
Import RecordSetNotations.
From GV Require Import State.Ref State.Journal.
Local Open Scope N_scope.

Global Opaque W256 W64.

(* ------------------------------------------------------------------ *)
(* mutation-state lemmas *)

Definition mok (m : mstate) : Prop :=
  (0 ≤ c_touch m ∧ 0 ≤ c_create m ∧ 0 ≤ c_sd m ∧ 0 ≤ c_bal m ∧ 0 ≤ c_nonce m ∧ 0 ≤ c_code m ∧ 0 ≤ c_stor m)%Z
  ∧ (s_bal m = None ↔ c_bal m = 0%Z) ∧ (s_nonce m = None ↔ c_nonce m = 0%Z)
  ∧ (s_code m = None ↔ c_code m = 0%Z).

Lemma mok0 : mok mstate0.
Proof. repeat split; simpl; auto; lia. Qed.

(* what the stash* functions do to the per-account state, by kind *)
Definition stash_k (k : kind) (v : N) (m : mstate) : mstate :=
  match k with
  | KBalance => match s_bal m with Some _ => m | None => m <| s_bal := Some v |> end
  | KNonce => match s_nonce m with Some _ => m | None => m <| s_nonce := Some v |> end
  | KCode => match s_code m with Some _ => m | None => m <| s_code := Some v |> end
  | _ => m
  end.

Lemma counts_zero_false m : counts_zero m = false ↔
  ¬ (c_touch m = 0 ∧ c_create m = 0 ∧ c_sd m = 0 ∧ c_bal m = 0 ∧ c_nonce m = 0 ∧ c_code m = 0 ∧ c_stor m = 0)%Z.
Proof. unfold counts_zero. rewrite bool_decide_eq_false. done. Qed.
Lemma counts_zero_true m : counts_zero m = true ↔
  (c_touch m = 0 ∧ c_create m = 0 ∧ c_sd m = 0 ∧ c_bal m = 0 ∧ c_nonce m = 0 ∧ c_code m = 0 ∧ c_stor m = 0)%Z.
Proof. unfold counts_zero. rewrite bool_decide_eq_true. done. Qed.

Lemma m_remove_add k v m : mok m → m_remove k (m_add k (stash_k k v m)) = (m, counts_zero m).
Proof.
  intros ((H1 & H2 & H3 & H4 & H5 & H6 & H7) & Hb & Hn & Hc).
  destruct m as [ct cc cs cb cn cd cst sb sn sc]; simpl in *.
  unfold m_remove, m_add.
  destruct k; simpl.
  all: try (case_bool_decide as Hz; simpl in Hz;
            [ try (f_equal; [f_equal; lia | unfold counts_zero; simpl; apply bool_decide_ext; lia])
            | try (f_equal; [f_equal; lia | unfold counts_zero; simpl; apply bool_decide_ext; lia]) ]).
  - (* balance *)
    destruct sb as [x|]; simpl; case_bool_decide as Hz; simpl in *.
    + assert (cb ≠ 0%Z) by (intros ->; destruct Hb as [_ Hb]; specialize (Hb eq_refl); done). lia.
    + f_equal; [f_equal; lia | unfold counts_zero; simpl; apply bool_decide_ext; lia].
    + f_equal; [f_equal; lia | unfold counts_zero; simpl; apply bool_decide_ext; lia].
    + assert (cb = 0%Z) by (apply Hb; done). lia.
  - destruct sn as [x|]; simpl; case_bool_decide as Hz; simpl in *.
    + assert (cn ≠ 0%Z) by (intros ->; destruct Hn as [_ Hn]; specialize (Hn eq_refl); done). lia.
    + f_equal; [f_equal; lia | unfold counts_zero; simpl; apply bool_decide_ext; lia].
    + f_equal; [f_equal; lia | unfold counts_zero; simpl; apply bool_decide_ext; lia].
    + assert (cn = 0%Z) by (apply Hn; done). lia.
  - destruct sc as [x|]; simpl; case_bool_decide as Hz; simpl in *.
    + assert (cd ≠ 0%Z) by (intros ->; destruct Hc as [_ Hc]; specialize (Hc eq_refl); done). lia.
    + f_equal; [f_equal; lia | unfold counts_zero; simpl; apply bool_decide_ext; lia].
    + f_equal; [f_equal; lia | unfold counts_zero; simpl; apply bool_decide_ext; lia].
    + assert (cd = 0%Z) by (apply Hc; done). lia.
Qed.

Lemma mok_add_stash k v m : mok m → mok (m_add k (stash_k k v m)).
Proof.
  intros ((H1 & H2 & H3 & H4 & H5 & H6 & H7) & Hb & Hn & Hc).
  destruct m as [ct cc cs cb cn cd cst sb sn sc]; simpl in *.
  destruct k; unfold m_add, mok; simpl; try (repeat split; try tauto; try lia; fail).
  - destruct sb; simpl; repeat split; try tauto; try lia; try done.
    + intros ->. destruct Hb as [_ Hb]. lia.
    + intros ?. assert (cb = 0%Z) by tauto. lia.
  - destruct sn; simpl; repeat split; try tauto; try lia; try done.
    + intros ->. destruct Hn as [_ Hn]. lia.
    + intros ?. assert (cn = 0%Z) by tauto. lia.
  - destruct sc; simpl; repeat split; try tauto; try lia; try done.
    + intros ->. destruct Hc as [_ Hc]. lia.
    + intros ?. assert (cd = 0%Z) by tauto. lia.
Qed.

Lemma counts_zero_add k m : mok m → counts_zero (m_add k m) = false.
Proof.
  intros ((H1 & H2 & H3 & H4 & H5 & H6 & H7) & _).
  apply counts_zero_false. destruct m; destruct k; unfold m_add; simpl in *; lia.
Qed.
Lemma counts_zero_stash k v m : counts_zero (stash_k k v m) = counts_zero m.
Proof. destruct m as [? ? ? ? ? ? ? sb sn sc]; destruct k; simpl; try done; [destruct sb|destruct sn|destruct sc]; done. Qed.
