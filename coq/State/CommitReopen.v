(* State/CommitReopen.v — C14 proofs, part 3: from the representation invariant [hashed]
   of a state whose tries are up to date (the state IntermediateRoot leaves behind) to
   what Commit stores and what a reader at the new root reads.

   [hashed p cs T]: the account trie T of cs is canonical and holds, for every address,
   exactly the RLP of the live object (nothing for a dead one, no other keys); every live
   object has a canonical storage trie (in memory, or in the trie database under data.Root)
   whose hash is data.Root and which holds, for every slot, exactly the RLP of the
   committed value (nothing for zero, no other keys); a storage trie that Commit will not
   store is already served by the trie database.

   Collision freedom is a hypothesis on the finite set of tries in play ([play]), never
   on all inputs. *)
From stdpp Require Import gmap.
From Coq Require Import NArith ZArith ssreflect.
From GV Require Import Lib.Tactics Lib.Bytes Rlp.Item Rlp.Codec Trie.Hex Trie.Node Trie.Ops Trie.Hash Trie.OpsProofs Trie.Canon.
From GV Require Import State.Ref State.Journal State.JournalProofs State.Commit State.CommitProofs.
Local Open Scope N_scope.

Definition hexk (k : list N) : list N := keybytes_to_hex k.

Section Reopen.
  Variable H : list N → list N.
  Hypothesis H_bytes : ∀ x, forallb byteb (H x) = true.
  (* the addresses and slots in play (the finite universe on which the keys H(address),
     H(slot) are assumed collision free by the users of this section) *)
  Variables (addr_ok : addr → Prop) (slot_ok : slot → Prop).
  (* the tries in play and collision freedom of the root hash among them *)
  Variable play : node → Prop.
  Hypothesis play_empty : play NEmpty.
  Hypothesis CF : ∀ t1 t2, play t1 → play t2 → hash_root H t1 = hash_root H t2 → t1 = t2.

  Definition obj_entry (cs : cstate) (a : addr) : option (list N) :=
    match j_objs (c_j cs) !! a with
    | Some o => Some (acct_rlp H (o_data o) (x_root (ext_of H cs a)))
    | None => None
    end.

  (* the trie database holds tries in play under their hashes *)
  Definition pdb_ok (p : pdb) : Prop :=
    ∀ h t, p_tries p !! h = Some t → play t ∧ hash_root H t = Some h.
  Definition extends (p p' : pdb) : Prop :=
    ∀ h t, p_tries p !! h = Some t → p_tries p' !! h = Some t.

  Definition will_store (cs : cstate) (a : addr) (o : sobj) : Prop :=
    ∃ m, c_muts cs !! a = Some m ∧ m_del m = false ∧ storage_changed (c_j cs) a o = true.

  Record hashed (p : pdb) (cs : cstate) (T : node) : Prop := {
    h_trie : c_trie cs = Some T;
    h_canon : canon T;
    h_play : play T;
    h_acct : ∀ a, addr_ok a → lk T (hexk (addr_key H a)) = obj_entry cs a;
    h_acct_only : ∀ hk v, lk T hk = Some v → ∃ a, addr_ok a ∧ hk = hexk (addr_key H a);
    h_live_ok : ∀ a o, j_objs (c_j cs) !! a = Some o → addr_ok a;
    h_stor : ∀ a o, j_objs (c_j cs) !! a = Some o →
      ∃ S, canon S ∧ play S ∧ hash_root H S = Some (x_root (ext_of H cs a)) ∧
           (∀ k, slot_ok k → lk S (hexk (slot_key H k)) = vopt (slot_val (committed (c_j cs) a o k))) ∧
           (∀ hk v, lk S hk = Some v → ∃ k, slot_ok k ∧ hk = hexk (slot_key H k)) ∧
           match x_trie (ext_of H cs a) with
           | Some S' => S' = S ∧ (will_store cs a o ∨ open_trie H p (x_root (ext_of H cs a)) = Some S)
           | None => open_trie H p (x_root (ext_of H cs a)) = Some S
           end
  }.

  (* ---- reading a canonical trie ---- *)
  Lemma t_get_lk t key : canon t → forallb byteb key = true → t_get t key = COk (lk t (hexk key)).
  Proof.
    intros Hc Hb. unfold t_get, trie_get. cbv zeta.
    rewrite get_lk; [apply ops_fuel_ok| |done].
    right. split; [by apply keybytes_to_hex_valid|by apply canon_wfn].
  Qed.

  (* ---- the trie database under inserts ---- *)
  Lemma insert_ok p h t :
    pdb_ok p → play t → hash_root H t = Some h →
    let p' := {| p_tries := <[h := t]> (p_tries p); p_codes := p_codes p |} in
    pdb_ok p' ∧ extends p p' ∧ p_tries p' !! h = Some t.
  Proof.
    intros Hp Ht Hh p'. split; [|split].
    - intros h' t'. simpl. destruct (decide (h = h')) as [<-|Hne].
      + rewrite lookup_insert. by intros [= <-].
      + rewrite lookup_insert_ne //. apply Hp.
    - intros h' t' E. simpl. destruct (decide (h = h')) as [<-|Hne].
      + rewrite lookup_insert. f_equal. destruct (Hp _ _ E) as [P1 P2].
        apply CF; [done|done|]. by rewrite Hh P2.
      + by rewrite lookup_insert_ne.
    - simpl. by rewrite lookup_insert.
  Qed.

  Lemma extends_refl p : extends p p.
  Proof. by intros ??. Qed.
  Lemma extends_trans p1 p2 p3 : extends p1 p2 → extends p2 p3 → extends p1 p3.
  Proof. intros A B h t E. by apply B, A. Qed.
  Lemma extends_codes p c : extends p {| p_tries := p_tries p; p_codes := c |}.
  Proof. by intros ??. Qed.
  Lemma pdb_ok_codes p c : pdb_ok p → pdb_ok {| p_tries := p_tries p; p_codes := c |}.
  Proof. intros Hp h t E. exact (Hp h t E). Qed.

  (* opening a trie that is in play and present (or empty) *)
  Lemma open_trie_found p S r :
    pdb_ok p → play S → hash_root H S = Some r →
    (r = empty_root H ∨ p_tries p !! r = Some S) → open_trie H p r = Some S.
  Proof.
    intros Hp Hs Hh Hpres. unfold open_trie. case_bool_decide as E.
    - f_equal. apply CF; [done|done|]. rewrite Hh E. done.
    - by destruct Hpres.
  Qed.
  Lemma open_trie_extends p p' S r :
    pdb_ok p → pdb_ok p' → extends p p' → open_trie H p r = Some S → open_trie H p' r = Some S.
  Proof.
    intros Hp Hp' He. unfold open_trie. case_bool_decide; [done|]. apply He.
  Qed.

  (* ---- stateObject.commit for all updated objects ---- *)
  Lemma commit_objects_spec cs T p0 (Hh : hashed p0 cs T) l : ∀ p p1,
    pdb_ok p → commit_objects H cs l p = COk p1 →
    pdb_ok p1 ∧ extends p p1 ∧
    ∀ a m o S, (a, m) ∈ l → m_del m = false → j_objs (c_j cs) !! a = Some o →
      storage_changed (c_j cs) a o = true → x_trie (ext_of H cs a) = Some S →
      p_tries p1 !! x_root (ext_of H cs a) = Some S.
  Proof.
    induction l as [|[a m] l IH]; intros p p1 Hp E; simpl in E.
    - injection E as <-. split; [done|]. split; [apply extends_refl|]. intros ???? Hin. by apply elem_of_nil in Hin.
    - destruct (m_del m) eqn:Hd.
      + destruct (IH _ _ Hp E) as (A & B & C). split; [done|]. split; [done|].
        intros a' m' o S Hin Hd'. apply elem_of_cons in Hin as [[= -> ->]|Hin]; [congruence|]. by apply (C a' m' o S).
      + destruct (j_objs (c_j cs) !! a) as [o|] eqn:Ho; [|done].
        set (codes := if x_dcode (ext_of H cs a) then _ else _) in E.
        destruct (storage_changed (c_j cs) a o) eqn:Hch.
        * destruct (x_trie (ext_of H cs a)) as [t|] eqn:Ht; [|done].
          destruct (h_stor _ _ _ Hh a o Ho) as (S & Hc & Hpl & Hr & _ & _ & Hx). rewrite Ht in Hx.
          destruct Hx as [-> _].
          destruct (insert_ok p (x_root (ext_of H cs a)) S Hp Hpl Hr) as (A1 & B1 & C1).
          set (pa := {| p_tries := <[x_root (ext_of H cs a) := S]> (p_tries p); p_codes := codes |}) in E.
          assert (Hpa : pdb_ok pa) by (intros ??; apply A1).
          destruct (IH _ _ Hpa E) as (A & B & C). split; [done|]. split.
          { intros h t Eh. apply B. simpl. by apply B1. }
          intros a' m' o' S' Hin Hd' Ho' Hch' Ht'. apply elem_of_cons in Hin as [[= -> ->]|Hin]; [|by apply (C a' m' o' S')].
          rewrite Ho in Ho'. injection Ho' as <-. rewrite Ht in Ht'. injection Ht' as <-.
          apply B. simpl. by rewrite lookup_insert.
        * set (pa := {| p_tries := p_tries p; p_codes := codes |}) in E.
          assert (Hpa : pdb_ok pa) by (intros ??; apply Hp).
          destruct (IH _ _ Hpa E) as (A & B & C). split; [done|]. split.
          { intros h t Eh. apply B. done. }
          intros a' m' o' S' Hin Hd' Ho' Hch' Ht'. apply elem_of_cons in Hin as [[= -> ->]|Hin]; [|by apply (C a' m' o' S')].
          rewrite Ho in Ho'. injection Ho' as <-. congruence.
  Qed.

  (* ---- Finalise on a state with an empty journal changes nothing that matters ---- *)
  Lemma fin_objs' r j a : j_muts j = ∅ → j_objs (finalise r j) !! a = j_objs j !! a.
  Proof.
    intros Hm. unfold finalise, clear_internal. destruct j; rj; simpl in *. subst.
    rewrite map_lookup_imap dom_empty_L. destruct (j_objs !! a); simpl; [|done].
    rewrite bool_decide_false //.
  Qed.
  Lemma fin_db' r j : j_db (finalise r j) = j_db j.
  Proof. unfold finalise, clear_internal. destruct j; rj; done. Qed.
  Lemma fin_destruct' r j : j_muts j = ∅ → j_destruct (finalise r j) = j_destruct j.
  Proof.
    intros Hm. unfold finalise, clear_internal. destruct j; rj; simpl in *. subst.
    rewrite dom_empty_L. apply set_eq. intros a. rewrite elem_of_union elem_of_dom. split; [|by left].
    intros [?|[o Ho]]; [done|]. apply map_filter_lookup_Some in Ho as [_ Hp]. simpl in Hp.
    rewrite bool_decide_false in Hp; [set_solver|done].
  Qed.

  (* a state that differs from cs only by a Finalise on an empty journal and the applied flags *)
  Definition same_for_commit (cs cs2 : cstate) : Prop :=
    (∀ a, j_objs (c_j cs2) !! a = j_objs (c_j cs) !! a) ∧ j_db (c_j cs2) = j_db (c_j cs)
    ∧ j_destruct (c_j cs2) = j_destruct (c_j cs) ∧ c_x cs2 = c_x cs ∧ c_roots0 cs2 = c_roots0 cs
    ∧ c_trie cs2 = c_trie cs ∧ c_root cs2 = c_root cs
    ∧ (∀ a, m_del <$> c_muts cs2 !! a = m_del <$> c_muts cs !! a).

  Lemma ir_same r r' p cs root cs1 :
    intermediate_root H r p cs = COk (root, cs1) →
    ∃ cs2, intermediate_root H r' p cs1 = COk (root, cs2) ∧ same_for_commit cs1 cs2.
  Proof.
    intros E. destruct (ir_post _ _ _ _ _ _ E) as (Hm & Ha & t & Ht & Hh).
    destruct (step_fin_clean H r' cs1 Hm) as (F1 & F2 & F3 & F4 & F5 & F6).
    unfold intermediate_root. set (cs0 := (step_c H cs1 (OFinalise r')).1) in *. clearbody cs0.
    rewrite F2 Ht F1.
    assert (Hall : Forall (λ am : addr * mut, m_applied am.2 = true) (map_to_list (c_muts cs1))).
    { apply List.Forall_forall. intros [a m] Hin. apply elem_of_list_In, elem_of_map_to_list in Hin. simpl. exact (Ha a m Hin). }
    rewrite ir_storage_applied // acct_updates_applied // acct_deletes_applied //=.
    rewrite Hh. eexists. split; [done|]. unfold same_for_commit. cbn [c_j c_x c_roots0 c_trie c_root c_muts].
    rewrite F6 F3 F5 F4 F1. split; [intros a; by apply fin_objs'|]. split; [apply fin_db'|].
    split; [by apply fin_destruct'|]. split; [done|]. split; [done|]. split; [by rewrite Ht|]. split; [done|].
    intros a. rewrite lookup_fmap. by destruct (c_muts cs1 !! a).
  Qed.

  Lemma ext_of_same cs cs2 a : c_x cs2 = c_x cs → c_roots0 cs2 = c_roots0 cs → ext_of H cs2 a = ext_of H cs a.
  Proof. intros E1 E2. unfold ext_of, origin_ext. by rewrite E1 E2. Qed.

  Lemma storage_changed_same cs cs2 a o :
    j_db (c_j cs2) = j_db (c_j cs) → j_destruct (c_j cs2) = j_destruct (c_j cs) →
    storage_changed (c_j cs2) a o = storage_changed (c_j cs) a o.
  Proof.
    intros E1 E2. unfold storage_changed. apply bool_decide_ext.
    unfold origin_val, db_stor. by rewrite E1 E2.
  Qed.

  Lemma committed_same cs cs2 a o k :
    j_db (c_j cs2) = j_db (c_j cs) → j_destruct (c_j cs2) = j_destruct (c_j cs) →
    committed (c_j cs2) a o k = committed (c_j cs) a o k.
  Proof. intros E1 E2. unfold committed, db_stor. by rewrite E1 E2. Qed.

  Lemma hashed_same p cs cs2 T : same_for_commit cs cs2 → hashed p cs T → hashed p cs2 T.
  Proof.
    intros (S1 & S2 & S3 & S4 & S5 & S6 & S7 & S8) [A1 A2 A3 A4 A5 A6 A7].
    assert (Hx : ∀ a, ext_of H cs2 a = ext_of H cs a) by (intros; by apply ext_of_same).
    split; try done.
    - by rewrite S6.
    - intros a Ha. rewrite (A4 a Ha). unfold obj_entry. by rewrite S1 Hx.
    - intros a o. rewrite S1. apply A6.
    - intros a o. rewrite S1 Hx. intros Ho. destruct (A7 a o Ho) as (S & B1 & B2 & B3 & B4 & B5 & B6).
      exists S. split; [done|]. split; [done|]. split; [done|]. split.
      { intros k Hk. rewrite (committed_same cs cs2) //. by apply B4. }
      split; [done|]. destruct (x_trie (ext_of H cs a)); [|done].
      destruct B6 as [-> [W|O]]; (split; [done|]); [left|by right].
      destruct W as (m & W1 & W2 & W3). specialize (S8 a). rewrite W1 /= in S8.
      destruct (c_muts cs2 !! a) as [m2|] eqn:E2; [|done]. injection S8 as S8.
      exists m2. split; [done|]. split; [congruence|]. by rewrite (storage_changed_same cs cs2).
  Qed.

  (* ---------------------------------------------------------------- reopen_reads *)
  (* Commit after IntermediateRoot, with a changed root: the stores then serve the account
     trie under the new root and every live object's storage trie under its data.Root; the
     trie reader at the new root returns for EVERY address the account blob of the finalised
     object (nothing for a dead one) and for every slot of every live account the blob of
     its committed value (nothing for zero). *)
  Theorem reopen_reads r r' p cs root cs1 T root' p' :
    intermediate_root H r p cs = COk (root, cs1) →
    hashed p cs1 T → pdb_ok p → root ≠ c_root cs1 →
    commit H r' p cs1 = COk (root', p') →
    root' = root ∧ pdb_ok p' ∧ extends p p' ∧
    open_trie H p' root' = Some T ∧
    (∀ a, addr_ok a → t_get T (addr_key H a) = COk (obj_entry cs1 a)) ∧
    (∀ a o, j_objs (c_j cs1) !! a = Some o →
       ∃ S, open_trie H p' (x_root (ext_of H cs1 a)) = Some S ∧
            ∀ k, slot_ok k → t_get S (slot_key H k) = COk (vopt (slot_val (committed (c_j cs1) a o k)))).
  Proof.
    intros E Hh Hp Hne C.
    destruct (ir_same r r' p cs root cs1 E) as (cs2 & E2 & Hs).
    pose proof (hashed_same p cs1 cs2 T Hs Hh) as Hh2.
    destruct (ir_post _ _ _ _ _ _ E2) as (_ & _ & t & Ht & Hroot).
    unfold commit in C. rewrite E2 in C.
    destruct (handle_destruction _ _ _ _ _) as [hd|]; [|done].
    destruct (commit_objects H cs2 (map_to_list (c_muts cs2)) p) as [p1|] eqn:Eco; [|done].
    rewrite Ht in C. destruct Hs as (S1 & S2 & S3 & S4 & S5 & S6 & S7 & S8).
    rewrite S7 in C. rewrite bool_decide_false // in C. injection C as <- <-.
    rewrite (h_trie _ _ _ Hh2) in Ht. injection Ht as <-.
    destruct (commit_objects_spec cs2 T p Hh2 _ p p1 Hp Eco) as (A & B & Cs).
    unfold t_hash in Hroot. destruct (hash_root H T) as [hr|] eqn:Ehr; [|done]. injection Hroot as ->.
    destruct (insert_ok p1 root T A (h_play _ _ _ Hh) Ehr) as (A1 & B1 & C1).
    set (pf := {| p_tries := <[root := T]> (p_tries p1); p_codes := p_codes p1 |}) in *.
    split; [done|]. split; [exact A1|]. split; [exact (extends_trans _ _ _ B B1)|]. split.
    { apply open_trie_found; [done|exact (h_play _ _ _ Hh)|done|by right]. }
    split.
    { intros a Ha. rewrite t_get_lk; [exact (h_canon _ _ _ Hh)|apply H_bytes|]. by rewrite (h_acct _ _ _ Hh). }
    intros a o Ho. destruct (h_stor _ _ _ Hh a o Ho) as (S & Hc & Hpl & Hr & Hk & _ & Hx).
    exists S. split.
    - destruct (x_trie (ext_of H cs1 a)) as [S'|] eqn:Ex.
      + destruct Hx as [-> [W|O]].
        * destruct W as (m & W1 & W2 & W3). apply open_trie_found; [done|done|done|]. right. apply B1.
          assert (Hx2 : ext_of H cs2 a = ext_of H cs1 a) by (by apply ext_of_same).
          specialize (S8 a). rewrite W1 /= in S8. destruct (c_muts cs2 !! a) as [m2|] eqn:E2m; [|done].
          injection S8 as S8. rewrite -Hx2.
          apply (Cs a m2 o S); [by apply elem_of_map_to_list|congruence|by rewrite S1| |by rewrite Hx2].
          by rewrite (storage_changed_same cs1 cs2).
        * eapply open_trie_extends; [exact Hp|exact A1|exact (extends_trans _ _ _ B B1)|done].
      + eapply open_trie_extends; [exact Hp|exact A1|exact (extends_trans _ _ _ B B1)|done].
    - intros k Hk'. rewrite t_get_lk; [done|apply H_bytes|]. by rewrite Hk.
  Qed.

  (* destruct + re-create + commit + reopen: a slot the new incarnation did not write is
     ABSENT from the storage trie served at the new root, whatever the old incarnation
     (the committed pre-state j_db) held there *)
  Theorem destruct_recreate_clean r r' p cs root cs1 T root' p' a o k :
    intermediate_root H r p cs = COk (root, cs1) →
    hashed p cs1 T → pdb_ok p → root ≠ c_root cs1 →
    commit H r' p cs1 = COk (root', p') →
    a ∈ j_destruct (c_j cs1) → j_objs (c_j cs1) !! a = Some o → o_pending o !! k = None → slot_ok k →
    ∃ S, open_trie H p' (x_root (ext_of H cs1 a)) = Some S ∧ t_get S (slot_key H k) = COk None ∧
         read_slot H S k = COk 0.
  Proof.
    intros E Hh Hp Hne C Hd Ho Hpend Hk.
    destruct (reopen_reads r r' p cs root cs1 T root' p' E Hh Hp Hne C) as (_ & _ & _ & _ & _ & R).
    destruct (R a o Ho) as (S & R1 & R2). exists S. split; [done|].
    assert (Hg : t_get S (slot_key H k) = COk None).
    { rewrite (R2 k Hk). unfold committed. rewrite Hpend. rewrite bool_decide_true //. }
    split; [done|]. unfold read_slot. by rewrite Hg.
  Qed.

  (* ---------------------------------------------------------------- root_depends_only_on_state *)
  (* two up-to-date states (any histories, any trie databases) with the same observable
     accounts have the same account trie, hence the same root *)
  Theorem root_depends_only_on_state p1 cs1 T1 p2 cs2 T2 :
    hashed p1 cs1 T1 → hashed p2 cs2 T2 →
    (∀ a, match j_objs (c_j cs1) !! a, j_objs (c_j cs2) !! a with
          | Some o1, Some o2 => o_data o1 = o_data o2 ∧
                                ∀ k, slot_ok k → committed (c_j cs1) a o1 k = committed (c_j cs2) a o2 k
          | None, None => True
          | _, _ => False
          end) →
    T1 = T2 ∧ hash_root H T1 = hash_root H T2.
  Proof.
    intros H1 H2 Hobs.
    assert (Hroots : ∀ a o1 o2, j_objs (c_j cs1) !! a = Some o1 → j_objs (c_j cs2) !! a = Some o2 →
              x_root (ext_of H cs1 a) = x_root (ext_of H cs2 a)).
    { intros a o1 o2 Ho1 Ho2. specialize (Hobs a). rewrite Ho1 Ho2 in Hobs. destruct Hobs as [_ Hst].
      destruct (h_stor _ _ _ H1 a o1 Ho1) as (S1 & C1 & _ & R1 & K1 & O1 & _).
      destruct (h_stor _ _ _ H2 a o2 Ho2) as (S2 & C2 & _ & R2 & K2 & O2 & _).
      assert (S1 = S2) as ->.
      { apply canon_unique; [done|done|]. intros hk _.
        destruct (lk S1 hk) as [v|] eqn:L1.
        - destruct (O1 _ _ L1) as (k & Hk & ->). rewrite K1 // in L1. rewrite K2 // -Hst //.
        - destruct (lk S2 hk) as [v|] eqn:L2; [|done].
          destruct (O2 _ _ L2) as (k & Hk & ->). rewrite K1 // in L1. rewrite K2 // -Hst // in L2. congruence. }
      congruence. }
    assert (T1 = T2) as ->; [|done].
    apply canon_unique; [exact (h_canon _ _ _ H1)|exact (h_canon _ _ _ H2)|]. intros hk _.
    assert (He : ∀ a, addr_ok a → obj_entry cs1 a = obj_entry cs2 a).
    { intros a Ha. unfold obj_entry. specialize (Hobs a).
      destruct (j_objs (c_j cs1) !! a) as [o1|] eqn:Ho1, (j_objs (c_j cs2) !! a) as [o2|] eqn:Ho2; try done.
      destruct Hobs as [-> _]. by rewrite (Hroots a o1 o2). }
    destruct (lk T1 hk) as [v|] eqn:L1.
    - destruct (h_acct_only _ _ _ H1 _ _ L1) as (a & Ha & ->).
      rewrite (h_acct _ _ _ H1) // in L1. rewrite (h_acct _ _ _ H2) // -He //.
    - destruct (lk T2 hk) as [v|] eqn:L2; [|done].
      destruct (h_acct_only _ _ _ H2 _ _ L2) as (a & Ha & ->).
      rewrite (h_acct _ _ _ H1) // in L1. rewrite (h_acct _ _ _ H2) // -He // in L2. congruence.
  Qed.

  (* the invariant is satisfiable: the up-to-date empty state over the empty database *)
  Definition cs_empty : cstate :=
    {| c_j := init_j ∅; c_roots0 := ∅; c_x := ∅; c_dx := ∅; c_muts := ∅; c_trie := Some NEmpty;
       c_root := empty_root H |}.
  Lemma hashed_empty : hashed pdb0 cs_empty NEmpty ∧ pdb_ok pdb0.
  Proof.
    split; [|by intros ???].
    split; simpl; try done; try (by left);
      try (intros a o; by rewrite fmap_empty lookup_empty);
      try (intros hk v; by rewrite lk_empty);
      try (intros a _; rewrite lk_empty; unfold obj_entry; simpl; by rewrite fmap_empty lookup_empty).
  Qed.
End Reopen.
