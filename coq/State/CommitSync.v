(* State/CommitSync.v — C14 proofs, part 5: the between-transactions invariant [Sync] and
   its preservation by transactions.  See State/CommitHist.v for the overview. *)
From Coq Require Import ssreflect.
From stdpp Require Import gmap.
From Coq Require Import NArith ZArith Lia.
From RecordUpdate Require Import RecordSet.
Import RecordSetNotations.
From GV Require Import State.Ref State.Journal State.JournalProofs State.BalProofs State.Commit State.CommitProofs State.CommitReopen State.CommitHist.
From GV Require Import Lib.Bytes Rlp.Item Rlp.Codec Trie.Hex Trie.Node Trie.Ops Trie.Hash Trie.OpsProofs Trie.Canon.
Local Open Scope N_scope.

Definition xcore (x : oext) := (x_unc x, x_root x, x_trie x).

Section Sync.
  Variable H : list N → list N.
  Variables (addr_ok : addr → Prop) (slot_ok : slot → Prop).

  Notation ext_of := (ext_of H).
  Notation fresh_ext := (fresh_ext H).

  (* ---- the extension under the bookkeeping of step_c ---- *)
  Lemma ext_set_x a x cs b : ext_of (set_x a x cs) b = if bool_decide (b = a) then x else ext_of cs b.
  Proof.
    unfold Commit.ext_of, origin_ext. simpl. case_bool_decide as E.
    - subst. by rewrite lookup_insert.
    - by rewrite lookup_insert_ne.
  Qed.
  Lemma xcore_mark a cs b : xcore (ext_of (mark_dcode H a cs) b) = xcore (ext_of cs b).
  Proof. unfold mark_dcode. rewrite ext_set_x. case_bool_decide; by subst. Qed.
  Lemma xcore_marks l cs b : xcore (ext_of (foldr (mark_dcode H) cs l) b) = xcore (ext_of cs b).
  Proof. induction l as [|a l IH]; [done|]. simpl. by rewrite xcore_mark. Qed.
  Lemma mark_fields a cs :
    c_j (mark_dcode H a cs) = c_j cs ∧ c_roots0 (mark_dcode H a cs) = c_roots0 cs ∧ c_dx (mark_dcode H a cs) = c_dx cs
    ∧ c_muts (mark_dcode H a cs) = c_muts cs ∧ c_trie (mark_dcode H a cs) = c_trie cs ∧ c_root (mark_dcode H a cs) = c_root cs.
  Proof. done. Qed.
  Lemma marks_fields l cs :
    c_j (foldr (mark_dcode H) cs l) = c_j cs ∧ c_roots0 (foldr (mark_dcode H) cs l) = c_roots0 cs
    ∧ c_dx (foldr (mark_dcode H) cs l) = c_dx cs ∧ c_muts (foldr (mark_dcode H) cs l) = c_muts cs
    ∧ c_trie (foldr (mark_dcode H) cs l) = c_trie cs ∧ c_root (foldr (mark_dcode H) cs l) = c_root cs.
  Proof. induction l as [|a l IH]; [done|]. simpl. destruct IH as (?&?&?&?&?&?). done. Qed.

  (* SetTxContext + Prepare touch the tx context, the access list and the transient storage only *)
  Lemma al_add_address_core a j : core_eq (al_add_address a j).1 j.
  Proof. unfold al_add_address. destruct (j_ala j !! a); [done|]. by destruct j. Qed.
  Lemma al_add_slot_core a k j : core_eq (al_add_slot a k j).1.1 j.
  Proof. unfold al_add_slot. repeat case_match; by destruct j. Qed.
  Lemma al_slots_core a ks : ∀ j, core_eq (foldl (λ j k, (al_add_slot a k j).1.1) j ks) j.
  Proof.
    induction ks as [|k r IH]; intros j; [done|]. simpl.
    eapply core_eq_trans; [apply IH|apply al_add_slot_core].
  Qed.
  Lemma prepare_al_core r sender coinbase dst l j : core_eq (prepare_al r sender coinbase dst l j) j.
  Proof.
    unfold prepare_al.
    set (j0 := j <| j_ala := ∅ |> <| j_als := [] |>).
    assert (E0 : core_eq j0 j) by (by destruct j).
    set (j1 := (al_add_address sender j0).1).
    assert (E1 : core_eq j1 j) by (eapply core_eq_trans; [apply al_add_address_core|done]).
    set (j2 := match dst with Some d => (al_add_address d j1).1 | None => j1 end).
    assert (E2 : core_eq j2 j).
    { unfold j2. destruct dst; [|done]. eapply core_eq_trans; [apply al_add_address_core|done]. }
    assert (E3 : ∀ l jj, core_eq jj j →
              core_eq (foldl (λ j e, foldl (λ j k, (al_add_slot e.1 k j).1.1) (al_add_address e.1 j).1 e.2) jj l) j).
    { clear. induction l as [|e r' IH]; intros jj Hjj; [done|]. simpl. apply IH.
      eapply core_eq_trans; [apply al_slots_core|]. eapply core_eq_trans; [apply al_add_address_core|done]. }
    destruct (rShanghai r); [|by apply E3].
    eapply core_eq_trans; [apply al_add_address_core|by apply E3].
  Qed.
  Lemma txstart_core j th ti r sender coinbase dst l :
    core_eq (step_j j (OTxStart th ti r sender coinbase dst l)).1 j.
  Proof.
    simpl. set (j1 := j <| j_th := th |> <| j_ti := ti |>).
    assert (E1 : core_eq j1 j) by (by destruct j).
    set (j2 := if r2929 r then prepare_al r sender coinbase dst l j1 else j1).
    assert (E2 : core_eq j2 j).
    { unfold j2. destruct (r2929 r); [|done]. eapply core_eq_trans; [apply prepare_al_core|done]. }
    eapply core_eq_trans; [|exact E2]. by destruct j2.
  Qed.

  (* a body call: anything but Finalise, inside the guards of C13 *)
  Definition body_op (j : jstate) (o : op) : Prop :=
    match o with
    | OSnapshot | ORevert _ | OTxStart _ _ _ _ _ _ _ => True
    | OFinalise _ => False
    | o => op_ok j o = true ∧ sticky_j j o = false
    end.

  (* the state of step_c after a body call *)
  Lemma step_c_body cs o : body_op (c_j cs) o →
    let cs' := (step_c H cs o).1 in
    c_j cs' = (step_j (c_j cs) o).1 ∧ c_roots0 cs' = c_roots0 cs ∧ c_dx cs' = c_dx cs ∧ c_muts cs' = c_muts cs
    ∧ c_trie cs' = c_trie cs ∧ c_root cs' = c_root cs ∧
    ∀ b, xcore (ext_of cs' b) = if bool_decide (creates (c_j cs) o = Some b) then xcore fresh_ext else xcore (ext_of cs b).
  Proof.
    intros Hb. unfold step_c. destruct (step_j (c_j cs) o) as [j' w] eqn:Es.
    set (cs1 := match creates (c_j cs) o with Some a => set_x a fresh_ext cs | None => cs end).
    assert (H1 : c_roots0 cs1 = c_roots0 cs ∧ c_dx cs1 = c_dx cs ∧ c_muts cs1 = c_muts cs ∧ c_trie cs1 = c_trie cs
                 ∧ c_root cs1 = c_root cs ∧
                 ∀ b, xcore (ext_of cs1 b) = if bool_decide (creates (c_j cs) o = Some b) then xcore fresh_ext else xcore (ext_of cs b)).
    { unfold cs1. destruct (creates (c_j cs) o) as [a|]; simpl.
      - repeat split; try done. intros b. rewrite ext_set_x.
        case_bool_decide as E; [subst; by rewrite bool_decide_true|]. rewrite bool_decide_false //. congruence.
      - repeat split; try done. }
    destruct H1 as (A1 & A2 & A3 & A4 & A5 & A6).
    destruct o; try done; simpl;
      try (repeat split; try done; intros b; rewrite -A6; done).
    - (* SetCode *) destruct (mark_fields a cs1) as (?&?&?&?&?&?).
      repeat split; try congruence. intros b. by rewrite xcore_mark A6.
    - (* Revert *) destruct (find_revision id (j_revs (c_j cs))) as [[idx rest]|].
      + destruct (marks_fields (reverted_codes (c_j cs) idx) cs1) as (?&?&?&?&?&?).
        repeat split; try congruence. intros b. by rewrite xcore_marks A6.
      + repeat split; try done.
  Qed.

  (* a transaction in progress, relative to the boundary state it started from *)
  Record InTx (cs0 cs : cstate) : Prop := {
    it_fwd : Fwd (c_j cs0) (c_j cs);
    it_same : c_roots0 cs = c_roots0 cs0 ∧ c_dx cs = c_dx cs0 ∧ c_muts cs = c_muts cs0
              ∧ c_trie cs = c_trie cs0 ∧ c_root cs = c_root cs0;
    it_x1 : ∀ a, is_Some (j_objs (c_j cs0) !! a) → xcore (ext_of cs a) = xcore (ext_of cs0 a);
    it_x2 : ∀ a, xcore (ext_of cs a) = xcore (ext_of cs0 a) ∨ xcore (ext_of cs a) = xcore fresh_ext
  }.

  Lemma InTx_refl cs : InTx cs cs.
  Proof. split; [apply Fwd0, core_eq_refl|done|done|by left]. Qed.

  Lemma creates_absent j o a : body_op j o → creates j o = Some a → j_objs j !! a = None.
  Proof.
    destruct o; try done; simpl; try (intros _; done); intros [Hok _];
      try (destruct (j_objs j !! a0) eqn:E; [done|]; intros [= <-]; done).
  Qed.

  Lemma body_fwd s0 j o : wfc s0 → j_entries s0 = [] → Fwd s0 j → body_op j o → Fwd s0 (step_j j o).1.
  Proof.
    intros W0 E0 F Hb. destruct o; try done;
      try (destruct Hb as [Hok Hst]; by apply step_fwd).
    - (* Snapshot *) eapply Fwd_proper; [exact F|]. by destruct j.
    - (* Revert *) simpl. destruct (find_revision id (j_revs j)) as [[idx rest]|]; simpl; [|done].
      eapply Fwd_proper; [apply (fwd_revert_n s0 (length (j_entries j) - idx) j W0 E0 F)|].
      unfold revert_to. by destruct (revert_n (length (j_entries j) - idx) j).
    - (* SetTxContext + Prepare *) eapply Fwd_proper; [exact F|apply txstart_core].
  Qed.

  Lemma InTx_step cs0 cs o :
    wfc (c_j cs0) → j_entries (c_j cs0) = [] → InTx cs0 cs → body_op (c_j cs) o → InTx cs0 (step_c H cs o).1.
  Proof.
    intros W0 E0 [F (S1 & S2 & S3 & S4 & S5) X1 X2] Hb.
    destruct (step_c_body cs o Hb) as (B1 & B2 & B3 & B4 & B5 & B6 & B7).
    split.
    - rewrite B1. by apply body_fwd.
    - rewrite B2 B3 B4 B5 B6. done.
    - intros a Ha. rewrite B7. case_bool_decide as Hc; [|by apply X1].
      apply (creates_absent _ _ _ Hb) in Hc. destruct (fr_pres _ _ (fwd_Fr _ _ W0 F) a Ha) as [x Hx]. congruence.
    - intros a. rewrite B7. case_bool_decide; [by right|apply X2].
  Qed.

  Fixpoint body_ok (cs : cstate) (ops : list op) : Prop :=
    match ops with
    | [] => True
    | o :: rest => body_op (c_j cs) o ∧ body_ok (step_c H cs o).1 rest
    end.

  Lemma InTx_run cs0 ops : wfc (c_j cs0) → j_entries (c_j cs0) = [] →
    ∀ cs, InTx cs0 cs → body_ok cs ops → InTx cs0 (run_c H cs ops).
  Proof.
    intros W0 E0. induction ops as [|o rest IH]; intros cs I Hb; [done|].
    destruct Hb as [H1 H2]. simpl. apply IH; [by apply InTx_step|done].
  Qed.
End Sync.
