(* State/BalValidProofs.v — Merge of per-transaction lists, and "Validate accepts every
   constructed list": the invariant [cbal_wf] of construction lists (non-empty write maps,
   reads disjoint from written slots, indices bounded) holds for the empty list, is preserved
   by every recording function, by finaliseAmsterdam's loop and by Merge, and implies — with
   the ordering theorem of BalProofs — every condition Validate checks. *)
From Coq Require Import ssreflect.
From stdpp Require Import gmap sorting.
From Coq Require Import NArith ZArith Lia.
From RecordUpdate Require Import RecordSet.
Import RecordSetNotations.
From GV Require Import Lib.Bytes State.Ref State.Journal State.BalEnc State.Bal State.BalProofs State.BalEncProofs.
Local Open Scope N_scope.

(* ------------------------------------------------------------------ *)
(* Merge: per address and per index, other's entry if it has one, else the local one *)
Theorem merge_lookup (B L : cbal) a :
  cbal_merge B L !! a =
    match B !! a, L !! a with
    | Some x, Some y => Some (ca_merge x y)
    | Some x, None => Some x
    | None, o => o
    end.
Proof.
  unfold cbal_merge. rewrite lookup_union_with.
  destruct (B !! a) eqn:E1; destruct (L !! a) eqn:E2; rewrite ?E1 ?E2; done.
Qed.

Theorem ca_merge_fields x y i :
  ca_bal (ca_merge x y) !! i = match ca_bal y !! i with Some v => Some v | None => ca_bal x !! i end
  ∧ ca_nonce (ca_merge x y) !! i = match ca_nonce y !! i with Some v => Some v | None => ca_nonce x !! i end
  ∧ ca_code (ca_merge x y) !! i = match ca_code y !! i with Some v => Some v | None => ca_code x !! i end.
Proof.
  unfold ca_merge. simpl. rewrite !lookup_union.
  destruct (ca_bal y !! i), (ca_bal x !! i), (ca_nonce y !! i), (ca_nonce x !! i), (ca_code y !! i), (ca_code x !! i); done.
Qed.

Theorem ca_merge_writes x y k :
  ca_writes (ca_merge x y) !! k =
    match ca_writes y !! k, ca_writes x !! k with
    | Some w, Some ex => Some (w ∪ ex)
    | Some w, None => Some w
    | None, o => o
    end
  ∧ (k ∈ ca_reads (ca_merge x y) ↔
       (k ∈ ca_reads x ∧ ca_writes y !! k = None) ∨ (k ∈ ca_reads y ∧ ca_writes (ca_merge x y) !! k = None)).
Proof.
  unfold ca_merge. simpl. split.
  - rewrite lookup_union_with. by destruct (ca_writes y !! k), (ca_writes x !! k).
  - rewrite elem_of_union !elem_of_difference !not_elem_of_dom. done.
Qed.

(* ------------------------------------------------------------------ *)
(* the invariant of construction lists *)
Definition idx_le {V} (m : N) (g : gmap N V) : Prop := ∀ i, is_Some (g !! i) → i ≤ m.

Record ca_wf (m : N) (c : caccess) : Prop := {
  cw_writes : ∀ k w, ca_writes c !! k = Some w → w ≠ ∅ ∧ idx_le m w;
  cw_disj : ∀ k, k ∈ ca_reads c → ca_writes c !! k = None;
  cw_bal : idx_le m (ca_bal c);
  cw_nonce : idx_le m (ca_nonce c);
  cw_code : idx_le m (ca_code c)
}.
Definition cbal_wf (m : N) (L : cbal) : Prop := ∀ a c, L !! a = Some c → ca_wf m c.

Lemma idx_le_empty {V} m : idx_le m (∅ : gmap N V).
Proof. intros i [v Hv]. by rewrite lookup_empty in Hv. Qed.
Lemma idx_le_insert {V} m i (v : V) g : i ≤ m → idx_le m g → idx_le m (<[i := v]> g).
Proof.
  intros Hi Hg j. destruct (decide (j = i)) as [->|Hne]; [done|]. rewrite lookup_insert_ne //. apply Hg.
Qed.
Lemma idx_le_union {V} m (g h : gmap N V) : idx_le m g → idx_le m h → idx_le m (g ∪ h).
Proof. intros Hg Hh i [v Hv]. apply lookup_union_Some_raw in Hv as [?|[_ ?]]; [apply Hg|apply Hh]; by eexists. Qed.

Lemma ca_wf0 m : ca_wf m ca0.
Proof. split; simpl; try apply idx_le_empty; [intros k w; by rewrite lookup_empty|set_solver]. Qed.

Lemma wf_storage_read m k c : ca_wf m c → ca_wf m (ca_storage_read k c).
Proof.
  intros [W1 W2 W3 W4 W5]. unfold ca_storage_read. destruct (ca_writes c !! k) eqn:E; [done|].
  destruct c as [w rd b n cd]; split; simpl in *; [exact W1| |exact W3|exact W4|exact W5].
  intros k' Hk. apply elem_of_union in Hk as [Hk|Hk]; [apply elem_of_singleton in Hk; by subst|by apply W2].
Qed.
Lemma wf_balance m idx v c : idx ≤ m → ca_wf m c → ca_wf m (ca_balance_change idx v c).
Proof. intros Hi [W1 W2 W3 W4 W5]. destruct c as [w rd b n cd]; split; simpl in *; first [assumption|by apply idx_le_insert]. Qed.
Lemma wf_nonce m idx v c : idx ≤ m → ca_wf m c → ca_wf m (ca_nonce_change idx v c).
Proof. intros Hi [W1 W2 W3 W4 W5]. destruct c as [w rd b n cd]; split; simpl in *; first [assumption|by apply idx_le_insert]. Qed.
Lemma wf_code m idx v c : idx ≤ m → ca_wf m c → ca_wf m (ca_code_change idx v c).
Proof. intros Hi [W1 W2 W3 W4 W5]. destruct c as [w rd b n cd]; split; simpl in *; first [assumption|by apply idx_le_insert]. Qed.

Lemma wf_fin_writes m idx dirty c : idx ≤ m → ca_wf m c → ca_wf m (ca_fin_writes idx dirty c).
Proof.
  intros Hi [W1 W2 W3 W4 W5]. unfold ca_fin_writes. destruct c as [w rd b n cd]; split; simpl in *; try done.
  - intros k x. rewrite lookup_merge. destruct (dirty !! k) as [v|] eqn:Ed; simpl.
    + intros Hx. assert (Ex : x = <[idx := v]> (default ∅ (w !! k))) by (destruct (w !! k); simpl in *; congruence).
      subst x. split; [apply insert_non_empty|]. apply idx_le_insert; [done|].
      destruct (w !! k) as [w0|] eqn:Ew; simpl; [by apply (W1 k w0)|apply idx_le_empty].
    + destruct (w !! k) as [w0|] eqn:Ew; simpl; [|done]. intros [= <-]. by apply (W1 k).
  - intros k [Hk Hn]%elem_of_difference. apply not_elem_of_dom in Hn. rewrite lookup_merge Hn (W2 k Hk). done.
Qed.

Lemma wf_merge m x y : ca_wf m x → ca_wf m y → ca_wf m (ca_merge x y).
Proof.
  intros [X1 X2 X3 X4 X5] [Y1 Y2 Y3 Y4 Y5]. split.
  - intros k w. destruct (ca_merge_writes x y k) as [-> _].
    destruct (ca_writes y !! k) as [wy|] eqn:Ey; destruct (ca_writes x !! k) as [wx|] eqn:Ex; try done.
    + intros [= <-]. destruct (Y1 k wy Ey) as [Hne Hl]. split.
      * intros Hu. apply Hne. apply map_eq. intros i. rewrite lookup_empty.
        assert (Hi : (wy ∪ wx) !! i = None) by (by rewrite Hu lookup_empty).
        by apply lookup_union_None in Hi as [? _].
      * apply idx_le_union; [done|]. by apply (X1 k wx).
    + intros [= <-]. by apply (Y1 k).
    + intros [= <-]. by apply (X1 k).
  - intros k. destruct (ca_merge_writes x y k) as [Hw ->]. intros [[Hx Hy]|[_ ?]]; [|done].
    rewrite Hw Hy. by apply X2.
  - unfold ca_merge; simpl. by apply idx_le_union.
  - unfold ca_merge; simpl. by apply idx_le_union.
  - unfold ca_merge; simpl. by apply idx_le_union.
Qed.

Definition owf (m : N) (oc : option caccess) : Prop := ∀ c, oc = Some c → ca_wf m c.

Lemma owf_upd m f oc : (∀ c, ca_wf m c → ca_wf m (f c)) → owf m oc → owf m (acc_upd f oc).
Proof.
  intros Hf Ho c [= <-]. apply Hf. destruct oc as [c0|]; simpl; [by apply Ho|apply ca_wf0].
Qed.

Lemma wf_on_acct m a f L : (∀ c, ca_wf m c → ca_wf m (f c)) → cbal_wf m L → cbal_wf m (on_acct a f L).
Proof.
  intros Hf HL b c. rewrite on_acct_lookup. destruct (decide (b = a)) as [->|]; [|apply HL].
  apply (owf_upd m f (L !! a) Hf). intros c0. apply HL.
Qed.

Lemma wf_empty m : cbal_wf m ∅.
Proof. intros a c. by rewrite lookup_empty. Qed.
Lemma wf_account_read m a L : cbal_wf m L → cbal_wf m (account_read a L).
Proof. by apply wf_on_acct. Qed.
Lemma wf_storage_read_l m a k L : cbal_wf m L → cbal_wf m (storage_read a k L).
Proof. apply wf_on_acct. intros c. apply wf_storage_read. Qed.

Lemma owf_rec_changes m idx ms post oc : idx ≤ m → owf m oc → owf m (rec_changes idx ms post oc).
Proof.
  intros Hi Ho. unfold rec_changes.
  repeat (match goal with
          | |- owf _ (match ?s with Some _ => _ | None => _ end) => destruct s
          | |- owf _ (if ?b then _ else _) => destruct b
          | |- owf _ (acc_upd (ca_balance_change _ _) _) => apply owf_upd; [intros c; by apply wf_balance|]
          | |- owf _ (acc_upd (ca_nonce_change _ _) _) => apply owf_upd; [intros c; by apply wf_nonce|]
          | |- owf _ (acc_upd (ca_code_change _ _) _) => apply owf_upd; [intros c; by apply wf_code|]
          end); done.
Qed.

Lemma owf_fin_rec m r idx ms o oc : idx ≤ m → owf m oc → owf m (fin_rec r idx ms o oc).
Proof.
  intros Hi Ho. unfold fin_rec. apply owf_rec_changes; [done|].
  destruct (o_sd o); [done|]. destruct (r158 r && obj_empty o); [done|].
  unfold fin_writes. case_bool_decide; [done|]. apply owf_upd; [|done]. intros c. by apply wf_fin_writes.
Qed.

Theorem wf_fin_bal m r idx j L : idx ≤ m → cbal_wf m L → cbal_wf m (fin_bal r idx j L).
Proof.
  intros Hi HL a c. rewrite fin_bal_lookup.
  destruct (j_muts j !! a) as [ms|]; [|apply HL]. destruct (j_objs j !! a) as [o|]; [|apply HL].
  apply (owf_fin_rec m r idx ms o (L !! a) Hi). intros c0. apply HL.
Qed.

Theorem wf_cbal_merge m B L : cbal_wf m B → cbal_wf m L → cbal_wf m (cbal_merge B L).
Proof.
  intros HB HL a c. rewrite merge_lookup.
  destruct (B !! a) as [x|] eqn:Ex; destruct (L !! a) as [y|] eqn:Ey; try done.
  - intros [= <-]. apply wf_merge; [by eapply HB|by eapply HL].
  - intros [= <-]. by eapply HB.
  - intros [= <-]. by eapply HL.
Qed.

(* lists built by the recording functions *)
Inductive constructed (m : N) : cbal → Prop :=
| c_empty : constructed m ∅
| c_account_read a L : constructed m L → constructed m (account_read a L)
| c_storage_read a k L : constructed m L → constructed m (storage_read a k L)
| c_finalise r idx j L : idx ≤ m → constructed m L → constructed m (fin_bal r idx j L)
| c_merge B L : constructed m B → constructed m L → constructed m (cbal_merge B L).

Lemma constructed_wf m L : constructed m L → cbal_wf m L.
Proof.
  induction 1; [apply wf_empty|by apply wf_account_read|by apply wf_storage_read_l|by apply wf_fin_bal|by apply wf_cbal_merge].
Qed.

(* ------------------------------------------------------------------ *)
(* Validate accepts constructed lists *)
Lemma ss_sorted {A} (key : A → N) (l : list A) : StronglySorted (ltk key) l → Sorted (lt_key key) l.
Proof. intros H. by apply StronglySorted_Sorted in H. Qed.

Lemma elem_sorted_keys {V} (g : gmap N V) k : k ∈ sorted_keys g ↔ is_Some (g !! k).
Proof.
  unfold sorted_keys. rewrite merge_sort_Permutation elem_of_list_fmap. split.
  - intros ([k' v] & -> & H). apply elem_of_map_to_list in H. by eexists.
  - intros [v H]. exists (k, v). split; [done|]. by apply elem_of_map_to_list.
Qed.

Lemma sorted_pairs_elem {V W} (f : V → W) (g : gmap N V) p :
  p ∈ sorted_pairs f g → ∃ v, g !! p.1 = Some v ∧ p.2 = f v.
Proof.
  unfold sorted_pairs. intros (k & _ & H)%elem_of_list_omap.
  destruct (g !! k) as [v|] eqn:E; rewrite ?E in H; simpl in H; [|done]. injection H as <-. by exists v.
Qed.

Lemma sorted_pairs_nonempty {V W} (f : V → W) (g : gmap N V) : g ≠ ∅ → sorted_pairs f g ≠ [].
Proof.
  intros Hne. apply map_choose in Hne as (k & v & Hk).
  assert (Hin : (k, f v) ∈ sorted_pairs f g).
  { unfold sorted_pairs. apply elem_of_list_omap. exists k. split; [apply elem_sorted_keys; by eexists|].
    by rewrite Hk. }
  intros E. rewrite E in Hin. by apply elem_of_nil in Hin.
Qed.

Lemma pairs_valid_sorted_pairs {V W} m (f : V → W) (g : gmap N V) :
  idx_le m g → pairs_valid m (sorted_pairs f g).
Proof.
  intros H. split; [apply ss_sorted, sorted_pairs_ss|].
  apply list.Forall_forall. intros p Hp. apply sorted_pairs_elem in Hp as (v & Hv & _). apply H. by eexists.
Qed.

Section Valid.
  Variable code_of : N → list N.
  Hypothesis code_small : ∀ c, lenN (code_of c) ≤ max_code_size.

  Lemma account_valid_enc m a c : ca_wf m c → account_valid m (ca_to_encoding code_of a c).
  Proof.
    intros [W1 W2 W3 W4 W5]. unfold account_valid, ca_to_encoding. simpl.
    split; [apply ss_sorted, sorted_pairs_ss|].
    split.
    { apply list.Forall_forall. intros sc Hsc. apply sorted_pairs_elem in Hsc as (w & Hw & ->).
      destruct (W1 _ _ Hw) as [Hne Hl]. split; [by apply sorted_pairs_nonempty|by apply pairs_valid_sorted_pairs]. }
    split.
    { pose proof (sorted_elems_ss (ca_reads c)) as H. by apply StronglySorted_Sorted in H. }
    split.
    { apply list.Forall_forall. intros k Hk. unfold sorted_elems in Hk.
      rewrite merge_sort_Permutation in Hk. apply elem_of_elements in Hk.
      apply list.Forall_forall. intros sc Hsc. apply sorted_pairs_elem in Hsc as (w & Hw & _).
      intros <-. by rewrite (W2 _ Hk) in Hw. }
    split; [by apply pairs_valid_sorted_pairs|].
    split; [by apply pairs_valid_sorted_pairs|].
    split; [by apply pairs_valid_sorted_pairs|].
    apply list.Forall_forall. intros p Hp. apply sorted_pairs_elem in Hp as (v & _ & ->). apply code_small.
  Qed.

  (* validate_accepts_constructed: every list built by the recording functions, finaliseAmsterdam
     and Merge with transaction indices <= txcount+1 passes Validate, provided its item count is
     within gaslimit / BALItemCost and code is within MaxCodeSizeAmsterdam *)
  Theorem validate_accepts_wf g t (L : cbal) :
    cbal_wf (t + 1) L → item_count (to_encoding_obj code_of L) ≤ g / bal_item_cost →
    validate g t (to_encoding_obj code_of L) = 0.
  Proof.
    intros HL Hi. apply validate_ok. split; [|split; [|done]].
    - apply ss_sorted. apply (to_encoding_sorted code_of L).
    - apply list.Forall_forall. intros e He. unfold to_encoding_obj in He.
      apply elem_of_list_omap in He as (a & _ & Hg).
      destruct (L !! a) as [c|] eqn:EL; rewrite ?EL in Hg; simpl in Hg; [|done]. injection Hg as <-.
      apply account_valid_enc. by eapply HL.
  Qed.

  Theorem validate_accepts_constructed g t (L : cbal) :
    constructed (t + 1) L → item_count (to_encoding_obj code_of L) ≤ g / bal_item_cost →
    validate g t (to_encoding_obj code_of L) = 0.
  Proof. intros H. apply validate_accepts_wf. by apply constructed_wf. Qed.
End Valid.

(* ------------------------------------------------------------------ *)
(* what the recording StateDB holds and hands out is [constructed] *)
Lemma cons_op_reads m j o L : constructed m L → constructed m (op_reads j o L).
Proof.
  intros H. destruct o; simpl; try done; try (by constructor); [by do 2 constructor|].
  destruct (find_revision id (j_revs j)) as [[idx rest]|]; [|done].
  generalize (take (length (j_entries j) - idx) (j_entries j)). intros es. revert L H.
  induction es as [|e es IH]; intros L H; simpl; [done|]. apply IH.
  destruct (revert_reads e); [by constructor|done].
Qed.

Lemma cons_get_reads m j q L : constructed m L → constructed m (get_reads j q L).
Proof.
  intros H. destruct q; simpl; try done; try (by constructor).
  - destruct (j_objs j !! a) as [o|]; [|by constructor]. destruct (o_dirty o !! k); [by constructor|by do 2 constructor].
  - destruct (j_objs j !! a); [by do 2 constructor|by constructor].
Qed.

Definition acc_constructed (m : N) (b : bstate) : Prop := ∀ L, b_acc b = Some L → constructed m L.

Lemma step_b_generic b o :
  match o with OFinalise _ | OTxStart _ _ _ _ _ _ _ => False | _ => True end →
  step_b b (BOp o) = (rec (op_reads (b_j b) o) (b <| b_j := (step_j (b_j b) o).1 |>), BOut (step_j (b_j b) o).2).
Proof. intros H. destruct o; try done; unfold step_b; by destruct (step_j _ _). Qed.

Theorem step_b_constructed m b o :
  acc_constructed m b → b_idx b ≤ m →
  acc_constructed m (step_b b o).1 ∧ ∀ R, (step_b b o).2 = BFin (Some R) → constructed m R.
Proof.
  intros Ha Hi. unfold acc_constructed in *. destruct o as [o|th ti bai|r s c d l|q].
  - destruct o;
      try (rewrite step_b_generic; [done|]; cbn [fst snd];
           split; [|done]; intros L; rewrite (proj1 (rec_set_j _ b _)) fmap_Some;
           intros (L0 & HL0 & ->); apply cons_op_reads; by apply Ha).
    + (* Finalise *) destruct b as [j acc idx]; simpl in *. split; [done|]. intros R. destruct (rAms r); [|done].
      destruct acc as [L0|]; simpl; [|done]. intros [= <-]. constructor; [done|by apply Ha].
    + (* TxStart *) destruct b as [j acc idx]; simpl in *. split; [|done]. intros L.
      destruct (rAms r); [intros [= <-]; constructor|apply Ha].
  - destruct b as [j acc idx]; simpl in *. split; [exact Ha|done].
  - destruct b as [j acc idx]; simpl in *. split; [|done]. intros L.
    destruct (rAms r); [intros [= <-]; constructor|apply Ha].
  - destruct b as [j acc idx]; simpl in *. split; [|done]. intros L. destruct acc as [L0|]; simpl; [|done]. intros [= <-].
    apply cons_get_reads. by apply Ha.
Qed.
