(* State/CommitIR2.v — C14 proofs, part 9: the loops of IntermediateRoot. *)
From Coq Require Import ssreflect.
From stdpp Require Import gmap.
From Coq Require Import NArith ZArith Lia.
From RecordUpdate Require Import RecordSet.
Import RecordSetNotations.
From GV Require Import State.Ref State.Journal State.JournalProofs State.BalProofs State.Commit State.CommitProofs State.CommitReopen State.CommitHist State.CommitSync State.CommitFin State.CommitTx State.CommitIR.
From GV Require Import Lib.Bytes Rlp.Item Rlp.Codec Rlp.CodecProofs Trie.Hex Trie.Node Trie.Ops Trie.Hash Trie.OpsProofs Trie.Canon.
Local Open Scope N_scope.

Section IR2.
  Variable H : list N → list N.
  Hypothesis H_bytes : ∀ x, forallb byteb (H x) = true.
  Variables (addr_ok : addr → Prop) (slot_ok : slot → Prop).
  Hypothesis Hk_addr : ∀ a b, addr_ok a → addr_ok b → addr_key H a = addr_key H b → a = b.
  Hypothesis Hk_slot : ∀ a b, slot_ok a → slot_ok b → slot_key H a = slot_key H b → a = b.

  Notation ext_of := (ext_of H).
  Notation fresh_ext := (fresh_ext H).
  Notation obj_entry := (obj_entry H).
  Notation Sync := (Sync H addr_ok slot_ok).
  Notation stor_rep := (stor_rep H slot_ok).
  Notation obj_trie := (obj_trie H).
  Notation cur_trie := (cur_trie H).
  Notation base := (base H).

  (* replacing the extension of a live object with an unapplied update by an up-to-date one *)
  Lemma sync_set_x p cs a o m x :
    Sync p cs → j_objs (c_j cs) !! a = Some o → c_muts cs !! a = Some m → m_applied m = false → m_del m = false →
    (x = ext_of cs a ∧ x_unc x = ∅ ∨
     ∃ S', x_unc x = ∅ ∧ x_trie x = Some S' ∧ hash_root H S' = Some (x_root x) ∧ stor_rep S' (committed (c_j cs) a o)) →
    Sync p (set_x a x cs).
  Proof.
    intros Sy Ho Hm Hap Hdel Hx.
    assert (Hpa : pend cs a) by (by exists m).
    assert (Hext : ∀ b, b ≠ a → ext_of (set_x a x cs) b = ext_of cs b).
    { intros b Hb. rewrite ext_set_x. by rewrite bool_decide_false. }
    assert (Hexa : ext_of (set_x a x cs) a = x) by (rewrite ext_set_x; by rewrite bool_decide_true).
    destruct Sy as [A1 A2 A3 A4 A5 A6 A7 A8 A9 A10]. split; try done.
    - destruct A3 as (T & T1 & T2 & T3 & T4). exists T. split; [done|]. split; [done|]. split; [|done].
      intros b Hb Hnp. rewrite (T3 b Hb Hnp). unfold CommitReopen.obj_entry. simpl.
      destruct (decide (b = a)) as [->|Hne]; [done|]. by rewrite (Hext b Hne).
    - intros b ob Hob. simpl in Hob. destruct (decide (b = a)) as [->|Hne].
      + rewrite Hob in Ho. injection Ho as <-. unfold CommitFin.obj_trie, CommitFin.base. rewrite Hexa.
        destruct Hx as [[-> Hu]|(S' & Hu & Ht & Hh & Hr)].
        * destruct (A5 a ob Hob) as (S & B1 & B2 & B3). exists S. split; [done|]. split; [done|].
          eapply stor_rep_ext; [|exact B3]. intros k. unfold CommitFin.base. simpl. done.
        * exists S'. rewrite Ht Hu. split; [done|]. split; [done|].
          eapply stor_rep_ext; [|exact Hr]. intros k. by rewrite lookup_empty.
      + unfold CommitFin.obj_trie, CommitFin.base. rewrite (Hext b Hne). by apply A5.
    - intros b ob Hob. simpl in Hob. destruct (decide (b = a)) as [->|Hne].
      + rewrite Hexa. assert (Hu : x_unc x = ∅) by (destruct Hx as [[_ ?]|(? & ? & _)]; done).
        rewrite Hu. split; [intros k orig; by rewrite lookup_empty|done].
      + rewrite (Hext b Hne). by apply (A6 b ob).
    - intros b ob S Hob. simpl in Hob. destruct (decide (b = a)) as [->|Hne].
      + intros _. by exists m.
      + rewrite (Hext b Hne). by apply (A7 b ob S).
    - intros b Hb. simpl in Hb. destruct (decide (b = a)) as [->|Hne]; [congruence|]. rewrite (Hext b Hne). by apply A8.
  Qed.

  (* the storage loop *)
  Lemma ir_storage_sync p l : ∀ cs cs2,
    Sync p cs → (∀ a m, In (a, m) l → c_muts cs !! a = Some m) → List.NoDup (map fst l) →
    ir_storage H p l cs = COk cs2 →
    Sync p cs2 ∧
    (∀ a m, In (a, m) l → m_applied m = false → m_del m = false → x_unc (ext_of cs2 a) = ∅) ∧
    (∀ b, ¬ In b (map fst l) → ext_of cs2 b = ext_of cs b).
  Proof.
    induction l as [|[a m] l IH]; intros cs cs2 Sy Hl Hnd E; simpl in E.
    { injection E as <-. split; [done|]. split; [by intros ?? []|done]. }
    apply NoDup_cons_iff in Hnd as [Hna Hnd].
    destruct (m_applied m || m_del m) eqn:Eam.
    - destruct (IH cs cs2 Sy) as (B1 & B2 & B3); [intros; apply Hl; by right|done|done|].
      split; [done|]. split.
      + intros b mb [[= -> ->]|Hin] Hap Hd; [by rewrite Hap Hd in Eam|by eapply B2].
      + intros b Hb. apply B3. intros Hin. apply Hb. by right.
    - apply orb_false_iff in Eam as [Hap Hd].
      destruct (j_objs (c_j cs) !! a) as [o|] eqn:Ho; [|done].
      destruct (update_root H p (o_pending o) (ext_of cs a)) as [x|] eqn:Eu; [|done].
      assert (Hm : c_muts cs !! a = Some m) by (apply Hl; by left).
      pose proof (update_root_spec H H_bytes addr_ok slot_ok Hk_slot p cs a o x Sy Ho Eu) as Hx.
      pose proof (sync_set_x p cs a o m x Sy Ho Hm Hap Hd Hx) as Sy1.
      destruct (IH (set_x a x cs) cs2 Sy1) as (B1 & B2 & B3); [intros; apply Hl; by right|done|done|].
      split; [done|]. split.
      + intros b mb [[= -> ->]|Hin] Hap' Hd'; [|by eapply B2].
        rewrite (B3 b Hna) ext_set_x bool_decide_true //. destruct Hx as [[_ ?]|(? & ? & _)]; done.
      + intros b Hb. rewrite B3; [intros Hin; apply Hb; by right|].
        rewrite ext_set_x bool_decide_false //. intros ->. apply Hb. by left.
  Qed.

  (* the account trie writes *)
  Lemma acct_updates_in cs l kvs : acct_updates H cs l = COk kvs →
    ∀ kb vb, In (kb, vb) kvs ↔
      ∃ a m o, In (a, m) l ∧ m_applied m = false ∧ m_del m = false ∧ j_objs (c_j cs) !! a = Some o ∧
               kb = addr_key H a ∧ vb = acct_rlp H (o_data o) (x_root (ext_of cs a)).
  Proof.
    revert kvs. induction l as [|[a m] l IH]; intros kvs E kb vb; simpl in E.
    { injection E as <-. split; [done|]. by intros (? & ? & ? & [] & _). }
    destruct (acct_updates H cs l) as [kvs0|] eqn:E0; [|done]. specialize (IH kvs0 eq_refl).
    destruct (m_applied m || m_del m) eqn:Eam.
    - injection E as <-. rewrite IH. split.
      + intros (a' & m' & o & Hin & R). exists a', m', o. split; [by right|done].
      + intros (a' & m' & o & [[= -> ->]|Hin] & Hap & Hd & R); [by rewrite Hap Hd in Eam|]. by exists a', m', o.
    - apply orb_false_iff in Eam as [Hap Hd]. destruct (j_objs (c_j cs) !! a) as [o|] eqn:Ho; [|done].
      injection E as <-. simpl. rewrite IH. split.
      + intros [[= <- <-]|(a' & m' & o' & Hin & R)].
        * exists a, m, o. split; [by left|done].
        * exists a', m', o'. split; [by right|done].
      + intros (a' & m' & o' & [[= -> ->]|Hin] & Hap' & Hd' & Ho' & -> & ->).
        * left. rewrite Ho in Ho'. by injection Ho' as <-.
        * right. by exists a', m', o'.
  Qed.

  Lemma acct_deletes_in l kb vb :
    In (kb, vb) (acct_deletes H l) ↔ ∃ a m, In (a, m) l ∧ m_applied m = false ∧ m_del m = true ∧ kb = addr_key H a ∧ vb = [].
  Proof.
    unfold acct_deletes. rewrite in_map_iff. split.
    - intros ([a m] & E & Hin). apply filter_In in Hin as [Hin Hc]. simpl in *. injection E as <- <-.
      apply andb_true_iff in Hc as [Hap%negb_true_iff Hd]. by exists a, m.
    - intros (a & m & Hin & Hap & Hd & -> & ->). exists (a, m). split; [done|]. apply filter_In. by rewrite /= Hap Hd.
  Qed.

  Lemma acct_rlp_nonempty x r : acct_rlp H x r ≠ [].
  Proof.
    unfold acct_rlp. intros E. pose proof (enc_len_pos (Lst [Str (be_bytes (a_nonce x)); Str (be_bytes (a_bal x)); Str r; Str (code_hash H (a_code x))])) as Hl.
    rewrite E in Hl. unfold lenN in Hl. simpl in Hl. lia.
  Qed.

  (* IntermediateRoot on a state between transactions *)
  Theorem sync_ir p cs r root cs1 :
    Sync p cs → intermediate_root H r p cs = COk (root, cs1) →
    Sync p cs1 ∧ (∀ a m, c_muts cs1 !! a = Some m → m_applied m = true) ∧
    (∀ a o, j_objs (c_j cs1) !! a = Some o → x_unc (ext_of cs1 a) = ∅) ∧
    ∃ T, c_trie cs1 = Some T ∧ hash_root H T = Some root.
  Proof.
    intros Sy0 E.
    (* the Finalise at the start finds an empty journal *)
    assert (Sy : Sync p (step_c H cs (OFinalise r)).1).
    { apply (sync_finalise H addr_ok slot_ok p cs cs r Sy0 (InTx_refl H cs)).
      intros a o Ho. destruct (sy_ok _ _ _ _ _ Sy0 a o Ho) as [Ha _]. split; [done|].
      intros k [v Hv]. by rewrite (tb_dirty _ (sy_tb _ _ _ _ _ Sy0) a o Ho) lookup_empty in Hv. }
    unfold intermediate_root in E. set (cs0 := (step_c H cs (OFinalise r)).1) in *.
    destruct (sy_T _ _ _ _ _ Sy) as (T & T1 & T2 & T3 & T4). unfold CommitFin.cur_trie in T1. rewrite T1 in E.
    set (ml := map_to_list (c_muts cs0)) in *.
    assert (Hml : ∀ a m, In (a, m) ml ↔ c_muts cs0 !! a = Some m).
    { intros a m. unfold ml. by rewrite -elem_of_list_In elem_of_map_to_list. }
    assert (Hnd : List.NoDup (map fst ml)).
    { apply NoDup_ListNoDup. apply NoDup_fst_map_to_list. }
    destruct (ir_storage H p ml cs0) as [cs2|] eqn:E2; [|done].
    destruct (ir_storage_sync p ml cs0 cs2 Sy (λ a m, proj1 (Hml a m)) Hnd E2) as (Sy2 & Hunc2 & _).
    destruct (ir_storage_pres H p ml cs0 cs2 E2) as (P1 & P2 & P3 & P4 & P5 & P6).
    destruct (acct_updates H cs2 ml) as [ups|] eqn:Eup; [|done].
    pose proof (acct_updates_in cs2 ml ups Eup) as Hups.
    set (kvs := ups ++ acct_deletes H ml) in *.
    assert (Hb : bytes_ops kvs).
    { apply Forall_forall. intros [kb vb] Hin. apply in_app_iff in Hin as [Hin|Hin].
      - apply Hups in Hin as (a & _ & _ & _ & _ & _ & _ & -> & _). apply H_bytes.
      - apply acct_deletes_in in Hin as (a & _ & _ & _ & _ & -> & _). apply H_bytes. }
    destruct (update_seq_spec no_resolve kvs Hb T (lk T) T2 (λ _, eq_refl)) as (T' & ev & Eus & Hc' & Hl').
    unfold t_update_seq in E. rewrite Eus in E. unfold t_hash in E.
    destruct (hash_root H T') as [h|] eqn:Eh; [|done]. injection E as <- <-.
    (* every live object is up to date *)
    assert (Hall : ∀ a o, j_objs (c_j cs2) !! a = Some o → x_unc (ext_of cs2 a) = ∅).
    { intros a o Ho. destruct (decide (x_unc (ext_of cs2 a) = ∅)) as [|Hne]; [done|].
      destruct (sy_unc _ _ _ _ _ Sy2 a o Ho) as [_ Hp]. destruct (Hp Hne) as (m & Hm & Hap).
      destruct (sy_mut _ _ _ _ _ Sy2 a m Hm) as [_ Hiff]. apply (Hunc2 a m); [apply Hml; by rewrite -P2|done|].
      destruct (m_del m) eqn:Ed; [|done]. destruct (Hiff Hap) as [Hd _]. rewrite Hd in Ho; done. }
    (* the entries written, by address *)
    assert (Hmem : ∀ a v, addr_ok a → In (hexk (addr_key H a), v) (hexops kvs) ↔
              ∃ m, c_muts cs2 !! a = Some m ∧ m_applied m = false ∧
                   v = match j_objs (c_j cs2) !! a with
                       | Some o => acct_rlp H (o_data o) (x_root (ext_of cs2 a)) | None => [] end).
    { intros a v Ha. unfold hexops. rewrite in_map_iff. split.
      - intros ([kb vb] & E1 & Hin). simpl in E1. injection E1 as E1 ->.
        apply in_app_iff in Hin as [Hin|Hin].
        + apply Hups in Hin as (a' & m & o & Hin & Hap & Hd & Ho & -> & ->).
          apply (hexk_inj H H_bytes (be_fixed 20 a') (be_fixed 20 a)) in E1.
          apply Hml in Hin. rewrite -P2 in Hin. destruct (sy_mut _ _ _ _ _ Sy2 a' m Hin) as [Ha' _].
          apply Hk_addr in E1; [|done|done]. subst a'. exists m. by rewrite Ho.
        + apply acct_deletes_in in Hin as (a' & m & Hin & Hap & Hd & -> & ->).
          apply (hexk_inj H H_bytes (be_fixed 20 a') (be_fixed 20 a)) in E1.
          apply Hml in Hin. rewrite -P2 in Hin. destruct (sy_mut _ _ _ _ _ Sy2 a' m Hin) as [Ha' Hiff].
          apply Hk_addr in E1; [|done|done]. subst a'. exists m. destruct (Hiff Hap) as [Hn _]. by rewrite (Hn Hd).
      - intros (m & Hm & Hap & ->). destruct (sy_mut _ _ _ _ _ Sy2 a m Hm) as [_ Hiff].
        rewrite P2 in Hm. apply Hml in Hm.
        destruct (j_objs (c_j cs2) !! a) as [o|] eqn:Ho.
        + exists (addr_key H a, acct_rlp H (o_data o) (x_root (ext_of cs2 a))). split; [done|].
          apply in_app_iff. left. apply Hups. exists a, m, o. split; [done|]. split; [done|]. split; [|done].
          destruct (m_del m) eqn:Ed; [|done]. destruct (Hiff Hap) as [Hd _]. by specialize (Hd eq_refl).
        + exists (addr_key H a, []). split; [done|]. apply in_app_iff. right. apply acct_deletes_in.
          exists a, m. split; [done|]. split; [done|]. split; [|done]. by apply Hiff. }
    set (cs1 := {| c_j := c_j cs2; c_roots0 := c_roots0 cs2; c_x := c_x cs2; c_dx := c_dx cs2;
                   c_muts := (λ m, {| m_del := m_del m; m_applied := true |}) <$> c_muts cs2;
                   c_trie := Some T'; c_root := c_root cs2 |}).
    assert (Hext1 : ∀ a, ext_of cs1 a = ext_of cs2 a) by done.
    assert (Happ : ∀ a m, c_muts cs1 !! a = Some m → m_applied m = true).
    { intros a m. simpl. rewrite lookup_fmap. destruct (c_muts cs2 !! a); simpl; [|done]. by intros [= <-]. }
    split; [|split; [exact Happ|split; [exact Hall|by exists T']]].
    destruct Sy2 as [A1 A2 A3 A4 A5 A6 A7 A8 A9 A10]. split; try done.
    - (* sy_T *)
      exists T'. split; [done|]. split; [done|]. split.
      + intros a Ha _. rewrite Hl'. unfold CommitReopen.obj_entry. simpl.
        destruct (c_muts cs2 !! a) as [m|] eqn:Em.
        * destruct (m_applied m) eqn:Eap.
          -- rewrite apply_ops_notin.
             { intros Hin. apply in_map_iff in Hin as ([hk v] & E1 & Hin). simpl in E1. subst hk.
               apply (Hmem a v Ha) in Hin as (m' & Hm' & Hap' & _). congruence. }
             destruct A3 as (T0 & B1 & B2 & B3 & B4). unfold CommitFin.cur_trie in B1. rewrite P3 P4 T1 in B1.
             injection B1 as <-. rewrite (B3 a Ha); [|done]. intros (m' & Hm' & Hap'). congruence.
          -- rewrite (apply_ops_char _ _ _ (match j_objs (c_j cs2) !! a with
                        | Some o => acct_rlp H (o_data o) (x_root (ext_of cs2 a)) | None => [] end)).
             { intros v1 v2 H1 H2. apply (Hmem a _ Ha) in H1 as (? & _ & _ & ->).
               apply (Hmem a _ Ha) in H2 as (? & _ & _ & ->). done. }
             { apply (Hmem a _ Ha). by exists m. }
             destruct (j_objs (c_j cs2) !! a) as [o|]; [|done].
             pose proof (acct_rlp_nonempty (o_data o) (x_root (ext_of cs2 a))) as Hne.
             change (ext_of cs1 a) with (ext_of cs2 a).
             by destruct (acct_rlp H (o_data o) (x_root (ext_of cs2 a))).
        * rewrite apply_ops_notin.
          { intros Hin. apply in_map_iff in Hin as ([hk v] & E1 & Hin). simpl in E1. subst hk.
            apply (Hmem a v Ha) in Hin as (m' & Hm' & _). congruence. }
          destruct A3 as (T0 & B1 & B2 & B3 & B4). unfold CommitFin.cur_trie in B1. rewrite P3 P4 T1 in B1.
          injection B1 as <-. rewrite (B3 a Ha); [|done]. intros (m' & Hm' & _). congruence.
      + intros hk v Hlk. rewrite Hl' in Hlk. apply apply_ops_only in Hlk as [Hin|Hlk].
        * apply in_map_iff in Hin as ([hk' v'] & E1 & Hin). simpl in E1. subst hk'.
          unfold hexops in Hin. apply in_map_iff in Hin as ([kb vb] & E1 & Hin). simpl in E1. injection E1 as <- <-.
          apply in_app_iff in Hin as [Hin|Hin].
          -- apply Hups in Hin as (a' & m & o & Hin & _ & _ & _ & -> & _). apply Hml in Hin. rewrite -P2 in Hin.
             destruct (A4 a' m Hin) as [Ha' _]. by exists a'.
          -- apply acct_deletes_in in Hin as (a' & m & Hin & _ & _ & -> & _). apply Hml in Hin. rewrite -P2 in Hin.
             destruct (A4 a' m Hin) as [Ha' _]. by exists a'.
        * destruct A3 as (T0 & B1 & B2 & B3 & B4). unfold CommitFin.cur_trie in B1. rewrite P3 P4 T1 in B1.
          injection B1 as <-. by eapply B4.
    - (* sy_mut *)
      intros a m Hm. simpl in Hm. rewrite lookup_fmap in Hm. destruct (c_muts cs2 !! a) as [m2|] eqn:Em; [|done].
      injection Hm as <-. simpl. split; [by destruct (A4 a m2 Em)|done].
    - (* sy_unc *)
      intros a o Ho. rewrite Hext1 (Hall a o Ho). split; [intros k orig; by rewrite lookup_empty|done].
    - (* sy_xtrie *)
      intros a o S Ho Hxt. destruct (A7 a o S Ho Hxt) as (m & Hm & Hd). simpl. rewrite lookup_fmap Hm /=. by eexists.
  Qed.
End IR2.
