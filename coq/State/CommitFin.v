(* State/CommitFin.v — C14 proofs, part 6: [Sync] and its preservation by Finalise at the end of
   a transaction.  See State/CommitHist.v for the overview. *)
From Coq Require Import ssreflect.
From stdpp Require Import gmap.
From Coq Require Import NArith ZArith Lia.
From RecordUpdate Require Import RecordSet.
Import RecordSetNotations.
From GV Require Import State.Ref State.Journal State.JournalProofs State.BalProofs State.Commit State.CommitProofs State.CommitReopen State.CommitHist State.CommitSync.
From GV Require Import Lib.Bytes Rlp.Item Rlp.Codec Trie.Hex Trie.Node Trie.Ops Trie.Hash Trie.OpsProofs Trie.Canon.
Local Open Scope N_scope.

Section Fin.
  Variable H : list N → list N.
  Variables (addr_ok : addr → Prop) (slot_ok : slot → Prop).

  Notation ext_of := (ext_of H).
  Notation fresh_ext := (fresh_ext H).
  Notation obj_entry := (obj_entry H).

  Definition cur_trie (p : pdb) (cs : cstate) : option node :=
    match c_trie cs with Some t => Some t | None => open_trie H p (c_root cs) end.
  Definition obj_trie (p : pdb) (cs : cstate) (a : addr) : option node :=
    match x_trie (ext_of cs a) with Some t => Some t | None => open_trie H p (x_root (ext_of cs a)) end.
  Definition pend (cs : cstate) (a : addr) : Prop :=
    ∃ m, c_muts cs !! a = Some m ∧ m_applied m = false.
  (* what the storage trie of a live object holds at slot k *)
  Definition base (cs : cstate) (a : addr) (o : sobj) (k : slot) : word :=
    match x_unc (ext_of cs a) !! k with Some orig => orig | None => committed (c_j cs) a o k end.
  Definition stor_rep (S : node) (f : slot → word) : Prop :=
    canon S ∧ (∀ k, slot_ok k → lk S (hexk (slot_key H k)) = vopt (slot_val (f k))) ∧
    (∀ hk v, lk S hk = Some v → ∃ k, slot_ok k ∧ hk = hexk (slot_key H k)).

  Record Sync (p : pdb) (cs : cstate) : Prop := {
    sy_tb : tx_boundary (c_j cs);
    sy_ok : ∀ a o, j_objs (c_j cs) !! a = Some o → addr_ok a ∧ ∀ k v, o_pending o !! k = Some v → slot_ok k;
    sy_T : ∃ T, cur_trie p cs = Some T ∧ canon T ∧
           (∀ a, addr_ok a → ¬ pend cs a → lk T (hexk (addr_key H a)) = obj_entry cs a) ∧
           (∀ hk v, lk T hk = Some v → ∃ a, addr_ok a ∧ hk = hexk (addr_key H a));
    sy_mut : ∀ a m, c_muts cs !! a = Some m →
             addr_ok a ∧ (m_applied m = false → (m_del m = true ↔ j_objs (c_j cs) !! a = None));
    sy_stor : ∀ a o, j_objs (c_j cs) !! a = Some o →
              ∃ S, obj_trie p cs a = Some S ∧ hash_root H S = Some (x_root (ext_of cs a)) ∧ stor_rep S (base cs a o);
    sy_unc : ∀ a o, j_objs (c_j cs) !! a = Some o →
             (∀ k orig, x_unc (ext_of cs a) !! k = Some orig → is_Some (o_pending o !! k)) ∧
             (x_unc (ext_of cs a) ≠ ∅ → pend cs a);
    sy_xtrie : ∀ a o S, j_objs (c_j cs) !! a = Some o → x_trie (ext_of cs a) = Some S →
               ∃ m, c_muts cs !! a = Some m ∧ m_del m = false;
    sy_absent : ∀ a, j_objs (c_j cs) !! a = None → xcore (ext_of cs a) = xcore fresh_ext;
    sy_db : ∀ a, match j_db (c_j cs) !! a with
                 | Some d => ∃ r0 S0, c_roots0 cs !! a = Some r0 ∧ open_trie H p r0 = Some S0 ∧
                                      hash_root H S0 = Some r0 ∧ stor_rep S0 (sget (d_stor d))
                 | None => c_roots0 cs !! a = None
                 end;
    sy_origin : ∀ a o, j_objs (c_j cs) !! a = Some o → o_origin o ≠ None → a ∉ j_destruct (c_j cs)
  }.

  (* what must hold of the keys touched by the transaction when it is finalised: they belong
     to the universe on which the keys H(address), H(slot) are collision free *)
  Definition fin_guard (j : jstate) : Prop :=
    ∀ a o, j_objs j !! a = Some o → addr_ok a ∧ ∀ k, is_Some (o_dirty o !! k) → slot_ok k.

  (* ---- lookups in the state after Finalise ---- *)
  Lemma fin_unc_lookup j a o unc k :
    fin_unc j a o unc !! k = fin_unc1 ((λ v, (v, committed j a o k)) <$> o_dirty o !! k) (unc !! k).
  Proof. unfold fin_unc. rewrite lookup_merge map_lookup_imap. by destruct (o_dirty o !! k), (unc !! k). Qed.

  Lemma fin_obj_cases r o o' : fin_obj r o = Some o' →
    (rAms r && o_sd o = true ∧ o' = (new_object (o_origin o)) <| o_data ::= (λ d, d <| a_bal := a_bal (o_data o) |>) |>) ∨
    (rAms r && o_sd o = false ∧ o' = obj_finalise o).
  Proof.
    unfold fin_obj. destruct (rAms r); simpl.
    - destruct (o_sd o).
      + destruct (negb (a_bal (o_data o) =? 0)); [|done]. intros [= <-]. by left.
      + destruct (r158 r && obj_empty o); [done|]. intros [= <-]. by right.
    - destruct (o_sd o || r158 r && obj_empty o); [done|]. intros [= <-]. by right.
  Qed.

  Definition fin_x (r : rules) (cs : cstate) (a : addr) (o : sobj) : oext :=
    match fin_obj r o with
    | None => fresh_ext
    | Some _ =>
        if rAms r && o_sd o then origin_ext H cs a (o_origin o)
        else let x := ext_of cs a in
             {| x_unc := fin_unc (c_j cs) a o (x_unc x); x_root := x_root x; x_trie := x_trie x; x_dcode := x_dcode x |}
    end.

  Lemma fin_state r cs :
    let j := c_j cs in let cs' := (step_c H cs (OFinalise r)).1 in
    c_j cs' = finalise r j ∧ c_roots0 cs' = c_roots0 cs ∧ c_trie cs' = c_trie cs ∧ c_root cs' = c_root cs ∧
    (∀ a, ext_of cs' a = match j_objs j !! a with
                         | Some o => if bool_decide (a ∈ dom (j_muts j)) then fin_x r cs a o else ext_of cs a
                         | None => ext_of cs a end) ∧
    (∀ a, c_muts cs' !! a = match j_objs j !! a with
                            | Some o => if bool_decide (a ∈ dom (j_muts j))
                                        then Some {| m_del := fin_del r o; m_applied := false |} else c_muts cs !! a
                            | None => c_muts cs !! a end).
  Proof.
    intros j cs'. split; [done|]. split; [done|]. split; [done|]. split; [done|]. split.
    - intros a. unfold cs', step_c, Commit.ext_of. simpl. rewrite lookup_union map_lookup_imap.
      unfold fin_x, Commit.ext_of. fold j. destruct (j_objs j !! a) as [o|]; simpl; [|by rewrite left_id].
      case_bool_decide; simpl; [|by rewrite left_id].
      destruct (fin_obj r o); simpl; [|by destruct (c_x cs !! a)].
      destruct (rAms r && o_sd o); simpl; by destruct (c_x cs !! a).
    - intros a. unfold cs', step_c. simpl. rewrite lookup_union map_lookup_imap. fold j.
      destruct (j_objs j !! a) as [o|]; simpl; [|by rewrite left_id].
      case_bool_decide; simpl; [|by rewrite left_id]. by destruct (c_muts cs !! a).
  Qed.

  (* ---- small facts ---- *)
  Lemma stor_rep_ext S f g : (∀ k, f k = g k) → stor_rep S f → stor_rep S g.
  Proof. intros E (A & B & C). split; [done|]. split; [|done]. intros k Hk. rewrite -E. by apply B. Qed.

  Lemma stor_rep_empty f : (∀ k, f k = 0) → stor_rep NEmpty f.
  Proof.
    intros E. split; [by left|]. split.
    - intros k _. by rewrite lk_empty E.
    - intros hk v. by rewrite lk_empty.
  Qed.

  Lemma open_empty p : open_trie H p (empty_root H) = Some NEmpty.
  Proof. unfold open_trie. by rewrite bool_decide_true. Qed.
  Lemma hash_empty : hash_root H NEmpty = Some (empty_root H).
  Proof. done. Qed.

  Lemma ocore_eq (x y : option sobj) : ocore <$> x = ocore <$> y →
    match x, y with
    | Some o, Some o' => o_data o = o_data o' ∧ o_pending o = o_pending o' ∧ o_dirty o = o_dirty o' ∧ o_origin o = o_origin o'
    | None, None => True
    | _, _ => False
    end.
  Proof. destruct x, y; simpl; try done. unfold ocore. by intros [= -> -> -> ->]. Qed.

  Lemma committed_eq j j' a o o' k :
    j_db j' = j_db j → (a ∈ j_destruct j' ↔ a ∈ j_destruct j) → o_pending o' = o_pending o →
    committed j' a o' k = committed j a o k.
  Proof.
    intros Hd Hx Hp. unfold committed, db_stor. rewrite Hp Hd. destruct (o_pending o !! k); [done|].
    by rewrite (bool_decide_ext _ _ Hx).
  Qed.

  Lemma committed_zero j a o k :
    o_pending o !! k = None → (a ∈ j_destruct j ∨ j_db j !! a = None) → committed j a o k = 0.
  Proof.
    intros Hp Hz. unfold committed, db_stor. rewrite Hp. case_bool_decide; [done|].
    destruct Hz as [?|Hz]; [done|by rewrite Hz].
  Qed.
End Fin.
