(* State/Ref.v — the REFERENCE account model for C13, and the vocabulary shared
   with the implementation model State/Journal.v (addresses, rules, ops, queries).

   The reference is deliberately naive: the state is a finite map of accounts
   plus transient storage, access list, refund and logs; [Snapshot] pushes a COPY
   of the whole revertible state, [RevertToSnapshot i] pops back to copy i,
   [Finalise] walks all accounts.  Nothing here is transcribed from
   core/state/journal.go; what IS taken from the code is the API surface (which
   calls exist, what they return, which calls count as "touching" an account for
   EIP-158/161) and the historical RIPEMD-160 exception (a touch of 0x03 survives
   a revert — consensus rule since block 1714175).

   Numbers: balances are uint256 (wrap mod 2^256 where uint256.Add/Sub wrap),
   refund is uint64 (AddRefund wraps), nonces are set, never incremented here.
   Code is a small id: 0 = no code; the harness maps id c>0 to a fixed byte string
   of length c, so the id stands for GetCode, GetCodeHash and GetCodeSize at once. *)
From stdpp Require Import gmap.
From Coq Require Import NArith ZArith.
From RecordUpdate Require Import RecordSet.
Import RecordSetNotations.
Local Open Scope N_scope.

Definition addr := N.
Definition slot := N.
Definition word := N.

Definition ripemd : addr := 3.
Definition W256 : N := 2 ^ 256.
Definition W64 : N := 2 ^ 64.

(* params.Rules, the four booleans the state layer looks at *)
Record rules := { r158 : bool; rAms : bool; r2929 : bool; rShanghai : bool }.

(* types.Log, projected *)
Record log := { l_th : N; l_ti : N; l_idx : N; l_addr : addr; l_data : N }.
Global Instance log_eq_dec : EqDecision log.
Proof. solve_decision. Defined.

(* The operations of a history: the public StateDB API calls, plus
   [OSelfDestruct6780] (the IsNewContract guard of vm.opSelfdestruct6780 around
   SelfDestruct) and [OTxStart] (SetTxContext + Prepare). *)
Inductive op :=
| OCreateAccount (a : addr)
| OCreateContract (a : addr)
| OAddBalance (a : addr) (v : word)
| OSubBalance (a : addr) (v : word)
| OSetBalance (a : addr) (v : word)
| OSetNonce (a : addr) (n : N)
| OSetCode (a : addr) (c : N)
| OSetState (a : addr) (k : slot) (v : word)
| OSetTransient (a : addr) (k : slot) (v : word)
| OSelfDestruct (a : addr)
| OSelfDestruct6780 (a : addr)
| OAddAddress (a : addr)
| OAddSlot (a : addr) (k : slot)
| OAddRefund (g : N)
| OSubRefund (g : N)
| OAddLog (a : addr) (d : N)
| OSnapshot
| ORevert (id : N)
| OFinalise (r : rules)
| OTxStart (th ti : N) (r : rules) (sender coinbase : addr) (dst : option addr)
           (al : list (addr * list slot)).

(* what a call returns to the caller, projected *)
Inductive out := RNone | RPanic | RId (id : N).

(* The observable getters. *)
Inductive query :=
| QExist (a : addr) | QEmpty (a : addr) | QBalance (a : addr) | QNonce (a : addr)
| QCode (a : addr)          (* GetCode / GetCodeSize: code id, 0 if none *)
| QCodeHash (a : addr)      (* GetCodeHash: 0 = common.Hash{} (no account), c+1 = hash of code id c *)
| QState (a : addr) (k : slot) | QCommitted (a : addr) (k : slot)
| QTransient (a : addr) (k : slot)
| QAddrInAL (a : addr) | QSlotInAL (a : addr) (k : slot)   (* slotPresent; addressPresent = QAddrInAL *)
| QRefund | QSelfDestructed (a : addr) | QNewContract (a : addr)
| QLogs (th : N).
Inductive answer := AB (b : bool) | AN (n : N) | AL (l : list log).

(* ------------------------------------------------------------------ *)
(* the committed pre-state (what state.Reader serves), shared by both models *)
Record acct := { a_nonce : N; a_bal : word; a_code : N }.
Global Instance eta_acct : Settable _ := settable! Build_acct <a_nonce; a_bal; a_code>.
Global Instance acct_eq_dec : EqDecision acct.
Proof. solve_decision. Defined.
Definition acct0 : acct := {| a_nonce := 0; a_bal := 0; a_code := 0 |}.
Definition acct_empty (x : acct) : bool :=
  (a_nonce x =? 0) && (a_bal x =? 0) && (a_code x =? 0).

Record dbacct := { d_acct : acct; d_stor : gmap slot word }.
Definition database := gmap addr dbacct.

Definition sget (m : gmap slot word) (k : slot) : word := default 0 (m !! k).

(* ------------------------------------------------------------------ *)
(* reference state *)
Record racct := {
  ra : acct;                       (* nonce, balance, code *)
  r_stor : gmap slot word;         (* current storage (absent = 0) *)
  r_cstor : gmap slot word;        (* storage at the start of the transaction *)
  r_new : bool;                    (* created as a contract in this transaction *)
  r_sd : bool                      (* self-destructed in this transaction *)
}.
Global Instance eta_racct : Settable _ := settable! Build_racct <ra; r_stor; r_cstor; r_new; r_sd>.
Definition racct0 : racct :=
  {| ra := acct0; r_stor := ∅; r_cstor := ∅; r_new := false; r_sd := false |}.

(* the part of the state a snapshot copies *)
Record rcore := {
  accts : gmap addr racct;
  touched : gset addr;             (* accounts touched in this transaction (EIP-161 sense) *)
  tstor : gmap (addr * slot) word; (* transient storage (absent = 0) *)
  al_a : gset addr;                (* access list *)
  al_s : gset (addr * slot);
  refund : N;
  logs : list log                  (* all logs of the block, oldest first *)
}.
Global Instance eta_rcore : Settable _ :=
  settable! Build_rcore <accts; touched; tstor; al_a; al_s; refund; logs>.

Record rstate := {
  r_cur : rcore;
  r_stack : list (N * rcore);      (* newest first: (revision id, copy) *)
  r_next : N;                      (* next revision id *)
  r_sticky : bool;                 (* RIPEMD-160 was touched in this tx (survives reverts) *)
  r_th : N; r_ti : N               (* SetTxContext *)
}.
Global Instance eta_rstate : Settable _ :=
  settable! Build_rstate <r_cur; r_stack; r_next; r_sticky; r_th; r_ti>.

Definition init_r (db : database) : rstate :=
  {| r_cur := {| accts := (λ d, {| ra := d_acct d; r_stor := d_stor d; r_cstor := d_stor d;
                                   r_new := false; r_sd := false |}) <$> db;
                 touched := ∅; tstor := ∅; al_a := ∅; al_s := ∅; refund := 0; logs := [] |};
     r_stack := []; r_next := 0; r_sticky := false; r_th := 0; r_ti := 0 |}.

(* ---- per-account helpers on the core ---- *)
Definition touch (a : addr) (c : rcore) : rcore := c <| touched ::= (λ t, {[a]} ∪ t) |>.

(* the account, created blank (and touched) if absent *)
Definition get_or_new (a : addr) (c : rcore) : rcore * racct :=
  match accts c !! a with
  | Some x => (c, x)
  | None => (touch a (c <| accts ::= <[a := racct0]> |>), racct0)
  end.

Definition put (a : addr) (x : racct) (c : rcore) : rcore :=
  touch a (c <| accts ::= <[a := x]> |>).

Definition tget (c : rcore) (a : addr) (k : slot) : word := default 0 (tstor c !! (a, k)).

Definition build_al (r : rules) (sender coinbase : addr) (dst : option addr)
           (l : list (addr * list slot)) : gset addr * gset (addr * slot) :=
  let a0 : gset addr := match dst with Some d => {[d]} ∪ ({[sender]} ∪ ∅) | None => {[sender]} ∪ ∅ end in
  let AS := foldl (λ (AS : gset addr * gset (addr * slot)) e,
                     (({[e.1]} ∪ AS.1 : gset addr),
                      foldl (λ (S : gset (addr * slot)) k, {[(e.1, k)]} ∪ S) AS.2 e.2))
                  (a0, ∅) l in
  (if rShanghai r then {[coinbase]} ∪ AS.1 else AS.1, AS.2).

(* end-of-transaction treatment of one account; None = the account is deleted *)
Definition fin_acct (r : rules) (is_touched : bool) (x : racct) : option racct :=
  if r_sd x then
    if rAms r && negb (a_bal (ra x) =? 0)
    then Some (racct0 <| ra := acct0 <| a_bal := a_bal (ra x) |> |>)   (* balance-only account *)
    else None
  else if r158 r && is_touched && acct_empty (ra x) then None
  else Some (x <| r_cstor := r_stor x |> <| r_new := false |>).

Definition rtouched (s : rstate) : gset addr :=
  if r_sticky s then {[ripemd]} ∪ touched (r_cur s) else touched (r_cur s).

(* operations that act on the current core only (journalled in the implementation) *)
Definition core_step (th ti : N) (c : rcore) (o : op) : rcore * out :=
  match o with
  | OCreateAccount a => (put a racct0 c, RNone)
  | OCreateContract a =>
      match accts c !! a with
      | None => (c, RPanic)
      | Some x => (c <| accts ::= <[a := x <| r_new := true |>]> |>, RNone)
      end
  | OAddBalance a v =>
      let '(c1, x) := get_or_new a c in
      if v =? 0 then ((if acct_empty (ra x) then touch a c1 else c1), RNone)
      else (put a (x <| ra ::= (λ y, y <| a_bal := (a_bal y + v) mod W256 |>) |>) c1, RNone)
  | OSubBalance a v =>
      let '(c1, x) := get_or_new a c in
      if v =? 0 then (c1, RNone)
      else (put a (x <| ra ::= (λ y, y <| a_bal := (a_bal y + W256 - v mod W256) mod W256 |>) |>) c1, RNone)
  | OSetBalance a v =>
      let '(c1, x) := get_or_new a c in (put a (x <| ra ::= (λ y, y <| a_bal := v |>) |>) c1, RNone)
  | OSetNonce a n =>
      let '(c1, x) := get_or_new a c in (put a (x <| ra ::= (λ y, y <| a_nonce := n |>) |>) c1, RNone)
  | OSetCode a cd =>
      let '(c1, x) := get_or_new a c in (put a (x <| ra ::= (λ y, y <| a_code := cd |>) |>) c1, RNone)
  | OSetState a k v =>
      let '(c1, x) := get_or_new a c in
      if sget (r_stor x) k =? v then (c1, RNone)
      else (put a (x <| r_stor ::= <[k := v]> |>) c1, RNone)
  | OSetTransient a k v =>
      if tget c a k =? v then (c, RNone)
      else (c <| tstor ::= (if v =? 0 then delete (a, k) else <[(a, k) := v]>) |>, RNone)
  | OSelfDestruct a =>
      match accts c !! a with
      | Some x => if r_sd x then (c, RNone) else (put a (x <| r_sd := true |>) c, RNone)
      | None => (c, RNone)
      end
  | OSelfDestruct6780 a =>
      match accts c !! a with
      | Some x => if r_new x && negb (r_sd x) then (put a (x <| r_sd := true |>) c, RNone) else (c, RNone)
      | None => (c, RNone)
      end
  | OAddAddress a => (c <| al_a ::= (λ s, {[a]} ∪ s) |>, RNone)
  | OAddSlot a k => (c <| al_a ::= (λ s, {[a]} ∪ s) |> <| al_s ::= (λ s, {[(a, k)]} ∪ s) |>, RNone)
  | OAddRefund g => (c <| refund := (refund c + g) mod W64 |>, RNone)
  | OSubRefund g => if refund c <? g then (c, RPanic) else (c <| refund := refund c - g |>, RNone)
  | OAddLog a d =>
      (c <| logs ::= (λ l, l ++ [{| l_th := th; l_ti := ti; l_idx := N.of_nat (length l);
                                    l_addr := a; l_data := d |}]) |>, RNone)
  | _ => (c, RNone)
  end.

Fixpoint find_rev (id : N) (st : list (N * rcore)) : option (rcore * list (N * rcore)) :=
  match st with
  | [] => None
  | (i, c) :: rest => if i =? id then Some (c, rest) else find_rev id rest
  end.

(* is this call the RIPEMD-160 zero-value touch? *)
Definition sticky_touch (c : rcore) (o : op) : bool :=
  match o with
  | OAddBalance a v =>
      (a =? ripemd) && (v =? 0) &&
      match accts c !! a with Some x => acct_empty (ra x) | None => true end
  | _ => false
  end.

Definition step_r (s : rstate) (o : op) : rstate * out :=
  match o with
  | OSnapshot =>
      (s <| r_stack ::= cons (r_next s, r_cur s) |> <| r_next ::= N.succ |>, RId (r_next s))
  | ORevert id =>
      match find_rev id (r_stack s) with
      | None => (s, RPanic)
      | Some (c, rest) => (s <| r_cur := c |> <| r_stack := rest |>, RNone)
      end
  | OFinalise r =>
      let t := rtouched s in
      let c := r_cur s in
      (s <| r_cur := c <| accts := map_imap (λ a x, fin_acct r (bool_decide (a ∈ t)) x) (accts c) |>
                       <| touched := ∅ |> <| refund := 0 |> |>
         <| r_stack := [] |> <| r_next := 0 |> <| r_sticky := false |>, RNone)
  | OTxStart th ti r sender coinbase dst l =>
      let c := r_cur s in
      let c1 := if r2929 r
                then let '(aa, ss) := build_al r sender coinbase dst l in c <| al_a := aa |> <| al_s := ss |>
                else c in
      (s <| r_cur := c1 <| tstor := ∅ |> |> <| r_th := th |> <| r_ti := ti |>, RNone)
  | _ =>
      let '(c, w) := core_step (r_th s) (r_ti s) (r_cur s) o in
      (s <| r_cur := c |> <| r_sticky := r_sticky s || sticky_touch (r_cur s) o |>, w)
  end.

(* ---- the observable getters of the reference ---- *)
Definition bool_N (b : bool) : N := if b then 1 else 0.

Definition query_c (c : rcore) (q : query) : answer :=
  let acc a := accts c !! a in
  match q with
  | QExist a => AB (bool_decide (is_Some (acc a)))
  | QEmpty a => AB (match acc a with Some x => acct_empty (ra x) | None => true end)
  | QBalance a => AN (match acc a with Some x => a_bal (ra x) | None => 0 end)
  | QNonce a => AN (match acc a with Some x => a_nonce (ra x) | None => 0 end)
  | QCode a => AN (match acc a with Some x => a_code (ra x) | None => 0 end)
  | QCodeHash a => AN (match acc a with Some x => a_code (ra x) + 1 | None => 0 end)
  | QState a k => AN (match acc a with Some x => sget (r_stor x) k | None => 0 end)
  | QCommitted a k => AN (match acc a with Some x => sget (r_cstor x) k | None => 0 end)
  | QTransient a k => AN (tget c a k)
  | QAddrInAL a => AB (bool_decide (a ∈ al_a c))
  | QSlotInAL a k => AB (bool_decide ((a, k) ∈ al_s c))
  | QRefund => AN (refund c)
  | QSelfDestructed a => AB (match acc a with Some x => r_sd x | None => false end)
  | QNewContract a => AB (match acc a with Some x => r_new x | None => false end)
  | QLogs th => AL (filter (λ l, l_th l = th) (logs c))
  end.

Definition query_r (s : rstate) (q : query) : answer := query_c (r_cur s) q.

Definition run_r (s : rstate) (ops : list op) : rstate := foldl (λ s o, (step_r s o).1) s ops.
