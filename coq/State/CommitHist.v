(* State/CommitHist.v — C14 proofs, part 4: the representation invariant over histories.

   [Sync p cs]: the invariant of a StateDB BETWEEN transactions (journal empty): the current
   account trie holds exactly the live objects of all addresses without an unapplied
   mutation; an unapplied mutation is a deletion iff the object is gone; every live
   object's storage trie (in memory or in the database under data.Root) holds the
   committed view, except at the keys of uncommittedStorage where it holds the value
   recorded there; uncommittedStorage keys are pending keys and imply an unapplied
   mutation; the committed pre-state j_db is served by the database under the origin roots.
   It is preserved by every transaction (journalled calls incl. arbitrary nested
   Snapshot/RevertToSnapshot, then Finalise under any rules) - by C15's forward
   reachability (State/BalProofs.v) - and by IntermediateRoot, after which it is [hashed]. *)
From Coq Require Import ssreflect.
From stdpp Require Import gmap.
From Coq Require Import NArith ZArith Lia.
From RecordUpdate Require Import RecordSet.
Import RecordSetNotations.
From GV Require Import State.Ref State.Journal State.JournalProofs State.BalProofs State.Commit State.CommitProofs State.CommitReopen.
Local Open Scope N_scope.

From GV Require Import Lib.Bytes Rlp.Item Rlp.Codec Trie.Hex Trie.Node Trie.Ops Trie.Hash Trie.OpsProofs Trie.Canon.
Definition ocore (o : sobj) := (o_data o, o_pending o, o_dirty o, o_origin o).

Lemma set_state_pending k v orig o : o_pending (set_state k v orig o) = o_pending o ∧ o_origin (set_state k v orig o) = o_origin o.
Proof. unfold set_state. destruct (v =? orig); by destruct o. Qed.

Local Ltac shape0 j := split; [destruct j; unf; rj; done|]; split; [destruct j; unf; rj; done|].
Local Ltac upd j a o' H :=
  shape0 j; right; exists a, o'; split; [destruct j; unf; rj; done|];
  split; [intros b Hb; assert (a ≠ b) by congruence; destruct j; unf; rj; simpl; rewrite ?lookup_insert_ne //|];
  rewrite H.

Lemma prim_shape j j1 : prim j j1 →
  j_db j1 = j_db j ∧ j_destruct j1 = j_destruct j ∧
  ((j_objs j1 = j_objs j ∧ j_muts j1 = j_muts j) ∨
   ∃ a o', j_objs j1 = <[a := o']> (j_objs j) ∧
     (∀ b, b ≠ a → j_muts j1 !! b = j_muts j !! b) ∧
     match j_objs j !! a with
     | Some o => o_origin o' = o_origin o ∧ o_pending o' = o_pending o ∧
                 (is_Some (j_muts j1 !! a) ∨ (j_muts j1 = j_muts j ∧ ocore o' = ocore o))
     | None => o_origin o' = None ∧ o_pending o' = ∅ ∧ is_Some (j_muts j1 !! a)
     end).
Proof.
  intros P. destruct P.
  - upd j a (new_object None) H. split; [done|]. split; [done|]. destruct j; unf; rj; simpl. by rewrite lookup_insert.
  - upd j a (o <| o_data ::= (λ d, d <| a_bal := v |>) |>) H.
    split; [by destruct o|]. split; [by destruct o|]. left. destruct j; unf; rj; simpl. by rewrite lookup_insert.
  - upd j a (o <| o_data ::= (λ d, d <| a_nonce := v |>) |>) H.
    split; [by destruct o|]. split; [by destruct o|]. left. destruct j; unf; rj; simpl. by rewrite lookup_insert.
  - upd j a (o <| o_data ::= (λ d, d <| a_code := v |>) |>) H.
    split; [by destruct o|]. split; [by destruct o|]. left. destruct j; unf; rj; simpl. by rewrite lookup_insert.
  - upd j a (set_state k v (committed j a o k) o) H.
    destruct (set_state_pending k v (committed j a o k) o) as [-> ->].
    split; [done|]. split; [done|]. left. destruct j; unf; rj; simpl. by rewrite lookup_insert.
  - upd j a (o <| o_sd := true |>) H.
    split; [by destruct o|]. split; [by destruct o|]. left. destruct j; unf; rj; simpl. by rewrite lookup_insert.
  - upd j a (o <| o_new := true |>) H.
    split; [by destruct o|]. split; [by destruct o|]. right. split; [destruct j; unf; rj; done|by destruct o].
  - unfold touch_change. rewrite bool_decide_false //.
    shape0 j. right. exists a, o. split; [rewrite insert_id //; destruct j; unf; rj; done|].
    split; [intros b Hb; assert (a ≠ b) by congruence; destruct j; unf; rj; simpl; rewrite ?lookup_insert_ne //|].
    rewrite H0. split; [done|]. split; [done|]. left. destruct j; unf; rj; simpl. by rewrite lookup_insert.
  - destruct H0 as (Hd & Ho & Hx & Hm). split; [done|]. split; [done|]. by left.
Qed.

(* ---- what holds of every state a transaction can be in, relative to its start ---- *)
Record Fr (s0 j : jstate) : Prop := {
  fr_db : j_db j = j_db s0;
  fr_destruct : j_destruct j = j_destruct s0;
  fr_pres : ∀ a, is_Some (j_objs s0 !! a) → is_Some (j_objs j !! a);
  fr_frame : ∀ a, j_muts j !! a = None → ocore <$> j_objs j !! a = ocore <$> j_objs s0 !! a;
  fr_pend : ∀ a o, j_objs j !! a = Some o → o_pending o = default ∅ (o_pending <$> j_objs s0 !! a);
  fr_origin : ∀ a o, j_objs j !! a = Some o → o_origin o = (j_objs s0 !! a) ≫= o_origin
}.

Lemma Fr_sem s0 j j' : sem_eq j j' → Fr s0 j → Fr s0 j'.
Proof.
  intros (Hd & Ho & Hx & Hm) [A1 A2 A3 A4 A5 A6]. split; rewrite -?Hd -?Hx -?Ho -?Hm //.
Qed.

Lemma Fr_refl s0 : Fr s0 s0.
Proof.
  split; try done.
  - intros a o ->. done.
  - intros a o ->. done.
Qed.

Lemma Fr_prim s0 j j1 : Fr s0 j → prim j j1 → Fr s0 j1.
Proof.
  intros [A1 A2 A3 A4 A5 A6] P. destruct (prim_shape j j1 P) as (Hd & Hx & [[Ho Hm]|(a & o' & Ho & Hm & Hc)]).
  { split; rewrite ?Hd ?Hx ?Ho ?Hm //. }
  split; rewrite ?Hd ?Hx //.
  - intros b Hb. rewrite Ho. destruct (decide (b = a)) as [->|Hne]; [by rewrite lookup_insert|].
    rewrite lookup_insert_ne //. by apply A3.
  - intros b Hb. rewrite Ho. destruct (decide (b = a)) as [->|Hne].
    + rewrite lookup_insert. destruct (j_objs j !! a) as [o|] eqn:Eo.
      * destruct Hc as (_ & _ & [Hs|[Hm' Hcore]]); [rewrite Hb in Hs; by destruct Hs|].
        rewrite Hm' in Hb. rewrite -(A4 a Hb) Eo /=. by rewrite Hcore.
      * destruct Hc as (_ & _ & Hs). rewrite Hb in Hs. by destruct Hs.
    + rewrite lookup_insert_ne //. apply A4. by rewrite -Hm.
  - intros b o. rewrite Ho. destruct (decide (b = a)) as [->|Hne].
    + rewrite lookup_insert. intros [= <-]. destruct (j_objs j !! a) as [o|] eqn:Eo.
      * destruct Hc as (_ & -> & _). by apply A5.
      * destruct Hc as (_ & -> & _). destruct (j_objs s0 !! a) eqn:E0; [|done].
        destruct (A3 a) as [x Hx']; [by rewrite E0|]. congruence.
    + rewrite lookup_insert_ne //. apply A5.
  - intros b o. rewrite Ho. destruct (decide (b = a)) as [->|Hne].
    + rewrite lookup_insert. intros [= <-]. destruct (j_objs j !! a) as [o|] eqn:Eo.
      * destruct Hc as (-> & _). by apply A6.
      * destruct Hc as (-> & _). destruct (j_objs s0 !! a) eqn:E0; [|done].
        destruct (A3 a) as [x Hx']; [by rewrite E0|]. congruence.
    + rewrite lookup_insert_ne //. apply A6.
Qed.

Lemma fwd_Fr s0 j : wfc s0 → Fwd s0 j → Fr s0 j.
Proof.
  intros W F. induction F as [j Hc|j j1 j' F IH P Hc].
  - eapply Fr_sem; [apply sem_eq_sym, Hc|apply Fr_refl].
  - eapply Fr_sem; [apply sem_eq_sym, Hc|]. by eapply Fr_prim.
Qed.
