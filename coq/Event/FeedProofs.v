(* Event/FeedProofs.v — lemmas about Event/Feed.v: the pure caseList functions,
   the state invariants of the interleaving model, and the trace theorems that
   Properties/C50.v restates. *)
From GV Require Import Lib.Tactics Lib.Interleave Event.Feed.
From Coq Require Import Permutation Sorted.

(* ------------------------------------------------------------------------- *)
(* Part 1: caseList *)
Section CaseListProofs.
  Context {A : Type}.
  Variable eqb : A -> A -> bool.
  Hypothesis eqb_eq : forall a b, eqb a b = true <-> a = b.

  Lemma cl_find_some cs c i :
    cl_find eqb cs c = Some i ->
    cs = firstn i cs ++ c :: skipn (S i) cs /\ i < length cs /\ ~ In c (firstn i cs).
  Proof.
    revert i. induction cs as [|x r IH]; intros i H; simpl in H; [discriminate|].
    destruct (eqb x c) eqn:E.
    - inversion H; subst. apply eqb_eq in E. subst. simpl. repeat split; auto. lia.
    - destruct (cl_find eqb r c) as [j|] eqn:F; simpl in H; [|discriminate].
      inversion H; subst. destruct (IH j eq_refl) as [H1 [H2 H3]].
      simpl. repeat split.
      + f_equal. exact H1.
      + lia.
      + intros [Hx|Hin]; [|contradiction].
        subst. assert (eqb c c = true) by (apply eqb_eq; reflexivity). congruence.
  Qed.

  Lemma cl_find_none cs c : cl_find eqb cs c = None <-> ~ In c cs.
  Proof.
    induction cs as [|x r IH]; simpl.
    - split; auto.
    - destruct (eqb x c) eqn:E.
      + apply eqb_eq in E. subst. split; [discriminate | intros H; exfalso; apply H; auto].
      + destruct (cl_find eqb r c) eqn:F; simpl.
        * split; [discriminate|]. intros H.
          assert (Hn : ~ In c r) by tauto. apply IH in Hn. discriminate.
        * split; auto. intros _ [Hx|Hin].
          -- subst. assert (eqb c c = true) by (apply eqb_eq; reflexivity). congruence.
          -- apply IH in Hin; auto.
  Qed.

  Lemma cl_find_in cs c : In c cs -> exists i, cl_find eqb cs c = Some i.
  Proof.
    intros H. destruct (cl_find eqb cs c) as [i|] eqn:F; eauto.
    apply cl_find_none in F. contradiction.
  Qed.

  Lemma cl_find_nth cs c i : cl_find eqb cs c = Some i -> nth_error cs i = Some c.
  Proof.
    intros H. destruct (cl_find_some _ _ _ H) as [H1 [H2 _]].
    rewrite H1. rewrite nth_error_app2; rewrite firstn_length_le by lia; [|lia].
    rewrite Nat.sub_diag. reflexivity.
  Qed.

  (* delete never panics on an index returned by find, removes exactly that
     element and keeps the order of the others *)
  Lemma cl_delete_find cs c i :
    cl_find eqb cs c = Some i ->
    exists a b, cs = a ++ c :: b /\ length a = i /\ ~ In c a /\
                cl_delete cs (Some i) = Some (a ++ b).
  Proof.
    intros H. destruct (cl_find_some _ _ _ H) as [H1 [H2 H3]].
    exists (firstn i cs), (skipn (S i) cs). repeat split; auto.
    - apply firstn_length_le. lia.
    - unfold cl_delete. destruct (i <? length cs) eqn:E; [reflexivity|lia].
  Qed.

  Lemma cl_delete_none_iff (cs : list A) idx :
    cl_delete cs idx = None <-> match idx with None => True | Some i => length cs <= i end.
  Proof.
    unfold cl_delete. destruct idx as [i|]; [|tauto].
    destruct (i <? length cs) eqn:E; split; intros; try discriminate; try lia; auto.
  Qed.

End CaseListProofs.

Section CaseListSwap.
  Context {A : Type}.

  Lemma length_upd (l : list A) i v : length (upd l i v) = length l.
  Proof. revert i. induction l; intros [|i]; simpl; auto. Qed.

  Lemma nth_error_upd (l : list A) i v j :
    nth_error (upd l i v) j =
    if Nat.eqb j i then (if i <? length l then Some v else None) else nth_error l j.
  Proof.
    revert i j. induction l as [|x r IH]; intros i j; simpl.
    - destruct (Nat.eqb j i); destruct j, i; reflexivity.
    - destruct i as [|i]; destruct j as [|j]; simpl; auto.
      rewrite IH. destruct (Nat.eqb j i); auto.
  Qed.

  Lemma perm_upd (r : list A) j y a :
    nth_error r j = Some y -> Permutation (y :: upd r j a) (a :: r).
  Proof.
    revert j. induction r as [|x r IH]; intros [|j] H; simpl in *; try discriminate.
    - inversion H; subst. apply perm_swap.
    - specialize (IH j H).
      eapply perm_trans; [apply perm_swap|].
      eapply perm_trans; [apply perm_skip; exact IH|]. apply perm_swap.
  Qed.

  Lemma perm_swap_upd (l : list A) i j x y :
    nth_error l i = Some x -> nth_error l j = Some y ->
    Permutation (upd (upd l i y) j x) l.
  Proof.
    revert i j. induction l as [|a r IH]; intros [|i] [|j] Hi Hj; simpl in *; try discriminate.
    - inversion Hi; inversion Hj; subst. subst. apply Permutation_refl.
    - inversion Hi; subst. apply perm_upd. exact Hj.
    - inversion Hj; subst. apply perm_upd. exact Hi.
    - apply perm_skip. apply IH; auto.
  Qed.

  Lemma last_split (l : list A) n x :
    length l = S n -> nth_error l n = Some x -> l = firstn n l ++ [x].
  Proof.
    intros Hl Hn. rewrite <- (firstn_skipn n l) at 1. f_equal.
    assert (Hs : length (skipn n l) = 1) by (rewrite skipn_length; lia).
    destruct (skipn n l) as [|y [|z t]] eqn:E; simpl in Hs; try lia.
    f_equal. rewrite <- (firstn_skipn n l) in Hn.
    rewrite nth_error_app2 in Hn; rewrite firstn_length_le in * by lia; [|lia].
    rewrite Nat.sub_diag, E in Hn. simpl in Hn. congruence.
  Qed.

  (* deactivate: the chosen case becomes the last element of the segment, the
     returned slice is the segment without it, nothing is lost or duplicated,
     and positions below min(index,last) are untouched *)
  Lemma cl_deactivate_spec (cs : list A) i pre whole :
    cl_deactivate cs i = Some (pre, whole) ->
    exists x, nth_error cs i = Some x /\ i < length cs /\
              whole = pre ++ [x] /\ S (length pre) = length cs /\
              Permutation whole cs /\
              (forall j, j < i -> nth_error whole j = nth_error cs j).
  Proof.
    unfold cl_deactivate. destruct (length cs) as [|last] eqn:Hl; [discriminate|].
    destruct (nth_error cs i) as [x|] eqn:Hi; [|discriminate].
    destruct (nth_error cs last) as [y|] eqn:Hy; [|discriminate].
    intros H. inversion H; subst; clear H.
    assert (Hil : i < length cs) by (apply nth_error_Some; congruence).
    set (w := upd (upd cs i y) last x).
    assert (Hlw : length w = S last) by (unfold w; rewrite !length_upd; auto).
    assert (Hnw : nth_error w last = Some x).
    { unfold w. rewrite nth_error_upd, Nat.eqb_refl, length_upd.
      destruct (last <? length cs) eqn:E; [reflexivity|lia]. }
    exists x. split; [reflexivity|]. split; [lia|]. split; [|split; [|split]].
    - apply last_split; auto.
    - rewrite firstn_length_le; lia.
    - unfold w. apply perm_swap_upd; auto.
    - intros j Hj. unfold w. rewrite !nth_error_upd.
      destruct (Nat.eqb j last) eqn:E1; [apply Nat.eqb_eq in E1; lia|].
      destruct (Nat.eqb j i) eqn:E2; [apply Nat.eqb_eq in E2; lia|]. reflexivity.
  Qed.

  Lemma cl_deactivate_some (cs : list A) i :
    i < length cs -> exists pre whole, cl_deactivate cs i = Some (pre, whole).
  Proof.
    intros H. unfold cl_deactivate. destruct (length cs) as [|last] eqn:Hl; [lia|].
    destruct (nth_error cs i) eqn:Hi; [|apply nth_error_None in Hi; lia].
    destruct (nth_error cs last) eqn:Hy; [|apply nth_error_None in Hy; lia].
    eauto.
  Qed.

  Lemma cl_deactivate_none_iff (cs : list A) i : cl_deactivate cs i = None <-> length cs <= i.
  Proof.
    split.
    - intros H. destruct (Nat.lt_ge_cases i (length cs)) as [Hlt|]; auto.
      destruct (cl_deactivate_some _ _ Hlt) as [p [w E]]. congruence.
    - intros H. unfold cl_deactivate. destruct (length cs) as [|last] eqn:Hl; auto.
      destruct (nth_error cs i) eqn:Hi; auto.
      assert (i < length cs) by (apply nth_error_Some; congruence). lia.
  Qed.
End CaseListSwap.

(* ------------------------------------------------------------------------- *)
(* Part 2: list facts used by the feed invariants *)

Lemma ch_eqb_eq a b : ch_eqb a b = true <-> a = b.
Proof.
  destruct a as [|x], b as [|y]; simpl; split; intros H; try discriminate; auto.
  - apply Nat.eqb_eq in H. subst. reflexivity.
  - inversion H. apply Nat.eqb_refl.
Qed.

Lemma nth_firstn {A} (l : list A) k i : i < k -> nth_error (firstn k l) i = nth_error l i.
Proof.
  revert k i. induction l as [|x r IH]; intros [|k] [|i] H; simpl; auto; try lia.
  apply IH. lia.
Qed.

Lemma firstn_len_app {A} (a b : list A) : firstn (length a) (a ++ b) = a.
Proof. induction a; simpl; auto. f_equal. auto. Qed.

Lemma skipn_len_app {A} (a b : list A) : skipn (length a) (a ++ b) = b.
Proof. induction a; simpl; auto. Qed.

(* caselist_inv, deactivate half: on the shared array, deactivating case i of the
   prefix cases = sendCases[:k] moves it to position k-1 (the head of the inactive
   suffix), keeps sendCases a permutation, leaves the suffix and index 0 alone *)
Lemma deact_spec sc k i sc' k' :
  deact sc k i = Some (sc', k') -> k <= length sc ->
  exists x pre, nth_error sc i = Some x /\ i < k /\ S k' = k /\ length pre = k' /\
     sc' = pre ++ x :: skipn k sc /\ Permutation (pre ++ [x]) (firstn k sc) /\
     (forall j, j < i -> nth_error sc' j = nth_error sc j).
Proof.
  unfold deact. destruct (cl_deactivate (firstn k sc) i) as [[pre whole]|] eqn:E; [|discriminate].
  intros H Hk. inversion H; subst; clear H.
  destruct (cl_deactivate_spec _ _ _ _ E) as [x [H1 [H2 [H3 [H4 [H5 H6]]]]]].
  rewrite firstn_length_le in * by lia.
  exists x, pre. rewrite nth_firstn in H1 by lia. subst whole.
  repeat split; auto; try lia.
  - rewrite <- app_assoc. reflexivity.
  - intros j Hj. rewrite nth_error_app1 by (rewrite app_length; simpl; lia).
    rewrite H6 by lia. apply nth_firstn. lia.
Qed.

Lemma deact_some sc k i : i < k -> k <= length sc -> exists r, deact sc k i = Some r.
Proof.
  intros Hi Hk. unfold deact.
  destruct (cl_deactivate_some (firstn k sc) i) as [p [w E]].
  - rewrite firstn_length_le; lia.
  - rewrite E. eauto.
Qed.

Lemma deact_perm sc k i sc' k' :
  deact sc k i = Some (sc', k') -> k <= length sc -> Permutation sc' sc.
Proof.
  intros H Hk. destruct (deact_spec _ _ _ _ _ H Hk) as [x [pre [_ [_ [_ [_ [E [P _]]]]]]]].
  subst sc'. rewrite <- (firstn_skipn k sc) at 2.
  change (x :: skipn k sc) with ([x] ++ skipn k sc). rewrite app_assoc.
  apply Permutation_app_tail. exact P.
Qed.

(* caselist_inv, delete half: removing the (unique) occurrence of c at index j from
   sendCases and adjusting len(cases) exactly as feed.go:164-167 does keeps both the
   active prefix and the inactive suffix sub-lists of what they were *)
Definition adj (j k : nat) : nat := if j <? k then k - 1 else k.

Lemma delete_firstn {A} (a b : list A) c k y :
  In y (firstn (adj (length a) k) (a ++ b)) -> In y (firstn k (a ++ c :: b)).
Proof.
  unfold adj. rewrite !firstn_app. destruct (length a <? k) eqn:E.
  - assert (Hk : k - length a = S (k - 1 - length a)) by lia. rewrite Hk. simpl.
    rewrite (@firstn_all2 _ (k - 1) a), (@firstn_all2 _ k a) by lia.
    rewrite !in_app_iff. simpl. tauto.
  - assert (Hk : k - length a = 0) by lia. rewrite Hk. simpl. auto.
Qed.

Lemma delete_skipn {A} (a b : list A) c k y :
  In y (skipn (adj (length a) k) (a ++ b)) -> In y (skipn k (a ++ c :: b)).
Proof.
  unfold adj. rewrite !skipn_app. destruct (length a <? k) eqn:E.
  - assert (Hk : k - length a = S (k - 1 - length a)) by lia. rewrite Hk. simpl.
    rewrite (@skipn_all2 _ (k - 1) a), (@skipn_all2 _ k a) by lia. simpl. auto.
  - assert (Hk : k - length a = 0) by lia. rewrite Hk. simpl.
    rewrite !in_app_iff. simpl. tauto.
Qed.

Lemma in_delete {A} (a b : list A) c y :
  NoDup (a ++ c :: b) -> (In y (a ++ b) <-> In y (a ++ c :: b) /\ y <> c).
Proof.
  intros ND. apply NoDup_remove in ND. destruct ND as [_ Hn].
  rewrite !in_app_iff in *. simpl. split.
  - intros H. split; [tauto|]. intros ->. tauto.
  - intros [[H|[H|H]] Hne]; auto. congruence.
Qed.

Lemma nodup_hd_unique sc i :
  NoDup sc -> hd_error sc = Some RemoveSub -> nth_error sc i = Some RemoveSub -> i = 0.
Proof.
  intros ND Hh Hi. destruct sc as [|x r]; [discriminate|]. simpl in Hh. inversion Hh; subst.
  destruct i as [|i]; auto. simpl in Hi. apply nth_error_In in Hi.
  inversion ND; subst. contradiction.
Qed.

Lemma strongly_sorted_snoc l m :
  StronglySorted lt l -> (forall x, In x l -> x < m) -> StronglySorted lt (l ++ [m]).
Proof.
  induction 1 as [|a l Hs IH Hf]; intros Hlt; simpl.
  - constructor; constructor.
  - constructor.
    + apply IH. intros x Hx. apply Hlt. right. auto.
    + apply Forall_app. split; auto. constructor; auto. apply Hlt. left. auto.
Qed.

Lemma strongly_sorted_nodup l : StronglySorted lt l -> NoDup l.
Proof.
  induction 1 as [|a l Hs IH Hf]; constructor; auto.
  intros Hin. rewrite Forall_forall in Hf. specialize (Hf a Hin). lia.
Qed.

(* a occurs strictly before b in l *)
Definition before (a b : nat) (l : list nat) : Prop :=
  exists l1 l2 l3, l = l1 ++ a :: l2 ++ b :: l3.

Lemma sorted_before_lt l a b : StronglySorted lt l -> before a b l -> a < b.
Proof.
  intros Hs [l1 [l2 [l3 E]]]. subst l. revert Hs. induction l1 as [|x l1 IH]; simpl; intros Hs.
  - inversion Hs as [|? ? _ Hf]; subst. rewrite Forall_forall in Hf. apply Hf.
    apply in_app_iff. right. left. auto.
  - inversion Hs; subst. auto.
Qed.

Lemma sorted_lt_before l a b :
  StronglySorted lt l -> In a l -> In b l -> a < b -> before a b l.
Proof.
  induction 1 as [|x l Hs IH Hf]; intros Ha Hb Hlt; [contradiction|].
  rewrite Forall_forall in Hf. destruct Ha as [Ha|Ha].
  - subst x. destruct Hb as [Hb|Hb]; [lia|].
    apply in_split in Hb. destruct Hb as [l2 [l3 E]]. exists [], l2, l3. simpl. f_equal. exact E.
  - destruct Hb as [Hb|Hb].
    + subst x. specialize (Hf a Ha). lia.
    + destruct (IH Ha Hb Hlt) as [l1 [l2 [l3 E]]]. exists (x :: l1), l2, l3. simpl. f_equal. exact E.
Qed.

(* ------------------------------------------------------------------------- *)
(* Part 3: structural invariant of the feed state *)

Definition phase_ok (ph : phase) (k : nat) : Prop :=
  match ph with
  | PMerge => True
  | PTry i => 1 <= i < k
  | PSelect => 1 < k
  | PDone => k = 1
  end.

Definition mem (st : state) (c : ch) : Prop := In c (inbox st ++ sendCases st).

Record inv1 (st : state) : Prop := {
  i_np : panicked st = false;
  i_hd : hd_error (sendCases st) = Some RemoveSub;
  i_nd : NoDup (inbox st ++ sendCases st);
  i_fresh : forall s, ustate st s = UFresh -> ~ mem st (Sub s) /\ delivered st s = [];
  i_done : forall s, ustate st s = UDone -> ~ mem st (Sub s);
  i_missed : forall s, ustate st s = UMissed -> In (Sub s) (sendCases st);
  i_active : forall s, ustate st s = UActive -> mem st (Sub s);
  i_hun : forall s, lock st = HUnsub s -> ustate st s = UMissed;
  i_all : forall s, In s (allsubs st) <-> ustate st s <> UFresh;
  i_alln : NoDup (allsubs st);
  i_send : forall ss, lock st = HSend ss ->
             nextseq st = S (s_seq ss) /\
             (s_phase ss <> PMerge -> 1 <= s_k ss <= length (sendCases st)) /\
             phase_ok (s_phase ss) (s_k ss) }.

Lemma next_phase_ok ni k : 1 <= ni -> 1 <= k -> phase_ok (next_phase ni k) k.
Proof.
  intros H1 H2. unfold next_phase. destruct (ni <? k) eqn:E1; simpl; [lia|].
  destruct (k =? 1) eqn:E2; simpl; lia.
Qed.

Lemma next_phase_not_merge ni k : next_phase ni k <> PMerge.
Proof. unfold next_phase. destruct (ni <? k); [discriminate|]. destruct (k =? 1); discriminate. Qed.

Lemma inv1_init : inv1 init.
Proof.
  constructor; simpl; unfold mem; simpl; auto; try discriminate.
  - constructor; [intros []|constructor].
  - intros s _. split; auto. intros [H|[]]. discriminate.
  - intros s. split; [intros []|]. intros H. contradiction.
  - constructor.
Qed.

Ltac inv_some H :=
  repeat match type of H with
  | match ?x with _ => _ end = Some _ =>
      let E := fresh "E" in destruct x eqn:E; try discriminate H
  end;
  try (inversion H; subst; clear H).

Ltac fupd_cases x s :=
  unfold fupd in *; destruct (Nat.eqb_spec x s); subst; try congruence.

Lemma mem_sendcases st c : In c (sendCases st) -> mem st c.
Proof. unfold mem. rewrite in_app_iff. auto. Qed.

Lemma removesub_in st : inv1 st -> In RemoveSub (sendCases st).
Proof.
  intros I. pose proof (i_hd _ I) as H. destruct (sendCases st); [discriminate|].
  simpl in H. inversion H. left. auto.
Qed.

Lemma sub_allsubs st s : inv1 st -> mem st (Sub s) -> In s (allsubs st).
Proof.
  intros I H. apply (i_all _ I). intros F. apply (i_fresh _ I) in F. tauto.
Qed.

Lemma subscribe_inv1 st s cap st' : inv1 st -> do_subscribe st s cap = Some st' -> inv1 st'.
Proof.
  intros I H. unfold do_subscribe in H. inv_some H.
  pose proof (i_fresh _ I s E) as [Hnm Hd]. unfold mem in *.
  constructor; simpl; unfold mem; simpl; try apply I.
  - rewrite <- app_assoc. simpl.
    apply (proj2 (NoDup_Add (Add_app (Sub s) (inbox st) (sendCases st)))).
    split; [apply I | exact Hnm].
  - intros x Hx. fupd_cases x s. destruct (i_fresh _ I x Hx) as [H1 H2]. split.
    + unfold mem in H1. rewrite !in_app_iff in *. simpl. intros [[H|[H|[]]]|H]; try tauto. congruence.
    + unfold delivered in *. simpl. destruct (Nat.eqb_spec x s); [congruence|]. exact H2.
  - intros x Hx. fupd_cases x s. pose proof (i_done _ I x Hx) as H1. unfold mem in H1.
    rewrite !in_app_iff in *. simpl. intros [[H|[H|[]]]|H]; try tauto. congruence.
  - intros x Hx. fupd_cases x s. apply (i_missed _ I x Hx).
  - intros x Hx. rewrite !in_app_iff. simpl. fupd_cases x s; [tauto|].
    pose proof (i_active _ I x Hx) as H1. unfold mem in H1. rewrite in_app_iff in H1. tauto.
  - intros x Hx. pose proof (i_hun _ I x Hx). fupd_cases x s.
  - intros x. rewrite in_app_iff. simpl. fupd_cases x s.
    + split; [discriminate | auto].
    + rewrite (i_all _ I x). split; [intros [H|[H|[]]]; auto; congruence | auto].
  - apply (proj2 (NoDup_Add (Add_app s (allsubs st) []))). rewrite app_nil_r.
    split; [apply I|]. rewrite (i_all _ I s). tauto.
Qed.

Lemma inv1_frame st st' :
  inv1 st -> panicked st' = false -> hd_error (sendCases st') = Some RemoveSub ->
  Permutation (inbox st' ++ sendCases st') (inbox st ++ sendCases st) ->
  (forall c, In c (sendCases st) -> In c (sendCases st')) ->
  ustate st' = ustate st -> allsubs st' = allsubs st ->
  (forall s, ustate st s = UFresh -> delivered st' s = []) ->
  (forall s, lock st' = HUnsub s -> ustate st s = UMissed) ->
  (forall ss, lock st' = HSend ss ->
     nextseq st' = S (s_seq ss) /\
     (s_phase ss <> PMerge -> 1 <= s_k ss <= length (sendCases st')) /\
     phase_ok (s_phase ss) (s_k ss)) ->
  inv1 st'.
Proof.
  intros I Hp Hh HP Hsc Hu Ha Hd Hl Hs.
  assert (Hm : forall c, mem st' c <-> mem st c).
  { intros c. unfold mem. split; apply Permutation_in; [exact HP | apply Permutation_sym; exact HP]. }
  constructor; auto; try rewrite Hu; try rewrite Ha; try apply I.
  - eapply Permutation_NoDup; [apply Permutation_sym; exact HP | apply I].
  - intros s F. split; [rewrite Hm; apply (i_fresh _ I s F) | auto].
  - intros s F. rewrite Hm. apply (i_done _ I s F).
  - intros s F. apply Hsc. apply (i_missed _ I s F).
  - intros s F. rewrite Hm. apply (i_active _ I s F).
  - exact Hl.
Qed.

Ltac fresh_same I := let s := fresh "s" in let F := fresh "F" in
  intros s F; apply (i_fresh _ I s F).

Lemma acquire_inv1 st t st' : inv1 st -> do_acquire st t = Some st' -> inv1 st'.
Proof.
  intros I H. unfold do_acquire in H. inv_some H.
  apply (inv1_frame st); simpl;
    [exact I | apply I | apply I | apply Permutation_refl | auto | auto | auto
    | fresh_same I | discriminate | ].
  intros ss F. inversion F; subst; simpl. repeat split; auto; congruence.
Qed.

Lemma merge_inv1 st t st' : inv1 st -> do_merge st t = Some st' -> inv1 st'.
Proof.
  intros I H. unfold do_merge in H. inv_some H.
  pose proof (i_hd _ I) as Hh. pose proof (i_send _ I _ E) as [Hn _].
  apply (inv1_frame st); simpl;
    [exact I | apply I | | apply Permutation_app_comm | | auto | auto
    | fresh_same I | discriminate | ].
  - destruct (sendCases st); [discriminate|]. exact Hh.
  - intros c Hc. apply in_app_iff. auto.
  - intros ss' F. inversion F; subst; simpl. split; [exact Hn|].
    assert (1 <= length (sendCases st ++ inbox st)).
    { rewrite app_length. destruct (sendCases st); [discriminate|]. simpl. lia. }
    split; [lia|]. apply next_phase_ok; lia.
Qed.

Lemma release_inv1 st t st' : inv1 st -> do_release st t = Some st' -> inv1 st'.
Proof.
  intros I H. unfold do_release in H. inv_some H.
  apply (inv1_frame st); simpl;
    [exact I | apply I | apply I | apply Permutation_refl | auto | auto | auto
    | fresh_same I | discriminate | discriminate ].
Qed.

Lemma unsub_acquire_inv1 st s st' : inv1 st -> do_unsub_acquire st s = Some st' -> inv1 st'.
Proof.
  intros I H. unfold do_unsub_acquire in H. inv_some H.
  apply (inv1_frame st); simpl;
    [exact I | apply I | apply I | apply Permutation_refl | auto | auto | auto
    | fresh_same I | | discriminate ].
  intros x F. inversion F; subst. auto.
Qed.

Lemma recv_inv1 st s st' : inv1 st -> do_recv st s = Some st' -> inv1 st'.
Proof.
  intros I H. unfold do_recv in H. inv_some H.
  apply (inv1_frame st); simpl;
    [exact I | apply I | apply I | apply Permutation_refl | auto | auto | auto
    | | apply I | apply I ].
  intros x F. destruct (i_fresh _ I x F) as [_ Hd]. unfold delivered in *. simpl.
  fupd_cases x s. simpl. rewrite E in Hd. destruct (c_recvd (chans st s)); discriminate.
Qed.

Lemma hd_error_nth {A} (l : list A) : hd_error l = nth_error l 0.
Proof. destruct l; reflexivity. Qed.

Lemma deliver_spec c m d c' :
  deliver c m d = Some c' ->
  c_recvd c' ++ c_queue c' = (c_recvd c ++ c_queue c) ++ [m] /\ c_cap c' = c_cap c.
Proof.
  unfold deliver. destruct d.
  - destruct (c_queue c) eqn:E; [|discriminate]. intros H. inversion H; subst; simpl.
    rewrite !app_nil_r. auto.
  - destruct (length (c_queue c) <? c_cap c); [|discriminate]. intros H. inversion H; subst; simpl.
    rewrite app_assoc. auto.
Qed.

Lemma nodup_app_r {A} (a b : list A) : NoDup (a ++ b) -> NoDup b.
Proof. induction a; simpl; auto. intros H. inversion H; auto. Qed.

Lemma inv1_nodup_sc st : inv1 st -> NoDup (sendCases st).
Proof. intros I. eapply nodup_app_r. apply I. Qed.

Lemma case_at_spec sc k i c : case_at sc k i = Some c -> i < k /\ nth_error sc i = Some c.
Proof. unfold case_at. destruct (i <? k) eqn:E; [|discriminate]. intros H. split; [lia|auto]. Qed.

Lemma case_at_sub st ss i :
  inv1 st -> lock st = HSend ss -> s_phase ss <> PMerge -> 1 <= i < s_k ss ->
  exists s, case_at (sendCases st) (s_k ss) i = Some (Sub s).
Proof.
  intros I L P Hi. destruct (i_send _ I _ L) as [_ [Hk _]]. specialize (Hk P).
  unfold case_at. destruct (i <? s_k ss) eqn:E; [|lia].
  destruct (nth_error (sendCases st) i) as [[|s]|] eqn:N.
  - apply nodup_hd_unique in N; [lia | apply inv1_nodup_sc; auto | apply I].
  - eauto.
  - apply nth_error_None in N. lia.
Qed.

Lemma sent_inv1 st ss s i ni direct st' :
  inv1 st -> lock st = HSend ss -> s_phase ss <> PMerge ->
  case_at (sendCases st) (s_k ss) i = Some (Sub s) -> 1 <= i -> 1 <= ni ->
  sent st ss s i ni direct = Some st' -> inv1 st'.
Proof.
  intros I L P C Hi Hni H. apply case_at_spec in C. destruct C as [Hik Hnth].
  destruct (i_send _ I _ L) as [Hn [Hk _]]. specialize (Hk P).
  unfold sent in H. destruct (deliver (chans st s) (s_seq ss) direct) as [c'|] eqn:D; [|discriminate].
  destruct (deact_some (sendCases st) (s_k ss) i) as [[sc' k'] Ed]; [lia|lia|].
  rewrite Ed in H. inversion H; subst; clear H.
  pose proof (deact_perm _ _ _ _ _ Ed (proj2 Hk)) as HP.
  destruct (deact_spec _ _ _ _ _ Ed (proj2 Hk)) as [x [pre [_ [_ [Hk' [_ [_ [_ H0]]]]]]]].
  apply (inv1_frame st); simpl;
    [exact I | apply I | | apply Permutation_app_head; exact HP | | auto | auto | | discriminate | ].
  - rewrite hd_error_nth, H0 by lia. rewrite <- hd_error_nth. apply I.
  - intros c Hc. eapply Permutation_in; [apply Permutation_sym; exact HP | exact Hc].
  - intros x0 F. destruct (i_fresh _ I x0 F) as [Hnm Hd]. unfold delivered in *. simpl.
    fupd_cases x0 s. exfalso. apply Hnm. apply mem_sendcases. eapply nth_error_In; eauto.
  - intros ss' F. inversion F; subst; simpl. split; [exact Hn|].
    apply Permutation_length in HP. split; [lia|]. apply next_phase_ok; lia.
Qed.

Lemma try_inv1 st t r st' : inv1 st -> do_try st t r = Some st' -> inv1 st'.
Proof.
  intros I H. unfold do_try in H.
  destruct (lock st) as [|ss|] eqn:L; try discriminate.
  destruct (s_phase ss) as [|i| |] eqn:P; try discriminate.
  destruct (Nat.eqb (s_tid ss) t) eqn:T; [|discriminate].
  destruct (i_send _ I _ L) as [Hn [Hk Hp]]. rewrite P in *. simpl in Hp.
  assert (Pm : PTry i <> PMerge) by discriminate. specialize (Hk Pm).
  destruct (case_at_sub st ss i I L) as [s C]; [congruence|lia|].
  rewrite C in H. destruct r as [direct|].
  - apply (sent_inv1 st ss s i i direct st' I L); [congruence | exact C | lia | lia | exact H].
  - destruct (c_cap (chans st s) <=? length (c_queue (chans st s))); [|discriminate].
    inversion H; subst; clear H.
    apply (inv1_frame st); simpl;
      [exact I | apply I | apply I | apply Permutation_refl | auto | auto | auto
      | fresh_same I | discriminate | ].
    intros ss' F. inversion F; subst; simpl. split; [exact Hn|]. split; [lia|].
    apply next_phase_ok; lia.
Qed.

Lemma select_send_inv1 st t chosen direct st' :
  inv1 st -> do_select_send st t chosen direct = Some st' -> inv1 st'.
Proof.
  intros I H. unfold do_select_send in H.
  destruct (lock st) as [|ss|] eqn:L; try discriminate.
  destruct (s_phase ss) eqn:P; try discriminate.
  destruct (Nat.eqb (s_tid ss) t && negb (Nat.eqb chosen 0)) eqn:T; [|discriminate].
  apply andb_true_iff in T. destruct T as [_ T]. apply negb_true_iff, Nat.eqb_neq in T.
  destruct (case_at (sendCases st) (s_k ss) chosen) as [[|s]|] eqn:C; try discriminate.
  - exfalso. apply case_at_spec in C. destruct C as [_ C].
    apply nodup_hd_unique in C; [lia | apply inv1_nodup_sc; auto | apply I].
  - apply (sent_inv1 st ss s chosen 1 direct st' I L); [congruence | exact C | lia | lia | exact H].
Qed.

(* frame for the three steps that complete an Unsubscribe of s *)
Lemma inv1_remove st st' s :
  inv1 st -> ustate st s <> UFresh -> panicked st' = false ->
  hd_error (sendCases st') = Some RemoveSub ->
  NoDup (inbox st' ++ sendCases st') ->
  (forall c, mem st' c <-> mem st c /\ c <> Sub s) ->
  (forall c, In c (sendCases st) -> c <> Sub s -> In c (sendCases st')) ->
  ustate st' = fupd (ustate st) s UDone -> allsubs st' = allsubs st ->
  (forall x, delivered st' x = delivered st x) ->
  (forall x, lock st' = HUnsub x -> x <> s /\ ustate st x = UMissed) ->
  (forall ss, lock st' = HSend ss ->
     nextseq st' = S (s_seq ss) /\
     (s_phase ss <> PMerge -> 1 <= s_k ss <= length (sendCases st')) /\
     phase_ok (s_phase ss) (s_k ss)) ->
  inv1 st'.
Proof.
  intros I Hs Hp Hh Hnd Hm Hsc Hu Ha Hd Hl Hsend.
  constructor; auto; try rewrite Hu; try rewrite Ha; try apply I.
  - intros x F. fupd_cases x s. destruct (i_fresh _ I x F) as [H1 H2].
    split; [rewrite Hm; tauto | rewrite Hd; auto].
  - intros x F. rewrite Hm. fupd_cases x s; [tauto|]. pose proof (i_done _ I x F). tauto.
  - intros x F. fupd_cases x s. apply Hsc; [apply (i_missed _ I x F) | congruence].
  - intros x F. fupd_cases x s. rewrite Hm. split; [apply (i_active _ I x F) | congruence].
  - intros x F. destruct (Hl x F) as [H1 H2]. fupd_cases x s.
  - intros x. rewrite (i_all _ I x). fupd_cases x s; [|tauto]. split; [discriminate | auto].
Qed.

Lemma sub_not_hd sc a b s :
  hd_error sc = Some RemoveSub -> sc = a ++ Sub s :: b ->
  hd_error (a ++ b) = Some RemoveSub /\ 1 <= length a.
Proof.
  intros Hh E. subst sc. destruct a as [|x a]; simpl in *; [discriminate|]. split; [auto|lia].
Qed.

Lemma select_remove_inv1 st t s st' : inv1 st -> do_select_remove st t s = Some st' -> inv1 st'.
Proof.
  intros I H. unfold do_select_remove in H.
  destruct (lock st) as [|ss|] eqn:L; try discriminate.
  destruct (s_phase ss) eqn:P; try discriminate.
  destruct (ustate st s) eqn:U; try discriminate.
  destruct (Nat.eqb (s_tid ss) t) eqn:T; [|discriminate].
  pose proof (i_missed _ I s U) as Hin.
  destruct (cl_find_in ch_eqb ch_eqb_eq _ _ Hin) as [j F]. rewrite F in H.
  destruct (cl_delete_find ch_eqb ch_eqb_eq _ _ _ F) as [a [b [Esc [Hj [_ Ed]]]]].
  rewrite Ed in H. inversion H; subst st'; clear H.
  destruct (sub_not_hd _ _ _ _ (i_hd _ I) Esc) as [Hh Ha].
  destruct (i_send _ I _ L) as [Hn [Hk Hp]]. rewrite P in *. simpl in Hp.
  assert (Pm : PSelect <> PMerge) by discriminate. specialize (Hk Pm).
  pose proof (i_nd _ I) as ND. rewrite Esc, app_assoc in ND.
  apply (inv1_remove st _ s I); simpl;
    [congruence | apply I | exact Hh | | | | reflexivity | reflexivity | reflexivity | discriminate | ].
  - rewrite app_assoc. eapply NoDup_remove_1; eauto.
  - intros c. unfold mem; simpl. rewrite Esc, !app_assoc. apply in_delete. exact ND.
  - intros c Hc Hne. rewrite Esc in Hc. rewrite in_app_iff in *. simpl in Hc.
    destruct Hc as [Hc|[Hc|Hc]]; auto. congruence.
  - intros ss' F'. inversion F'; subst ss'; simpl. split; [exact Hn|].
    assert (Hlen : length (sendCases st) = S (length (a ++ b))).
    { rewrite Esc, !app_length. simpl. lia. }
    assert (Hk' : 1 <= (if length a <? s_k ss then s_k ss - 1 else s_k ss) <= length (a ++ b)).
    { destruct (length a <? s_k ss) eqn:E'; [lia|]. rewrite app_length. lia. }
    rewrite Hj in Hk'. split; [intros _; exact Hk'|]. apply next_phase_ok; lia.
Qed.

Lemma unsub_delete_inv1 st s st' : inv1 st -> do_unsub_delete st s = Some st' -> inv1 st'.
Proof.
  intros I H. unfold do_unsub_delete in H.
  destruct (lock st) as [| |s0] eqn:L; try discriminate.
  destruct (Nat.eqb_spec s0 s); [subst s0|discriminate].
  pose proof (i_hun _ I s L) as U. pose proof (i_missed _ I s U) as Hin.
  destruct (cl_find_in ch_eqb ch_eqb_eq _ _ Hin) as [j F]. rewrite F in H.
  destruct (cl_delete_find ch_eqb ch_eqb_eq _ _ _ F) as [a [b [Esc [Hj [_ Ed]]]]].
  rewrite Ed in H. inversion H; subst st'; clear H.
  destruct (sub_not_hd _ _ _ _ (i_hd _ I) Esc) as [Hh Ha].
  pose proof (i_nd _ I) as ND. rewrite Esc, app_assoc in ND.
  apply (inv1_remove st _ s I); simpl;
    [congruence | apply I | exact Hh | | | | reflexivity | reflexivity | reflexivity | discriminate | discriminate ].
  - rewrite app_assoc. eapply NoDup_remove_1; eauto.
  - intros c. unfold mem; simpl. rewrite Esc, !app_assoc. apply in_delete. exact ND.
  - intros c Hc Hne. rewrite Esc in Hc. rewrite in_app_iff in *. simpl in Hc.
    destruct Hc as [Hc|[Hc|Hc]]; auto. congruence.
Qed.

Lemma unsub_check_inv1 st s st' : inv1 st -> do_unsub_check st s = Some st' -> inv1 st'.
Proof.
  intros I H. unfold do_unsub_check in H.
  destruct (ustate st s) eqn:U; try discriminate.
  destruct (cl_find ch_eqb (inbox st) (Sub s)) as [j|] eqn:F.
  - destruct (cl_delete_find ch_eqb ch_eqb_eq _ _ _ F) as [a [b [Eib [Hj [_ Ed]]]]].
    rewrite Ed in H. inversion H; subst st'; clear H.
    pose proof (i_nd _ I) as ND. rewrite Eib, <- app_assoc in ND. simpl in ND.
    apply (inv1_remove st _ s I); simpl;
      [congruence | apply I | apply I | | | auto | reflexivity | reflexivity | reflexivity | | ].
    + rewrite <- app_assoc. eapply NoDup_remove_1; eauto.
    + intros c. unfold mem; simpl. rewrite Eib, <- !app_assoc. simpl. apply in_delete. exact ND.
    + intros x Hx. split; [|apply (i_hun _ I x Hx)]. intros ->.
      pose proof (i_hun _ I s Hx). congruence.
    + intros ss Hss. apply (i_send _ I ss Hss).
  - inversion H; subst st'; clear H. apply cl_find_none in F; [|apply ch_eqb_eq].
    pose proof (i_active _ I s U) as Hm. unfold mem in Hm. rewrite in_app_iff in Hm.
    constructor; simpl; unfold mem; simpl; try apply I.
    + intros x Hx. fupd_cases x s. apply (i_fresh _ I x Hx).
    + intros x Hx. fupd_cases x s. apply (i_done _ I x Hx).
    + intros x Hx. fupd_cases x s; [tauto|]. apply (i_missed _ I x Hx).
    + intros x Hx. fupd_cases x s. apply (i_active _ I x Hx).
    + intros x Hx. pose proof (i_hun _ I x Hx). fupd_cases x s.
    + intros x. rewrite (i_all _ I x). fupd_cases x s; [|tauto]. split; [discriminate|congruence].
Qed.

Lemma step_inv1 st e st' : inv1 st -> step st e = Some st' -> inv1 st'.
Proof.
  intros I H. unfold step in H. destruct (panicked st); [discriminate|].
  destruct (snd e).
  - eapply subscribe_inv1; eauto.
  - eapply acquire_inv1; eauto.
  - eapply merge_inv1; eauto.
  - eapply try_inv1; eauto.
  - eapply select_send_inv1; eauto.
  - eapply select_remove_inv1; eauto.
  - eapply release_inv1; eauto.
  - eapply unsub_check_inv1; eauto.
  - eapply unsub_acquire_inv1; eauto.
  - eapply unsub_delete_inv1; eauto.
  - eapply recv_inv1; eauto.
Qed.

(* ------------------------------------------------------------------------- *)
(* Part 4: delivery invariant *)

Lemma nodup_app_l {A} (a b : list A) : NoDup (a ++ b) -> NoDup a.
Proof.
  induction a; simpl; intros H; [constructor|]. inversion H; subst. constructor; auto.
  rewrite in_app_iff in *. tauto.
Qed.

Lemma sum_map_ext {A} (f g : A -> nat) l :
  (forall x, In x l -> f x = g x) -> list_sum (map f l) = list_sum (map g l).
Proof.
  induction l as [|a l IH]; simpl; intros H; [reflexivity|].
  rewrite (H a) by auto. f_equal. apply IH. intros x Hx. apply H. auto.
Qed.

Lemma sum_map_bump (f g : nat -> nat) l s :
  NoDup l -> In s l -> g s = S (f s) -> (forall x, x <> s -> g x = f x) ->
  list_sum (map g l) = S (list_sum (map f l)).
Proof.
  induction l as [|a l IH]; simpl; intros ND Hin Hs Ho; [contradiction|].
  inversion ND; subst. destruct Hin as [->|Hin].
  - rewrite Hs. rewrite (sum_map_ext g f l); [lia|]. intros x Hx. apply Ho. congruence.
  - rewrite IH; auto. rewrite Ho by congruence. lia.
Qed.

Definition cnt (st : state) (s n : nat) : nat := count_occ Nat.eq_dec (delivered st s) n.

Lemma total_ext st st' n :
  allsubs st' = allsubs st -> (forall s, delivered st' s = delivered st s) ->
  total st' n = total st n.
Proof.
  intros Ha Hd. unfold total. rewrite Ha. apply sum_map_ext. intros x _. rewrite Hd. reflexivity.
Qed.

Lemma total_zero st n : (forall s, ~ In n (delivered st s)) -> total st n = 0.
Proof.
  intros H. unfold total. induction (allsubs st) as [|a l IH]; simpl; auto.
  rewrite IH. rewrite (proj1 (count_occ_not_In Nat.eq_dec _ _) (H a)). reflexivity.
Qed.

Lemma total_sent st st' s n :
  NoDup (allsubs st) -> In s (allsubs st) -> allsubs st' = allsubs st ->
  delivered st' s = delivered st s ++ [n] ->
  (forall x, x <> s -> delivered st' x = delivered st x) ->
  total st' n = S (total st n) /\ (forall m, m <> n -> total st' m = total st m).
Proof.
  intros ND Hin Ha Hs Ho. unfold total. rewrite Ha. split.
  - apply sum_map_bump with (s := s); auto.
    + rewrite Hs, count_occ_app. simpl. destruct (Nat.eq_dec n n); [lia|congruence].
    + intros x Hx. rewrite Ho; auto.
  - intros m Hm. apply sum_map_ext. intros x _. destruct (Nat.eq_dec x s) as [->|Hx].
    + rewrite Hs, count_occ_app. simpl. destruct (Nat.eq_dec n m); [congruence|lia].
    + rewrite Ho; auto.
Qed.

Record inv2 (st : state) : Prop := {
  d_lt : forall s m, In m (delivered st s) -> m < nextseq st;
  d_sorted : forall s, StronglySorted lt (delivered st s);
  d_pre : forall ss, lock st = HSend ss -> s_phase ss = PMerge ->
            s_nsent ss = 0 /\ forall s, ~ In (s_seq ss) (delivered st s);
  d_cur : forall ss, lock st = HSend ss -> s_phase ss <> PMerge ->
            (forall s, In (Sub s) (firstn (s_k ss) (sendCases st)) -> ~ In (s_seq ss) (delivered st s)) /\
            (forall s, In (Sub s) (skipn (s_k ss) (sendCases st)) -> In (s_seq ss) (delivered st s)) /\
            s_nsent ss = total st (s_seq ss);
  d_res : forall m c, In (m, c) (results st) ->
            m < nextseq st /\ (forall ss, lock st = HSend ss -> m <> s_seq ss) /\ c = total st m }.

Lemma inv2_init : inv2 init.
Proof.
  constructor; simpl; unfold delivered; simpl; try discriminate; try tauto.
  intros _. constructor.
Qed.

Lemma inv2_frame st st' :
  inv2 st -> (forall s, delivered st' s = delivered st s) -> nextseq st' = nextseq st ->
  results st' = results st -> (forall n, total st' n = total st n) ->
  (forall ss, lock st' = HSend ss -> lock st = HSend ss /\ sendCases st' = sendCases st) ->
  inv2 st'.
Proof.
  intros D Hd Hn Hr Ht Hl. constructor.
  - intros s m. rewrite Hd, Hn. apply D.
  - intros s. rewrite Hd. apply D.
  - intros ss L P. destruct (Hl _ L) as [L0 _]. destruct (d_pre _ D _ L0 P) as [H1 H2].
    split; auto. intros s. rewrite Hd. auto.
  - intros ss L P. destruct (Hl _ L) as [L0 Hsc]. destruct (d_cur _ D _ L0 P) as [H1 [H2 H3]].
    rewrite Hsc, Ht. repeat split; auto; intros s; rewrite Hd; auto.
  - intros m c. rewrite Hr, Hn, Ht. intros H. destruct (d_res _ D _ _ H) as [H1 [H2 H3]].
    repeat split; auto. intros ss L. destruct (Hl _ L) as [L0 _]. auto.
Qed.

Lemma subscribe_inv2 st s cap st' :
  inv1 st -> inv2 st -> do_subscribe st s cap = Some st' -> inv2 st'.
Proof.
  intros I D H. unfold do_subscribe in H. inv_some H.
  destruct (i_fresh _ I s E) as [_ Hd].
  assert (Hdel : forall x, delivered
     {| inbox := inbox st ++ [Sub s]; sendCases := sendCases st; lock := lock st;
        nextseq := nextseq st;
        chans := fupd (chans st) s {| c_cap := cap; c_queue := []; c_recvd := [] |};
        ustate := fupd (ustate st) s UActive; allsubs := allsubs st ++ [s];
        results := results st; panicked := panicked st |} x = delivered st x).
  { intros x. unfold delivered in *. simpl. fupd_cases x s; simpl; try rewrite Hd; auto. }
  apply (inv2_frame st); auto.
  - intros n. unfold total. simpl. rewrite map_app, list_sum_app. simpl.
    rewrite Hdel, Hd. simpl. rewrite (sum_map_ext _ (fun s0 => count_occ Nat.eq_dec (delivered st s0) n)).
    + lia.
    + intros x _. rewrite Hdel. reflexivity.
Qed.

Lemma recv_inv2 st s st' : inv1 st -> inv2 st -> do_recv st s = Some st' -> inv2 st'.
Proof.
  intros I D H. unfold do_recv in H. inv_some H.
  assert (Hdel : forall x, delivered
     {| inbox := inbox st; sendCases := sendCases st; lock := lock st; nextseq := nextseq st;
        chans := fupd (chans st) s {| c_cap := c_cap (chans st s); c_queue := l;
                                      c_recvd := c_recvd (chans st s) ++ [n] |};
        ustate := ustate st; allsubs := allsubs st; results := results st;
        panicked := panicked st |} x = delivered st x).
  { intros x. unfold delivered in *. simpl. fupd_cases x s. simpl. rewrite E, <- app_assoc. reflexivity. }
  apply (inv2_frame st); auto. intros m. apply total_ext; auto.
Qed.

Lemma unsub_check_inv2 st s st' : inv1 st -> inv2 st -> do_unsub_check st s = Some st' -> inv2 st'.
Proof.
  intros I D H. unfold do_unsub_check in H.
  destruct (ustate st s); try discriminate.
  destruct (cl_find ch_eqb (inbox st) (Sub s)) as [j|].
  - destruct (cl_delete (inbox st) (Some j)); inversion H; subst; clear H.
    + apply (inv2_frame st); auto.
    + apply (inv2_frame st); auto.
  - inversion H; subst; clear H. apply (inv2_frame st); auto.
Qed.

Lemma unsub_acquire_inv2 st s st' : inv1 st -> inv2 st -> do_unsub_acquire st s = Some st' -> inv2 st'.
Proof.
  intros I D H. unfold do_unsub_acquire in H. inv_some H.
  apply (inv2_frame st); auto. simpl. discriminate.
Qed.

Lemma unsub_delete_inv2 st s st' : inv1 st -> inv2 st -> do_unsub_delete st s = Some st' -> inv2 st'.
Proof.
  intros I D H. unfold do_unsub_delete in H.
  destruct (lock st); try discriminate. destruct (Nat.eqb s0 s); [|discriminate].
  destruct (cl_delete (sendCases st) (cl_find ch_eqb (sendCases st) (Sub s)));
    inversion H; subst; clear H; apply (inv2_frame st); auto; simpl; discriminate.
Qed.

Lemma acquire_inv2 st t st' : inv1 st -> inv2 st -> do_acquire st t = Some st' -> inv2 st'.
Proof.
  intros I D H. unfold do_acquire in H. inv_some H.
  constructor; simpl.
  - intros s m Hm. apply (d_lt _ D) in Hm. lia.
  - apply D.
  - intros ss L _. inversion L; subst; simpl. split; auto.
    intros s Hin. apply (d_lt _ D) in Hin. lia.
  - intros ss L P. inversion L; subst. simpl in P. congruence.
  - intros m c Hin. destruct (d_res _ D _ _ Hin) as [H1 [_ H3]]. repeat split; auto.
    intros ss L. inversion L; subst; simpl. lia.
Qed.

Lemma merge_inv2 st t st' : inv1 st -> inv2 st -> do_merge st t = Some st' -> inv2 st'.
Proof.
  intros I D H. unfold do_merge in H. inv_some H.
  destruct (d_pre _ D _ E E0) as [Hz Hnot].
  constructor; simpl; try apply D.
  - intros ss' L P. inversion L; subst; simpl in *. exfalso. eapply next_phase_not_merge; eauto.
  - intros ss' L _. inversion L; subst; simpl. repeat split.
    + intros s _. apply Hnot.
    + intros s Hin. rewrite skipn_all in Hin. contradiction.
    + rewrite Hz. symmetry. apply total_zero. exact Hnot.
  - intros m c Hin. destruct (d_res _ D _ _ Hin) as [H1 [H2 H3]]. repeat split; auto.
    intros ss' L. inversion L; subst; simpl. apply (H2 _ E).
Qed.

Lemma release_inv2 st t st' : inv1 st -> inv2 st -> do_release st t = Some st' -> inv2 st'.
Proof.
  intros I D H. unfold do_release in H.
  destruct (lock st) as [|ss|] eqn:E; try discriminate.
  destruct (s_phase ss) eqn:E0; try discriminate.
  destruct (Nat.eqb (s_tid ss) t); [|discriminate]. inversion H; subst; clear H.
  destruct (i_send _ I _ E) as [Hn _].
  assert (P : s_phase ss <> PMerge) by congruence.
  destruct (d_cur _ D _ E P) as [_ [_ Hns]].
  constructor; simpl; try apply D; try discriminate.
  intros m c Hin. apply in_app_iff in Hin. destruct Hin as [Hin|[Hin|[]]].
  - destruct (d_res _ D _ _ Hin) as [H1 [_ H3]]. repeat split; auto. discriminate.
  - inversion Hin; subst. repeat split; auto; [lia|discriminate].
Qed.

Lemma sent_inv2 st ss s i ni direct st' :
  inv1 st -> inv2 st -> lock st = HSend ss -> s_phase ss <> PMerge ->
  case_at (sendCases st) (s_k ss) i = Some (Sub s) -> 1 <= i ->
  sent st ss s i ni direct = Some st' -> inv2 st'.
Proof.
  intros I D L P C Hi H. apply case_at_spec in C. destruct C as [Hik Hnth].
  destruct (i_send _ I _ L) as [Hn [Hk _]]. specialize (Hk P).
  destruct (d_cur _ D _ L P) as [Hpend [Hdone Hns]].
  unfold sent in H. destruct (deliver (chans st s) (s_seq ss) direct) as [c'|] eqn:Dl; [|discriminate].
  destruct (deact_some (sendCases st) (s_k ss) i) as [[sc' k'] Ed]; [lia|lia|].
  rewrite Ed in H. inversion H; subst st'; clear H.
  destruct (deact_spec _ _ _ _ _ Ed (proj2 Hk)) as [x [pre [Hx [_ [Hk' [Hlp [Esc' [HP _]]]]]]]].
  rewrite Hnth in Hx. inversion Hx; subst x; clear Hx.
  destruct (deliver_spec _ _ _ _ Dl) as [Hdl _].
  set (st' := {| inbox := inbox st; sendCases := sc';
       lock := HSend {| s_tid := s_tid ss; s_seq := s_seq ss; s_k := k';
                        s_phase := next_phase ni k'; s_nsent := S (s_nsent ss) |};
       nextseq := nextseq st; chans := fupd (chans st) s c'; ustate := ustate st;
       allsubs := allsubs st; results := results st; panicked := panicked st |}).
  assert (Hs : delivered st' s = delivered st s ++ [s_seq ss]).
  { unfold delivered, st'. simpl. unfold fupd. rewrite Nat.eqb_refl. exact Hdl. }
  assert (Ho : forall x, x <> s -> delivered st' x = delivered st x).
  { intros x Hx. unfold delivered, st'. simpl. fupd_cases x s. }
  assert (Hin_pre : In (Sub s) (firstn (s_k ss) (sendCases st))).
  { apply nth_error_In with (n := i). rewrite nth_firstn by lia. exact Hnth. }
  assert (Hnot : ~ In (s_seq ss) (delivered st s)) by (apply Hpend; exact Hin_pre).
  assert (Hall : In s (allsubs st)).
  { apply sub_allsubs; auto. apply mem_sendcases. eapply nth_error_In; eauto. }
  destruct (total_sent st st' s (s_seq ss) (i_alln _ I) Hall eq_refl Hs Ho) as [Ht1 Ht2].
  assert (NDp : NoDup (pre ++ [Sub s])).
  { eapply Permutation_NoDup; [apply Permutation_sym; exact HP|].
    apply nodup_app_l with (b := skipn (s_k ss) (sendCases st)). rewrite firstn_skipn.
    apply inv1_nodup_sc; auto. }
  assert (Hfk : firstn k' sc' = pre) by (rewrite Esc', <- Hlp; apply firstn_len_app).
  assert (Hsk : skipn k' sc' = Sub s :: skipn (s_k ss) (sendCases st))
    by (rewrite Esc', <- Hlp; apply skipn_len_app).
  constructor.
  - intros x m Hm. change (nextseq st') with (nextseq st). destruct (Nat.eq_dec x s) as [->|Hx].
    + rewrite Hs in Hm. apply in_app_iff in Hm. destruct Hm as [Hm|[Hm|[]]]; [apply (d_lt _ D _ _ Hm)|lia].
    + rewrite Ho in Hm by auto. apply (d_lt _ D _ _ Hm).
  - intros x. destruct (Nat.eq_dec x s) as [->|Hx].
    + rewrite Hs. apply strongly_sorted_snoc; [apply D|]. intros y Hy.
      pose proof (d_lt _ D _ _ Hy). assert (y <> s_seq ss) by congruence. lia.
    + rewrite Ho by auto. apply D.
  - intros ss' L' P'. inversion L'; subst ss'. simpl in P'. exfalso. eapply next_phase_not_merge; eauto.
  - intros ss' L' _. inversion L'; subst ss'. simpl. rewrite Hfk, Hsk. repeat split.
    + intros x Hx. assert (Hxs : x <> s).
      { intros ->. apply NoDup_remove_2 in NDp. rewrite app_nil_r in NDp. contradiction. }
      rewrite Ho by auto. apply Hpend. eapply Permutation_in; [exact HP|]. apply in_app_iff. auto.
    + intros x [Hx|Hx].
      * inversion Hx; subst x. rewrite Hs. apply in_app_iff. right. left. auto.
      * destruct (Nat.eq_dec x s) as [->|Hxs]; [rewrite Hs; apply in_app_iff; right; left; auto|].
        rewrite Ho by auto. apply Hdone. exact Hx.
    + rewrite Ht1. f_equal. exact Hns.
  - intros m c Hin. change (results st') with (results st) in Hin. change (nextseq st') with (nextseq st).
    destruct (d_res _ D _ _ Hin) as [H1 [H2 H3]]. specialize (H2 _ L). repeat split; auto.
    + intros ss' L'. inversion L'; subst ss'. simpl. exact H2.
    + rewrite Ht2; auto.
Qed.

Lemma try_inv2 st t r st' : inv1 st -> inv2 st -> do_try st t r = Some st' -> inv2 st'.
Proof.
  intros I D H. unfold do_try in H.
  destruct (lock st) as [|ss|] eqn:L; try discriminate.
  destruct (s_phase ss) as [|i| |] eqn:P; try discriminate.
  destruct (Nat.eqb (s_tid ss) t) eqn:T; [|discriminate].
  destruct (i_send _ I _ L) as [Hn [Hk Hp]]. rewrite P in *. simpl in Hp.
  destruct (case_at_sub st ss i I L) as [s C]; [congruence|lia|].
  rewrite C in H. destruct r as [direct|].
  - apply (sent_inv2 st ss s i i direct st' I D L); [congruence | exact C | lia | exact H].
  - destruct (c_cap (chans st s) <=? length (c_queue (chans st s))); [|discriminate].
    inversion H; subst; clear H.
    assert (Pm : s_phase ss <> PMerge) by congruence.
    destruct (d_cur _ D _ L Pm) as [H1 [H2 H3]].
    constructor; simpl; try apply D.
    + intros ss' L' P'. inversion L'; subst ss'. simpl in P'. exfalso. eapply next_phase_not_merge; eauto.
    + intros ss' L' _. inversion L'; subst ss'. simpl. repeat split; auto.
    + intros m c Hin. destruct (d_res _ D _ _ Hin) as [G1 [G2 G3]]. repeat split; auto.
      intros ss' L'. inversion L'; subst ss'. simpl. apply (G2 _ L).
Qed.

Lemma select_send_inv2 st t chosen direct st' :
  inv1 st -> inv2 st -> do_select_send st t chosen direct = Some st' -> inv2 st'.
Proof.
  intros I D H. unfold do_select_send in H.
  destruct (lock st) as [|ss|] eqn:L; try discriminate.
  destruct (s_phase ss) eqn:P; try discriminate.
  destruct (Nat.eqb (s_tid ss) t && negb (Nat.eqb chosen 0)) eqn:T; [|discriminate].
  apply andb_true_iff in T. destruct T as [_ T]. apply negb_true_iff, Nat.eqb_neq in T.
  destruct (case_at (sendCases st) (s_k ss) chosen) as [[|s]|] eqn:C; try discriminate.
  - exfalso. apply case_at_spec in C. destruct C as [_ C].
    apply nodup_hd_unique in C; [lia | apply inv1_nodup_sc; auto | apply I].
  - apply (sent_inv2 st ss s chosen 1 direct st' I D L); [congruence | exact C | lia | exact H].
Qed.

Lemma select_remove_inv2 st t s st' :
  inv1 st -> inv2 st -> do_select_remove st t s = Some st' -> inv2 st'.
Proof.
  intros I D H. unfold do_select_remove in H.
  destruct (lock st) as [|ss|] eqn:L; try discriminate.
  destruct (s_phase ss) eqn:P; try discriminate.
  destruct (ustate st s) eqn:U; try discriminate.
  destruct (Nat.eqb (s_tid ss) t) eqn:T; [|discriminate].
  pose proof (i_missed _ I s U) as Hin.
  destruct (cl_find_in ch_eqb ch_eqb_eq _ _ Hin) as [j F]. rewrite F in H.
  destruct (cl_delete_find ch_eqb ch_eqb_eq _ _ _ F) as [a [b [Esc [Hj [_ Ed]]]]].
  rewrite Ed in H. inversion H; subst st'; clear H.
  assert (Pm : s_phase ss <> PMerge) by congruence.
  destruct (d_cur _ D _ L Pm) as [H1 [H2 H3]].
  constructor; simpl; try apply D.
  - intros ss' L' P'. inversion L'; subst ss'. simpl in P'. exfalso. eapply next_phase_not_merge; eauto.
  - intros ss' L' _. inversion L'; subst ss'. simpl. subst j.
    change (if length a <? s_k ss then s_k ss - 1 else s_k ss) with (adj (length a) (s_k ss)).
    rewrite Esc in H1, H2. repeat split; auto.
    + intros x Hx. apply H1. eapply delete_firstn; eauto.
    + intros x Hx. apply H2. eapply delete_skipn; eauto.
  - intros m c Hin'. destruct (d_res _ D _ _ Hin') as [G1 [G2 G3]]. repeat split; auto.
    intros ss' L'. inversion L'; subst ss'. simpl. apply (G2 _ L).
Qed.

Lemma step_inv2 st e st' : inv1 st -> inv2 st -> step st e = Some st' -> inv2 st'.
Proof.
  intros I D H. unfold step in H. destruct (panicked st); [discriminate|].
  destruct (snd e).
  - eapply subscribe_inv2; eauto.
  - eapply acquire_inv2; eauto.
  - eapply merge_inv2; eauto.
  - eapply try_inv2; eauto.
  - eapply select_send_inv2; eauto.
  - eapply select_remove_inv2; eauto.
  - eapply release_inv2; eauto.
  - eapply unsub_check_inv2; eauto.
  - eapply unsub_acquire_inv2; eauto.
  - eapply unsub_delete_inv2; eauto.
  - eapply recv_inv2; eauto.
Qed.

Definition inv (st : state) : Prop := inv1 st /\ inv2 st.

Lemma inv_init : inv init.
Proof. split; [apply inv1_init | apply inv2_init]. Qed.

Lemma step_inv st e st' : inv st -> step st e = Some st' -> inv st'.
Proof. intros [I D] H. split; [eapply step_inv1 | eapply step_inv2]; eauto. Qed.

Lemma run_inv h st st' : inv st -> run step st h = Some st' -> inv st'.
Proof. apply run_invariant. exact step_inv. Qed.

(* ------------------------------------------------------------------------- *)
(* Part 5: effects of one step, then the trace theorems *)

Ltac step_ops H :=
  unfold step in H;
  match type of H with (if ?p then _ else _) = _ => destruct p; [discriminate|] end;
  match type of H with context [snd ?e] => destruct (snd e) end;
  [ unfold do_subscribe in H | unfold do_acquire in H | unfold do_merge in H
  | unfold do_try, sent, set_send in H | unfold do_select_send, sent in H
  | unfold do_select_remove in H | unfold do_release in H | unfold do_unsub_check in H
  | unfold do_unsub_acquire in H | unfold do_unsub_delete in H | unfold do_recv in H ].

Lemma step_ustate st e st' s :
  step st e = Some st' ->
  ustate st' s = ustate st s \/
  (ustate st s = UFresh /\ ustate st' s = UActive) \/
  (ustate st s = UActive /\ ustate st' s = UMissed) \/
  (ustate st' s = UDone /\ removes s (snd e) = true).
Proof.
  intros H. unfold step in H. destruct (panicked st); [discriminate|].
  destruct (snd e) as [s0 cap| | |r|ch d|s0| |s0|s0|s0|s0]; simpl.
  - unfold do_subscribe in H. inv_some H. simpl. fupd_cases s s0; auto.
  - unfold do_acquire in H. inv_some H. auto.
  - unfold do_merge in H. inv_some H. auto.
  - unfold do_try, sent, set_send in H. inv_some H; auto.
  - unfold do_select_send, sent in H. inv_some H; auto.
  - unfold do_select_remove in H. inv_some H; simpl; auto. fupd_cases s s0; auto.
    right. right. right. split; auto. apply Nat.eqb_refl.
  - unfold do_release in H. inv_some H. auto.
  - unfold do_unsub_check in H. inv_some H; simpl; auto; fupd_cases s s0; auto.
    right. right. right. split; auto. apply Nat.eqb_refl.
  - unfold do_unsub_acquire in H. inv_some H. auto.
  - unfold do_unsub_delete in H. inv_some H; simpl; auto. fupd_cases s s0; auto.
    right. right. right. split; auto. apply Nat.eqb_refl.
  - unfold do_recv in H. inv_some H. auto.
Qed.

Lemma sent_delivered st ss s0 i ni direct st' s :
  sent st ss s0 i ni direct = Some st' ->
  (s <> s0 /\ delivered st' s = delivered st s) \/
  (s = s0 /\ (panicked st' = true \/ delivered st' s = delivered st s ++ [s_seq ss])).
Proof.
  unfold sent. destruct (deliver (chans st s0) (s_seq ss) direct) as [c'|] eqn:D; [|discriminate].
  destruct (deliver_spec _ _ _ _ D) as [Hd _].
  destruct (deact (sendCases st) (s_k ss) i) as [[sc' k']|]; intros H; inversion H; subst; clear H.
  - unfold delivered; simpl. fupd_cases s s0; auto.
  - destruct (Nat.eq_dec s s0); auto.
Qed.

(* a step changes what was delivered to s only by appending the value of the Send
   that holds sendLock, and only if s is one of its send cases *)
Lemma step_delivered st e st' s :
  inv1 st -> step st e = Some st' ->
  delivered st' s = delivered st s \/
  (exists ss, lock st = HSend ss /\ s_phase ss <> PMerge /\ In (Sub s) (sendCases st) /\
              delivered st' s = delivered st s ++ [s_seq ss]).
Proof.
  intros I H. pose proof (step_inv1 _ _ _ I H) as I'.
  unfold step in H. cbv zeta in H. destruct (panicked st); [discriminate|].
  destruct (snd e) as [s0 cap| | |r|ch d|s0| |s0|s0|s0|s0].
  - unfold do_subscribe in H. inv_some H. left. unfold delivered in *. simpl. fupd_cases s s0.
    destruct (i_fresh _ I s0 E) as [_ Hd]. unfold delivered in Hd. simpl. auto.
  - unfold do_acquire in H. inv_some H. auto.
  - unfold do_merge in H. inv_some H. auto.
  - unfold do_try in H.
    destruct (lock st) as [|ss|] eqn:L; try discriminate.
    destruct (s_phase ss) as [|i| |] eqn:P; try discriminate.
    destruct (Nat.eqb (s_tid ss) (fst e)) eqn:T; [|discriminate].
    destruct (case_at (sendCases st) (s_k ss) i) as [[|s0]|] eqn:C;
      try (inversion H; subst; auto; fail).
    destruct r as [direct|].
    + destruct (sent_delivered _ _ _ _ _ _ _ s H) as [[_ Hs]|[-> [Hs|Hs]]]; auto.
      * rewrite (i_np _ I') in Hs. discriminate.
      * right. exists ss. repeat split; auto; try congruence.
        apply case_at_spec in C. eapply nth_error_In. apply C.
    + unfold set_send in H. inv_some H. auto.
  - unfold do_select_send in H.
    destruct (lock st) as [|ss|] eqn:L; try discriminate.
    destruct (s_phase ss) eqn:P; try discriminate.
    destruct (Nat.eqb (s_tid ss) (fst e) && negb (Nat.eqb ch 0)); [|discriminate].
    destruct (case_at (sendCases st) (s_k ss) ch) as [[|s0]|] eqn:C;
      try (inversion H; subst; auto; fail).
    destruct (sent_delivered _ _ _ _ _ _ _ s H) as [[_ Hs]|[-> [Hs|Hs]]]; auto.
    + rewrite (i_np _ I') in Hs. discriminate.
    + right. exists ss. repeat split; auto; try congruence.
      apply case_at_spec in C. eapply nth_error_In. apply C.
  - unfold do_select_remove in H. inv_some H; auto.
  - unfold do_release in H. inv_some H. auto.
  - unfold do_unsub_check in H. inv_some H; auto.
  - unfold do_unsub_acquire in H. inv_some H. auto.
  - unfold do_unsub_delete in H. inv_some H; auto.
  - unfold do_recv in H. inv_some H. left. unfold delivered. simpl. fupd_cases s s0.
    simpl. rewrite E, <- app_assoc. reflexivity.
Qed.

Ltac lock_fin :=
  match goal with
  | |- _ -> _ => first [intros _; apply next_phase_not_merge | congruence]
  | |- _ = _ => first [reflexivity | assumption | symmetry; apply Nat.eqb_eq; assumption
                      | apply Nat.eqb_eq; assumption]
  end.

Lemma step_lock_send st e st' ss :
  lock st = HSend ss -> is_release (snd e) = false -> step st e = Some st' ->
  exists ss', lock st' = HSend ss' /\ s_seq ss' = s_seq ss /\ s_tid ss' = s_tid ss /\
              (s_phase ss <> PMerge -> s_phase ss' <> PMerge).
Proof.
  intros L R H. unfold step in H. cbv zeta in H. destruct (panicked st); [discriminate|].
  destruct (snd e) as [s0 cap| | |r|ch d|s0| |s0|s0|s0|s0]; simpl in R; try discriminate.
  - unfold do_subscribe in H. inv_some H. simpl. eauto.
  - unfold do_acquire in H. rewrite L in H. discriminate.
  - unfold do_merge in H. rewrite L in H. inv_some H. simpl. eexists. repeat split; lock_fin.
  - unfold do_try, sent, set_send in H. rewrite L in H. inv_some H; simpl;
      try (exists ss; auto; fail); eexists; repeat split; lock_fin.
  - unfold do_select_send, sent in H. rewrite L in H. inv_some H; simpl;
      try (exists ss; auto; fail); eexists; repeat split; lock_fin.
  - unfold do_select_remove in H. rewrite L in H. inv_some H; simpl;
      try (exists ss; auto; fail); eexists; repeat split; lock_fin.
  - unfold do_unsub_check in H. inv_some H; simpl; eauto.
  - unfold do_unsub_acquire in H. rewrite L in H. inv_some H.
  - unfold do_unsub_delete in H. rewrite L in H. discriminate.
  - unfold do_recv in H. inv_some H. simpl. eauto.
Qed.

Lemma delete_find_in sc x sc' c :
  cl_delete sc (cl_find ch_eqb sc x) = Some sc' -> In c sc -> In c sc' \/ c = x.
Proof.
  intros H Hc. destruct (cl_find ch_eqb sc x) as [j|] eqn:F; [|discriminate].
  destruct (cl_delete_find ch_eqb ch_eqb_eq _ _ _ F) as [a [b [E [_ [_ Ed]]]]].
  rewrite Ed in H. inversion H; subst sc'. rewrite E in Hc. rewrite in_app_iff in *. simpl in Hc.
  destruct Hc as [Hc|[Hc|Hc]]; auto.
Qed.

(* sendCases only ever loses the case of a subscription whose Unsubscribe completes *)
Lemma step_sendcases st e st' c :
  inv1 st -> step st e = Some st' -> In c (sendCases st) ->
  In c (sendCases st') \/ (exists s0, c = Sub s0 /\ removes s0 (snd e) = true).
Proof.
  intros I H Hc. unfold step in H. cbv zeta in H. destruct (panicked st); [discriminate|].
  assert (Hsent : forall ss s0 i ni direct, lock st = HSend ss -> s_phase ss <> PMerge ->
            sent st ss s0 i ni direct = Some st' -> In c (sendCases st')).
  { intros ss s0 i ni direct L P Hs. unfold sent in Hs.
    destruct (deliver (chans st s0) (s_seq ss) direct); [|discriminate].
    destruct (deact (sendCases st) (s_k ss) i) as [[sc' k']|] eqn:Ed; inversion Hs; subst; simpl; auto.
    destruct (i_send _ I _ L) as [_ [Hk _]]. specialize (Hk P).
    eapply Permutation_in; [apply Permutation_sym; eapply deact_perm; eauto; lia | exact Hc]. }
  destruct (snd e) as [s0 cap| | |r|ch d|s0| |s0|s0|s0|s0]; simpl.
  - unfold do_subscribe in H. inv_some H. auto.
  - unfold do_acquire in H. inv_some H. auto.
  - unfold do_merge in H. inv_some H. simpl. left. apply in_app_iff. auto.
  - unfold do_try in H.
    destruct (lock st) as [|ss|] eqn:L; try discriminate.
    destruct (s_phase ss) as [|i| |] eqn:P; try discriminate.
    destruct (Nat.eqb (s_tid ss) (fst e)); [|discriminate].
    destruct (case_at (sendCases st) (s_k ss) i) as [[|s0]|];
      try (inversion H; subst; auto; fail).
    destruct r as [direct|].
    + left. eapply Hsent; eauto. congruence.
    + unfold set_send in H. inv_some H. auto.
  - unfold do_select_send in H.
    destruct (lock st) as [|ss|] eqn:L; try discriminate.
    destruct (s_phase ss) eqn:P; try discriminate.
    destruct (Nat.eqb (s_tid ss) (fst e) && negb (Nat.eqb ch 0)); [|discriminate].
    destruct (case_at (sendCases st) (s_k ss) ch) as [[|s0]|];
      try (inversion H; subst; auto; fail).
    left. eapply Hsent; eauto. congruence.
  - unfold do_select_remove in H.
    destruct (lock st) as [|ss|]; try discriminate.
    destruct (s_phase ss); try discriminate. destruct (ustate st s0); try discriminate.
    destruct (Nat.eqb (s_tid ss) (fst e)); [|discriminate].
    destruct (cl_delete (sendCases st) (cl_find ch_eqb (sendCases st) (Sub s0))) as [sc'|] eqn:Ed;
      inversion H; subst; simpl; auto.
    destruct (delete_find_in _ _ _ _ Ed Hc) as [Hin| ->]; auto.
    right. exists s0. split; auto. apply Nat.eqb_refl.
  - unfold do_release in H. inv_some H. auto.
  - unfold do_unsub_check in H. inv_some H; auto.
  - unfold do_unsub_acquire in H. inv_some H. auto.
  - unfold do_unsub_delete in H.
    destruct (lock st) as [| |s1]; try discriminate.
    destruct (Nat.eqb s1 s0); [|discriminate].
    destruct (cl_delete (sendCases st) (cl_find ch_eqb (sendCases st) (Sub s0))) as [sc'|] eqn:Ed;
      inversion H; subst; simpl; auto.
    destruct (delete_find_in _ _ _ _ Ed Hc) as [Hin| ->]; auto.
    right. exists s0. split; auto. apply Nat.eqb_refl.
  - unfold do_recv in H. inv_some H. auto.
Qed.

Lemma step_results st e st' r : step st e = Some st' -> In r (results st) -> In r (results st').
Proof.
  intros H Hr. unfold step in H. cbv zeta in H. destruct (panicked st); [discriminate|].
  destruct (snd e) as [s0 cap| | |r0|ch d|s0| |s0|s0|s0|s0].
  - unfold do_subscribe in H. inv_some H. auto.
  - unfold do_acquire in H. inv_some H. auto.
  - unfold do_merge in H. inv_some H. auto.
  - unfold do_try, sent, set_send in H. inv_some H; auto.
  - unfold do_select_send, sent in H. inv_some H; auto.
  - unfold do_select_remove in H. inv_some H; auto.
  - unfold do_release in H. inv_some H. simpl. apply in_app_iff. auto.
  - unfold do_unsub_check in H. inv_some H; auto.
  - unfold do_unsub_acquire in H. inv_some H. auto.
  - unfold do_unsub_delete in H. inv_some H; auto.
  - unfold do_recv in H. inv_some H. auto.
Qed.

Lemma step_nextseq_mono st e st' : step st e = Some st' -> nextseq st <= nextseq st'.
Proof.
  intros H. unfold step in H. cbv zeta in H. destruct (panicked st); [discriminate|].
  destruct (snd e) as [s0 cap| | |r0|ch d|s0| |s0|s0|s0|s0].
  - unfold do_subscribe in H. inv_some H. auto.
  - unfold do_acquire in H. inv_some H. simpl. lia.
  - unfold do_merge in H. inv_some H. auto.
  - unfold do_try, sent, set_send in H. inv_some H; auto.
  - unfold do_select_send, sent in H. inv_some H; auto.
  - unfold do_select_remove in H. inv_some H; auto.
  - unfold do_release in H. inv_some H. auto.
  - unfold do_unsub_check in H. inv_some H; auto.
  - unfold do_unsub_acquire in H. inv_some H. auto.
  - unfold do_unsub_delete in H. inv_some H; auto.
  - unfold do_recv in H. inv_some H. auto.
Qed.

Definition live (st : state) (s : nat) : Prop := ustate st s = UActive \/ ustate st s = UMissed.

Lemma step_live st e st' s :
  live st s -> removes s (snd e) = false -> step st e = Some st' -> live st' s.
Proof.
  intros Hl Hr H. unfold live in *.
  destruct (step_ustate _ _ _ s H) as [E|[[E _]|[[_ E]|[_ E]]]].
  - rewrite E. exact Hl.
  - destruct Hl; congruence.
  - auto.
  - congruence.
Qed.

Lemma live_mem st s : inv1 st -> live st s -> mem st (Sub s).
Proof.
  intros I [H|H]; [apply (i_active _ I _ H) | apply mem_sendcases, (i_missed _ I _ H)].
Qed.

Lemma step_delivered_mono st e st' s m :
  inv1 st -> step st e = Some st' -> In m (delivered st s) -> In m (delivered st' s).
Proof.
  intros I H Hm. destruct (step_delivered _ _ _ s I H) as [E|[ss [_ [_ [_ E]]]]]; rewrite E; auto.
  apply in_app_iff. auto.
Qed.

Lemma run_results h st st' r : run step st h = Some st' -> In r (results st) -> In r (results st').
Proof.
  revert st. induction h as [|e h IH]; simpl; intros st H Hr.
  - inversion H; subst; auto.
  - destruct (step st e) as [st1|] eqn:E; [|discriminate]. eapply IH; eauto. eapply step_results; eauto.
Qed.

Lemma run_nextseq_mono h st st' : run step st h = Some st' -> nextseq st <= nextseq st'.
Proof.
  revert st. induction h as [|e h IH]; simpl; intros st H.
  - inversion H; subst; auto.
  - destruct (step st e) as [st1|] eqn:E; [|discriminate].
    apply step_nextseq_mono in E. apply IH in H. lia.
Qed.

Lemma run_delivered_mono h st st' s m :
  inv st -> run step st h = Some st' -> In m (delivered st s) -> In m (delivered st' s).
Proof.
  revert st. induction h as [|e h IH]; simpl; intros st I H Hm.
  - inversion H; subst; auto.
  - destruct (step st e) as [st1|] eqn:E; [|discriminate].
    apply (IH st1); auto; [eapply step_inv; eauto | eapply step_delivered_mono; eauto; apply I].
Qed.

(* ---- no_panic ---- *)
Lemma no_panic h st : run step init h = Some st -> panicked st = false.
Proof. intros H. apply i_np. eapply (run_inv h init st inv_init H). Qed.

(* ---- per_subscriber_order ---- *)
Lemma delivered_sorted h st s :
  run step init h = Some st -> StronglySorted lt (delivered st s).
Proof. intros H. apply d_sorted. eapply (run_inv h init st inv_init H). Qed.

Lemma per_subscriber_order h st s1 s2 a b :
  run step init h = Some st ->
  before a b (delivered st s1) -> In a (delivered st s2) -> In b (delivered st s2) ->
  before a b (delivered st s2).
Proof.
  intros H Hb Ha Hbb. pose proof (delivered_sorted _ _ s1 H) as S1.
  pose proof (delivered_sorted _ _ s2 H) as S2.
  apply sorted_lt_before; auto. exact (sorted_before_lt _ _ _ S1 Hb).
Qed.

Lemma at_most_once h st s n :
  run step init h = Some st -> count_occ Nat.eq_dec (delivered st s) n <= 1.
Proof.
  intros H. apply NoDup_count_occ. apply strongly_sorted_nodup. eapply delivered_sorted; eauto.
Qed.

(* sequence numbers are the order in which Sends took sendLock *)
Lemma seq_is_lock_order h1 st1 tA st2 ssA h2 st3 tB st4 ssB :
  run step init h1 = Some st1 ->
  step st1 (tA, LSendAcquire) = Some st2 -> lock st2 = HSend ssA ->
  run step st2 h2 = Some st3 ->
  step st3 (tB, LSendAcquire) = Some st4 -> lock st4 = HSend ssB ->
  s_seq ssA < s_seq ssB.
Proof.
  intros H1 A1 L2 H2 A2 L4.
  assert (I2 : inv st2) by (eapply step_inv; [eapply run_inv; [apply inv_init|eauto]|eauto]).
  assert (I4 : inv st4) by (eapply step_inv; [eapply run_inv; [exact I2|eauto]|eauto]).
  destruct (i_send _ (proj1 I2) _ L2) as [N2 _]. destruct (i_send _ (proj1 I4) _ L4) as [N4 _].
  apply run_nextseq_mono in H2.
  unfold step in A2. simpl in A2. destruct (panicked st3); [discriminate|].
  unfold do_acquire in A2. destruct (lock st3); try discriminate. inversion A2; subst st4; clear A2.
  simpl in *. inversion L4; subst ssB. simpl in *. lia.
Qed.

(* ---- nothing_after_unsubscribe_returns ---- *)
Lemma step_done_stable st e st' s :
  inv1 st -> ustate st s = UDone -> step st e = Some st' ->
  ustate st' s = UDone /\ delivered st' s = delivered st s.
Proof.
  intros I U H. split.
  - destruct (step_ustate _ _ _ s H) as [E|[[E _]|[[E _]|[E _]]]]; congruence.
  - destruct (step_delivered _ _ _ s I H) as [E|[ss [_ [_ [Hin _]]]]]; auto.
    exfalso. apply (i_done _ I _ U). apply mem_sendcases. exact Hin.
Qed.

Lemma run_done_stable h2 st1 s st2 :
  inv st1 -> ustate st1 s = UDone -> run step st1 h2 = Some st2 ->
  ustate st2 s = UDone /\ delivered st2 s = delivered st1 s.
Proof.
  revert st1. induction h2 as [|e h2 IH]; simpl; intros st1 I1 U H2.
  - inversion H2; subst; auto.
  - destruct (step st1 e) as [stm|] eqn:E; [|discriminate].
    destruct (step_done_stable _ _ _ s (proj1 I1) U E) as [U' D'].
    assert (Im : inv stm) by (eapply step_inv; eauto).
    destruct (IH stm Im U' H2) as [U2 D2]. split; congruence.
Qed.

Lemma nothing_after_unsubscribe_returns h1 st1 s h2 st2 :
  run step init h1 = Some st1 -> ustate st1 s = UDone -> run step st1 h2 = Some st2 ->
  ustate st2 s = UDone /\ delivered st2 s = delivered st1 s.
Proof.
  intros H1 U H2. apply (run_done_stable h2 st1 s st2); auto.
  eapply run_inv; [apply inv_init|eauto].
Qed.

(* ---- send_exactly_once ---- *)
Lemma merge_effect st1 ss t st2 :
  lock st1 = HSend ss -> step st1 (t, LSendMerge) = Some st2 ->
  exists ss2, lock st2 = HSend ss2 /\ s_seq ss2 = s_seq ss /\ s_phase ss2 <> PMerge /\
              inbox st2 = [].
Proof.
  intros L H. unfold step in H. simpl in H. destruct (panicked st1); [discriminate|].
  unfold do_merge in H. rewrite L in H. inv_some H. simpl. eexists. repeat split.
  simpl. apply next_phase_not_merge.
Qed.

Lemma release_effect st3 ss3 t st4 :
  lock st3 = HSend ss3 -> step st3 (t, LSendRelease) = Some st4 ->
  s_phase ss3 = PDone /\ results st4 = results st3 ++ [(s_seq ss3, s_nsent ss3)] /\
  (forall s, delivered st4 s = delivered st3 s).
Proof.
  intros L H. unfold step in H. simpl in H. destruct (panicked st3); [discriminate|].
  unfold do_release in H. rewrite L in H. inv_some H. simpl. auto.
Qed.

Definition holds_send (n : nat) (st : state) : Prop :=
  exists ss, lock st = HSend ss /\ s_seq ss = n /\ s_phase ss <> PMerge.

Lemma run_holds_send n h st st' :
  holds_send n st -> (forall e, In e h -> is_release (snd e) = false) ->
  run step st h = Some st' -> holds_send n st'.
Proof.
  revert st. induction h as [|e h IH]; simpl; intros st Q Hr H.
  - inversion H; subst; auto.
  - destruct (step st e) as [st1|] eqn:E; [|discriminate].
    apply (IH st1); auto. destruct Q as [ss [L [Hn Hp]]].
    destruct (step_lock_send _ _ _ _ L (Hr e (or_introl eq_refl)) E) as [ss' [L' [Hn' [_ Hp']]]].
    exists ss'. repeat split; auto. congruence.
Qed.

Lemma run_keeps_case s h st st' :
  inv st -> In (Sub s) (sendCases st) -> (forall e, In e h -> removes s (snd e) = false) ->
  run step st h = Some st' -> In (Sub s) (sendCases st').
Proof.
  revert st. induction h as [|e h IH]; simpl; intros st I Hin Hr H.
  - inversion H; subst; auto.
  - destruct (step st e) as [st1|] eqn:E; [|discriminate].
    apply (IH st1); auto; [eapply step_inv; eauto|].
    destruct (step_sendcases _ _ _ _ (proj1 I) E Hin) as [Hc|[s0 [Hs0 Hrm]]]; auto.
    inversion Hs0; subst s0. rewrite (Hr e (or_introl eq_refl)) in Hrm. discriminate.
Qed.

Lemma send_exactly_once h1 st1 ss t st2 h2 st3 st4 h3 st :
  run step init h1 = Some st1 -> lock st1 = HSend ss ->
  step st1 (t, LSendMerge) = Some st2 ->
  run step st2 h2 = Some st3 -> (forall e, In e h2 -> is_release (snd e) = false) ->
  step st3 (t, LSendRelease) = Some st4 ->
  run step st4 h3 = Some st ->
  In (s_seq ss, total st (s_seq ss)) (results st) /\
  (forall c, In (s_seq ss, c) (results st) -> c = total st (s_seq ss)) /\
  (forall s, count_occ Nat.eq_dec (delivered st s) (s_seq ss) <= 1) /\
  (forall s, live st1 s -> (forall e, In e h2 -> removes s (snd e) = false) ->
             count_occ Nat.eq_dec (delivered st s) (s_seq ss) = 1).
Proof.
  intros H1 L1 M H2 NR R H3.
  assert (I1 : inv st1) by (eapply run_inv; [apply inv_init|eauto]).
  assert (I2 : inv st2) by (eapply step_inv; eauto).
  assert (I3 : inv st3) by (eapply run_inv; eauto).
  assert (I4 : inv st4) by (eapply step_inv; eauto).
  assert (I : inv st) by (eapply run_inv; eauto).
  destruct (merge_effect _ _ _ _ L1 M) as [ss2 [L2 [N2 [P2 IB2]]]].
  assert (Q3 : holds_send (s_seq ss) st3).
  { apply (run_holds_send _ h2 st2); auto. exists ss2. auto. }
  destruct Q3 as [ss3 [L3 [N3 P3]]].
  destruct (release_effect _ _ _ _ L3 R) as [PD [Res4 Del4]].
  assert (Hres : forall c, In (s_seq ss, c) (results st) -> c = total st (s_seq ss)).
  { intros c Hc. apply (d_res _ (proj2 I) _ _ Hc). }
  assert (Hin : In (s_seq ss, s_nsent ss3) (results st)).
  { apply (run_results h3 st4); auto. rewrite Res4, N3. apply in_app_iff. right. left. auto. }
  assert (Hsorted : forall s, NoDup (delivered st s)).
  { intros s. apply strongly_sorted_nodup. apply (d_sorted _ (proj2 I)). }
  split; [|split; [|split]].
  - rewrite <- (Hres _ Hin). exact Hin.
  - exact Hres.
  - intros s. apply NoDup_count_occ. apply Hsorted.
  - intros s Hl Hnr.
    assert (Hl2 : live st2 s) by (apply (step_live st1 (t, LSendMerge) st2 s Hl eq_refl M)).
    pose proof (live_mem _ _ (proj1 I2) Hl2) as Hm. unfold mem in Hm. rewrite IB2 in Hm. simpl in Hm.
    assert (Hc3 : In (Sub s) (sendCases st3)) by (apply (run_keeps_case s h2 st2 st3 I2 Hm Hnr H2)).
    destruct (i_send _ (proj1 I3) _ L3) as [_ [_ Hp]]. rewrite PD in Hp. simpl in Hp.
    destruct (d_cur _ (proj2 I3) _ L3 P3) as [_ [Hdone _]].
    assert (Hd3 : In (s_seq ss) (delivered st3 s)).
    { rewrite <- N3. apply Hdone. rewrite Hp.
      pose proof (i_hd _ (proj1 I3)) as Hh. destruct (sendCases st3) as [|x r]; [discriminate|].
      simpl in Hh. inversion Hh; subst x. simpl. destruct Hc3 as [Hc3|Hc3]; [discriminate|auto]. }
    rewrite <- Del4 in Hd3.
    apply NoDup_count_occ'; [apply Hsorted|]. apply (run_delivered_mono h3 st4 st s _ I4 H3 Hd3).
Qed.

(* ---- caselist_inv on every reachable state ---- *)
Lemma caselist_inv h st ss :
  run step init h = Some st -> lock st = HSend ss -> s_phase ss <> PMerge ->
  1 <= s_k ss <= length (sendCases st) /\
  hd_error (sendCases st) = Some RemoveSub /\ NoDup (sendCases st) /\
  (forall s, In (Sub s) (firstn (s_k ss) (sendCases st)) -> ~ In (s_seq ss) (delivered st s)) /\
  (forall s, In (Sub s) (skipn (s_k ss) (sendCases st)) ->
             count_occ Nat.eq_dec (delivered st s) (s_seq ss) = 1) /\
  s_nsent ss = total st (s_seq ss).
Proof.
  intros H L P. pose proof (run_inv h init st inv_init H) as [I D].
  destruct (i_send _ I _ L) as [_ [Hk _]]. destruct (d_cur _ D _ L P) as [H1 [H2 H3]].
  repeat split; auto; try apply Hk; auto; try apply I.
  - apply inv1_nodup_sc; auto.
  - intros s Hs. apply NoDup_count_occ'; [|apply H2; auto].
    apply strongly_sorted_nodup. apply D.
Qed.
(* ---- send_progress (partial) ---- *)
Definition rank (ph : phase) (k : nat) : nat :=
  match ph with PMerge => 0 | PTry i => S (k - i) | PSelect => 1 | PDone => 0 end.

Definition send_measure (st : state) (ss : sendst) : nat :=
  (length (sendCases st) + s_k ss) * (length (sendCases st) + 2) + rank (s_phase ss) (s_k ss).

Lemma rank_next_phase ni k : 1 <= ni -> 1 <= k -> rank (next_phase ni k) k <= k.
Proof.
  intros H1 H2. unfold next_phase. destruct (ni <? k) eqn:E; simpl; [lia|].
  destruct (k =? 1) eqn:E2; simpl; lia.
Qed.

Definition sender_label (l : label) : bool :=
  match l with LTrySend _ | LSelectSend _ _ | LSelectRemove _ => true | _ => false end.

Lemma sent_measure st ss s i ni direct st' :
  inv1 st -> lock st = HSend ss -> s_phase ss <> PMerge ->
  case_at (sendCases st) (s_k ss) i = Some (Sub s) -> 1 <= i -> 1 <= ni ->
  sent st ss s i ni direct = Some st' ->
  exists ss', lock st' = HSend ss' /\ send_measure st' ss' < send_measure st ss.
Proof.
  intros I L P C Hi Hni H. apply case_at_spec in C. destruct C as [Hik Hnth].
  destruct (i_send _ I _ L) as [_ [Hk _]]. specialize (Hk P).
  unfold sent in H. destruct (deliver (chans st s) (s_seq ss) direct) as [c'|]; [|discriminate].
  destruct (deact_some (sendCases st) (s_k ss) i) as [[sc' k'] Ed]; [lia|lia|].
  rewrite Ed in H. inversion H; subst st'; clear H.
  pose proof (Permutation_length (deact_perm _ _ _ _ _ Ed (proj2 Hk))) as HL.
  destruct (deact_spec _ _ _ _ _ Ed (proj2 Hk)) as [x [pre [_ [_ [Hk' _]]]]].
  eexists. split; [reflexivity|]. unfold send_measure. simpl. rewrite HL.
  pose proof (rank_next_phase ni k' Hni). nia.
Qed.

(* every step of the sending thread between merge and release strictly decreases
   [send_measure]; so a Send performs at most [send_measure] such steps *)
Lemma send_measure_decreases st ss e st' :
  inv st -> lock st = HSend ss -> s_phase ss <> PMerge -> sender_label (snd e) = true ->
  step st e = Some st' ->
  exists ss', lock st' = HSend ss' /\ send_measure st' ss' < send_measure st ss.
Proof.
  intros [I D] L P SL H. unfold step in H. cbv zeta in H. destruct (panicked st); [discriminate|].
  destruct (i_send _ I _ L) as [_ [Hk Hp]]. specialize (Hk P).
  destruct (snd e) as [s0 cap| | |r|chosen d|s0| |s0|s0|s0|s0]; simpl in SL; try discriminate.
  - unfold do_try in H. rewrite L in H.
    destruct (s_phase ss) as [|i| |] eqn:Ph; try discriminate.
    destruct (Nat.eqb (s_tid ss) (fst e)); [|discriminate]. simpl in Hp.
    destruct (case_at_sub st ss i I L) as [s C]; [congruence|lia|].
    rewrite C in H. destruct r as [direct|].
    + apply (sent_measure st ss s i i direct st' I L); auto; try congruence; lia.
    + destruct (c_cap (chans st s) <=? length (c_queue (chans st s))); [|discriminate].
      inversion H; subst st'; clear H. eexists. split; [reflexivity|].
      unfold send_measure. simpl. rewrite Ph. simpl.
      unfold next_phase. destruct (S i <? s_k ss) eqn:E1; simpl; [lia|].
      destruct (s_k ss =? 1) eqn:E2; simpl; lia.
  - unfold do_select_send in H. rewrite L in H.
    destruct (s_phase ss) eqn:Ph; try discriminate.
    destruct (Nat.eqb (s_tid ss) (fst e) && negb (Nat.eqb chosen 0)) eqn:T; [|discriminate].
    apply andb_true_iff in T. destruct T as [_ T]. apply negb_true_iff, Nat.eqb_neq in T.
    destruct (case_at (sendCases st) (s_k ss) chosen) as [[|s]|] eqn:C; try discriminate.
    + exfalso. apply case_at_spec in C. destruct C as [_ C].
      apply nodup_hd_unique in C; [lia | apply inv1_nodup_sc; auto | apply I].
    + apply (sent_measure st ss s chosen 1 d st' I L); auto; try congruence; lia.
  - unfold do_select_remove in H. rewrite L in H.
    destruct (s_phase ss) eqn:Ph; try discriminate.
    destruct (ustate st s0) eqn:U; try discriminate.
    destruct (Nat.eqb (s_tid ss) (fst e)); [|discriminate].
    pose proof (i_missed _ I s0 U) as Hin.
    destruct (cl_find_in ch_eqb ch_eqb_eq _ _ Hin) as [j F]. rewrite F in H.
    destruct (cl_delete_find ch_eqb ch_eqb_eq _ _ _ F) as [a [b [Esc [Hj [_ Ed]]]]].
    rewrite Ed in H. inversion H; subst st'; clear H.
    eexists. split; [reflexivity|]. unfold send_measure. simpl. rewrite Ph. simpl in *.
    assert (HL : length (sendCases st) = S (length (a ++ b))).
    { rewrite Esc, !app_length. simpl. lia. }
    rewrite HL. set (k' := if j <? s_k ss then s_k ss - 1 else s_k ss).
    assert (Hk' : 1 <= k' <= s_k ss) by (unfold k'; destruct (j <? s_k ss); lia).
    pose proof (rank_next_phase 1 k' (le_n 1) (proj1 Hk')). nia.
Qed.

(* the sending thread is never blocked outside reflect.Select ... *)
Lemma send_nonblocking st ss :
  inv st -> lock st = HSend ss -> s_phase ss <> PSelect ->
  exists l st', step st (s_tid ss, l) = Some st'.
Proof.
  intros [I D] L P. pose proof (i_np _ I) as Np. destruct (i_send _ I _ L) as [_ [Hk Hp]].
  destruct (s_phase ss) as [|i| |] eqn:Ph; try congruence.
  - exists LSendMerge. unfold step. rewrite Np. simpl. unfold do_merge. rewrite L, Ph, Nat.eqb_refl. eauto.
  - simpl in Hp. assert (Pm : PTry i <> PMerge) by discriminate. specialize (Hk Pm).
    destruct (case_at_sub st ss i I L) as [s C]; [congruence|lia|].
    destruct (c_cap (chans st s) <=? length (c_queue (chans st s))) eqn:Full.
    + exists (LTrySend None). unfold step. rewrite Np. simpl. unfold do_try.
      rewrite L, Ph, Nat.eqb_refl, C, Full. eauto.
    + exists (LTrySend (Some false)). unfold step. rewrite Np. simpl. unfold do_try.
      rewrite L, Ph, Nat.eqb_refl, C. unfold sent, deliver.
      destruct (length (c_queue (chans st s)) <? c_cap (chans st s)) eqn:E; [|lia].
      destruct (deact_some (sendCases st) (s_k ss) i) as [[sc' k'] Ed]; [lia|lia|].
      rewrite Ed. eauto.
  - exists LSendRelease. unfold step. rewrite Np. simpl. unfold do_release. rewrite L, Ph, Nat.eqb_refl. eauto.
Qed.

(* ... and in Select it can proceed as soon as one pending subscriber's channel has room
   or an empty buffer with a blocked receiver, or an Unsubscribe is waiting on removeSub *)
Lemma send_select_enabled st ss :
  inv st -> lock st = HSend ss -> s_phase ss = PSelect ->
  ((exists i s, 1 <= i /\ case_at (sendCases st) (s_k ss) i = Some (Sub s) /\
      (length (c_queue (chans st s)) < c_cap (chans st s) \/ c_queue (chans st s) = [])) \/
   (exists s, ustate st s = UMissed)) ->
  exists l st', step st (s_tid ss, l) = Some st'.
Proof.
  intros [I D] L Ph En. pose proof (i_np _ I) as Np. destruct (i_send _ I _ L) as [_ [Hk Hp]].
  assert (Pm : s_phase ss <> PMerge) by congruence. specialize (Hk Pm).
  destruct En as [[i [s [Hi [C Hroom]]]]|[s U]].
  - pose proof (case_at_spec _ _ _ _ C) as [Hik _].
    destruct (deact_some (sendCases st) (s_k ss) i) as [[sc' k'] Ed]; [lia|lia|].
    assert (Hne : (i =? 0) = false) by (apply Nat.eqb_neq; lia).
    destruct Hroom as [Hroom|Hroom].
    + exists (LSelectSend i false). unfold step. rewrite Np. simpl. unfold do_select_send.
      rewrite L, Ph, Nat.eqb_refl, Hne, C. simpl. unfold sent, deliver.
      destruct (length (c_queue (chans st s)) <? c_cap (chans st s)) eqn:E; [|lia].
      rewrite Ed. eauto.
    + exists (LSelectSend i true). unfold step. rewrite Np. simpl. unfold do_select_send.
      rewrite L, Ph, Nat.eqb_refl, Hne, C. simpl. unfold sent, deliver. rewrite Hroom, Ed. eauto.
  - exists (LSelectRemove s). unfold step. rewrite Np. simpl. unfold do_select_remove.
    rewrite L, Ph, U, Nat.eqb_refl.
    destruct (cl_find_in ch_eqb ch_eqb_eq _ _ (i_missed _ I s U)) as [j F]. rewrite F.
    destruct (cl_delete_find ch_eqb ch_eqb_eq _ _ _ F) as [a [b [_ [_ [_ Ed]]]]]. rewrite Ed. eauto.
Qed.
