(* Event/FeedProofs.v — lemmas about Event/Feed.v: the pure caseList functions,
   the state invariants of the interleaving model, and the trace theorems that
   Properties/C50.v restates. *)
From GV Require Import Lib.Tactics Lib.Interleave Event.Feed.
From Coq Require Import Permutation Sorted.

(* ------------------------------------------------------------------------- *)
(* Part 1: caseList *)
Section CaseListProofs.
  Context {A : Type}.
  Variable eqb : A -> A -> bool.
  Hypothesis eqb_eq : forall a b, eqb a b = true <-> a = b.

  Lemma cl_find_some cs c i :
    cl_find eqb cs c = Some i ->
    cs = firstn i cs ++ c :: skipn (S i) cs /\ i < length cs /\ ~ In c (firstn i cs).
  Proof.
    revert i. induction cs as [|x r IH]; intros i H; simpl in H; [discriminate|].
    destruct (eqb x c) eqn:E.
    - inversion H; subst. apply eqb_eq in E. subst. simpl. repeat split; auto. lia.
    - destruct (cl_find eqb r c) as [j|] eqn:F; simpl in H; [|discriminate].
      inversion H; subst. destruct (IH j eq_refl) as [H1 [H2 H3]].
      simpl. repeat split.
      + f_equal. exact H1.
      + lia.
      + intros [Hx|Hin]; [|contradiction].
        subst. assert (eqb c c = true) by (apply eqb_eq; reflexivity). congruence.
  Qed.

  Lemma cl_find_none cs c : cl_find eqb cs c = None <-> ~ In c cs.
  Proof.
    induction cs as [|x r IH]; simpl.
    - split; auto.
    - destruct (eqb x c) eqn:E.
      + apply eqb_eq in E. subst. split; [discriminate | intros H; exfalso; apply H; auto].
      + destruct (cl_find eqb r c) eqn:F; simpl.
        * split; [discriminate|]. intros H.
          assert (Hn : ~ In c r) by tauto. apply IH in Hn. discriminate.
        * split; auto. intros _ [Hx|Hin].
          -- subst. assert (eqb c c = true) by (apply eqb_eq; reflexivity). congruence.
          -- apply IH in Hin; auto.
  Qed.

  Lemma cl_find_in cs c : In c cs -> exists i, cl_find eqb cs c = Some i.
  Proof.
    intros H. destruct (cl_find eqb cs c) as [i|] eqn:F; eauto.
    apply cl_find_none in F. contradiction.
  Qed.

  Lemma cl_find_nth cs c i : cl_find eqb cs c = Some i -> nth_error cs i = Some c.
  Proof.
    intros H. destruct (cl_find_some _ _ _ H) as [H1 [H2 _]].
    rewrite H1. rewrite nth_error_app2; rewrite firstn_length_le by lia; [|lia].
    rewrite Nat.sub_diag. reflexivity.
  Qed.

  (* delete never panics on an index returned by find, removes exactly that
     element and keeps the order of the others *)
  Lemma cl_delete_find cs c i :
    cl_find eqb cs c = Some i ->
    exists a b, cs = a ++ c :: b /\ length a = i /\ ~ In c a /\
                cl_delete cs (Some i) = Some (a ++ b).
  Proof.
    intros H. destruct (cl_find_some _ _ _ H) as [H1 [H2 H3]].
    exists (firstn i cs), (skipn (S i) cs). repeat split; auto.
    - apply firstn_length_le. lia.
    - unfold cl_delete. destruct (i <? length cs) eqn:E; [reflexivity|lia].
  Qed.

  Lemma cl_delete_none_iff (cs : list A) idx :
    cl_delete cs idx = None <-> match idx with None => True | Some i => length cs <= i end.
  Proof.
    unfold cl_delete. destruct idx as [i|]; [|tauto].
    destruct (i <? length cs) eqn:E; split; intros; try discriminate; try lia; auto.
  Qed.

End CaseListProofs.

Section CaseListSwap.
  Context {A : Type}.

  Lemma length_upd (l : list A) i v : length (upd l i v) = length l.
  Proof. revert i. induction l; intros [|i]; simpl; auto. Qed.

  Lemma nth_error_upd (l : list A) i v j :
    nth_error (upd l i v) j =
    if Nat.eqb j i then (if i <? length l then Some v else None) else nth_error l j.
  Proof.
    revert i j. induction l as [|x r IH]; intros i j; simpl.
    - destruct (Nat.eqb j i); destruct j, i; reflexivity.
    - destruct i as [|i]; destruct j as [|j]; simpl; auto.
      rewrite IH. destruct (Nat.eqb j i); auto.
  Qed.

  Lemma perm_upd (r : list A) j y a :
    nth_error r j = Some y -> Permutation (y :: upd r j a) (a :: r).
  Proof.
    revert j. induction r as [|x r IH]; intros [|j] H; simpl in *; try discriminate.
    - inversion H; subst. apply perm_swap.
    - specialize (IH j H).
      eapply perm_trans; [apply perm_swap|].
      eapply perm_trans; [apply perm_skip; exact IH|]. apply perm_swap.
  Qed.

  Lemma perm_swap_upd (l : list A) i j x y :
    nth_error l i = Some x -> nth_error l j = Some y ->
    Permutation (upd (upd l i y) j x) l.
  Proof.
    revert i j. induction l as [|a r IH]; intros [|i] [|j] Hi Hj; simpl in *; try discriminate.
    - inversion Hi; inversion Hj; subst. subst. apply Permutation_refl.
    - inversion Hi; subst. apply perm_upd. exact Hj.
    - inversion Hj; subst. apply perm_upd. exact Hi.
    - apply perm_skip. apply IH; auto.
  Qed.

  Lemma last_split (l : list A) n x :
    length l = S n -> nth_error l n = Some x -> l = firstn n l ++ [x].
  Proof.
    intros Hl Hn. rewrite <- (firstn_skipn n l) at 1. f_equal.
    assert (Hs : length (skipn n l) = 1) by (rewrite skipn_length; lia).
    destruct (skipn n l) as [|y [|z t]] eqn:E; simpl in Hs; try lia.
    f_equal. rewrite <- (firstn_skipn n l) in Hn.
    rewrite nth_error_app2 in Hn; rewrite firstn_length_le in * by lia; [|lia].
    rewrite Nat.sub_diag, E in Hn. simpl in Hn. congruence.
  Qed.

  (* deactivate: the chosen case becomes the last element of the segment, the
     returned slice is the segment without it, nothing is lost or duplicated,
     and positions below min(index,last) are untouched *)
  Lemma cl_deactivate_spec (cs : list A) i pre whole :
    cl_deactivate cs i = Some (pre, whole) ->
    exists x, nth_error cs i = Some x /\ i < length cs /\
              whole = pre ++ [x] /\ S (length pre) = length cs /\
              Permutation whole cs /\
              (forall j, j < i -> nth_error whole j = nth_error cs j).
  Proof.
    unfold cl_deactivate. destruct (length cs) as [|last] eqn:Hl; [discriminate|].
    destruct (nth_error cs i) as [x|] eqn:Hi; [|discriminate].
    destruct (nth_error cs last) as [y|] eqn:Hy; [|discriminate].
    intros H. inversion H; subst; clear H.
    assert (Hil : i < length cs) by (apply nth_error_Some; congruence).
    set (w := upd (upd cs i y) last x).
    assert (Hlw : length w = S last) by (unfold w; rewrite !length_upd; auto).
    assert (Hnw : nth_error w last = Some x).
    { unfold w. rewrite nth_error_upd, Nat.eqb_refl, length_upd.
      destruct (last <? length cs) eqn:E; [reflexivity|lia]. }
    exists x. split; [reflexivity|]. split; [lia|]. split; [|split; [|split]].
    - apply last_split; auto.
    - rewrite firstn_length_le; lia.
    - unfold w. apply perm_swap_upd; auto.
    - intros j Hj. unfold w. rewrite !nth_error_upd.
      destruct (Nat.eqb j last) eqn:E1; [apply Nat.eqb_eq in E1; lia|].
      destruct (Nat.eqb j i) eqn:E2; [apply Nat.eqb_eq in E2; lia|]. reflexivity.
  Qed.

  Lemma cl_deactivate_some (cs : list A) i :
    i < length cs -> exists pre whole, cl_deactivate cs i = Some (pre, whole).
  Proof.
    intros H. unfold cl_deactivate. destruct (length cs) as [|last] eqn:Hl; [lia|].
    destruct (nth_error cs i) eqn:Hi; [|apply nth_error_None in Hi; lia].
    destruct (nth_error cs last) eqn:Hy; [|apply nth_error_None in Hy; lia].
    eauto.
  Qed.

  Lemma cl_deactivate_none_iff (cs : list A) i : cl_deactivate cs i = None <-> length cs <= i.
  Proof.
    split.
    - intros H. destruct (Nat.lt_ge_cases i (length cs)) as [Hlt|]; auto.
      destruct (cl_deactivate_some _ _ Hlt) as [p [w E]]. congruence.
    - intros H. unfold cl_deactivate. destruct (length cs) as [|last] eqn:Hl; auto.
      destruct (nth_error cs i) eqn:Hi; auto.
      assert (i < length cs) by (apply nth_error_Some; congruence). lia.
  Qed.
End CaseListSwap.

(* ------------------------------------------------------------------------- *)
(* Part 2: list facts used by the feed invariants *)

Lemma ch_eqb_eq a b : ch_eqb a b = true <-> a = b.
Proof.
  destruct a as [|x], b as [|y]; simpl; split; intros H; try discriminate; auto.
  - apply Nat.eqb_eq in H. subst. reflexivity.
  - inversion H. apply Nat.eqb_refl.
Qed.

Lemma nth_firstn {A} (l : list A) k i : i < k -> nth_error (firstn k l) i = nth_error l i.
Proof.
  revert k i. induction l as [|x r IH]; intros [|k] [|i] H; simpl; auto; try lia.
  apply IH. lia.
Qed.

Lemma firstn_len_app {A} (a b : list A) : firstn (length a) (a ++ b) = a.
Proof. induction a; simpl; auto. f_equal. auto. Qed.

Lemma skipn_len_app {A} (a b : list A) : skipn (length a) (a ++ b) = b.
Proof. induction a; simpl; auto. Qed.

(* caselist_inv, deactivate half: on the shared array, deactivating case i of the
   prefix cases = sendCases[:k] moves it to position k-1 (the head of the inactive
   suffix), keeps sendCases a permutation, leaves the suffix and index 0 alone *)
Lemma deact_spec sc k i sc' k' :
  deact sc k i = Some (sc', k') -> k <= length sc ->
  exists x pre, nth_error sc i = Some x /\ i < k /\ S k' = k /\ length pre = k' /\
     sc' = pre ++ x :: skipn k sc /\ Permutation (pre ++ [x]) (firstn k sc) /\
     (forall j, j < i -> nth_error sc' j = nth_error sc j).
Proof.
  unfold deact. destruct (cl_deactivate (firstn k sc) i) as [[pre whole]|] eqn:E; [|discriminate].
  intros H Hk. inversion H; subst; clear H.
  destruct (cl_deactivate_spec _ _ _ _ E) as [x [H1 [H2 [H3 [H4 [H5 H6]]]]]].
  rewrite firstn_length_le in * by lia.
  exists x, pre. rewrite nth_firstn in H1 by lia. subst whole.
  repeat split; auto; try lia.
  - rewrite <- app_assoc. reflexivity.
  - intros j Hj. rewrite nth_error_app1 by (rewrite app_length; simpl; lia).
    rewrite H6 by lia. apply nth_firstn. lia.
Qed.

Lemma deact_some sc k i : i < k -> k <= length sc -> exists r, deact sc k i = Some r.
Proof.
  intros Hi Hk. unfold deact.
  destruct (cl_deactivate_some (firstn k sc) i) as [p [w E]].
  - rewrite firstn_length_le; lia.
  - rewrite E. eauto.
Qed.

Lemma deact_perm sc k i sc' k' :
  deact sc k i = Some (sc', k') -> k <= length sc -> Permutation sc' sc.
Proof.
  intros H Hk. destruct (deact_spec _ _ _ _ _ H Hk) as [x [pre [_ [_ [_ [_ [E [P _]]]]]]]].
  subst sc'. rewrite <- (firstn_skipn k sc) at 2.
  change (x :: skipn k sc) with ([x] ++ skipn k sc). rewrite app_assoc.
  apply Permutation_app_tail. exact P.
Qed.

(* caselist_inv, delete half: removing the (unique) occurrence of c at index j from
   sendCases and adjusting len(cases) exactly as feed.go:164-167 does keeps both the
   active prefix and the inactive suffix sub-lists of what they were *)
Definition adj (j k : nat) : nat := if j <? k then k - 1 else k.

Lemma delete_firstn {A} (a b : list A) c k y :
  In y (firstn (adj (length a) k) (a ++ b)) -> In y (firstn k (a ++ c :: b)).
Proof.
  unfold adj. rewrite !firstn_app. destruct (length a <? k) eqn:E.
  - assert (Hk : k - length a = S (k - 1 - length a)) by lia. rewrite Hk. simpl.
    rewrite (@firstn_all2 _ (k - 1) a), (@firstn_all2 _ k a) by lia.
    rewrite !in_app_iff. simpl. tauto.
  - assert (Hk : k - length a = 0) by lia. rewrite Hk. simpl. auto.
Qed.

Lemma delete_skipn {A} (a b : list A) c k y :
  In y (skipn (adj (length a) k) (a ++ b)) -> In y (skipn k (a ++ c :: b)).
Proof.
  unfold adj. rewrite !skipn_app. destruct (length a <? k) eqn:E.
  - assert (Hk : k - length a = S (k - 1 - length a)) by lia. rewrite Hk. simpl.
    rewrite (@skipn_all2 _ (k - 1) a), (@skipn_all2 _ k a) by lia. simpl. auto.
  - assert (Hk : k - length a = 0) by lia. rewrite Hk. simpl.
    rewrite !in_app_iff. simpl. tauto.
Qed.

Lemma in_delete {A} (a b : list A) c y :
  NoDup (a ++ c :: b) -> (In y (a ++ b) <-> In y (a ++ c :: b) /\ y <> c).
Proof.
  intros ND. apply NoDup_remove in ND. destruct ND as [_ Hn].
  rewrite !in_app_iff in *. simpl. split.
  - intros H. split; [tauto|]. intros ->. tauto.
  - intros [[H|[H|H]] Hne]; auto. congruence.
Qed.

Lemma nodup_hd_unique sc i :
  NoDup sc -> hd_error sc = Some RemoveSub -> nth_error sc i = Some RemoveSub -> i = 0.
Proof.
  intros ND Hh Hi. destruct sc as [|x r]; [discriminate|]. simpl in Hh. inversion Hh; subst.
  destruct i as [|i]; auto. simpl in Hi. apply nth_error_In in Hi.
  inversion ND; subst. contradiction.
Qed.

Lemma strongly_sorted_snoc l m :
  StronglySorted lt l -> (forall x, In x l -> x < m) -> StronglySorted lt (l ++ [m]).
Proof.
  induction 1 as [|a l Hs IH Hf]; intros Hlt; simpl.
  - constructor; constructor.
  - constructor.
    + apply IH. intros x Hx. apply Hlt. right. auto.
    + apply Forall_app. split; auto. constructor; auto. apply Hlt. left. auto.
Qed.

Lemma strongly_sorted_nodup l : StronglySorted lt l -> NoDup l.
Proof.
  induction 1 as [|a l Hs IH Hf]; constructor; auto.
  intros Hin. rewrite Forall_forall in Hf. specialize (Hf a Hin). lia.
Qed.

(* a occurs strictly before b in l *)
Definition before (a b : nat) (l : list nat) : Prop :=
  exists l1 l2 l3, l = l1 ++ a :: l2 ++ b :: l3.

Lemma sorted_before_lt l a b : StronglySorted lt l -> before a b l -> a < b.
Proof.
  intros Hs [l1 [l2 [l3 E]]]. subst l. revert Hs. induction l1 as [|x l1 IH]; simpl; intros Hs.
  - inversion Hs as [|? ? _ Hf]; subst. rewrite Forall_forall in Hf. apply Hf.
    apply in_app_iff. right. left. auto.
  - inversion Hs; subst. auto.
Qed.

Lemma sorted_lt_before l a b :
  StronglySorted lt l -> In a l -> In b l -> a < b -> before a b l.
Proof.
  induction 1 as [|x l Hs IH Hf]; intros Ha Hb Hlt; [contradiction|].
  rewrite Forall_forall in Hf. destruct Ha as [Ha|Ha].
  - subst x. destruct Hb as [Hb|Hb]; [lia|].
    apply in_split in Hb. destruct Hb as [l2 [l3 E]]. exists [], l2, l3. simpl. f_equal. exact E.
  - destruct Hb as [Hb|Hb].
    + subst x. specialize (Hf a Ha). lia.
    + destruct (IH Ha Hb Hlt) as [l1 [l2 [l3 E]]]. exists (x :: l1), l2, l3. simpl. f_equal. exact E.
Qed.

(* ------------------------------------------------------------------------- *)
(* Part 3: structural invariant of the feed state *)

Definition phase_ok (ph : phase) (k : nat) : Prop :=
  match ph with
  | PMerge => True
  | PTry i => 1 <= i < k
  | PSelect => 1 < k
  | PDone => k = 1
  end.

Definition mem (st : state) (c : ch) : Prop := In c (inbox st ++ sendCases st).

Record inv1 (st : state) : Prop := {
  i_np : panicked st = false;
  i_hd : hd_error (sendCases st) = Some RemoveSub;
  i_nd : NoDup (inbox st ++ sendCases st);
  i_fresh : forall s, ustate st s = UFresh -> ~ mem st (Sub s) /\ delivered st s = [];
  i_done : forall s, ustate st s = UDone -> ~ mem st (Sub s);
  i_missed : forall s, ustate st s = UMissed -> In (Sub s) (sendCases st);
  i_active : forall s, ustate st s = UActive -> mem st (Sub s);
  i_hun : forall s, lock st = HUnsub s -> ustate st s = UMissed;
  i_all : forall s, In s (allsubs st) <-> ustate st s <> UFresh;
  i_alln : NoDup (allsubs st);
  i_send : forall ss, lock st = HSend ss ->
             nextseq st = S (s_seq ss) /\
             (s_phase ss <> PMerge -> 1 <= s_k ss <= length (sendCases st)) /\
             phase_ok (s_phase ss) (s_k ss) }.

Lemma next_phase_ok ni k : 1 <= ni -> 1 <= k -> phase_ok (next_phase ni k) k.
Proof.
  intros H1 H2. unfold next_phase. destruct (ni <? k) eqn:E1; simpl; [lia|].
  destruct (k =? 1) eqn:E2; simpl; lia.
Qed.

Lemma next_phase_not_merge ni k : next_phase ni k <> PMerge.
Proof. unfold next_phase. destruct (ni <? k); [discriminate|]. destruct (k =? 1); discriminate. Qed.

Lemma inv1_init : inv1 init.
Proof.
  constructor; simpl; unfold mem; simpl; auto; try discriminate.
  - constructor; [intros []|constructor].
  - intros s _. split; auto. intros [H|[]]. discriminate.
  - intros s. split; [intros []|]. intros H. contradiction.
  - constructor.
Qed.

Ltac inv_some H :=
  repeat match type of H with
  | match ?x with _ => _ end = Some _ =>
      let E := fresh "E" in destruct x eqn:E; try discriminate H
  end;
  try (inversion H; subst; clear H).

Ltac fupd_cases x s :=
  unfold fupd in *; destruct (Nat.eqb_spec x s); subst; try congruence.

Lemma mem_sendcases st c : In c (sendCases st) -> mem st c.
Proof. unfold mem. rewrite in_app_iff. auto. Qed.

Lemma removesub_in st : inv1 st -> In RemoveSub (sendCases st).
Proof.
  intros I. pose proof (i_hd _ I) as H. destruct (sendCases st); [discriminate|].
  simpl in H. inversion H. left. auto.
Qed.

Lemma sub_allsubs st s : inv1 st -> mem st (Sub s) -> In s (allsubs st).
Proof.
  intros I H. apply (i_all _ I). intros F. apply (i_fresh _ I) in F. tauto.
Qed.

Lemma subscribe_inv1 st s cap st' : inv1 st -> do_subscribe st s cap = Some st' -> inv1 st'.
Proof.
  intros I H. unfold do_subscribe in H. inv_some H.
  pose proof (i_fresh _ I s E) as [Hnm Hd]. unfold mem in *.
  constructor; simpl; unfold mem; simpl; try apply I.
  - rewrite <- app_assoc. simpl.
    apply (proj2 (NoDup_Add (Add_app (Sub s) (inbox st) (sendCases st)))).
    split; [apply I | exact Hnm].
  - intros x Hx. fupd_cases x s. destruct (i_fresh _ I x Hx) as [H1 H2]. split.
    + unfold mem in H1. rewrite !in_app_iff in *. simpl. intros [[H|[H|[]]]|H]; try tauto. congruence.
    + unfold delivered in *. simpl. destruct (Nat.eqb_spec x s); [congruence|]. exact H2.
  - intros x Hx. fupd_cases x s. pose proof (i_done _ I x Hx) as H1. unfold mem in H1.
    rewrite !in_app_iff in *. simpl. intros [[H|[H|[]]]|H]; try tauto. congruence.
  - intros x Hx. fupd_cases x s. apply (i_missed _ I x Hx).
  - intros x Hx. rewrite !in_app_iff. simpl. fupd_cases x s; [tauto|].
    pose proof (i_active _ I x Hx) as H1. unfold mem in H1. rewrite in_app_iff in H1. tauto.
  - intros x Hx. pose proof (i_hun _ I x Hx). fupd_cases x s.
  - intros x. rewrite in_app_iff. simpl. fupd_cases x s.
    + split; [discriminate | auto].
    + rewrite (i_all _ I x). split; [intros [H|[H|[]]]; auto; congruence | auto].
  - apply (proj2 (NoDup_Add (Add_app s (allsubs st) []))). rewrite app_nil_r.
    split; [apply I|]. rewrite (i_all _ I s). tauto.
Qed.

Lemma inv1_frame st st' :
  inv1 st -> panicked st' = false -> hd_error (sendCases st') = Some RemoveSub ->
  Permutation (inbox st' ++ sendCases st') (inbox st ++ sendCases st) ->
  (forall c, In c (sendCases st) -> In c (sendCases st')) ->
  ustate st' = ustate st -> allsubs st' = allsubs st ->
  (forall s, ustate st s = UFresh -> delivered st' s = []) ->
  (forall s, lock st' = HUnsub s -> ustate st s = UMissed) ->
  (forall ss, lock st' = HSend ss ->
     nextseq st' = S (s_seq ss) /\
     (s_phase ss <> PMerge -> 1 <= s_k ss <= length (sendCases st')) /\
     phase_ok (s_phase ss) (s_k ss)) ->
  inv1 st'.
Proof.
  intros I Hp Hh HP Hsc Hu Ha Hd Hl Hs.
  assert (Hm : forall c, mem st' c <-> mem st c).
  { intros c. unfold mem. split; apply Permutation_in; [exact HP | apply Permutation_sym; exact HP]. }
  constructor; auto; try rewrite Hu; try rewrite Ha; try apply I.
  - eapply Permutation_NoDup; [apply Permutation_sym; exact HP | apply I].
  - intros s F. split; [rewrite Hm; apply (i_fresh _ I s F) | auto].
  - intros s F. rewrite Hm. apply (i_done _ I s F).
  - intros s F. apply Hsc. apply (i_missed _ I s F).
  - intros s F. rewrite Hm. apply (i_active _ I s F).
  - exact Hl.
Qed.

Lemma acquire_inv1 st t st' : inv1 st -> do_acquire st t = Some st' -> inv1 st'.
Proof.
  intros I H. unfold do_acquire in H. inv_some H.
  apply (inv1_frame st); simpl; auto; try apply I.
  - intros s F. apply (i_fresh _ I s F).
  - discriminate.
  - intros ss F. inversion F; subst; simpl. repeat split; auto. congruence.
Qed.

Lemma merge_inv1 st t st' : inv1 st -> do_merge st t = Some st' -> inv1 st'.
Proof.
  intros I H. unfold do_merge in H. inv_some H.
  pose proof (i_hd _ I) as Hh. pose proof (i_send _ I _ E) as [Hn _].
  apply (inv1_frame st); simpl; auto; try apply I.
  - destruct (sendCases st); [discriminate|]. exact Hh.
  - apply Permutation_app_comm.
  - intros c Hc. apply in_app_iff. auto.
  - intros s F. apply (i_fresh _ I s F).
  - discriminate.
  - intros ss' F. inversion F; subst; simpl. split; [exact Hn|].
    assert (1 <= length (sendCases st ++ inbox st)).
    { rewrite app_length. destruct (sendCases st); [discriminate|]. simpl. lia. }
    split; [lia|]. apply next_phase_ok; lia.
Qed.

Lemma release_inv1 st t st' : inv1 st -> do_release st t = Some st' -> inv1 st'.
Proof.
  intros I H. unfold do_release in H. inv_some H.
  apply (inv1_frame st); simpl; auto; try apply I; try discriminate.
  intros s F. apply (i_fresh _ I s F).
Qed.

Lemma unsub_acquire_inv1 st s st' : inv1 st -> do_unsub_acquire st s = Some st' -> inv1 st'.
Proof.
  intros I H. unfold do_unsub_acquire in H. inv_some H.
  apply (inv1_frame st); simpl; auto; try apply I; try discriminate.
  - intros x F. apply (i_fresh _ I x F).
  - intros x F. inversion F; subst. auto.
Qed.

Lemma recv_inv1 st s st' : inv1 st -> do_recv st s = Some st' -> inv1 st'.
Proof.
  intros I H. unfold do_recv in H. inv_some H.
  apply (inv1_frame st); simpl; auto; try apply I.
  intros x F. destruct (i_fresh _ I x F) as [_ Hd]. unfold delivered in *. simpl.
  fupd_cases x s. simpl. rewrite E in Hd. destruct (c_recvd (chans st s)); discriminate.
Qed.
