(* Event/Feed.v — executable interleaving model of /repo/event/feed.go (Feed) and
   /repo/event/feedof.go (FeedOf[T]: the same algorithm without reflection on the
   value type; one model for both).  Model only; proofs are in Event/FeedProofs.v.

   Concurrency is modelled as interleavings (Lib/Interleave.v): the atomic steps
   are exactly the regions the Go code protects with one mutex (f.mu), one channel
   operation (<-f.sendLock, f.sendLock <-, TrySend, a subscriber's receive) or one
   select (reflect.Select in Send; the select in remove).  [step] is executable and
   scheduler independent; [None] = the step is not enabled.

   Abstractions (named, see checks/C50.json):
   * a subscription is identified by its channel, channels are distinct ([Sub s]);
     the value carried by a Send is abstracted to the identity of that Send
     operation: its sequence number [s_seq] = number of Sends that took sendLock
     before it (ghost [nextseq]);
   * a subscriber channel is a bounded FIFO queue of capacity [c_cap] (0 = rendezvous)
     plus the list of values already received; a send completes either by buffering
     (space available) or by direct hand-off to a receiver blocked on the empty
     channel (this is the only way to complete on a capacity-0 channel);
   * a Go panic (index out of range in delete/deactivate) sets [panicked]. *)
From Coq Require Import List Arith Bool.
Import ListNotations.

(* ------------------------------------------------------------------------- *)
(* caseList (feed.go:200-222), generic in the element type (ints in the
   correspondence hook, channels in the feed model).                          *)
Section CaseList.
  Context {A : Type}.
  Variable eqb : A -> A -> bool.

  (* feed.go:203  func (cs caseList) find(channel) int  — [None] is Go's -1 *)
  Fixpoint cl_find (cs : list A) (c : A) : option nat :=
    match cs with
    | [] => None
    | x :: r => if eqb x c then Some 0 else option_map S (cl_find r c)
    end.

  (* feed.go:213  delete(index) = append(cs[:index], cs[index+1:]...)
     panics ([None]) unless 0 <= index < len(cs) *)
  Definition cl_delete (cs : list A) (index : option nat) : option (list A) :=
    match index with
    | None => None
    | Some i => if i <? length cs then Some (firstn i cs ++ skipn (S i) cs) else None
    end.

  (* cs[i] = v *)
  Fixpoint upd (l : list A) (i : nat) (v : A) : list A :=
    match l, i with
    | [], _ => []
    | _ :: r, 0 => v :: r
    | x :: r, S j => x :: upd r j v
    end.

  (* feed.go:218  deactivate(index): last := len(cs)-1; cs[index], cs[last] =
     cs[last], cs[index]; return cs[:last].  Returns (cs[:last], the whole backing
     segment cs[:len] after the swap) — the second component is what an alias of
     the same array (f.sendCases) observes.  Panics on an empty cs or index out of range. *)
  Definition cl_deactivate (cs : list A) (index : nat) : option (list A * list A) :=
    match length cs with
    | 0 => None
    | S last =>
        match nth_error cs index, nth_error cs last with
        | Some x, Some y =>
            let cs' := upd (upd cs index y) last x in
            Some (firstn last cs', cs')
        | _, _ => None
        end
    end.
End CaseList.

(* ------------------------------------------------------------------------- *)
(* feed state *)

Inductive ch := RemoveSub | Sub (s : nat).

Definition ch_eqb (a b : ch) : bool :=
  match a, b with
  | RemoveSub, RemoveSub => true
  | Sub x, Sub y => Nat.eqb x y
  | _, _ => false
  end.

(* where a running Send is: before the inbox merge; in the TrySend loop at index i;
   blocked in reflect.Select; after the break (about to release) *)
Inductive phase := PMerge | PTry (i : nat) | PSelect | PDone.

Record sendst := {
  s_tid : nat;      (* the sending thread *)
  s_seq : nat;      (* identity of this Send = the value it carries (ghost) *)
  s_k : nat;        (* len(cases); cases = f.sendCases[:s_k] (same backing array) *)
  s_phase : phase;
  s_nsent : nat }.

(* f.sendLock: the token is in the channel (Free) or held by a Send / by remove *)
Inductive holder := Free | HSend (ss : sendst) | HUnsub (s : nat).

(* life cycle of one subscription (feedSub; errOnce makes Unsubscribe run once) *)
Inductive ust :=
| UFresh     (* Subscribe not called yet *)
| UActive    (* Subscribe returned, Unsubscribe has not passed the inbox check *)
| UMissed    (* remove: not found in inbox; at the select {removeSub<-ch | <-sendLock} *)
| UDone.     (* remove returned *)

Record chanst := { c_cap : nat; c_queue : list nat; c_recvd : list nat }.

Record state := {
  inbox : list ch;
  sendCases : list ch;         (* index 0 = removeSub *)
  lock : holder;
  nextseq : nat;               (* ghost: number of Sends that acquired sendLock *)
  chans : nat -> chanst;
  ustate : nat -> ust;
  allsubs : list nat;          (* ghost: every subscription ever made, in order *)
  results : list (nat * nat);  (* ghost: (s_seq, nsent) of every returned Send *)
  panicked : bool }.

Definition fupd {B} (f : nat -> B) (s : nat) (v : B) : nat -> B :=
  fun x => if Nat.eqb x s then v else f x.

(* Feed.init *)
Definition init : state := {|
  inbox := []; sendCases := [RemoveSub]; lock := Free; nextseq := 0;
  chans := fun _ => {| c_cap := 0; c_queue := []; c_recvd := [] |};
  ustate := fun _ => UFresh; allsubs := []; results := []; panicked := false |}.

(* everything ever put on subscription s's channel, in order *)
Definition delivered (st : state) (s : nat) : list nat :=
  c_recvd (chans st s) ++ c_queue (chans st s).

(* one channel send of m: by direct hand-off to a blocked receiver (queue empty) or
   into the buffer (space available) *)
Definition deliver (c : chanst) (m : nat) (direct : bool) : option chanst :=
  if direct then
    match c_queue c with
    | [] => Some {| c_cap := c_cap c; c_queue := []; c_recvd := c_recvd c ++ [m] |}
    | _ :: _ => None
    end
  else if length (c_queue c) <? c_cap c
       then Some {| c_cap := c_cap c; c_queue := c_queue c ++ [m]; c_recvd := c_recvd c |}
       else None.

(* for-loop bookkeeping of Send (no shared access): with loop index i and len(cases)=k,
   continue the TrySend loop, or break (k == firstSubSendCase), or go to Select *)
Definition next_phase (i k : nat) : phase :=
  if i <? k then PTry i else if k =? 1 then PDone else PSelect.

(* cases[i] where cases = sendCases[:k] *)
Definition case_at (sc : list ch) (k i : nat) : option ch :=
  if i <? k then nth_error sc i else None.

(* cases = cases.deactivate(i) on the prefix of length k of the shared array *)
Definition deact (sc : list ch) (k i : nat) : option (list ch * nat) :=
  match cl_deactivate (firstn k sc) i with
  | Some (pre, whole) => Some (whole ++ skipn k sc, length pre)
  | None => None
  end.

Definition with_panic (st : state) : state := {|
  inbox := inbox st; sendCases := sendCases st; lock := lock st; nextseq := nextseq st;
  chans := chans st; ustate := ustate st; allsubs := allsubs st; results := results st;
  panicked := true |}.

Definition set_send (st : state) (sc : list ch) (ss : sendst) : state := {|
  inbox := inbox st; sendCases := sc; lock := HSend ss; nextseq := nextseq st;
  chans := chans st; ustate := ustate st; allsubs := allsubs st; results := results st;
  panicked := panicked st |}.

(* feed.go:73 Subscribe: under f.mu, f.inbox = append(f.inbox, cas); the new channel
   has capacity cap and is empty *)
Definition do_subscribe (st : state) (s cap : nat) : option state :=
  match ustate st s with
  | UFresh => Some {|
      inbox := inbox st ++ [Sub s]; sendCases := sendCases st; lock := lock st;
      nextseq := nextseq st;
      chans := fupd (chans st) s {| c_cap := cap; c_queue := []; c_recvd := [] |};
      ustate := fupd (ustate st) s UActive; allsubs := allsubs st ++ [s];
      results := results st; panicked := panicked st |}
  | _ => None
  end.

(* feed.go:128  <-f.sendLock *)
Definition do_acquire (st : state) (t : nat) : option state :=
  match lock st with
  | Free => Some {|
      inbox := inbox st; sendCases := sendCases st;
      lock := HSend {| s_tid := t; s_seq := nextseq st; s_k := 0; s_phase := PMerge; s_nsent := 0 |};
      nextseq := S (nextseq st); chans := chans st; ustate := ustate st;
      allsubs := allsubs st; results := results st; panicked := panicked st |}
  | _ => None
  end.

(* feed.go:131-144  under f.mu: sendCases = append(sendCases, inbox...); inbox = nil;
   then cases := f.sendCases and the loop starts at i = firstSubSendCase *)
Definition do_merge (st : state) (t : nat) : option state :=
  match lock st with
  | HSend ss =>
      match s_phase ss with
      | PMerge =>
          if Nat.eqb (s_tid ss) t then
            let sc := sendCases st ++ inbox st in
            Some {|
              inbox := []; sendCases := sc;
              lock := HSend {| s_tid := t; s_seq := s_seq ss; s_k := length sc;
                               s_phase := next_phase 1 (length sc); s_nsent := s_nsent ss |};
              nextseq := nextseq st; chans := chans st; ustate := ustate st;
              allsubs := allsubs st; results := results st; panicked := panicked st |}
          else None
      | _ => None
      end
  | _ => None
  end.

(* a successful channel send on cases[i] (TrySend or the chosen Select case):
   nsent++ ; cases = cases.deactivate(i); loop index continues at [ni] *)
Definition sent (st : state) (ss : sendst) (s i ni : nat) (direct : bool) : option state :=
  match deliver (chans st s) (s_seq ss) direct with
  | None => None
  | Some c' =>
      match deact (sendCases st) (s_k ss) i with
      | None => Some (with_panic st)
      | Some (sc', k') => Some {|
          inbox := inbox st; sendCases := sc';
          lock := HSend {| s_tid := s_tid ss; s_seq := s_seq ss; s_k := k';
                           s_phase := next_phase ni k'; s_nsent := S (s_nsent ss) |};
          nextseq := nextseq st; chans := fupd (chans st) s c'; ustate := ustate st;
          allsubs := allsubs st; results := results st; panicked := panicked st |}
      end
  end.

(* feed.go:149-155  one iteration of the fast path: cases[i].Chan.TrySend(rvalue).
   r = None: TrySend returned false (buffer full and no receiver blocked);
   r = Some direct: it succeeded (nsent++, deactivate(i), i--; then i++). *)
Definition do_try (st : state) (t : nat) (r : option bool) : option state :=
  match lock st with
  | HSend ss =>
      match s_phase ss with
      | PTry i =>
          if Nat.eqb (s_tid ss) t then
            match case_at (sendCases st) (s_k ss) i with
            | Some (Sub s) =>
                match r with
                | None =>
                    if c_cap (chans st s) <=? length (c_queue (chans st s)) then
                      Some (set_send st (sendCases st)
                              {| s_tid := t; s_seq := s_seq ss; s_k := s_k ss;
                                 s_phase := next_phase (S i) (s_k ss); s_nsent := s_nsent ss |})
                    else None
                | Some direct => sent st ss s i i direct
                end
            | _ => Some (with_panic st)
            end
          else None
      | _ => None
      end
  | _ => None
  end.

(* feed.go:160,168-171  reflect.Select chose send case [chosen] (>= 1):
   cases = cases.deactivate(chosen); nsent++; back to the top of the for loop *)
Definition do_select_send (st : state) (t chosen : nat) (direct : bool) : option state :=
  match lock st with
  | HSend ss =>
      match s_phase ss with
      | PSelect =>
          if Nat.eqb (s_tid ss) t && negb (Nat.eqb chosen 0) then
            match case_at (sendCases st) (s_k ss) chosen with
            | Some (Sub s) => sent st ss s chosen 1 direct
            | Some RemoveSub => Some (with_panic st)
            | None => None
            end
          else None
      | _ => None
      end
  | _ => None
  end.

(* feed.go:160-167 + feed.go:109  reflect.Select chose case 0: rendezvous on
   f.removeSub with an Unsubscribe of s blocked in its select:
   index := f.sendCases.find(ch); f.sendCases = f.sendCases.delete(index);
   if index >= 0 && index < len(cases) { cases = f.sendCases[:len(cases)-1] }.
   The Unsubscribe's select completes in the same step (remove returns). *)
Definition do_select_remove (st : state) (t s : nat) : option state :=
  match lock st with
  | HSend ss =>
      match s_phase ss, ustate st s with
      | PSelect, UMissed =>
          if Nat.eqb (s_tid ss) t then
            let index := cl_find ch_eqb (sendCases st) (Sub s) in
            match cl_delete (sendCases st) index with
            | None => Some (with_panic st)
            | Some sc' =>
                let k' := match index with
                          | Some j => if j <? s_k ss then s_k ss - 1 else s_k ss
                          | None => s_k ss
                          end in
                Some {|
                  inbox := inbox st; sendCases := sc';
                  lock := HSend {| s_tid := t; s_seq := s_seq ss; s_k := k';
                                   s_phase := next_phase 1 k'; s_nsent := s_nsent ss |};
                  nextseq := nextseq st; chans := chans st;
                  ustate := fupd (ustate st) s UDone;
                  allsubs := allsubs st; results := results st; panicked := panicked st |}
            end
          else None
      | _, _ => None
      end
  | _ => None
  end.

(* feed.go:174-179  f.sendLock <- struct{}{}; return nsent *)
Definition do_release (st : state) (t : nat) : option state :=
  match lock st with
  | HSend ss =>
      match s_phase ss with
      | PDone =>
          if Nat.eqb (s_tid ss) t then Some {|
            inbox := inbox st; sendCases := sendCases st; lock := Free; nextseq := nextseq st;
            chans := chans st; ustate := ustate st; allsubs := allsubs st;
            results := results st ++ [(s_seq ss, s_nsent ss)]; panicked := panicked st |}
          else None
      | _ => None
      end
  | _ => None
  end.

(* feed.go:99-106  remove, the f.mu section: index := f.inbox.find(ch);
   found: delete and return; otherwise fall through to the select *)
Definition do_unsub_check (st : state) (s : nat) : option state :=
  match ustate st s with
  | UActive =>
      match cl_find ch_eqb (inbox st) (Sub s) with
      | Some j =>
          match cl_delete (inbox st) (Some j) with
          | None => Some (with_panic st)
          | Some ib' => Some {|
              inbox := ib'; sendCases := sendCases st; lock := lock st; nextseq := nextseq st;
              chans := chans st; ustate := fupd (ustate st) s UDone; allsubs := allsubs st;
              results := results st; panicked := panicked st |}
          end
      | None => Some {|
          inbox := inbox st; sendCases := sendCases st; lock := lock st; nextseq := nextseq st;
          chans := chans st; ustate := fupd (ustate st) s UMissed; allsubs := allsubs st;
          results := results st; panicked := panicked st |}
      end
  | _ => None
  end.

(* feed.go:111  remove's select took  <-f.sendLock  (no Send in progress) *)
Definition do_unsub_acquire (st : state) (s : nat) : option state :=
  match ustate st s, lock st with
  | UMissed, Free => Some {|
      inbox := inbox st; sendCases := sendCases st; lock := HUnsub s; nextseq := nextseq st;
      chans := chans st; ustate := ustate st; allsubs := allsubs st;
      results := results st; panicked := panicked st |}
  | _, _ => None
  end.

(* feed.go:113-114  f.sendCases = f.sendCases.delete(f.sendCases.find(ch)); f.sendLock <- *)
Definition do_unsub_delete (st : state) (s : nat) : option state :=
  match lock st with
  | HUnsub s' =>
      if Nat.eqb s' s then
        match cl_delete (sendCases st) (cl_find ch_eqb (sendCases st) (Sub s)) with
        | None => Some (with_panic st)
        | Some sc' => Some {|
            inbox := inbox st; sendCases := sc'; lock := Free; nextseq := nextseq st;
            chans := chans st; ustate := fupd (ustate st) s UDone; allsubs := allsubs st;
            results := results st; panicked := panicked st |}
        end
      else None
  | _ => None
  end.

(* a subscriber thread receives the head of its channel's buffer *)
Definition do_recv (st : state) (s : nat) : option state :=
  match c_queue (chans st s) with
  | [] => None
  | m :: q => Some {|
      inbox := inbox st; sendCases := sendCases st; lock := lock st; nextseq := nextseq st;
      chans := fupd (chans st) s {| c_cap := c_cap (chans st s); c_queue := q;
                                    c_recvd := c_recvd (chans st s) ++ [m] |};
      ustate := ustate st; allsubs := allsubs st; results := results st;
      panicked := panicked st |}
  end.

Inductive label :=
| LSubscribe (s cap : nat)
| LSendAcquire
| LSendMerge
| LTrySend (r : option bool)
| LSelectSend (chosen : nat) (direct : bool)
| LSelectRemove (s : nat)
| LSendRelease
| LUnsubCheck (s : nat)
| LUnsubAcquire (s : nat)
| LUnsubDelete (s : nat)
| LRecv (s : nat).

(* one atomic step of thread [fst e]; a panicked program makes no further steps *)
Definition step (st : state) (e : nat * label) : option state :=
  if panicked st then None else
  let t := fst e in
  match snd e with
  | LSubscribe s cap => do_subscribe st s cap
  | LSendAcquire => do_acquire st t
  | LSendMerge => do_merge st t
  | LTrySend r => do_try st t r
  | LSelectSend chosen direct => do_select_send st t chosen direct
  | LSelectRemove s => do_select_remove st t s
  | LSendRelease => do_release st t
  | LUnsubCheck s => do_unsub_check st s
  | LUnsubAcquire s => do_unsub_acquire st s
  | LUnsubDelete s => do_unsub_delete st s
  | LRecv s => do_recv st s
  end.

(* the steps by which Unsubscribe of s takes effect (after which remove returns) *)
Definition removes (s : nat) (l : label) : bool :=
  match l with
  | LUnsubCheck s' | LSelectRemove s' | LUnsubDelete s' => Nat.eqb s' s
  | _ => false
  end.

Definition is_release (l : label) : bool :=
  match l with LSendRelease => true | _ => false end.

(* number of copies of Send n's value delivered so far, over all subscriptions *)
Definition total (st : state) (n : nat) : nat :=
  list_sum (map (fun s => count_occ Nat.eq_dec (delivered st s) n) (allsubs st)).

(* ------------------------------------------------------------------------- *)
(* The model as an acceptor of recorded histories of the real event.Feed /
   event.FeedOf (correspondence (b) of C50).  A recorded history is the globally
   ordered log of invocations/returns of Subscribe, Send, Unsubscribe and of every
   receive; [accepts] decides whether it is explained by the model's rules, i.e.
   whether it satisfies what FeedProofs.v proves of every trace of [step]:
     a1  a Send's return count = number of receives of its value        (send_exactly_once)
     a2  a subscription receives a value at most once                   (send_exactly_once)
     a3  exactly once if Subscribe returned before the Send was invoked
         and Unsubscribe (if any) was invoked after the Send returned   (send_exactly_once)
     a4  one global order of Sends (consistent with real time) explains
         every subscriber's receive order                               (per_subscriber_order)
     a5  nothing is delivered after Unsubscribe returned, nor before
         Subscribe was invoked                          (nothing_after_unsubscribe_returns) *)
From Coq Require Import NArith.

Inductive hev :=
| HSubInv (s : N) | HSubRet (s : N)
| HSendInv (v : N) | HSendRet (v cnt : N)
| HUnsubInv (s : N) | HUnsubRet (s : N)
| HRecv (s v : N) (late : bool).   (* late: drained after the whole run ended *)

Fixpoint index_from (i : N) (h : list hev) : list (N * hev) :=
  match h with
  | [] => []
  | e :: r => (i, e) :: index_from (N.succ i) r
  end.

Fixpoint first_pos (p : hev -> bool) (h : list (N * hev)) : option N :=
  match h with
  | [] => None
  | (i, e) :: r => if p e then Some i else first_pos p r
  end.

Definition count_ev (p : hev -> bool) (h : list (N * hev)) : nat :=
  length (filter (fun ie => p (snd ie)) h).

Definition is_sub_inv s e := match e with HSubInv x => N.eqb x s | _ => false end.
Definition is_sub_ret s e := match e with HSubRet x => N.eqb x s | _ => false end.
Definition is_send_inv v e := match e with HSendInv x => N.eqb x v | _ => false end.
Definition is_send_ret v e := match e with HSendRet x _ => N.eqb x v | _ => false end.
Definition is_unsub_inv s e := match e with HUnsubInv x => N.eqb x s | _ => false end.
Definition is_unsub_ret s e := match e with HUnsubRet x => N.eqb x s | _ => false end.
Definition is_recv s v e := match e with HRecv x y _ => N.eqb x s && N.eqb y v | _ => false end.
Definition is_recv_val v e := match e with HRecv _ y _ => N.eqb y v | _ => false end.

(* p1 strictly before p2 (both must exist) *)
Definition pos_lt (a b : option N) : bool :=
  match a, b with Some x, Some y => N.ltb x y | _, _ => false end.

Definition subs_of (h : list (N * hev)) : list N :=
  flat_map (fun ie => match snd ie with HSubInv s => [s] | _ => [] end) h.
Definition vals_of (h : list (N * hev)) : list N :=
  flat_map (fun ie => match snd ie with HSendInv v => [v] | _ => [] end) h.
Definition recvs_of (s : N) (h : list (N * hev)) : list N :=
  flat_map (fun ie => match snd ie with HRecv x v _ => if N.eqb x s then [v] else [] | _ => [] end) h.

(* well-formed, complete history: every operation invoked at most once per id,
   returns follow their invocations, every Send returned *)
Definition acc_wf (h : list (N * hev)) : bool :=
  forallb (fun ie =>
    match snd ie with
    | HSubInv s => Nat.eqb (count_ev (is_sub_inv s) h) 1
    | HSubRet s => Nat.eqb (count_ev (is_sub_ret s) h) 1 &&
                   pos_lt (first_pos (is_sub_inv s) h) (Some (fst ie))
    | HSendInv v => Nat.eqb (count_ev (is_send_inv v) h) 1 &&
                    Nat.eqb (count_ev (is_send_ret v) h) 1
    | HSendRet v _ => Nat.eqb (count_ev (is_send_ret v) h) 1 &&
                      pos_lt (first_pos (is_send_inv v) h) (Some (fst ie))
    | HUnsubInv s => Nat.eqb (count_ev (is_unsub_inv s) h) 1 &&
                     pos_lt (first_pos (is_sub_ret s) h) (Some (fst ie))
    | HUnsubRet s => Nat.eqb (count_ev (is_unsub_ret s) h) 1 &&
                     pos_lt (first_pos (is_unsub_inv s) h) (Some (fst ie))
    | HRecv s v _ => true
    end) h.

Definition acc_count (h : list (N * hev)) : bool :=
  forallb (fun ie =>
    match snd ie with
    | HSendRet v cnt => N.eqb cnt (N.of_nat (count_ev (is_recv_val v) h))
    | _ => true
    end) h.

Definition acc_at_most_once (h : list (N * hev)) : bool :=
  forallb (fun ie =>
    match snd ie with
    | HRecv s v _ => Nat.eqb (count_ev (is_recv s v) h) 1
    | _ => true
    end) h.

Definition active_for (h : list (N * hev)) (s v : N) : bool :=
  pos_lt (first_pos (is_sub_ret s) h) (first_pos (is_send_inv v) h) &&
  match first_pos (is_unsub_inv s) h with
  | None => match first_pos (is_send_ret v) h with Some _ => true | None => false end
  | Some u => pos_lt (first_pos (is_send_ret v) h) (Some u)
  end.

Definition acc_exactly_once (h : list (N * hev)) : bool :=
  forallb (fun s => forallb (fun v =>
    if active_for h s v then Nat.eqb (count_ev (is_recv s v) h) 1 else true) (vals_of h)) (subs_of h).

Fixpoint consecutive (l : list N) : list (N * N) :=
  match l with
  | a :: ((b :: _) as r) => (a, b) :: consecutive r
  | _ => []
  end.

Definition order_edges (h : list (N * hev)) : list (N * N) :=
  flat_map (fun s => consecutive (recvs_of s h)) (subs_of h) ++
  flat_map (fun v => flat_map (fun w =>
    if negb (N.eqb v w) && pos_lt (first_pos (is_send_ret v) h) (first_pos (is_send_inv w) h)
    then [(v, w)] else []) (vals_of h)) (vals_of h).

(* Kahn: repeatedly drop the nodes without incoming edge *)
Fixpoint acyclic (fuel : nat) (nodes : list N) (edges : list (N * N)) : bool :=
  match nodes with
  | [] => true
  | _ :: _ =>
      match fuel with
      | 0 => false
      | S f =>
          let rest := filter (fun n => existsb (fun e => N.eqb (snd e) n) edges) nodes in
          if Nat.eqb (length rest) (length nodes) then false
          else acyclic f rest (filter (fun e => existsb (N.eqb (fst e)) rest) edges)
      end
  end.

(* nodes: every value that was sent or received *)
Definition acc_order (h : list (N * hev)) : bool :=
  let recvd := flat_map (fun ie => match snd ie with HRecv _ v _ => [v] | _ => [] end) h in
  let nodes := nodup N.eq_dec (vals_of h ++ recvd) in
  acyclic (S (length nodes)) nodes (order_edges h).

Definition acc_window (h : list (N * hev)) : bool :=
  forallb (fun ie =>
    match snd ie with
    | HRecv s v late =>
        pos_lt (first_pos (is_sub_inv s) h) (first_pos (is_send_ret v) h) &&
        match first_pos (is_unsub_ret s) h with
        | None => true
        | Some u => negb late && pos_lt (first_pos (is_send_inv v) h) (Some u)
        end
    | _ => true
    end) h.

Definition accept_bits (h0 : list hev) : list bool :=
  let h := index_from 0%N h0 in
  [acc_wf h; acc_count h; acc_at_most_once h; acc_exactly_once h; acc_order h; acc_window h].

Definition accepts (h0 : list hev) : bool := forallb (fun b => b) (accept_bits h0).
