(* Properties/C16.v — Layered state reads return exactly the requested state.
   Property theorems only, about the model PathDB/Layers.v + PathDB/Lookup.v of
   /repo/triedb/pathdb (layertree.go, lookup.go, difflayer.go, disklayer.go,
   buffer.go, reader.go, database.go); each is closed by [exact] of a lemma of
   PathDB/LayersProofs.v.

   PROVED (all histories, no hypothesis on the history): from the initial database of
   any configuration with the sibling re-link of /repo d78fb6c457, NO history of
   Update / cap / Commit / flush operations panics or fails half-way -- every
   operation either succeeds or is rejected (cycle, missing parent, missing layer,
   disk layer) leaving the database untouched (C16_no_internal_error, by the buffer
   invariant BI: live buffer not frozen and error-free, persistent state id + layers
   of the frozen and live buffers = the disk layer's state id; state ids of diff
   layers consecutive; enough fuel) -- and in the state reached, at every live root,
   every account / slot read via the lookup index and every trie-node read returns
   exactly the parent-chain fold [sem], never an error (C16_read_correct); a read at
   a dropped root is an error in every state.
   ENVIRONMENT FAILURES: the model has no environment oracle -- key-value batch
   writes, freezer writes / syncs and history truncation always succeed (freezers are
   nil), so buffer.flushErr can only come from the state-id check, which BI
   discharges.  Histories with a failing write are therefore EXCLUDED from the model
   (not covered by any statement here); in the Go code such a failure surfaces as the
   error of Commit/Update and leaves the old disk layer stale.
   cap_preserves_sem (C16_cap_preserves_sem): in every state reached by a history,
   every successful operation (Update, cap, Commit, flush) leaves the VALUE of sem
   (accounts, slots and trie nodes) unchanged at every root that is live before and
   after; a newly added root means its diff over its parent (C16_add_new_sem).  The
   proof goes through the content of the write buffers: a disk layer reads the live
   buffer, then the frozen buffer, then the store, and this order returns the newest
   write across merges, freezes (sync and async flush) and background flushes
   (LayersSem.commit_content / persist_content / flush_sem) -- reading the frozen
   buffer first breaks commit_content.
   STILL MISSING:
   (c) concurrency (read_during_cap) is not modelled. *)
From GV Require Import Lib.Tactics PathDB.Lookup PathDB.Layers PathDB.LayersProofs PathDB.LayersInv PathDB.LayersOk PathDB.LayersSem.
Local Open Scope N_scope.

(* the lookup tip is the nearest modifier: if the entries of a key's history list
   that lie on the chain of [state] are pairwise comparable and the list never
   places an ancestor after one of its descendants ("insertion order extends the
   ancestor order"), the reverse scan of lookup.go returns an entry on the chain
   of which every other listed entry on the chain is a proper ancestor *)
Theorem C16_tip_is_nearest_modifier : forall d l state e,
  (forall x y, In x l -> In y l -> x <> y ->
               on_chain d state x = true -> on_chain d state y = true ->
               is_descendant d x y = true \/ is_descendant d y x = true) ->
  (forall l1 x l2 y l3, l = l1 ++ x :: l2 ++ y :: l3 -> is_descendant d x y = false) ->
  tip_scan d (rev l) state = Some e ->
  In e l /\ on_chain d state e = true /\
  forall e', In e' l -> e' <> e -> on_chain d state e' = true -> is_descendant d e e' = true.
Proof. exact tip_is_nearest_modifier. Qed.
Print Assumptions C16_tip_is_nearest_modifier.

(* accounts and storage slots: in every state satisfying the layer-tree invariant,
   at every root of the tree, the lookup-based read (with its stale fallback)
   returns a value, and it is the value obtained by folding the diffs along the
   root's parent chain over the disk layer (buffer, frozen buffer, store) *)
Theorem C16_read_correct_state : forall s root k,
  Inv s -> In root (live_roots s) ->
  exists v, sem_state s root k = Ok v /\ read_state s root k = Ok v.
Proof. exact read_state_correct. Qed.
Print Assumptions C16_read_correct_state.

(* trie nodes: the chain walk ends in the live disk layer and yields a value *)
Theorem C16_node_read_correct_state : forall s root k,
  Inv s -> In root (live_roots s) ->
  exists v, sem_node s root k = Ok v /\ read_node s root k = Ok v.
Proof. exact read_node_correct. Qed.
Print Assumptions C16_node_read_correct_state.

(* the invariant holds initially, for every configuration *)
Theorem C16_init_inv : forall c, Inv (init_db c).
Proof. exact init_inv. Qed.
Print Assumptions C16_init_inv.

(* every successful operation preserves the invariant (with the re-link of the
   current code): Update = add then cap(maxDiffLayers), cap(root, n) for n = 0 and
   n > 0, Commit, flush *)
Theorem C16_inv_preserved : forall s o s',
  Inv s /\ c_relink (cfg s) = true -> step s o = (s', Ok tt) ->
  Inv s' /\ c_relink (cfg s') = true.
Proof. exact step_inv. Qed.
Print Assumptions C16_inv_preserved.

(* no operation fails half-way: from a database satisfying the full invariant
   (layer tree + buffers + state ids) every operation succeeds and re-establishes it,
   or is rejected with an error leaving the database exactly as it was *)
Theorem C16_no_internal_error : forall s o,
  Inv3 s ->
  (exists s', step s o = (s', Ok tt) /\ Inv3 s') \/ (exists e, step s o = (s, Err e)).
Proof. exact step_total. Qed.
Print Assumptions C16_no_internal_error.

Theorem C16_init_inv3 : forall c, c_relink c = true -> Inv3 (init_db c).
Proof. exact init_inv3. Qed.
Print Assumptions C16_init_inv3.

(* ALL histories: [run] never returns None (no panic), and in the state reached
   every account / slot read and every trie-node read at every live root returns
   exactly sem *)
Theorem C16_read_correct : forall c h,
  c_relink c = true ->
  exists s, run (init_db c) h = Some s /\
    forall root, In root (live_roots s) ->
      (forall k, exists v, sem_state s root k = Ok v /\ read_state s root k = Ok v) /\
      (forall k, exists v, sem_node s root k = Ok v /\ read_node s root k = Ok v).
Proof. exact read_correct_run. Qed.
Print Assumptions C16_read_correct.

(* every successful operation on a reachable state keeps the meaning of every root
   that survives it: flattening into the disk layer (buffer merge, freeze, sync or
   async flush), dropping layers, re-parenting and background flushes do not change
   sem -- for accounts, slots and trie nodes *)
Theorem C16_cap_preserves_sem : forall c h s o s',
  c_relink c = true -> run (init_db c) h = Some s -> step s o = (s', Ok tt) ->
  forall r, In r (live_roots s) -> In r (live_roots s') ->
    (forall k, sem_state s' r k = sem_state s r k) /\ (forall k, sem_node s' r k = sem_node s r k).
Proof. exact cap_preserves_sem. Qed.
Print Assumptions C16_cap_preserves_sem.

(* the meaning of a newly added root is its diff over the meaning of its parent *)
Theorem C16_add_new_sem : forall s root parent nodes states s' p,
  Inv4 s -> NoDup (map fst (kv_data states)) -> NoDup (map fst (kv_data nodes)) ->
  tget s root = None -> tget s parent = Some p ->
  tree_add s root parent nodes states = (s', Ok tt) ->
  (forall k, exists v, sem_state s parent k = Ok v /\
     sem_state s' root k = Ok (match aget skey_eqb (kv_data states) k with Some w => w | None => v end)) /\
  (forall k, exists v, sem_node s parent k = Ok v /\
     sem_node s' root k = Ok (match aget nkey_eqb (kv_data nodes) k with Some w => w | None => v end)).
Proof. exact add_new_sem. Qed.
Print Assumptions C16_add_new_sem.

(* the strengthened invariant (layer tree + buffers + ids + buffer contents) holds
   along every history *)
Theorem C16_inv4_history : forall c h s,
  c_relink c = true -> run (init_db c) h = Some s -> Inv4 s.
Proof. intros c h s Hc Hr. exact (run_inv4 h _ _ (init_inv4 c Hc) Hr). Qed.
Print Assumptions C16_inv4_history.

(* a read at a root that is not (or no longer) in the tree is an error in every
   state whatsoever -- never another state's data *)
Theorem C16_dropped_root_errors : forall s root,
  ~ In root (live_roots s) ->
  (forall k, read_state s root k = Err EUnavail) /\ (forall k, read_node s root k = Err EUnavail).
Proof. exact dropped_root_errors. Qed.
Print Assumptions C16_dropped_root_errors.

(* the defect repaired by /repo commit d78fb6c457 (model with c_relink = false):
   the full statement is FALSE of the code before the repair -- a trie node of a
   live root reads as "layer stale", and a later cap below that root panics *)
Theorem C16_node_read_norelink_refuted :
  exists s, run (init_db (cfg_of false)) fork_history = Some s /\
            In 4 (live_roots s) /\
            read_state s 4 (KA 10) = Ok [1] /\
            read_node s 4 (0, [110; 49]) = Err EStale.
Proof. exact norelink_node_read_stale. Qed.
Print Assumptions C16_node_read_norelink_refuted.

Theorem C16_second_cap_norelink_refuted :
  run (init_db (cfg_of false))
      (fork_history ++ [OUpdate 5 4 [(KA 14, [5])] []; OCap 5 1]) = None.
Proof. exact norelink_second_cap_panics. Qed.
Print Assumptions C16_second_cap_norelink_refuted.

(* non-vacuity: with the re-link (the current code) the same history with a fork
   directly above the flattened layer, followed by a cap in the fork's subtree,
   runs, keeps exactly the fork, and reads the right accounts and nodes there *)
Example C16_nonvacuous :
  exists s, run (init_db (cfg_of true))
                (fork_history ++ [OUpdate 5 4 [(KA 14, [5])] []; OCap 5 1]) = Some s /\
            live_roots s = [4; 5] /\
            read_state s 5 (KA 10) = Ok [1] /\ read_state s 5 (KA 12) = Ok [] /\
            read_state s 5 (KA 13) = Ok [4] /\ read_node s 5 (0, [110; 49]) = Ok [1; 1] /\
            read_state s 3 (KA 12) = Err EUnavail.
Proof. exact relink_second_cap_ok. Qed.

Example C16_reach_nonvacuous :
  exists s, reach (init_db (cfg_of true))
                  (fork_history ++ [OUpdate 5 4 [(KA 14, [5])] []; OCap 5 1; OCap 9 1]) s /\
            live_roots s = [4; 5].
Proof.
  eexists. split.
  - repeat (eapply reach_ok; [vm_compute; reflexivity|]).
    eapply reach_rej; [vm_compute; reflexivity|]. apply reach_nil.
  - vm_compute. reflexivity.
Qed.
