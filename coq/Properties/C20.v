(* Properties/C20.v -- Path database recovers consistently from crashes.
   Property theorems only, about the model PathDB/Journal.v of /repo/triedb/pathdb
   (database.go New / Recover / Close, journal.go loadJournal / loadLayers / Journal,
   history.go repairHistory / truncateFromHead / truncateFromTail, disklayer.go
   writeHistory / commit, buffer.go flush) at the persistence interface; proofs in
   PathDB/JournalProofs.v.

   [crash c w] = what is on disk after the process dies in world [w] with cut [c]
   (unsynced freezer items lost, any number of them; virtual tail as last fsync'ed or
   as written; a renamed journal file whose directory was not fsync'ed old or new);
   [open] = pathdb.New; [PInv w lp] = the invariant of the persistent part of [w]
   ([lp] = chain of the persisted state): flat state = state of the persisted root,
   persistent id = its id, durable history head >= persistent id >= tail, histories
   above the tail = reverse diffs of the chain, every stored journal that New would
   accept is a faithful image of a chain whose histories are durable.

   FULL STATEMENT, PROVED (C20_crash_consistent): for every history of Update / Commit /
   Journal / Recover / clean reopen / crash-and-reopen operations from the empty database
   (Recover as in /repo since 86d61ccd46: the shutdown journal is dropped before the
   first revert, jc_recover = 2) whose transitions are well-formed on the head state and
   whose new state roots are fresh w.r.t. the roots the database still knows (persisted
   root, disk root, live diff layers, persisted roots of stored journals), the history
   never gets stuck on a reopen, and at EVERY crash point of the next operation (before
   its first and after each of its persistence events) EVERY cut reopens successfully
   into a Consistent database.  Building blocks kept as theorems: the persistent
   invariant suffices (C20_reopen_from_invariant), one operation ahead
   (C20_commit_crash_consistent, C20_journal_crash_consistent), alignment, idempotence,
   journal matching, persistence of the acknowledged state for ALL worlds.  REFUTED for
   the two earlier versions of Recover: journal never dropped (before 045cec3993:
   C20_recover_stale_journal_refuted) and journal dropped after the revert loop
   (045cec3993: C20_recover_late_drop_refuted). *)
From GV Require Import Lib.Tactics PathDB.History PathDB.HistoryProofs PathDB.Journal PathDB.JournalProofs PathDB.JournalHist.
Local Open Scope N_scope.

(* from every persistent state with PInv, every crash cut reopens successfully; the
   reopened disk layer (buffer over flat state) is exactly the state of the chain [l]
   whose newest root is the disk root and whose length is the state id, the history
   head equals the state id, the retained histories are those of [l], restored diff
   layers are well-formed, the persistent part satisfies PInv again (so does every
   intermediate state of the recovery: a crash while recovering is covered) *)
Theorem C20_reopen_from_invariant : forall w lp c,
  PInv w lp ->
  exists evs w' l, open (crash c w) = (evs, Done w') /\ Consistent w' l lp /\
                   (forall e, In e evs -> PInv (snd e) lp) /\
                   (journal_used (crash c w) = None -> l = lp).
Proof. exact crash_open_consistent. Qed.
Print Assumptions C20_reopen_from_invariant.

Theorem C20_init_invariant : forall c jf, PInv (init_world c jf 0) [] /\ LInv (init_world c jf 0) [] [].
Proof. intros. split; [apply init_pinv|apply init_linv]. Qed.
Print Assumptions C20_init_invariant.

(* every database New produces from a crash state with PInv is live ([LInv]: the disk
   layer represents its chain, history head = id, PInv, well-formed diff layers, no
   acceptable journal ahead of the disk layer) *)
Theorem C20_reopened_is_live : forall w lp evs w' l,
  PInv w lp -> settled w -> open w = (evs, Done w') -> Consistent w' l lp -> LInv w' l lp.
Proof. exact open_linv. Qed.
Print Assumptions C20_reopened_is_live.

(* ONE OPERATION AHEAD of any live database.  Merging one diff layer into the disk
   layer -- what Update (cap) and Commit do layer by layer: state history appended
   BEFORE the state, optional tail truncation decided from the persistent id, root->id
   Puts, then (if the buffer is flushed) freezer sync and ONE batch with nodes, states
   and the persistent state id: every crash point, under every cut, reopens into a
   consistent and again live database.  Premise on the journals: the new root is not
   the persisted root a stored journal was written for (no state recurrence). *)
Theorem C20_commit_crash_consistent : forall w l lp d force c,
  LInv w l lp -> d_id d = len l + 1 -> d_root d = t_root (d_tr d) ->
  wf_tr (sem_rev l) (d_tr d) ->
  (forall j, In (Some j) (slots w) -> j_proot j <> d_root d) ->
  exists evs w', disk_commit w d force = (evs, Done w') /\
    forall e, In e evs ->
      exists evs' w'' l' lp', open (crash c (snd e)) = (evs', Done w'') /\ Consistent w'' l' lp' /\
                              LInv w'' l' lp'.
Proof. exact commit_crash_consistent. Qed.
Print Assumptions C20_commit_crash_consistent.

(* Journal (histories synced first; blob Put, or temp file / fsync / rename / directory
   fsync): every crash point, under every cut, reopens consistently -- with the new
   journal applied as soon as it is visible, the old one or none before *)
Theorem C20_journal_crash_consistent : forall w l lp c,
  LInv w l lp -> w_ro w = false ->
  forall e, In e (fst (journal_op w)) ->
    exists evs' w'' l', open (crash c (snd e)) = (evs', Done w'') /\ Consistent w'' l' lp /\
                        LInv w'' l' lp.
Proof. exact journal_crash_consistent. Qed.
Print Assumptions C20_journal_crash_consistent.

Theorem C20_cut_keeps_invariant : forall c w lp, PInv w lp -> PInv (crash c w) lp.
Proof. exact crash_pinv. Qed.
Print Assumptions C20_cut_keeps_invariant.

(* a journal is applied only on top of the persisted root it was written for and never
   below the persistent state id; otherwise the layers are the bare persisted state *)
Theorem C20_journal_only_if_matching : forall w j,
  journal_used w = Some j ->
  load_journal w = Some j /\ j_proot j = w_proot w /\ pid (w_dk w) <= j_id j.
Proof. exact journal_only_if_matching. Qed.
Print Assumptions C20_journal_only_if_matching.

Theorem C20_journal_discarded : forall w,
  journal_used w = None ->
  load_layers w = (mkDisk (w_proot w) (pid (w_dk w)) 0 empty_buf (pflat (w_dk w)) (pid (w_dk w)), []).
Proof. exact journal_unused_fresh. Qed.
Print Assumptions C20_journal_discarded.

(* whenever New succeeds -- in ANY world -- the history head is exactly the state id of
   the disk layer (no history beyond the state survives reopening), the tail is not
   above it, the key-value state is untouched and the disk layer is not below the
   persistent state id *)
Theorem C20_open_aligned : forall w evs w',
  fr_tail (w_fr w) <= fr_head (w_fr w) ->
  open w = (evs, Done w') ->
  fr_head (w_fr w') = disk_id (w_dk w') /\ fr_tail (w_fr w') <= disk_id (w_dk w') /\
  kv_part w' = kv_part w /\ pid (w_dk w) <= disk_id (w_dk w') /\ w_ro w' = false.
Proof. exact open_aligned. Qed.
Print Assumptions C20_open_aligned.

(* the state acknowledged as persisted (root, flat state, id) survives every crash cut
   and reopening, and the reopened disk layer is at or above it *)
Theorem C20_acked_persisted_survives : forall w c evs w',
  w_stail w <= fr_tail (w_fr w) -> fr_tail (w_fr w) <= w_shead w ->
  open (crash c w) = (evs, Done w') ->
  w_proot w' = w_proot w /\ pid (w_dk w') = pid (w_dk w) /\ pflat (w_dk w') = pflat (w_dk w) /\
  pid (w_dk w) <= disk_id (w_dk w') /\ fr_head (w_fr w') = disk_id (w_dk w') /\
  fr_tail (w_fr w') <= disk_id (w_dk w').
Proof. exact acked_persisted_survives. Qed.
Print Assumptions C20_acked_persisted_survives.

(* crashing again during or right after recovery and reopening gives the same database,
   without any further persistence event *)
Theorem C20_reopen_idempotent : forall w evs w' c,
  settled w -> fr_tail (w_fr w) <= fr_head (w_fr w) ->
  open w = (evs, Done w') -> open (crash c w') = ([], Done w').
Proof. exact reopen_idempotent. Qed.
Print Assumptions C20_reopen_idempotent.

(* FINDING: with Recover the full statement is false.  After Journal + restart, a
   Recover inside the write buffer truncates the histories but leaves the journal and
   the persisted root untouched; after a crash New accepts the stale journal and stops
   with "gap between state and state history" (class 1) *)
Theorem C20_recover_stale_journal_refuted :
  exists c ops, jc_recover c = 0 /\
                run (init_world c false 0) ops = None /\ ex_stale_check = true.
Proof.
  exists (mkJCfg 0 false 1 0), ex_stale_history.
  split; [reflexivity|]. split; vm_compute; reflexivity.
Qed.
Print Assumptions C20_recover_stale_journal_refuted.

(* on the repaired code (Recover drops the journal before cutting the histories) the
   same history reopens at every crash point of the Recover and after it *)
Example C20_recover_fixed_witness : ex_fixed_check = true.
Proof. vm_compute. reflexivity. Qed.

(* THE PROPERTY over all histories.  [wf_hist] / [wf_op]: every Update's transition is
   well-formed on the head state ([wf_tr], C17) and its root is fresh ([fresh_root]); a
   crash operation interrupts an Update, Commit, Journal or Recover. *)
Theorem C20_crash_consistent : forall c jf os o,
  jc_recover c = 2 ->
  wf_hist (init_world c jf 0) os ->
  exists w, run (init_world c jf 0) os = Some w /\
    (wf_op w o ->
     forall wc, In wc (crash_points w o) -> forall ct,
       exists evs w' l lp, open (crash ct wc) = (evs, Done w') /\ Consistent w' l lp).
Proof. exact crash_consistent. Qed.
Print Assumptions C20_crash_consistent.

(* the invariants behind it: every operation keeps the live invariant and puts the
   persistent invariant at each of its crash points; every crash + reopen restores the
   live invariant *)
Theorem C20_step_invariant : forall w o,
  WInv w -> wf_op w o ->
  (forall wc, In wc (crash_points w o) -> CP wc) /\ exists w', step w o = Some w' /\ WInv w'.
Proof. exact step_ok. Qed.
Print Assumptions C20_step_invariant.

Theorem C20_crash_point_reopens : forall w c,
  CP w -> exists evs w' l lp, open (crash c w) = (evs, Done w') /\ Consistent w' l lp /\ WInv w'.
Proof. exact cp_reopen. Qed.
Print Assumptions C20_crash_point_reopens.

(* FINDING 2: dropping the journal AFTER the revert loop (045cec3993) is too late: two
   Recovers interrupted by crashes leave the stale journal in place until the persisted
   state is back on its disk root on another fork; New then restores the journal's disk
   layer (root 4, id 4) on top of the histories of the new fork: the newest retained
   history does not lead to the disk root.  With the drop before the first revert the
   same history recovers aligned. *)
Theorem C20_recover_late_drop_refuted :
  ex_late_check 1 = Some (false, 4, 4) /\ ex_late_check 2 = Some (true, 3, 3).
Proof. split; vm_compute; reflexivity. Qed.
Print Assumptions C20_recover_late_drop_refuted.

(* a history with buffered layers in a journal, a restart, tail pruning and a crash in
   the middle of a flush with the older tail: the model recovers to state 3 *)
Example C20_nonvacuous : ex_check = true.
Proof. vm_compute. reflexivity. Qed.
