(* Properties/C50.v — Event feeds deliver every value exactly once to active subscribers.
   Property theorems only; each is closed by [exact] of a lemma of Event/FeedProofs.v about
   the interleaving model Event/Feed.v of /repo/event/feed.go and feedof.go.
   A history is any list of (thread, atomic step) accepted by [run step init]: every
   interleaving, any number of senders, subscribers and unsubscribes. *)
From GV Require Import Lib.Tactics Lib.Interleave Event.Feed Event.FeedProofs.
From Coq Require Import Permutation Sorted.

(* ---- the pure caseList functions (full) ---- *)

(* find returns the first index holding the channel; -1 ([None]) iff it is absent *)
Theorem C50_caselist_find : forall (cs : list ch) c,
  (forall i, cl_find ch_eqb cs c = Some i ->
     nth_error cs i = Some c /\ i < length cs /\ ~ In c (firstn i cs)) /\
  (cl_find ch_eqb cs c = None <-> ~ In c cs).
Proof.
  intros cs c. split.
  - intros i H. split; [exact (cl_find_nth ch_eqb ch_eqb_eq cs c i H)|].
    exact (proj2 (cl_find_some ch_eqb ch_eqb_eq cs c i H)).
  - exact (cl_find_none ch_eqb ch_eqb_eq cs c).
Qed.
Print Assumptions C50_caselist_find.

(* delete(find(c)) removes exactly that occurrence, keeps the order of the rest and does
   not panic; delete panics exactly on an index outside [0,len) (in particular on -1) *)
Theorem C50_caselist_delete : forall (cs : list ch) c i,
  cl_find ch_eqb cs c = Some i ->
  exists a b, cs = a ++ c :: b /\ length a = i /\ ~ In c a /\
              cl_delete cs (Some i) = Some (a ++ b).
Proof. exact (cl_delete_find ch_eqb ch_eqb_eq). Qed.
Print Assumptions C50_caselist_delete.

Theorem C50_caselist_delete_panics_iff : forall (cs : list ch) idx,
  cl_delete cs idx = None <-> match idx with None => True | Some i => length cs <= i end.
Proof. exact (@cl_delete_none_iff ch). Qed.
Print Assumptions C50_caselist_delete_panics_iff.

(* deactivate moves the chosen case to the end of the segment and returns the segment
   without it: nothing lost, nothing duplicated, lower positions untouched *)
Theorem C50_caselist_deactivate : forall (cs : list ch) i pre whole,
  cl_deactivate cs i = Some (pre, whole) ->
  exists x, nth_error cs i = Some x /\ i < length cs /\
            whole = pre ++ [x] /\ S (length pre) = length cs /\
            Permutation whole cs /\
            (forall j, j < i -> nth_error whole j = nth_error cs j).
Proof. exact (@cl_deactivate_spec ch). Qed.
Print Assumptions C50_caselist_deactivate.

Theorem C50_caselist_deactivate_panics_iff : forall (cs : list ch) i,
  cl_deactivate cs i = None <-> length cs <= i.
Proof. exact (@cl_deactivate_none_iff ch). Qed.
Print Assumptions C50_caselist_deactivate_panics_iff.

(* ---- caselist_inv: cases = sendCases[:k] on the shared array ---- *)

(* deactivate on the shared array: the case moves from the active prefix to the head of
   the inactive suffix; sendCases stays a permutation; index 0 (removeSub) untouched *)
Theorem C50_caselist_inv_deactivate : forall sc k i sc' k',
  deact sc k i = Some (sc', k') -> k <= length sc ->
  exists x pre, nth_error sc i = Some x /\ i < k /\ S k' = k /\ length pre = k' /\
     sc' = pre ++ x :: skipn k sc /\ Permutation (pre ++ [x]) (firstn k sc) /\
     (forall j, j < i -> nth_error sc' j = nth_error sc j).
Proof. exact deact_spec. Qed.
Print Assumptions C50_caselist_inv_deactivate.

(* delete with the index adjustment of feed.go:164-167 ([adj j k] = k-1 if j < k else k):
   the active prefix and the inactive suffix only lose the deleted case *)
Theorem C50_caselist_inv_delete : forall (a b : list ch) c k y,
  (In y (firstn (adj (length a) k) (a ++ b)) -> In y (firstn k (a ++ c :: b))) /\
  (In y (skipn (adj (length a) k) (a ++ b)) -> In y (skipn k (a ++ c :: b))).
Proof. intros. split; [apply delete_firstn | apply delete_skipn]. Qed.
Print Assumptions C50_caselist_inv_delete.

(* in every reachable state with a Send past its merge: the active prefix cases[1..k) holds
   exactly subscriptions that have not got this Send's value, the suffix sendCases[k..)
   those that got it exactly once, and nsent counts all copies delivered so far *)
Theorem C50_caselist_inv : forall h st ss,
  run step init h = Some st -> lock st = HSend ss -> s_phase ss <> PMerge ->
  1 <= s_k ss <= length (sendCases st) /\
  hd_error (sendCases st) = Some RemoveSub /\ NoDup (sendCases st) /\
  (forall s, In (Sub s) (firstn (s_k ss) (sendCases st)) -> ~ In (s_seq ss) (delivered st s)) /\
  (forall s, In (Sub s) (skipn (s_k ss) (sendCases st)) ->
             count_occ Nat.eq_dec (delivered st s) (s_seq ss) = 1) /\
  s_nsent ss = total st (s_seq ss).
Proof. exact caselist_inv. Qed.
Print Assumptions C50_caselist_inv.

(* the index-out-of-range panics of find/delete/deactivate are unreachable *)
Theorem C50_no_panic : forall h st, run step init h = Some st -> panicked st = false.
Proof. exact no_panic. Qed.
Print Assumptions C50_no_panic.

(* ---- send_exactly_once ----
   For every interleaving: take a Send (thread t) from its inbox merge (in st1) to its
   release (in st3) — h2 contains no release, so both belong to the same Send, whose
   identity/value is n = s_seq ss.  In every later state st:
   * the Send's return value is recorded and equals the number of copies of n delivered,
     summed over all subscriptions ever made;
   * no subscription holds more than one copy;
   * every subscription that was subscribed and not yet removed when the inbox was merged
     ([live st1 s]: Subscribe happened, Unsubscribe not completed) and whose Unsubscribe did
     not complete before the Send returned (no removing step in h2) holds exactly one. *)
Theorem C50_send_exactly_once : forall h1 st1 ss t st2 h2 st3 st4 h3 st,
  run step init h1 = Some st1 -> lock st1 = HSend ss ->
  step st1 (t, LSendMerge) = Some st2 ->
  run step st2 h2 = Some st3 -> (forall e, In e h2 -> is_release (snd e) = false) ->
  step st3 (t, LSendRelease) = Some st4 ->
  run step st4 h3 = Some st ->
  In (s_seq ss, total st (s_seq ss)) (results st) /\
  (forall c, In (s_seq ss, c) (results st) -> c = total st (s_seq ss)) /\
  (forall s, count_occ Nat.eq_dec (delivered st s) (s_seq ss) <= 1) /\
  (forall s, live st1 s -> (forall e, In e h2 -> removes s (snd e) = false) ->
             count_occ Nat.eq_dec (delivered st s) (s_seq ss) = 1).
Proof. exact send_exactly_once. Qed.
Print Assumptions C50_send_exactly_once.

Theorem C50_at_most_once : forall h st s n,
  run step init h = Some st -> count_occ Nat.eq_dec (delivered st s) n <= 1.
Proof. exact at_most_once. Qed.
Print Assumptions C50_at_most_once.

(* ---- per_subscriber_order ----
   every channel's delivery sequence is strictly increasing in the order in which the
   Sends took sendLock, hence any two subscribers see common values in the same order *)
Theorem C50_delivered_in_lock_order : forall h st s,
  run step init h = Some st -> StronglySorted lt (delivered st s).
Proof. exact delivered_sorted. Qed.
Print Assumptions C50_delivered_in_lock_order.

Theorem C50_seq_is_lock_order : forall h1 st1 tA st2 ssA h2 st3 tB st4 ssB,
  run step init h1 = Some st1 ->
  step st1 (tA, LSendAcquire) = Some st2 -> lock st2 = HSend ssA ->
  run step st2 h2 = Some st3 ->
  step st3 (tB, LSendAcquire) = Some st4 -> lock st4 = HSend ssB ->
  s_seq ssA < s_seq ssB.
Proof. exact seq_is_lock_order. Qed.
Print Assumptions C50_seq_is_lock_order.

Theorem C50_per_subscriber_order : forall h st s1 s2 a b,
  run step init h = Some st ->
  before a b (delivered st s1) -> In a (delivered st s2) -> In b (delivered st s2) ->
  before a b (delivered st s2).
Proof. exact per_subscriber_order. Qed.
Print Assumptions C50_per_subscriber_order.

(* ---- nothing_after_unsubscribe_returns ----
   once remove has returned for s ([UDone]) nothing is ever put on its channel again *)
Theorem C50_nothing_after_unsubscribe_returns : forall h1 st1 s h2 st2,
  run step init h1 = Some st1 -> ustate st1 s = UDone -> run step st1 h2 = Some st2 ->
  ustate st2 s = UDone /\ delivered st2 s = delivered st1 s.
Proof. exact nothing_after_unsubscribe_returns. Qed.
Print Assumptions C50_nothing_after_unsubscribe_returns.

(* ---- send_progress (PARTIAL) ----
   Full statement (not proved): in every fair infinite interleaving in which every
   subscription that is a pending case of a Send eventually receives from its channel or
   unsubscribes, the Send reaches its release step.
   Proved: (1) every step of the sending thread between merge and release strictly
   decreases [send_measure], so a Send makes at most that many steps of its own; (2) outside
   reflect.Select the sending thread always has an enabled step; (3) in Select it has one as
   soon as a pending subscriber's channel has room / an empty buffer (a blocked receiver can
   take a hand-off) or an Unsubscribe waits on removeSub.  Missing: the fairness/liveness
   argument over infinite schedules that turns (1)-(3) into termination. *)
Theorem C50_send_progress_partial :
  (forall st ss e st', inv st -> lock st = HSend ss -> s_phase ss <> PMerge ->
     sender_label (snd e) = true -> step st e = Some st' ->
     exists ss', lock st' = HSend ss' /\ send_measure st' ss' < send_measure st ss) /\
  (forall st ss, inv st -> lock st = HSend ss -> s_phase ss <> PSelect ->
     exists l st', step st (s_tid ss, l) = Some st') /\
  (forall st ss, inv st -> lock st = HSend ss -> s_phase ss = PSelect ->
     ((exists i s, 1 <= i /\ case_at (sendCases st) (s_k ss) i = Some (Sub s) /\
         (length (c_queue (chans st s)) < c_cap (chans st s) \/ c_queue (chans st s) = [])) \/
      (exists s, ustate st s = UMissed)) ->
     exists l st', step st (s_tid ss, l) = Some st').
Proof.
  split; [exact send_measure_decreases | split; [exact send_nonblocking | exact send_select_enabled]].
Qed.
Print Assumptions C50_send_progress_partial.

(* [inv] is the invariant of every reachable state *)
Theorem C50_reachable_inv : forall h st, run step init h = Some st -> inv st.
Proof. intros h st H. exact (run_inv h init st inv_init H). Qed.
Print Assumptions C50_reachable_inv.

(* non-vacuity: a concrete interleaving with three subscribers (capacities 1, 0, 1), two
   Sends, a subscription made while the first Send holds the lock, an Unsubscribe that
   rendezvouses with the running Send and one that takes sendLock *)
Example C50_nonvacuous :
  let tr := [ (10, LSubscribe 1 1); (11, LSubscribe 2 0); (1, LSendAcquire); (12, LSubscribe 3 1);
              (1, LSendMerge); (1, LTrySend (Some false)); (1, LTrySend (Some false));
              (1, LTrySend None); (11, LUnsubCheck 2); (1, LSelectRemove 2); (1, LSendRelease);
              (2, LSendAcquire); (2, LSendMerge); (2, LTrySend None); (2, LTrySend None);
              (10, LRecv 1); (2, LSelectSend 2 false); (2, LTrySend None); (12, LRecv 3);
              (2, LSelectSend 1 true); (2, LSendRelease);
              (12, LUnsubCheck 3); (12, LUnsubAcquire 3); (12, LUnsubDelete 3) ] in
  option_map (fun st => (sendCases st, results st, map (delivered st) [1; 2; 3], panicked st,
                         ustate st 2, ustate st 3))
             (run step init tr)
  = Some ([RemoveSub; Sub 1], [(0, 2); (1, 2)], [[0; 1]; []; [0; 1]], false, UDone, UDone).
Proof. vm_compute. reflexivity. Qed.
