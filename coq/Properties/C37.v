(* Properties/C37.v — Gas estimates are sufficient.
   Property theorems only, about the model Gas/Estimator.v of
   /repo/eth/gasestimator/gasestimator.go (Estimate, execute); the EVM is the
   arbitrary oracle [exec] (what execute returns at a gas limit) and the
   error-ratio test of l.177 is the arbitrary predicate [er_exit], so every
   theorem holds for all programs, states and float semantics.
   [succeeds exec g] = "the call executes successfully with gas limit g". *)
From GV Require Import Lib.Tactics Gas.Estimator Gas.EstimatorProofs.
Local Open Scope N_scope.

(* Sufficiency.  Whatever Estimate returns without error lets the call succeed —
   for every oracle: no monotonicity, no magnitude guard, any error ratio.
   (hi only ever moves to a gas limit at which a probe succeeded.) *)
Theorem C37_estimate_succeeds : forall exec er_exit p r,
  fst (estimate exec er_exit p) = EstOk r -> succeeds exec r = true.
Proof. exact (fun exec er p r => estimate_succeeds exec er current search_fuel p r). Qed.
Print Assumptions C37_estimate_succeeds.

(* If the call succeeds at the allowance cap hi0 (and no probe hits a consensus error
   unrelated to gas), Estimate does answer, and the answer succeeds.  Guards
   ([term_guard]): hi0 < 2^63, the first execution used >= 2 gas and
   maxUsed + 2300 < 2^58 (no uint64 wrap in l.155). *)
Theorem C37_estimate_complete : forall exec er_exit p hi,
  initial_hi p = inr hi -> term_guard exec hi -> succeeds exec hi = true ->
  (forall g c, exec g <> ExBail c) ->
  exists r, fst (estimate exec er_exit p) = EstOk r /\ succeeds exec r = true.
Proof. exact estimate_complete. Qed.
Print Assumptions C37_estimate_complete.

(* The initial hi respects every cap: uint64 range, gasCap, the Osaka (pre-Amsterdam)
   per-transaction cap, the sender's funds (hi*feeCap + value + blob cost <= balance),
   and max(header gas limit, requested gas). *)
Theorem C37_initial_hi_caps : forall p hi,
  wf_params p -> initial_hi p = inr hi ->
  hi < W64 /\
  (p_gas_cap p <> 0 -> hi <= p_gas_cap p) /\
  (p_is_osaka p = true -> p_is_amsterdam p = false -> hi <= MaxTxGas) /\
  (fee_cap p <> 0 -> funds_needed p hi <= p_balance p) /\
  hi <= N.max (p_header_gas p) (p_call_gas p).
Proof. exact initial_hi_caps. Qed.
Print Assumptions C37_initial_hi_caps.

(* The estimate is at most the initial hi (the plain-transfer shortcut now compares its
   21000 with hi). *)
Theorem C37_estimate_le_hi : forall exec er_exit p hi r,
  wf_params p -> initial_hi p = inr hi -> fst (estimate exec er_exit p) = EstOk r ->
  r <= hi.
Proof. exact (fun exec er p hi r => estimate_le_hi exec er current search_fuel p hi r eq_refl). Qed.
Print Assumptions C37_estimate_le_hi.

(* Hence the estimate never exceeds the caller's funds, the gas cap, the per-transaction
   cap or the requested/header limit — no guard. *)
Theorem C37_estimate_le_caps : forall exec er_exit p hi r,
  wf_params p -> initial_hi p = inr hi ->
  fst (estimate exec er_exit p) = EstOk r ->
  r <= hi /\
  (p_gas_cap p <> 0 -> r <= p_gas_cap p) /\
  (p_is_osaka p = true -> p_is_amsterdam p = false -> r <= MaxTxGas) /\
  (fee_cap p <> 0 -> funds_needed p r <= p_balance p) /\
  r <= N.max (p_header_gas p) (p_call_gas p).
Proof. exact (fun exec er p hi r => estimate_le_caps exec er current search_fuel p hi r eq_refl). Qed.
Print Assumptions C37_estimate_le_caps.

(* About the FORMER code only (legacy flag lg_ignore_hi = the shortcut before /repo commit
   10bd791e6e): "estimate <= gasCap" was false — gasCap = 10000, plain transfer -> 21000;
   the current model answers "gas required exceeds allowance (10000)" on the same input.
   Finding repaired in /repo; witness kept in corpus/C37. *)
Theorem C37_legacy_estimate_le_gascap_refuted :
  exists exec p r, wf_params p /\
    fst (estimate_fuel exec (fun _ _ => false)
           {| lg_ignore_hi := true; lg_after_amsterdam := false |} search_fuel p) = EstOk r /\
    p_gas_cap p <> 0 /\ p_gas_cap p < r /\ initial_hi p = inr (p_gas_cap p) /\
    fst (estimate exec (fun _ _ => false) p) = EstErrAllowance 10000.
Proof. exact legacy_estimate_le_gascap_refuted. Qed.
Print Assumptions C37_legacy_estimate_le_gascap_refuted.

(* About the FORMER code only (legacy flag lg_after_amsterdam = the shortcut before /repo
   commit 2d92053e8d): under Amsterdam rules a plain transfer costs less than 21000 and the
   shortcut's 21000 was not minimal; the current model finds the minimum on the same input.
   Finding repaired in /repo; witness kept in corpus/C37. *)
Theorem C37_legacy_estimate_minimal_amsterdam_refuted :
  exists exec p r, wf_params p /\ monotone exec /\
    fst (estimate_fuel exec (fun _ _ => false)
           {| lg_ignore_hi := false; lg_after_amsterdam := true |} search_fuel p) = EstOk r /\
    succeeds exec (r - 1) = true /\
    fst (estimate exec (fun _ _ => false) p) = EstOk 15000.
Proof. exact legacy_estimate_minimal_amsterdam_refuted. Qed.
Print Assumptions C37_legacy_estimate_minimal_amsterdam_refuted.

(* Minimality.  Error ratio 0 (no early exit), a gas-monotone program, before Amsterdam
   nothing below the intrinsic 21000 succeeds (only used for the shortcut, which is not
   taken under Amsterdam), and — because l.150 sets
   lo := used-1 WITHOUT probing it — nothing below the gas used at hi0 succeeds:
   then every gas limit below the estimate fails (in particular r-1). *)
Theorem C37_estimate_minimal : forall exec er_exit p hi r,
  (forall h l, er_exit h l = false) -> monotone exec ->
  (p_is_amsterdam p = false -> forall g, g < TxGas -> succeeds exec g = false) ->
  wf_params p -> initial_hi p = inr hi ->
  (forall u m, exec hi = ExOk u m -> 1 <= u /\ forall g, g < u -> succeeds exec g = false) ->
  fst (estimate exec er_exit p) = EstOk r ->
  forall g, g < r -> succeeds exec g = false.
Proof. exact (fun exec er p hi r => estimate_minimal exec er current search_fuel p hi r eq_refl). Qed.
Print Assumptions C37_estimate_minimal.

(* Termination: under the guards the 130-iteration fuel is never exhausted (the loop
   makes at most 126 probes: each one halves hi-lo or doubles lo). *)
Theorem C37_estimate_terminates : forall exec er_exit p,
  (forall hi, initial_hi p = inr hi -> term_guard exec hi) ->
  fst (estimate exec er_exit p) <> EstOutOfFuel.
Proof. exact estimate_terminates. Qed.
Print Assumptions C37_estimate_terminates.

(* Without the guard hi0 < 2^63 the logarithmic bound is FALSE of the faithful model:
   l.182 [mid > lo*2] wraps in uint64, the clamp moves lo down and the search
   oscillates; with requested gas 2^64-1 and a monotone program that needs it all,
   1000 iterations do not finish (about 2^62 would). *)
Theorem C37_estimate_terminates_unguarded_refuted :
  exists exec p, wf_params p /\ monotone exec /\
    (forall u m, exec (p_call_gas p) = ExOk u m -> 2 <= u /\ u < W64 /\ m + CallStipend < 2 ^ 58) /\
    initial_hi p = inr (p_call_gas p) /\
    fst (estimate_fuel exec (fun _ _ => false) current 1000 p) = EstOutOfFuel.
Proof. exact estimate_terminates_unguarded_refuted. Qed.
Print Assumptions C37_estimate_terminates_unguarded_refuted.

(* Non-vacuity: a call with funds for 1,000,000 gas whose program needs 64/63 more than
   it uses (threshold 50000, used 41000): every hypothesis above is met, the estimate is
   exactly the threshold, found after the failing optimistic probe at 43987 and the
   clamped probe at 2*43987 (probes listed newest first). *)
Example C37_nonvacuous :
  let exec := fun g => if g <? 21000 then ExFailNil
                       else if g <? 50000 then ExFail VmOOG else ExOk 41000 41000 in
  let p := {| p_header_gas := 30000000; p_call_gas := 0; p_is_cancun := true;
              p_is_osaka := true; p_is_amsterdam := false; p_gas_fee_cap := Some 1000;
              p_gas_price := None; p_balance := 1000000500; p_value := Some 500;
              p_nblobs := 0; p_blob_fee_cap := 0; p_gas_cap := 25000000;
              p_data_len := 4; p_to_nil := false; p_code_size := 100 |} in
  wf_params p /\ initial_hi p = inr 1000000 /\ term_guard exec 1000000 /\
  succeeds exec 1000000 = true /\ monotone exec /\
  estimate exec (fun _ _ => false) p =
    (EstOk 50000, [49999; 49998; 49997; 49994; 49989; 49978; 49957; 49914; 50000; 49828;
                   50172; 50859; 52234; 49485; 54983; 65980; 87974; 43987; 1000000]) /\
  succeeds exec 49999 = false.
Proof.
  cbv zeta. split; [unfold wf_params; vm_compute; repeat split|].
  split; [vm_compute; reflexivity|].
  split.
  { split; [vm_compute; reflexivity|]. intros u m H. vm_compute in H.
    injection H as <- <-. vm_compute. repeat split; discriminate. }
  split; [vm_compute; reflexivity|].
  split.
  { intros g g' Hle. unfold succeeds.
    destruct (g <? 21000) eqn:A; [discriminate|]. destruct (g <? 50000) eqn:B; [discriminate|].
    intros _. destruct (g' <? 21000) eqn:A'; [lia|]. destruct (g' <? 50000) eqn:B'; [lia|].
    reflexivity. }
  split; vm_compute; reflexivity.
Qed.
