(* Properties/C36.v — Blocks built locally are valid blocks (PARTIAL).
   Property theorems only; each is closed by [exact] of a lemma of EVM/BuildProofs.v about
   the model EVM/Build.v of /repo/miner/worker.go (generateWork, fillTransactions,
   commitTransactions, commitTransaction, commitBlobTransaction, applyTransaction) and of the
   importer's side (/repo/core/state_processor.go Process, block_validator.go ValidateBody /
   ValidateState on the fields below), with the C43 iterators (Pool/Ordering.v) and the C31
   generated gas pool (Gas/Pool_gen.v).

   Vocabulary (EVM/Build.v).  [generate_work ... sigs1 sigs2 prio parent size0 pp pb] runs the
   builder on the pending maps [pp] (plain) / [pb] (blob) with prioritised senders [prio] under
   the interrupt schedules [sigs1]/[sigs2] (the value the interrupt shows at the top of each
   loop iteration of the two commitTransactions calls) and returns [GwBlock b env tr1 tr2]: the
   assembled block, the final miner environment and the two traces of attempts.
   [pre_check]/[exec] are the abstract per-transaction execution oracle (error classes before the
   block gas pool is consulted / execution result with the figures handed to the pool); between
   them the model runs the generated pool code.  [process] is the importer's Process over the
   SAME oracle and block-level functions; [validate] adds the header comparisons.
   [well_formed meta exec cfg]: gas limits are uint64, the figures given to the pool are those of
   a transaction that stayed within its reservation, blob transactions carry as many sidecar
   blobs as blob hashes, blob maximum and gas limit (< 2^63) are in range.

   FULL STATEMENT of the property (not provable in this form, see below):
     for all pools and payload attributes, the block miner.BuildPayload returns is accepted by
     BlockChain.InsertChain and ConsensusAPI.NewPayload with equal roots/bloom/gas/BAL hash.
   What is proved: builder trace = importer trace attempt by attempt, and (..._partial) acceptance
   by the MODEL importer, i.e. under the assumption
   that builder and importer evaluate the same deterministic per-transaction and per-block
   functions ([pre_check], [exec], [pre_exec], [post_exec], [finalize], ...).  What is missing:
   that the miner's real environment (EVM block context with an explicit coinbase, in-progress
   header, prefetcher, construction-time access list, parallel executor on the import side)
   computes the same functions as the importer's.  That is decided only by the correspondence /
   round-trip oracle on the implementation (harness/c36), which found the open known finding
   C36-bal-size-not-checked-by-builder (a constraint the importer checks and the model's
   [validate] does not contain). *)
From GV Require Import Lib.Tactics Gas.GoArith Gas.Pool_gen Pool.Ordering EVM.Build EVM.BuildProofs.
From Coq Require Import Sorted.
From GV Require Gas.FeesImpl.

(* header_fields_are_recomputed_values: the importer's re-execution of the built block succeeds
   and state root, BAL hash, receipts root, bloom, requests hash and gas used of the assembled
   header are exactly its outputs; the header's excess blob gas is CalcExcessBlobGas (the C35
   transcription Gas/FeesImpl.v, fork- and blob-schedule dependent) evaluated at the header's
   OWN time, which is what VerifyEIP4844Header recomputes.  [ccfg] = fork times and blob
   schedule, [parent_hdr] = the parent's base fee / excess blob gas / blob gas used,
   [head_time] = the new block's timestamp *)
Theorem C36_header_fields_are_recomputed_values :
  forall (S Rc H Q : Type) meta pre_check exec cfg pre_exec post_exec finalize
         (root_of bal_hash_of : S -> H) (receipts_root bloom_of : list Rc -> H) (requests_hash : Q -> H)
         ccfg parent_hdr parent_cancun head_time
         sigs1 sigs2 prio parent size0 pp pb b env tr1 tr2,
  well_formed meta exec cfg -> (c_cancun cfg = true -> parent_cancun = true) ->
  generate_work S Rc H Q meta pre_check exec cfg pre_exec post_exec finalize root_of bal_hash_of
                receipts_root bloom_of requests_hash ccfg parent_hdr parent_cancun head_time
                sigs1 sigs2 prio parent size0 pp pb
    = GwBlock S Rc H b env tr1 tr2 ->
  (exists pr, process S Rc Q meta pre_check exec cfg pre_exec post_exec finalize
                     parent (h_gaslimit H (b_header H b)) (b_txs H b) = Some pr /\
    h_gasused H (b_header H b) = pr_gasused S Rc Q pr /\
    h_root H (b_header H b) = root_of (pr_state S Rc Q pr) /\
    h_balhash H (b_header H b) = bal_hash_of (pr_state S Rc Q pr) /\
    h_receipts H (b_header H b) = receipts_root (pr_receipts S Rc Q pr) /\
    h_bloom H (b_header H b) = bloom_of (pr_receipts S Rc Q pr) /\
    h_requests H (b_header H b) = requests_hash (pr_requests S Rc Q pr)) /\
  h_time H (b_header H b) = head_time /\
  (c_cancun cfg = true ->
   exists e, FeesImpl.calc_excess_blob_gas ccfg parent_hdr (h_time H (b_header H b)) = FeesImpl.Ok e /\
             h_excessblobgas H (b_header H b) = Some e).
Proof. exact header_fields_are_recomputed_values. Qed.
Print Assumptions C36_header_fields_are_recomputed_values.

(* the model importer (blob-gas checks of VerifyEIP4844Header/ValidateBody, Process,
   ValidateState) accepts every block the builder assembles, for every interrupt schedule *)
Theorem C36_built_block_accepted_partial :
  forall (S Rc H Q : Type) meta pre_check exec cfg pre_exec post_exec finalize
         (root_of bal_hash_of : S -> H) (receipts_root bloom_of : list Rc -> H) (requests_hash : Q -> H)
         ccfg parent_hdr parent_cancun head_time
         (H_eqb : H -> H -> bool) proto_max
         sigs1 sigs2 prio parent size0 pp pb b env tr1 tr2,
  (forall h, H_eqb h h = true) ->
  well_formed meta exec cfg -> (c_cancun cfg = true -> parent_cancun = true) ->
  (c_maxblobs cfg <= Z.of_N proto_max)%Z ->
  generate_work S Rc H Q meta pre_check exec cfg pre_exec post_exec finalize root_of bal_hash_of
                receipts_root bloom_of requests_hash ccfg parent_hdr parent_cancun head_time
                sigs1 sigs2 prio parent size0 pp pb
    = GwBlock S Rc H b env tr1 tr2 ->
  validate S Rc H Q meta pre_check exec cfg pre_exec post_exec finalize root_of bal_hash_of
           receipts_root bloom_of requests_hash H_eqb ccfg parent_hdr proto_max parent b = true.
Proof. exact built_block_accepted. Qed.
Print Assumptions C36_built_block_accepted_partial.

(* built_within_limits: gas used within the gas limit, blobs within the maximum with the
   header's blob gas their multiple, and every included transaction's apply succeeds at its
   position (the importer's loop over exactly these transactions reaches the builder's pool,
   state and receipts) *)
Theorem C36_built_within_limits :
  forall (S Rc H Q : Type) meta pre_check exec cfg pre_exec post_exec finalize
         (root_of bal_hash_of : S -> H) (receipts_root bloom_of : list Rc -> H) (requests_hash : Q -> H)
         ccfg parent_hdr parent_cancun head_time
         sigs1 sigs2 prio parent size0 pp pb b env tr1 tr2,
  well_formed meta exec cfg -> (c_cancun cfg = true -> parent_cancun = true) ->
  generate_work S Rc H Q meta pre_check exec cfg pre_exec post_exec finalize root_of bal_hash_of
                receipts_root bloom_of requests_hash ccfg parent_hdr parent_cancun head_time
                sigs1 sigs2 prio parent size0 pp pb
    = GwBlock S Rc H b env tr1 tr2 ->
  (0 <= h_gasused H (b_header H b) <= h_gaslimit H (b_header H b))%Z /\
  (0 <= e_blobs env <= c_maxblobs cfg)%Z /\
  Z.of_N (h_blobgasused H (b_header H b)) = (131072 * e_blobs env)%Z /\
  sum_blobgas meta (b_txs H b) = h_blobgasused H (b_header H b) /\
  process_txs S Rc meta pre_check exec cfg (NewGasPool (c_gaslimit cfg)) (pre_exec parent) [] (b_txs H b)
    = Some (e_pool env, e_state env, e_receipts env).
Proof. exact built_within_limits. Qed.
Print Assumptions C36_built_within_limits.

(* failed_attempt_restores_pool: an attempt that ends in an error - for EVERY transaction kind,
   the separately transcribed blob path commitBlobTransaction included, and for every error
   class (before or after the block gas pool was debited) - leaves pool, state, included
   transactions, receipts, header gas used / blob gas used and the counters exactly as they
   were; only the reverted list grows (when applyTransaction was reached) *)
Theorem C36_failed_attempt_restores_pool :
  forall (S Rc : Type) meta pre_check exec cfg (env env' : benv S Rc) t e reached,
  commit_transaction S Rc meta pre_check exec cfg env t = Ok (env', Some e, reached) ->
  e_pool env' = e_pool env /\ e_state env' = e_state env /\ e_txs env' = e_txs env /\
  e_receipts env' = e_receipts env /\ e_gasused env' = e_gasused env /\
  e_blobgasused env' = e_blobgasused env /\ e_blobs env' = e_blobs env /\
  e_tcount env' = e_tcount env /\
  (e_reverted env' = e_reverted env ++ (if reached then [(t, e_tcount env)] else [])).
Proof. exact failed_attempt_restores_pool. Qed.
Print Assumptions C36_failed_attempt_restores_pool.

(* build_terminates: each iteration of commitTransactions that does not stop consumes the head
   of one iterator (Shift: replaced by the sender's next transaction or dropped; Pop: sender
   dropped), so over iterators built from maps the loop always returns (a result or a Go
   panic), for every execution oracle and interrupt schedule: it never exhausts the fuel
   [1 + number of pending transactions] the model gives it *)
Theorem C36_build_terminates :
  forall (S Rc : Type) meta pre_check exec cfg bf sigs env pp pb plain blob,
  NoDup (map fst pp) -> NoDup (map fst pb) ->
  new_by_price_and_nonce pp bf = Ok plain -> new_by_price_and_nonce pb bf = Ok blob ->
  commit_transactions S Rc meta pre_check exec cfg sigs env plain blob <> OutOfFuel.
Proof. exact build_terminates. Qed.
Print Assumptions C36_build_terminates.

(* included_order_valid.  One commitTransactions call over iterators built from the pending maps
   [pp] (plain) and [pb] (blob); [tr] is its trace of attempts:
   - the transactions the call adds to the block are exactly the successful attempts, in attempt
     order ([included tr]);
   - Shift is chosen exactly after a success or a nonce-too-low, Pop otherwise;
   - per iterator [isb] and sender [a] ([att] = the attempts on a's transactions, [l] = a's pending
     list): the attempted transactions are a PREFIX of l in list order, and every attempt but the
     last is followed by a Shift (C43: per_account_prefix, pop_drops_account on the run the loop
     performs);
   - hence, if none of a's attempts is refused as nonce-too-low (the pool's account nonce is the
     state's), a's included transactions are a prefix of l (all attempts or all but the last):
     no gap, no reordering; with the pool's consecutive nonces n0, n0+1, ... in l they carry
     exactly n0, n0+1, ..., consecutive from the state nonce;
   - in general (nonce-too-low attempts are skipped over) they are a sub-list of that prefix:
     strictly increasing nonces in l give strictly increasing included nonces. *)
Theorem C36_included_order_valid :
  forall (S Rc : Type) meta pre_check exec cfg bf sigs env pp pb plain blob env' p' b' tr st,
  NoDup (map fst pp) -> NoDup (map fst pb) ->
  new_by_price_and_nonce pp bf = Ok plain -> new_by_price_and_nonce pb bf = Ok blob ->
  commit_transactions S Rc meta pre_check exec cfg sigs env plain blob = Ok (env', p', b', tr, st) ->
  e_txs env' = e_txs env ++ included tr /\
  (forall x, In x tr ->
     (at_op x = OShift <-> at_why x = WApplied None \/ at_why x = WApplied (Some ENonceTooLow))) /\
  forall (isb : bool) a,
    let l := txs_of a (if isb then pb else pp) in
    let att := attempts_of isb a tr in
    map (fun x => it_tx (at_item x)) att = firstn (length att) l /\
    (forall pre x post, att = pre ++ x :: post -> post <> [] -> at_op x = OShift) /\
    ((forall x, In x att -> at_why x <> WApplied (Some ENonceTooLow)) ->
     exists j, included_of isb a tr = firstn j l /\ (j = length att \/ Datatypes.S j = length att)) /\
    (forall n0, (forall i t, nth_error l i = Some t -> tx_nonce t = n0 + N.of_nat i)%N ->
       (forall x, In x att -> at_why x <> WApplied (Some ENonceTooLow)) ->
       forall i t, nth_error (included_of isb a tr) i = Some t -> tx_nonce t = (n0 + N.of_nat i)%N) /\
    (StronglySorted N.lt (map tx_nonce l) ->
     StronglySorted N.lt (map tx_nonce (included_of isb a tr))).
Proof. exact included_order_valid_full. Qed.
Print Assumptions C36_included_order_valid.

(* builder_trace_is_importer_trace: the per-transaction content of "the importer accepts".
   There is a history [h] of the builder's run - the environment BEFORE each attempt of the two
   commitTransactions calls, threaded by [chain] from the initial environment to the final one -
   whose attempts are the traces, the block's transactions are the included attempts, and every
   entry satisfies [entry_ok] (EVM/Build.v): before each attempt the importer's loop over the
   transactions included so far has reached exactly the builder's gas pool, state and receipts
   (and blob-gas counter / header gas used agree with them); for an included attempt the single
   evaluation [apply_message pool state tx] the builder performs IS the importer's evaluation at
   that position - same arguments, hence same pool, state, receipt and gas.  This is an induction
   over the attempts; it holds for ANY execution oracle [pre_check]/[exec], i.e. whenever the
   per-transaction function is a deterministic function of (state, gas pool, tx, block config).
   TRUSTED GAP (not provable here, decided only by the round-trip correspondence on the
   implementation): that the real miner's environment (EVM block context with explicit coinbase,
   in-progress header, prefetcher, construction-time access list) and the real importer's
   (StateProcessor sequential or BAL-parallel, header-derived context) compute that same
   per-transaction function and the same block-level steps. *)
Theorem C36_builder_trace_is_importer_trace :
  forall (S Rc H Q : Type) meta pre_check exec cfg pre_exec post_exec finalize
         (root_of bal_hash_of : S -> H) (receipts_root bloom_of : list Rc -> H) (requests_hash : Q -> H)
         ccfg parent_hdr parent_cancun head_time,
  well_formed meta exec cfg ->
  forall parent sigs1 sigs2 prio size0 pp pb b env tr1 tr2,
  generate_work S Rc H Q meta pre_check exec cfg pre_exec post_exec finalize root_of bal_hash_of
                receipts_root bloom_of requests_hash ccfg parent_hdr parent_cancun head_time
                sigs1 sigs2 prio parent size0 pp pb
    = GwBlock S Rc H b env tr1 tr2 ->
  exists h, map snd h = tr1 ++ tr2 /\
            chain S Rc meta pre_check exec cfg (make_env S Rc cfg pre_exec parent size0) h env /\
            b_txs H b = included (tr1 ++ tr2) /\
            Forall (entry_ok S Rc meta pre_check exec cfg pre_exec parent) h.
Proof. exact builder_trace_is_importer_trace. Qed.
Print Assumptions C36_builder_trace_is_importer_trace.

(* importer_replays_each_included_tx: the same, position by position.  For EVERY position of the
   built block's transaction list ([pre] before it, [t] at it): the importer, having processed
   [pre], is in exactly the gas pool / state / receipts (and blob-gas counter) of the environment
   [e] from which the builder attempted [t], and the evaluation of the per-transaction function at
   this position is the very evaluation the builder made - same resulting pool, state, receipt *)
Theorem C36_importer_replays_each_included_tx :
  forall (S Rc H Q : Type) meta pre_check exec cfg pre_exec post_exec finalize
         (root_of bal_hash_of : S -> H) (receipts_root bloom_of : list Rc -> H) (requests_hash : Q -> H)
         ccfg parent_hdr parent_cancun head_time,
  well_formed meta exec cfg ->
  forall parent sigs1 sigs2 prio size0 pp pb b env tr1 tr2,
  generate_work S Rc H Q meta pre_check exec cfg pre_exec post_exec finalize root_of bal_hash_of
                receipts_root bloom_of requests_hash ccfg parent_hdr parent_cancun head_time
                sigs1 sigs2 prio parent size0 pp pb
    = GwBlock S Rc H b env tr1 tr2 ->
  forall pre t post, b_txs H b = pre ++ t :: post ->
  exists (e : benv S Rc) gp' s' rc,
    e_txs e = pre /\ e_blobgasused e = sum_blobgas meta pre /\
    process_txs S Rc meta pre_check exec cfg (NewGasPool (c_gaslimit cfg)) (pre_exec parent) [] pre
      = Some (e_pool e, e_state e, e_receipts e) /\
    apply_message S Rc meta pre_check exec cfg (e_pool e) (e_state e) t = (gp', inl (s', rc)) /\
    process_txs S Rc meta pre_check exec cfg (NewGasPool (c_gaslimit cfg)) (pre_exec parent) [] (pre ++ [t])
      = Some (gp', s', e_receipts e ++ [rc]).
Proof. exact importer_replays_each_included_tx. Qed.
Print Assumptions C36_importer_replays_each_included_tx.

(* non-vacuity: a legacy block of gas limit 70000 over three senders; transaction 12 is refused
   as nonce-too-low (Shift, the sender goes on), 21 with another error (Pop, 22 is never tried),
   32 and 13 no longer fit; the block holds 11 and 31, the parent carried 7 blobs under a target
   of 6 so the header's excess blob gas is one blob's worth, and the hypotheses are met *)
Example C36_nonvacuous :
  well_formed ex_meta ex_exec ex_cfg /\
  match ex_run with
  | GwBlock _ _ _ b env _ tr2 =>
      map tx_id (b_txs _ b) = [11%N; 31%N] /\ h_gasused _ (b_header _ b) = 42000%Z /\
      h_excessblobgas _ (b_header _ b) = Some 131072%Z /\
      map (fun p => (tx_id (fst p), snd p)) (e_reverted env) = [(12%N, 1%N); (21%N, 1%N)] /\
      map (fun a => (tx_id (it_tx (at_item a)), at_op a)) tr2 =
        [(11%N, OShift); (12%N, OShift); (21%N, OPop); (31%N, OShift); (32%N, OPop); (13%N, OPop)]
  | _ => False
  end.
Proof. split; [exact ex_well_formed|]. vm_compute. repeat split. Qed.
