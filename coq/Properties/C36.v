(* Properties/C36.v — Blocks built locally are valid blocks (PARTIAL).
   Property theorems only; each is closed by [exact] of a lemma of EVM/BuildProofs.v about
   the model EVM/Build.v of /repo/miner/worker.go (generateWork, fillTransactions,
   commitTransactions, commitTransaction, commitBlobTransaction, applyTransaction) and of the
   importer's side (/repo/core/state_processor.go Process, block_validator.go ValidateBody /
   ValidateState on the fields below), with the C43 iterators (Pool/Ordering.v) and the C31
   generated gas pool (Gas/Pool_gen.v).

   Vocabulary (EVM/Build.v).  [generate_work ... sigs1 sigs2 prio parent size0 pp pb] runs the
   builder on the pending maps [pp] (plain) / [pb] (blob) with prioritised senders [prio] under
   the interrupt schedules [sigs1]/[sigs2] (the value the interrupt shows at the top of each
   loop iteration of the two commitTransactions calls) and returns [GwBlock b env tr1 tr2]: the
   assembled block, the final miner environment and the two traces of attempts.
   [pre_check]/[exec] are the abstract per-transaction execution oracle (error classes before the
   block gas pool is consulted / execution result with the figures handed to the pool); between
   them the model runs the generated pool code.  [process] is the importer's Process over the
   SAME oracle and block-level functions; [validate] adds the header comparisons.
   [well_formed meta exec cfg]: gas limits are uint64, the figures given to the pool are those of
   a transaction that stayed within its reservation, blob transactions carry as many sidecar
   blobs as blob hashes, blob maximum and gas limit (< 2^63) are in range.

   FULL STATEMENT of the property (not provable in this form, see below):
     for all pools and payload attributes, the block miner.BuildPayload returns is accepted by
     BlockChain.InsertChain and ConsensusAPI.NewPayload with equal roots/bloom/gas/BAL hash.
   What is proved (..._partial): acceptance by the MODEL importer, i.e. under the assumption
   that builder and importer evaluate the same deterministic per-transaction and per-block
   functions ([pre_check], [exec], [pre_exec], [post_exec], [finalize], ...).  What is missing:
   that the miner's real environment (EVM block context with an explicit coinbase, in-progress
   header, prefetcher, construction-time access list, parallel executor on the import side)
   computes the same functions as the importer's.  That is decided only by the correspondence /
   round-trip oracle on the implementation (harness/c36), which found the open known finding
   C36-bal-size-not-checked-by-builder (a constraint the importer checks and the model's
   [validate] does not contain). *)
From GV Require Import Lib.Tactics Gas.GoArith Gas.Pool_gen Pool.Ordering EVM.Build EVM.BuildProofs.
From GV Require Gas.FeesImpl.

(* header_fields_are_recomputed_values: the importer's re-execution of the built block succeeds
   and state root, BAL hash, receipts root, bloom, requests hash and gas used of the assembled
   header are exactly its outputs; the header's excess blob gas is CalcExcessBlobGas (the C35
   transcription Gas/FeesImpl.v, fork- and blob-schedule dependent) evaluated at the header's
   OWN time, which is what VerifyEIP4844Header recomputes.  [ccfg] = fork times and blob
   schedule, [parent_hdr] = the parent's base fee / excess blob gas / blob gas used,
   [head_time] = the new block's timestamp *)
Theorem C36_header_fields_are_recomputed_values :
  forall (S Rc H Q : Type) meta pre_check exec cfg pre_exec post_exec finalize
         (root_of bal_hash_of : S -> H) (receipts_root bloom_of : list Rc -> H) (requests_hash : Q -> H)
         ccfg parent_hdr parent_cancun head_time
         sigs1 sigs2 prio parent size0 pp pb b env tr1 tr2,
  well_formed meta exec cfg -> (c_cancun cfg = true -> parent_cancun = true) ->
  generate_work S Rc H Q meta pre_check exec cfg pre_exec post_exec finalize root_of bal_hash_of
                receipts_root bloom_of requests_hash ccfg parent_hdr parent_cancun head_time
                sigs1 sigs2 prio parent size0 pp pb
    = GwBlock S Rc H b env tr1 tr2 ->
  (exists pr, process S Rc Q meta pre_check exec cfg pre_exec post_exec finalize
                     parent (h_gaslimit H (b_header H b)) (b_txs H b) = Some pr /\
    h_gasused H (b_header H b) = pr_gasused S Rc Q pr /\
    h_root H (b_header H b) = root_of (pr_state S Rc Q pr) /\
    h_balhash H (b_header H b) = bal_hash_of (pr_state S Rc Q pr) /\
    h_receipts H (b_header H b) = receipts_root (pr_receipts S Rc Q pr) /\
    h_bloom H (b_header H b) = bloom_of (pr_receipts S Rc Q pr) /\
    h_requests H (b_header H b) = requests_hash (pr_requests S Rc Q pr)) /\
  h_time H (b_header H b) = head_time /\
  (c_cancun cfg = true ->
   exists e, FeesImpl.calc_excess_blob_gas ccfg parent_hdr (h_time H (b_header H b)) = FeesImpl.Ok e /\
             h_excessblobgas H (b_header H b) = Some e).
Proof. exact header_fields_are_recomputed_values. Qed.
Print Assumptions C36_header_fields_are_recomputed_values.

(* the model importer (blob-gas checks of VerifyEIP4844Header/ValidateBody, Process,
   ValidateState) accepts every block the builder assembles, for every interrupt schedule *)
Theorem C36_built_block_accepted_partial :
  forall (S Rc H Q : Type) meta pre_check exec cfg pre_exec post_exec finalize
         (root_of bal_hash_of : S -> H) (receipts_root bloom_of : list Rc -> H) (requests_hash : Q -> H)
         ccfg parent_hdr parent_cancun head_time
         (H_eqb : H -> H -> bool) proto_max
         sigs1 sigs2 prio parent size0 pp pb b env tr1 tr2,
  (forall h, H_eqb h h = true) ->
  well_formed meta exec cfg -> (c_cancun cfg = true -> parent_cancun = true) ->
  (c_maxblobs cfg <= Z.of_N proto_max)%Z ->
  generate_work S Rc H Q meta pre_check exec cfg pre_exec post_exec finalize root_of bal_hash_of
                receipts_root bloom_of requests_hash ccfg parent_hdr parent_cancun head_time
                sigs1 sigs2 prio parent size0 pp pb
    = GwBlock S Rc H b env tr1 tr2 ->
  validate S Rc H Q meta pre_check exec cfg pre_exec post_exec finalize root_of bal_hash_of
           receipts_root bloom_of requests_hash H_eqb ccfg parent_hdr proto_max parent b = true.
Proof. exact built_block_accepted. Qed.
Print Assumptions C36_built_block_accepted_partial.

(* built_within_limits: gas used within the gas limit, blobs within the maximum with the
   header's blob gas their multiple, and every included transaction's apply succeeds at its
   position (the importer's loop over exactly these transactions reaches the builder's pool,
   state and receipts) *)
Theorem C36_built_within_limits :
  forall (S Rc H Q : Type) meta pre_check exec cfg pre_exec post_exec finalize
         (root_of bal_hash_of : S -> H) (receipts_root bloom_of : list Rc -> H) (requests_hash : Q -> H)
         ccfg parent_hdr parent_cancun head_time
         sigs1 sigs2 prio parent size0 pp pb b env tr1 tr2,
  well_formed meta exec cfg -> (c_cancun cfg = true -> parent_cancun = true) ->
  generate_work S Rc H Q meta pre_check exec cfg pre_exec post_exec finalize root_of bal_hash_of
                receipts_root bloom_of requests_hash ccfg parent_hdr parent_cancun head_time
                sigs1 sigs2 prio parent size0 pp pb
    = GwBlock S Rc H b env tr1 tr2 ->
  (0 <= h_gasused H (b_header H b) <= h_gaslimit H (b_header H b))%Z /\
  (0 <= e_blobs env <= c_maxblobs cfg)%Z /\
  Z.of_N (h_blobgasused H (b_header H b)) = (131072 * e_blobs env)%Z /\
  sum_blobgas meta (b_txs H b) = h_blobgasused H (b_header H b) /\
  process_txs S Rc meta pre_check exec cfg (NewGasPool (c_gaslimit cfg)) (pre_exec parent) [] (b_txs H b)
    = Some (e_pool env, e_state env, e_receipts env).
Proof. exact built_within_limits. Qed.
Print Assumptions C36_built_within_limits.

(* failed_attempt_restores_pool: an attempt that ends in an error - for EVERY transaction kind,
   the separately transcribed blob path commitBlobTransaction included, and for every error
   class (before or after the block gas pool was debited) - leaves pool, state, included
   transactions, receipts, header gas used / blob gas used and the counters exactly as they
   were; only the reverted list grows (when applyTransaction was reached) *)
Theorem C36_failed_attempt_restores_pool :
  forall (S Rc : Type) meta pre_check exec cfg (env env' : benv S Rc) t e reached,
  commit_transaction S Rc meta pre_check exec cfg env t = Ok (env', Some e, reached) ->
  e_pool env' = e_pool env /\ e_state env' = e_state env /\ e_txs env' = e_txs env /\
  e_receipts env' = e_receipts env /\ e_gasused env' = e_gasused env /\
  e_blobgasused env' = e_blobgasused env /\ e_blobs env' = e_blobs env /\
  e_tcount env' = e_tcount env /\
  (e_reverted env' = e_reverted env ++ (if reached then [(t, e_tcount env)] else [])).
Proof. exact failed_attempt_restores_pool. Qed.
Print Assumptions C36_failed_attempt_restores_pool.

(* build_terminates: each iteration of commitTransactions that does not stop consumes the head
   of one iterator (Shift: replaced by the sender's next transaction or dropped; Pop: sender
   dropped), so over iterators built from maps the loop always returns (a result or a Go
   panic), for every execution oracle and interrupt schedule: it never exhausts the fuel
   [1 + number of pending transactions] the model gives it *)
Theorem C36_build_terminates :
  forall (S Rc : Type) meta pre_check exec cfg bf sigs env pp pb plain blob,
  NoDup (map fst pp) -> NoDup (map fst pb) ->
  new_by_price_and_nonce pp bf = Ok plain -> new_by_price_and_nonce pb bf = Ok blob ->
  commit_transactions S Rc meta pre_check exec cfg sigs env plain blob <> OutOfFuel.
Proof. exact build_terminates. Qed.
Print Assumptions C36_build_terminates.

(* included_order_valid (partial).  FULL: per account, the INCLUDED transactions are in strictly
   increasing nonce order with no gap relative to the iterator's list.  PROVED: the attempts the
   loop makes on each iterator ([trace_of false] plain / [trace_of true] blob) are a run of the
   C43 iterator, so when a transaction is attempted exactly its predecessors in the sender's
   pending list were attempted before it, in list order, and nothing of a sender follows a Pop
   (so every attempt of a sender but the last was included or skipped as nonce-too-low).
   MISSING: the (bookkeeping) lemma that [e_txs] is the sub-list of successful attempts, and
   the corollary for sorted nonces. *)
Theorem C36_included_order_valid_partial :
  forall (S Rc : Type) meta pre_check exec cfg bf sigs env pp pb plain blob env' p' b' tr st,
  NoDup (map fst pp) -> NoDup (map fst pb) ->
  new_by_price_and_nonce pp bf = Ok plain -> new_by_price_and_nonce pb bf = Ok blob ->
  commit_transactions S Rc meta pre_check exec cfg sigs env plain blob = Ok (env', p', b', tr, st) ->
  forall isb : bool, let pend := if isb then pb else pp in
  forall tr1 it o tr2, trace_of isb tr = tr1 ++ (it, o) :: tr2 ->
    nth_error (txs_of (it_from it) pend) (length (proj (it_from it) tr1)) = Some (it_tx it) /\
    firstn (length (proj (it_from it) tr1)) (txs_of (it_from it) pend) = proj (it_from it) tr1 /\
    (o = OPop -> proj (it_from it) tr2 = []).
Proof. exact included_order_valid. Qed.
Print Assumptions C36_included_order_valid_partial.

(* non-vacuity: a legacy block of gas limit 70000 over three senders; transaction 12 is refused
   as nonce-too-low (Shift, the sender goes on), 21 with another error (Pop, 22 is never tried),
   32 and 13 no longer fit; the block holds 11 and 31, the parent carried 7 blobs under a target
   of 6 so the header's excess blob gas is one blob's worth, and the hypotheses are met *)
Example C36_nonvacuous :
  well_formed ex_meta ex_exec ex_cfg /\
  match ex_run with
  | GwBlock _ _ _ b env _ tr2 =>
      map tx_id (b_txs _ b) = [11%N; 31%N] /\ h_gasused _ (b_header _ b) = 42000%Z /\
      h_excessblobgas _ (b_header _ b) = Some 131072%Z /\
      map (fun p => (tx_id (fst p), snd p)) (e_reverted env) = [(12%N, 1%N); (21%N, 1%N)] /\
      map (fun a => (tx_id (it_tx (at_item a)), at_op a)) tr2 =
        [(11%N, OShift); (12%N, OShift); (21%N, OPop); (31%N, OShift); (32%N, OPop); (13%N, OPop)]
  | _ => False
  end.
Proof. split; [exact ex_well_formed|]. vm_compute. repeat split. Qed.
