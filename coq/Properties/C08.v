(* Properties/C08.v — Merkle proofs are sound and complete.
   Property theorems only; each is closed by [exact] of a lemma proved in
   Trie/ProofProofs.v, about the model Trie/Proof.v of /repo/trie/proof.go
   (Prove, VerifyProof, get) over Trie/Hash.v (node_enc, decode_node).

   H is any hash function with 32-byte outputs; NS is the finite set of node
   encodings in play and [H_inj_on H NS] says H has no collision on it.
   [pwf t]: a resolved in-memory trie node as Update builds them (valid hex keys,
   17-slot branches, non-empty values, keys/values shorter than 2^32 bytes).
   [lk t k]: the value stored under hex key k (OpsProofs.lk, the lookup that
   Trie.Get refines, C06).  A proof database is the list of its Puts;
   [db_keyed]: every entry is stored under the hash of its value. *)
From GV Require Import Lib.Tactics Lib.Bytes Rlp.Item Trie.Hex Trie.Node Trie.Ops Trie.Hash Trie.OpsProofs Trie.Proof Trie.ProofProofs.
Local Open Scope N_scope.

(* decodeNode inverts the node encoder: the node comes back with every child
   whose encoding is >= 32 bytes collapsed to its hash reference, embedded
   children kept (and collapsed recursively) *)
Theorem C08_decode_enc : forall (H : list N -> list N),
  (forall x, length (H x) = 32%nat) ->
  forall n e, pwf n -> node_enc H n = Some e -> proof_decode e = DOk (collapse H n).
Proof. exact decode_enc. Qed.
Print Assumptions C08_decode_enc.

(* completeness: for every non-empty resolved trie and every byte key, present or
   absent, Prove succeeds and VerifyProof of the emitted proof under the trie's
   root hash returns exactly the trie's value (None if absent) *)
Theorem C08_completeness : forall (H : list N -> list N),
  (forall x, length (H x) = 32%nat) ->
  forall NS : list N -> Prop, H_inj_on H NS ->
  forall resolve t r key,
    pwf t -> forallb byteb key = true -> (forall e, genuine H t e -> NS e) ->
    hash_root H t = Some r ->
    exists db, prove H resolve t key = TOk db /\
               verify_proof r key db = VOk (lk t (keybytes_to_hex key)).
Proof. exact completeness. Qed.
Print Assumptions C08_completeness.

(* the Go loop `for i := 0; ; i++` has no bound; the model's has (fuel).  For the
   genuine proof ANY bound >= 2n+1 (n = key length in bytes) gives the value: the
   model's fuel never decides, and no bound below 2n+1 is enough (C08_comb_tight) *)
Theorem C08_completeness_fuel : forall (H : list N -> list N),
  (forall x, length (H x) = 32%nat) ->
  forall NS : list N -> Prop, H_inj_on H NS ->
  forall resolve t r key,
    pwf t -> forallb byteb key = true -> (forall e, genuine H t e -> NS e) ->
    hash_root H t = Some r ->
    exists db, prove H resolve t key = TOk db /\
      forall f i, (2 * length key + 1 <= f)%nat ->
        verify_f f db r (keybytes_to_hex key) i = VOk (lk t (keybytes_to_hex key)).
Proof. exact completeness_fuel. Qed.
Print Assumptions C08_completeness_fuel.

(* same for every hash-keyed database of encodings in NS: with any bound >= 2n+1
   the loop ends with the true value or a missing node, never by the bound *)
Theorem C08_sound_fuel : forall (H : list N -> list N),
  (forall x, length (H x) = 32%nat) ->
  forall NS : list N -> Prop, H_inj_on H NS ->
  forall t r key db f i,
    pwf t -> forallb byteb key = true -> (forall e, genuine H t e -> NS e) ->
    db_keyed H db -> db_in NS db -> hash_root H t = Some r ->
    (2 * length key + 1 <= f)%nat ->
    verify_f f db r (keybytes_to_hex key) i = VOk (lk t (keybytes_to_hex key)) \/
    exists j, verify_f f db r (keybytes_to_hex key) i = VErr (VMissing j).
Proof. exact sound_fuel. Qed.
Print Assumptions C08_sound_fuel.

(* 2n+1 is reached: on the comb trie (a branch at every nibble depth, hashed
   terminator-only leaf) the proof has 2n+1 distinct nodes, bound 2n+1 verifies
   and bound 2n runs out; n = 2 and n = 32 (65 nodes), evaluated *)
Theorem C08_comb_tight : comb_check 2 = true /\ comb_check 32 = true.
Proof. exact comb_tight. Qed.
Print Assumptions C08_comb_tight.

(* ... but NOT for the empty trie: Prove emits no node and VerifyProof rejects the
   empty proof ("proof node 0 missing") instead of returning (nil, nil).
   Full statement refuted: forall t (including NEmpty), completeness. *)
Theorem C08_completeness_empty_refuted : forall (H : list N -> list N) resolve key,
  exists r, hash_root H NEmpty = Some r /\ prove H resolve NEmpty key = TOk [] /\
            verify_proof r key [] = VErr (VMissing 0) /\
            lk NEmpty (keybytes_to_hex key) = None.
Proof. intros H resolve key. exact (completeness_empty_refuted H resolve key). Qed.
Print Assumptions C08_completeness_empty_refuted.

(* soundness: a hash-keyed proof database made of ANY encodings in NS (genuine
   nodes of t, nodes of other tries, garbage; any omissions) verified against the
   root of t either fails or yields the true value of the key in t *)
Theorem C08_soundness : forall (H : list N -> list N),
  (forall x, length (H x) = 32%nat) ->
  forall NS : list N -> Prop, H_inj_on H NS ->
  forall t r key db v,
    pwf t -> forallb byteb key = true -> (forall e, genuine H t e -> NS e) ->
    db_keyed H db -> db_in NS db -> hash_root H t = Some r ->
    verify_proof r key db = VOk v -> v = lk t (keybytes_to_hex key).
Proof. exact soundness. Qed.
Print Assumptions C08_soundness.

(* under the same hypotheses every branch is accounted for: the true value or a
   missing-node error; no bad-node error, no panic, no non-termination *)
Theorem C08_verify_total_sound : forall (H : list N -> list N),
  (forall x, length (H x) = 32%nat) ->
  forall NS : list N -> Prop, H_inj_on H NS ->
  forall t r key db,
    pwf t -> forallb byteb key = true -> (forall e, genuine H t e -> NS e) ->
    db_keyed H db -> db_in NS db -> hash_root H t = Some r ->
    verify_proof r key db = VOk (lk t (keybytes_to_hex key)) \/
    exists j, verify_proof r key db = VErr (VMissing j).
Proof. exact verify_total_sound. Qed.
Print Assumptions C08_verify_total_sound.

(* verify_total: on EVERY database of byte strings (hash-keyed or not), every root
   and byte key, VerifyProof returns a value, "missing node", or "bad node" with a
   genuine decode error — never a panic and never the decoder's fuel.  [VLoop]
   (the Go loop does not terminate) needs a reference cycle in the database *)
Theorem C08_verify_total : forall db root key,
  (forall k b, In (k, b) db -> bytesb b = true) -> forallb byteb key = true ->
  (exists v, verify_proof root key db = VOk v) \/
  (exists i, verify_proof root key db = VErr (VMissing i)) \/
  (exists i e, verify_proof root key db = VErr (VBad i e) /\ e <> DFuel) \/
  verify_proof root key db = VErr VLoop.
Proof. exact verify_total. Qed.
Print Assumptions C08_verify_total.

Theorem C08_verify_never_panics : forall db root key,
  (forall k b, In (k, b) db -> bytesb b = true) -> forallb byteb key = true ->
  verify_proof root key db <> VErr VPanic.
Proof. exact verify_never_panics. Qed.
Print Assumptions C08_verify_never_panics.

(* decodeNode's nesting fuel (34) is never exhausted *)
Theorem C08_proof_decode_no_fuel : forall buf,
  bytesb buf = true -> proof_decode buf <> DErr DFuel.
Proof. exact proof_decode_no_fuel. Qed.
Print Assumptions C08_proof_decode_no_fuel.

(* Prove's first loop never fails on a resolved trie (no panic, fuel suffices)
   and collects exactly the nodes on the key's path *)
Theorem C08_prove_path_ok : forall resolve n,
  pwf n -> forall f prefix key, valid_key key -> (length key < f)%nat ->
  prove_path resolve f n prefix key = TOk (path_nodes n key).
Proof. exact prove_path_ok. Qed.
Print Assumptions C08_prove_path_ok.

(* the tries of the theorems include everything Update/Delete histories build:
   a canonical trie (OpsProofs.can, preserved by insert/delete: C06) with
   non-empty values and keys/values below the size guard is [pwf] *)
Theorem C08_can_pwf : forall n, can n -> sized n -> pwf n.
Proof. exact can_pwf. Qed.
Print Assumptions C08_can_pwf.

(* VerifyProof trusts the database's keys: on a database that is NOT keyed by
   hash it can be sent round a cycle for ever (the soundness theorems assume
   [db_keyed]) *)
Theorem C08_verify_loops_on_cycle :
  let root := repeat 17 32 in
  verify_proof root [1; 2] [(root, [226; 0; 160] ++ root)] = VErr VLoop.
Proof. exact verify_loops_on_cycle. Qed.
Print Assumptions C08_verify_loops_on_cycle.

(* the hypotheses are met by a concrete trie (extension, branch with a value, a
   hashed leaf and an embedded leaf) with a hash that is collision free on its
   encodings; [ex_check] evaluates completeness for present and absent keys and
   the rejection of a truncated proof on it *)
Example C08_nonvacuous :
  (forall x, length (toy_hash x) = 32%nat) /\
  H_inj_on toy_hash (fun e => In e (encs_of toy_hash ex_trie)) /\
  pwf ex_trie /\
  (forall e, genuine toy_hash ex_trie e -> In e (encs_of toy_hash ex_trie)) /\
  Forall (fun key => forallb byteb key = true) ex_keys /\
  ex_check = true.
Proof. exact ex_hypotheses. Qed.
