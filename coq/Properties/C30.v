(* Properties/C30.v — Jump destination analysis matches the bytecode definition.
   Property theorems only; each is closed by [exact] of a lemma proved in
   EVM/JumpdestProofs.v about the model EVM/Jumpdest.v of
   /repo/core/vm/analysis_legacy.go, contract.go (validJumpdest, isCode) and
   jumpdests.go.  [Err IndexOOB] = the Go code panics (index out of range),
   [Err OutOfFuel] = a model loop ran out of fuel; both are shown impossible.
   [is_code code pos] (specification): walking the opcode boundaries from 0,
   [pos] is reached as an opcode, i.e. is not inside PUSH immediate data.
   Guards: code bytes are bytes; len(code) < 2^64 (a Go slice length). *)
From GV Require Import Lib.Tactics EVM.Jumpdest EVM.JumpdestProofs EVM.JumpdestCalls EVM.JumpdestCallsProofs.

(* the bit vector computed by codeBitmap answers, at every position of the code,
   exactly the definition (for every bytecode: any mix and alignment of PUSH1..PUSH32,
   truncated trailing pushes included) *)
Theorem C30_bitmap_correct : forall code pos,
  forallb is_byte code = true -> pos < length code ->
  exists bits, codeBitmap code = Ok bits /\ codeSegment bits pos = Ok (is_code code pos).
Proof. exact bitmap_correct. Qed.
Print Assumptions C30_bitmap_correct.

(* no write of the analysis falls outside the allocated vector (the model returns
   [Err IndexOOB] on any such write), and the vector has len/8+5 bytes *)
Theorem C30_no_oob : forall code,
  forallb is_byte code = true ->
  exists bits, codeBitmap code = Ok bits /\ length bits = length code / 8 + 5.
Proof. exact no_oob. Qed.
Print Assumptions C30_no_oob.

(* ... and the spare bytes are needed: one byte less and PUSH32 as last opcode panics *)
Theorem C30_spare_bytes_needed :
  codeBitmapInternal [127%N] (repeat 0%N 4) = Err IndexOOB /\
  exists b, codeBitmapInternal [127%N] (repeat 0%N 5) = Ok b.
Proof. exact spare_bytes_needed. Qed.
Print Assumptions C30_spare_bytes_needed.

(* the same for codeBitmapInternal on any caller-supplied vector that is large enough
   and clear: the plain [=] stores of set8/set16/setN never destroy information *)
Theorem C30_internal_correct : forall code bits,
  forallb is_byte code = true -> length code / 8 + 4 < length bits -> clear_from bits 0 ->
  exists bits', codeBitmapInternal code bits = Ok bits' /\ length bits' = length bits /\
    forall pos, pos < length code -> bit bits' pos = negb (is_code code pos).
Proof. exact codeBitmapInternal_ok. Qed.
Print Assumptions C30_internal_correct.

(* validJumpdest on a fresh contract accepts a uint256 destination exactly when it is
   inside the code, holds JUMPDEST (0x5b) and is an opcode position; it never panics.
   Destinations >= 2^64 are rejected (no truncation). *)
Theorem C30_valid_jumpdest_spec : forall code dest,
  forallb is_byte code = true -> (N.of_nat (length code) < 2 ^ 64)%N ->
  (fst (fst (validJumpdest (new_contract code 0%N) cache_empty dest)) = Ok true <->
   (dest < N.of_nat (length code))%N /\
   nth_error code (N.to_nat dest) = Some 91%N /\
   is_code code (N.to_nat dest) = true) /\
  (fst (fst (validJumpdest (new_contract code 0%N) cache_empty dest)) = Ok true \/
   fst (fst (validJumpdest (new_contract code 0%N) cache_empty dest)) = Ok false).
Proof. exact valid_jumpdest_spec. Qed.
Print Assumptions C30_valid_jumpdest_spec.

(* cached analyses.  H = the code hash function, S = the set of codes in play, with H
   injective on S.  [contract_ok]: the contract's CodeHash (if non-zero) is H of its
   code and a stashed analysis is its own; [cache_ok]: every cache entry under hash h
   is the analysis of the code in S with hash h.  From any such state validJumpdest
   answers the definition, never panics, and re-establishes the invariant — hence along
   every sequence of calls on any number of contracts sharing the cache. *)
Theorem C30_valid_jumpdest_cached : forall (H : list N -> hash) (S : list N -> Prop),
  (forall a b, S a -> S b -> H a = H b -> a = b) ->
  forall c jd dest, contract_ok H S c -> cache_ok H S jd ->
  exists c' jd',
    validJumpdest c jd dest = (Ok (jumpdest_spec (c_code c) dest), c', jd') /\
    contract_ok H S c' /\ cache_ok H S jd' /\ c_code c' = c_code c /\ c_hash c' = c_hash c.
Proof. exact validJumpdest_consistent. Qed.
Print Assumptions C30_valid_jumpdest_cached.

(* a cache hit (any consistent cached state) gives the same answer as a fresh analysis *)
Theorem C30_cached_eq_fresh : forall (H : list N -> hash) (S : list N -> Prop),
  (forall a b, S a -> S b -> H a = H b -> a = b) ->
  forall c jd dest, contract_ok H S c -> cache_ok H S jd ->
  fst (fst (validJumpdest c jd dest)) =
  fst (fst (validJumpdest (new_contract (c_code c) 0%N) cache_empty dest)).
Proof. exact cached_eq_fresh. Qed.
Print Assumptions C30_cached_eq_fresh.

(* the invariant is established by: the empty cache; a new contract carrying H(code) *)
Theorem C30_cache_ok_empty : forall (H : list N -> hash) (S : list N -> Prop),
  cache_ok H S cache_empty.
Proof. exact cache_ok_empty. Qed.
Print Assumptions C30_cache_ok_empty.

(* the boolean specification and the inductive one (reachability by opcode steps) agree *)
Theorem C30_is_code_iff_reach : forall code pos,
  pos < length code -> (is_code code pos = true <-> reach code pos).
Proof. exact is_code_iff_reach. Qed.
Print Assumptions C30_is_code_iff_reach.

(* ---- the cache through the EVM call paths (EVM/JumpdestCalls.v) ----
   THE PAIRING OBLIGATION.  [frame_paired H S (code, h)]: the hash a call path hands to
   Contract.SetCallCode is zero (never cached) or is H of exactly the code handed to it.
   Any frame that satisfies it, run by the interpreter against any consistent shared
   cache, ends exactly as the definition-based interpreter ends on the frame's own code,
   and leaves the cache consistent.  This is what Call / CallCode / DelegateCall /
   StaticCall / create must satisfy for every frame. *)
Theorem C30_paired_frame_matches_definition :
  forall (H : list N -> hash) (S : list N -> Prop),
  (forall a b, S a -> S b -> H a = H b -> a = b) ->
  forall jd fr, code_ok (fst fr) -> frame_paired H S fr -> cache_ok H S jd ->
  exists jd', run_frame jd fr = (exec_spec (frame_fuel (fst fr)) (fst fr) 0 [], jd') /\
              cache_ok H S jd'.
Proof. exact run_frame_paired. Qed.
Print Assumptions C30_paired_frame_matches_definition.

(* the obligation is necessary: the same non-zero hash handed out with two different
   codes makes the second frame accept a jump into its own PUSH data *)
Theorem C30_unpaired_frames_wrong :
  let X := [96; 4; 86; 0; 91; 0]%N in
  let Y := [96; 4; 86; 97; 91; 0]%N in
  let '(o1, jd1) := run_frame cache_empty (X, 7%N) in
  let '(o2, _) := run_frame jd1 (Y, 7%N) in
  o1 = OStop /\ o2 = OStop /\
  exec_spec (frame_fuel Y) Y 0 [] = OInvalidJump /\
  fst (run_frame cache_empty (Y, 7%N)) = OInvalidJump.
Proof. exact unpaired_frames_wrong. Qed.
Print Assumptions C30_unpaired_frames_wrong.

(* the call paths as they are written (resolveCode / resolveCodeHash read the same
   account, also through an EIP-7702 designator; initcode gets the zero hash) discharge
   the obligation whenever the state stores with every code the hash of that code *)
Theorem C30_call_frame_paired : forall (H : list N -> hash) (S : list N -> Prop),
  forall kind st prague addr fr, state_ok H S st ->
  call_frame kind st prague addr = Some fr ->
  code_ok (fst fr) /\ frame_paired H S fr /\ fst fr = executed_code st prague addr.
Proof. exact call_frame_paired. Qed.
Print Assumptions C30_call_frame_paired.

(* every history of code changes at addresses (plain or delegated), calls of the four
   kinds and creations, all sharing one jumpdest cache: every call ends as the bytecode
   definition says for the code it executes at that moment, and every frame was paired *)
Theorem C30_calls_match_definition : forall (H : list N -> hash) (S : list N -> Prop),
  (forall a b, S a -> S b -> H a = H b -> a = b) ->
  forall ops prague st jd,
  Forall (op_ok H S) ops -> state_ok H S st -> cache_ok H S jd ->
  map fst (run_ops prague st jd ops) = run_ops_def prague st ops /\
  Forall (fun r => match snd r with Some fr => frame_paired H S fr | None => True end)
         (run_ops prague st jd ops).
Proof. exact run_ops_sound. Qed.
Print Assumptions C30_calls_match_definition.

(* non-vacuity: PUSH2 with two JUMPDEST bytes as data, a real JUMPDEST, then a PUSH32
   truncated by the end of the code (writes into the spare bytes) *)
Example C30_nonvacuous :
  let code := [97; 91; 91; 91; 127; 91]%N in
  forallb is_byte code = true /\
  codeBitmap code = Ok [230; 255; 255; 255; 31]%N /\
  map (is_code code) (seq 0 6) = [true; false; false; true; true; false] /\
  map (fun d => fst (fst (validJumpdest (new_contract code 0%N) cache_empty d)))
      [1; 3; 5; 6; 2 ^ 64 + 3]%N = [Ok false; Ok true; Ok false; Ok false; Ok false] /\
  contract_ok (fun c => N.of_nat (length c) + 1)%N (fun c => c = code)
              (new_contract code 7%N) /\
  fst (fst (validJumpdest (new_contract code 7%N)
              (cache_store cache_empty 7%N [230; 255; 255; 255; 31]%N) 3%N)) = Ok true /\
  (* account 0xA0 delegates (EIP-7702) to 0xB0; B's code changes between two calls of A *)
  let X := [96; 4; 86; 0; 91; 0]%N in
  let Y := [96; 4; 86; 97; 91; 0]%N in
  let des := ([239; 1; 0] ++ repeat 0 19 ++ [176])%N in
  let ops := [OpSetCode 176 X 11; OpSetCode 160 des 12; OpCall 0 160;
              OpSetCode 176 Y 13; OpCall 2 160; OpCall 3 176; OpCreate X]%N in
  map fst (run_ops true state_empty cache_empty ops) = [OStop; OInvalidJump; OInvalidJump; OStop] /\
  run_ops_def true state_empty ops = [OStop; OInvalidJump; OInvalidJump; OStop] /\
  map snd (run_ops true state_empty cache_empty ops) =
    [Some (X, 11); Some (Y, 13); Some (Y, 13); Some (X, 0)]%N.
Proof.
  cbv zeta.
  split; [vm_compute; reflexivity|]. split; [vm_compute; reflexivity|].
  split; [vm_compute; reflexivity|]. split; [vm_compute; reflexivity|].
  split.
  - unfold contract_ok, new_contract; cbn [c_code c_hash c_analysis].
    split; [vm_compute; reflexivity|]. split; [vm_compute; reflexivity|].
    split; [intros _; split; [reflexivity | vm_compute; reflexivity] | intros a E; discriminate].
  - split; [vm_compute; reflexivity|]. split; [vm_compute; reflexivity|].
    split; vm_compute; reflexivity.
Qed.
