(* Properties/C32.v — ether is conserved by block execution.
   Property theorems only; each is closed by [exact] of a lemma of EVM/EtherProofs.v, about
   the EVM core model EVM/{State,Step,Interp}.v and the transaction / block level of the
   execution specification EVM/{Tx,Block}.v.  [total w] is the sum of all balances in
   unbounded Z (EVM/Ether.v); [supply_ok w] is the named guard total w < 2^256 (no
   uint256 overflow in balances; C32_supply_guard).  They hold for every fork record,
   environment, world, code, gas and recursion fuel. *)
From GV Require Import Lib.Tactics Lib.Bytes EVM.Word256 EVM.Memory EVM.Gas EVM.State EVM.Instr.
From GV Require Import EVM.Step EVM.Interp EVM.Forks EVM.Frames EVM.Tx EVM.Block EVM.BlockForks.
From GV Require Import EVM.Ether EVM.EtherProofs.
Local Open Scope Z_scope.

Theorem C32_supply_guard : forall w, supply_ok w <-> total w < 2 ^ 256.
Proof. exact supply_ok_iff. Qed.
Print Assumptions C32_supply_guard.

(* transfer_conserves: CanTransfer + Transfer move ether, nothing is created or lost *)
Theorem C32_transfer_conserves : forall w a b v w',
  supply_ok w -> transfer w a b v = Some w' -> total w' = total w.
Proof. exact transfer_conserves. Qed.
Print Assumptions C32_transfer_conserves.

(* the SELFDESTRUCT cases (EIP-6780), enumerated exactly: the supply changes by sd_burn =
   the whole balance iff the contract was created in this transaction AND names itself as
   beneficiary; 0 in the three other cases *)
Theorem C32_selfdestruct_cases : forall w1 this ben,
  supply_ok w1 ->
  total (sd_effect w1 this ben) = total w1 - sd_burn w1 this ben /\
  sd_burn w1 this ben =
    (if is_created w1 this && (this =? ben)%N then Z.of_N (get_balance w1 this) else 0).
Proof. intros w1 this ben H. split; [exact (selfdestruct_cases w1 this ben H)|reflexivity]. Qed.
Print Assumptions C32_selfdestruct_cases.

(* frame_conserves.
   FULL statement: total after any call / create frame = total before - (sum of sd_burn
   over the SELFDESTRUCTs executed in frames of its tree that were not reverted).
   PROVED: (global) no frame, with all its descendants, at any state it passes through,
   ever increases the supply; (local, exact) every instruction other than SELFDESTRUCT /
   CALL family / CREATE family leaves it exactly unchanged, SELFDESTRUCT changes it by
   exactly sd_burn (above), a message call or creation changes it by exactly what the
   child frame does, starting from a state of equal supply, and by nothing if it fails.
   MISSING for the full statement: the model has no ghost counter of burnt ether, so the
   sum over the tree is not a term of the model; it is the telescoping sum of the exact
   local statements. *)
Theorem C32_frame_conserves_partial : forall d c w gas,
  supply_ok w ->
  total (r_w (run d c w gas)) <= total w /\
  forall f, reachable (step (run (pred d)) c) (init_frame w gas) f -> total (f_w f) <= total w.
Proof. exact frame_conserves_le. Qed.
Print Assumptions C32_frame_conserves_partial.

Theorem C32_frame_conserves_call : forall d e k this tc tv static depth w to value input gas,
  supply_ok w ->
  total (cr_w (evm_call (run d) e k this tc tv static depth w to value input gas)) <= total w.
Proof. exact call_conserves_le. Qed.
Print Assumptions C32_frame_conserves_call.

Theorem C32_frame_conserves_create : forall d e this static depth w init gas value addr,
  supply_ok w ->
  total (xr_w (evm_create (run d) e this static depth w init gas value addr)) <= total w.
Proof. exact create_conserves_le. Qed.
Print Assumptions C32_frame_conserves_create.

Theorem C32_plain_instr_conserves : forall rec c f i,
  plain_instr i = true -> supply_ok (f_w f) ->
  total (out_world (exec_instr rec c f i)) = total (f_w f).
Proof. exact plain_instr_conserves. Qed.
Print Assumptions C32_plain_instr_conserves.

Theorem C32_call_conserves_exact : forall rec e k this tc tv static depth w to value input gas,
  supply_ok w ->
  let r := evm_call rec e k this tc tv static depth w to value input gas in
  total (cr_w r) = total w \/
  exists c' w1, total w1 = total w /\ cr_w r = r_w (rec c' w1 gas).
Proof. exact call_conserves_exact. Qed.
Print Assumptions C32_call_conserves_exact.

Theorem C32_create_conserves_exact : forall rec e this static depth w init gas value addr,
  supply_ok w ->
  let r := evm_create rec e this static depth w init gas value addr in
  total (xr_w r) = total w \/
  exists c' w1, total w1 = total w /\ total (xr_w r) = total (r_w (rec c' w1 gas)).
Proof. exact create_conserves_exact. Qed.
Print Assumptions C32_create_conserves_exact.

(* revert_conserves: a failed message call or creation leaves the supply exactly unchanged *)
Theorem C32_revert_conserves_call : forall rec e k this tc tv static depth w to value input gas s,
  cr_err (evm_call rec e k this tc tv static depth w to value input gas) = Some s ->
  total (cr_w (evm_call rec e k this tc tv static depth w to value input gas)) = total w.
Proof. exact revert_conserves_call. Qed.
Print Assumptions C32_revert_conserves_call.

Theorem C32_revert_conserves_create : forall rec e this static depth w init gas value addr s,
  xr_err (evm_create rec e this static depth w init gas value addr) = Some s ->
  total (xr_w (evm_create rec e this static depth w init gas value addr)) = total w.
Proof. exact revert_conserves_create. Qed.
Print Assumptions C32_revert_conserves_create.

(* Finalise: exactly the balances of the accounts marked self-destructed disappear *)
Theorem C32_finalise_destroys : forall w,
  total_accts (finalise w) = total w - finalise_destroyed w /\ 0 <= finalise_destroyed w.
Proof. intros w. split; [apply total_finalise|apply finalise_destroyed_nonneg]. Qed.
Print Assumptions C32_finalise_destroys.

(* tx_accounting, for an included transaction of EVM/Tx.v (all types the specification
   covers: legacy, access list, dynamic fee, blob, set-code).  With used = gas used of the
   receipt and price = effective gas price: the sender owns and pays gas * price + blob fee
   up front; used <= gas and base fee <= price; afterwards EVERY address holds what the
   execution left it plus (sender) the unused gas (gas - used) * price plus (coinbase) the
   tip used * (price - base fee) — so the sender's net fee is used * price + blob fee, the
   value having moved inside the execution; the supply shrinks by exactly
   used * base fee + blob fee (burnt) + ether destroyed by the execution (>= 0, cf.
   frame_conserves) + ether destroyed by Finalise (>= 0). *)
Theorem C32_tx_accounting : forall tf b accts ga t accts' rc,
  apply_tx tf b accts ga t = inr (accts', rc) -> tx_wf t -> supply_ok (pre_world accts) ->
  let w := pre_world accts in
  let used := tx_used tf b accts t in
  let price := eff_price b t in
  let r := tx_exec tf b accts t in
  rc_gas_used rc = used /\ accts' = finalise (tx_settled tf b accts t) /\
  (upfront_cost b t <= get_balance w (tx_from t))%N /\
  get_balance (buy_gas b w t) (tx_from t) = (get_balance w (tx_from t) - upfront_cost b t)%N /\
  (used <= tx_gas t)%N /\ (b_basefee b <= price)%N /\
  (forall a, Z.of_N (get_balance (tx_settled tf b accts t) a) =
             Z.of_N (get_balance (t_w r) a)
             + (if (a =? tx_from t)%N then Z.of_N ((tx_gas t - used) * price) else 0)
             + (if (a =? b_coinbase b)%N then Z.of_N (used * (price - b_basefee b)) else 0)) /\
  total_accts accts' = total_accts accts - tx_fee_burnt b t used
                       - tx_evm_destroyed tf b accts t - tx_final_destroyed tf b accts t /\
  0 <= tx_evm_destroyed tf b accts t /\ 0 <= tx_final_destroyed tf b accts t.
Proof. exact tx_accounting. Qed.
Print Assumptions C32_tx_accounting.

(* withdrawals mint exactly amount * 10^9 wei *)
Theorem C32_withdrawals_mint : forall accts ws,
  total_accts accts + withdrawals_total ws < Z.of_N wmod ->
  total_accts (apply_withdrawals accts ws) = total_accts accts + withdrawals_total ws.
Proof. exact withdrawals_mint. Qed.
Print Assumptions C32_withdrawals_mint.

(* block_conservation: total' = total + withdrawals - burnt - destroyed, for the
   transaction loop and the withdrawals of EVM/Block.v (rejected transactions change
   nothing; there are no block rewards after the merge; the system calls of EIP-4788 /
   2935 / 7002 / 7251 carry no value and are frames, cf. C32_frame_conserves_call).
   burnt = sum over included transactions of used * base fee + blob fee (loop_burnt),
   destroyed = sum of their tx_evm_destroyed + tx_final_destroyed (loop_destroyed). *)
Theorem C32_block_conservation : forall tf b pre txs ws,
  Forall tx_wf txs -> total_accts pre + withdrawals_total ws < Z.of_N wmod ->
  total_accts (block_body tf b pre txs ws) =
    total_accts pre + withdrawals_total ws
    - loop_burnt tf b (init_loop pre) txs - loop_destroyed tf b (init_loop pre) txs /\
  0 <= loop_burnt tf b (init_loop pre) txs /\ 0 <= loop_destroyed tf b (init_loop pre) txs.
Proof. exact block_conservation. Qed.
Print Assumptions C32_block_conservation.

(* Non-vacuity: a block with one plain transfer of 1000 wei (gas price 10 = base fee 7 + tip
   3, 21000 gas) and one withdrawal of 2 Gwei.  The transaction is included, the guards
   hold, the sender pays 21000 * 10 + 1000, the coinbase gets 21000 * 3, 21000 * 7 is
   burnt, nothing is destroyed and the supply moves by + 2 * 10^9 - 147000. *)
Example C32_nonvacuous :
  let pre := [(4097%N, mk_account 1000000000 0 [] []); (4098%N, mk_account 5 0 [] [])] in
  let b := mk_benv 4105 1000 1 0 30000000 1 7 1 in
  let t := mk_tx 2 4097 0 21000 10 3 (Some 4098%N) 1000 [] [] 0 [] [] in
  let ws := [(4099%N, 2%N)] in
  let post := block_body cancun_tf b pre [t] ws in
  (tx_wfb t = true /\ (total_accts pre + withdrawals_total ws <? Z.of_N wmod) = true) /\
  loop_burnt cancun_tf b (init_loop pre) [t] = 147000 /\
  loop_destroyed cancun_tf b (init_loop pre) [t] = 0 /\
  total_accts post = total_accts pre + 2000000000 - 147000 /\
  get_balance (pre_world post) 4097 = (1000000000 - 210000 - 1000)%N /\
  get_balance (pre_world post) 4098 = 1005%N /\ get_balance (pre_world post) 4105 = 63000%N /\
  get_balance (pre_world post) 4099 = 2000000000%N.
Proof. vm_compute. repeat split; reflexivity. Qed.
