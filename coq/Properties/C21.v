(* Properties/C21.v — Hash-scheme garbage collection never drops live nodes.
   Property theorems only, about the model Storage/HashDB.v of /repo/triedb/hashdb/database.go;
   lemmas are in Storage/HashDBProofs.v, Storage/HashDBInv.v, Storage/HashDBOps.v.

   Histories: lists of Update / Reference / Dereference / Cap / Commit started on the empty
   database, satisfying [good] — exactly what the callers of hashdb guarantee:
     Update nodes refs : every inserted hash is non-zero, its trie children and embedded storage
                         roots are readable or inserted earlier in the same update ([ins_ok], the
                         order ForEachWithOrder / storage-tries-first produces), and refs are
                         exactly the (storage root, leaf parent) pairs of the inserted nodes;
     Reference c p     : p = 0 (root reference from the meta root) and c readable;
     Dereference r     : r = 0 or r currently referenced;  Cap, Commit: unrestricted.
   [u_of ops r] = number of live root references to r.  Hypothesis of every theorem: the node
   graph is acyclic, given as a rank ([rank_dec]; hash-linking under collision freedom).
   The invariant [Inv] weakens two clauses of the plan, because they are false of the code:
   reference counts are exact only for cached nodes that are NOT on disk (re-inserted disk nodes
   are under- or over-counted, the corner case the Go comment mentions), and "after all
   references are removed nothing stays cached" holds only off disk — see
   C21_deref_collects (true form) and C21_deref_collects_refuted (witness, replayed on /repo). *)
From GV Require Import Lib.Tactics Storage.HashDB Storage.HashDBProofs Storage.HashDBInv Storage.HashDBOps.
From Coq Require Import Sorted.
Local Open Scope N_scope.

(* every guarded history runs without nil dereference and without fuel exhaustion, and ends in
   a state satisfying the invariant: flush list doubly linked over exactly the cached nodes in
   insertion order, counts exact off disk, tracked children on disk or earlier in the flush
   list, disk closed under child / storage-root edges, sizes exact *)
Theorem C21_inv_all_histories :
  forall (kids ext : N -> list N) (nsize : N -> N) (cns ideal : Z) (rank : N -> nat),
    (forall h c, In c (kids h ++ ext h) -> (rank c < rank h)%nat) ->
    forall ops, good kids ext nsize cns ideal u0 empty_db ops ->
    exists st fl stamp nxt, run kids nsize cns ideal ops empty_db = Ok st /\
      Inv kids ext nsize fl stamp (u_of ops) nxt st.
Proof. exact all_histories. Qed.
Print Assumptions C21_inv_all_histories.

(* THE property: every node reachable (trie children and account -> storage root edges) from a
   root that is still referenced is cached or on disk *)
Theorem C21_live_readable :
  forall (kids ext : N -> list N) (nsize : N -> N) (cns ideal : Z) (rank : N -> nat),
    (forall h c, In c (kids h ++ ext h) -> (rank c < rank h)%nat) ->
    forall ops st r x, good kids ext nsize cns ideal u0 empty_db ops ->
    run kids nsize cns ideal ops empty_db = Ok st ->
    (0 < u_of ops r)%nat -> reach kids ext r x -> cached st x \/ ondisk st x.
Proof. exact hist_live. Qed.
Print Assumptions C21_live_readable.

Theorem C21_disk_closed :
  forall (kids ext : N -> list N) (nsize : N -> N) (cns ideal : Z) (rank : N -> nat),
    (forall h c, In c (kids h ++ ext h) -> (rank c < rank h)%nat) ->
    forall ops st r x, good kids ext nsize cns ideal u0 empty_db ops ->
    run kids nsize cns ideal ops empty_db = Ok st ->
    ondisk st r -> reach kids ext r x -> ondisk st x.
Proof. exact hist_disk_closed. Qed.
Print Assumptions C21_disk_closed.

(* after Commit root everything reachable from root is on disk *)
Theorem C21_commit_persists :
  forall (kids ext : N -> list N) (nsize : N -> N) (cns ideal : Z) (rank : N -> nat),
    (forall h c, In c (kids h ++ ext h) -> (rank c < rank h)%nat) ->
    forall ops st root st' x, good kids ext nsize cns ideal u0 empty_db ops ->
    run kids nsize cns ideal ops empty_db = Ok st ->
    known st root -> Commit kids nsize ideal st root = Ok st' -> reach kids ext root x -> ondisk st' x.
Proof. exact hist_commit_persists. Qed.
Print Assumptions C21_commit_persists.

(* the flush list is a doubly linked list over exactly the cached nodes, in insertion order *)
Theorem C21_flushlist_wf :
  forall (kids ext : N -> list N) (nsize : N -> N) (cns ideal : Z) (rank : N -> nat),
    (forall h c, In c (kids h ++ ext h) -> (rank c < rank h)%nat) ->
    forall ops st, good kids ext nsize cns ideal u0 empty_db ops ->
    run kids nsize cns ideal ops empty_db = Ok st ->
    exists fl stamp, linked fl st /\ (forall h, cached st h <-> In h fl) /\ StronglySorted (slt stamp) fl.
Proof. exact hist_flushlist. Qed.
Print Assumptions C21_flushlist_wf.

(* parents = references from cached nodes (children with multiplicity + external set) + live
   root references — for every cached node that is not on disk *)
Theorem C21_refcount_exact :
  forall (kids ext : N -> list N) (nsize : N -> N) (cns ideal : Z) (rank : N -> nat),
    (forall h c, In c (kids h ++ ext h) -> (rank c < rank h)%nat) ->
    forall ops st, good kids ext nsize cns ideal u0 empty_db ops ->
    run kids nsize cns ideal ops empty_db = Ok st ->
    exists fl, (forall h, cached st h <-> In h fl) /\ NoDup fl /\
      forall x, cached st x -> ~ ondisk st x -> gpar st x = (occ kids st fl x + u_of ops x)%nat.
Proof. exact hist_refcount. Qed.
Print Assumptions C21_refcount_exact.

(* reported memory usage = sum over the cached nodes of hash + blob + metadata + external set *)
Theorem C21_size_exact :
  forall (kids ext : N -> list N) (nsize : N -> N) (cns ideal : Z) (rank : N -> nat),
    (forall h c, In c (kids h ++ ext h) -> (rank c < rank h)%nat) ->
    forall ops st, good kids ext nsize cns ideal u0 empty_db ops ->
    run kids nsize cns ideal ops empty_db = Ok st ->
    exists fl, (forall h, cached st h <-> In h fl) /\ NoDup fl /\
      Size cns st = sumZ (fun h => cost nsize h + cns + xcost st h)%Z fl.
Proof. exact hist_size. Qed.
Print Assumptions C21_size_exact.

(* collection, in the form that is true: a cached node that is not on disk, has no root
   reference and no cached referrer has count 0 (it was never referenced: a count that reaches 0
   deletes the node); so no node off disk is kept alive by a stale count *)
Theorem C21_deref_collects :
  forall (kids ext : N -> list N) (nsize : N -> N) (cns ideal : Z) (rank : N -> nat),
    (forall h c, In c (kids h ++ ext h) -> (rank c < rank h)%nat) ->
    forall ops st x, good kids ext nsize cns ideal u0 empty_db ops ->
    run kids nsize cns ideal ops empty_db = Ok st ->
    cached st x -> ~ ondisk st x -> u_of ops x = 0%nat ->
    (forall p, cached st p -> ~ In x (tracked kids st p)) -> gpar st x = 0%nat.
Proof. exact hist_collects. Qed.
Print Assumptions C21_deref_collects.

(* ... and FALSE on disk: after this guarded history (all Dereferences matched, every Update
   children-first) node 1 is cached with parents = 1, alone in the flush list, with no cached
   referrer and no referenced root; it is on disk.  Open finding C21-leak-after-deref. *)
Theorem C21_deref_collects_refuted :
  exists st, run leak_kids leak_size 104%Z 102400%Z leak_ops empty_db = Ok st /\ leak_check st = true.
Proof. exact leak_witness. Qed.
Print Assumptions C21_deref_collects_refuted.

(* the hypotheses are met: a guarded history (shared child, external reference, root reference)
   over an acyclic graph *)
Example C21_nonvacuous :
  (forall h c, In c (demo_kids h ++ demo_ext h) -> (N.to_nat c < N.to_nat h)%nat) /\
  good demo_kids demo_ext leak_size 104%Z 102400%Z u0 empty_db demo_ops /\
  linked [1; 2; 3] demo_state.
Proof. split; [exact demo_rank|]. split; [exact demo_good | exact demo_linked]. Qed.
