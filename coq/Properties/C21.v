(* Properties/C21.v — Hash-scheme garbage collection never drops live nodes.
   Property theorems only, about the model Storage/HashDB.v of
   /repo/triedb/hashdb/database.go; lemmas are in Storage/HashDBProofs.v.

   FULL STATEMENTS AIMED AT (DESIGN.md section 6, C21), for every history [ops] of
   Update / Reference(root) / Dereference(root) / Cap / Commit whose Updates insert children
   before parents and list every account-leaf storage root, and whose Dereferences match
   earlier References:
     run ops empty_db = Ok st  /\  exists fl stamp u, Inv kids ext nsize fl stamp u st
   (no nil dereference, no fuel exhaustion, and the invariant [Inv] = flush list well formed
   over exactly the cached nodes in insertion order + reference counts exact for nodes not
   on disk + children readable + sizes exact).
   PROVED BELOW: (1) every clause of the property follows from [Inv] (readability of live
   nodes, size accounting); (2) the flush-list part of [Inv] is preserved by the removal
   switch shared by dereference and cleaner.Put, and by cleaner.Put as a whole, for every
   well-formed list and every position.  MISSING: preservation of the remaining clauses of
   [Inv] by insert/reference/dereference/Cap/Commit (the recursion of dereference and commit)
   — hence the names …_partial; those clauses are evaluated as a direct oracle on the real
   implementation after every operation of every generated history.
   REFUTED: "after all references are removed nothing stays cached" — see
   C21_deref_collects_refuted (replayed on the real code). *)
From GV Require Import Lib.Tactics Storage.HashDB Storage.HashDBProofs.
Local Open Scope N_scope.

(* THE property, given the invariant: every node reachable (trie children and
   account -> storage root edges) from a root that is still referenced is cached or on disk *)
Theorem C21_live_readable_partial :
  forall (kids ext : N -> list N) (nsize : N -> N) st fl stamp u r x,
    Inv kids ext nsize fl stamp u st ->
    (0 < u r)%nat -> reach kids ext r x ->
    cached st x \/ ondisk st x.
Proof. exact inv_live_readable. Qed.
Print Assumptions C21_live_readable_partial.

(* everything below a node that is on disk is on disk (what Commit/Cap leave behind is closed) *)
Theorem C21_disk_closed_partial :
  forall (kids ext : N -> list N) (nsize : N -> N) st fl stamp u r x,
    Inv kids ext nsize fl stamp u st -> ondisk st r -> reach kids ext r x -> ondisk st x.
Proof. exact ondisk_reach. Qed.
Print Assumptions C21_disk_closed_partial.

(* reported memory usage = sum over the cached nodes of hash + blob + metadata + external set *)
Theorem C21_size_exact_partial :
  forall (kids ext : N -> list N) (nsize : N -> N) st fl stamp u cns,
    Inv kids ext nsize fl stamp u st ->
    Size cns st = sumZ (fun h => node_cost nsize h + cns +
                    match getd st h with Some e => zlen (e_ext e) * hashLen | None => 0 end)%Z fl.
Proof. exact inv_size_exact. Qed.
Print Assumptions C21_size_exact_partial.

(* flush list: the removal switch of dereference / cleaner.Put never hits a nil pointer on a
   well-formed list and leaves a well-formed list without the node, touching no reference
   count, external set, size or disk content — for every list and every position *)
Theorem C21_flushlist_unlink_partial :
  forall fl st h node e,
    linked fl st -> In h fl -> getd st h = Some e ->
    e_prev node = e_prev e -> e_next node = e_next e ->
    exists st', unlink st h node = Ok st' /\ linked (rm h fl) st' /\ same_logic st st' /\
                getd st' h = getd st h.
Proof. exact unlink_linked. Qed.
Print Assumptions C21_flushlist_unlink_partial.

(* cleaner.Put (the uncaching step of Commit) keeps the list well formed over exactly the
   cached nodes, never touches the disk set nor any other node's count/external set *)
Theorem C21_flushlist_uncache_partial :
  forall nsize fl st h,
    linked fl st -> (forall x, getd st x <> None <-> In x fl) ->
    exists st', uncache nsize st h = Ok st' /\ linked (rm h fl) st' /\
                (forall x, getd st' x <> None <-> In x (rm h fl)) /\ disk st' = disk st /\
                (forall x, x <> h -> lget st' x = lget st x).
Proof. exact uncache_linked. Qed.
Print Assumptions C21_flushlist_uncache_partial.

(* the clause "after all references to a root are removed no node reachable only from removed
   roots remains cached" is FALSE of the faithful model: after this history (all Dereferences
   matched, every Update children-first) node 1 is cached with parents = 1, alone in the
   flush list, with no cached referrer and no referenced root; it is on disk *)
Theorem C21_deref_collects_refuted :
  exists st, run leak_kids leak_size 104%Z 102400%Z leak_ops empty_db = Ok st /\ leak_check st = true.
Proof. exact leak_witness. Qed.
Print Assumptions C21_deref_collects_refuted.

Example C21_nonvacuous : linked [1; 2; 3] demo_state /\ In 2 [1; 2; 3].
Proof. split; [exact demo_linked | cbn; auto]. Qed.
