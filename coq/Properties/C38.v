(* Properties/C38.v — The canonical chain index stays consistent under reorgs.
   Property theorems only, about the model Chain/Canonical.v of
   /repo/core/blockchain.go (writeHeadBlock, reorg, SetCanonical, insertChain,
   insertSideChain, recoverAncestors, SetHead, restart); each is closed by [exact]
   of a lemma of Chain/CanonicalProofs.v, CanonicalInv.v or CanonicalWitness.v. *)
From GV Require Import Lib.Tactics Chain.Tree Chain.Canonical Chain.LookupCache Chain.CanonicalProofs Chain.CanonicalInv Chain.CanonicalTop Chain.CanonicalIndex Chain.CanonicalEvents Chain.CanonicalCache Chain.CanonicalChain Chain.CanonicalState Chain.CanonicalOps Chain.CanonicalWitness.
Local Open Scope N_scope.

(* The index is parent-linked up to the head, names the head at its height, and the head
   block lies on it — for ALL histories of InsertChain / InsertBlockWithoutSetHead /
   SetCanonical / SetHead / Stop+NewBlockChain (incl. the known-block, side-chain and
   ancestor-recovery paths, whatever the availability of state), over any well-formed
   block tree and any fuel.  "The head" is the head HEADER: writeHeadBlock always moves
   it with the head block, SetHead may leave the head block below it. *)
Theorem C38_canon_parent_linked :
  forall (T : tree) (fuel : nat) (ops : list op),
    wf_tree T ->
    let st := run T fuel genesis_db ops in
    exists hb, T (hd_header st) = Some hb /\
      canon st (b_number hb) = Some (hd_header st) /\
      (forall n, n < b_number hb ->
         exists h b, canon st (n + 1) = Some h /\ T h = Some b /\ b_number b = n + 1 /\
                     canon st n = Some (b_parent b)) /\
      (exists bb, T (hd_block st) = Some bb /\ b_number bb <= b_number hb /\
                  canon st (b_number bb) = Some (hd_block st)).
Proof.
  intros T fuel ops Hwf st. apply (Inv_linked T Hwf). apply run_inv; auto. apply Inv_genesis; auto.
Qed.
Print Assumptions C38_canon_parent_linked.

(* "No canonical entry above the head", in the form that is invariant: for all histories
   of all five operations along which the head block never falls below the head header
   (heads_equal_along: after every step hd_block = hd_header — automatic for the three
   import operations, a condition on SetHead / restart: they must land on a block whose
   state is available), nothing is canonical above the head and every canonical block is
   stored.  Without that condition the clause is false: C38_no_entry_above_head_refuted. *)
Theorem C38_no_entry_above_head :
  forall (T : tree) (fuel : nat) (ops : list op),
    wf_tree T -> (forall g, T 0 = Some g -> T (b_parent g) = None) ->
    heads_equal_along T fuel genesis_db ops ->
    let st := run T fuel genesis_db ops in
    (forall n, num_of T (hd_header st) < n -> canon st n = None) /\
    (forall n h, canon st n = Some h -> is_known st h = true).
Proof.
  intros T fuel ops Hwf Hgp HE st.
  destruct (run_strict2 T Hwf Hgp fuel ops genesis_db HE (Strict2_genesis T Hwf)) as ((_ & _ & HT) & HK).
  split; [exact HT | exact HK].
Qed.
Print Assumptions C38_no_entry_above_head.

(* head_has_state: after every operation of every history of the five operations the state of
   the head block is available (bc.HasState(CurrentBlock().Root)); the genesis state is never
   lost, in memory or on disk.  (Stop commits the head state, so NewBlockChain's repair path
   is not reached in these histories; SetHead lands on a block with state or on the genesis.) *)
Theorem C38_head_has_state :
  forall (T : tree) (fuel : nat) (ops : list op),
    wf_tree T ->
    let st := run T fuel genesis_db ops in
    avail st (hd_block st) = true /\ avail st 0 = true /\ disk st 0 = true.
Proof.
  intros T fuel ops Hwf st.
  exact (run_HSt T Hwf fuel ops genesis_db (Inv_genesis T Hwf) (HSt_genesis)).
Qed.
Print Assumptions C38_head_has_state.

(* WITHOUT any condition on the heads, for ALL histories of the five operations: the canonical
   index is exactly the ancestor chain of ONE stored block [top], which is the head header or a
   descendant of it; nothing is canonical above [top] and every canonical block is stored.  So
   whatever is canonical above the head header descends from it.  The exact exception to "the
   chain ends AT the head" is top <> head header: the open finding
   C38-linked-canon-above-head-header (witness: C38_no_entry_above_head_refuted). *)
Theorem C38_index_is_one_chain :
  forall (T : tree) (fuel : nat) (ops : list op),
    wf_tree T -> (forall g, T 0 = Some g -> T (b_parent g) = None) ->
    let st := run T fuel genesis_db ops in
    exists hb top tb, T (hd_header st) = Some hb /\ T top = Some tb /\ b_number hb <= b_number tb /\
      anc T top (b_number hb) = Some (hd_header st) /\
      (forall n, n <= b_number tb -> canon st n = anc T top n) /\
      (forall n, b_number tb < n -> canon st n = None) /\
      (forall n h, canon st n = Some h -> is_known st h = true).
Proof.
  intros T fuel ops Hwf Hgp st. exact (CH_statement T _ (run_CH T Hwf Hgp fuel ops genesis_db (CH_genesis T Hwf Hgp))).
Qed.
Print Assumptions C38_index_is_one_chain.

(* Without the heads-together condition the clause is still false after 337872da5f, in
   one remaining shape: SetHead onto a block without state, then re-import of the SAME
   chain on the rewound head block (writeHeadBlock pulls the head header down): the old
   entries stay above the head; they are its descendants (anc 2 1 = head), and a tx resolves
   into one of them.  The other shape (a COMPETITOR imported there, entries that are not
   descendants) was the defect repaired by 337872da5f: C38_stale_above_head_repaired. *)
Theorem C38_no_entry_above_head_refuted :
  exists (T : tree) (fuel : nat) (ops : list op), wf_tree T /\
    let st := run T fuel genesis_db ops in
    hd_header st = 1 /\ hd_block st = 1 /\ num_of T 1 = 1 /\ canon st 1 = Some 1 /\
    canon st 2 = Some 2 /\ anc T 2 1 = Some 1 /\ resolve_tx T st 7 = Some (2, 2).
Proof. exact no_entry_above_head_refuted. Qed.
Print Assumptions C38_no_entry_above_head_refuted.

Theorem C38_stale_above_head_repaired :
  let st := wrun stale_ops in
  hd_header st = 5 /\ hd_block st = 5 /\ canon st 1 = Some 5 /\ canon st 2 = None /\ canon st 3 = None.
Proof. exact stale_repaired. Qed.
Print Assumptions C38_stale_above_head_repaired.

(* reorg: the removed logs are those of the old branch above the common ancestor and
   the added logs those of the new branch above it, new head excluded (its logs are
   emitted by the caller) — both OLDEST first, as the code emits them ("forward order");
   the two branches share no hash; the index is rebuilt below the new head's parent *)
Theorem C38_reorg_events_exact :
  forall (T : tree) fuel st old new st' evs,
    reorg T fuel st old new = Ok (st', evs) -> hdr_ok T old -> hdr_ok T new ->
    exists c oc nc, down T old oc c /\ down T new nc c /\
      removed_logs evs = flat_map (logs_of st) (rev oc) /\
      added_logs evs = flat_map (logs_of st) (rev (tl nc)).
Proof. exact reorg_events. Qed.
Print Assumptions C38_reorg_events_exact.

Theorem C38_reorg_branches_disjoint :
  forall (T : tree) fuel st o n c oc nc,
    find_common T fuel st o n [] [] = Ok (c, oc, nc) ->
    Forall2 (fun a b => fst a <> fst b) oc nc.
Proof. intros. eapply find_common_disjoint; eauto. Qed.
Print Assumptions C38_reorg_branches_disjoint.

Theorem C38_reorg_rebuilds_index :
  forall (T : tree) fuel st old new st' evs,
    reorg T fuel st old new = Ok (st', evs) -> hdr_ok T old -> hdr_ok T new -> GC T (canon st) old ->
    exists p, GC T (canon st') p /\ hdr_ok T p /\ (p = new \/ parent_of T new p) /\ same_frame st st'.
Proof. exact reorg_GC. Qed.
Print Assumptions C38_reorg_rebuilds_index.

(* fuel bound = the two branch lengths (+2), given the index is empty from [fuel] on *)
Theorem C38_reorg_terminates :
  forall (T : tree) fuel st old new, hdr_ok T old -> hdr_ok T new ->
    (N.to_nat (hnum old) + N.to_nat (hnum new) + 1 < fuel)%nat ->
    (forall n, N.of_nat fuel <= n -> canon st n = None) ->
    reorg T fuel st old new <> Err EOutOfFuel.
Proof. exact reorg_terminates. Qed.
Print Assumptions C38_reorg_terminates.

(* tx lookups as the code maintains them: resolution (rawdb.ReadCanonicalTransaction)
   re-checks the index and the body, so whatever resolves is a stored block holding the
   tx and named by the index at the looked-up height.  (That this block is an ancestor
   of the head follows from C38_canon_parent_linked whenever n <= head.number;
   C38_no_entry_above_head_refuted shows a resolution above the head.) *)
(* PARTIAL: the converse over histories (every tx of a canonical block resolves) is not
   proved; it is checked on every operation by the Go oracle. *)
Theorem C38_lookups_canonical_only_partial :
  forall (T : tree) st tx h n, resolve_tx T st tx = Some (h, n) ->
    lookup st tx = Some n /\ canon st n = Some h /\
    exists b, T h = Some b /\ is_known st h = true /\ mem tx (b_txs b) = true.
Proof.
  intros T st tx h n H. unfold resolve_tx, get_by_hash in H.
  destruct (lookup st tx) as [n'|]; [|discriminate]. destruct (canon st n') as [h'|] eqn:EC; [|discriminate].
  destruct (T h') as [b|] eqn:ET; [|discriminate]. destruct (is_known st h') eqn:EK; [|discriminate].
  cbn in H. destruct (mem tx (b_txs b)) eqn:EM; [|discriminate]. inversion H; subst. eauto 8.
Qed.
Print Assumptions C38_lookups_canonical_only_partial.

(* the events of whole operations are NOT the exact switch on two paths of the code *)
Theorem C38_set_canonical_reemits_logs_refuted :
  exists (T : tree) fuel st, canon st 2 = Some 2 /\
    exists st' evs, step T fuel st (OSetCanonical 2) = (st', evs, None) /\
                    added_logs evs = [100] /\ removed_logs evs = [].
Proof. exact set_canonical_reemits_logs_refuted. Qed.
Print Assumptions C38_set_canonical_reemits_logs_refuted.

Theorem C38_known_reimport_silent_refuted :
  exists (T : tree) fuel st, canon st 2 = None /\
    exists st' evs, step T fuel st (OInsert [1;2]) = (st', evs, None) /\
                    canon st' 2 = Some 2 /\ added_logs evs = [] /\ removed_logs evs = [200].
Proof. exact known_reimport_silent_refuted. Qed.
Print Assumptions C38_known_reimport_silent_refuted.

(* ---- the tx lookup index (rawdb tx hash -> block number; the whole chain is indexed: tail 0) ----
   For all histories of InsertChain / InsertBlockWithoutSetHead / SetCanonical / restart along
   which the heads stay together: an entry tx -> n exists IFF the tx is in the canonical block
   of height n.  Hypotheses on the tree: well-formed, the genesis parent hash names no block,
   a tx occurs at most once among the ancestors of any block (nonces), the genesis has no txs.
   Exact exception: SetHead, which deletes blocks and markers but not their entries
   (C38-sethead-stale-lookups): C38_tx_index_sethead_refuted. *)
Theorem C38_tx_index_exact :
  forall (T : tree) (fuel : nat) (ops : list op),
    wf_tree T -> (forall g, T 0 = Some g -> T (b_parent g) = None) ->
    tx_once_per_branch T -> (forall g, T 0 = Some g -> forall tx, ~ In tx (b_txs g)) ->
    Forall not_set_head ops -> heads_equal_along T fuel genesis_db ops ->
    let st := run T fuel genesis_db ops in
    forall tx n, lookup st tx = Some n <->
                 exists h b, canon st n = Some h /\ T h = Some b /\ In tx (b_txs b).
Proof.
  intros T fuel ops Hwf Hgp HU Hg Hops HE st tx n.
  destruct (run_LInv T Hwf Hgp HU Hg fuel ops genesis_db Hops HE (LInv_genesis T Hwf Hg)) as (_ & HLS & HLC).
  split; [apply HLS | intros (h & b & Hc & Hb & Hin); eapply HLC; eauto].
Qed.
Print Assumptions C38_tx_index_exact.

Theorem C38_tx_index_sethead_refuted :
  let st := wrun [OInsert [1;2]; OSetHead 1] in
  lookup st 7 = Some 2 /\ canon st 2 = None /\ hd_header st = 1 /\ hd_block st = 1.
Proof. exact tx_index_sethead_refuted. Qed.
Print Assumptions C38_tx_index_sethead_refuted.

(* ---- what every head change announces (full lists; the >512 chunking is abstracted by
   concatenation).  [switch st x leaving entering]: either x extends the head block
   (leaving = [], entering = [x]) or leaving / entering are the old / new branch above the
   common ancestor, newest first; entering = [] iff x was canonical already (an ancestor of
   the head, or the head).  [logs_old_first] lists their logs oldest block first. ---- *)

(* SetCanonical (head state present): removed = logs of the leaving blocks; added = logs of
   the entering blocks below x, then x's; one ChainEvent and one ChainHeadEvent, for x.
   Stated exception (C38-setcanonical-reemits-logs): x's logs are emitted also when
   entering = [], i.e. when x does not enter the chain. *)
Theorem C38_set_canonical_events_exact :
  forall (T : tree) fuel st x st' evs,
    avail st (fst x) = true -> set_canonical T fuel st x = (st', evs, None) -> hdr_ok T x ->
    (forall cur, cur_hdr T st = Some cur -> hdr_ok T cur) ->
    exists leaving entering, switch T st x leaving entering /\
      removed_logs evs = logs_old_first st leaving /\
      added_logs evs = logs_old_first st (tl entering) ++ logs_of st x /\
      (entering = x :: tl entering -> added_logs evs = logs_old_first st entering) /\
      chain_evs evs = [fst x] /\ head_evs evs = [fst x].
Proof.
  intros T fuel st x st' evs Hav H Hx Hc.
  destruct (set_canonical_events T _ _ _ _ _ Hav H Hx Hc) as (lv & en & Hsw & Hr & Ha & Hce & Hhe).
  exists lv, en. repeat split; auto. intros E. rewrite Ha. now apply entering_logs.
Qed.
Print Assumptions C38_set_canonical_events_exact.

(* writeBlockAndSetHead (every freshly executed block of InsertChain): the same, with x's
   logs taken from its execution; the ChainHeadEvent is deferred to the end of InsertChain *)
Theorem C38_insert_block_events_exact :
  forall (T : tree) fuel st x st' evs,
    write_block_and_set_head T fuel st x = Ok (st', evs) -> hdr_ok T x ->
    (forall s cur, cur_hdr T s = Some cur -> hdr_ok T cur) ->
    exists st1 leaving entering, write_block_with_state st x = Ok st1 /\ switch T st1 x leaving entering /\
      removed_logs evs = logs_old_first st1 leaving /\
      added_logs evs = logs_old_first st1 (tl entering) ++ b_logs (snd x) /\
      chain_evs evs = [fst x] /\ head_evs evs = [].
Proof. exact wbash_events. Qed.
Print Assumptions C38_insert_block_events_exact.

(* writeKnownBlock (known blocks re-adopted by InsertChain).  Stated exception
   (C38-known-reimport-silent): nothing is announced for x itself -- no ChainEvent, and its
   logs are missing from the added logs *)
Theorem C38_known_block_events_exact :
  forall (T : tree) fuel st x st' evs,
    write_known_block T fuel st x = Ok (st', evs) -> hdr_ok T x ->
    (forall cur, cur_hdr T st = Some cur -> hdr_ok T cur) ->
    exists leaving entering, switch T st x leaving entering /\
      removed_logs evs = logs_old_first st leaving /\
      added_logs evs = logs_old_first st (tl entering) /\
      chain_evs evs = [] /\ head_evs evs = [].
Proof. exact wkb_events. Qed.
Print Assumptions C38_known_block_events_exact.

(* ---- one statement per OPERATION (concatenated lists of the whole operation) ----
   An InsertChain performs ONE switch, at its first head change; every later block of the
   contiguous segment extends the head.  So the concatenated lists are the net change. *)

(* InsertChain(blocks), every block executed at its turn ([all_fresh]): removed = logs of the
   blocks leaving the canonical chain, added = logs of the blocks entering it (the re-added
   branch below the first block, then every block of the segment), each once, oldest first;
   one ChainEvent per block of the segment in order; one ChainHeadEvent, for the last block *)
Theorem C38_insert_chain_events_exact :
  forall (T : tree) fuel ids x r st st' evs,
    step T fuel st (OInsert ids) = (st', evs, None) -> resolve_all T ids = Some (x :: r) ->
    all_fresh T fuel st true (x :: r) ->
    exists st1 leaving entering,
      write_block_with_state st x = Ok st1 /\ switch T st1 x leaving entering /\
      removed_logs evs = logs_old_first st1 leaving /\
      added_logs evs = logs_old_first st1 (tl entering) ++ block_logs (x :: r) /\
      chain_evs evs = map fst (x :: r) /\ head_evs evs = [fst (List.last r x)] /\
      hd_block st' = fst (List.last r x).
Proof. exact insert_chain_fresh_events. Qed.
Print Assumptions C38_insert_chain_events_exact.

(* InsertChain of a segment stored with state, first block not canonical (re-adoption through
   writeKnownBlock).  Stated exception C38-known-reimport-silent: no ChainEvent and no logs for
   the blocks of the segment; only the re-added branch below the first block is announced *)
Theorem C38_insert_chain_known_events_exact :
  forall (T : tree) fuel x r st st' evs,
    insert_chain T fuel st true (x :: r) = (st', evs, None) ->
    all_known T fuel st true (x :: r) -> hdr_ok T x -> contiguous (x :: r) = true ->
    (match cur_hdr T st with Some c => hnum c | None => 0 end <? hnum x) ||
       negb (oeqb (canon st (hnum x)) (fst x)) = true ->
    exists leaving entering, switch T st x leaving entering /\
      removed_logs evs = logs_old_first st leaving /\
      added_logs evs = logs_old_first st (tl entering) /\
      chain_evs evs = [] /\ head_evs evs = [fst (List.last r x)] /\
      hd_block st' = fst (List.last r x).
Proof. intros T fuel. exact (insert_chain_known_events T (pruned_case T fuel) fuel). Qed.
Print Assumptions C38_insert_chain_known_events_exact.

(* the side-chain path (first block's parent stored without state): the operation's events are
   exactly those of the re-import of [stateless ancestors ++ segment] (rev hashes), which is
   again one switch + extensions.  Stated exception C38-setcanonical-reemits-logs (insertChain
   variant): when that list starts with a block that is canonical already, entering = [] and the
   block's logs are announced again (they are in block_logs but were not removed).
   (That list is contiguous and made of tree blocks: proved from the walk.) *)
Theorem C38_side_chain_events_exact :
  forall (T : tree) fuel x0 l0 st st' evs,
    insert_chain T fuel st true (x0 :: l0) = (st', evs, None) -> classify st true x0 = CPruned ->
    Forall (hdr_ok T) (x0 :: l0) ->
    exists st1 prev y hashes,
      side_write st (match cur_hdr T st with Some c => hnum c | None => 0 end) (x0 :: l0) None = (st1, prev) /\
      stateless_walk T fuel st1 prev [] = Some (Some y, hashes) /\
      match rev hashes with
      | [] => evs = [] /\ st' = st1
      | b0 :: br =>
        all_fresh T fuel st1 true (b0 :: br) ->
        exists s1 leaving entering,
          write_block_with_state st1 b0 = Ok s1 /\ switch T s1 b0 leaving entering /\
          removed_logs evs = logs_old_first s1 leaving /\
          added_logs evs = logs_old_first s1 (tl entering) ++ block_logs (b0 :: br) /\
          chain_evs evs = map fst (b0 :: br) /\ head_evs evs = [fst (List.last br b0)] /\
          hd_block st' = fst (List.last br b0)
      end.
Proof. exact side_chain_events'. Qed.
Print Assumptions C38_side_chain_events_exact.

(* InsertBlockWithoutSetHead of a block whose parent has state: stored and executed, nothing
   announced, index and heads untouched *)
Theorem C38_insert_nohead_events_exact :
  forall (T : tree) fuel h b st st' evs,
    step T fuel st (OInsertNoHead h) = (st', evs, None) -> T h = Some b ->
    classify st true (h, b) = CFresh -> evs = [] /\ same_index st st'.
Proof. exact insert_nohead_events. Qed.
Print Assumptions C38_insert_nohead_events_exact.

(* SetCanonical as a whole operation, head state present or not: if it is missing,
   recoverAncestors runs first (events ev1 - none, and index/heads untouched, when every
   recovered block is executed at its turn: C38_recover_ancestors_silent), then the switch is
   announced as in C38_set_canonical_events_exact *)
Theorem C38_set_canonical_op_events_exact :
  forall (T : tree) fuel st x st' evs,
    set_canonical T fuel st x = (st', evs, None) -> hdr_ok T x ->
    exists st1 ev1,
      ((avail st (fst x) = true /\ st1 = st /\ ev1 = []) \/
       (avail st (fst x) = false /\ recover_ancestors T fuel st x = (st1, ev1, None))) /\
      exists leaving entering, switch T st1 x leaving entering /\
        removed_logs evs = removed_logs ev1 ++ logs_old_first st1 leaving /\
        added_logs evs = added_logs ev1 ++ logs_old_first st1 (tl entering) ++ logs_of st1 x /\
        chain_evs evs = chain_evs ev1 ++ [fst x] /\ head_evs evs = head_evs ev1 ++ [fst x].
Proof. exact set_canonical_op_events. Qed.
Print Assumptions C38_set_canonical_op_events_exact.

Theorem C38_recover_ancestors_silent :
  forall (T : tree) fuel st x st1 ev1 y hashes,
    recover_ancestors T fuel st x = (st1, ev1, None) ->
    stateless_walk T fuel st (Some x) [] = Some (Some y, hashes) ->
    all_fresh_nh T fuel st (rev hashes) -> ev1 = [] /\ same_index st st1.
Proof. exact recover_silent. Qed.
Print Assumptions C38_recover_ancestors_silent.

(* Stated exception of the event statements: SetHead announces the new head only; the logs
   of the blocks it drops are never removed (C38-sethead-no-removed-logs) *)
Theorem C38_set_head_no_removed_logs_refuted :
  let st := wrun [OInsert [1;2]] in
  canon st 2 = Some 2 /\
  exists st' evs, step WT wfuel st (OSetHead 1) = (st', evs, None) /\
                  canon st' 2 = None /\ removed_logs evs = [] /\ head_evs evs = [1].
Proof. exact set_head_no_removed_logs_refuted. Qed.
Print Assumptions C38_set_head_no_removed_logs_refuted.

(* Cache coherence as an invariant: along every history of all five operations on which the
   heads stay together (every tx of [txids] asked through the cache after every operation, as
   the harness does), every cached answer is exactly what the index answers now
   (rawdb.ReadCanonicalTransaction: lookup entry -> canonical marker -> stored body).  This
   is the invariant the two cache defects broke (reorg's Purge: seeded C38-1; writeHeadBlock's
   replacing branch: 34cd8539c8, legacy witness below).  Same tree hypotheses as the index. *)
Theorem C38_lookup_cache_coherent :
  forall (T : tree) (fuel : nat) (txids : list N) (ops : list op),
    wf_tree T -> (forall g, T 0 = Some g -> T (b_parent g) = None) ->
    tx_once_per_branch T -> (forall g, T 0 = Some g -> forall tx, ~ In tx (b_txs g)) ->
    heads_equal_along T fuel genesis_db ops ->
    let '(st, c) := run_cache false T fuel txids genesis_db [] ops in
    forall tx v, cache_get c tx = Some v -> resolve_tx T st tx = Some v.
Proof.
  intros T fuel txids ops Hwf Hgp HU Hg HE. exact (cache_coherent_history T Hwf Hgp HU Hg fuel txids ops HE).
Qed.
Print Assumptions C38_lookup_cache_coherent.

(* the cached lookup path (BlockChain.GetCanonicalTransaction over txLookupCache, asked for
   every tx after every operation).  Code before /repo 34cd8539c8 ([legacy] = true): on the
   history "insert 1..4; restart; SetHead 2; insert competitor 5" the cache answers block 2
   (#2) for tx 7 although neither the index resolves it nor is #2 canonical any more.  With
   the purge in writeHeadBlock's replacing branch (transcribed as EvPurgeReplace) it does not. *)
Theorem C38_lookup_cache_stale_legacy_refuted :
  exists (ops : list op) (tx : N),
    cached_vs_index true ops tx = (Some (2, 2), None, None).
Proof. exact lookup_cache_stale_legacy_refuted. Qed.
Print Assumptions C38_lookup_cache_stale_legacy_refuted.

Theorem C38_lookup_cache_repaired : cached_vs_index false stale_ops 7 = (None, None, None).
Proof. exact lookup_cache_repaired. Qed.
Print Assumptions C38_lookup_cache_repaired.

Example C38_nonvacuous : (exists l, resolve_all WT [1;2;3] = Some l /\ all_fresh WT wfuel genesis_db true l) /\
  tx_once_per_branch WT /\ (forall g, WT 0 = Some g -> forall tx, ~ In tx (b_txs g)) /\
  wf_tree WT /\ nonvacuous_check = true /\
  (forall g, WT 0 = Some g -> WT (b_parent g) = None) /\
  heads_equal_along WT wfuel genesis_db guarded_ops /\ hd_header (wrun guarded_ops) = 3.
Proof. split; [exact fresh_segment_ok|]. split; [exact WT_once|]. split; [exact WT_genesis_notx | exact nonvacuous]. Qed.
