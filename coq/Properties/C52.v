(* Properties/C52.v — "Keystore files decrypt only with the right passphrase".
   Model: Crypto/Keystore.v (accounts/keystore/passphrase.go, key.go, presale.go helpers).
   All theorems are parametric in the cryptographic primitives
     H (Keccak-256), kdf (scrypt / PBKDF2: first 32 output bytes), ctr (AES-128-CTR keystream),
     cbc (raw AES-128-CBC decryption), addr_of (secp256k1 address)
   and in  lg  (true = passphrase.go before the repair cbf4dace20, false = repaired code),
   unless stated.  Hypotheses on the primitives are explicit premises. *)
From Coq Require Import List NArith ZArith.
From GV Require Import Lib.Bytes Crypto.Keystore Crypto.KeystoreProofs.

(* decrypt (encrypt k) with the same passphrase returns k, its address and its id:
   for every key 0 < d < N, passphrase, salt, iv and every scrypt parameter set for which
   EncryptKey succeeds (i.e. accepted by scrypt.Key). *)
Theorem C52_decrypt_encrypt :
  forall (H : list N -> list N) (kdf : kdf_alg -> list N -> list N -> option (list N))
         (ctr : list N -> list N -> nat -> option (list N))
         (cbc : list N -> list N -> list N -> option (list N))
         (addr_of : list N -> option (list N)),
    (forall m, bytesb (H m) = true) ->
    (forall k iv n ks, ctr k iv n = Some ks -> bytesb ks = true) ->
    forall (lg : bool) (d : N) (addr id auth : list N) (n p : Z) (salt iv : list N) (e : envelope) (a : list N),
      (0 < d)%N -> (d < secp256k1N)%N ->
      length id = 16 -> bytesb id = true -> bytesb salt = true -> bytesb iv = true ->
      addr_of (padded32 d) = Some a ->
      encrypt_key H kdf ctr d addr id auth n p salt iv = Ok e ->
      decrypt_key lg H kdf ctr cbc addr_of (to_json e) auth = Ok (padded32 d, a, id).
Proof. exact decrypt_encrypt. Qed.
Print Assumptions C52_decrypt_encrypt.

(* EncryptDataV3 / DecryptDataV3 on arbitrary data *)
Theorem C52_decrypt_encrypt_data :
  forall (H : list N -> list N) (kdf : kdf_alg -> list N -> list N -> option (list N))
         (ctr : list N -> list N -> nat -> option (list N)),
    (forall m, bytesb (H m) = true) ->
    (forall k iv n ks, ctr k iv n = Some ks -> bytesb ks = true) ->
    forall (lg : bool) (data auth : list N) (n p : Z) (salt iv : list N) (cj : crypto_json),
      bytesb data = true -> bytesb salt = true -> bytesb iv = true ->
      encrypt_data_v3 H kdf ctr data auth n p salt iv = Ok cj ->
      decrypt_data_v3 lg H kdf ctr cj auth = Ok data.
Proof. exact decrypt_encrypt_data. Qed.
Print Assumptions C52_decrypt_encrypt_data.

(* A passphrase whose derived key differs in bytes 16..32 (the MAC key) is rejected with
   ErrDecrypt.  The premise  skipn 16 dk' <> skipn 16 dk  is the named cryptographic
   hypothesis "a different passphrase gives a different MAC key" (KDF separation); H_inj_on is
   collision freedom of Keccak on the two MAC inputs.  The premise is NOT implied by
   auth' <> auth: scrypt and PBKDF2 see the passphrase only through its HMAC key block, so p and
   p||0x00 (and a passphrase > 64 bytes and its SHA-256 digest) derive the same key and both
   open the file (C52_same_derived_key_accepted; exhibited on the real code by the harness). *)
Theorem C52_wrong_pass_fails :
  forall (H : list N -> list N) (kdf : kdf_alg -> list N -> list N -> option (list N))
         (ctr : list N -> list N -> nat -> option (list N))
         (cbc : list N -> list N -> list N -> option (list N))
         (addr_of : list N -> option (list N)),
    (forall m, bytesb (H m) = true) ->
    (forall k iv n ks, ctr k iv n = Some ks -> bytesb ks = true) ->
    forall (lg : bool) (d : N) (addr id auth auth' : list N) (n p : Z) (salt iv : list N)
           (e : envelope) (dk dk' : list N),
      (d < 2 ^ 256)%N -> length id = 16 -> bytesb id = true -> bytesb salt = true -> bytesb iv = true ->
      encrypt_key H kdf ctr d addr id auth n p salt iv = Ok e ->
      kdf (KScrypt n 8%Z p) auth salt = Some dk ->
      kdf (KScrypt n 8%Z p) auth' salt = Some dk' -> length dk' = 32 ->
      skipn 16 dk' <> skipn 16 dk ->
      (forall ct, H (skipn 16 dk' ++ ct) = H (skipn 16 dk ++ ct) ->
                  skipn 16 dk' ++ ct = skipn 16 dk ++ ct) ->
      decrypt_key lg H kdf ctr cbc addr_of (to_json e) auth' = Err EDecrypt.
Proof. exact wrong_pass_fails. Qed.
Print Assumptions C52_wrong_pass_fails.

(* the same for ANY accepted crypto section (scrypt or PBKDF2 file, hand-made or not), and for a
   changed salt / KDF name / KDF parameter (cj' differs from cj only in kdf, kdfparams) *)
Theorem C52_mac_key_change_detected :
  forall (H : list N -> list N) (kdf : kdf_alg -> list N -> list N -> option (list N))
         (ctr : list N -> list N -> nat -> option (list N))
         (lg : bool) (cj cj' : crypto_json) (auth auth' pt dk dk' ct : list N),
    decrypt_data_v3 lg H kdf ctr cj auth = Ok pt ->
    get_kdf_key lg kdf cj auth = Ok dk ->
    hex_decode (cj_ciphertext cj) = Some ct ->
    cj_cipher cj' = cj_cipher cj -> cj_mac cj' = cj_mac cj -> cj_iv cj' = cj_iv cj ->
    cj_ciphertext cj' = cj_ciphertext cj ->
    get_kdf_key lg kdf cj' auth' = Ok dk' ->
    skipn 16 dk' <> skipn 16 dk ->
    (H (skipn 16 dk' ++ ct) = H (skipn 16 dk ++ ct) -> skipn 16 dk' ++ ct = skipn 16 dk ++ ct) ->
    decrypt_data_v3 lg H kdf ctr cj' auth' = Err EDecrypt.
Proof. exact mac_key_change_detected. Qed.
Print Assumptions C52_mac_key_change_detected.

(* the premise above is necessary: a passphrase deriving the same key is indistinguishable *)
Theorem C52_same_derived_key_accepted :
  forall (H : list N -> list N) (kdf : kdf_alg -> list N -> list N -> option (list N))
         (ctr : list N -> list N -> nat -> option (list N))
         (lg : bool) (cj : crypto_json) (auth auth' dk : list N),
    get_kdf_key lg kdf cj auth = Ok dk -> get_kdf_key lg kdf cj auth' = Ok dk ->
    decrypt_data_v3 lg H kdf ctr cj auth' = decrypt_data_v3 lg H kdf ctr cj auth.
Proof. exact same_dk_accepted. Qed.
Print Assumptions C52_same_derived_key_accepted.

(* corruption_detected, exactly: any change of the ciphertext BYTES is ErrDecrypt (under
   H_inj_on the two MAC inputs), a ciphertext that is no longer hex is a hex error, any change
   of the MAC bytes is ErrDecrypt or a hex error (no hypothesis).  Another SPELLING of the same
   bytes (upper-case hex) is not a change. *)
Theorem C52_ciphertext_corruption_detected :
  forall (H : list N -> list N) (kdf : kdf_alg -> list N -> list N -> option (list N))
         (ctr : list N -> list N -> nat -> option (list N))
         (lg : bool) (cj : crypto_json) (auth pt dk ct c' ct' : list N),
    decrypt_data_v3 lg H kdf ctr cj auth = Ok pt ->
    get_kdf_key lg kdf cj auth = Ok dk ->
    hex_decode (cj_ciphertext cj) = Some ct ->
    hex_decode c' = Some ct' -> ct' <> ct ->
    (H (skipn 16 dk ++ ct') = H (skipn 16 dk ++ ct) -> skipn 16 dk ++ ct' = skipn 16 dk ++ ct) ->
    decrypt_data_v3 lg H kdf ctr (with_ct cj c') auth = Err EDecrypt.
Proof. exact ciphertext_corruption_detected. Qed.
Print Assumptions C52_ciphertext_corruption_detected.

Theorem C52_ciphertext_bad_hex_detected :
  forall (H : list N -> list N) (kdf : kdf_alg -> list N -> list N -> option (list N))
         (ctr : list N -> list N -> nat -> option (list N))
         (lg : bool) (cj : crypto_json) (auth pt c' : list N),
    decrypt_data_v3 lg H kdf ctr cj auth = Ok pt -> hex_decode c' = None ->
    decrypt_data_v3 lg H kdf ctr (with_ct cj c') auth = Err EHex.
Proof. exact ciphertext_bad_hex_detected. Qed.
Print Assumptions C52_ciphertext_bad_hex_detected.

Theorem C52_mac_corruption_detected :
  forall (H : list N -> list N) (kdf : kdf_alg -> list N -> list N -> option (list N))
         (ctr : list N -> list N -> nat -> option (list N))
         (lg : bool) (cj : crypto_json) (auth pt m' : list N),
    decrypt_data_v3 lg H kdf ctr cj auth = Ok pt ->
    hex_decode m' <> hex_decode (cj_mac cj) ->
    decrypt_data_v3 lg H kdf ctr (with_mac cj m') auth = Err EDecrypt \/
    decrypt_data_v3 lg H kdf ctr (with_mac cj m') auth = Err EHex.
Proof. exact mac_corruption_detected. Qed.
Print Assumptions C52_mac_corruption_detected.

(* "ANY corruption of the file is detected" is FALSE of the faithful model (and of the format):
   the IV is not under the MAC.  Any other 16-byte IV is accepted by DecryptDataV3 and yields
   ciphertext XOR the other keystream, i.e. a different plaintext / private key, with no error.
   (DecryptKey then returns another key and address; only GetKey's comparison with the
   account address, C52_get_key_address, catches it.) *)
Theorem C52_any_corruption_detected_refuted_iv :
  forall (H : list N -> list N) (kdf : kdf_alg -> list N -> list N -> option (list N))
         (ctr : list N -> list N -> nat -> option (list N))
         (lg : bool) (cj : crypto_json) (auth pt dk ct i' iv' ks' : list N),
    decrypt_data_v3 lg H kdf ctr cj auth = Ok pt ->
    get_kdf_key lg kdf cj auth = Ok dk ->
    hex_decode (cj_ciphertext cj) = Some ct ->
    hex_decode i' = Some iv' -> length iv' = 16 ->
    ctr (firstn 16 dk) iv' (length ct) = Some ks' -> length ks' = length ct ->
    decrypt_data_v3 lg H kdf ctr (with_iv cj i') auth = Ok (xor_bytes ct ks').
Proof. exact iv_change_undetected. Qed.
Print Assumptions C52_any_corruption_detected_refuted_iv.

(* the "address" field of the file is never read by DecryptKey ... *)
Theorem C52_address_field_ignored :
  forall (H : list N -> list N) (kdf : kdf_alg -> list N -> list N -> option (list N))
         (ctr : list N -> list N -> nat -> option (list N))
         (lg : bool) (e : envelope) (a' auth : list N),
    decrypt_key_v3 lg H kdf ctr (mkEnv a' (e_crypto e) (e_id e) (e_version e)) auth
    = decrypt_key_v3 lg H kdf ctr e auth.
Proof. exact address_field_ignored. Qed.
Print Assumptions C52_address_field_ignored.

(* ... GetKey (the keystore's load path) returns a key only if its DERIVED address is the account's *)
Theorem C52_get_key_address :
  forall (H : list N -> list N) (kdf : kdf_alg -> list N -> list N -> option (list N))
         (ctr : list N -> list N -> nat -> option (list N))
         (cbc : list N -> list N -> list N -> option (list N))
         (addr_of : list N -> option (list N))
         (lg : bool) (addr : list N) (j : jv) (auth : list N) (r : list N * list N * list N),
    get_key lg H kdf ctr cbc addr_of addr j auth = Ok r ->
    snd (fst r) = addr /\ decrypt_key lg H kdf ctr cbc addr_of j auth = Ok r.
Proof. exact get_key_address. Qed.
Print Assumptions C52_get_key_address.

(* version and cipher: a file is accepted only on the version-"1" path or with version = 3
   and cipher = "aes-128-ctr"; the two checks in isolation *)
Theorem C52_version_and_cipher_checked :
  forall (H : list N -> list N) (kdf : kdf_alg -> list N -> list N -> option (list N))
         (ctr : list N -> list N -> nat -> option (list N))
         (cbc : list N -> list N -> list N -> option (list N))
         (addr_of : list N -> option (list N))
         (lg : bool) (j : jv) (auth : list N) (r : list N * list N * list N),
    decrypt_key lg H kdf ctr cbc addr_of j auth = Ok r ->
    exists kvs, obj_of j = Ok kvs /\
      (is_v1 kvs = true \/
       exists e, unmarshal_env false kvs = Ok e /\ e_version e = 3%Z /\
                 cj_cipher (e_crypto e) = s_aes128ctr).
Proof. exact version_and_cipher_checked. Qed.
Print Assumptions C52_version_and_cipher_checked.

Theorem C52_version_checked :
  forall (H : list N -> list N) (kdf : kdf_alg -> list N -> list N -> option (list N))
         (ctr : list N -> list N -> nat -> option (list N))
         (lg : bool) (e : envelope) (auth : list N),
    e_version e <> 3%Z -> decrypt_key_v3 lg H kdf ctr e auth = Err EVersion.
Proof. exact version_checked. Qed.
Print Assumptions C52_version_checked.

Theorem C52_cipher_checked :
  forall (H : list N -> list N) (kdf : kdf_alg -> list N -> list N -> option (list N))
         (ctr : list N -> list N -> nat -> option (list N))
         (lg : bool) (cj : crypto_json) (auth : list N),
    cj_cipher cj <> s_aes128ctr -> decrypt_data_v3 lg H kdf ctr cj auth = Err ECipher.
Proof. exact cipher_checked. Qed.
Print Assumptions C52_cipher_checked.

(* decrypt_total: on EVERY JSON value tree and passphrase the repaired code (lg = false)
   returns a key or an error class, never the panic class; same for GetKey. *)
Theorem C52_decrypt_total :
  forall (H : list N -> list N) (kdf : kdf_alg -> list N -> list N -> option (list N))
         (ctr : list N -> list N -> nat -> option (list N))
         (cbc : list N -> list N -> list N -> option (list N))
         (addr_of : list N -> option (list N)) (j : jv) (auth : list N),
    decrypt_key false H kdf ctr cbc addr_of j auth <> Err EPanic.
Proof. exact decrypt_key_total. Qed.
Print Assumptions C52_decrypt_total.

Theorem C52_get_key_total :
  forall (H : list N -> list N) (kdf : kdf_alg -> list N -> list N -> option (list N))
         (ctr : list N -> list N -> nat -> option (list N))
         (cbc : list N -> list N -> list N -> option (list N))
         (addr_of : list N -> option (list N)) (addr : list N) (j : jv) (auth : list N),
    get_key false H kdf ctr cbc addr_of addr j auth <> Err EPanic.
Proof. exact get_key_total. Qed.
Print Assumptions C52_get_key_total.

(* before the repair the statement was false: a well-formed JSON file without kdfparams makes
   DecryptKey panic for every passphrase (replayed on the unrepaired code; corpus/C52) *)
Theorem C52_decrypt_total_legacy_refuted :
  forall (H : list N -> list N) (kdf : kdf_alg -> list N -> list N -> option (list N))
         (ctr : list N -> list N -> nat -> option (list N))
         (cbc : list N -> list N -> list N -> option (list N))
         (addr_of : list N -> option (list N)),
    exists j, forall auth, decrypt_key true H kdf ctr cbc addr_of j auth = Err EPanic.
Proof. intros. exists legacy_panic_file. apply legacy_panics. Qed.
Print Assumptions C52_decrypt_total_legacy_refuted.

(* the hypotheses are satisfiable and the conclusions non-trivial: a concrete instance of the
   primitives with an encryption that changes the plaintext, decrypts with the right passphrase,
   gives ErrDecrypt with a wrong one / a changed MAC and EVersion for version 4 *)
Example C52_nonvacuous : nonvacuous_check = true.
Proof. vm_compute. reflexivity. Qed.
