(* Properties/C52.v — placeholder while the correspondence is being brought up *)
From GV Require Import Lib.Tactics Crypto.Keystore.
Theorem C52_stub : True. Proof. exact I. Qed.
Print Assumptions C52_stub.
