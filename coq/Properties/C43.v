(* Properties/C43.v — Block building orders transactions by nonce and price.
   Property theorems only; each is closed by [exact] of a lemma of
   Pool/OrderingProofs.v about the model Pool/Ordering.v of
   /repo/core/txpool/txorder/ordering.go and Go's container/heap.

   Vocabulary (Pool/Ordering.v): [pend] is the input map as an association list in
   the constructor's (arbitrary) iteration order, [NoDup (map fst pend)] says it is a
   map; [run st script] is the builder's loop Peek / (Shift | Pop) and returns the
   trace [tr] of peeked items with the decision taken; [proj a tr] are account [a]'s
   transactions in [tr] in yield order; [afford_prefix bf l] is the longest prefix of
   [l] whose fee caps are >= the base fee; [avail bf pend tr1] are the heads available
   after the yields/decisions [tr1] (a function of the input and the earlier trace
   only); [less a b] = a has the higher fee, or equal fee and earlier time.
   [Panic] = the Go code panics; [OutOfFuel] never happens. *)
From GV Require Import Lib.Tactics Pool.Ordering Pool.OrderingProofs.
From Coq Require Import Permutation Sorted.
Local Open Scope N_scope.

(* --- the order: fee descending, time ascending; ties in both are unordered --- *)
Theorem C43_less_spec : forall a b,
  less a b = false <->
  it_fee a < it_fee b \/
  (it_fee a = it_fee b /\ (tx_time (it_tx b) <= tx_time (it_tx a))%Z).
Proof. exact less_false_iff. Qed.
Print Assumptions C43_less_spec.

Theorem C43_miner_fee : forall t a bf,
  new_tx_with_miner_fee t a bf =
  if affordable bf t then Some (mkItem t a (eff_fee bf t)) else None.
Proof. exact new_fee_spec. Qed.
Print Assumptions C43_miner_fee.

(* --- container/heap: heap_inv established / preserved, contents permuted, never
       out of fuel, panics exactly on Pop of the empty heap --- *)
Theorem C43_heap_init : forall h,
  exists h', heap_init less h = Ok h' /\ Permutation h h' /\ heap_inv less h'.
Proof. exact (heap_init_spec less less_asym nless_trans). Qed.
Print Assumptions C43_heap_init.

Theorem C43_heap_fix_root : forall x w r,
  heap_inv less (x :: r) ->
  exists h', heap_fix less (w :: r) 0 = Ok h' /\ Permutation (w :: r) h' /\ heap_inv less h'.
Proof. exact (heap_fix0_spec less less_asym nless_trans). Qed.
Print Assumptions C43_heap_fix_root.

Theorem C43_heap_pop : forall h,
  h <> [] -> heap_inv less h ->
  exists x h', heap_pop less h = Ok (x, h') /\ nth_error h 0 = Some x /\
               Permutation h (x :: h') /\ heap_inv less h'.
Proof. exact (heap_pop_spec less less_asym nless_trans). Qed.
Print Assumptions C43_heap_pop.

Theorem C43_heap_root_is_best : forall h r,
  heap_inv less h -> nth_error h 0 = Some r -> forall y, In y h -> less y r = false.
Proof. exact (heap_root_best less less_asym nless_trans). Qed.
Print Assumptions C43_heap_root_is_best.

(* --- the iterator: the constructor panics exactly on an account with no
       transactions; otherwise neither it nor the loop ever fails --- *)
Theorem C43_new_total : forall pend bf,
  NoDup (map fst pend) -> Forall (fun p => snd p <> []) pend ->
  exists st, new_by_price_and_nonce pend bf = Ok st.
Proof. intros pend bf ND Hne. destruct (new_R pend bf ND Hne) as (st & H & _). eauto. Qed.
Print Assumptions C43_new_total.

Theorem C43_new_panics_on_empty_account : forall pend bf a,
  In (a, []) pend -> new_by_price_and_nonce pend bf = Panic.
Proof. exact new_panics. Qed.
Print Assumptions C43_new_panics_on_empty_account.

Theorem C43_run_total : forall pend bf st,
  NoDup (map fst pend) -> new_by_price_and_nonce pend bf = Ok st ->
  forall script, exists tr st', run st script = Ok (tr, st').
Proof. exact run_total. Qed.
Print Assumptions C43_run_total.

Theorem C43_shift_pop_on_empty_panic : forall st,
  st_heads st = [] -> shift st = Panic /\ pop st = Panic.
Proof. exact shift_empty_panics. Qed.
Print Assumptions C43_shift_pop_on_empty_panic.

Theorem C43_heap_inv_preserved : forall pend bf st,
  NoDup (map fst pend) -> new_by_price_and_nonce pend bf = Ok st ->
  forall script tr st', run st script = Ok (tr, st') -> heap_inv less (st_heads st').
Proof. exact reach_heap_inv. Qed.
Print Assumptions C43_heap_inv_preserved.

(* --- every yield is an available head, and no available head beats it --- *)
Theorem C43_peek_is_best : forall pend bf st,
  NoDup (map fst pend) -> new_by_price_and_nonce pend bf = Ok st ->
  forall script tr st', run st script = Ok (tr, st') ->
  forall tr1 it o tr2, tr = tr1 ++ (it, o) :: tr2 ->
  In it (avail bf pend tr1) /\
  (forall it', In it' (avail bf pend tr1) -> less it' it = false).
Proof. exact peek_is_best. Qed.
Print Assumptions C43_peek_is_best.

(* [avail] spelled out: an item is available after [tr] iff its account was never
   popped and it is the first not-yet-yielded transaction of the account's affordable
   prefix (so [avail] is the complete set of current heads, not a subset) *)
Theorem C43_avail_char : forall pend bf st script tr st',
  NoDup (map fst pend) -> new_by_price_and_nonce pend bf = Ok st ->
  run st script = Ok (tr, st') ->
  forall it, In it (avail bf pend tr) <->
    (it_fee it = eff_fee bf (it_tx it) /\ no_pop (it_from it) tr /\
     exists s, afford_prefix bf (txs_of (it_from it) pend) =
               proj (it_from it) tr ++ it_tx it :: s).
Proof. exact avail_char. Qed.
Print Assumptions C43_avail_char.

Theorem C43_peek_final_is_best : forall pend bf st,
  NoDup (map fst pend) -> new_by_price_and_nonce pend bf = Ok st ->
  forall script tr st', run st script = Ok (tr, st') ->
  forall it, peek st' = Some it ->
  In it (avail bf pend tr) /\
  (forall it', In it' (avail bf pend tr) -> less it' it = false).
Proof. exact peek_final_is_best. Qed.
Print Assumptions C43_peek_final_is_best.

Theorem C43_empty_iff_nothing_available : forall pend bf st,
  NoDup (map fst pend) -> new_by_price_and_nonce pend bf = Ok st ->
  forall script tr st', run st script = Ok (tr, st') ->
  empty st' = true <-> avail bf pend tr = [].
Proof. exact empty_iff. Qed.
Print Assumptions C43_empty_iff_nothing_available.

Theorem C43_yields_are_affordable_inputs : forall pend bf st,
  NoDup (map fst pend) -> new_by_price_and_nonce pend bf = Ok st ->
  forall script tr st', run st script = Ok (tr, st') ->
  forall it o, In (it, o) tr ->
  affordable bf (it_tx it) = true /\ it_fee it = eff_fee bf (it_tx it) /\
  In (it_tx it) (txs_of (it_from it) pend).
Proof. exact yields_affordable. Qed.
Print Assumptions C43_yields_are_affordable_inputs.

(* --- per account: what is yielded is, in order, a prefix of the affordable prefix
       of the account's input list --- *)
Theorem C43_per_account_prefix : forall pend bf st,
  NoDup (map fst pend) -> new_by_price_and_nonce pend bf = Ok st ->
  forall script tr st', run st script = Ok (tr, st') ->
  forall a, exists s, afford_prefix bf (txs_of a pend) = proj a tr ++ s.
Proof. exact per_account_prefix. Qed.
Print Assumptions C43_per_account_prefix.

(* when a transaction is yielded, exactly its predecessors in the account's input
   list have been yielded before it, in list order *)
Theorem C43_never_before_predecessor : forall pend bf st,
  NoDup (map fst pend) -> new_by_price_and_nonce pend bf = Ok st ->
  forall script tr st', run st script = Ok (tr, st') ->
  forall tr1 it o tr2, tr = tr1 ++ (it, o) :: tr2 ->
  nth_error (txs_of (it_from it) pend) (length (proj (it_from it) tr1)) = Some (it_tx it) /\
  firstn (length (proj (it_from it) tr1)) (txs_of (it_from it) pend) = proj (it_from it) tr1.
Proof. exact never_before_predecessor. Qed.
Print Assumptions C43_never_before_predecessor.

Theorem C43_per_account_nonce_order : forall pend bf st,
  NoDup (map fst pend) -> new_by_price_and_nonce pend bf = Ok st ->
  forall script tr st', run st script = Ok (tr, st') ->
  (forall a l, In (a, l) pend -> StronglySorted N.lt (map tx_nonce l)) ->
  forall a, StronglySorted N.lt (map tx_nonce (proj a tr)).
Proof. exact per_account_nonce_order. Qed.
Print Assumptions C43_per_account_nonce_order.

(* --- Pop drops the rest of the account --- *)
Theorem C43_pop_drops_account : forall pend bf st,
  NoDup (map fst pend) -> new_by_price_and_nonce pend bf = Ok st ->
  forall script tr st', run st script = Ok (tr, st') ->
  forall tr1 it tr2, tr = tr1 ++ (it, OPop) :: tr2 -> proj (it_from it) tr2 = [].
Proof. exact pop_drops_account. Qed.
Print Assumptions C43_pop_drops_account.

(* --- repeated Peek/Shift enumerates, per account, exactly the affordable prefix
       (an underpriced transaction ends its account), and then the iterator is empty --- *)
Theorem C43_yields_all : forall pend bf st,
  NoDup (map fst pend) -> new_by_price_and_nonce pend bf = Ok st ->
  forall m, (total_len (aq_init bf pend) <= m)%nat ->
  exists tr st', run st (repeat OShift m) = Ok (tr, st') /\ empty st' = true /\
    length tr = total_len (aq_init bf pend) /\
    forall a, proj a tr = afford_prefix bf (txs_of a pend).
Proof. exact yields_all. Qed.
Print Assumptions C43_yields_all.

(* non-vacuity: a map of three accounts (one with an underpriced head, one with an
   underpriced second transaction), base fee 10, a script with a Pop *)
Example C43_nonvacuous :
  let t i n f p tm := mkTx i n f p tm in
  let pend := [ (1, [t 11 0 30 5 100%Z; t 12 1 9 9 101%Z; t 13 2 50 50 102%Z]);
                (2, [t 21 7 9 1 50%Z; t 22 8 90 90 51%Z]);
                (3, [t 31 4 15 9 60%Z; t 32 5 40 3 61%Z]);
                (4, [t 41 0 15 5 40%Z; t 42 1 99 99 41%Z]) ] in
  NoDup (map fst pend) /\
  match new_by_price_and_nonce pend (Some 10) with
  | Ok st =>
      match run st [OShift; OPop; OShift; OShift; OShift] with
      | Ok (tr, st') =>
          map (fun p => (tx_id (it_tx (fst p)), it_fee (fst p))) tr = [(41, 5); (42, 89); (31, 5); (11, 5); (32, 3)]
          /\ empty st' = true
      | _ => False
      end
  | _ => False
  end.
Proof.
  vm_compute. split; [|split; reflexivity].
  repeat (constructor; [cbn; intuition discriminate|]). constructor.
Qed.
