(* Properties/C04.v — Keccak-256 matches the reference for all inputs and chunkings.
   Property theorems only; each is closed by a lemma of Keccak/SpongeProofs.v about the
   model Keccak/Sponge.v of /repo/crypto/keccak/sha3.go (+ crypto/keccak.go, crypto.go HashData).

   The theorems are PARAMETRIC in the permutation [f] on the 200-byte state (hypothesis
   [flen f]: it preserves the length — true of any [25]uint64 -> [25]uint64 function, whether
   the amd64 assembly or the pure Go one): the sponge state machine of sha3.go computes the
   sponge construction [sponge256 f] / [sponge_stream f] for every input, chunking and script.
   The reference Keccak-256 is the instance  keccak256 = sponge256 keccak_f  with the
   Keccak-f[1600] of Keccak/Permutation.v (validated against published digests in
   Keccak/Vectors.v, and against the FIPS-202 transcription Keccak/PermutationN.v on sample
   states — both are imported here so that these tests are re-run with the proofs); the instance
   corollaries are the [..._keccak] and [..._N] theorems at the end.  Their
   Print Assumptions lists the Uint63 kernel primitives (PrimInt63.*; Coq 8.16 prints
   primitives under "Axioms:" although none is declared by an Axiom command); the
   parametric theorems are "Closed under the global context".

   [Panic c] = the Go call panics (1 Write after Read, 2 Sum after Read, 3 = the model's loop
   fuel ran out: proved unreachable).  [wf] is the invariant the Go types/code maintain
   ([200]byte array, n < rate while absorbing, n <= rate while squeezing). *)
From GV Require Import Lib.Tactics Keccak.Permutation Keccak.Sponge Keccak.SpongeProofs Keccak.PermutationN Keccak.PermutationNProofs Keccak.Vectors.
Local Open Scope N_scope.

Definition flen (f : list N -> list N) : Prop :=
  forall a, length a = state_len -> length (f a) = state_len.

(* THE property, at full strength: for EVERY script of interleaved Write / Sum / Read / Reset
   calls (any number of calls, any chunk sizes, any read sizes) on a fresh KeccakState, the
   implementation state machine returns exactly what the specification machine returns:
   Sum = prefix ++ sponge256(everything written since the last Reset), Read = the next bytes
   of the sponge's output stream on that message, Write/Sum after Read panic, and a panicking
   call leaves the state untouched. *)
Theorem C04_refines_spec : forall f, flen f ->
  forall ops, run f init ops = spec_run f (AAbs []) ops.
Proof. exact run_init. Qed.
Print Assumptions C04_refines_spec.

(* chunking: any way of splitting the input across Writes gives the reference digest,
   through Read(32 bytes) (what crypto.Keccak256 / Keccak256Hash / HashData do) ... *)
Theorem C04_chunking : forall f, flen f -> forall chunks,
  match writes f init chunks with
  | Ok s => match read f s output_len with Ok (_, h) => Ok h | Panic c => Panic c end
  | Panic c => Panic c
  end = Ok (sponge256 f (concat chunks)).
Proof. exact chunking_read. Qed.
Print Assumptions C04_chunking.

(* ... and through Sum(prefix) (hash.Hash interface) *)
Theorem C04_chunking_sum : forall f, flen f -> forall chunks inp,
  match writes f init chunks with
  | Ok s => match sum f s inp with Ok (_, h) => Ok h | Panic c => Panic c end
  | Panic c => Panic c
  end = Ok (inp ++ sponge256 f (concat chunks)).
Proof. exact chunking_sum. Qed.
Print Assumptions C04_chunking_sum.

(* two Writes = one Write of the concatenation, from every absorbing state *)
Theorem C04_write_app : forall f, flen f -> forall s p q,
  wf s -> st_dir s = Absorbing ->
  match write f s p with Ok s1 => write f s1 q | Panic c => Panic c end = write f s (p ++ q).
Proof. intros f Hf s p q H1 H2. exact (write_app f Hf s p q (conj H1 H2)). Qed.
Print Assumptions C04_write_app.

(* Sum works on a clone: the receiver is returned unchanged (so further Writes behave as if
   Sum had not happened — C04_refines_spec says so for whole scripts), and the digest is the
   one a Read of 32 bytes would produce *)
Theorem C04_sum_pure : forall f, flen f -> forall s inp,
  wf s -> st_dir s = Absorbing ->
  exists s2 h, read f s output_len = Ok (s2, h) /\ sum f s inp = Ok (s, inp ++ h).
Proof. intros f Hf s inp H1 H2. exact (sum_pure f Hf s inp (conj H1 H2)). Qed.
Print Assumptions C04_sum_pure.

(* squeezing m+n bytes in one Read = Read m then Read n, across rate boundaries, from
   every state (absorbing: padAndPermute happens once, in the first Read) *)
Theorem C04_read_split : forall f, flen f -> forall s m n,
  wf s ->
  read f s (m + n) =
    match read f s m with
    | Ok (s1, o1) => match read f s1 n with
                     | Ok (s2, o2) => Ok (s2, o1 ++ o2)
                     | Panic c => Panic c
                     end
    | Panic c => Panic c
    end.
Proof. exact read_split. Qed.
Print Assumptions C04_read_split.

(* Reset gives back exactly the fresh state *)
Theorem C04_reset_init : forall s, length (st_a s) = state_len -> reset s = init.
Proof. exact reset_init. Qed.
Print Assumptions C04_reset_init.

(* the one-shot entry points (crypto.Keccak256 / Keccak256Hash: pooled hasher in an
   arbitrary earlier state; crypto.HashData) *)
Theorem C04_keccak256_impl : forall f, flen f -> forall s data,
  wf s -> keccak256_impl f s data = Ok (sponge256 f (concat data)).
Proof. exact keccak256_impl_spec. Qed.
Print Assumptions C04_keccak256_impl.

Theorem C04_hash_data : forall f, flen f -> forall s data,
  wf s -> exists s', hash_data f s data = Ok (s', sponge256 f data).
Proof. exact hash_data_spec. Qed.
Print Assumptions C04_hash_data.

(* the guards: the invariant holds initially and is preserved; Write on an absorbing state and
   Read on any state never panic (in particular the model's fuel never runs out) *)
Theorem C04_write_total : forall f, flen f -> forall s p,
  wf s -> st_dir s = Absorbing ->
  exists s', write f s p = Ok s' /\ wf s' /\ st_dir s' = Absorbing.
Proof.
  intros f Hf s p H1 H2. exists (absorb_bytes f s p). split.
  - exact (write_bytes f Hf s p (conj H1 H2)).
  - exact (absorb_bytes_wf f Hf p s (conj H1 H2)).
Qed.
Print Assumptions C04_write_total.

Theorem C04_read_total : forall f, flen f -> forall s k,
  wf s -> exists s' o, read f s k = Ok (s', o) /\ wf s' /\ st_dir s' = Squeezing /\ length o = k.
Proof.
  intros f Hf s k H. destruct (squeeze_bytes f k (read_start f s)) as [s' o] eqn:E.
  exists s', o.
  assert (R : read f s k = Ok (s', o)) by (rewrite (read_bytes f Hf s k H), E; reflexivity).
  split; [exact R|]. exact (read_wf f Hf s k s' o H R).
Qed.
Print Assumptions C04_read_total.

Theorem C04_init_wf : wf init /\ st_dir init = Absorbing.
Proof. exact init_wf. Qed.
Print Assumptions C04_init_wf.

(* ---- the primitive-free instance: the FIPS-202 transcription of Keccak/PermutationN.v (lanes
   as N; agrees with keccak_f on the sample states of PermutationN.v — a test); these instance
   theorems are Closed under the global context ---- *)
Theorem C04_flen_N : flen keccak_f_N.
Proof. exact (fun a _ => keccak_f_N_length a). Qed.
Print Assumptions C04_flen_N.

Theorem C04_refines_spec_N : forall ops,
  run keccak_f_N init ops = spec_run keccak_f_N (AAbs []) ops.
Proof. exact (run_init keccak_f_N C04_flen_N). Qed.
Print Assumptions C04_refines_spec_N.

Theorem C04_chunking_N : forall chunks,
  match writes keccak_f_N init chunks with
  | Ok s => match read keccak_f_N s output_len with Ok (_, h) => Ok h | Panic c => Panic c end
  | Panic c => Panic c
  end = Ok (keccak256_N (concat chunks)).
Proof. exact (chunking_read keccak_f_N C04_flen_N). Qed.
Print Assumptions C04_chunking_N.

(* ---- the instance: Keccak-f[1600] of Keccak/Permutation.v, reference keccak256 ---- *)
Theorem C04_flen_keccak : flen keccak_f.
Proof. exact (fun a _ => keccak_f_length a). Qed.
Print Assumptions C04_flen_keccak.

Theorem C04_refines_spec_keccak : forall ops,
  run keccak_f init ops = spec_run keccak_f (AAbs []) ops.
Proof. exact (run_init keccak_f C04_flen_keccak). Qed.
Print Assumptions C04_refines_spec_keccak.

Theorem C04_chunking_keccak : forall chunks,
  match writes keccak_f init chunks with
  | Ok s => match read keccak_f s output_len with Ok (_, h) => Ok h | Panic c => Panic c end
  | Panic c => Panic c
  end = Ok (keccak256 (concat chunks)).
Proof. exact (chunking_read keccak_f C04_flen_keccak). Qed.
Print Assumptions C04_chunking_keccak.

Theorem C04_keccak256_impl_keccak : forall s data,
  wf s -> keccak256_impl keccak_f s data = Ok (keccak256 (concat data)).
Proof. exact (keccak256_impl_spec keccak_f C04_flen_keccak). Qed.
Print Assumptions C04_keccak256_impl_keccak.

(* non-vacuity: [flen] is met by keccak_f (above), [wf] by [init]; a concrete script exercising
   block boundaries, Sum in the middle, Read across the rate boundary, the panics and Reset;
   and the reference on "abc" is the published digest 4e03657a...6c45 *)
Example C04_nonvacuous :
  wf init /\
  run keccak_f init [OWrite (repeat 97 135); OSum []; OWrite [97; 97]; OSum [7]; ORead 140; ORead 3;
                     OWrite [1]; OSum []; OReset; OWrite [97; 98]; OWrite [99]; ORead 32]
  = [VUnit; VBytes (keccak256 (repeat 97 135)); VUnit; VBytes (7 :: keccak256 (repeat 97 137));
     VBytes (sponge_stream keccak_f (repeat 97 137) 140);
     VBytes (skipn 140 (sponge_stream keccak_f (repeat 97 137) 143));
     VPanic 1; VPanic 2; VUnit; VUnit; VUnit; VBytes (keccak256 [97; 98; 99])] /\
  keccak256 [97; 98; 99] =
    [78; 3; 101; 122; 234; 69; 169; 79; 199; 212; 123; 168; 38; 200; 214; 103;
     192; 209; 230; 227; 58; 100; 160; 54; 236; 68; 245; 143; 161; 45; 108; 69].
Proof. split; [exact (proj1 init_wf)|]. vm_compute. split; reflexivity. Qed.
