(* Properties/C02.v — transaction envelopes are canonical and hashes are stable.
   Property theorems only, about the model EVM/TxEnvelope.v (core/types:
   MarshalBinary / UnmarshalBinary / EncodeRLP / DecodeRLP / decodeTyped /
   BlobTx.encode+decode with the sidecar wrapper v0/v1 / Hash / Size /
   WithoutBlobTxSidecar) over the typed RLP layer Rlp/Schema.v.
   Guards, explicit: inputs are byte strings ([bytesb]), lengths < 2^64
   (< 2^63 = math.MaxInt for the list-element form, getPooledBuffer);
   [wf t]: the field values are Go values of the struct's field types and a
   sidecar has version 0 or 1.  H is any hash function (Keccak-256 in the run).

   NOT covered by theorems: JSON (Go-side oracle only); WHICH rlp error a
   rejected input gets (one class ErrRlp, see Rlp/Schema.v). *)
From GV Require Import Lib.Tactics Lib.Bytes Rlp.Item Rlp.Codec Rlp.Schema Rlp.SchemaProofs EVM.TxEnvelope EVM.TxEnvelopeProofs.
Local Open Scope N_scope.

(* ---- the typed RLP layer: both round trips, for every schema ---- *)

Theorem C02_dec_s_enc_s : forall s v,
  schema_ok s = true -> conforms s v = true -> fits (enc_v v) ->
  decode_typed s (encode_typed v) = Ok v.
Proof. exact decode_typed_encode. Qed.
Print Assumptions C02_dec_s_enc_s.

Theorem C02_enc_s_dec_s : forall s b v,
  schema_ok s = true -> bytesb b = true -> lenN b < 2 ^ 64 ->
  decode_typed s b = Ok v -> encode_typed v = b /\ conforms s v = true.
Proof. exact encode_decode_typed. Qed.
Print Assumptions C02_enc_s_dec_s.

(* ---- binary envelopes ---- *)

(* decoding the encoding of a transaction (any type, with or without sidecar)
   gives the transaction back, with its length as cached size *)
Theorem C02_unmarshal_marshal : forall t b,
  wf t = true -> marshal_binary t = TOk b -> lenN b < 2 ^ 64 ->
  unmarshal_binary b = TOk (mkTxo t (lenN b)).
Proof. exact unmarshal_marshal. Qed.
Print Assumptions C02_unmarshal_marshal.

(* canonicity: an accepted envelope — legacy list, typed payload, or the blob
   network wrapper [tx, (1,) blobs, commitments, proofs] — re-marshals to exactly
   the accepted bytes *)
Theorem C02_marshal_unmarshal : forall b o,
  bytesb b = true -> lenN b < 2 ^ 64 -> unmarshal_binary b = TOk o ->
  marshal_binary (inner o) = TOk b /\ wf (inner o) = true /\ csize o = lenN b.
Proof. exact marshal_unmarshal. Qed.
Print Assumptions C02_marshal_unmarshal.

(* ---- list-element form (EncodeRLP / DecodeRLP) ---- *)

Theorem C02_elem_roundtrip : forall t e r m,
  wf t = true -> encode_rlp_elem t = TOk e -> marshal_binary t = TOk m ->
  bytesb (e ++ r) = true -> lenN (e ++ r) < 2 ^ 63 ->
  decode_rlp_elem (e ++ r) = TOk (mkTxo t (lenN m), r).
Proof. exact elem_decode_encode. Qed.
Print Assumptions C02_elem_roundtrip.

Theorem C02_elem_canonical : forall b o r,
  bytesb b = true -> lenN b < 2 ^ 63 -> decode_rlp_elem b = TOk (o, r) ->
  exists e m, encode_rlp_elem (inner o) = TOk e /\ b = e ++ r /\
              marshal_binary (inner o) = TOk m /\ wf (inner o) = true /\
              csize o = lenN m /\ 0 < lenN m.
Proof. exact elem_encode_decode. Qed.
Print Assumptions C02_elem_canonical.

(* ---- hash ---- *)

Theorem C02_hash_ignores_sidecar : forall (H : list N -> list N) t,
  hash H t = hash H (strip t).
Proof. exact hash_ignores_sidecar. Qed.
Print Assumptions C02_hash_ignores_sidecar.

(* the hash is the hash of the canonical sidecar-less envelope *)
Theorem C02_hash_is_marshal : forall (H : list N -> list N) t b,
  marshal_binary (strip t) = TOk b -> hash H t = H b.
Proof. exact hash_is_marshal. Qed.
Print Assumptions C02_hash_is_marshal.

Theorem C02_hash_of_accepted : forall (H : list N -> list N) b o,
  bytesb b = true -> lenN b < 2 ^ 64 -> unmarshal_binary b = TOk o ->
  tx_sidecar (inner o) = None -> hash H (inner o) = H b.
Proof. exact hash_of_accepted. Qed.
Print Assumptions C02_hash_of_accepted.

(* ---- size ([size_ok o]: Size() = length of MarshalBinary of the same object) ---- *)

Theorem C02_size_is_length : forall t, size_ok (mkTxo t 0).      (* NewTx: cache miss *)
Proof. exact size_fresh. Qed.
Print Assumptions C02_size_is_length.

Theorem C02_size_is_length_decoded : forall b o,
  bytesb b = true -> lenN b < 2 ^ 64 -> unmarshal_binary b = TOk o ->
  size o = lenN b /\ size_ok o.
Proof. exact size_decoded. Qed.
Print Assumptions C02_size_is_length_decoded.

Theorem C02_size_is_length_elem : forall b o r,
  bytesb b = true -> lenN b < 2 ^ 63 -> decode_rlp_elem b = TOk (o, r) -> size_ok o.
Proof. exact size_elem. Qed.
Print Assumptions C02_size_is_length_elem.

Theorem C02_size_without_sidecar : forall o, size_ok o -> size_ok (without_sidecar o).
Proof. exact size_without_sidecar. Qed.
Print Assumptions C02_size_without_sidecar.

(* the Size()/WithoutBlobTxSidecar formulas of /repo before 9b4a50ee2e (sidecar
   sized under its own list header) violate the property: blob tx, 40 data
   bytes, empty v0 sidecar *)
Theorem C02_size_is_length_legacy_refuted :
  exists t m, wf t = true /\ marshal_binary t = TOk m /\ lenN m = 84 /\
              size_legacy (mkTxo t 0) = 83 /\ size (mkTxo t 0) = 84 /\
              size_legacy (without_sidecar_legacy (mkTxo t 84)) = 80 /\
              (exists m', marshal_binary (strip t) = TOk m' /\ lenN m' = 79).
Proof. exact size_legacy_refuted. Qed.
Print Assumptions C02_size_is_length_legacy_refuted.

(* ---- types ---- *)

(* the first byte of an accepted envelope decides its type: >= 0x80 exactly for
   legacy, otherwise it IS the type (1..4); so no byte string is accepted as
   two types *)
Theorem C02_types_disjoint : forall b o,
  unmarshal_binary b = TOk o ->
  exists b0 rest, b = b0 :: rest /\
    (if tx_type (inner o) =? LegacyTxType then 128 <= b0
     else b0 = tx_type (inner o) /\ 1 <= b0 <= 4).
Proof. exact types_disjoint. Qed.
Print Assumptions C02_types_disjoint.

(* and no two well-formed transactions (of any types, sidecars included) share an envelope *)
Theorem C02_marshal_injective : forall t1 t2 b,
  wf t1 = true -> wf t2 = true -> lenN b < 2 ^ 64 ->
  marshal_binary t1 = TOk b -> marshal_binary t2 = TOk b -> t1 = t2.
Proof. exact marshal_inj. Qed.
Print Assumptions C02_marshal_injective.

(* the model's own shape-error class is unreachable *)
Theorem C02_no_model_error : forall b,
  bytesb b = true -> lenN b < 2 ^ 64 -> unmarshal_binary b <> TErr ErrModel.
Proof. exact no_model_error. Qed.
Print Assumptions C02_no_model_error.

(* non-vacuity: a blob tx with a (zero-blob) v0 sidecar is well-formed, marshals to
   84 bytes, decodes back with the sidecar, sizes agree with and without sidecar,
   the element form round-trips with trailing input, and mutations (type byte,
   truncation to the type byte, unknown type, trailing byte) are rejected with
   the classes the Go code returns *)
Example C02_nonvacuous : nonvacuous_check = true.
Proof. vm_compute. reflexivity. Qed.
