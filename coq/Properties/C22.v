(* Properties/C22.v — placeholder while the proofs are being written *)
From GV Require Import Lib.Tactics PathDB.Iter.
