(* Properties/C22.v — Flat-state iterators enumerate exactly the live entries.
   Property theorems only; each is closed by a lemma of PathDB/IterFast.v,
   PathDB/IterBinary.v or PathDB/IterProofs.v, about the model PathDB/Iter.v of
   /repo/triedb/pathdb/iterator{,_binary,_fast}.go (same design:
   /repo/core/state/snapshot/iterator*.go).

   A stack is ANY list of state sets, newest first (diff layers, then the disk
   layer's buffer and the disk contents); [wf_stack] only says each set is a map
   listed in ascending key order.  [flatten] (the specification) is the
   newest-wins fold; [live_entries live s seek] are its entries with key >= seek
   whose value is live.  [Ok] in the conclusions also says: no index panic, no
   "not found" error, and every fuel bound of the model suffices. *)
From GV Require Import Lib.Tactics PathDB.Iter PathDB.IterProofs PathDB.IterFast PathDB.IterBinary PathDB.IterHist PathDB.IterHistProofs.
From Coq Require Import Sorted.

(* the fast (priority-merge) iterator, for any number of layers, any contents,
   any seek position: exactly the non-nil entries of the newest-wins view *)
Theorem C22_fast_iter_spec : forall (s : stack) (seek : key),
  wf_stack s -> fast_iter s seek = Ok (live_entries live_nonnil s seek).
Proof. exact fast_iter_spec. Qed.
Print Assumptions C22_fast_iter_spec.

(* the binary (recursive 2-way merge) iterator: exactly the non-empty entries *)
Theorem C22_binary_iter_spec : forall (s : stack) (seek : key),
  wf_stack s -> s <> [] -> binary_iter s seek = Ok (live_entries live_nonempty s seek).
Proof. exact binary_iter_spec. Qed.
Print Assumptions C22_binary_iter_spec.

(* under the "nil means deleted" contract (no empty non-nil blob in any state
   set) the two iterators agree *)
Theorem C22_fast_eq_binary : forall (s : stack) (seek : key),
  wf_stack s -> s <> [] -> canonical s -> fast_iter s seek = binary_iter s seek.
Proof.
  intros s seek W Hne C.
  rewrite fast_iter_spec, binary_iter_spec, live_agree; auto.
Qed.
Print Assumptions C22_fast_eq_binary.

(* what the specification list is: (k, b) is enumerated iff k >= seek and the
   newest state set that knows k holds the live blob b ... *)
Theorem C22_live_entries_meaning : forall live (s : stack) (seek k : key) (b : list N),
  wf_stack s ->
  (In (k, b) (live_entries live s seek) <->
   ((seek <= k)%N /\ lookup_first k s = Some (Some b) /\ live (Some b) = true)).
Proof. exact live_entries_meaning. Qed.
Print Assumptions C22_live_entries_meaning.

(* ... in strictly ascending hash order, hence without duplicates *)
Theorem C22_output_strictly_ascending : forall live (s : stack) (seek : key),
  wf_stack s -> StronglySorted N.lt (map fst (live_entries live s seek)).
Proof. exact live_entries_ascending. Qed.
Print Assumptions C22_output_strictly_ascending.

(* the lookup the binary iterator uses for values (layer.account through the
   parents) reads the same newest-wins view *)
Theorem C22_flatten_is_newest_wins : forall (s : stack) (k : key),
  wf_stack s ->
  lookup_stack k s = match lookup k (flatten s) with Some v => v | None => None end.
Proof. intros s k W. rewrite lookup_stack_first, flatten_lookup; auto. Qed.
Print Assumptions C22_flatten_is_newest_wins.

(* Go's sort.Search as used by the seek and by fastIterator.next: the result is
   bracketed by a probed false and a probed true position (this is what makes
   the [clash] side effect of next's predicate reliable) *)
Theorem C22_sort_search_brackets : forall n (f : nat -> option bool),
  (forall h, h < n -> f h <> None) ->
  exists r pr, sort_search n f = Ok (r, pr) /\ r <= n /\
    (r = 0 \/ (f (r - 1) = Some false /\ In (r - 1) pr)) /\
    (r = n \/ (f r = Some true /\ In r pr)) /\ Forall (fun p => p < n) pr.
Proof. exact sort_search_spec. Qed.
Print Assumptions C22_sort_search_brackets.

(* states.go: the cached sorted key lists (accountListSorted / storageListSorted)
   of a state set, as explicit state with the invalidation rules of the code:
   after ANY history of accountList / storageList / merge / revertTo / clearLists
   (merge arguments being maps) the set is still well formed, every cached list
   equals the sorted keys of the CURRENT contents, and so do the lists handed to
   the iterators *)
Theorem C22_cache_invariant : forall (ops : list sop) (s s' : sset),
  ss_wf s -> cache_ok s -> Forall sop_wf ops -> ss_run s ops = Some s' ->
  ss_wf s' /\ cache_ok s' /\
  fst (ss_account_list s') = key_list (s_acc s') /\
  forall a, fst (ss_storage_list a s') = key_list (sget a (s_stor s')).
Proof. exact cache_invariant. Qed.
Print Assumptions C22_cache_invariant.

(* the invalidation in merge is needed: keeping the lists unless the merge adds a
   new account or a storage map of an untracked account (i.e. also when it only
   adds slot keys to a tracked account) breaks the invariant *)
Theorem C22_lazy_merge_breaks_cache :
  exists s other, ss_wf s /\ cache_ok s /\ ss_wf other /\ ~ cache_ok (ss_merge_lazy s other).
Proof. exact lazy_merge_breaks_cache. Qed.
Print Assumptions C22_lazy_merge_breaks_cache.

(* database histories (Update / Commit / cap into the buffer or flushed /
   iterate, in any order and number, from the empty database): an iteration of
   either kind taken at ANY point, at the head or [skip] layers below it, for
   accounts or for one account's storage, returns exactly the live entries of
   the stack of state sets under the iterated layer — the lists it is fed come
   from the caches filled by earlier iterations and merged into since *)
Theorem C22_history_iter_exact : forall (zero_limit : bool) (pre : list hop) kind acct seek skip,
  Forall hop_wf pre ->
  let h := fst (h_run zero_limit h_empty pre) in
  snd (h_step zero_limit h (HIter kind acct seek skip)) =
  Some (Ok (live_entries live_nonnil (h_view h kind acct skip) seek),
        Ok (live_entries live_nonempty (h_view h kind acct skip) seek)).
Proof. exact history_iter_exact. Qed.
Print Assumptions C22_history_iter_exact.

(* non-vacuity: a 4-set stack with a tombstone shadowing older entries, an empty
   buffer, clashes on every key; hypotheses hold and the iterators return the
   expected lists *)
Example C22_nonvacuous :
  let s1 : stack :=
    [ [(1, Some [1]); (3, None)];
      [(1, Some [2]); (2, Some [5]); (3, Some [7])];
      [];
      [(0, Some [9]); (3, Some [8]); (4, Some [4])] ]%N in
  wf_stack s1 /\ s1 <> [] /\ canonical s1 /\
  fast_iter s1 1%N = Ok [(1, [1]); (2, [5]); (4, [4])]%N /\
  binary_iter s1 1%N = Ok [(1, [1]); (2, [5]); (4, [4])]%N /\
  live_entries live_nonnil s1 0%N = [(0, [9]); (1, [1]); (2, [5]); (4, [4])]%N /\
  (* a history: iterate account 170's storage, merge a layer that adds slot 2 to
     the tracked account into the unflushed buffer, iterate again *)
  let ops : list hop :=
    [ HUpdate [(170, Some [1])] [(170, [(1, Some [1]); (3, Some [3])])];
      HUpdate [(187, Some [2])] []; HCap 1;
      HUpdate [(170, Some [4])] [(170, [(2, Some [2])])];
      HUpdate [(187, Some [5])] []; HIter 1 170 0 0; HCap 1 ]%N in
  Forall hop_wf ops /\
  snd (h_run false h_empty (ops ++ [HIter 1 170 0 0; HIter 1 170 2 1]))%N =
    [ (Ok [(1, [1]); (2, [2]); (3, [3])], Ok [(1, [1]); (2, [2]); (3, [3])]);
      (Ok [(1, [1]); (2, [2]); (3, [3])], Ok [(1, [1]); (2, [2]); (3, [3])]);
      (Ok [(2, [2]); (3, [3])], Ok [(2, [2]); (3, [3])]) ]%N.
Proof.
  cbv zeta. split; [|split; [discriminate|split; [|split; [vm_compute; auto|split; [vm_compute; auto|split; [vm_compute; auto|]]]]]].
  - repeat (constructor; try reflexivity).
  - repeat (constructor; try discriminate).
  - split; [|vm_compute; reflexivity].
    assert (Hup : forall acc stor, lsorted acc -> (forall a, lsorted (sget a stor)) ->
                  NoDup (map fst stor) -> hop_wf (HUpdate acc stor)).
    { intros acc stor H1 H2 H3. cbn. unfold ss_wf. cbn. auto. }
    repeat (apply Forall_cons; [first [exact I | apply Hup]|]); try apply Forall_nil;
      try (repeat (constructor; try reflexivity); fail);
      try (intros a; cbn; destruct (N.eqb a 170); repeat (constructor; try reflexivity); fail);
      try (cbn; repeat constructor; cbn; tauto).
Qed.
