(* Properties/C27.v — EVM execution is total and within resource bounds.
   Property theorems only; each is closed by [exact] of a lemma of EVM/InterpProofs.v,
   about the EVM specification EVM/{Word256,Memory,Gas,State,Instr,Step,Interp}.v.
   They hold for every fork record (any precompile function), every environment,
   state, code, input, value and gas — no bound on sizes.

   [run d] interprets a frame with d nested levels available; the outermost frame
   (c_depth 1) is run by [run 1025]; the side condition 1026 <= c_depth c + d says the
   recursion fuel matches the depth limit of evm.Call/evm.create and is met by every
   frame [top_call]/[top_create] ever start.  [reachable (step (run d) c) (init_frame w gas) f]:
   f is a state the interpreter loop of that frame passes through. *)
From GV Require Import Lib.Tactics Lib.Bytes EVM.Word256 EVM.Memory EVM.MemoryProofs EVM.Gas EVM.State.
From GV Require Import EVM.StateProofs EVM.Instr EVM.Step EVM.Interp EVM.InterpProofs EVM.RefundProofs EVM.Forks.
Local Open Scope N_scope.

(* run_total: with fuel exponent fuel_bound gas = bitlength(gas+1) per frame and 1026
   levels of depth fuel, the interpreter never reports F_OutOfFuel — for the outermost
   call, the outermost create, and every frame. *)
Theorem C27_run_total_call : forall e w pcs to value input gas,
  t_status (top_call e w pcs to value input gas) <> S_Fault F_OutOfFuel.
Proof. exact run_total_call. Qed.
Print Assumptions C27_run_total_call.

Theorem C27_run_total_create : forall e w pcs value init gas,
  t_status (top_create e w pcs value init gas) <> S_Fault F_OutOfFuel.
Proof. exact run_total_create. Qed.
Print Assumptions C27_run_total_create.

Theorem C27_run_total_frame : forall d c w gas,
  (1 <= d)%nat -> 1026 <= c_depth c + N.of_nat d ->
  r_status (run d c w gas) <> S_Fault F_OutOfFuel.
Proof. exact run_total_frame. Qed.
Print Assumptions C27_run_total_frame.

(* gas_never_exceeds: leftover <= given and used + leftover = given, for the outermost
   call / create, for every frame's result and for every state inside a frame. *)
Theorem C27_gas_never_exceeds_call : forall e w pcs to value input gas,
  let r := top_call e w pcs to value input gas in
  t_gas r <= gas /\ exists used, used + t_gas r = gas.
Proof. exact gas_never_exceeds_call. Qed.
Print Assumptions C27_gas_never_exceeds_call.

Theorem C27_gas_never_exceeds_create : forall e w pcs value init gas,
  let r := top_create e w pcs value init gas in
  t_gas r <= gas /\ exists used, used + t_gas r = gas.
Proof. exact gas_never_exceeds_create. Qed.
Print Assumptions C27_gas_never_exceeds_create.

Theorem C27_gas_never_exceeds_frame : forall d c w gas,
  (1 <= d)%nat -> 1026 <= c_depth c + N.of_nat d ->
  r_gas (run d c w gas) <= gas /\
  forall f, reachable (step (run (pred d)) c) (init_frame w gas) f -> f_gas f <= gas.
Proof. exact gas_never_exceeds_frame. Qed.
Print Assumptions C27_gas_never_exceeds_frame.

(* stack_bounded: every reachable operand stack has at most 1024 items. *)
Theorem C27_stack_bounded : forall d c w gas f,
  1026 <= c_depth c + N.of_nat (S d) ->
  reachable (step (run d) c) (init_frame w gas) f ->
  (length (f_stack f) <= 1024)%nat.
Proof. exact stack_bounded. Qed.
Print Assumptions C27_stack_bounded.

(* memory_paid: in every reachable state the memory size is a whole number of words,
   the fee recorded as paid is exactly the fee of that size (3w + w^2/512), and it was
   really deducted: gas left + fee paid <= gas given to the frame.  Together with
   C27_mem_access_checked (an access beyond the size is an explicit failure of the
   accessor) and C27_no_exception_value (that failure never happens) this is:
   every byte read or written lies below the size for which expansion gas was charged. *)
Theorem C27_memory_paid : forall d c w gas f,
  1026 <= c_depth c + N.of_nat (S d) ->
  reachable (step (run d) c) (init_frame w gas) f ->
  mem_len (f_mem f) mod 32 = 0 /\
  m_last (f_mem f) = mem_fee (mem_len (f_mem f) / 32) /\
  f_gas f + m_last (f_mem f) <= gas.
Proof. exact memory_paid. Qed.
Print Assumptions C27_memory_paid.

Theorem C27_mem_access_checked : forall m off size v,
  (mem_read m off size = None <-> size <> 0 /\ mem_len m < off + size) /\
  (mem_write m off size v = None <-> size <> 0 /\ mem_len m < off + size).
Proof. intros; split; [apply mem_read_none | apply mem_write_none]. Qed.
Print Assumptions C27_mem_access_checked.

(* no_exception_value: the result status is S_Ok, S_Revert or one of the EVM's own
   exceptional halts, never S_Fault k (what would be a Go panic: memory access outside
   the store, stack shorter than the stack table promised, StateDB.SubRefund below zero;
   or exhaustion of the model's fuel).  Guard: the "committed" storage the SSTORE
   metering reads is the storage at the start of the transaction (e_orig e = w_accounts w)
   — what StateDB.GetCommittedState is; for an inner frame the guard is the refund-counter
   invariant itself (refund counter >= 4800 per slot with original <> 0 and current = 0),
   which every frame also re-establishes for its caller (across calls, creates, reverts
   to a snapshot and SELFDESTRUCT). *)
Theorem C27_no_exception_value_call : forall e w pcs to value input gas,
  e_orig e = w_accounts w ->
  forall k, t_status (top_call e w pcs to value input gas) <> S_Fault k.
Proof. exact no_exception_value_call_full. Qed.
Print Assumptions C27_no_exception_value_call.

Theorem C27_no_exception_value_create : forall e w pcs value init gas,
  e_orig e = w_accounts w ->
  forall k, t_status (top_create e w pcs value init gas) <> S_Fault k.
Proof. exact no_exception_value_create_full. Qed.
Print Assumptions C27_no_exception_value_create.

Theorem C27_no_exception_value_frame : forall d c w gas,
  (1 <= d)%nat -> 1026 <= c_depth c + N.of_nat d ->
  refund_inv (orig_storage (c_env c)) w ->
  (forall k, r_status (run d c w gas) <> S_Fault k) /\
  refund_inv (orig_storage (c_env c)) (r_w (run d c w gas)).
Proof. exact no_exception_value_frame_full. Qed.
Print Assumptions C27_no_exception_value_frame.

(* the refund-counter invariant holds in every reachable state of every frame *)
Theorem C27_refund_counter_invariant : forall d c w gas f,
  1026 <= c_depth c + N.of_nat (S d) ->
  refund_inv (orig_storage (c_env c)) w ->
  reachable (step (run d) c) (init_frame w gas) f ->
  refund_inv (orig_storage (c_env c)) (f_w f).
Proof. exact reachable_refund_inv. Qed.
Print Assumptions C27_refund_counter_invariant.

(* without any guard on the state: every fault other than the refund underflow is
   excluded for arbitrary (even inconsistent) committed storage *)
Theorem C27_no_fault_except_refund_call : forall e w pcs to value input gas k,
  t_status (top_call e w pcs to value input gas) = S_Fault k -> k = F_RefundUnderflow.
Proof. exact no_exception_value_call. Qed.
Print Assumptions C27_no_fault_except_refund_call.

Theorem C27_no_fault_except_refund_create : forall e w pcs value init gas k,
  t_status (top_create e w pcs value init gas) = S_Fault k -> k = F_RefundUnderflow.
Proof. exact no_exception_value_create. Qed.
Print Assumptions C27_no_fault_except_refund_create.

Theorem C27_no_fault_except_refund_frame : forall d c w gas k,
  (1 <= d)%nat -> 1026 <= c_depth c + N.of_nat d ->
  r_status (run d c w gas) = S_Fault k -> k = F_RefundUnderflow.
Proof. exact no_exception_value_frame. Qed.
Print Assumptions C27_no_fault_except_refund_frame.

(* the hypotheses are met by a concrete run: PUSH1 1 PUSH1 2 ADD PUSH1 0 MSTORE PUSH1 32
   PUSH1 0 RETURN at address 0x1000 returns the word 3 for 24 gas, and the state after
   the first instruction is reachable in the outermost frame (depth 1, run 1025) *)
Example C27_nonvacuous :
  let code := [96; 1; 96; 2; 1; 96; 0; 82; 96; 32; 96; 0; 243] in
  let w := mk_world [(4096, mk_account 0 1 code [])] [] [] [] 0 [] [] [] in
  let e := mk_env cancun 1 0 2 0 0 0 100000 1 0 0 [] (w_accounts w) in
  let r := top_call e w cancun_precompiles 4096 0 [] 100000 in
  let w0 := prepare e w (Some 4096) cancun_precompiles in
  let c := new_ctx e 4096 1 0 [] code false 1 in
  e_orig e = w_accounts w /\
  (t_status r = S_Ok /\ t_ret r = word_bytes 3 /\ t_gas r = 99976) /\
  1026 <= c_depth c + N.of_nat (S 1025) /\
  reachable (step (run 1025) c) (init_frame w0 100000) (mk_frame 2 [1] mem_empty 99997 [] w0).
Proof.
  cbv zeta. split; [reflexivity|]. split; [vm_compute; auto|]. split; [vm_compute; discriminate|].
  eapply reach_next; [apply reach_init|]. vm_compute. reflexivity.
Qed.
