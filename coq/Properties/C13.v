(* Properties/C13.v — Account state behaves like the reference account model.
   Models: State/Ref.v (reference: whole-state copies) and State/Journal.v
   (implementation model of core/state: state objects + undo journal).

   FULL STATEMENT of the property (NOT proved in Coq; checked on every run by the
   correspondence: Run/C13.v evaluates it on each generated history, and the Go
   harness checks the real StateDB against an independent Go reference):

     history_refines : ∀ db ops, hist_ok (init_j db) ops →
        ∀ q, query_j (run_j (init_j db) ops) q = query_r (run_r (init_r db) ops) q
     (and the return values of every call agree), where hist_ok is [op_ok] at every step.

   What IS proved here, for all states / histories of the implementation model:
   the part of the property that carries snapshots and reverts — the journal's revert
   is an exact left inverse (every field, including journal.mutations counts and
   stashes) of everything any sequence of journalled API calls did, so that
   Snapshot; calls; RevertToSnapshot is the identity — plus two [_refuted] theorems
   showing that the two API guards in [op_ok] cannot be dropped from the refinement.
   [None]/[RPanic]/[j_bad] = the Go code panics. *)
From stdpp Require Import gmap.
From RecordUpdate Require Import RecordSet.
Import RecordSetNotations.
From GV Require Import State.Ref State.Journal State.JournalProofs.
Local Open Scope N_scope.

(* the state a StateDB starts from is well-formed, whatever the committed pre-state *)
Theorem C13_wf_init : ∀ db, wf (init_j db).
Proof. exact wf_init. Qed.
Print Assumptions C13_wf_init.

(* revert_restores, one call: for every journalled API call (balance, nonce, code,
   storage, transient storage, access list, refund, log, create, create-contract,
   self-destruct, touch) on a well-formed state, inside its guard, other than the
   RIPEMD-160 zero-value touch, reverting the journal to its previous length gives back
   the previous state EXACTLY — all sixteen fields of the model, including
   journal.mutations counts and stashed originals and the access-list slot slices. *)
Theorem C13_revert_restores : ∀ j o,
  wf j → core_op o = true → op_ok j o = true → sticky_j j o = false →
  revert_to (length (j_entries j)) (step_j j o).1 = j.
Proof. exact restore. Qed.
Print Assumptions C13_revert_restores.

(* ... and for every sequence of such calls *)
Theorem C13_revert_restores_run : ∀ j ops,
  run_ok j ops → revert_to (length (j_entries j)) (run_j j ops) = j.
Proof. exact restore_run. Qed.
Print Assumptions C13_revert_restores_run.

(* API level: Snapshot, any such sequence, RevertToSnapshot of the returned id does not
   panic and restores the whole StateDB; only nextRevisionId has advanced.
   PARTIAL with respect to the property's nesting clause: [run_ok] admits journalled
   calls only, so inner Snapshot/RevertToSnapshot pairs inside the reverted region are
   covered by composing this theorem from the inside out, not by one statement; and
   [run_ok] asks for [wf] at every intermediate state (proved for the initial state,
   checked — not proved — to be preserved by each call). *)
Theorem C13_snapshot_revert_partial : ∀ j ops,
  run_ok (step_j j OSnapshot).1 ops →
  step_j (run_j (step_j j OSnapshot).1 ops) (ORevert (j_nextrev j))
  = (j <| j_nextrev ::= N.succ |>, RNone).
Proof. exact snapshot_revert. Qed.
Print Assumptions C13_snapshot_revert_partial.

(* The guards of the refinement are necessary.  Without "a new contract has been
   touched by the end of its transaction" (evm.create always sets the nonce):
   CreateContract on a funded, untouched account; Finalise; IsNewContract still true. *)
Definition db_funded : database :=
  {[ 1 := {| d_acct := {| a_nonce := 0; a_bal := 5; a_code := 0 |}; d_stor := ∅ |} ]}.
Definition r_158 : rules := {| r158 := true; rAms := false; r2929 := false; rShanghai := false |}.
Definition r_ams : rules := {| r158 := true; rAms := true; r2929 := true; rShanghai := true |}.

Theorem C13_newcontract_flag_unguarded_refuted :
  ∃ db ops q, query_j (run_j (init_j db) ops) q ≠ query_r (run_r (init_r db) ops) q.
Proof.
  exists db_funded, [OCreateContract 1; OFinalise r_158], (QNewContract 1).
  vm_compute. discriminate.
Qed.
Print Assumptions C13_newcontract_flag_unguarded_refuted.

(* Without "under Amsterdam rules only accounts with a blank committed origin are
   self-destructed" (EIP-6780 + the create collision rules): SelfDestruct of a
   committed contract; finaliseAmsterdam rebuilds the object from its ORIGIN, so the
   committed nonce and code survive where EIP-8264 says nonce 0, no code. *)
Definition db_contract : database :=
  {[ 1 := {| d_acct := {| a_nonce := 7; a_bal := 5; a_code := 2 |}; d_stor := {[ 0 := 9 ]} |} ]}.

Theorem C13_amsterdam_selfdestruct_unguarded_refuted :
  ∃ db ops q, query_j (run_j (init_j db) ops) q ≠ query_r (run_r (init_r db) ops) q.
Proof.
  exists db_contract, [OSelfDestruct 1; OFinalise r_ams], (QNonce 1).
  vm_compute. discriminate.
Qed.
Print Assumptions C13_amsterdam_selfdestruct_unguarded_refuted.

(* non-vacuity: a history with a created account, storage, access list, log, refund,
   transient storage, a new contract and a self-destruct changes the getters, and
   RevertToSnapshot puts every getter, the journal and journal.mutations back *)
Example C13_nonvacuous :
  let ops := [OSetBalance 2 7; OSetState 2 1 5; OSetState 1 0 3; OAddSlot 2 1; OAddLog 2 9;
              OAddRefund 4; OSetTransient 1 1 8; OCreateContract 2; OSelfDestruct 1] in
  let qs := [QBalance 2; QExist 2; QState 1 0; QState 2 1; QSelfDestructed 1; QNewContract 2;
             QSlotInAL 2 1; QAddrInAL 2; QRefund; QTransient 1 1; QLogs 0; QNonce 1] in
  let j0 := (step_j (init_j db_contract) OSnapshot).1 in
  let j1 := run_j j0 ops in
  let j2 := step_j j1 (ORevert 0) in
  map (query_j j1) qs = [AN 7; AB true; AN 3; AN 5; AB true; AB true; AB true; AB true; AN 4; AN 8;
                         AL [{| l_th := 0; l_ti := 0; l_idx := 0; l_addr := 2; l_data := 9 |}]; AN 7]
  ∧ map (query_j j2.1) qs = map (query_j (init_j db_contract)) qs
  ∧ j2.2 = RNone ∧ j_entries j2.1 = [] ∧ map_to_list (j_muts j2.1) = [] ∧ j_als j2.1 = []
  ∧ length (j_entries j1) = 11%nat ∧ j_bad j2.1 = false.
Proof. vm_compute. repeat split; reflexivity. Qed.
