(* Properties/C13.v — Account state behaves like the reference account model.
   Models: State/Ref.v (reference: whole-state copies) and State/Journal.v
   (implementation model of core/state: state objects + undo journal).
   Proofs: State/JournalProofs.v (exact restore) and State/Refine.v (refinement).

   The property is the refinement [C13_history_refines]: after every history of API
   calls that stays inside the guards [op_ok] (API preconditions the EVM establishes),
   every observable getter of the implementation model equals that of the reference
   model, every call returned the same value (including which calls panic), and no Go
   panic happened inside a revert — for all committed start states, all rule sets,
   snapshots and reverts nested arbitrarily, any number of transactions.
   PARTIAL in one respect, visible in the statement: [hist_ok] also excludes, through
   [no_sticky], the RIPEMD-160 zero-value touch (AddBalance(0x03, 0) on an empty or
   absent account), whose journal.mutations marker deliberately survives reverts; that
   call is covered by the correspondence check only.  The intermediate state root is
   not modelled (no trie library yet).
   [RPanic]/[j_bad] = the Go code panics. *)
From stdpp Require Import gmap.
From RecordUpdate Require Import RecordSet.
Import RecordSetNotations.
From GV Require Import Lib.Bytes Trie.Node State.Ref State.Journal State.JournalProofs State.Refine State.Dirties State.Commit State.CommitFin State.CommitBlock State.Root State.RootProofs.
Local Open Scope N_scope.

(* the state a StateDB starts from is well-formed, whatever the committed pre-state *)
Theorem C13_wf_init : ∀ db, wf (init_j db).
Proof. exact wf_init. Qed.
Print Assumptions C13_wf_init.

(* every getter agrees whenever the coupling invariant holds *)
Theorem C13_inv_observables : ∀ j r q, Inv j r → query_j j q = query_r r q.
Proof. exact Inv_query. Qed.
Print Assumptions C13_inv_observables.

(* step_refines: every call inside its guard — balance, nonce, code, storage, transient
   storage, access list, refund, log, create, create-contract, self-destruct (plain and
   EIP-6780), Snapshot, RevertToSnapshot of ANY id (valid at any depth: pops to that copy;
   invalid: both sides panic), SetTxContext+Prepare, Finalise under any rules — preserves
   the invariant (well-formedness, coupling of the current states, coupling of every
   saved copy with the state the journal would revert to) and returns the same value *)
Theorem C13_step_refines_partial : ∀ j r o,
  Inv j r → op_ok j o = true → no_sticky j o →
  (step_j j o).2 = (step_r r o).2 ∧ Inv (step_j j o).1 (step_r r o).1.
Proof. exact step_refines. Qed.
Print Assumptions C13_step_refines_partial.

(* history_refines, from the empty and from any committed start state *)
Theorem C13_history_refines_partial : ∀ db ops,
  hist_ok (init_j db) ops →
  (∀ q, query_j (run_j (init_j db) ops) q = query_r (run_r (init_r db) ops) q) ∧
  outs_j (init_j db) ops = outs_r (init_r db) ops ∧
  j_bad (run_j (init_j db) ops) = false.
Proof. exact history_refines. Qed.
Print Assumptions C13_history_refines_partial.

(* ... and from any pair of related states *)
Theorem C13_run_refines_partial : ∀ ops j r,
  Inv j r → hist_ok j ops → Inv (run_j j ops) (run_r r ops) ∧ outs_j j ops = outs_r r ops.
Proof. exact run_refines. Qed.
Print Assumptions C13_run_refines_partial.

(* THE ROOT CLAUSE: "the intermediate state root equals the root computed from the model's
   accounts and storage".  The implementation side is C14's model State/Commit.v (the C13
   journal model plus StateDB.mutations/applied, uncommittedStorage, data.Root, the tries);
   [root_r H rs] is the MODEL ROOT of State/Root.v: built from scratch, by the Coq trie, from
   the reference model's accounts and non-zero storage, with no incremental state.
   For every hash function H with byte output, every universe on which the secure keys
   H(address), H(slot) are collision free, every block of transactions ts (each: journalled
   calls with arbitrarily nested Snapshot/RevertToSnapshot, Finalise, optionally
   IntermediateRoot) run from a state satisfying C14's between-transactions invariant Sync
   and related to a reference state by C13's Inv: the root returned by the final
   IntermediateRoot is the model root of the reference state after the same calls.
   Proof: C13 run_refines + C14 block_hashed (sync_ir) + uniqueness of canonical tries.
   PARTIAL: the history must satisfy C14's guards (txs_ok: C13's call guards, no RIPEMD
   sticky touch, no Prepare in the body, touched keys in the universe) AND C13's hist_ok
   (which adds the Finalise guards), and the reference storage must lie in the slot universe
   ([in_universe], a hypothesis on the final reference state, not derived). *)
Theorem C13_root_refines_partial :
  ∀ (H : list N → list N), (∀ x, forallb byteb (H x) = true) →
  ∀ (addr_ok : addr → Prop) (slot_ok : slot → Prop),
    (∀ a b, addr_ok a → addr_ok b → addr_key H a = addr_key H b → a = b) →
    (∀ a b, slot_ok a → slot_ok b → slot_key H a = slot_key H b → a = b) →
  ∀ p cs0 ts cs r root cs1 rs0,
    Sync H addr_ok slot_ok p cs0 → txs_ok H addr_ok slot_ok p cs0 ts → run_txs H p cs0 ts = Some cs →
    intermediate_root H r p cs = COk (root, cs1) →
    Inv (c_j cs0) rs0 → hist_ok (c_j cs0) (txs_flat ts ++ [OFinalise r]) →
    in_universe slot_ok (r_cur (run_r rs0 (txs_flat ts ++ [OFinalise r]))) →
    root_r H (run_r rs0 (txs_flat ts ++ [OFinalise r])) = Some root.
Proof. exact root_refines. Qed.
Print Assumptions C13_root_refines_partial.

(* ... in particular from the empty chain start (state.New on the empty root) *)
Theorem C13_root_refines_genesis_partial :
  ∀ (H : list N → list N), (∀ x, forallb byteb (H x) = true) →
  ∀ (addr_ok : addr → Prop) (slot_ok : slot → Prop),
    (∀ a b, addr_ok a → addr_ok b → addr_key H a = addr_key H b → a = b) →
    (∀ a b, slot_ok a → slot_ok b → slot_key H a = slot_key H b → a = b) →
  ∀ ts cs r root cs1,
    txs_ok H addr_ok slot_ok pdb0 (cs_genesis H) ts → run_txs H pdb0 (cs_genesis H) ts = Some cs →
    intermediate_root H r pdb0 cs = COk (root, cs1) →
    hist_ok (init_j ∅) (txs_flat ts ++ [OFinalise r]) →
    in_universe slot_ok (r_cur (run_r (init_r ∅) (txs_flat ts ++ [OFinalise r]))) →
    root_r H (run_r (init_r ∅) (txs_flat ts ++ [OFinalise r])) = Some root.
Proof. exact root_refines_genesis. Qed.
Print Assumptions C13_root_refines_genesis_partial.

(* dirties_exact — the invariant Finalise relies on — after EVERY history (no guard, the
   RIPEMD-160 touch included): an address is a key of journal.mutations iff some live
   journal entry mentions it, or it is RIPEMD-160 and a marker was added in this
   transaction (n counts the markers); and each per-kind count equals the number of live
   entries of that kind for that address (+ n for RIPEMD-160's Touch count) *)
Theorem C13_dirties_exact : ∀ db ops,
  ∃ n : Z, (0 ≤ n)%Z ∧ ∀ a,
    a ∈ dom (j_muts (run_j (init_j db) ops)) ↔
    (∃ e k, e ∈ j_entries (run_j (init_j db) ops) ∧ mutation e = Some (a, k)) ∨ (a = ripemd ∧ (0 < n)%Z).
Proof. exact dirties_exact. Qed.
Print Assumptions C13_dirties_exact.

Theorem C13_counts_exact : ∀ db ops,
  ∃ n : Z, (0 ≤ n)%Z ∧ ∀ a k,
    count k (mstate_for a (run_j (init_j db) ops))
    = (ecount a k (j_entries (run_j (init_j db) ops)) + (if is_mark a k then n else 0))%Z.
Proof. exact counts_exact. Qed.
Print Assumptions C13_counts_exact.

(* revert_restores, one call: for every journalled API call (balance, nonce, code,
   storage, transient storage, access list, refund, log, create, create-contract,
   self-destruct, touch) on a well-formed state, inside its guard, other than the
   RIPEMD-160 zero-value touch, reverting the journal to its previous length gives back
   the previous state EXACTLY — all sixteen fields of the model, including
   journal.mutations counts and stashed originals and the access-list slot slices. *)
Theorem C13_revert_restores : ∀ j o,
  wf j → core_op o = true → op_ok j o = true → sticky_j j o = false →
  revert_to (length (j_entries j)) (step_j j o).1 = j.
Proof. exact restore. Qed.
Print Assumptions C13_revert_restores.

(* ... and for every sequence of such calls, from any state reachable by a guarded
   history (well-formedness of the intermediate states is a theorem, not a hypothesis) *)
Theorem C13_revert_restores_run : ∀ j r ops,
  Inv j r → core_hist j ops → revert_to (length (j_entries j)) (run_j j ops) = j.
Proof. exact restore_run_inv. Qed.
Print Assumptions C13_revert_restores_run.

(* API level, implementation side only: Snapshot, any such sequence, RevertToSnapshot of
   the returned id does not panic and restores the whole StateDB exactly; only
   nextRevisionId has advanced.  (Nested snapshots inside the reverted region are covered
   by [C13_step_refines_partial]; this statement is about journalled calls only, hence
   the suffix.) *)
Theorem C13_snapshot_revert_partial : ∀ j ops,
  run_ok (step_j j OSnapshot).1 ops →
  step_j (run_j (step_j j OSnapshot).1 ops) (ORevert (j_nextrev j))
  = (j <| j_nextrev ::= N.succ |>, RNone).
Proof. exact snapshot_revert. Qed.
Print Assumptions C13_snapshot_revert_partial.

(* Why the RIPEMD-160 zero-value touch is excluded ([sticky_j] / [no_sticky]): journal.touchChange
   of 0x03 adds, through ripemdMagic, a second Touch count that journal.revert never removes.
   So for that one call revert is NOT a left inverse - the statement of [C13_revert_restores]
   without its last hypothesis is false: from the empty state, AddBalance(0x03, 0) followed by
   a revert to journal length 0 leaves journal.mutations[0x03] behind (Touch count 1), although
   no journal entry mentions 0x03 any more.  (The refinement itself is expected to hold for it -
   the reference has the corresponding sticky bit and the correspondence check exercises the
   call on every run - but its proof needs the stack relation of [Inv] taken modulo that
   count and a commutation lemma between one step of journal.revert and the marker, which in
   turn needs the stashed originals determined by the live entries; not done.  The marker
   arithmetic itself is covered for all histories by [C13_dirties_exact]/[C13_counts_exact].) *)
Theorem C13_revert_restores_sticky_refuted :
  ∃ j o, wf j ∧ core_op o = true ∧ op_ok j o = true ∧ sticky_j j o = true ∧
         revert_to (length (j_entries j)) (step_j j o).1 ≠ j ∧
         j_entries (revert_to (length (j_entries j)) (step_j j o).1) = [] ∧
         (c_touch <$> j_muts (revert_to (length (j_entries j)) (step_j j o).1) !! ripemd) = Some 1%Z.
Proof.
  exists (init_j ∅), (OAddBalance ripemd 0). split; [apply wf_init|].
  split; [done|]. split; [done|]. split; [done|].
  assert (E : (c_touch <$> j_muts (revert_to (length (j_entries (init_j ∅))) (step_j (init_j ∅) (OAddBalance ripemd 0)).1) !! ripemd) = Some 1%Z)
    by (by vm_compute).
  split; [|split; [by vm_compute|exact E]].
  intros Heq. rewrite Heq in E. by vm_compute in E.
Qed.
Print Assumptions C13_revert_restores_sticky_refuted.

(* The guards of the refinement are necessary.  Without "a new contract has been
   touched by the end of its transaction" (evm.create always sets the nonce):
   CreateContract on a funded, untouched account; Finalise; IsNewContract still true. *)
Definition db_funded : database :=
  {[ 1 := {| d_acct := {| a_nonce := 0; a_bal := 5; a_code := 0 |}; d_stor := ∅ |} ]}.
Definition r_158 : rules := {| r158 := true; rAms := false; r2929 := false; rShanghai := false |}.
Definition r_ams : rules := {| r158 := true; rAms := true; r2929 := true; rShanghai := true |}.

Theorem C13_newcontract_flag_unguarded_refuted :
  ∃ db ops q, query_j (run_j (init_j db) ops) q ≠ query_r (run_r (init_r db) ops) q.
Proof.
  exists db_funded, [OCreateContract 1; OFinalise r_158], (QNewContract 1).
  vm_compute. discriminate.
Qed.
Print Assumptions C13_newcontract_flag_unguarded_refuted.

(* Without "under Amsterdam rules only accounts with a blank committed origin are
   self-destructed" (EIP-6780 + the create collision rules): SelfDestruct of a
   committed contract; finaliseAmsterdam rebuilds the object from its ORIGIN, so the
   committed nonce and code survive where EIP-8264 says nonce 0, no code. *)
Definition db_contract : database :=
  {[ 1 := {| d_acct := {| a_nonce := 7; a_bal := 5; a_code := 2 |}; d_stor := {[ 0 := 9 ]} |} ]}.

Theorem C13_amsterdam_selfdestruct_unguarded_refuted :
  ∃ db ops q, query_j (run_j (init_j db) ops) q ≠ query_r (run_r (init_r db) ops) q.
Proof.
  exists db_contract, [OSelfDestruct 1; OFinalise r_ams], (QNonce 1).
  vm_compute. discriminate.
Qed.
Print Assumptions C13_amsterdam_selfdestruct_unguarded_refuted.

(* non-vacuity: a history with a created account, storage, access list, log, refund,
   transient storage, a new contract and a self-destruct changes the getters, and
   RevertToSnapshot puts every getter, the journal and journal.mutations back *)
Example C13_nonvacuous :
  let ops := [OSetBalance 2 7; OSetState 2 1 5; OSetState 1 0 3; OAddSlot 2 1; OAddLog 2 9;
              OAddRefund 4; OSetTransient 1 1 8; OCreateContract 2; OSelfDestruct 1] in
  let qs := [QBalance 2; QExist 2; QState 1 0; QState 2 1; QSelfDestructed 1; QNewContract 2;
             QSlotInAL 2 1; QAddrInAL 2; QRefund; QTransient 1 1; QLogs 0; QNonce 1] in
  let j0 := (step_j (init_j db_contract) OSnapshot).1 in
  let j1 := run_j j0 ops in
  let j2 := step_j j1 (ORevert 0) in
  map (query_j j1) qs = [AN 7; AB true; AN 3; AN 5; AB true; AB true; AB true; AB true; AN 4; AN 8;
                         AL [{| l_th := 0; l_ti := 0; l_idx := 0; l_addr := 2; l_data := 9 |}]; AN 7]
  ∧ map (query_j j2.1) qs = map (query_j (init_j db_contract)) qs
  ∧ j2.2 = RNone ∧ j_entries j2.1 = [] ∧ map_to_list (j_muts j2.1) = [] ∧ j_als j2.1 = []
  ∧ length (j_entries j1) = 11%nat ∧ j_bad j2.1 = false.
Proof. vm_compute. repeat split; reflexivity. Qed.
