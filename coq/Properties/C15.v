(* Properties/C15.v — Block access lists record exactly the net state changes.
   Models: State/Bal.v (recording layer over the C13 StateDB model State/Journal.v:
   AccountRead / StorageRead / StorageWrite / Balance-, Nonce-, CodeChange, Merge,
   ToEncodingObj) and State/BalEnc.v (BlockAccessList: Validate, RLP, Hash).

   C15_bal_net_changes is the property's first clause in closed form, for ONE transaction
   started at a transaction boundary: SetTxContext, Prepare, any body (journalled calls,
   getters, Snapshots and RevertToSnapshots to any live id, nested to any depth), Finalise.
   It is stated on [pre_data] / [view_state], which ARE the getters GetBalance/GetNonce/GetCode/
   GetState (C15_getters_view), of the state before SetTxContext and after Finalise.
   C15_tx_boundary_init and C15_tx_boundary_finalise make it apply to every transaction of
   every block (the boundary condition holds initially and is re-established by Finalise).
   Guards ([body_ok], [fin_guard]): C13's API guards at every call; no RIPEMD-160 zero-value
   touch (excluded as in C13: PARTIAL in that respect); a self-destructed object had nonce 0,
   no code and a blank origin before the transaction; an account deleted at Finalise
   (self-destruct or EIP-158) had no storage before the transaction.  The last guard is
   necessary: C15_storage_unguarded_refuted (witness replayed on the real code, corpus/C15).
   C15_block_records_exactly_net_changes lifts this to the BLOCK by induction over the list of
   steps (transactions and pre/post-execution system calls, each = SetTxContext and Prepare in
   either order, any body, Finalise) with Merge after every step, as core/state_processor.go
   builds the block list.
   [None]/[RPanic]/[j_bad] = the Go code panics. *)
From stdpp Require Import gmap sorting.
From GV Require Import Lib.Bytes Rlp.Item State.Ref State.Journal State.JournalProofs State.BalEnc State.BalEncProofs State.Bal State.BalProofs State.BalValidProofs State.BalBlockProofs.
Local Open Scope N_scope.

(* a fresh StateDB is at a transaction boundary *)
Theorem C15_tx_boundary_init : ∀ db, tx_boundary (init_j db).
Proof. exact tx_boundary_init. Qed.
Print Assumptions C15_tx_boundary_init.

(* bal_ignores_reverted, as an invariant: for every transaction body (journalled calls,
   getters, Snapshot, RevertToSnapshot in any nesting) started at a transaction boundary s0,
   the stash invariant Q and the well-formedness of journal.mutations hold at the end *)
Theorem C15_stash_invariant : ∀ s0 b ops,
  tx_boundary s0 → core_eq (b_j b) s0 → body_ok b ops →
  Q s0 (b_j (run_b b ops)) ∧ wfc (b_j (run_b b ops)).
Proof. exact stash_invariant. Qed.
Print Assumptions C15_stash_invariant.

(* Finalise re-establishes the boundary, so the theorem below applies to every transaction *)
Theorem C15_tx_boundary_finalise : ∀ s0 j r, Q s0 j → wfc j → tx_boundary (finalise r j).
Proof. exact tx_boundary_finalise. Qed.
Print Assumptions C15_tx_boundary_finalise.

(* the views used below are the getters of the StateDB *)
Theorem C15_getters_view : ∀ j a k,
  query_j j (QBalance a) = AN (a_bal (pre_data j a)) ∧ query_j j (QNonce a) = AN (a_nonce (pre_data j a))
  ∧ query_j j (QCode a) = AN (a_code (pre_data j a)) ∧ query_j j (QState a k) = AN (view_state j a k).
Proof. exact getters_view. Qed.
Print Assumptions C15_getters_view.

(* bal_net_changes (with bal_ignores_reverted and bal_restore_not_recorded as consequences:
   the right-hand sides only mention the state before and after the transaction).
   For every address a, the list R returned by Finalise holds
     BalanceChange / NonceChange / CodeChange (idx, end value)  iff  the getter differs between
       the start and the end of the transaction (nothing else: the maps are empty or singletons);
     StorageWrite (a, k, idx, end value)  iff  GetState(a,k) differs;
     k in StorageReads(a)  iff  (a,k) was passed to GetCommittedState during the body
       ([touched]) and GetState(a,k) is unchanged  — reads = touched minus written. *)
Theorem C15_bal_net_changes : ∀ b0 th ti idx r s c d l body,
  tx_boundary (b_j b0) → rAms r = true →
  let b1 := run_b b0 [BSetTx th ti idx; BPrepare r s c d l] in
  body_ok b1 body →
  let b2 := run_b b1 body in
  (∀ a, fin_guard (b_j b0) (b_j b2) r a) →
  let b3 := (step_b b2 (BOp (OFinalise r))).1 in
  ∃ R, (step_b b2 (BOp (OFinalise r))).2 = BFin (Some R) ∧ b_acc b3 = None ∧
  ∀ a,
    let pre := pre_data (b_j b0) a in let post := pre_data (b_j b3) a in
    obal (R !! a) = upd_set idx (a_bal post) (a_bal pre)
    ∧ ononce (R !! a) = upd_set idx (a_nonce post) (a_nonce pre)
    ∧ ocode (R !! a) = upd_set idx (a_code post) (a_code pre)
    ∧ ∀ k, owrites (R !! a) !! k = st_write idx (view_state (b_j b3) a k) (view_state (b_j b0) a k)
           ∧ (k ∈ oreads (R !! a) ↔ (a, k) ∈ touched b1 body ∧ view_state (b_j b3) a k = view_state (b_j b0) a k).
Proof. exact bal_net_changes_tx. Qed.
Print Assumptions C15_bal_net_changes.

(* C15_block_records_exactly_net_changes.  For EVERY list of steps ts run from a transaction
   boundary with the guards at every step ([block_ok]), the merged list M — Merge of the lists
   returned by Finalise, in order — is, for every address a and slot k, exactly the
   specification computed from the getters before/after each step:
     balance / nonce / code entries = spec_field: each step contributes {t_idx := end value} iff
       the getter differs between the start and the end of that step, later steps win per index
       (C15_spec_field_cons / C15_upd_set_lookup: the entry at index i is the end value of the
       LAST step with index i that changed the field; with distinct indices every step's entry);
     writes of slot k = spec_writes: each step contributes {t_idx := end value} iff GetState(a,k)
       differs over that step — so a slot restored by a LATER step to its block-start value is
       still a write at both indices (Example C15_restored_in_later_tx_is_write);
     k is a read iff some step passed (a,k) to GetCommittedState and left it unchanged, and no
       step of the block changed it (reads that never became writes).
   Finalise of the last step leaves a transaction boundary (the next block's steps chain on). *)
Theorem C15_block_records_exactly_net_changes : ∀ b0 ts,
  tx_boundary (b_j b0) → block_ok b0 ts →
  let M := (run_block b0 ∅ ts).2 in
  tx_boundary (b_j (run_block b0 ∅ ts).1) ∧
  ∀ a,
    obal (M !! a) = spec_field a_bal a b0 ts ∅
    ∧ ononce (M !! a) = spec_field a_nonce a b0 ts ∅
    ∧ ocode (M !! a) = spec_field a_code a b0 ts ∅
    ∧ ∀ k, owrites (M !! a) !! k = spec_writes a k b0 ts None
           ∧ (k ∈ oreads (M !! a) ↔ some_read a k b0 ts ∧ spec_writes a k b0 ts None = None).
Proof. exact block_records_exactly_net_changes. Qed.
Print Assumptions C15_block_records_exactly_net_changes.

(* [run_tx] is the sealed form of one step: SetTxContext/Prepare, body, Finalise *)
Theorem C15_run_tx_eq : run_tx = run_tx_def.
Proof. exact run_tx_eq. Qed.
Print Assumptions C15_run_tx_eq.

(* reading the specification *)
Theorem C15_spec_field_cons : ∀ f a b t rest i,
  spec_field f a b (t :: rest) ∅ !! i =
    match spec_field f a (run_tx b t).1 rest ∅ !! i with
    | Some v => Some v
    | None => upd_set (t_idx t) (f (pre_data (b_j (run_tx b t).1) a)) (f (pre_data (b_j b) a)) !! i
    end.
Proof. exact spec_field_cons. Qed.
Print Assumptions C15_spec_field_cons.

Theorem C15_upd_set_lookup : ∀ idx post pre i,
  upd_set idx post pre !! i = if bool_decide (i = idx ∧ post ≠ pre) then Some post else None.
Proof. exact upd_set_lookup. Qed.
Print Assumptions C15_upd_set_lookup.

Theorem C15_spec_writes_cons : ∀ a k b t rest,
  spec_writes a k b (t :: rest) None =
    w_union (spec_writes a k (run_tx b t).1 rest None)
            (st_write (t_idx t) (view_state (b_j (run_tx b t).1) a k) (view_state (b_j b) a k)).
Proof. exact spec_writes_cons. Qed.
Print Assumptions C15_spec_writes_cons.

(* the C15-1 seed: slot 0 of contract 1 set to 5 in tx 1 and restored to 0 in tx 2, read in tx 3:
   the merged block list has slot 0 -> {1 := 5, 2 := 0} and no read of slot 0 *)
Example C15_restored_in_later_tx_is_write : restored_later_check = true.
Proof. vm_compute. reflexivity. Qed.

(* the blank-storage guard is necessary: an empty account WITH storage, touched, is deleted by
   EIP-158; GetState goes from 5 to 0 and the returned list (which contains the account) has no
   write for the slot.  [unguarded_check] evaluates exactly that on db_empty_with_storage. *)
Theorem C15_storage_unguarded_refuted : unguarded_check = true.
Proof. vm_compute. reflexivity. Qed.
Print Assumptions C15_storage_unguarded_refuted.

(* bal_restore_not_recorded (storage): after any body, a slot is dirty — and hence written
   by stateObject.finalise — iff its current value differs from its pre-transaction value *)
Theorem C15_bal_restore_not_recorded : ∀ s0 b ops a o k v,
  tx_boundary s0 → core_eq (b_j b) s0 → body_ok b ops →
  let j := b_j (run_b b ops) in
  j_objs j !! a = Some o →
  (o_dirty o !! k = Some v ↔ view_state j a k = v ∧ v ≠ view_state s0 a k).
Proof. exact storage_net_writes. Qed.
Print Assumptions C15_bal_restore_not_recorded.

Theorem C15_finalise_writes : ∀ idx dirty oc k,
  owrites (fin_writes idx dirty oc) !! k =
    match dirty !! k with
    | Some v => Some (<[idx := v]> (default ∅ (owrites oc !! k)))
    | None => owrites oc !! k
    end
  ∧ oreads (fin_writes idx dirty oc) = oreads oc ∖ dom dirty.
Proof. exact fin_writes_spec. Qed.
Print Assumptions C15_finalise_writes.

(* encoding_sorted_unique: ToEncodingObj of ANY construction list is strictly ascending
   (hence duplicate-free) in addresses, slots, write indices, reads and change indices *)
Theorem C15_encoding_sorted_unique : ∀ code_of (L : cbal),
  StronglySorted (ltk aa_addr) (to_encoding_obj code_of L)
  ∧ Forall (λ e, StronglySorted (ltk fst) (aa_changes e)
                 ∧ Forall (λ sc, StronglySorted (ltk fst) (snd sc)) (aa_changes e)
                 ∧ StronglySorted N.lt (aa_reads e)
                 ∧ StronglySorted (ltk fst) (aa_bal e) ∧ StronglySorted (ltk fst) (aa_nonce e)
                 ∧ StronglySorted (ltk fst) (aa_code e)) (to_encoding_obj code_of L).
Proof. exact to_encoding_sorted. Qed.
Print Assumptions C15_encoding_sorted_unique.

(* Merge of the per-transaction lists of a block: per address, and per index, other's entry if
   it has one, else the local one (so entries of distinct indices are all preserved); reads are
   unioned minus every slot written by either side.  Sortedness of the merged list's encoding is
   C15_encoding_sorted_unique (it holds for ANY construction list). *)
Theorem C15_merge_lookup : ∀ (B L : cbal) a,
  cbal_merge B L !! a =
    match B !! a, L !! a with
    | Some x, Some y => Some (ca_merge x y)
    | Some x, None => Some x
    | None, o => o
    end.
Proof. exact merge_lookup. Qed.
Print Assumptions C15_merge_lookup.

Theorem C15_merge_fields : ∀ x y i,
  ca_bal (ca_merge x y) !! i = match ca_bal y !! i with Some v => Some v | None => ca_bal x !! i end
  ∧ ca_nonce (ca_merge x y) !! i = match ca_nonce y !! i with Some v => Some v | None => ca_nonce x !! i end
  ∧ ca_code (ca_merge x y) !! i = match ca_code y !! i with Some v => Some v | None => ca_code x !! i end.
Proof. exact ca_merge_fields. Qed.
Print Assumptions C15_merge_fields.

Theorem C15_merge_writes : ∀ x y k,
  ca_writes (ca_merge x y) !! k =
    match ca_writes y !! k, ca_writes x !! k with
    | Some w, Some ex => Some (w ∪ ex)
    | Some w, None => Some w
    | None, o => o
    end
  ∧ (k ∈ ca_reads (ca_merge x y) ↔
       (k ∈ ca_reads x ∧ ca_writes y !! k = None) ∨ (k ∈ ca_reads y ∧ ca_writes (ca_merge x y) !! k = None)).
Proof. exact ca_merge_writes. Qed.
Print Assumptions C15_merge_writes.

(* validate_accepts_constructed: every list built from the empty list by AccountRead,
   StorageRead, finaliseAmsterdam's recording loop with index <= txcount+1 and Merge
   ([constructed]) passes Validate, under the stated size bounds: item count within
   gaslimit / BALItemCost and code within MaxCodeSizeAmsterdam *)
Theorem C15_validate_accepts_constructed : ∀ (code_of : N → list N),
  (∀ c, lenN (code_of c) ≤ max_code_size) →
  ∀ g t (L : cbal),
  constructed (t + 1) L → item_count (to_encoding_obj code_of L) ≤ g / bal_item_cost →
  validate g t (to_encoding_obj code_of L) = 0.
Proof. exact validate_accepts_constructed. Qed.
Print Assumptions C15_validate_accepts_constructed.

(* ... and what the recording StateDB holds and hands out at Finalise is [constructed] *)
Theorem C15_recorder_constructed : ∀ m b o,
  acc_constructed m b → b_idx b ≤ m →
  acc_constructed m (step_b b o).1 ∧ ∀ R, (step_b b o).2 = BFin (Some R) → constructed m R.
Proof. exact step_b_constructed. Qed.
Print Assumptions C15_recorder_constructed.

(* and whatever Validate accepts is strictly ascending at every level *)
Theorem C15_validate_sound : ∀ g t b,
  validate g t b = 0 → Sorted (lt_key aa_addr) b ∧ Forall account_sorted b.
Proof. exact validate_sound. Qed.
Print Assumptions C15_validate_sound.

(* bal_rlp_roundtrip, under the guard "lengths < 2^64" *)
Theorem C15_bal_rlp_roundtrip : ∀ b,
  bal_ok b = true → lenN (encode b) < 2 ^ 64 → decode (encode b) = Ok b.
Proof. exact decode_encode. Qed.
Print Assumptions C15_bal_rlp_roundtrip.

(* hash_stable: the hash of what a receiver decodes is the hash the sender computed, and
   (collision freedom of H on the two encodings) equal hashes mean equal lists *)
Theorem C15_hash_stable : ∀ (H : list N → N) b b',
  bal_ok b = true → lenN (encode b) < 2 ^ 64 → decode (encode b) = Ok b' → hash H b' = hash H b.
Proof. exact hash_roundtrip. Qed.
Print Assumptions C15_hash_stable.

Theorem C15_hash_determines_list : ∀ (H : list N → N) b1 b2,
  (H (encode b1) = H (encode b2) → encode b1 = encode b2) →
  bal_ok b1 = true → bal_ok b2 = true → lenN (encode b1) < 2 ^ 64 →
  hash H b1 = hash H b2 → b1 = b2.
Proof. exact hash_inj. Qed.
Print Assumptions C15_hash_determines_list.

(* non-vacuity: a transaction with a balance change, a slot changed and restored, a slot
   written in a reverted frame, pure reads; its Finalise list is exactly the expected one;
   and a sample list validates, round-trips, and is rejected when reordered / over index *)
Example C15_nonvacuous : sample_history_check = true ∧ sample_check = true.
Proof. split; vm_compute; reflexivity. Qed.
