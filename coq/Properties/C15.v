(* Properties/C15.v — Block access lists record exactly the net state changes.
   Models: State/Bal.v (recording layer over the C13 StateDB model State/Journal.v:
   AccountRead / StorageRead / StorageWrite / Balance-, Nonce-, CodeChange, Merge,
   ToEncodingObj) and State/BalEnc.v (BlockAccessList: Validate, RLP, Hash).

   FULL STATEMENT of the first clause (bal_net_changes; NOT proved in this closed form,
   checked on every run by the correspondence and by the Go-side dump-diff oracle):
     for every block history, the list returned by Finalise for transaction i holds, for
     every address a, BalanceChange/NonceChange/CodeChange(i, end value) iff the getter
     value of a differs between the start and the end of transaction i; StorageWrite
     (a,k,i,end value) iff GetState(a,k) differs; reads = touched slots minus written slots.
   What IS proved (kernel-checked, for ALL transaction bodies: any sequence of journalled
   calls, getters, Snapshots and RevertToSnapshots to any live id, nested to any depth):
   * C15_stash_invariant — the C13 stash invariant: at every point of a transaction,
     each stash of journal.mutations holds the pre-transaction value of its field when set,
     and an unset stash means the field has its pre-transaction value; no journal entry for
     an address means its object is unchanged and has no dirty storage.  This is what makes
     reverted changes and A->B->A invisible.
   * C15_bal_net_changes_partial — with that invariant, finaliseAmsterdam's loop records for
     an address BalanceChange/NonceChange/CodeChange(index, v) iff the value v the account has
     after the finalisation step (deleted = 0) differs from its pre-transaction value — in all
     four finalisation branches (kept, EIP-158 deletion, self-destruct with and without
     balance) — and leaves every other address of the list untouched.
   * C15_bal_restore_not_recorded / C15_finalise_writes — a slot is in dirtyStorage at the
     end of the body iff its value differs from the value at the start of the transaction;
     stateObject.finalise records exactly the dirty slots as writes and removes exactly those
     from the reads.
   MISSING for the closed form: the lookup of the finalised state objects (map_imap in
   Journal.finalise) that identifies "value after the finalisation step" with the getters of
   the next state, the storage clause for deleted / self-destructed accounts (needs the
   blank-storage guard), the reads clause as "touched minus written", and the RIPEMD-160
   sticky touch (excluded by [body_ok], as in C13).
   The remaining clauses (sorted, duplicate-free, Validate, RLP round trip, hash) are full. *)
From stdpp Require Import gmap sorting.
From GV Require Import Lib.Bytes Rlp.Item State.Ref State.Journal State.JournalProofs State.BalEnc State.BalEncProofs State.Bal State.BalProofs.
Local Open Scope N_scope.

(* a fresh StateDB is at a transaction boundary *)
Theorem C15_tx_boundary_init : ∀ db, tx_boundary (init_j db).
Proof. exact tx_boundary_init. Qed.
Print Assumptions C15_tx_boundary_init.

(* bal_ignores_reverted, as an invariant: for every transaction body (journalled calls,
   getters, Snapshot, RevertToSnapshot in any nesting) started at a transaction boundary s0,
   the stash invariant Q and the well-formedness of journal.mutations hold at the end *)
Theorem C15_stash_invariant : ∀ s0 b ops,
  tx_boundary s0 → core_eq (b_j b) s0 → body_ok b ops →
  Q s0 (b_j (run_b b ops)) ∧ wfc (b_j (run_b b ops)).
Proof. exact stash_invariant. Qed.
Print Assumptions C15_stash_invariant.

(* the account-field part of bal_net_changes, at the level of finaliseAmsterdam's loop *)
Theorem C15_bal_net_changes_partial : ∀ s0 b ops r idx L a,
  tx_boundary s0 → core_eq (b_j b) s0 → body_ok b ops → rAms r = true →
  let j := b_j (run_b b ops) in
  (∀ o, j_objs j !! a = Some o → sd_guard s0 j a o) →
  let R := fin_bal r idx j L in
  match j_muts j !! a, j_objs j !! a with
  | Some m, Some o =>
      let d := match fin_obj r o with Some o' => o_data o' | None => acct0 end in
      obal (R !! a) = upd_if idx (a_bal d) (a_bal (pre_data s0 a)) (obal (L !! a))
      ∧ ononce (R !! a) = upd_if idx (a_nonce d) (a_nonce (pre_data s0 a)) (ononce (L !! a))
      ∧ ocode (R !! a) = upd_if idx (a_code d) (a_code (pre_data s0 a)) (ocode (L !! a))
  | _, _ => R !! a = L !! a
  end.
Proof. exact net_changes_fields. Qed.
Print Assumptions C15_bal_net_changes_partial.

(* bal_restore_not_recorded (storage): after any body, a slot is dirty — and hence written
   by stateObject.finalise — iff its current value differs from its pre-transaction value *)
Theorem C15_bal_restore_not_recorded : ∀ s0 b ops a o k v,
  tx_boundary s0 → core_eq (b_j b) s0 → body_ok b ops →
  let j := b_j (run_b b ops) in
  j_objs j !! a = Some o →
  (o_dirty o !! k = Some v ↔ view_state j a k = v ∧ v ≠ view_state s0 a k).
Proof. exact storage_net_writes. Qed.
Print Assumptions C15_bal_restore_not_recorded.

Theorem C15_finalise_writes : ∀ idx dirty oc k,
  owrites (fin_writes idx dirty oc) !! k =
    match dirty !! k with
    | Some v => Some (<[idx := v]> (default ∅ (owrites oc !! k)))
    | None => owrites oc !! k
    end
  ∧ oreads (fin_writes idx dirty oc) = oreads oc ∖ dom dirty.
Proof. exact fin_writes_spec. Qed.
Print Assumptions C15_finalise_writes.

(* encoding_sorted_unique: ToEncodingObj of ANY construction list is strictly ascending
   (hence duplicate-free) in addresses, slots, write indices, reads and change indices *)
Theorem C15_encoding_sorted_unique : ∀ code_of (L : cbal),
  StronglySorted (ltk aa_addr) (to_encoding_obj code_of L)
  ∧ Forall (λ e, StronglySorted (ltk fst) (aa_changes e)
                 ∧ Forall (λ sc, StronglySorted (ltk fst) (snd sc)) (aa_changes e)
                 ∧ StronglySorted N.lt (aa_reads e)
                 ∧ StronglySorted (ltk fst) (aa_bal e) ∧ StronglySorted (ltk fst) (aa_nonce e)
                 ∧ StronglySorted (ltk fst) (aa_code e)) (to_encoding_obj code_of L).
Proof. exact to_encoding_sorted. Qed.
Print Assumptions C15_encoding_sorted_unique.

(* validate_accepts_constructed, PARTIAL: Validate returns nil on every list that is
   strictly ascending at every level, has no empty slot-change list, reads disjoint from
   written slots, indices <= txcount+1, code <= 65536 bytes and item count within
   gaslimit/2000 ([bal_valid]); that ToEncodingObj output satisfies the ORDER components is
   C15_encoding_sorted_unique; the remaining components (non-empty write lists, disjointness,
   bounds) for constructed lists are checked by the correspondence only *)
Theorem C15_validate_accepts_constructed_partial : ∀ g t b, bal_valid g t b → validate g t b = 0.
Proof. exact validate_ok. Qed.
Print Assumptions C15_validate_accepts_constructed_partial.

(* and whatever Validate accepts is strictly ascending at every level *)
Theorem C15_validate_sound : ∀ g t b,
  validate g t b = 0 → Sorted (lt_key aa_addr) b ∧ Forall account_sorted b.
Proof. exact validate_sound. Qed.
Print Assumptions C15_validate_sound.

(* bal_rlp_roundtrip, under the guard "lengths < 2^64" *)
Theorem C15_bal_rlp_roundtrip : ∀ b,
  bal_ok b = true → lenN (encode b) < 2 ^ 64 → decode (encode b) = Ok b.
Proof. exact decode_encode. Qed.
Print Assumptions C15_bal_rlp_roundtrip.

(* hash_stable: the hash of what a receiver decodes is the hash the sender computed, and
   (collision freedom of H on the two encodings) equal hashes mean equal lists *)
Theorem C15_hash_stable : ∀ (H : list N → N) b b',
  bal_ok b = true → lenN (encode b) < 2 ^ 64 → decode (encode b) = Ok b' → hash H b' = hash H b.
Proof. exact hash_roundtrip. Qed.
Print Assumptions C15_hash_stable.

Theorem C15_hash_determines_list : ∀ (H : list N → N) b1 b2,
  (H (encode b1) = H (encode b2) → encode b1 = encode b2) →
  bal_ok b1 = true → bal_ok b2 = true → lenN (encode b1) < 2 ^ 64 →
  hash H b1 = hash H b2 → b1 = b2.
Proof. exact hash_inj. Qed.
Print Assumptions C15_hash_determines_list.

(* non-vacuity: a transaction with a balance change, a slot changed and restored, a slot
   written in a reverted frame, pure reads; its Finalise list is exactly the expected one;
   and a sample list validates, round-trips, and is rejected when reordered / over index *)
Example C15_nonvacuous : sample_history_check = true ∧ sample_check = true.
Proof. split; vm_compute; reflexivity. Qed.
