(* Properties/C12.v — Trie synchronisation completes with exactly the target nodes.

   Model: Trie/Sync.v (trie.Sync, the account callback of state.NewStateSync and the
   snap heal delivery path).  H is the node/code hash (Keccak-256 in the Run closure);
   every theorem is for all H.

   PROVED IN FULL (all states / all histories of the model):
     C12_deliver_rejects_mismatch, C12_deliver_code_rejects_mismatch
     C12_response_with_unrequested_blob_rejected (trie nodes and byte codes)
     C12_response_is_deliveries
     C12_duplicates_unchanged, C12_duplicate_codes_unchanged
     C12_never_stores_mismatch   (invariant over all histories, both schemes)

   ROUND 2 (HASH scheme; T = the serving side's node blobs by hash, CD its codes,
   RN/RC = nodes_of / codes_of the target, reachable from the root through the account
   leaves; db0 = the destination at NewSync):
     C12_sync_minimal   FULL (hash scheme, with the account callback, all histories of
                        Missing / node deliveries / code deliveries / Commits): every
                        pending request, everything Missing returns, every membatch
                        write and every database entry that is not initial content is
                        a node / code of the target, and nothing requested was present
                        in db0.
     C12_sync_complete_partial   PARTIAL: completeness for a sync WITHOUT leaf callback
                        (one trie, e.g. a storage trie): after any history of Missing
                        and node deliveries (any order, duplicates, corrupted blobs)
                        that leaves no request pending, Commit leaves every node of the
                        target in the store.  Proved through the invariant Inv =
                        invE None /\ slack zero /\ reqT of Trie/SyncComplete.v (every
                        request's parent is pending and delivered; deps >= number of
                        pending children; a delivered request's children are available
                        or pending under it; membatch ∪ store closed under children).
   ROUND 4: C12_sync_complete  FULL for the HASH scheme with the account callback, all
     histories incl. code deliveries and intermediate Commits: completeness AND exactness
     (see the theorem). Supersedes C12_sync_complete_partial.
   ROUND 3: C12_nothing_lost  FULL (both schemes, with callback, every per-depth bound,
     all histories): no pending request ever leaves the queue without being handed out.
   ROUND 4c: C12_sync_sound_any_scheme  FULL, BOTH schemes: requests, writes, DELETIONS
     (stale / dangling nodes only) and database entries are the target's.
   ROUND 4b: C12_never_stuck  FULL (hash scheme, with callback): no deadlock.
   NOT PROVED: a bound on the number of deliveries (termination proper: reaching
     Pending() = 0 stays a hypothesis of C12_sync_complete; Commit succeeding is
     C12_commit_succeeds), the multi-trie (account + storage) version of the nodes_of bridge,
     a quantitative sync_progress measure, and completeness in the PATH scheme over a
     destination with STALE nodes (C12_sync_complete_path_partial covers destinations
     without stale nodes) (needs
     the prefix argument that deletions never hit a completed subtree). *)
From GV Require Import Trie.Node Trie.Hash Storage.KV Trie.Sync Trie.SyncProofs Trie.SyncInv Trie.SyncComplete Trie.SyncQueue Trie.SyncCallback Trie.SyncLive Trie.SyncPath Trie.ProofProofs Trie.GenerateNodes Trie.SyncNodesOf Trie.SyncPathComplete.

(* the delivery composition (hash check, then ProcessNode) rejects a blob whose hash
   differs from the requested one and changes nothing *)
Theorem C12_deliver_rejects_mismatch :
  forall (H : list N -> list N) (s : sync) (path h blob : list N),
    H blob <> h -> deliver_node H s path h blob = (s, RRejected).
Proof. exact deliver_node_rejects. Qed.
Print Assumptions C12_deliver_rejects_mismatch.

Theorem C12_deliver_code_rejects_mismatch :
  forall (H : list N -> list N) (s : sync) (h blob : list N),
    H blob <> h -> deliver_code H s h blob = (s, RRejected).
Proof. exact deliver_code_rejects. Qed.
Print Assumptions C12_deliver_code_rejects_mismatch.

(* OnTrieNodes / onHealByteCodes: one blob whose hash is not among the requested
   hashes makes the whole response be rejected, scheduler and database unchanged *)
Theorem C12_response_with_unrequested_blob_rejected :
  forall (H : list N -> list N) (s : sync) (paths hashes blobs : list (list N)) (b : list N),
    In b blobs -> ~ In (H b) hashes ->
    on_trie_nodes H s paths hashes blobs = (s, DUnexpected) /\
    on_byte_codes H s hashes blobs = (s, DUnexpected).
Proof.
  intros. split; [eapply on_trie_nodes_rejects|eapply on_byte_codes_rejects]; eauto.
Qed.
Print Assumptions C12_response_with_unrequested_blob_rejected.

(* a validated response: every filled slot holds a blob with exactly the hash requested
   for that slot, and processing it is the sequence of deliver_node calls slot by slot,
   followed by commitHealer *)
Theorem C12_response_is_deliveries :
  forall (H : list N -> list N) (s : sync) (paths hashes blobs : list (list N))
         (nodes : list (option (list N))),
    length paths = length hashes -> blobs <> [] ->
    match_fill H hashes blobs = Some nodes ->
    Forall2 (fun h o => match o with Some b => H b = h | None => True end) hashes nodes /\
    on_trie_nodes H s paths hashes blobs =
      match heal_deliver H s paths hashes nodes dstat0 with
      | (s1, d, true) => (s1, DPanicked d)
      | (s1, d, false) =>
          match commit_healer s1 with
          | Some s2 => (s2, DDone d)
          | None => (s1, DCommitFailed d)
          end
      end.
Proof. exact on_trie_nodes_is_deliveries. Qed.
Print Assumptions C12_response_is_deliveries.

(* duplicates and unrequested deliveries: state unchanged, class NotRequested /
   AlreadyProcessed (or Rejected when the hash check already fails) *)
Theorem C12_duplicates_unchanged :
  forall (H : list N -> list N) (s : sync) (path h blob : list N),
    (aget path (nreqs s) = None \/
     exists r d, aget path (nreqs s) = Some r /\ nr_data r = Some d) ->
    fst (deliver_node H s path h blob) = s /\
    In (snd (deliver_node H s path h blob)) [RNotRequested; RAlreadyProcessed; RRejected].
Proof. exact deliver_node_dup. Qed.
Print Assumptions C12_duplicates_unchanged.

Theorem C12_duplicate_codes_unchanged :
  forall (H : list N -> list N) (s : sync) (h blob : list N),
    (aget h (creqs s) = None \/
     exists r d, aget h (creqs s) = Some r /\ cr_data r = Some d) ->
    fst (deliver_code H s h blob) = s /\
    In (snd (deliver_code H s h blob)) [RNotRequested; RAlreadyProcessed; RRejected].
Proof. exact deliver_code_dup. Qed.
Print Assumptions C12_duplicate_codes_unchanged.

(* ALL HISTORIES.  From NewSync over any database, after any sequence of Missing(k),
   node deliveries (checked against the hash of the request they answer: run_wf),
   code deliveries and Commits, in either scheme:
   - the blob cached in every pending request has the request's hash,
   - every membatch node write (blob, hash) has H blob = hash (or an empty blob, which
     Commit refuses), every membatch code is filed under its hash,
   - hash scheme: if every 32-byte key of the initial database was the hash of its
     value, this still holds of the database after every Commit. *)
Theorem C12_never_stores_mismatch :
  forall (H : list N -> list N) (sc : bool) (db : kv) (root : list N) (cb : cbkind) (ops : list op),
    (forall b, length (H b) = 32%nat) ->
    (sc = false -> keyed H db) ->
    let s0 := match new_sync H sc db root cb with inl x => x | inr x => x end in
    run_wf H s0 ops ->
    hash_ok H sc (run H s0 ops).
Proof.
  intros H sc db root cb ops Hlen Hk s0 Hw.
  apply hash_ok_run; [exact Hlen|exact Hw|]. apply hash_ok_new_sync. exact Hk.
Qed.
Print Assumptions C12_never_stores_mismatch.

(* everything requested / buffered / stored is a target node or code not present before *)
Theorem C12_sync_minimal :
  forall (H : list N -> list N) (T CD : list N -> option (list N)) (root : list N) (cb0 : cbkind)
         (db0 : kv) (ops : list op),
    (* the destination agrees with the target where they overlap (keyed by hash, no collision) *)
    (forall k v, get k db0 = Some v ->
       (forall b, RNh H T root cb0 k -> T k = Some b -> v = b) /\
       (forall h c, k = code_key h -> RC H T root cb0 h -> CD h = Some c -> v = c)) ->
    let s0 := unsum (new_sync H false db0 root cb0) in
    (* deliveries are checked against the request's hash; a blob passing the check is the target's *)
    run_wf3 H T CD s0 ops ->
    sound H T CD root cb0 db0 (run H s0 ops) /\
    forall k, let '(s', ns, cs) := missing (run H s0 ops) k in
      ns_ok H T root cb0 db0 ns /\ cs_ok H T root cb0 db0 cs.
Proof.
  intros H T CD root cb0 db0 ops Ha s0 W.
  assert (S : sound H T CD root cb0 db0 (run H s0 ops)).
  { apply sound_run; [exact Ha|exact W|apply sound_new_sync]. }
  split; [exact S|]. intros k. pose proof (sound_missing H T CD root cb0 db0 _ k S) as X.
  destruct (missing (run H s0 ops) k) as [[s1 ns] cs]. apply X.
Qed.
Print Assumptions C12_sync_minimal.

(* completeness, hash scheme, sync without leaf callback *)
Theorem C12_sync_complete_partial :
  forall (H : list N -> list N) (T CD : list N -> option (list N)) (root : list N) (db0 : kv)
         (ops : list op2) (s' : sync),
    closed0 H T root CbNone db0 ->
    let s0 := unsum (new_sync H false db0 root CbNone) in
    run2_wf H T s0 ops ->
    nreqs (run2 H s0 ops) = [] -> commit (run2 H s0 ops) = Some s' ->
    forall p h cb, RN H T root CbNone p h cb -> has h (sc_db s') = true.
Proof. exact sync_complete_nocallback. Qed.
Print Assumptions C12_sync_complete_partial.

(* COMPLETENESS AND EXACTNESS, HASH scheme, WITH the account callback (storage tries
   and codes scheduled as children of the node holding the account leaf; deps counters;
   children committed before parents), over ALL histories of Missing(k) / node deliveries
   / code deliveries / Commit (run_wf4: a delivered node is checked against the hash of
   the request it answers and a blob passing the check is the serving side's blob for
   that hash; a code passing the check is the serving side's code; ProcessNode did not
   report a callback error, a Go panic or the model's representation limit).
   Hypotheses on the target (T = node blobs by hash, CD = codes by hash, RN / RC =
   nodes_of / codes_of the target, reachable from the root through the account leaves):
   a hash is not both an account-trie and a storage-trie node; no node hash is 32 zero
   bytes; node hashes have 32 bytes; the destination db0 agrees with the target where
   they overlap and is closed under children (closedA).
   Then, when Pending() = 0, the database after Commit
     - contains every node of the target under its hash,
     - contains every code of the target under its code key,
     - and contains NOTHING ELSE beyond its initial content: every entry is an initial
       entry, or (hash, blob) of a target node, or (code key, code) of a target code. *)
Theorem C12_sync_complete :
  forall (H : list N -> list N) (T CD : list N -> option (list N)) (root : list N) (cb0 : cbkind)
         (db0 : kv),
    (forall p h cb p' cb', RN H T root cb0 p h cb -> RN H T root cb0 p' h cb' -> cb = cb') ->
    (forall p h cb, RN H T root cb0 p h cb -> h <> zero32) ->
    (forall p h cb, RN H T root cb0 p h cb -> length h = 32%nat) ->
    (forall k v, get k db0 = Some v ->
       (forall b, RNh H T root cb0 k -> T k = Some b -> v = b) /\
       (forall h c, k = code_key h -> RC H T root cb0 h -> CD h = Some c -> v = c)) ->
    forall (ops : list op) (s' : sync),
    closedA H T root cb0 db0 ->
    let s0 := unsum (new_sync H false db0 root cb0) in
    run_wf4 H T CD s0 ops ->
    pending (run H s0 ops) = O ->
    commit (run H s0 ops) = Some s' ->
    (forall p h cb, RN H T root cb0 p h cb -> has h (sc_db s') = true) /\
    (forall c, RC H T root cb0 c -> has (code_key c) (sc_db s') = true) /\
    (forall k v, get k (sc_db s') = Some v ->
       get k db0 = Some v \/ (RNh H T root cb0 k /\ T k = Some v) \/
       (exists h, k = code_key h /\ RC H T root cb0 h /\ CD h = Some v)).
Proof. exact sync_complete_callback. Qed.
Print Assumptions C12_sync_complete.

(* THE TARGET'S NODE SET IS c11/c07's [nodes_of].  For an expanded trie t (pwf: the
   well-formedness of C08) whose encodings the serving side serves, every (path, encoding)
   of the canonical node set [nodes_of H [] t] (C11_..., C07_store_is_nodes_of) is a node
   of the sync target RN of the theorems above (nodes_of_in_RN, by decode(encode n) =
   collapse n of C08 and "an embedded node contains no stored node"); hence, for the sync
   of one trie in the hash scheme: when Pending() = 0, after Commit every node of
   nodes_of H [] t is in the store under its hash. *)
Theorem C12_sync_complete_nodes_of :
  forall (H : list N -> list N), (forall x, length (H x) = 32%nat) ->
  forall (T CD : list N -> option (list N)) (db0 : kv) (t : node) (et : list N) (ops : list op) (s' : sync),
    pwf t -> node_enc H t = Some et -> H et <> empty_root H ->
    (forall q e, In (q, e) (nodes_of H [] t) -> T (H e) = Some e) ->
    (forall p h cb, RN H T (H et) CbNone p h cb -> h <> zero32) ->
    (forall p h cb, RN H T (H et) CbNone p h cb -> length h = 32%nat) ->
    (forall k v, get k db0 = Some v ->
       (forall b, RNh H T (H et) CbNone k -> T k = Some b -> v = b) /\
       (forall h c, k = code_key h -> RC H T (H et) CbNone h -> CD h = Some c -> v = c)) ->
    closedA H T (H et) CbNone db0 ->
    let s0 := unsum (new_sync H false db0 (H et) CbNone) in
    run_wf4 H T CD s0 ops ->
    pending (run H s0 ops) = O -> commit (run H s0 ops) = Some s' ->
    forall q e, In (q, e) (nodes_of H [] t) -> has (H e) (sc_db s') = true.
Proof. exact sync_complete_nodes_of. Qed.
Print Assumptions C12_sync_complete_nodes_of.

(* ORDER IRRELEVANCE (hash scheme, with the account callback): any two histories (any
   delivery order, batching, duplication, corrupted blobs, intermediate Commits) that
   reach Pending() = 0 leave the same store after Commit, key by key *)
Theorem C12_sync_order_irrelevant :
  forall (H : list N -> list N) (T CD : list N -> option (list N)) (root : list N) (cb0 : cbkind)
         (db0 : kv),
    (forall p h cb p' cb', RN H T root cb0 p h cb -> RN H T root cb0 p' h cb' -> cb = cb') ->
    (forall p h cb, RN H T root cb0 p h cb -> h <> zero32) ->
    (forall p h cb, RN H T root cb0 p h cb -> length h = 32%nat) ->
    (forall k v, get k db0 = Some v ->
       (forall b, RNh H T root cb0 k -> T k = Some b -> v = b) /\
       (forall h c, k = code_key h -> RC H T root cb0 h -> CD h = Some c -> v = c)) ->
    forall (ops1 ops2 : list op) (s1' s2' : sync),
    closedA H T root cb0 db0 ->
    let s0 := unsum (new_sync H false db0 root cb0) in
    run_wf4 H T CD s0 ops1 -> pending (run H s0 ops1) = O -> commit (run H s0 ops1) = Some s1' ->
    run_wf4 H T CD s0 ops2 -> pending (run H s0 ops2) = O -> commit (run H s0 ops2) = Some s2' ->
    forall k, get k (sc_db s1') = get k (sc_db s2').
Proof. exact sync_order_irrelevant. Qed.
Print Assumptions C12_sync_order_irrelevant.

(* deps = number of pending children, after any history (hash scheme, with callback):
   node requests whose parent it is, plus its occurrences among the parents of the
   pending code requests *)
Theorem C12_deps_exact :
  forall (H : list N -> list N) (T CD : list N -> option (list N)) (root : list N) (cb0 : cbkind)
         (db0 : kv),
    (forall p h cb p' cb', RN H T root cb0 p h cb -> RN H T root cb0 p' h cb' -> cb = cb') ->
    (forall p h cb, RN H T root cb0 p h cb -> h <> zero32) ->
    (forall p h cb, RN H T root cb0 p h cb -> length h = 32%nat) ->
    (forall k v, get k db0 = Some v ->
       (forall b, RNh H T root cb0 k -> T k = Some b -> v = b) /\
       (forall h c, k = code_key h -> RC H T root cb0 h -> CD h = Some c -> v = c)) ->
    forall ops : list op,
    closedA H T root cb0 db0 ->
    let s0 := unsum (new_sync H false db0 root cb0) in
    run_wf5 H T CD s0 ops ->
    forall p r, aget p (nreqs (run H s0 ops)) = Some r ->
      nr_deps r = BinInt.Z.of_nat (cntn p (nreqs (run H s0 ops)) + cntc p (creqs (run H s0 ops))).
Proof. exact deps_exact. Qed.
Print Assumptions C12_deps_exact.

(* ... and conversely (RN_in_nodes_of: every target node is in nodes_of): whatever a
   finished sync of one trie ADDED to the store is (H e, e) for a node (q, e) of
   nodes_of H [] t - the store is the initial content plus exactly the canonical node set *)
Theorem C12_sync_exact_nodes_of :
  forall (H : list N -> list N), (forall x, length (H x) = 32%nat) ->
  forall (T CD : list N -> option (list N)) (db0 : kv) (t : node) (et : list N) (ops : list op) (s' : sync),
    pwf t -> node_enc H t = Some et -> H et <> empty_root H ->
    (forall q e, In (q, e) (nodes_of H [] t) -> T (H e) = Some e) ->
    (forall p h cb, RN H T (H et) CbNone p h cb -> h <> zero32) ->
    (forall p h cb, RN H T (H et) CbNone p h cb -> length h = 32%nat) ->
    (forall k v, get k db0 = Some v ->
       (forall b, RNh H T (H et) CbNone k -> T k = Some b -> v = b) /\
       (forall h c, k = code_key h -> RC H T (H et) CbNone h -> CD h = Some c -> v = c)) ->
    closedA H T (H et) CbNone db0 ->
    let s0 := unsum (new_sync H false db0 (H et) CbNone) in
    run_wf4 H T CD s0 ops ->
    pending (run H s0 ops) = O -> commit (run H s0 ops) = Some s' ->
    forall k v, get k (sc_db s') = Some v ->
      get k db0 = Some v \/ exists q, In (q, v) (nodes_of H [] t) /\ k = H v.
Proof. exact sync_exact_nodes_of. Qed.
Print Assumptions C12_sync_exact_nodes_of.

(* Commit never fails on a reachable state (hash scheme, same hypotheses as
   C12_sync_complete): the hypothesis "commit = Some s'" of C12_sync_complete is always met *)
Theorem C12_commit_succeeds :
  forall (H : list N -> list N) (T CD : list N -> option (list N)) (root : list N) (cb0 : cbkind)
         (db0 : kv),
    (forall p h cb p' cb', RN H T root cb0 p h cb -> RN H T root cb0 p' h cb' -> cb = cb') ->
    (forall p h cb, RN H T root cb0 p h cb -> h <> zero32) ->
    (forall p h cb, RN H T root cb0 p h cb -> length h = 32%nat) ->
    (forall k v, get k db0 = Some v ->
       (forall b, RNh H T root cb0 k -> T k = Some b -> v = b) /\
       (forall h c, k = code_key h -> RC H T root cb0 h -> CD h = Some c -> v = c)) ->
    forall ops : list op,
    closedA H T root cb0 db0 ->
    let s0 := unsum (new_sync H false db0 root cb0) in
    run_wf4 H T CD s0 ops -> exists s', commit (run H s0 ops) = Some s'.
Proof. exact commit_succeeds. Qed.
Print Assumptions C12_commit_succeeds.

(* SOUNDNESS IN EITHER SCHEME (ps = true: PATH scheme, with its deletions), with the
   account callback, all histories of Missing / node deliveries / code deliveries /
   Commit (run_wf3: deliveries are hash-checked and a blob passing the check is the
   serving side's).  soundP says: every pending request is a node of the target (and the
   blob cached in it the target's blob), every code request / queued code a code of the
   target; every membatch WRITE puts the blob of a target node at that node's own
   (owner, path); every membatch DELETION is either at the (owner, path) of a target node
   (a stale node with another hash stored there) or at a path strictly inside the key of
   a target short node over a hash child (a dangling node): nothing else is ever
   deleted; and every database entry is initial content, or a target node's blob under
   that node's key (path scheme: "A"/"O" + path; hash scheme: its hash), or a target
   code.  Everything Missing returns is a target node / code. *)
Theorem C12_sync_sound_any_scheme :
  forall (H : list N -> list N) (T CD : list N -> option (list N)) (root : list N) (cb0 : cbkind)
         (db0 : kv) (ps : bool) (ops : list op),
    let s0 := unsum (new_sync H ps db0 root cb0) in
    run_wf3 H T CD s0 ops ->
    soundP H T CD root cb0 db0 ps (run H s0 ops) /\
    forall k, let '(s', ns, cs) := missing (run H s0 ops) k in
      nsP_ok H T root cb0 ns /\ csP_ok H T root cb0 cs.
Proof. exact sync_sound_any_scheme. Qed.
Print Assumptions C12_sync_sound_any_scheme.

(* COMPLETENESS IN THE PATH SCHEME, with the account callback, all histories of Missing /
   node deliveries / code deliveries / Commit (run_wf4), availability keyed by
   (owner, path).  Hypotheses:
   - the target's paths form a tree of locations: one node per (owner, path) location
     (LOC: two target nodes resolving to the same location are the same path, hash and
     kind), and no target node lies strictly inside the key of a target short node over
     a hash child (NSPAN);
   - the serving side's database is keyed by hash; no target hash is H "" or 32 zero bytes;
   - the destination holds NO STALE NODE: every trie node stored in it is a target node
     at its own location with the target's bytes (it may hold any correct partial copy,
     closed under children: closedP).
   Then: NO DELETION IS EVER ISSUED (the inconsistent-node and the dangling-node tests of
   Sync.children / AddSubTrie never fire), and when Pending() = 0, after Commit every
   target node is stored at its own (owner, path) key with the serving side's bytes, every
   target code under its code key, and every entry of the store is initial content, a
   target node at its own key, or a target code (composition with
   C12_sync_sound_any_scheme).
   This is the part of the path-scheme property "_partial" in the sense of the guide: a
   destination holding STALE nodes (where the scheduler does issue deletions) is covered
   by C12_sync_sound_any_scheme (the deletions hit only stale / dangling locations) but
   completeness is not proved there. *)
Theorem C12_sync_complete_path_partial :
  forall (H : list N -> list N) (T CD : list N -> option (list N)) (root : list N) (cb0 : cbkind)
         (db0 : kv),
    (forall q h cb q' h' cb' o i, RN H T root cb0 q h cb -> RN H T root cb0 q' h' cb' ->
       resolve_path q = Some (o, i) -> resolve_path q' = Some (o, i) -> q = q' /\ h = h' /\ cb = cb') ->
    (forall o p h, dangling_at H T root cb0 o p -> ~ tnode_at H T root cb0 o p h) ->
    (forall h b, T h = Some b -> H b = h) ->
    (forall p h cb, RN H T root cb0 p h cb -> h <> H []) ->
    (forall p h cb, RN H T root cb0 p h cb -> h <> zero32) ->
    (forall o i v, get (node_key o i) db0 = Some v -> exists h, tnode_at H T root cb0 o i h /\ T h = Some v) ->
    forall (ops : list op) (s' : sync),
    closedP H T root cb0 db0 ->
    let s0 := unsum (new_sync H true db0 root cb0) in
    run_wf4 H T CD s0 ops ->
    pending (run H s0 ops) = O ->
    commit (run H s0 ops) = Some s' ->
    (forall p h cb, RN H T root cb0 p h cb ->
       exists o i b, resolve_path p = Some (o, i) /\ get (node_key o i) (sc_db s') = Some b /\ T h = Some b) /\
    (forall c, RC H T root cb0 c -> has (code_key c) (sc_db s') = true) /\
    (forall k v, get k (sc_db s') = Some v -> entry_ok H T CD root cb0 db0 true k v) /\
    (forall o p, ~ In (OpDel o p) (mb_nodes (run H s0 ops))).
Proof. exact sync_complete_path. Qed.
Print Assumptions C12_sync_complete_path_partial.

(* non-vacuity of C12_sync_complete_path_partial: the branch with three leaves, toy hash,
   empty destination, PATH scheme: every hypothesis holds, the history of
   C12_complete_nonvacuous ends with Pending() = 0 and Commit stores the 4 nodes *)
Example C12_path_nonvacuous :
  (forall q h cb q' h' cb' o i, RN toyH ex_T q_root CbNone q h cb -> RN toyH ex_T q_root CbNone q' h' cb' ->
     resolve_path q = Some (o, i) -> resolve_path q' = Some (o, i) -> q = q' /\ h = h' /\ cb = cb') /\
  (forall o p h, dangling_at toyH ex_T q_root CbNone o p -> ~ tnode_at toyH ex_T q_root CbNone o p h) /\
  (forall h b, ex_T h = Some b -> toyH b = h) /\
  (forall p h cb, RN toyH ex_T q_root CbNone p h cb -> h <> toyH []) /\
  (forall p h cb, RN toyH ex_T q_root CbNone p h cb -> h <> zero32) /\
  (forall o i v, get (node_key o i) [] = Some v -> exists h, tnode_at toyH ex_T q_root CbNone o i h /\ ex_T h = Some v) /\
  closedP toyH ex_T q_root CbNone [] /\
  run_wf4 toyH ex_T ex_CD ex5_s0 ex4_ops /\
  pending (run toyH ex5_s0 ex4_ops) = O /\
  (exists s', commit (run toyH ex5_s0 ex4_ops) = Some s' /\ length (sc_db s') = 4%nat).
Proof. exact ex5_hyps. Qed.

(* LIVENESS, HASH scheme with the account callback: the scheduler never gets stuck.
   After any history (run_wf5 = run_wf4 + a code passing the hash check is processed
   without panic) of Missing / node deliveries / code deliveries / Commit from NewSync,
   as long as Pending() > 0 there is an UNDELIVERED node request or a code request, and it
   is in the priority queue (the next Missing calls hand it out) or was already handed
   out by a Missing call (second component of run3 = everything Missing returned).
   Proved from: deps <= and >= the number of pending children, every delivered pending
   request has deps > 0, parents have strictly shorter paths than their children
   (Trie/SyncLive.v [live]), and the queue invariant of C12_nothing_lost.
   With C12_sync_complete: a run in which every handed-out item is eventually delivered
   and Missing is called again can only stop at Pending() = 0, where the store holds
   exactly the target.  (A bound on the number of deliveries is not formalised.) *)
Theorem C12_never_stuck :
  forall (H : list N -> list N) (T CD : list N -> option (list N)) (root : list N) (cb0 : cbkind)
         (db0 : kv),
    (forall p h cb p' cb', RN H T root cb0 p h cb -> RN H T root cb0 p' h cb' -> cb = cb') ->
    (forall p h cb, RN H T root cb0 p h cb -> h <> zero32) ->
    (forall p h cb, RN H T root cb0 p h cb -> length h = 32%nat) ->
    (forall k v, get k db0 = Some v ->
       (forall b, RNh H T root cb0 k -> T k = Some b -> v = b) /\
       (forall h c, k = code_key h -> RC H T root cb0 h -> CD h = Some c -> v = c)) ->
    forall ops : list op,
    closedA H T root cb0 db0 ->
    let s0 := unsum (new_sync H false db0 root cb0) in
    run_wf5 H T CD s0 ops ->
    let st := run3 H (s0, []) (map emb ops) in
    pending (fst st) <> O ->
    (exists p r, aget p (nreqs (fst st)) = Some r /\ nr_data r = None /\
                 (In (QNode p) (items (queue (fst st))) \/ In (QNode p) (snd st))) \/
    (exists h c, aget h (creqs (fst st)) = Some c /\
                 (In (QCode h) (items (queue (fst st))) \/ In (QCode h) (snd st))).
Proof. exact sync_never_stuck. Qed.
Print Assumptions C12_never_stuck.

(* non-vacuity of C12_sync_complete: a branch with three leaves under a toy 32-byte hash,
   empty destination; the history (Missing, a corrupted and the honest root delivery,
   Missing(2), a leaf, Commit, Missing, the other leaves with a duplicate) satisfies every
   hypothesis, ends with Pending() = 0, and Commit stores exactly the 4 nodes *)
Example C12_complete_nonvacuous :
  (forall p h cb p' cb', RN toyH ex_T q_root CbNone p h cb -> RN toyH ex_T q_root CbNone p' h cb' -> cb = cb') /\
  (forall p h cb, RN toyH ex_T q_root CbNone p h cb -> h <> zero32) /\
  (forall p h cb, RN toyH ex_T q_root CbNone p h cb -> length h = 32%nat) /\
  (forall k v, get k [] = Some v ->
     (forall b, RNh toyH ex_T q_root CbNone k -> ex_T k = Some b -> v = b) /\
     (forall h c, k = code_key h -> RC toyH ex_T q_root CbNone h -> ex_CD h = Some c -> v = c)) /\
  closedA toyH ex_T q_root CbNone [] /\
  run_wf4 toyH ex_T ex_CD ex4_s0 ex4_ops /\
  pending (run toyH ex4_s0 ex4_ops) = O /\
  (exists s', commit (run toyH ex4_s0 ex4_ops) = Some s' /\ length (sc_db s') = 4%nat).
Proof. exact ex4_hyps. Qed.

(* NOTHING IS LOST FROM THE QUEUE (liveness-relevant, both schemes, with the account
   callback, EVERY per-depth bound).  op3 histories: Missing with an arbitrary bound mfd
   for maxFetchesPerDepth and an arbitrary batch size, node / code deliveries (hash
   check, then ProcessNode / ProcessCode), Commit, in any order.  After any history every
   node request that is still undelivered and every code request is in the priority
   queue or has been handed out by one of the Missing calls (second component of the
   run = everything Missing returned).  The per-depth throttle peeks, and leaves the item
   queued when it stops; a variant that pops first violates this (C12_small_bounds). *)
Theorem C12_nothing_lost :
  forall (H : list N -> list N) (path_scheme : bool) (db : kv) (root : list N) (cb : cbkind)
         (ops : list op3),
    let s0 := match new_sync H path_scheme db root cb with inl x => x | inr x => x end in
    qinv (snd (run3 H (s0, []) ops)) (fst (run3 H (s0, []) ops)).
Proof.
  intros H ps db root cb ops s0. apply qinv_run3. apply qinv_new_sync.
Qed.
Print Assumptions C12_nothing_lost.

(* the model run with small bounds (0, 1: the throttle engages on a branch with three
   leaves; 16384: it does not): the sync completes, 4 nodes stored, the queue invariant
   holds after every Missing; the pop-first variant with bound 0 loses requests: the
   drive ends with 2 requests pending that Missing never returns *)
Example C12_small_bounds : q_check = true /\ q_check_bad = true.
Proof. split; vm_compute; reflexivity. Qed.

(* non-vacuity: a one-leaf trie synced under a 32-byte toy hash: the history (Missing,
   a corrupted delivery, the delivery, a duplicate, Commit) satisfies run_wf, one
   request is pending at the start and none at the end, and the database ends up
   holding exactly the node under its hash *)
Example C12_nonvacuous : ex_check = true /\ (forall b, length (toyH b) = 32%nat).
Proof. split; [vm_compute; reflexivity|exact toyH_len]. Qed.
