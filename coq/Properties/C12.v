(* Properties/C12.v — Trie synchronisation completes with exactly the target nodes.

   Model: Trie/Sync.v (trie.Sync, the account callback of state.NewStateSync and the
   snap heal delivery path).  H is the node/code hash (Keccak-256 in the Run closure);
   every theorem is for all H.

   PROVED IN FULL (all states / all histories of the model):
     C12_deliver_rejects_mismatch, C12_deliver_code_rejects_mismatch
     C12_response_with_unrequested_blob_rejected (trie nodes and byte codes)
     C12_response_is_deliveries
     C12_duplicates_unchanged, C12_duplicate_codes_unchanged
     C12_never_stores_mismatch   (invariant over all histories, both schemes)

   NOT PROVED (stated here, checked only by the correspondence run and the Go oracle):
     Inv            : every request's ancestors are pending, deps = number of pending
                      children, membatch ∪ store closed under children
     sync_progress  : delivering a pending request strictly decreases the number of
                      target nodes neither delivered nor present
     sync_complete  : pending = 0 -> after Commit the store ⊇ nodes_of target ∪ codes and
                      reopening reads every key   (needs Inv; in the path scheme also the
                      prefix argument that deletions never hit a completed subtree)
     sync_minimal   : every requested (path, hash) ∈ nodes_of target ∖ already-present
     sync_order_irrelevant : any two complete delivery orders give the same store
   C12_never_stores_mismatch is the part of the property named "_partial" in the
   sense of the guide: it is the safety half ("a delivered node whose hash does not
   match its request is rejected and never written"), not completeness. *)
From GV Require Import Trie.Node Trie.Hash Storage.KV Trie.Sync Trie.SyncProofs.

(* the delivery composition (hash check, then ProcessNode) rejects a blob whose hash
   differs from the requested one and changes nothing *)
Theorem C12_deliver_rejects_mismatch :
  forall (H : list N -> list N) (s : sync) (path h blob : list N),
    H blob <> h -> deliver_node H s path h blob = (s, RRejected).
Proof. exact deliver_node_rejects. Qed.
Print Assumptions C12_deliver_rejects_mismatch.

Theorem C12_deliver_code_rejects_mismatch :
  forall (H : list N -> list N) (s : sync) (h blob : list N),
    H blob <> h -> deliver_code H s h blob = (s, RRejected).
Proof. exact deliver_code_rejects. Qed.
Print Assumptions C12_deliver_code_rejects_mismatch.

(* OnTrieNodes / onHealByteCodes: one blob whose hash is not among the requested
   hashes makes the whole response be rejected, scheduler and database unchanged *)
Theorem C12_response_with_unrequested_blob_rejected :
  forall (H : list N -> list N) (s : sync) (paths hashes blobs : list (list N)) (b : list N),
    In b blobs -> ~ In (H b) hashes ->
    on_trie_nodes H s paths hashes blobs = (s, DUnexpected) /\
    on_byte_codes H s hashes blobs = (s, DUnexpected).
Proof.
  intros. split; [eapply on_trie_nodes_rejects|eapply on_byte_codes_rejects]; eauto.
Qed.
Print Assumptions C12_response_with_unrequested_blob_rejected.

(* a validated response: every filled slot holds a blob with exactly the hash requested
   for that slot, and processing it is the sequence of deliver_node calls slot by slot,
   followed by commitHealer *)
Theorem C12_response_is_deliveries :
  forall (H : list N -> list N) (s : sync) (paths hashes blobs : list (list N))
         (nodes : list (option (list N))),
    length paths = length hashes -> blobs <> [] ->
    match_fill H hashes blobs = Some nodes ->
    Forall2 (fun h o => match o with Some b => H b = h | None => True end) hashes nodes /\
    on_trie_nodes H s paths hashes blobs =
      match heal_deliver H s paths hashes nodes dstat0 with
      | (s1, d, true) => (s1, DPanicked d)
      | (s1, d, false) =>
          match commit_healer s1 with
          | Some s2 => (s2, DDone d)
          | None => (s1, DCommitFailed d)
          end
      end.
Proof. exact on_trie_nodes_is_deliveries. Qed.
Print Assumptions C12_response_is_deliveries.

(* duplicates and unrequested deliveries: state unchanged, class NotRequested /
   AlreadyProcessed (or Rejected when the hash check already fails) *)
Theorem C12_duplicates_unchanged :
  forall (H : list N -> list N) (s : sync) (path h blob : list N),
    (aget path (nreqs s) = None \/
     exists r d, aget path (nreqs s) = Some r /\ nr_data r = Some d) ->
    fst (deliver_node H s path h blob) = s /\
    In (snd (deliver_node H s path h blob)) [RNotRequested; RAlreadyProcessed; RRejected].
Proof. exact deliver_node_dup. Qed.
Print Assumptions C12_duplicates_unchanged.

Theorem C12_duplicate_codes_unchanged :
  forall (H : list N -> list N) (s : sync) (h blob : list N),
    (aget h (creqs s) = None \/
     exists r d, aget h (creqs s) = Some r /\ cr_data r = Some d) ->
    fst (deliver_code H s h blob) = s /\
    In (snd (deliver_code H s h blob)) [RNotRequested; RAlreadyProcessed; RRejected].
Proof. exact deliver_code_dup. Qed.
Print Assumptions C12_duplicate_codes_unchanged.

(* ALL HISTORIES.  From NewSync over any database, after any sequence of Missing(k),
   node deliveries (checked against the hash of the request they answer: run_wf),
   code deliveries and Commits, in either scheme:
   - the blob cached in every pending request has the request's hash,
   - every membatch node write (blob, hash) has H blob = hash (or an empty blob, which
     Commit refuses), every membatch code is filed under its hash,
   - hash scheme: if every 32-byte key of the initial database was the hash of its
     value, this still holds of the database after every Commit. *)
Theorem C12_never_stores_mismatch :
  forall (H : list N -> list N) (sc : bool) (db : kv) (root : list N) (cb : cbkind) (ops : list op),
    (forall b, length (H b) = 32%nat) ->
    (sc = false -> keyed H db) ->
    let s0 := match new_sync H sc db root cb with inl x => x | inr x => x end in
    run_wf H s0 ops ->
    hash_ok H sc (run H s0 ops).
Proof.
  intros H sc db root cb ops Hlen Hk s0 Hw.
  apply hash_ok_run; [exact Hlen|exact Hw|]. apply hash_ok_new_sync. exact Hk.
Qed.
Print Assumptions C12_never_stores_mismatch.

(* non-vacuity: a one-leaf trie synced under a 32-byte toy hash: the history (Missing,
   a corrupted delivery, the delivery, a duplicate, Commit) satisfies run_wf, one
   request is pending at the start and none at the end, and the database ends up
   holding exactly the node under its hash *)
Example C12_nonvacuous : ex_check = true /\ (forall b, length (toyH b) = 32%nat).
Proof. split; [vm_compute; reflexivity|exact toyH_len]. Qed.
