(* Properties/C06.v — Trie root and contents depend only on the key-value set.
   Property theorems only; each is closed by [exact] of a lemma proved in
   Trie/OpsProofs.v or Trie/Canon.v about the models Trie/Ops.v (trie.go: get,
   insert, delete, update, updateSequential, UpdateBatch) and Trie/Hash.v
   (hasher.go / trie.go:hashRoot).  All theorems hold for every [resolve]
   (in-memory tries never call it) and every hash function [H].

   Vocabulary (Trie/OpsProofs.v, Trie/Canon.v):
     valid_key k  nibbles < 16 followed by exactly one terminator 16
     lk n k       the value stored under hex key k (structural lookup)
     wfn n        well-formed in-memory node (no hash nodes, 17 children per
                  full node, values only at the end of terminated paths)
     canon n      empty, or the canonical shape: no empty node below the root,
                  short child is a full node or (a value iff the key is
                  terminated), no short under short, every full node has >= 2
                  non-empty children
     final_map ops k   the value a history of updates leaves under byte key k
                  (last write wins, empty value = deletion)
     hop / run_hist    histories mixing Update/Delete and UpdateBatch, each
                  batch with its own application order of the per-nibble groups *)
From Coq Require Import Sorted.
From GV Require Import Lib.Tactics Trie.Hex Trie.Node Trie.Ops Trie.Hash Trie.OpsProofs Trie.Canon Trie.Iter Trie.IterProofs Trie.Stack Trie.StackProofs.
Local Open Scope N_scope.

(* keybytesToHex of a byte key is a valid hex key *)
Theorem C06_keybytes_valid : forall k,
  forallb byteb k = true -> valid_key (keybytes_to_hex k).
Proof. exact keybytes_to_hex_valid. Qed.
Print Assumptions C06_keybytes_valid.

(* (a)+(b) get: never EFuel/EPanic/EMissing on a well-formed in-memory trie,
   leaves the trie unchanged and returns the structural lookup *)
Theorem C06_get_total : forall resolve fuel n path key,
  (length key < fuel)%nat -> wfn n -> valid_key key ->
  get resolve fuel n path key = TOk (lk n key, n, false, []).
Proof. exact get_total. Qed.
Print Assumptions C06_get_total.

(* (a)+(b)+(c) insert: no error; the result is well-formed, stores v under key
   and nothing else changes; the dirty flag is false iff v was already stored,
   and then the node is returned unchanged; canonical form is preserved *)
Theorem C06_insert_total : forall resolve fuel n prefix key v,
  (length key < fuel)%nat -> wfn n -> valid_key key ->
  exists d n' ev,
    insert resolve fuel n prefix key (NValue v) = TOk (d, n', ev) /\
    wfn n' /\ lk n' key = Some v /\ (forall k', k' <> key -> lk n' k' = lk n k') /\
    (d = false <-> lk n key = Some v) /\ (d = false -> n' = n) /\
    (canon n -> can n').
Proof. exact insert_total. Qed.
Print Assumptions C06_insert_total.

(* (a)+(b)+(c) delete, including branch collapse and short-node merging *)
Theorem C06_delete_total : forall resolve fuel n prefix key,
  (length key < fuel)%nat -> wfn n -> valid_key key ->
  exists d n' ev,
    delete resolve fuel n prefix key = TOk (d, n', ev) /\
    wfn n' /\ lk n' key = None /\ (forall k', k' <> key -> lk n' k' = lk n k') /\
    (d = false <-> lk n key = None) /\ (d = false -> n' = n) /\
    (canon n -> canon n').
Proof. exact delete_total. Qed.
Print Assumptions C06_delete_total.

(* the fuel the model passes is always sufficient *)
Theorem C06_ops_fuel_ok : forall k, (length k < ops_fuel k)%nat.
Proof. exact ops_fuel_ok. Qed.
Print Assumptions C06_ops_fuel_ok.

(* canonical tries are well-formed in-memory tries *)
Theorem C06_canon_wfn : forall t, canon t -> wfn t /\ mem t.
Proof. exact canon_wfn_mem. Qed.
Print Assumptions C06_canon_wfn.

(* (d) a canonical trie is determined by its contents *)
Theorem C06_canon_unique : forall a b,
  canon a -> canon b -> (forall k, valid_key k -> lk a k = lk b k) -> a = b.
Proof. exact canon_unique. Qed.
Print Assumptions C06_canon_unique.

(* Trie.Update / Trie.Delete (empty value) on a canonical trie *)
Theorem C06_update_spec : forall resolve t k v,
  canon t -> bytes_key k ->
  exists t' ev, update resolve t k v = TOk (t', ev) /\ canon t' /\
    lk t' (keybytes_to_hex k) = vopt v /\
    (forall hk, hk <> keybytes_to_hex k -> lk t' hk = lk t hk).
Proof. exact update_spec. Qed.
Print Assumptions C06_update_spec.

(* (e) HEADLINE, sequential histories: two histories of updates with the same
   final key-value map build the SAME trie (so: same root hash for any hash
   function, same result of every Get, same iteration), every Get returns
   exactly the final map, and no operation errs *)
Theorem C06_root_depends_only_on_set : forall resolve ops1 ops2,
  bytes_ops ops1 -> bytes_ops ops2 ->
  (forall k, final_map ops1 k = final_map ops2 k) ->
  exists t ev1 ev2,
    update_seq resolve NEmpty ops1 = TOk (t, ev1) /\
    update_seq resolve NEmpty ops2 = TOk (t, ev2) /\
    canon t /\
    (forall k, bytes_key k -> lk t (keybytes_to_hex k) = final_map ops1 k) /\
    (forall k, bytes_key k -> trie_get resolve t k = TOk (final_map ops1 k, t, false, [])).
Proof. exact root_depends_only_on_set. Qed.
Print Assumptions C06_root_depends_only_on_set.

Theorem C06_root_hash_depends_only_on_set : forall resolve (H : list N -> list N) ops1 ops2 t1 ev1 t2 ev2,
  bytes_ops ops1 -> bytes_ops ops2 ->
  (forall k, final_map ops1 k = final_map ops2 k) ->
  update_seq resolve NEmpty ops1 = TOk (t1, ev1) ->
  update_seq resolve NEmpty ops2 = TOk (t2, ev2) ->
  t1 = t2 /\ hash_root H t1 = hash_root H t2.
Proof. exact root_hash_depends_only_on_set. Qed.
Print Assumptions C06_root_hash_depends_only_on_set.

(* Trie.Hash is defined (no panic in the hasher) on every canonical trie *)
Theorem C06_hash_root_total : forall (H : list N -> list N) t,
  canon t -> exists h, hash_root H t = Some h.
Proof. exact hash_root_total. Qed.
Print Assumptions C06_hash_root_total.

(* (f) UpdateBatch = updateSequential on canonical tries, for EVERY application
   order of the goroutines' effects: any duplicate-free list of child positions
   <= 16 that contains the first nibble of every batch key.  (The tracer events
   may be ordered differently; the trie is the same.)  The survivors >= 2
   fallback of the Go code is what makes the root stay a full node here. *)
Theorem C06_batch_eq_sequential : forall resolve order t kvs,
  canon t -> bytes_ops kvs ->
  NoDup order -> Forall (fun p => p <= 16) order ->
  (forall kv, In kv kvs -> In (hd 0 (keybytes_to_hex (fst kv))) order) ->
  exists t' ev ev',
    update_batch resolve order t kvs = TOk (t', ev) /\
    update_seq resolve t kvs = TOk (t', ev') /\ canon t'.
Proof. exact batch_eq_sequential. Qed.
Print Assumptions C06_batch_eq_sequential.

(* HEADLINE, histories mixing single updates and batches under arbitrary
   schedules: the trie depends only on the final key-value map *)
Theorem C06_history_depends_only_on_set : forall resolve hs1 hs2,
  Forall hop_ok hs1 -> Forall hop_ok hs2 ->
  (forall k, final_map (flat_map hop_kvs hs1) k = final_map (flat_map hop_kvs hs2) k) ->
  exists t, run_hist resolve NEmpty hs1 = TOk t /\ run_hist resolve NEmpty hs2 = TOk t /\ canon t /\
    (forall k, bytes_key k ->
       trie_get resolve t k = TOk (final_map (flat_map hop_kvs hs1) k, t, false, [])).
Proof. exact history_depends_only_on_set. Qed.
Print Assumptions C06_history_depends_only_on_set.

Theorem C06_history_root_hash : forall resolve (H : list N -> list N) hs1 hs2,
  Forall hop_ok hs1 -> Forall hop_ok hs2 ->
  (forall k, final_map (flat_map hop_kvs hs1) k = final_map (flat_map hop_kvs hs2) k) ->
  exists t1 t2 h, run_hist resolve NEmpty hs1 = TOk t1 /\ run_hist resolve NEmpty hs2 = TOk t2 /\
    hash_root H t1 = Some h /\ hash_root H t2 = Some h.
Proof. exact history_root_hash. Qed.
Print Assumptions C06_history_root_hash.

(* (g, iterator) the key/value iterator (iterator.go: the nodeIterator stack
   machine with the value slot of a full node visited first) drained over the
   trie built by any history never fails / runs out of fuel / panics and yields
   exactly the final key-value map in strictly ascending byte order of the keys
   (blt_ent e1 e2 := bytes.Compare(key1, key2) < 0; a key that is a prefix of
   another comes first) *)
Theorem C06_iter_sorted_complete : forall resolve ops t ev,
  bytes_ops ops -> update_seq resolve NEmpty ops = TOk (t, ev) ->
  exists L, trie_iterate t = TOk L /\
    (forall k v, In (k, v) L <-> bytes_key k /\ final_map ops k = Some v) /\
    StronglySorted blt_ent L.
Proof. exact iter_sorted_complete. Qed.
Print Assumptions C06_iter_sorted_complete.

Theorem C06_iter_sorted_complete_hist : forall resolve hs t,
  Forall hop_ok hs -> run_hist resolve NEmpty hs = TOk t ->
  exists L, trie_iterate t = TOk L /\
    (forall k v, In (k, v) L <-> bytes_key k /\ final_map (flat_map hop_kvs hs) k = Some v) /\
    StronglySorted blt_ent L.
Proof. exact iter_sorted_complete_hist. Qed.
Print Assumptions C06_iter_sorted_complete_hist.

(* (g, stack trie) the streaming ordered builder (stacktrie.go), for every hash
   function with 32-byte output.
   SOUNDNESS: whenever StackTrie accepts a sequence of pairs (every Update
   returns nil, no panic: [st_feed] = Some) its Hash() is the root hash of the
   ordinary trie built from the same pairs by Trie.Update. *)
Theorem C06_stack_trie_sound : forall (H : list N -> list N),
  (forall x, length (H x) = 32%nat) ->
  forall resolve kvs s,
  bytes_ops kvs -> st_feed H stack_new kvs = Some s ->
  exists t ev h, update_seq resolve NEmpty kvs = TOk (t, ev) /\
    st_root H s = TOk h /\ hash_root H t = Some h.
Proof. exact stack_trie_sound. Qed.
Print Assumptions C06_stack_trie_sound.

(* FULL: for byte keys of one length fed in strictly ascending order
   ([asc]: bytes.Compare(last, key) < 0 on the hex keys, the check Update itself
   makes) with non-empty values, StackTrie accepts every pair (no error, no
   panic, no fuel exhaustion) and its Hash() equals the root hash of the trie
   built from the same pairs.  (The Go StackTrie drops the terminator, so key
   sets in which one key is a proper prefix of another are outside its
   domain: the model, like the Go code, panics there.) *)
Theorem C06_stack_trie_root : forall (H : list N -> list N),
  (forall x, length (H x) = 32%nat) ->
  forall resolve kvs Lb,
  bytes_ops kvs ->
  Forall (fun kv => snd kv <> [] /\ length (fst kv) = Lb) kvs ->
  asc [] kvs ->
  exists s t ev h, st_feed H stack_new kvs = Some s /\
    update_seq resolve NEmpty kvs = TOk (t, ev) /\
    st_root H s = TOk h /\ hash_root H t = Some h.
Proof. exact stack_trie_root. Qed.
Print Assumptions C06_stack_trie_root.

(* non-vacuity: two different histories (overwrite, a deletion that collapses a
   branch and merges short nodes, a batch above the parallel threshold applied
   in descending nibble order) with the same final map; the hypotheses hold and
   the computed tries coincide and are a non-trivial canonical trie *)
Example C06_nonvacuous :
  let nr := fun (_ _ : list N) => @None (node * list N) in
  let hs1 := [HUpd [18] [1]; HUpd [18; 52] [2]; HUpd [19] [3]; HUpd [18] [4]; HUpd [19] []] in
  let hs2 := [HBatch [16; 3; 2; 1; 0] [([19], [9]); ([18; 52], [2]); ([18], [4]); ([19], []); ([35], [])]] in
  Forall hop_ok hs1 /\ Forall hop_ok hs2 /\
  (forall k, final_map (flat_map hop_kvs hs1) k = final_map (flat_map hop_kvs hs2) k) /\
  run_hist nr NEmpty hs1 = run_hist nr NEmpty hs2 /\
  run_hist nr NEmpty hs1 =
    TOk (NShort [1; 2]
           (NFull [NEmpty; NEmpty; NEmpty; NShort [4; 16] (NValue [2]); NEmpty; NEmpty; NEmpty; NEmpty;
                   NEmpty; NEmpty; NEmpty; NEmpty; NEmpty; NEmpty; NEmpty; NEmpty; NValue [4]])) /\
  trie_iterate
    (NShort [1; 2]
       (NFull [NEmpty; NEmpty; NEmpty; NShort [4; 16] (NValue [2]); NEmpty; NEmpty; NEmpty; NEmpty;
               NEmpty; NEmpty; NEmpty; NEmpty; NEmpty; NEmpty; NEmpty; NEmpty; NValue [4]]))
    = TOk [([18], [4]); ([18; 52], [2])] /\
  (let kvs := [([18; 52], [1]); ([18; 53], [2; 2]); ([33; 0], [3])] in
   Forall (fun kv => snd kv <> [] /\ length (fst kv) = 2%nat) kvs /\ asc [] kvs /\
   st_feed (fun _ => repeat 0 32) stack_new kvs <> None).
Proof.
  cbv zeta. split; [|split; [|split; [|split; [|split; [|split]]]]].
  - repeat constructor.
  - apply Forall_cons; [|constructor]. split; [repeat constructor|]. split; [|split].
    + repeat (apply NoDup_cons; [simpl; intuition discriminate|]). apply NoDup_nil.
    + repeat (apply Forall_cons; [lia|]). apply Forall_nil.
    + intros kv [<-|[<-|[<-|[<-|[<-|[]]]]]]; vm_compute; tauto.
  - intros k. unfold final_map. simpl. unfold put.
    destruct (bytes_eqb k [19]) eqn:B1; destruct (bytes_eqb k [18]) eqn:B2;
      destruct (bytes_eqb k [18; 52]) eqn:B3; destruct (bytes_eqb k [35]) eqn:B4; try reflexivity;
      repeat match goal with Hb : bytes_eqb _ _ = true |- _ => apply bytes_eqb_eq in Hb end;
      congruence.
  - vm_compute. reflexivity.
  - vm_compute. reflexivity.
  - vm_compute. reflexivity.
  - split; [repeat constructor; discriminate|]. split; [vm_compute; auto|vm_compute; discriminate].
Qed.
