(* Properties/C44.v — RLPx delivers authenticated messages intact and in order.
   Property theorems only; each is closed by [exact] of a lemma of
   Net/RlpxProofs.v about the model Net/Rlpx.v of /repo/p2p/rlpx/{rlpx,buffer}.go.

   FRAMING IS FULL: the theorems quantify over every message list, every payload,
   every fragmentation of the byte stream (fr : list of fragments), every readBuffer
   state/capacity policy (newcap, only newcap c n >= c + n).
   CRYPTOGRAPHY IS SYMBOLIC: the AES-CTR stream (cst, cnext), the Keccak hash object
   (hst, hwrite, hsum), the MAC block cipher (blk), snappy and all handshake
   primitives are universally quantified functions; what is assumed of them appears
   as named premises:  hsum_len (32-byte digests), snappy_dec_enc / snappy_declen_enc
   (snappy round trip), mac_collision_free (the honest MAC inputs of the attacked
   frame have no second preimage under the tag function), no_collision (truncated
   hash does not collide on two given different inputs), ecdh_comm, recover_sign,
   import_export, ecies_dec_enc, ecies_len, ecies_integrity, RLP struct round trips. *)
From GV Require Import Lib.Tactics Lib.Bytes Net.Rlpx Net.RlpxProofs.
Local Open Scope N_scope.

(* XOR with the keystream is an involution (proved, not assumed): decrypting with a
   stream in the same state returns the plaintext and leaves both streams equal *)
Theorem C44_xor_involutive :
  forall (cst : Type) (cnext : cst -> N * cst) (d : list N) (c : cst),
    xor_ks cst cnext c (fst (xor_ks cst cnext c d)) = (d, snd (xor_ks cst cnext c d)).
Proof. exact xor_involutive. Qed.
Print Assumptions C44_xor_involutive.

(* parsing is a function of the byte stream: two readers in the same cipher/MAC
   state whose buffered-plus-in-flight bytes are equal return the same messages and
   the same error class, however the bytes are fragmented or buffered *)
Theorem C44_chunk_independent :
  forall cst cnext hst hwrite hsum blk
         (snappy_enc : list N -> list N) snappy_declen snappy_dec newcap,
    (forall c n : nat, (c + n <= newcap c n)%nat) ->
    forall k sn (c : cst) (m : hst) b1 fr1 b2 fr2,
      rb_wf b1 -> rb_wf b2 -> rb_rem b1 fr1 = rb_rem b2 fr2 ->
      norm_res (read_until cst cnext hst hwrite hsum blk snappy_declen snappy_dec newcap
                  k sn (mkr cst hst c m b1) fr1) =
      norm_res (read_until cst cnext hst hwrite hsum blk snappy_declen snappy_dec newcap
                  k sn (mkr cst hst c m b2) fr2).
Proof. exact chunk_independent. Qed.
Print Assumptions C44_chunk_independent.

(* delivery: any number of messages accepted by Conn.Write (sizes within the
   limits, codes are uint64), with or without snappy, written by a sender whose
   cipher/MAC state equals the reader's: for EVERY fragmentation fr of the
   concatenated wire bytes (and every buffer state holding a prefix of them) the
   reader returns exactly the messages, in order, with the written wire sizes, and
   then end-of-stream *)
Theorem C44_read_write_frames :
  forall cst cnext hst hwrite hsum blk snappy_enc snappy_declen snappy_dec newcap,
    (forall c n : nat, (c + n <= newcap c n)%nat) ->
    (forall m : hst, length (hsum m) = 32%nat) ->
    (forall d, snappy_dec (snappy_enc d) = Some d) ->
    (forall d, snappy_declen (snappy_enc d) = Some (lenN d)) ->
    forall sn ms (w w' : wstate cst hst) wire wszs b fr,
      codes_ok ms ->
      write_msgs cst cnext hst hwrite hsum blk snappy_enc sn w ms = Good (w', wire, wszs) ->
      rb_wf b -> rb_rem b fr = wire ->
      norm_res (read_until cst cnext hst hwrite hsum blk snappy_declen snappy_dec newcap
                  (S (length ms)) sn (mkr cst hst (w_enc _ _ w) (w_mac _ _ w) b) fr) =
      (delivered ms wszs, Some EConnEOF).
Proof. exact read_write_frames. Qed.
Print Assumptions C44_read_write_frames.

(* tampering: after any honest prefix ms, replacing ANY single byte (index i, new
   value v) of the next frame — header, header MAC, payload or frame MAC —
   makes the reader deliver exactly the prefix and then report a MAC error at that
   frame ("bad header MAC" for i < 32, else "bad frame MAC"), for every
   fragmentation, whatever follows on the wire (rest) *)
Theorem C44_tamper_detected :
  forall cst cnext hst hwrite hsum blk snappy_enc snappy_declen snappy_dec newcap,
    (forall c n : nat, (c + n <= newcap c n)%nat) ->
    (forall m : hst, length (hsum m) = 32%nat) ->
    (forall d, snappy_dec (snappy_enc d) = Some d) ->
    (forall d, snappy_declen (snappy_enc d) = Some (lenN d)) ->
    forall sn ms (w w1 : wstate cst hst) wire1 wszs code data w2 wire i v rest b fr k,
      codes_ok ms ->
      write_msgs cst cnext hst hwrite hsum blk snappy_enc sn w ms = Good (w1, wire1, wszs) ->
      code < 2 ^ 64 ->
      write_frame cst cnext hst hwrite hsum blk w1 code data = Good (w2, wire) ->
      (i < length wire)%nat -> v <> nth i wire 0 ->
      mac_collision_free cst cnext hst hwrite hsum blk w1 code data ->
      rb_wf b -> rb_rem b fr = wire1 ++ upd i v wire ++ rest ->
      norm_res (read_until cst cnext hst hwrite hsum blk snappy_declen snappy_dec newcap
                  (length ms + S k) sn (mkr cst hst (w_enc _ _ w) (w_mac _ _ w) b) fr) =
      (delivered ms wszs, Some (mac_error_at i)).
Proof. exact tamper_detected. Qed.
Print Assumptions C44_tamper_detected.

(* size limits, write side: data longer than 2^24-1 and frames (code + possibly
   compressed data) longer than 2^24-1 are rejected; everything else is written,
   and the wire length is 32 + roundup16(size) + 16 *)
Theorem C44_size_limits_write :
  forall cst cnext hst hwrite hsum blk snappy_enc
         (snappy_declen : list N -> option N) (snappy_dec : list N -> option (list N))
         (newcap : nat -> nat -> nat),
    (forall sn (w : wstate cst hst) code data, max_uint24 < lenN data ->
       conn_write cst cnext hst hwrite hsum blk snappy_enc sn w code data = Bad ETooLarge) /\
    (forall (w : wstate cst hst) code data, max_uint24 < int_size code + lenN data ->
       write_frame cst cnext hst hwrite hsum blk w code data = Bad ETooLarge) /\
    (forall (w : wstate cst hst) code data, int_size code + lenN data <= max_uint24 ->
       exists w' wire, write_frame cst cnext hst hwrite hsum blk w code data = Good (w', wire)) /\
    ((forall m : hst, length (hsum m) = 32%nat) ->
     forall (w : wstate cst hst) code data w' wire, code < 2 ^ 64 ->
       write_frame cst cnext hst hwrite hsum blk w code data = Good (w', wire) ->
       lenN wire = frame_wire_len (int_size code + lenN data)).
Proof.
  intros. split; [|split; [|split]].
  - exact (write_data_too_large cst cnext hst hwrite hsum blk snappy_enc snappy_declen snappy_dec newcap).
  - exact (write_frame_too_large cst cnext hst hwrite hsum blk snappy_enc snappy_declen snappy_dec newcap).
  - exact (write_frame_total cst cnext hst hwrite hsum blk snappy_enc snappy_declen snappy_dec newcap).
  - exact (write_frame_len cst cnext hst hwrite hsum blk snappy_enc snappy_declen snappy_dec newcap).
Qed.
Print Assumptions C44_size_limits_write.

(* size limits, read side: whatever bytes are on the wire, an accepted frame is
   at most 2^24-1 bytes (the size field is the 3 decrypted header bytes), and with
   compression on nothing longer than 2^24-1 bytes is delivered *)
Theorem C44_size_limits_read :
  forall cst cnext hst hwrite hsum blk (snappy_enc : list N -> list N)
         snappy_declen snappy_dec (newcap : nat -> nat -> nat),
    ((forall c : cst, fst (cnext c) < 256) ->
     forall (r : sstate cst hst) s frame r' rest, bytesb s = true ->
       read_frame_s cst cnext hst hwrite hsum blk r s = Good (frame, r', rest) ->
       lenN frame <= max_uint24) /\
    ((forall x d, snappy_dec x = Some d -> snappy_declen x = Some (lenN d)) ->
     forall (r : sstate cst hst) s code d wsz r' rest,
       conn_read_s cst cnext hst hwrite hsum blk snappy_declen snappy_dec true r s =
         Good ((code, d, wsz), r', rest) -> lenN d <= max_uint24).
Proof.
  intros. split.
  - exact (read_frame_limit cst cnext hst hwrite hsum blk snappy_enc snappy_declen snappy_dec newcap).
  - exact (conn_read_limit cst cnext hst hwrite hsum blk snappy_enc snappy_declen snappy_dec newcap).
Qed.
Print Assumptions C44_size_limits_read.

(* the MAC state is a chain over all previous frames (hash object = the bytes
   absorbed so far): every written frame appends its whole ciphertext to the
   absorbed history, so the history strictly grows with every message ... *)
Theorem C44_mac_state_evolves :
  forall cst cnext (H blk snappy_enc : list N -> list N) sn ms
         (w w' : wstate cst (list N)) wire z,
    codes_ok ms -> ms <> [] ->
    write_msgs cst cnext (list N) (@app N) H blk snappy_enc sn w ms = Good (w', wire, z) ->
    (length (w_mac _ _ w) < length (w_mac _ _ w'))%nat.
Proof. exact write_msgs_mac_lt. Qed.
Print Assumptions C44_mac_state_evolves.

(* ... and a frame written at one position of the chain (writer history
   w_mac wW) presented to a reader at any other position (history mR of a
   different length: a replayed frame, a frame after a dropped one, reordered
   frames) is rejected with "bad header MAC" unless the truncated hash collides on
   the two different MAC inputs *)
Theorem C44_out_of_order_detected :
  forall cst cnext (H blk : list N -> list N) (_snappy_enc_unused : list N -> list N),
    (forall x, length (blk x) = 16%nat) -> (forall m, length (H m) = 32%nat) ->
    forall (c : cst) mR (wW : wstate cst (list N)) code data w' wire rest,
      code < 2 ^ 64 ->
      write_frame cst cnext (list N) (@app N) H blk wW code data = Good (w', wire) ->
      length mR <> length (w_mac _ _ wW) ->
      no_collision H (header_pre H blk mR (firstn 16 wire))
                     (header_pre H blk (w_mac _ _ wW) (firstn 16 wire)) ->
      read_frame_s cst cnext (list N) (@app N) H blk (mks _ _ c mR) (wire ++ rest) =
      Bad EBadHeaderMAC.
Proof. exact desync_detected. Qed.
Print Assumptions C44_out_of_order_detected.

(* handshake, symbolic: in an honest run both sides finish, each learns the other's
   static public key, both derive the same AES and MAC secrets and cross-equal MAC
   hash inputs *)
Theorem C44_handshake_learns_key :
  forall (key point : Type) (pub_of : key -> point) export_pub import_pub ecdh sign ecrecover
         ecies_enc ecies_dec kec enc_auth dec_auth enc_resp dec_resp,
    (forall a b, ecdh a (pub_of b) = ecdh b (pub_of a)) ->
    (forall p, import_pub (export_pub p) = Some p) ->
    (forall k m, ecrecover m (sign k m) = Some (pub_of k)) ->
    (forall k r m s2, ecies_dec k (ecies_enc (pub_of k) r m s2) s2 = Some m) ->
    (forall p r m s2, lenN (ecies_enc p r m s2) = lenN m + ecies_overhead) ->
    (forall s p n pad, dec_auth (enc_auth s p n ++ pad) = Some (s, p, n)) ->
    (forall p n pad, dec_resp (enc_resp p n ++ pad) = Some (p, n)) ->
    forall prvI prvR nI nR ephI ephR rndI rndR padI padR,
      let auth := initiator_auth key point pub_of export_pub ecdh sign ecies_enc enc_auth
                    prvI (pub_of prvR) nI ephI rndI padI in
      lenN (enc_auth (sign ephI (xor_bytes (ecdh prvI (pub_of prvR)) nI))
              (export_pub (pub_of prvI)) nI ++ repeat 0 padI) + ecies_overhead <= 2048 ->
      lenN (enc_resp (export_pub (pub_of ephR)) nR ++ repeat 0 padR) + ecies_overhead <= 2048 ->
      exists resp sR sI,
        recipient_run key point pub_of export_pub import_pub ecdh ecrecover ecies_enc ecies_dec
          kec dec_auth enc_resp prvR auth nR ephR rndR padR = Good (resp, sR) /\
        initiator_finish key point import_pub ecdh ecies_dec kec dec_resp
          prvI (pub_of prvR) nI ephI auth resp = Good sI /\
        sec_remote _ sR = pub_of prvI /\ sec_remote _ sI = pub_of prvR /\
        sec_aes _ sI = sec_aes _ sR /\ sec_mac _ sI = sec_mac _ sR /\
        sec_egress _ sI = sec_ingress _ sR /\ sec_ingress _ sI = sec_egress _ sR.
Proof. exact handshake_learns_key. Qed.
Print Assumptions C44_handshake_learns_key.

(* invalid curve points carried by auth (InitiatorPubkey) are rejected *)
Theorem C44_offcurve_auth_rejected :
  forall (key point : Type) (pub_of : key -> point) export_pub import_pub ecdh ecrecover
         ecies_enc ecies_dec kec dec_auth enc_resp
         prvR packet plain exact sg pb n nR ephR rndR padR,
    read_msg key ecies_dec prvR packet = Good (plain, exact) ->
    dec_auth plain = Some (sg, pb, n) -> import_pub pb = None ->
    recipient_run key point pub_of export_pub import_pub ecdh ecrecover ecies_enc ecies_dec
      kec dec_auth enc_resp prvR packet nR ephR rndR padR = Bad EHsInvalidPub.
Proof. exact offcurve_auth_rejected. Qed.
Print Assumptions C44_offcurve_auth_rejected.

(* ... and by authResp (RandomPubkey) *)
Theorem C44_offcurve_resp_rejected :
  forall (key point : Type) import_pub ecdh ecies_dec kec dec_resp
         prvI remote nI ephI auth packet plain exact pb n,
    read_msg key ecies_dec prvI packet = Good (plain, exact) ->
    dec_resp plain = Some (pb, n) -> import_pub pb = None ->
    initiator_finish key point import_pub ecdh ecies_dec kec dec_resp
      prvI remote nI ephI auth packet = Bad EHsInvalidPub.
Proof. exact offcurve_resp_rejected. Qed.
Print Assumptions C44_offcurve_resp_rejected.

(* a handshake packet that differs from the honest one is rejected by readMsg,
   under ciphertext integrity of ECIES at the honest packet *)
Theorem C44_tampered_handshake_rejected :
  forall (key : Type) ecies_dec (k : key) honest packet,
    ecies_integrity key ecies_dec k honest -> lenN honest <= 2050 ->
    length packet = length honest -> packet <> honest ->
    exists e, read_msg key ecies_dec k packet = Bad e.
Proof. exact tampered_packet_rejected. Qed.
Print Assumptions C44_tampered_handshake_rejected.

(* non-vacuity: a concrete instance (toy primitives, NOT cryptography) meets all
   hypotheses at once: three messages through a 7-piece fragmentation are delivered
   and a flipped payload bit is reported as "bad frame MAC" (toy_check, by
   vm_compute), the pointwise MAC hypothesis holds for its first frame, and the
   executable AES instance used by the correspondence passes the FIPS-197 vectors *)
Example C44_nonvacuous :
  toy_check = true /\
  mac_collision_free N toy_next (list N) (@app N) toy_sum toy_blk toy_w0 5
    [1;2;3;4;5;6;7;8;9;10;11;12;13;14;15] /\
  aes_vectors_ok = true.
Proof. exact (conj toy_check_ok (conj toy_collision_free aes_vectors)). Qed.
