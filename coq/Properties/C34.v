(* Properties/C34.v — stateless re-execution with the collected witness reproduces
   the block.  Property theorems only; each is closed by [exact] of a lemma proved in
   Trie/WitnessProofs.v about the model Trie/Witness.v (sessions of Get / Update /
   Delete over several open tries — the account trie and the storage tries — built on
   the C06 trie model Trie/Ops.v, whose [TRes path blob] events ARE the prevalue
   tracer; stateless store = MakeHashDB of a list of blobs).

   H is any hash function; NS is the set of node encodings in play (the blobs of the
   full node's stores and of the witness) and H has no collision on NS.
   [hashed H NS rs]: the full node's readers return a blob only under its own hash,
   decoded by decodeNode (proved for the hash-scheme and path-scheme readers of
   Trie/Commit.v: C34_hash_reader_hashed, C34_path_reader_hashed).
   [run H rs [] ops = TOk (vs, st, evs)]: the session [ops] succeeds from the state
   with no trie open: values read [vs], final in-memory tries [st], events [evs].
   [ev_blobs evs]: every blob a resolution returned.  W: ANY list of blobs taken as
   the witness (duplicates, junk and foreign nodes allowed). *)
From GV Require Import Lib.Tactics Lib.Bytes Trie.Hex Trie.Node Trie.Ops Trie.Hash Trie.Commit Trie.Witness Trie.WitnessProofs Trie.WitnessComplete.
Local Open Scope N_scope.

(* sufficiency: when the witness holds every blob the full run resolved, re-running the
   same operations over the store made from the witness resolves exactly the same
   nodes (same events, never MissingNodeError), reads the same values and ends in the
   same in-memory tries *)
Theorem C34_witness_sufficient : forall (H : list N -> list N) (NS : list N -> Prop),
  (forall a b, NS a -> NS b -> H a = H b -> a = b) ->
  forall rs1, hashed H NS rs1 ->
  forall W, (forall b, In b W -> NS b) ->
  forall ops vs st evs,
    run H rs1 [] ops = TOk (vs, st, evs) -> incl (ev_blobs evs) W ->
    run_stateless H W ops = TOk (vs, st, evs).
Proof. exact witness_sufficient. Qed.
Print Assumptions C34_witness_sufficient.

(* ... hence the same roots, for the account trie and every storage trie (the union
   of the tries' witnesses suffices) *)
Theorem C34_stateless_eq_full : forall (H : list N -> list N) (NS : list N -> Prop),
  (forall a b, NS a -> NS b -> H a = H b -> a = b) ->
  forall rs1, hashed H NS rs1 ->
  forall W, (forall b, In b W -> NS b) ->
  forall ops vs st evs,
    run H rs1 [] ops = TOk (vs, st, evs) -> incl (ev_blobs evs) W ->
    exists st', run_stateless H W ops = TOk (vs, st', evs) /\
                state_roots H st' = state_roots H st.
Proof. exact stateless_eq_full. Qed.
Print Assumptions C34_stateless_eq_full.

(* a missing node is an error: if ANY blob the full run resolved is absent from the
   witness, the re-run returns MissingNodeError — not a value, not another root *)
Theorem C34_missing_node_errors : forall (H : list N -> list N) (NS : list N -> Prop),
  (forall a b, NS a -> NS b -> H a = H b -> a = b) ->
  forall rs1, hashed H NS rs1 ->
  forall W, (forall b, In b W -> NS b) ->
  forall ops vs st evs b,
    run H rs1 [] ops = TOk (vs, st, evs) -> In b (ev_blobs evs) -> ~ In b W ->
    run_stateless H W ops = TErr EMissing.
Proof. exact missing_node_errors. Qed.
Print Assumptions C34_missing_node_errors.

(* never a different result: over ANY list of blobs (too few, too many, junk) the
   re-run is exactly the full run — precisely when every resolved blob is present —
   or MissingNodeError; no third outcome *)
Theorem C34_stateless_sound : forall (H : list N -> list N) (NS : list N -> Prop),
  (forall a b, NS a -> NS b -> H a = H b -> a = b) ->
  forall rs1, hashed H NS rs1 ->
  forall W, (forall b, In b W -> NS b) ->
  forall ops vs st evs,
    run H rs1 [] ops = TOk (vs, st, evs) ->
    (incl (ev_blobs evs) W /\ run_stateless H W ops = TOk (vs, st, evs)) \/
    (~ incl (ev_blobs evs) W /\ run_stateless H W ops = TErr EMissing).
Proof. exact stateless_sound. Qed.
Print Assumptions C34_stateless_sound.

(* what geth ships — the values of the per-trie path-keyed pre-value maps
   (Trie.Witness()) gathered into the set Witness.State — consists of resolved blobs
   only (so, by C34_missing_node_errors, every single one of them is necessary:
   the witness is minimal) ... *)
Theorem C34_shipped_witness_minimal : forall n evs b,
  In b (witness_nodes (collect n evs)) -> In b (ev_blobs evs).
Proof. exact collect_resolved. Qed.
Print Assumptions C34_shipped_witness_minimal.

(* ... and holds EVERY resolved blob, for every session (trie.New / Get / Update /
   Delete incl. branch collapse with sibling resolution, over the account trie and any
   number of storage tries) whose readers answer BY PATH: whatever hash is asked for
   at a path of trie i, the blob returned there is the same ([by_path]) — which is how
   the path database reads (C34_path_reader_by_path, for ARBITRARY stores).  The only
   way to lose a blob is PrevalueTracer.Put overwriting a different blob at the same
   path; [by_path] excludes it. *)
Theorem C34_shipped_witness_complete : forall (H : list N -> list N) rs,
  by_path rs ->
  forall ops vs st evs,
    run H rs [] ops = TOk (vs, st, evs) ->
    incl (ev_blobs evs) (witness_nodes (collect (length st) evs)).
Proof. exact shipped_witness_complete. Qed.
Print Assumptions C34_shipped_witness_complete.

(* end to end: re-running the session over MakeHashDB of exactly what geth ships
   reproduces the full run (same events, values, in-memory tries, hence roots) *)
Theorem C34_shipped_witness_reproduces : forall (H : list N -> list N) rs,
  by_path rs ->
  forall NS : list N -> Prop, (forall a b, NS a -> NS b -> H a = H b -> a = b) ->
  hashed H NS rs ->
  forall ops vs st evs,
    run H rs [] ops = TOk (vs, st, evs) ->
    run_stateless H (witness_nodes (collect (length st) evs)) ops = TOk (vs, st, evs).
Proof. exact shipped_witness_reproduces. Qed.
Print Assumptions C34_shipped_witness_reproduces.

Theorem C34_path_reader_by_path : forall (H : list N -> list N) (Ss : nat -> store),
  by_path (fun i => resolve_of H PathScheme (Ss i)).
Proof. exact path_readers_by_path. Qed.
Print Assumptions C34_path_reader_by_path.

(* a hash-scheme full node whose store holds, under its hash, every node the
   path-scheme stores serve makes the IDENTICAL run (same events), so both theorems
   above hold for its witness too *)
Theorem C34_hash_node_same_run : forall (H : list N -> list N) NS (Ss : nat -> store) Sh ops vs st evs,
  hashed H NS (fun i => resolve_of H PathScheme (Ss i)) ->
  (forall i h p n b, resolve_of H PathScheme (Ss i) h p = Some (n, b) -> am_get h Sh = Some b) ->
  run H (fun i => resolve_of H PathScheme (Ss i)) [] ops = TOk (vs, st, evs) ->
  run H (fun _ => resolve_of H HashScheme Sh) [] ops = TOk (vs, st, evs).
Proof. exact hash_node_same_run. Qed.
Print Assumptions C34_hash_node_same_run.

(* the node readers of the full node satisfy [hashed] *)
Theorem C34_hash_reader_hashed : forall (H : list N -> list N) (NS : list N -> Prop) S,
  store_hash_ok H S -> store_in NS S -> hashed H NS (fun _ => resolve_of H HashScheme S).
Proof. exact resolve_of_hash_hashed. Qed.
Print Assumptions C34_hash_reader_hashed.

Theorem C34_path_reader_hashed : forall (H : list N -> list N) (NS : list N -> Prop) (Ss : nat -> store),
  (forall i, store_in NS (Ss i)) -> hashed H NS (fun i => resolve_of H PathScheme (Ss i)).
Proof. exact resolve_of_path_hashed. Qed.
Print Assumptions C34_path_reader_hashed.

(* blocks.  The EVM is abstracted: a block is a relation [next_access] that, given
   the values read so far, names the next state access or the end, and is
   deterministic (hypothesis access_sequence_deterministic).  [exec .. rs [] [] ops vs
   st evs]: a complete execution of the block over readers rs.  If the witness holds
   every blob the full execution resolved, the stateless execution exists, is the
   ONLY complete stateless execution, and makes the same accesses, reads the same
   values and ends in the same tries *)
Theorem C34_block_stateless_eq_full : forall (H : list N -> list N) (NS : list N -> Prop),
  (forall a b, NS a -> NS b -> H a = H b -> a = b) ->
  forall next_access : list (option (list N)) -> option sop -> Prop,
  (* access_sequence_deterministic *)
  (forall h a b, next_access h a -> next_access h b -> a = b) ->
  forall rs1, hashed H NS rs1 ->
  forall W, (forall b, In b W -> NS b) ->
  forall ops vs st evs,
    exec H next_access rs1 [] [] ops vs st evs -> incl (ev_blobs evs) W ->
    exec H next_access (stateless_rs H W) [] [] ops vs st evs /\
    forall ops' vs' st' evs', exec H next_access (stateless_rs H W) [] [] ops' vs' st' evs' ->
      ops' = ops /\ vs' = vs /\ st' = st /\ evs' = evs.
Proof. exact block_stateless_eq_full. Qed.
Print Assumptions C34_block_stateless_eq_full.

(* with a resolved blob missing there is NO complete stateless execution of the block
   at all (so no root, right or wrong, can come out of one), and replaying the block's
   accesses stops with MissingNodeError.  (This is the trie-level contract; that the
   caller must LOOK at the error is where core.ExecuteStateless failed: see
   checks/C34.json and known_findings.json.) *)
Theorem C34_block_missing_node : forall (H : list N -> list N) (NS : list N -> Prop),
  (forall a b, NS a -> NS b -> H a = H b -> a = b) ->
  forall next_access : list (option (list N)) -> option sop -> Prop,
  (forall h a b, next_access h a -> next_access h b -> a = b) ->
  forall rs1, hashed H NS rs1 ->
  forall W, (forall b, In b W -> NS b) ->
  forall ops vs st evs b,
    exec H next_access rs1 [] [] ops vs st evs -> In b (ev_blobs evs) -> ~ In b W ->
    (forall ops' vs' st' evs', ~ exec H next_access (stateless_rs H W) [] [] ops' vs' st' evs') /\
    run_stateless H W ops = TErr EMissing.
Proof. exact block_missing_node. Qed.
Print Assumptions C34_block_missing_node.

(* the hypotheses are met by a concrete two-trie state (8 accounts + 4 slots in one
   hash store of >= 10 nodes, committed with the C07 model) with a toy hash that is
   collision free on the store's blobs; [ex_check] evaluates on it a session with
   reads of present and absent keys, an overwrite, a node split and two deletions with
   branch collapse: >= 6 witness nodes, the shipped witness is complete, the re-run is
   identical, and every single-node removal yields MissingNodeError *)
Example C34_nonvacuous :
  ((forall a b, In a ex_blobs -> In b ex_blobs -> toyH a = toyH b -> a = b) /\
   hashed toyH (fun b => In b ex_blobs) ex_rs /\
   (Nat.leb 10 (length ex_blobs) && ex_check) = true) /\
  (* the same two tries in two path stores: the path-scheme run equals the hash-scheme
     run and the re-run over the shipped witness is identical *)
  ((forall a b, In a ex_pblobs -> In b ex_pblobs -> toyH a = toyH b -> a = b) /\
   hashed toyH (fun b => In b ex_pblobs) ex_prs /\
   by_path ex_prs /\
   ex_pcheck = true).
Proof. exact (conj ex_hypotheses ex_phypotheses). Qed.
