(* Properties/C51.v — Contract ABI encoding round-trips and follows the ABI
   specification.  Property theorems only; each is closed by [exact] of a lemma of
   Abi/CodecProofs.v (or by [vm_compute] on a concrete witness), about the model
   Abi/Codec.v of /repo/accounts/abi (pack.go, type.go, unpack.go, argument.go).
   [Panic] = the Go code would panic (slice out of range); [Err c] = error class. *)
From GV Require Import Lib.Tactics Abi.Types Abi.Codec Abi.CodecProofs.
Local Open Scope Z_scope.

(* the encoding follows the Solidity ABI layout: wherever the specification
   encoder [enc] (head/tail, offsets relative to the enclosing tuple/array,
   left/right padding, two's-complement sign extension) is defined, Arguments.Pack
   produces exactly those bytes; and [enc] is defined on every ABI-typed value *)
Theorem C51_pack_eq_spec : forall ts vs b,
  forallb ty_valid ts = true -> enc_args ts vs = Some b -> pack_args ts vs = Ok b.
Proof. exact pack_args_eq_spec. Qed.
Print Assumptions C51_pack_eq_spec.

Theorem C51_enc_total : forall ts vs,
  forall2b wf_value ts vs = true -> exists b, enc_args ts vs = Some b.
Proof. exact (fun ts vs => enc_total (TTuple ts) (VList vs)). Qed.
Print Assumptions C51_enc_total.

(* round trip, at full strength: for every argument list of nested types without a
   zero-size static component ([ty_rt]) and every Go-representable value of it
   ([val_rt]: includes *big.Int values beyond the declared width of uint24 etc.,
   which neither Pack nor Unpack range-checks), whatever Pack returns is decoded
   back to the value.  Guard: the encoding is shorter than 2^63 bytes (the decoder
   rejects offsets >= 2^63). *)
Theorem C51_unpack_pack : forall ts vs b,
  forallb ty_rt ts = true -> forall2b val_rt ts vs = true ->
  pack_args ts vs = Ok b -> zlen b < 2 ^ 63 ->
  unpack_args ts b = Ok vs.
Proof. exact unpack_pack_args. Qed.
Print Assumptions C51_unpack_pack.

(* for ABI-typed values Pack succeeds, equals the specification encoding and
   round-trips *)
Theorem C51_unpack_pack_abi_typed : forall ts vs,
  forallb ty_rt ts = true -> forall2b wf_value ts vs = true ->
  exists b, enc_args ts vs = Some b /\ pack_args ts vs = Ok b /\
            (zlen b < 2 ^ 63 -> unpack_args ts b = Ok vs).
Proof. exact unpack_pack_wf. Qed.
Print Assumptions C51_unpack_pack_abi_typed.

(* the [ty_rt] guard is necessary: the FULL statement
     forall ts vs b, forallb ty_valid ts = true -> forall2b wf_value ts vs = true ->
       pack_args ts vs = Ok b -> unpack_args ts b = Ok vs
   is FALSE of the faithful model (and of the Go code): a static component of
   encoded size 0 (T[0], the empty tuple) in last position is packed to nothing but
   toGoType demands 32 readable bytes at its position. *)
Theorem C51_unpack_pack_zero_size_refuted : exists ts vs b,
  forallb ty_valid ts = true /\ forall2b wf_value ts vs = true /\
  pack_args ts vs = Ok b /\ unpack_args ts b <> Ok vs.
Proof.
  exists [TUInt 8; TFixedArray 0 (TUInt 8)], [VInt 1; VList []], (pack_num 1).
  vm_compute. repeat split; discriminate.
Qed.
Print Assumptions C51_unpack_pack_zero_size_refuted.

(* decoding ANY byte string, for any types NewType can build, never reaches a Go
   run-time panic: every slice expression of unpack.go is in range *)
Theorem C51_unpack_total : forall ts data,
  forallb ty_newtype ts = true -> unpack_args ts data <> Panic.
Proof. exact unpack_args_np. Qed.
Print Assumptions C51_unpack_total.

(* canonical prefix.  The FULL statement
     forall ts b vs b', unpack_args ts b = Ok vs -> pack_args ts vs = Ok b' ->
       firstn (length b') b = b'
   is FALSE: the decoder follows any in-range offset (non-canonical layouts are
   accepted, as the ABI specification permits for non-strict decoders) and ignores
   some padding. *)
Theorem C51_unpack_canonical_prefix_refuted : exists ts b vs b',
  forallb ty_rt ts = true /\ unpack_args ts b = Ok vs /\ pack_args ts vs = Ok b' /\
  firstn (length b') b <> b'.
Proof.
  exists [TBytes], (pack_num 64 ++ pack_num 7 ++ pack_num 1 ++ 97%N :: zeros 31),
         [VBytes [97%N]], (pack_num 32 ++ pack_num 1 ++ 97%N :: zeros 31).
  vm_compute. repeat split; discriminate.
Qed.
Print Assumptions C51_unpack_canonical_prefix_refuted.

(* what IS proved about accepted non-canonical input (partial form of the
   canonical-prefix clause), word by word for the elementary types: integer and
   boolean words are accepted only in canonical form (the accepted word IS the
   re-encoding), while an address word is accepted with any upper 12 bytes and a
   bytes<n> word with any trailing 32-n bytes, the re-encoding zeroing them. *)
Theorem C51_unpack_canonical_word_partial : forall t w v,
  zlen w = 32 -> forallb byteb w = true -> to_go_type t 0 w = Ok v ->
  match t with
  | TUInt _ | TInt _ | TBool => pack t v = Ok w
  | TAddress => pack t v = Ok (zeros 12 ++ skipn 12 w)
  | TFixedBytes n => (n <= 32)%N -> pack t v = Ok (firstn (N.to_nat n) w ++ zeros (32 - N.to_nat n))
  | _ => True
  end.
Proof. exact canonical_word. Qed.
Print Assumptions C51_unpack_canonical_word_partial.

(* a step towards whole inputs, under the canonical-offset hypothesis: a sole
   bytes argument whose offset word is the canonical 32.  The input is accepted
   whatever follows the l content bytes, and its re-encoding agrees with it on the
   offset word, the length word and the content; only the bytes after the content
   (the padding, and any trailing data) are not compared by the decoder. *)
Theorem C51_unpack_canonical_bytes_partial : forall l rest,
  0 <= l <= zlen rest -> zlen rest + 64 < 2 ^ 63 ->
  let out := pack_num 32 ++ pack_num l ++ rest in
  let c := firstn (Z.to_nat l) rest in
  unpack_args [TBytes] out = Ok [VBytes c] /\
  pack_args [TBytes] [VBytes c] =
    Ok (pack_num 32 ++ pack_num l ++ c ++ zeros (Z.to_nat ((32 - l mod 32) mod 32))).
Proof. exact canonical_bytes. Qed.
Print Assumptions C51_unpack_canonical_bytes_partial.

(* non-vacuity: nested dynamic/static types, a *big.Int width, negative numbers *)
Example C51_nonvacuous :
  let ts := [TTuple [TUInt 24; TArray TString; TInt 64]; TFixedArray 2 TBool; TBytes] in
  let vs := [VList [VInt 70000; VList [VBytes [104; 105]%N; VBytes []]; VInt (-5)];
             VList [VBool true; VBool false]; VBytes [1; 2; 3]%N] in
  forallb ty_rt ts = true /\ forall2b wf_value ts vs = true /\
  match pack_args ts vs with
  | Ok b => enc_args ts vs = Some b /\ length b = 480%nat /\ unpack_args ts b = Ok vs
  | _ => False
  end /\
  unpack_args [TBool] (pack_num 2) = Err EBool /\
  unpack_args [TArray (TUInt 256)] (pack_num 32 ++ pack_num (2 ^ 255)) = Err ELen64.
Proof.
  vm_compute. repeat split; reflexivity.
Qed.
