From GV Require Import Lib.Tactics Abi.Types Abi.Codec.
Example C51_nonvacuous : pack_args [TBool] [VBool true] = Ok (pack_num 1).
Proof. vm_compute. reflexivity. Qed.
