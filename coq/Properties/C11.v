(* Properties/C11.v — Trie generation from flat state reproduces the canonical trie.
   Property theorems only; each is closed by [exact] of a lemma proved in
   Trie/Generate*.v about the model Trie/Generate.v of /repo/triedb/generate.go
   (+ trie/stacktrie_partial.go, trie/node.go MountPartitionRoot/AssembleBranch).
   [H] is any hash function with 32-byte output.

   THE PROPERTY, and where it is proved (see the END TO END block at the bottom):
     gen_root       : generate succeeds -> expected = root of the trie built by ordinary
                      insertion from the corrected flat state              C11_gen_root (full)
     gen_flat       : the flat state afterwards = the corrected flat state  C11_gen_flat (full)
     gen_mismatch   : assembled root <> expected -> error                   C11_gen_mismatch (full)
     totality       : decodable accounts, non-empty live values, right root -> nil; any other root ->
                      exactly the mismatch error                C11_gen_total, C11_gen_total_mismatch (full)
     partition_order_irrelevant : every interleaving of the partitions' writes gives the
                      database of the sequential run; a partition's run is independent of
                      the other partitions' writes   C11_any_schedule, C11_partition_reads_local (full)
     gen_nodes_path : node store = nodes of the state trie (+) nodes of the storage tries
                      C11_gen_nodes_path (full, path scheme, store level: the trie-node key space is
                      exactly the canonical node set, every node once, nothing else);
                      C11_gen_node_writes (both schemes, write level: puts = canonical nodes + at
                      most one orphan, which is deleted afterwards); C11_gen_nodes_hash (hash scheme,
                      store level, collision-free H); C11_builder_emits_exact (the
                      stack-trie callback receives exactly the canonical node set of the trie built)
   [corrected flat state] = storage of non-existent accounts removed, every account's
   root replaced by the root of its actual storage (stale entries re-encoded in slim form,
   all others byte-identical).
   The component theorems (builder, fold, branch, erasure) are kept: C11_gen_root is
   their composition with the merge walk and Canon.v's canon_unique. *)
From Coq Require Import Permutation.
From GV Require Import Lib.Tactics Lib.Interleave Trie.Hex Trie.Node Trie.Ops Trie.Hash Trie.OpsProofs Trie.Canon Trie.Stack Trie.StackProofs Trie.ProofProofs Trie.Commit Trie.CommitTracer Trie.Generate Trie.GenerateProofs Trie.GenerateAssemble Trie.GenerateAssemble2 Trie.GenerateSched Trie.GenerateWalk Trie.GenerateWalk2 Trie.GenerateRoot Trie.GenerateRoot2 Trie.GenerateRoot3 Trie.GenerateFlat2 Trie.GenerateDisjoint2 Trie.GenerateLocal2 Trie.GenerateNodes Trie.GenerateNodes4 Trie.GenerateNodes5 Trie.GenerateNodes6 Trie.GenerateNodes9 Trie.GenerateNodes10 Trie.GenerateNodes11 Trie.GenerateNodes12 Trie.GenerateNodes13 Trie.GenerateTotal2 Trie.GenerateSlim Trie.GenerateSlim2 Trie.GenerateExample Trie.GenerateExample2.
Local Open Scope N_scope.

(* the callback-instrumented stack trie of the model computes exactly what the
   C06 stack-trie model (Trie/Stack.v) computes *)
Theorem C11_callback_erasure : forall H fuel st key value path, xok st ->
  tfst (st_insert_e H fuel st key value path) = st_insert H fuel st key value.
Proof. exact st_insert_e_fst. Qed.
Print Assumptions C11_callback_erasure.

(* (a) the partition builder: hex keys of one length >= 1 (63 nibbles for the
   account trie, 64 for a storage trie) in strictly ascending order with
   non-empty values are all accepted (no error, no panic) and the builder then
   represents a canonical trie whose content is exactly the pairs fed *)
Theorem C11_gen_root_partial_builder : forall H, (forall x, length (H x) = 32%nat) ->
  forall kvs s t L,
    sroot H s t L -> canon t -> (1 <= L)%nat ->
    Forall (fun kv => nibbles (fst kv) /\ length (fst kv) = L /\ snd kv <> []) kvs ->
    hasc (snd s) kvs ->
    exists s' em t', hfeed H s kvs = Some (s', em) /\ sroot H s' t' L /\ canon t' /\
      forall hk, lk t' hk = apply_ops (lk t) (hops kvs) hk.
Proof. exact hfeed_ok. Qed.
Print Assumptions C11_gen_root_partial_builder.

(* ... and Hash() returns the root hash of the represented trie *)
Theorem C11_gen_root_partial_builder_hash : forall H, (forall x, length (H x) = 32%nat) ->
  forall s t L, sroot H s t L ->
    exists h em, st_root_e H s = TOk (h, em) /\ hash_root H t = Some h.
Proof. exact st_root_e_ok. Qed.
Print Assumptions C11_gen_root_partial_builder_hash.

(* (b) exactly one populated partition p with subtree t (canonical, sizes < 2^32,
   root blob >= 32 bytes as for every account trie): the fold *)
Theorem C11_gen_root_partial_fold : forall H, (forall x, length (H x) = 32%nat) ->
  forall sc (p : nat) t e, (p < 16)%nat ->
    can t -> pwf t -> node_enc H t = Some e -> (32 <= length e)%nat ->
    exists e',
      node_enc H (mount (N.of_nat p) t) = Some e' /\
      hash_root H (mount (N.of_nat p) t) = Some (H e') /\
      assemble_root H sc (single_blobs p e) =
        GOk (H e', WNode (node_key sc zero_hash [] (H e')) e' ::
                   (if is_short t then [WNodeDel (node_key sc zero_hash [N.of_nat p] (H e))] else [])).
Proof. exact assemble_single. Qed.
Print Assumptions C11_gen_root_partial_fold.

(* the folded root is canonical and holds the partition's content under nibble p and nothing else *)
Theorem C11_fold_content : forall p t, p < 16 -> can t ->
  can (mount p t) /\ lk (mount p t) [] = None /\
  forall q r, lk (mount p t) (q :: r) = if N.eqb p q then lk t r else None.
Proof.
  exact (fun p t Hp Hc => conj (mount_can p t Hp Hc) (conj (mount_lk_nil p t Hc) (fun q r => mount_lk p t q r Hc))).
Qed.
Print Assumptions C11_fold_content.

(* (b') two or more populated partitions: AssembleBranch over the hashes of the
   subtree-root blobs encodes the 17-slot branch whose children are the partition
   subtries; the root is its hash, the only write is that node at the empty path *)
Theorem C11_gen_root_partial_branch : forall H, (forall x, length (H x) = 32%nat) ->
  forall sc ts, length ts = 16%nat -> Forall (slot_ok H) ts ->
    (2 <= length (filter (fun b : option (list N) => match b with Some _ => true | None => false end) (map (blob_of H) ts)))%nat ->
    exists e,
      node_enc H (NFull (ts ++ [NEmpty])) = Some e /\
      hash_root H (NFull (ts ++ [NEmpty])) = Some (H e) /\
      assemble_root H sc (map (blob_of H) ts) = GOk (H e, [WNode (node_key sc zero_hash [] (H e)) e]).
Proof. exact assemble_many. Qed.
Print Assumptions C11_gen_root_partial_branch.

(* that branch is canonical and holds partition i's content under nibble i *)
Theorem C11_branch_content : forall ts, length ts = 16%nat ->
  (Forall (fun t => t = NEmpty \/ can t) ts -> (2 <= count ts)%nat -> can (NFull (ts ++ [NEmpty]))) /\
  forall q r, lk (NFull (ts ++ [NEmpty])) (q :: r) =
              match nth_error ts (N.to_nat q) with Some t => lk t r | None => None end.
Proof. exact (fun ts HL => conj (many_can ts HL) (fun q r => many_lk ts q r HL)). Qed.
Print Assumptions C11_branch_content.

Theorem C11_gen_root_partial_empty : forall H sc,
  assemble_root H sc (repeat None 16) = GOk (H [128], []) /\ hash_root H NEmpty = Some (H [128]).
Proof. exact assemble_empty. Qed.
Print Assumptions C11_gen_root_partial_empty.

(* GenerateTrie reports "state root mismatch" whenever all partitions and the
   assembly succeeded but the assembled root differs from the expected one *)
Theorem C11_gen_mismatch : forall H sc expected db rs got ws,
  run_partitions H sc db partitions = GOk rs ->
  assemble_root H sc (map r_root rs) = GOk (got, ws) ->
  got <> expected ->
  fst (generate H sc expected db) = GErr GMismatch.
Proof. exact gen_mismatch. Qed.
Print Assumptions C11_gen_mismatch.

(* success means: every partition succeeded, the assembled root IS the expected
   root, and the database is the partitions' writes followed by the assembly's *)
Theorem C11_gen_ok_root : forall H sc expected db st,
  fst (generate H sc expected db) = GOk st ->
  exists rs ws,
    run_partitions H sc db partitions = GOk rs /\
    assemble_root H sc (map r_root rs) = GOk (expected, ws) /\
    snd (generate H sc expected db) =
      apply_ws (fold_left (fun d r => apply_ws d (r_ws r)) rs db) ws.
Proof. exact gen_ok_root. Qed.
Print Assumptions C11_gen_ok_root.

(* schedules: a history is any interleaving of (partition, write); if writes of
   different partitions commute, the database after the history equals the one
   after running the partitions' write lists one after the other *)
Theorem C11_partition_order_irrelevant : forall (ps : list N) (h : hist),
  NoDup ps -> (forall e, In e h -> In (fst e) ps) -> cross_commute h ->
  forall db, apply_ws db (map snd h) = apply_ws db (concat (map (fun p => proj N.eqb p h) ps)).
Proof. exact order_irrelevant. Qed.
Print Assumptions C11_partition_order_irrelevant.

(* writes addressing different keys commute, as seen by every lookup *)
Theorem C11_disjoint_writes_commute : forall w1 w2, w_key w1 <> w_key w2 ->
  forall db which k,
    db_get (apply_w (apply_w db w1) w2) which k = db_get (apply_w (apply_w db w2) w1) which k.
Proof. exact disjoint_commute_lookup. Qed.
Print Assumptions C11_disjoint_writes_commute.

(* ================================================================ END TO END *)

(* gen_root, in full.  [wf_db]: both flat-state iterators are sorted with keys of
   exactly 32 / 64 bytes (what rawdb.NewKeyLengthIterator over an ordered store
   delivers); [small_state]: corrected full account encodings are shorter than
   2^32 bytes.  [state_root H db] is the root hash of the trie built by ORDINARY
   insertion (Trie/Ops.v update_seq from the empty trie) of every account of the
   flat state under its 32-byte hash, with its full RLP whose storage root is
   replaced by the root of the ordinary trie of the slots stored under that
   account hash.  GenerateTrie returns nil only if the expected root is that root,
   whatever the distribution over the sixteen partitions. *)
Theorem C11_gen_root : forall H, (forall x, length (H x) = 32%nat) ->
  forall sc expected db st, wf_db db -> small_state H db ->
    fst (generate H sc expected db) = GOk st -> expected = state_root H db.
Proof. exact gen_root. Qed.
Print Assumptions C11_gen_root.

(* gen_flat, in full: after a successful run the account key space is the
   original one with exactly the stale entries rewritten (corrected root, slim
   form; every other entry byte-identical) and the storage key space is the
   original one minus exactly the entries whose account hash is no account's key. *)
Theorem C11_gen_flat : forall H, (forall x, length (H x) = 32%nat) ->
  forall sc expected db st, wf_db db ->
    fst (generate H sc expected db) = GOk st ->
    g_accts (snd (generate H sc expected db)) = correct_accts H db /\
    g_stor (snd (generate H sc expected db)) = correct_stor db.
Proof. exact gen_flat. Qed.
Print Assumptions C11_gen_flat.

(* TOTALITY, the converse of C11_gen_root: on a well-formed flat state in which every
   account entry decodes ([decodable]) and every slot stored under an existing account
   has a non-empty value ([live_values]), GenerateTrie called with the root of the
   corrected state returns nil: no partition fails (no decode error, no
   "non-ascending key order", no "unexpected nibble", no panic), assembleRoot does
   not fail, and the roots agree ... *)
Theorem C11_gen_total : forall H, (forall x, length (H x) = 32%nat) ->
  forall sc db, wf_db db -> small_state H db -> decodable H db -> live_values db ->
    exists st, fst (generate H sc (state_root H db) db) = GOk st.
Proof. exact gen_total. Qed.
Print Assumptions C11_gen_total.

(* ... and called with any other root it reports exactly the mismatch *)
Theorem C11_gen_total_mismatch : forall H, (forall x, length (H x) = 32%nat) ->
  forall sc expected db, wf_db db -> small_state H db -> decodable H db -> live_values db ->
    expected <> state_root H db -> fst (generate H sc expected db) = GErr GMismatch.
Proof. exact gen_total_mismatch. Qed.
Print Assumptions C11_gen_total_mismatch.

(* the slim round trip: FullAccount (SlimAccountRLP a) = a for every Go StateAccount
   (uint64 nonce, uint256 balance, 32-byte root, non-empty code hash < 2^32 bytes) *)
Theorem C11_slim_round_trip : forall H, (forall x, length (H x) = 32%nat) ->
  forall a, account_ok a -> full_account H (slim_rlp H a) = Some a.
Proof. exact slim_round_trip. Qed.
Print Assumptions C11_slim_round_trip.

(* hence after a successful run the flat account key space has the same keys and every
   entry decodes to the original account with its storage root replaced by the root
   of its actual storage (entries are byte strings shorter than 2^32) *)
Theorem C11_gen_flat_decodes : forall H, (forall x, length (H x) = 32%nat) ->
  forall sc expected db st, wf_db db ->
    Forall (fun kv => Lib.Bytes.bytesb (snd kv) = true /\ Lib.Bytes.lenN (snd kv) < 2 ^ 32) (g_accts db) ->
    fst (generate H sc expected db) = GOk st ->
    Forall2 (fun kv0 kv => fst kv = fst kv0 /\
               exists acc, full_account H (snd kv0) = Some acc /\
                           full_account H (snd kv) = Some (corrected H (g_stor db) (fst kv0) acc))
            (g_accts db) (g_accts (snd (generate H sc expected db))).
Proof. exact gen_flat_decodes. Qed.
Print Assumptions C11_gen_flat_decodes.

(* gen_nodes_path.  (i) The builder: everything the onTrieNode callback receives
   while ascending equal-length keys are fed and Hash() is called is, as a
   multiset, exactly the canonical node set of the trie built ([nodes_of H [] t]:
   every node whose encoding has >= 32 bytes, and the root, each under its path). *)
Theorem C11_builder_emits_exact : forall H, (forall x, length (H x) = 32%nat) ->
  forall kvs L, (1 <= L)%nat ->
    Forall (fun kv => nibbles (fst kv) /\ length (fst kv) = L /\ snd kv <> []) kvs -> hasc [] kvs ->
    exists s em t h emf, hfeed H stack_new kvs = Some (s, em) /\ st_root_e H s = TOk (h, emf) /\
      canon t /\ (forall hk, lk t hk = apply_ops (fun _ => None) (hops kvs) hk) /\ hash_root H t = Some h /\
      Permutation (em ++ emf) (nodes_of H [] t).
Proof. exact builder_emits. Qed.
Print Assumptions C11_builder_emits_exact.

(* (ii) Both schemes, write level: the trie-node puts of a successful run are, as a
   multiset, the canonical node sets of the state trie and of every account's
   storage trie ([spec_nodes], keyed as rawdb keys them) plus at most one orphan
   (the subtree root a lone partition left at [p] when it was a short node); no
   deletion precedes a put, and exactly the orphan is deleted afterwards. *)
Theorem C11_gen_node_writes : forall H, (forall x, length (H x) = 32%nat) ->
  forall sc expected db st, wf_db db -> small_state H db ->
    fst (generate H sc expected db) = GOk st ->
    exists pw dw orphan,
      snd (generate H sc expected db) = apply_ws db (pw ++ dw) /\
      ndels pw = [] /\ nws dw = [] /\ (length orphan <= 1)%nat /\
      Permutation (nws pw) (spec_nodes H sc db ++ orphan) /\
      ndels dw = map fst orphan /\
      (sc = PathScheme -> forall x, In x orphan ->
         (exists path, fst x = 65 :: path) /\
         ~ In (fst x) (map fst (nk H sc zero_hash (nodes_of H [] (state_trie H db))))) /\
      (exists rs ws, run_partitions H sc db partitions = GOk rs /\
         assemble_root H sc (map r_root rs) = GOk (expected, ws) /\
         pw ++ dw = concat (map r_ws rs) ++ ws).
Proof. exact gen_node_writes. Qed.
Print Assumptions C11_gen_node_writes.

(* (iii) gen_nodes_path, in full (path scheme, store level): starting without trie
   nodes and without an account of hash zero, the trie-node key space after a
   successful run is exactly [spec_nodes]: every node of the state trie and of
   every storage trie once, nothing else (no node outside the canonical tries). *)
Theorem C11_gen_nodes_path : forall H, (forall x, length (H x) = 32%nat) ->
  forall expected db st, wf_db db -> small_state H db ->
    g_nodes db = [] -> ~ In zero_hash (map fst (g_accts db)) ->
    fst (generate H PathScheme expected db) = GOk st ->
    Permutation (g_nodes (snd (generate H PathScheme expected db))) (spec_nodes H PathScheme db) /\
    sorted (g_nodes (snd (generate H PathScheme expected db))).
Proof. exact gen_nodes_path. Qed.
Print Assumptions C11_gen_nodes_path.

(* (iv) hash scheme, store level, for a collision-free H: starting without trie nodes,
   a key holds a blob afterwards iff (key, blob) is a canonical node keyed by its hash
   and key is not the hash of the (at most one) orphan that rawdb.DeleteTrieNode
   removed BY HASH - i.e. the store is exactly the canonical node set unless a
   canonical node has the very hash of the deleted orphan. *)
Theorem C11_gen_nodes_hash : forall (H : list N -> list N), (forall x, length (H x) = 32%nat) ->
  (forall a b : list N, H a = H b -> a = b) ->
  forall expected db st, wf_db db -> small_state H db -> g_nodes db = [] ->
    fst (generate H HashScheme expected db) = GOk st ->
    exists orphan, (length orphan <= 1)%nat /\ (forall x, In x orphan -> fst x = H (snd x)) /\
      forall key blob,
        am_get key (g_nodes (snd (generate H HashScheme expected db))) = Some blob <->
        (In (key, blob) (spec_nodes H HashScheme db) /\ ~ In key (map fst orphan)).
Proof. exact gen_nodes_hash. Qed.
Print Assumptions C11_gen_nodes_hash.

(* schedules, discharged for the write lists generate_partition really produces:
   writes of different partitions commute (path scheme: provided no account has
   the all-zero hash; hash scheme: provided equal hashes carry equal blobs) ... *)
Theorem C11_partition_writes_commute : forall H, (forall x, length (H x) = 32%nat) ->
  forall sc db p q rp rq, wf_db db -> scheme_ok H sc db -> p <> q ->
    generate_partition H sc p db = GOk rp -> generate_partition H sc q db = GOk rq ->
    forall w1 w2, In w1 (r_ws rp) -> In w2 (r_ws rq) -> commute w1 w2.
Proof. exact cross_writes_commute. Qed.
Print Assumptions C11_partition_writes_commute.

(* ... hence EVERY interleaving of the sixteen goroutines' writes (a history whose
   projection on each partition is that partition's write list) leaves exactly
   the database the model's sequential [generate] computes ... *)
Theorem C11_any_schedule : forall H, (forall x, length (H x) = 32%nat) ->
  forall sc db rs (h : hist), wf_db db -> scheme_ok H sc db ->
    run_partitions H sc db partitions = GOk rs ->
    Forall2 (fun p r => proj N.eqb p h = r_ws r) partitions rs ->
    (forall e, In e h -> In (fst e) partitions) ->
    apply_ws db (map snd h) = fold_left (fun d r => apply_ws d (r_ws r)) rs db.
Proof. exact any_schedule. Qed.
Print Assumptions C11_any_schedule.

(* ... and a partition's own run does not depend on which writes of the other
   partitions have already reached the database it reads: its result is a
   function of its own slice of the flat state only *)
Theorem C11_partition_reads_local : forall H sc p ws db, wf_db db -> Forall (other p) ws ->
  generate_partition H sc p (apply_ws db ws) = generate_partition H sc p db.
Proof. exact partition_reads_local. Qed.
Print Assumptions C11_partition_reads_local.

Theorem C11_other_partition_writes : forall H, (forall x, length (H x) = 32%nat) ->
  forall sc p q db rq, wf_db db -> p <> q ->
    generate_partition H sc q db = GOk rq -> Forall (other p) (r_ws rq).
Proof. exact other_partition_writes. Qed.
Print Assumptions C11_other_partition_writes.

(* non-vacuity: a concrete state (single partition, extension subtree root, stale
   root, dangling slot) on which generate succeeds against the root computed by
   ordinary insertion, fixes the flat state and deletes the orphan at [3]; it meets
   the hypotheses of C11_gen_root / C11_gen_flat *)
Example C11_nonvacuous : wf_db ex_db /\ small_state toy_hash ex_db /\
  (g_nodes ex_db = [] /\ ~ In zero_hash (map fst (g_accts ex_db))) /\
  (decodable toy_hash ex_db /\ live_values ex_db) /\ ex_check = true.
Proof. exact (conj ex_wf (conj ex_small (conj ex_nozero (conj ex_total_hyps ex_check_true)))). Qed.
